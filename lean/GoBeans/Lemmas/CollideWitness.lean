/-
  C13, part (c): for each mechanism behind the KNOWN FINDINGS a minimal concrete history on which the collision-path
  model `Collide.run` deviates from the reference map `Spec.run` — exactly as the real store does (the same histories
  are corpus/C13/collide-witnesses.txt; harness/cmd/collide replays them on the real code and CollideCheck.lean finds
  model and implementation in agreement on every reply).  Keys a, b, c share one key hash; x is an ordinary key.
  All by `decide` (kernel evaluation of the executable model).
-/
import GoBeans.Model.Collide

namespace CollideWitness
open Collide Store Spec

def hW (k : Key) : Nat := if k = [120] then 1 else 7
def kA : Key := [97]
def kB : Key := [98]
def kC : Key := [99]
def kX : Key := [120]
def T : Nat := 1500000000
def cmds (ops : List Collide.Op) : List Spec.Cmd := ops.filterMap Collide.cmdOf
/-- the model's replies -/
def mdl (ops : List Collide.Op) : List Reply := (Collide.run hW {} {} ops).2
/-- the reference map's replies -/
def ref (ops : List Collide.Op) : List Reply := (Spec.run {} [] (cmds ops)).2
def gcAll (b e : Int) (merge : Bool) : Collide.Op := .gc { start := b, stop := e, noGCDays := 0, now := 1600000000 } merge

/-! ### the write path reads the slot of the key HASH (`checkAndSet` → `get(memOnly)`: "omit collision") -/

/-- W1: a delete of a key that was never written is accepted (the slot belongs to the other key): DELETED, a delete
    marker is written; the reference answers NOT_FOUND -/
def w1 : List Collide.Op := [.set kA [1] 0 0 T 256, .delete kB 256 T, .get kB]
theorem W1_delete_of_unwritten_key_accepted :
    mdl w1 = [.stored, .deleted, .miss] ∧ ref w1 = [.stored, .notFound, .miss] := by decide +kernel

/-- W2: a delete of a LIVE key is refused NOT_FOUND because the slot holds the other key's delete marker; the key
    stays readable although the reference has deleted it -/
def w2 : List Collide.Op := [.set kA [1] 0 0 T 256, .set kB [2] 0 0 T 256, .delete kB 256 T, .delete kA 256 T, .get kA]
theorem W2_delete_of_live_key_refused :
    mdl w2 = [.stored, .stored, .deleted, .notFound, .value 0 [1]]
    ∧ ref w2 = [.stored, .stored, .deleted, .deleted, .miss] := by decide +kernel

/-- W3: an explicit revision is compared with the OTHER key's version: STORED, nothing written, the key reads as
    missing -/
def w3 : List Collide.Op := [.set kA [1] 0 5 T 256, .set kB [2] 0 3 T 256, .get kB]
theorem W3_explicit_revision_compared_with_other_key :
    mdl w3 = [.stored, .stored, .miss] ∧ ref w3 = [.stored, .stored, .value 0 [2]] := by decide +kernel

/-- W10: incr continues from the wrong base (it reads through the same lookup as get) -/
def w10 : List Collide.Op := [.set kA [49, 48] 516 5 T 256, .set kB [55] 516 3 T 256, .incr kB 1 256 T]
theorem W10_incr_from_wrong_base :
    mdl w10 = [.stored, .stored, .num 1] ∧ ref w10 = [.stored, .stored, .num 8] := by decide +kernel

/-! ### a tree rebuilt from hints -/

/-- W4: the replayed delete marker of b removes the slot shared with a (`tree.remove` by key hash); the read path
    consults the hints only on a key MISMATCH, not on an absent slot: the live key a is gone -/
def w4 : List Collide.Op := [.set kA [1] 0 0 T 256, .set kB [2] 0 0 T 256, .delete kB 256 T, .reopen false, .get kA]
theorem W4_replayed_delete_marker_removes_shared_slot :
    mdl w4 = [.stored, .stored, .deleted, .miss] ∧ ref w4 = [.stored, .stored, .deleted, .value 0 [1]] := by decide +kernel

/-! ### `maxChunkID` is 0 in a new process: `hintMgr.getItem` looks at data file 0 only until the first write -/

/-- W5: after a restart (tree dump kept) the hint lookup of the key the slot does not own sees only file 0: miss -/
def w5 : List Collide.Op := [.set kX [9] 0 0 T 256, .reopen true, .set kA [1] 0 0 T 256, .set kB [2] 0 0 T 256, .reopen true, .get kA]
theorem W5_hint_lookup_sees_only_file_0_after_restart :
    mdl w5 = [.stored, .stored, .stored, .miss] ∧ ref w5 = [.stored, .stored, .stored, .value 0 [1]] := by decide +kernel

/-- W6: … or finds the key's SUPERSEDED record in file 0: an older value is served (and entered into the collision table) -/
def w6 : List Collide.Op := [.set kA [1] 0 0 T 256, .reopen true, .set kA [17] 0 0 T 256, .set kB [2] 0 0 T 256, .reopen true, .get kA, .get kA]
theorem W6_older_value_after_restart :
    mdl w6 = [.stored, .stored, .stored, .value 0 [1], .value 0 [1]]
    ∧ ref w6 = [.stored, .stored, .stored, .value 0 [17], .value 0 [17]] := by decide +kernel

end CollideWitness
