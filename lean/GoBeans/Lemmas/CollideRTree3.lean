/-
  C13 (b) with restarts: the slots of the tree after the hint loop — every slot points at a record of its hash; for a key
  the collision table does not know (the only key of its hash) the slot is exactly its last record, present iff live.
-/
import GoBeans.Lemmas.CollideRTree2
set_option linter.unusedSimpArgs false
set_option linter.unusedVariables false
namespace CollideLemmas
open Store Spec HintIndex Collide StoreLemmas HintBufferLemmas HintIndexLemmas

section
variable (hash : Key → Nat)

/-- a key of `U` with a record in data file `i`: the loaded hint chunk of `i` has at least one split file -/
theorem has_file {b : Bucket} {hs1 : Hints} {U : Key → Prop} (tc : TC hash b hs1 U) {o : Key} {i : Nat} {p : Nat × Rec}
    (hl : lastIn o (b.chunks i).recs = some p) : 0 < (loadedCk (hs1.chunks i) (b.chunks i).size).old.length := by
  have hx := tc.hex i o
  rw [hl] at hx
  cases hg : (hs1.chunks i).get (hash o) o with
  | none => rw [hg] at hx; exact hx.elim
  | some it =>
    obtain ⟨hin, _, _⟩ := get_inck (tc.good i) hg
    have hsz : (b.chunks i).size ≠ 0 := by
      have := tc.pos.below i p.1 p.2 (lastIn_mem hl).1
      omega
    unfold loadedCk
    rw [if_neg hsz]
    simp only
    rcases hin with h | ⟨sp, hsp, _⟩
    · rw [tc.empty i] at h; cases h
    · cases ho : (hs1.chunks i).old with
      | nil => rw [ho] at hsp; cases hsp
      | cons _ _ => simp

theorem applied_of_record {b : Bucket} {hs1 : Hints} {U : Key → Prop} (tc : TC hash b hs1 U) (tid : Nat × Int) {o : Key} {i : Nat} {p : Nat × Rec}
    (hl : lastIn o (b.chunks i).recs = some p) (h1 : ¬ i < tid.1) (h2 : i ≠ tid.1 ∨ tid.2 = -1) : Applied tid hs1 b i := by
  have := has_file hash tc hl
  refine ⟨h1, ?_⟩
  rcases h2 with h2 | h2
  · rw [if_neg h2]; omega
  · by_cases hi : i = tid.1
    · rw [if_pos hi, h2]; omega
    · rw [if_neg hi]; omega

/-- an applied file at or below the file of the key's last record: that file is applied too -/
theorem applied_suffix {b : Bucket} {hs1 : Hints} {U : Key → Prop} (tc : TC hash b hs1 U) (tid : Nat × Int) {o : Key} {i c : Nat} {p : Nat × Rec}
    (hi : Applied tid hs1 b i) (hic : i ≤ c) (hl : lastIn o (b.chunks c).recs = some p) : Applied tid hs1 b c := by
  by_cases he : i = c
  · subst he; exact hi
  · exact applied_of_record hash tc tid hl (by have := hi.1; omega) (Or.inl (by have := hi.1; omega))

structure T0OK (b : Bucket) (reg : List Key) (T0 : Tree) : Prop where
  slot : ∀ h ti, AMap.get T0 h = some ti → ∃ o r, hash o = h ∧ b.readAt ti.pos = some r ∧ r.key = o ∧ (ti.pos, r) ∈ b.log ∧ ti.ver = r.ver
          ∧ (o ∉ reg → lastOf o b.log = some (ti.pos, r))

theorem tree_final {b : Bucket} {hs1 : Hints} (reg : List Key)
    (tc : TC hash b hs1 (fun o => (lastOf o b.log).isSome = true ∧ o ∉ reg))
    (ra : ∀ c o r, (o, r) ∈ (b.chunks c).recs → b.readAt ⟨c, o⟩ = some r)
    (sound : ∀ c y, InCk (hs1.chunks c) y → Snd hash b c y)
    (tid : Nat × Int) (mx : Nat) (hmx : b.head = mx + 1) (hemp : ∀ i, mx < i → (b.chunks i).recs = [])
    (T0 T : Tree) (t0 : T0OK hash b reg T0)
    (t0own : tid.2 = -1 ∧ tid.1 = 0 ∨ (∀ k, (lastOf k b.log).isSome = true → k ∉ reg → (∃ p r, lastOf k b.log = some (p, r) ∧ r.ver > 0) →
                ∃ ti, AMap.get T0 (hash k) = some ti))
    (q : Q hash tid b hs1 (fun o => (lastOf o b.log).isSome = true ∧ o ∉ reg) T0 T ((List.range (mx + 1)).filter (fun i => decide (tid.1 ≤ i)))) :
    T0OK hash b reg T
    ∧ (∀ k, (lastOf k b.log).isSome = true → k ∉ reg → (∃ p r, lastOf k b.log = some (p, r) ∧ r.ver > 0) → ∃ ti, AMap.get T (hash k) = some ti) := by
  -- membership in the list of processed files
  have hmemL : ∀ i, i ∈ (List.range (mx + 1)).filter (fun i => decide (tid.1 ≤ i)) ↔ i ≤ mx ∧ tid.1 ≤ i := by
    intro i; simp [List.mem_filter, List.mem_range]; omega
  -- a record in a data file is a record of the log
  have hlogmem : ∀ i off r, (off, r) ∈ (b.chunks i).recs → ((⟨i, off⟩ : Pos), r) ∈ b.log := by
    intro i off r hm
    have hi : i ≤ mx := by
      cases Nat.lt_or_ge mx i with
      | inl h => rw [hemp i h] at hm; cases hm
      | inr h => exact h
    rw [log_eq, List.mem_flatMap]
    refine ⟨i, by simp [hmx]; omega, ?_⟩
    unfold recsAt
    rw [List.mem_map]
    exact ⟨(off, r), hm, rfl⟩
  -- the last record of a key of U decides its slot when its file is applied
  have hkey : ∀ o p rl, (fun o => (lastOf o b.log).isSome = true ∧ o ∉ reg) o → lastOf o b.log = some (p, rl) →
      Applied tid hs1 b p.chunk → SlotIs (AMap.get T (hash o)) p.chunk p.off rl := by
    intro o p rl hU hl hap
    rw [lastOf_log] at hl
    obtain ⟨hlt, hli⟩ := lastDown_some hl
    have habove := lastDown_above hl
    have hpm : p.chunk ≤ mx := by
      cases Nat.lt_or_ge mx p.chunk with
      | inl h' => rw [hemp _ h'] at hli; simp [lastIn] at hli
      | inr h' => exact h'
    exact q.q3 o hU p.chunk ((hmemL _).mpr ⟨hpm, by have := hap.1; omega⟩) hap (p.off, rl) hli
      (fun i' hi' hlt' _ => habove i' hlt' (by rw [hmx]; have := ((hmemL i').mp hi').1; omega))
  -- an applied file with a record of o lies at or below the file of o's last record
  have hbelow : ∀ o p rl i q', lastOf o b.log = some (p, rl) → lastIn o (b.chunks i).recs = some q' → i ≤ p.chunk := by
    intro o p rl i q' hl hq
    rw [lastOf_log] at hl
    have habove := lastDown_above hl
    cases Nat.lt_or_ge p.chunk i with
    | inr h => exact h
    | inl h =>
      have hi : i ≤ mx := by
        cases Nat.lt_or_ge mx i with
        | inl h' => rw [hemp i h'] at hq; simp [lastIn] at hq
        | inr h' => exact h'
      have := habove i h (by rw [hmx]; omega)
      rw [this] at hq; cases hq
  constructor
  · constructor
    intro h ti hT
    rcases q.q1 h ti hT with e | ⟨i, hi, hap, y, yin, yh, yv, ypos, yver⟩
    · exact t0.slot h ti e
    · obtain ⟨r, rm, rk, rv, rh⟩ := sound i y yin
      have hpos : ti.pos = ⟨i, y.off⟩ := ypos
      refine ⟨y.key, r, by rw [← yh, rh], by rw [hpos]; exact ra _ _ _ rm, rk, by rw [hpos]; exact hlogmem _ _ _ rm, by rw [yver, rv], ?_⟩
      intro hnr
      -- y.key is a key of U; its last record decides the slot
      have hsome : (lastOf y.key b.log).isSome = true := by
        cases hlo : lastOf y.key b.log with
        | some _ => rfl
        | none =>
          exfalso
          unfold lastOf at hlo
          rw [List.getLast?_eq_none_iff, List.filter_eq_nil_iff] at hlo
          exact hlo _ (hlogmem _ _ _ rm) (by simp [rk])
      cases hlo : lastOf y.key b.log with
      | none => rw [hlo] at hsome; cases hsome
      | some z =>
        obtain ⟨p, rl⟩ := z
        have hrec : lastIn y.key (b.chunks i).recs ≠ none := by
          intro hn; rw [lastIn_none] at hn; exact hn _ rm rk
        cases hq : lastIn y.key (b.chunks i).recs with
        | none => exact absurd hq hrec
        | some q' =>
          have hle := hbelow y.key p rl i q' hlo hq
          have hlo' := hlo
          rw [lastOf_log] at hlo'
          obtain ⟨_, hli⟩ := lastDown_some hlo'
          have happ : Applied tid hs1 b p.chunk := applied_suffix hash tc tid hap hle hli
          have hs := hkey y.key p rl ⟨hsome, hnr⟩ hlo happ
          rw [← rh, yh, hT] at hs
          by_cases hv : rl.ver > 0
          · obtain ⟨ti', e1, e2, e3⟩ := hs.1 hv
            simp only [Option.some.injEq] at e1
            subst e1
            have hpeq : p = ti.pos := by rw [e2]
            have hrr : r = rl := by
              have h1 := ra _ _ _ rm
              have h2 := ra _ _ _ (lastIn_mem hli).1
              rw [← hpos] at h1
              have h2' : b.readAt p = some rl := by cases p; exact h2
              rw [hpeq] at h2'
              rw [h1] at h2'
              simpa using h2'
            rw [hrr, ← hpeq]
          · have := hs.2 hv
            cases this
  · intro k hks hnr hlive
    obtain ⟨p, rl, hl, hv⟩ := hlive
    have hl' := hl
    rw [lastOf_log] at hl'
    obtain ⟨_, hli⟩ := lastDown_some hl'
    by_cases hap : Applied tid hs1 b p.chunk
    · obtain ⟨ti, e, _, _⟩ := (hkey k p rl ⟨hks, hnr⟩ hl hap).1 hv
      exact ⟨ti, e⟩
    · -- the file of the last record is not applied: no applied file holds a record of k, the slot is the loaded tree's
      have hnone : ∀ i ∈ (List.range (mx + 1)).filter (fun i => decide (tid.1 ≤ i)), Applied tid hs1 b i → lastIn k (b.chunks i).recs = none := by
        intro i _ hai
        cases hq : lastIn k (b.chunks i).recs with
        | none => rfl
        | some q' =>
          exfalso
          exact hap (applied_suffix hash tc tid hai (hbelow k p rl i q' hl hq) hli)
      rw [q.q2 k ⟨hks, hnr⟩ hnone]
      rcases t0own with ⟨h2, h1⟩ | h
      · exfalso
        exact hap (applied_of_record hash tc tid hli (by omega) (Or.inr h2))
      · exact h k hks hnr ⟨p, rl, hl, hv⟩

end
end CollideLemmas
