/-
  Helper lemmas for C09 (record codec): header layout, sizes, round trips, decode soundness,
  resynchronisation.  Property statements are restated in GoBeans/Props/C09.lean.
-/
import GoBeans.Model.Codec
import GoBeans.Lemmas.Hash
set_option linter.unusedSimpArgs false
set_option linter.unusedVariables false
open Codec

namespace CodecLemmas

theorem leBytes_length (n v : Nat) : (Go.leBytes n v).length = n := by
  induction n generalizing v with
  | zero => rfl
  | succ n ih => simp [Go.leBytes, ih]

theorem getLE_leBytes (n v : Nat) (rest : Bytes) : Go.getLE n (Go.leBytes n v ++ rest) = v % 256^n := by
  induction n generalizing v with
  | zero => simp [Go.getLE, Go.leBytes, Nat.mod_one]
  | succ n ih =>
    simp only [Go.leBytes, List.cons_append, Go.getLE]
    rw [ih]
    have h1 : ((v % 256).toUInt8).toNat = v % 256 := by
      simp [Nat.toUInt8, UInt8.toNat_ofNat']
    rw [h1, Nat.pow_succ, Nat.mul_comm (256^n) 256, Nat.mod_mul]


theorem splice_mid (a b c xs : Bytes) (off : Nat) (ha : a.length = off) (hb : b.length = xs.length) :
    Go.splice (a ++ b ++ c) off xs = a ++ xs ++ c := by
  subst ha
  unfold Go.splice
  have h1 : List.take a.length (a ++ b ++ c) = a := by simp [List.append_assoc]
  have h2 : List.drop (a.length + xs.length) (a ++ b ++ c) = c := by
    rw [← hb, List.append_assoc, List.drop_append, List.drop_of_length_le (by omega)]
    simp
  have h3 : List.take ((a ++ b ++ c).length - a.length) xs = xs := by
    apply List.take_of_length_le; simp; omega
  rw [h1, h2, h3]

abbrev le4 (v : Nat) : Bytes := Go.leBytes 4 v
abbrev z4 : Bytes := [0, 0, 0, 0]

theorem zeroHeader_eq : zeroHeader = z4 ++ z4 ++ z4 ++ z4 ++ z4 ++ z4 := by decide

/-- the header bytes with a given crc field -/
def hdr (crc : Bytes) (r : Rec) : Bytes :=
  crc ++ le4 r.ts.toNat ++ le4 r.flag.toNat ++ le4 r.ver.toUInt32.toNat ++ le4 r.ksz.toNat ++ le4 r.vsz.toNat

theorem put_chain (c0 t f v k s : Bytes) (h0 : c0.length = 4) (ht : t.length = 4) (hf : f.length = 4)
    (hv : v.length = 4) (hk : k.length = 4) (hs : s.length = 4) :
    (Go.splice (Go.splice (Go.splice (Go.splice (Go.splice (z4 ++ z4 ++ z4 ++ z4 ++ z4 ++ z4) 4 t) 8 f) 12 v) 16 k) 20 s)
      = z4 ++ t ++ f ++ v ++ k ++ s := by
  have e1 : Go.splice (z4 ++ z4 ++ z4 ++ z4 ++ z4 ++ z4) 4 t = z4 ++ t ++ z4 ++ z4 ++ z4 ++ z4 := by
    have := splice_mid z4 z4 (z4 ++ z4 ++ z4 ++ z4) t 4 rfl (by rw [ht]; rfl)
    simpa [List.append_assoc] using this
  have e2 : Go.splice (z4 ++ t ++ z4 ++ z4 ++ z4 ++ z4) 8 f = z4 ++ t ++ f ++ z4 ++ z4 ++ z4 := by
    have := splice_mid (z4 ++ t) z4 (z4 ++ z4 ++ z4) f 8 (by simp [ht]) (by rw [hf]; rfl)
    simpa [List.append_assoc] using this
  have e3 : Go.splice (z4 ++ t ++ f ++ z4 ++ z4 ++ z4) 12 v = z4 ++ t ++ f ++ v ++ z4 ++ z4 := by
    have := splice_mid (z4 ++ t ++ f) z4 (z4 ++ z4) v 12 (by simp [ht, hf]) (by rw [hv]; rfl)
    simpa [List.append_assoc] using this
  have e4 : Go.splice (z4 ++ t ++ f ++ v ++ z4 ++ z4) 16 k = z4 ++ t ++ f ++ v ++ k ++ z4 := by
    have := splice_mid (z4 ++ t ++ f ++ v) z4 z4 k 16 (by simp [ht, hf, hv]) (by rw [hk]; rfl)
    simpa [List.append_assoc] using this
  have e5 : Go.splice (z4 ++ t ++ f ++ v ++ k ++ z4) 20 s = z4 ++ t ++ f ++ v ++ k ++ s := by
    have := splice_mid (z4 ++ t ++ f ++ v ++ k) z4 [] s 20 (by simp [ht, hf, hv, hk]) (by rw [hs]; rfl)
    simpa [List.append_assoc] using this
  rw [e1, e2, e3, e4, e5]

theorem put_crc (c rest : Bytes) (hc : c.length = 4) : Go.splice (z4 ++ rest) 0 c = c ++ rest := by
  have := splice_mid [] z4 rest c 0 rfl (by rw [hc]; rfl)
  simpa using this

theorem header_eq (r : Rec) :
    header r = hdr (le4 (Gen.getCRC (hdr z4 r) r.key r.body).toNat) r := by
  have l4 : ∀ v, (le4 v).length = 4 := fun v => leBytes_length 4 v
  unfold header Gen.encodeHeader hdr
  simp only [Id.run, pure, bind, Go.putU32]
  rw [zeroHeader_eq, put_chain z4 _ _ _ _ _ rfl (l4 _) (l4 _) (l4 _) (l4 _) (l4 _)]
  have := put_crc (le4 (Gen.getCRC (z4 ++ le4 r.ts.toNat ++ le4 r.flag.toNat ++ le4 r.ver.toUInt32.toNat ++ le4 r.ksz.toNat ++ le4 r.vsz.toNat) r.key r.body).toNat)
      (le4 r.ts.toNat ++ le4 r.flag.toNat ++ le4 r.ver.toUInt32.toNat ++ le4 r.ksz.toNat ++ le4 r.vsz.toNat) (l4 _)
  simpa [List.append_assoc] using this

theorem header_length (r : Rec) : (header r).length = 24 := by
  rw [header_eq]; simp [hdr, leBytes_length]

def recLen (r : Rec) : Nat := 24 + r.key.length + r.body.length

structure ValidSizes (cfg : Cfg) (r : Rec) : Prop where
  klen : r.key.length < 2^16
  blen : r.body.length < 2^31
  kok : Gen.IsValidKeySize cfg.maxKeyLen r.ksz = true
  vok : Gen.IsValidValueSize cfg.bodyMax r.vsz = true

theorem ksz_toNat (r : Rec) (h : r.key.length < 2^32) : r.ksz.toNat = r.key.length := by
  unfold Rec.ksz; rw [HashLemmas.len_cast, Nat.mod_eq_of_lt h]

theorem vsz_toNat (r : Rec) (h : r.body.length < 2^32) : r.vsz.toNat = r.body.length := by
  unfold Rec.vsz; rw [HashLemmas.len_cast, Nat.mod_eq_of_lt h]

theorem sizes_toNat (r : Rec) (h : recLen r + 255 < 2^32) :
    r.sizes.1.toNat = recLen r ∧ r.sizes.2.toNat = (recLen r + 255) / 256 * 256 := by
  unfold Rec.sizes Gen.Sizes recLen at *
  simp only [Id.run, pure, bind]
  have e : (24 : Int64) + Int64.ofNat r.key.length + Int64.ofNat r.body.length = Int64.ofNat (24 + r.key.length + r.body.length) := by
    simp [Int64.ofNat_add]
  rw [e]
  have h1 : (Int64.ofNat (24 + r.key.length + r.body.length)).toInt32.toUInt32.toNat = 24 + r.key.length + r.body.length := by
    rw [HashLemmas.len_cast, Nat.mod_eq_of_lt (by omega)]
  refine ⟨h1, ?_⟩
  simp only [Go.shl32, Go.shr32, show (8:Nat) < 32 by decide, if_true]
  rw [UInt32.toNat_shiftLeft, UInt32.toNat_shiftRight, UInt32.toNat_add, h1]
  have e8 : (Nat.toUInt32 8).toNat % 32 = 8 := by decide
  rw [e8, Nat.shiftRight_eq_div_pow, Nat.shiftLeft_eq]
  have : (24 + r.key.length + r.body.length + UInt32.toNat 255) % 2^32 = 24 + r.key.length + r.body.length + 255 := by
    have : UInt32.toNat 255 = 255 := rfl
    rw [this]; omega
  rw [this]
  omega

theorem len4 (l : Bytes) (h : l.length = 4) : ∃ a b c d, l = [a, b, c, d] := by
  match l, h with
  | [a, b, c, d], _ => exact ⟨a, b, c, d, rfl⟩

theorem dec_chain (c t f v k s : Bytes) (hc : c.length = 4) (ht : t.length = 4) (hf : f.length = 4)
    (hv : v.length = 4) (hk : k.length = 4) (hs : s.length = 4) :
    Gen.decodeHeader (c ++ t ++ f ++ v ++ k ++ s)
      = (Go.getU32 c, Go.getU32 t, Go.getU32 f, (Go.getU32 v).toInt32, Go.getU32 k, Go.getU32 s) := by
  obtain ⟨c0, c1, c2, c3, rfl⟩ := len4 c hc
  obtain ⟨t0, t1, t2, t3, rfl⟩ := len4 t ht
  obtain ⟨f0, f1, f2, f3, rfl⟩ := len4 f hf
  obtain ⟨v0, v1, v2, v3, rfl⟩ := len4 v hv
  obtain ⟨k0, k1, k2, k3, rfl⟩ := len4 k hk
  obtain ⟨s0, s1, s2, s3, rfl⟩ := len4 s hs
  simp [Gen.decodeHeader, Id.run, Go.slice]
  rfl

theorem getU32_le4 (u : UInt32) : Go.getU32 (le4 u.toNat) = u := by
  unfold Go.getU32 le4
  have := getLE_leBytes 4 u.toNat []
  rw [List.append_nil] at this
  rw [this]
  have : u.toNat % 256^4 = u.toNat := Nat.mod_eq_of_lt (by have := u.toNat_lt; omega)
  rw [this]
  exact UInt32.ofNat_toNat

theorem decode_hdr (crc : UInt32) (r : Rec) :
    Gen.decodeHeader (hdr (le4 crc.toNat) r) = (crc, r.ts, r.flag, r.ver, r.ksz, r.vsz) := by
  have l4 : ∀ v, (le4 v).length = 4 := fun v => leBytes_length 4 v
  unfold hdr
  rw [dec_chain _ _ _ _ _ _ (l4 _) (l4 _) (l4 _) (l4 _) (l4 _) (l4 _)]
  simp [getU32_le4]

theorem valid_bound {cfg : Cfg} {r : Rec} (hv : ValidSizes cfg r) : recLen r + 255 < 2^32 := by
  have := hv.klen; have := hv.blen; unfold recLen; omega

theorem padded_facts (r : Rec) (h : recLen r + 255 < 2^32) :
    r.padded = (recLen r + 255) / 256 * 256 ∧ r.padded % 256 = 0 ∧ recLen r ≤ r.padded ∧ r.padded < recLen r + 256 := by
  have := (sizes_toNat r h).2
  unfold Rec.padded
  rw [this]
  omega

theorem encode_eq (r : Rec) (h : recLen r + 255 < 2^32) :
    encode r = header r ++ r.key ++ r.body ++ List.replicate (r.padded - recLen r) 0 := by
  unfold encode
  have hs := sizes_toNat r h
  have hp := padded_facts r h
  have : (r.sizes.2 - r.sizes.1).toNat = r.padded - recLen r := by
    rw [UInt32.toNat_sub_of_le]
    · rw [hs.1]; rfl
    · rw [UInt32.le_iff_toNat_le, hs.1]; exact hp.2.2.1
  simp only [this]

theorem encode_length (r : Rec) (h : recLen r + 255 < 2^32) : (encode r).length = r.padded := by
  rw [encode_eq r h]
  have := padded_facts r h
  simp [header_length, recLen] at *
  omega

theorem getCRC_congr (h1 h2 k b : Bytes) (e : h1.drop 4 = h2.drop 4) : Gen.getCRC h1 k b = Gen.getCRC h2 k b := by
  unfold Gen.getCRC
  simp only [Id.run, pure, bind, e]

theorem header_crc (r : Rec) : Gen.getCRC (header r) r.key r.body = Gen.getCRC (hdr z4 r) r.key r.body := by
  apply getCRC_congr
  rw [header_eq]
  have l4 : ∀ v, (le4 v).length = 4 := fun v => leBytes_length 4 v
  simp [hdr, List.append_assoc, l4]

theorem roundtrip_at (cfg : Cfg) (pre post : Bytes) (r : Rec) (hv : ValidSizes cfg r) :
    decodeAt cfg (pre ++ encode r ++ post) pre.length = .ok (r, r.padded) := by
  have hb := valid_bound hv
  have hk : r.ksz.toNat = r.key.length := ksz_toNat r (by have := hv.klen; omega)
  have hvz : r.vsz.toNat = r.body.length := vsz_toNat r (by have := hv.blen; omega)
  have hlen := header_length r
  unfold decodeAt
  rw [encode_eq r hb]
  have e1 : List.take 24 (List.drop pre.length (pre ++ (header r ++ r.key ++ r.body ++ List.replicate (r.padded - recLen r) 0) ++ post)) = header r := by
    simp [List.append_assoc, List.take_append_of_le_length, hlen]
  have e2 : List.take (r.ksz.toNat + r.vsz.toNat) (List.drop (pre.length + 24) (pre ++ (header r ++ r.key ++ r.body ++ List.replicate (r.padded - recLen r) 0) ++ post)) = r.key ++ r.body := by
    rw [hk, hvz]
    have : pre.length + 24 = (pre ++ header r).length := by simp [hlen]
    rw [this]
    simp only [List.append_assoc]
    rw [← List.append_assoc pre, List.drop_left]
    rw [← List.append_assoc r.key, List.take_left' (by simp)]
  simp only [e1]
  rw [header_eq, decode_hdr, ← header_eq]
  simp only [hv.kok, hv.vok, e2, Bool.not_true, Bool.false_eq_true, if_false]
  simp [hk, hvz, header_crc, hlen]

theorem next_at (cfg : Cfg) (pre post : Bytes) (r : Rec) (hv : ValidSizes cfg r) :
    next cfg (pre ++ encode r ++ post) pre.length = some (.ok (pre.length, r, pre.length + r.padded)) := by
  have hb := valid_bound hv
  have hlen : 24 ≤ (encode r).length := by
    rw [encode_length r hb]; have := padded_facts r hb; unfold recLen at this; omega
  unfold next
  rw [roundtrip_at cfg pre post r hv]
  have hd : (List.drop pre.length (pre ++ encode r ++ post)).length = (encode r).length + post.length := by
    simp [List.append_assoc]
  have h0 : ¬ (List.drop pre.length (pre ++ encode r ++ post)).length = 0 := by rw [hd]; omega
  have h1 : ¬ (List.drop pre.length (pre ++ encode r ++ post)).length < 24 := by rw [hd]; omega
  simp only [h0, h1, if_false]

def withOffsets : Nat → List Rec → List (Nat × Rec)
  | _, [] => []
  | off, r :: rs => (off, r) :: withOffsets (off + r.padded) rs

theorem encodeAll_cons (r : Rec) (rs : List Rec) : encodeAll (r :: rs) = encode r ++ encodeAll rs := rfl

theorem scanFrom_encodeAll (cfg : Cfg) (rs : List Rec) (hv : ∀ r ∈ rs, ValidSizes cfg r) :
    ∀ (pre : Bytes) (fuel : Nat), rs.length < fuel →
      scanFrom cfg (pre ++ encodeAll rs) fuel pre.length = (withOffsets pre.length rs, .eof) := by
  induction rs with
  | nil =>
    intro pre fuel hf
    match fuel, hf with
    | k + 1, _ =>
      simp [scanFrom, next, encodeAll, withOffsets]
  | cons r rs ih =>
    intro pre fuel hf
    match fuel, hf with
    | k + 1, hf =>
      have hr := hv r (by simp)
      have hb := valid_bound hr
      unfold scanFrom
      rw [encodeAll_cons, ← List.append_assoc, next_at cfg pre (encodeAll rs) r hr]
      have hl : (pre ++ encode r).length = pre.length + r.padded := by simp [encode_length r hb]
      have := ih (fun x hx => hv x (by simp [hx])) (pre ++ encode r) k (by simp at hf; omega)
      rw [hl] at this
      simp only [this, withOffsets]

theorem padded_ge (r : Rec) (h : recLen r + 255 < 2^32) : 256 ≤ r.padded := by
  have := padded_facts r h
  unfold recLen at *
  omega

theorem encodeAll_length (cfg : Cfg) (rs : List Rec) (hv : ∀ r ∈ rs, ValidSizes cfg r) :
    256 * rs.length ≤ (encodeAll rs).length := by
  induction rs with
  | nil => simp [encodeAll]
  | cons r rs ih =>
    have hr := hv r (by simp)
    have := ih (fun x hx => hv x (by simp [hx]))
    have := padded_ge r (valid_bound hr)
    rw [encodeAll_cons, List.length_append, encode_length r (valid_bound hr)]
    simp; omega

theorem roundtrip_scan (cfg : Cfg) (rs : List Rec) (hv : ∀ r ∈ rs, ValidSizes cfg r) :
    scan cfg (encodeAll rs) 0 = (withOffsets 0 rs, .eof) := by
  unfold scan
  have := scanFrom_encodeAll cfg rs hv [] ((encodeAll rs).length / 256 + 2)
    (by have := encodeAll_length cfg rs hv; omega)
  simpa using this

theorem decode_sound (cfg : Cfg) (f : Bytes) (off : Nat) (r : Rec) (n : Nat)
    (h : decodeAt cfg f off = .ok (r, n)) :
    let hd := (f.drop off).take 24
    let d := Gen.decodeHeader hd
    hd.length = 24
    ∧ Gen.IsValidKeySize cfg.maxKeyLen d.2.2.2.2.1 = true ∧ Gen.IsValidValueSize cfg.bodyMax d.2.2.2.2.2 = true
    ∧ r.key ++ r.body = (f.drop (off + 24)).take (d.2.2.2.2.1.toNat + d.2.2.2.2.2.toNat)
    ∧ r.key.length = d.2.2.2.2.1.toNat
    ∧ (r.flag, r.ver, r.ts) = (d.2.2.1, d.2.2.2.1, d.2.1)
    ∧ d.1 = Gen.getCRC hd r.key r.body
    ∧ n = r.padded := by
  intro hd d
  unfold decodeAt at h
  simp only [] at h
  split at h
  · cases h
  · rename_i hlen
    split at h
    · cases h
    · rename_i hk
      split at h
      · cases h
      · rename_i hvv
        split at h
        · cases h
        · rename_i hkv
          split at h
          · cases h
          · rename_i hcrc
            simp only [Except.ok.injEq, Prod.mk.injEq] at h
            obtain ⟨hr, hn⟩ := h
            subst hr
            have hl : hd.length = 24 := by
              have h1 : hd.length ≤ 24 := List.length_take_le _ _
              have h2 : ¬ hd.length < 24 := hlen
              omega
            have hkv' : d.2.2.2.2.1.toNat + d.2.2.2.2.2.toNat ≤
                ((f.drop (off + 24)).take (d.2.2.2.2.1.toNat + d.2.2.2.2.2.toNat)).length := Nat.le_of_not_lt hkv
            refine ⟨hl, by simpa using hk, by simpa using hvv, ?_, ?_, rfl, ?_, hn.symm⟩
            · exact List.take_append_drop _ _
            · show (List.take d.2.2.2.2.1.toNat ((f.drop (off + 24)).take (d.2.2.2.2.1.toNat + d.2.2.2.2.2.toNat))).length = _
              rw [List.length_take]; omega
            · simpa using hcrc

theorem nextValid_skips (cfg : Cfg) (f : Bytes) (r : Rec) (sz : Nat) :
    ∀ (k a fuel : Nat), k < fuel → a + 256 * k < f.length →
      (∀ j, j < k → ∃ e, decodeAt cfg f (a + 256 * j) = .error e) →
      decodeAt cfg f (a + 256 * k) = .ok (r, sz) →
      nextValid cfg f fuel a = some (a + 256 * k, r, sz) := by
  intro k
  induction k with
  | zero =>
    intro a fuel hf hlen _ good
    match fuel, hf with
    | n + 1, _ =>
      simp only [Nat.mul_zero, Nat.add_zero] at *
      simp [nextValid, hlen, good]
  | succ k ih =>
    intro a fuel hf hlen bad good
    match fuel, hf with
    | n + 1, hf =>
      obtain ⟨e, he⟩ := bad 0 (by omega)
      simp only [Nat.mul_zero, Nat.add_zero] at he
      have hl : a < f.length := by omega
      have := ih (a + 256) n (by omega) (by omega)
        (fun j hj => by
          obtain ⟨e', he'⟩ := bad (j + 1) (by omega)
          exact ⟨e', by rw [← he']; congr 1; omega⟩)
        (by rw [← good]; congr 1; omega)
      simp only [nextValid, hl, if_true, he]
      rw [this]
      congr 2; omega
end CodecLemmas

namespace CodecLemmas

theorem nextValid_none (cfg : Cfg) (f : Bytes) :
    ∀ (fuel a : Nat), (∀ j, a + 256 * j < f.length → ∃ e, decodeAt cfg f (a + 256 * j) = .error e) →
      nextValid cfg f fuel a = none := by
  intro fuel
  induction fuel with
  | zero => intro a _; rfl
  | succ n ih =>
    intro a bad
    unfold nextValid
    by_cases hl : a < f.length
    · obtain ⟨e, he⟩ := bad 0 (by simpa using hl)
      simp only [Nat.mul_zero, Nat.add_zero] at he
      simp only [hl, if_true, he]
      apply ih
      intro j hj
      have := bad (j + 1) (by omega)
      obtain ⟨e', he'⟩ := this
      exact ⟨e', by rw [← he']; congr 1; omega⟩
    · simp [hl]

/-- every 256-aligned offset below `upto` fails to decode -/
def NoFalseSync (cfg : Cfg) (f : Bytes) (upto : Nat) : Prop :=
  ∀ off, off < upto → off % 256 = 0 → ∃ e, decodeAt cfg f off = .error e

theorem next_in_junk (cfg : Cfg) (pre post : Bytes) (r : Rec) (hv : ValidSizes cfg r)
    (off : Nat) (hoff : off % 256 = 0) (hlt : off < pre.length) (hpre : pre.length % 256 = 0)
    (hns : NoFalseSync cfg (pre ++ encode r ++ post) pre.length) :
    next cfg (pre ++ encode r ++ post) off = some (.ok (pre.length, r, pre.length + r.padded)) := by
  have hb := valid_bound hv
  have hpad := padded_facts r hb
  have henc : (encode r).length = r.padded := encode_length r hb
  have hflen : (pre ++ encode r ++ post).length = pre.length + r.padded + post.length := by simp [henc]; omega
  obtain ⟨k, hk⟩ : ∃ k, pre.length = off + 256 * k := ⟨(pre.length - off) / 256, by omega⟩
  have hres : nextValid cfg (pre ++ encode r ++ post) ((pre ++ encode r ++ post).length / 256 + 2) (off / 256 * 256)
      = some (pre.length, r, r.padded) := by
    have e : off / 256 * 256 = off := by omega
    rw [e, hk]
    apply nextValid_skips cfg _ r r.padded k off
    · rw [hflen]; unfold recLen at hpad; omega
    · rw [hflen]; unfold recLen at hpad; omega
    · intro j hj; exact hns _ (by omega) (by omega)
    · rw [← hk]; exact roundtrip_at cfg pre post r hv
  obtain ⟨e, he⟩ := hns off hlt hoff
  unfold next
  have h0 : ¬ (List.drop off (pre ++ encode r ++ post)).length = 0 := by
    rw [List.length_drop, hflen]; unfold recLen at hpad; omega
  have h1 : ¬ (List.drop off (pre ++ encode r ++ post)).length < 24 := by
    rw [List.length_drop, hflen]; unfold recLen at hpad; omega
  simp only [h0, h1, if_false, he, hres]
  cases e <;> rfl

theorem next_all_junk (cfg : Cfg) (f : Bytes) (hns : NoFalseSync cfg f f.length) (hlen : f.length % 256 = 0) :
    next cfg f 0 = none ∨ next cfg f 0 = some (.error ()) := by
  unfold next
  by_cases h0 : (List.drop 0 f).length = 0
  · left; simp only [h0, ↓reduceIte]
  · by_cases h1 : (List.drop 0 f).length < 24
    · right; simp only [h0, h1, ↓reduceIte]
    · have hpos : 0 < f.length := by
        have : (List.drop 0 f).length = f.length := by simp
        omega
      obtain ⟨e, he⟩ := hns 0 hpos rfl
      have hnv : nextValid cfg f (f.length / 256 + 2) (0 / 256 * 256) = none := by
        apply nextValid_none
        intro j hj
        exact hns _ (by simpa using hj) (by omega)
      simp only [h0, h1, ↓reduceIte, he, hnv]
      cases e <;> simp

theorem scan_after_damage (cfg : Cfg) (pre : Bytes) (rs : List Rec) (hpre : pre.length % 256 = 0)
    (hv : ∀ r ∈ rs, ValidSizes cfg r) (hns : NoFalseSync cfg (pre ++ encodeAll rs) pre.length) :
    (scan cfg (pre ++ encodeAll rs) 0).1 = withOffsets pre.length rs := by
  by_cases hp : pre = []
  · subst hp
    have := roundtrip_scan cfg rs hv
    simp at this ⊢
    rw [this]
  · have hplen : 0 < pre.length := List.length_pos_iff.mpr hp
    cases rs with
    | nil =>
      simp only [encodeAll, List.foldr_nil, List.append_nil, withOffsets] at *
      unfold scan scanFrom
      rcases next_all_junk cfg pre hns hpre with h | h <;> simp [h]
    | cons r rs =>
      have hr := hv r (by simp)
      have hb := valid_bound hr
      have hge := padded_ge r hb
      have hall := encodeAll_length cfg rs (fun x hx => hv x (by simp [hx]))
      unfold scan
      rw [encodeAll_cons, ← List.append_assoc] at *
      have hfl : (pre ++ encode r ++ encodeAll rs).length = pre.length + r.padded + (encodeAll rs).length := by
        simp [encode_length r hb]; omega
      have hnext := next_in_junk cfg pre (encodeAll rs) r hr 0 rfl hplen hpre hns
      have hfuel : ∃ n, (pre ++ encode r ++ encodeAll rs).length / 256 + 2 = n + 1 ∧ rs.length < n := by
        refine ⟨(pre ++ encode r ++ encodeAll rs).length / 256 + 1, rfl, ?_⟩
        rw [hfl]; omega
      obtain ⟨n, hn, hlt⟩ := hfuel
      rw [hn]
      unfold scanFrom
      rw [hnext]
      have hl : (pre ++ encode r).length = pre.length + r.padded := by simp [encode_length r hb]
      have := scanFrom_encodeAll cfg rs (fun x hx => hv x (by simp [hx])) (pre ++ encode r) n hlt
      rw [hl] at this
      simp only [this, withOffsets]
end CodecLemmas
