/-
  Reply round trip (C11), part 6: the `stats` listing from `Resp.write` to the wire and back; the listing
  `Response.Read` refuses; non-vacuity examples (a body that contains "\r\nEND\r\n" and a VALUE look-alike).
-/
import GoBeans.Lemmas.ProtoRespItems

namespace Proto

/-- the segments `processStats` produces -/
def StatSeg (s : Seg) : Prop := (∃ (k : Bytes) (v : Nat), s = statLine k v) ∨ (∃ k, s = .statVal k) ∨ s = .statsAll

/-- the (name, value) lines a `stats` message stands for: a known counter prints its number, an untracked statistic
    any value, the full listing any lines -/
inductive StatCarries : List Seg → List (Bytes × Bytes) → Prop
  | nil : StatCarries [] []
  | line (k : Bytes) (v : Nat) {ss : List Seg} {nvs : List (Bytes × Bytes)} (h : StatCarries ss nvs) :
      StatCarries (statLine k v :: ss) ((k, itoa v) :: nvs)
  | val (k v : Bytes) {ss : List Seg} {nvs : List (Bytes × Bytes)} (h : StatCarries ss nvs) :
      StatCarries (.statVal k :: ss) ((k, v) :: nvs)
  | all (l : List (Bytes × Bytes)) {ss : List Seg} {nvs : List (Bytes × Bytes)} (h : StatCarries ss nvs) :
      StatCarries (.statsAll :: ss) (l ++ nvs)

theorem statLines_append (a b : List (Bytes × Bytes)) : statLines (a ++ b) = statLines a ++ statLines b := by
  simp [statLines]

theorem stat_segs_bytes (msg : List Seg) (hmsg : ∀ s ∈ msg, StatSeg s) (b : Bytes) (h : SegsBytes msg b) :
    ∃ nvs, StatCarries msg nvs ∧ b = statLines nvs := by
  induction msg generalizing b with
  | nil => exact ⟨[], .nil, by rw [h.nil_inv]; rfl⟩
  | cons s ss ih =>
    obtain ⟨b1, b2, h1, h2, rfl⟩ := SegsBytes.cons_inv h
    obtain ⟨nvs, hc, rfl⟩ := ih (fun x hx => hmsg x (by simp [hx])) b2 h2
    rcases hmsg s (by simp) with ⟨k, v, rfl⟩ | ⟨k, rfl⟩ | rfl
    · have : b1 = statLineB k (itoa v) := h1.lit_inv
      exact ⟨(k, itoa v) :: nvs, .line k v hc, by rw [this]; simp [statLines]⟩
    · cases h1 with
      | statVal _ v => exact ⟨(k, v) :: nvs, .val k v hc, by simp [statLines]⟩
    · cases h1 with
      | statsAll l => exact ⟨l ++ nvs, .all l hc, by rw [statLines_append]⟩

/-- **`stats` replies**: every line's name and value come back (as the reply's items, in order; a repeated name keeps
    its last value); hypothesis on the bytes the model leaves open: names and values are tokens -/
theorem readResp_wire_stat (cfg : Cfg) (msg : List Seg) (hmsg : ∀ s ∈ msg, StatSeg s) (w : Bytes)
    (hw : (Resp.stat msg).Wire w) :
    ∃ nvs : List (Bytes × Bytes), StatCarries msg nvs ∧ w = statLines nvs ++ endLine ∧
      ∀ (rest : Bytes) (fuel : Nat), (∀ nv ∈ nvs, Tok nv.1 ∧ Tok nv.2) → nvs.length + 1 ≤ fuel →
        readResp cfg fuel (w ++ rest) []
          = some ({ status := ascii "END", msg := [], items := (nvs.map statItem).foldl putItem [] }, rest) := by
  have hs := wire_tail_only rfl hw
  obtain ⟨b1, b2, h1, h2, rfl⟩ := SegsBytes.append_inv (show SegsBytes (msg ++ [Seg.lit endLine]) w from hs)
  obtain ⟨nvs, hc, rfl⟩ := stat_segs_bytes msg hmsg b1 h1
  rw [h2.single_lit_inv]
  exact ⟨nvs, hc, rfl, fun rest fuel ht hf => readResp_stats cfg nvs ht rest fuel hf []⟩

/-- what `processStats` replies is such a message -/
theorem processStats_statSegs (st : St) (r : Req) :
    ∃ msg, (processStats st r).2.1 = some (.stat msg) ∧ ∀ s ∈ msg, StatSeg s := by
  unfold processStats
  split
  · exact ⟨[.statsAll], rfl, by intro s hs; simp at hs; subst hs; exact Or.inr (Or.inr rfl)⟩
  · refine ⟨_, rfl, ?_⟩
    intro s hs
    obtain ⟨k, _, rfl⟩ := List.mem_map.mp hs
    split
    · exact Or.inl ⟨_, _, rfl⟩
    · exact Or.inr (Or.inl ⟨_, rfl⟩)

/-- the refused class, on the wire: a full `stats` listing whose last line is "STAT version " + an empty
    config.Version (the model's default) is a wire form of the reply and `readResp` rejects it -/
theorem readResp_wire_stat_refused (cfg : Cfg) (rest : Bytes) (fuel : Nat) :
    (Resp.stat [.statsAll]).Wire (statLines [(ascii "version", [])] ++ endLine)
    ∧ readResp cfg fuel (statLines [(ascii "version", [])] ++ endLine ++ rest) [] = none := by
  refine ⟨⟨[], statLines [(ascii "version", [])] ++ endLine, by simp [Resp.write], by simp, ?_, by simp⟩,
    readResp_stat_empty_value_refused cfg fuel rest []⟩
  exact SegsBytes.cons (SegBytes.statsAll _) (SegsBytes.single_lit _)

/-! ### non-vacuity -/

/-- two items; the first body contains the reply terminator and a VALUE header look-alike, the second NUL CR LF -/
def exItems : List PItem :=
  [{ key := ascii "a", flag := 7, cas := 3, body := ascii "x\r\nEND\r\nVALUE b 0 1\r\n" },
   { key := ascii "b", flag := 0, cas := 4, body := [0, 13, 10] }]

example : valueWire false exItems
    = ascii "VALUE a 7 21\r\nx\r\nEND\r\nVALUE b 0 1\r\n\r\nVALUE b 0 3\r\n" ++ [0, 13, 10] ++ ascii "\r\nEND\r\n" := by decide +kernel

/-- the model's parser, run: both items come back byte for byte and the pipelined next reply is left untouched -/
example : readResp {} 3 (valueWire true exItems ++ ascii "STORED\r\n") []
    = some ({ status := ascii "END", items := exItems }, ascii "STORED\r\n") := by decide +kernel

example : readResp {} 3 (valueWire false exItems ++ ascii "STORED\r\n") []
    = some ({ status := ascii "END", items := exItems.map (PItem.norm false) }, ascii "STORED\r\n") := by decide +kernel

theorem exItems_ok : ∀ p ∈ exItems, ItemOK {} p := by
  intro p hp
  simp only [exItems, List.mem_cons, List.mem_nil_iff, or_false] at hp
  rcases hp with rfl | rfl <;>
    exact ⟨⟨by decide, by decide, by decide⟩, ⟨by decide, by decide⟩, ⟨by decide, by decide⟩, by decide⟩

/-- the theorem, instantiated: its hypotheses hold for this reply -/
example : ∃ ps : List PItem, ps.Perm exItems ∧ ∀ (rest : Bytes) (fuel : Nat), 3 ≤ fuel →
    readResp {} fuel (valueWire true exItems ++ rest) []
      = some ({ status := ascii "END", msg := [], items := ps.map (PItem.norm true) }, rest) :=
  readResp_wire_value_lit {} (by decide) true exItems exItems_ok (by decide) _ (wire_value_lit true exItems)

/-- replies in a pipeline stay in step: a VALUE reply, then STORED, then a number -/
example : ∀ (fuel : Nat), 3 ≤ fuel → ∀ rest : Bytes,
    readResp {} fuel (valueWire false exItems ++ (lineWire (ascii "STORED") [] ++ (numWire (itoa 42) ++ rest))) []
      = some ({ status := ascii "END", items := exItems.map (PItem.norm false) },
              lineWire (ascii "STORED") [] ++ (numWire (itoa 42) ++ rest))
    ∧ readResp {} fuel (lineWire (ascii "STORED") [] ++ (numWire (itoa 42) ++ rest)) []
      = some ({ status := ascii "STORED" }, numWire (itoa 42) ++ rest)
    ∧ readResp {} fuel (numWire (itoa 42) ++ rest) [] = some ({ status := ascii "INCR", msg := ascii "42" }, rest) := by
  intro fuel hf rest
  obtain ⟨f, rfl⟩ : ∃ f, fuel = f + 1 := ⟨fuel - 1, by omega⟩
  refine ⟨?_, readResp_line_end {} f _ _ [] (by decide), ?_⟩
  · have := readResp_values {} (by decide) false exItems exItems_ok
      (lineWire (ascii "STORED") [] ++ (numWire (itoa 42) ++ rest)) (f + 1) (by simpa [exItems] using hf) []
    rw [this]
    have : (exItems.map (PItem.norm false)).foldl putItem [] = exItems.map (PItem.norm false) := by decide +kernel
    rw [this]
  · have := readResp_num {} f 42 (by constructor <;> decide) rest []
    have e : itoa 42 = ascii "42" := by decide +kernel
    rw [e] at this ⊢
    exact this

end Proto
