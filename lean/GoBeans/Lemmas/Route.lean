/- C15 helper: the regenerated `ParsePathUint64` yields the 16 hex digits of the key hash, most significant first. -/
import GoBeans.Gen.Kernels
namespace RouteLemmas
def zeros16 : List Int64 := List.replicate 16 0
theorem parsePath_eq (kh : UInt64) :
    Gen.ParsePathUint64 kh zeros16 = (List.range 16).map (fun i => ((Go.shr64 kh (4 * (15 - i))).toInt64 &&& 15)) := by
  unfold Gen.ParsePathUint64
  simp only [Id.run, Std.Legacy.Range.forIn_eq_forIn_range', Std.Legacy.Range.size]
  simp [List.range', zeros16, List.range, List.range.loop]
  rfl
end RouteLemmas
