/-
  Helper lemmas for C16: the regenerated hash/CRC kernels equal the reference definitions.
  (The property statements themselves are restated in GoBeans/Props/C16.lean.)
-/
import GoBeans.Gen.Kernels
import GoBeans.Spec.Hash
set_option linter.unusedSimpArgs false
namespace HashLemmas

theorem forall_uint8 {P : UInt8 → Prop} (h : ∀ i : Fin 256, P (UInt8.ofFin i)) (b : UInt8) : P b := by
  have := h b.toFin; simpa using this

theorem signExt_byte (b : UInt8) : b.toInt8.toInt32.toUInt32.toNat = Ref.signExt32 b := by
  revert b; apply forall_uint8; decide +kernel

theorem gen_fnv1a_eq_fold (bs : Bytes) :
    Gen.fnv1a bs = bs.foldl (fun h b => (h ^^^ b.toInt8.toInt32.toUInt32) * 16777619) 2166136261 := by
  simp [Gen.fnv1a, Id.run]; rfl

theorem fnv_fold (bs : Bytes) (h : UInt32) :
    (bs.foldl (fun h b => (h ^^^ b.toInt8.toInt32.toUInt32) * 16777619) h).toNat
      = bs.foldl (fun h b => ((h ^^^ Ref.signExt32 b) * 16777619) % 2^32) h.toNat := by
  induction bs generalizing h with
  | nil => rfl
  | cons b bs ih =>
    simp only [List.foldl_cons]
    rw [ih, UInt32.toNat_mul, UInt32.toNat_xor, signExt_byte]
    rfl

theorem L_fnv (bs : Bytes) : (Gen.fnv1a bs).toNat = Ref.fnv1aSigned bs := by
  rw [gen_fnv1a_eq_fold, fnv_fold]; rfl

theorem gen_utilsFnv1a_eq (bs : Bytes) : Gen.utilsFnv1a bs = Gen.fnv1a bs := by
  simp [Gen.fnv1a, Gen.utilsFnv1a, Id.run]

theorem utilsFnv_toNat (bs : Bytes) : (Gen.utilsFnv1a bs).toNat = Ref.fnv1aSigned bs := by
  rw [gen_utilsFnv1a_eq, L_fnv]


theorem len_cast (n : Nat) : (Int64.ofNat n).toInt32.toUInt32.toNat = n % 2^32 := by
  simp [UInt32.toNat_ofNat']

theorem ofNat_le_1024 (n : Nat) (h : n < 2^63) : (Int64.ofNat n ≤ 1024) ↔ n ≤ 1024 := by
  rw [Int64.le_iff_toInt_le, Int64.toInt_ofNat_of_lt h]
  simp; omega

theorem L_vhash (bs : Bytes) (hlen : bs.length < 2^63) : (Gen.Getvhash bs).toNat = Ref.vhash bs := by
  unfold Gen.Getvhash Ref.vhash
  simp only [Id.run, bind, pure]
  by_cases h : bs.length ≤ 1024
  · have h' : (Int64.ofNat bs.length ≤ 1024) := (ofNat_le_1024 _ hlen).2 h
    simp [h, h', UInt32.toNat_add, UInt32.toNat_mul, len_cast, utilsFnv_toNat]
  · have h' : ¬ (Int64.ofNat bs.length ≤ 1024) := fun c => h ((ofNat_le_1024 _ hlen).1 c)
    have h512 : (512 : Int64) ≤ Int64.ofNat bs.length := by
      rw [Int64.le_iff_toInt_le, Int64.toInt_ofNat_of_lt hlen]; simp; omega
    have e1 : (Int64.ofNat bs.length - 512).toNatClampNeg = bs.length - 512 := by
      rw [Int64.toNatClampNeg_sub_of_le (by decide) h512, Int64.toNatClampNeg_ofNat_of_lt hlen]; rfl
    have e2 : (Int64.ofNat bs.length).toNatClampNeg = bs.length := Int64.toNatClampNeg_ofNat_of_lt hlen
    simp [h, h', UInt32.toNat_add, UInt32.toNat_mul, len_cast, utilsFnv_toNat, e1, e2, Go.slice]

open Ref

def crc8 (c : Nat) : Nat := crcBit (crcBit (crcBit (crcBit (crcBit (crcBit (crcBit (crcBit c)))))))

theorem crcByte_eq (c : Nat) (b : UInt8) : crcByte c b = crc8 (c ^^^ b.toNat) := rfl

theorem L_crc_table : ∀ i : Fin 256, (Gen.crc32_table[i.val]!).toNat = crc8 i.val := by
  decide +kernel

theorem xor_mod_two (x y : Nat) : (x ^^^ y) % 2 = (x % 2 + y % 2) % 2 := by
  have := Nat.xor_mod_two_eq_one (a := x) (b := y)
  omega

theorem crcBit_xor (x y : Nat) : crcBit (x ^^^ y) = crcBit x ^^^ crcBit y := by
  unfold crcBit
  have hm := xor_mod_two x y
  rw [Nat.xor_div_two]
  by_cases hx : x % 2 = 1 <;> by_cases hy : y % 2 = 1
  · have : ¬ (x ^^^ y) % 2 = 1 := by omega
    simp only [this, hx, hy, if_true, if_false]
    rw [Nat.xor_assoc, Nat.xor_comm 0xEDB88320 (y / 2 ^^^ 0xEDB88320), Nat.xor_assoc, Nat.xor_self, Nat.xor_zero]
  · have : (x ^^^ y) % 2 = 1 := by omega
    simp only [this, hx, hy, if_true, if_false]
    rw [Nat.xor_assoc, Nat.xor_comm (y/2), Nat.xor_assoc]
  · have : (x ^^^ y) % 2 = 1 := by omega
    simp only [this, hx, hy, if_true, if_false]
    rw [Nat.xor_assoc]
  · have : ¬ (x ^^^ y) % 2 = 1 := by omega
    simp only [this, hx, hy, if_false]

theorem crc8_xor (x y : Nat) : crc8 (x ^^^ y) = crc8 x ^^^ crc8 y := by
  simp only [crc8, crcBit_xor]

theorem crcBit_even (h : Nat) (he : h % 2 = 0) : crcBit h = h / 2 := by
  unfold crcBit; simp [he]

theorem crc8_high (h : Nat) (hh : h % 256 = 0) : crc8 h = h / 256 := by
  unfold crc8
  rw [crcBit_even h (by omega), crcBit_even (h/2) (by omega), crcBit_even (h/2/2) (by omega),
      crcBit_even (h/2/2/2) (by omega), crcBit_even (h/2/2/2/2) (by omega), crcBit_even (h/2/2/2/2/2) (by omega),
      crcBit_even (h/2/2/2/2/2/2) (by omega), crcBit_even (h/2/2/2/2/2/2/2) (by omega)]
  omega

theorem split_lo_hi (x : Nat) : x = (x % 256) ^^^ (x / 256 * 256) := by
  apply Nat.eq_of_testBit_eq
  intro i
  rw [Nat.testBit_xor]
  have e1 : x % 256 = x % 2^8 := rfl
  have e2 : x / 256 * 256 = (x >>> 8) <<< 8 := by
    rw [Nat.shiftRight_eq_div_pow, Nat.shiftLeft_eq]
  rw [e1, e2, Nat.testBit_mod_two_pow, Nat.testBit_shiftLeft, Nat.testBit_shiftRight]
  by_cases h : i < 8
  · have : ¬ 8 ≤ i := by omega
    simp [h, this]
  · have h8 : 8 ≤ i := by omega
    have : 8 + (i - 8) = i := by omega
    simp [h, h8, this]

theorem crc_step_nat (c : Nat) (b : Nat) (hb : b < 256) :
    crc8 (c ^^^ b) = crc8 ((c ^^^ b) % 256) ^^^ (c / 256) := by
  conv => lhs; rw [split_lo_hi (c ^^^ b)]
  rw [crc8_xor, crc8_high _ (Nat.mul_mod_left _ _)]
  congr 1
  rw [Nat.mul_div_cancel _ (by decide)]
  have : (c ^^^ b) / 256 = (c ^^^ b) >>> 8 := by rw [Nat.shiftRight_eq_div_pow]
  rw [this, Nat.shiftRight_xor_distrib, Nat.shiftRight_eq_div_pow, Nat.shiftRight_eq_div_pow]
  have : b / 2^8 = 0 := by omega
  rw [this, Nat.xor_zero]

theorem gen_crc_step (crc : UInt32) (b : UInt8) : (Gen.crc32_step crc b).toNat = crcByte crc.toNat b := by
  rw [crcByte_eq, crc_step_nat _ _ b.toNat_lt]
  unfold Gen.crc32_step
  rw [UInt32.toNat_xor]
  have hidx : ((crc ^^^ b.toUInt32) &&& 255).toNat = (crc.toNat ^^^ b.toNat) % 256 := by
    rw [UInt32.toNat_and, UInt32.toNat_xor, UInt8.toNat_toUInt32]
    exact Nat.and_two_pow_sub_one_eq_mod _ 8
  have hlt : (crc.toNat ^^^ b.toNat) % 256 < 256 := Nat.mod_lt _ (by decide)
  rw [hidx, L_crc_table ⟨_, hlt⟩]
  congr 1
  simp [Go.shr32, Nat.shiftRight_eq_div_pow]

theorem gen_crc_write (bs : Bytes) (c : UInt32) : (Gen.crc32_write c bs).toNat = bs.foldl crcByte c.toNat := by
  unfold Gen.crc32_write
  induction bs generalizing c with
  | nil => rfl
  | cons b bs ih => simp only [List.foldl_cons]; rw [ih, gen_crc_step]

theorem not_eq_xor (x : Nat) (h : x < 2^32) : 2^32 - 1 - x = x ^^^ 0xFFFFFFFF := by
  apply Nat.eq_of_testBit_eq
  intro i
  have e : (0xFFFFFFFF : Nat) = 2^32 - 1 := rfl
  have e2 : 2^32 - 1 - x = 2^32 - (x + 1) := by omega
  rw [Nat.testBit_xor, e, Nat.testBit_two_pow_sub_one, e2, Nat.testBit_two_pow_sub_succ h]
  by_cases hi : i < 32
  · simp [hi]
  · have : x.testBit i = false := Nat.testBit_lt_two_pow (Nat.lt_of_lt_of_le h (Nat.pow_le_pow_right (by decide) (by omega)))
    simp [hi, this]

theorem L_crc (bs : Bytes) : (Gen.crc32_get (Gen.crc32_write 0xFFFFFFFF bs)).toNat = Ref.crc32 bs := by
  unfold Gen.crc32_get Ref.crc32
  simp only [Id.run, pure]
  rw [UInt32.toNat_not, gen_crc_write]
  exact not_eq_xor _ (by rw [← gen_crc_write]; exact UInt32.toNat_lt _)

theorem crc_write_append (c : UInt32) (a b : Bytes) :
    Gen.crc32_write (Gen.crc32_write c a) b = Gen.crc32_write c (a ++ b) := by
  simp [Gen.crc32_write, List.foldl_append]

theorem ofNat_pos (n : Nat) (h : n < 2^63) : ((Int64.ofNat n) > 0) ↔ 0 < n := by
  show (0 : Int64) < Int64.ofNat n ↔ _
  rw [Int64.lt_iff_toInt_lt, Int64.toInt_ofNat_of_lt h]; simp

theorem crc_write_nil (c : UInt32) : Gen.crc32_write c [] = c := rfl

/-- the record CRC is computed by three `write` calls (empty parts skipped); it equals the CRC of the concatenation -/
theorem L_crc_chunked (header key body : Bytes) (hk : key.length < 2^63) (hb : body.length < 2^63) :
    (Gen.getCRC header key body).toNat = Ref.crc32 (header.drop 4 ++ key ++ body) := by
  rw [← L_crc]
  unfold Gen.getCRC
  simp only [Id.run, pure, bind]
  have hk' : key ≠ [] → (0 : Int64) < Int64.ofNat key.length := fun h =>
    (ofNat_pos _ hk).2 (List.length_pos_iff.mpr h)
  have hb' : body ≠ [] → (0 : Int64) < Int64.ofNat body.length := fun h =>
    (ofNat_pos _ hb).2 (List.length_pos_iff.mpr h)
  by_cases h1 : key = [] <;> by_cases h2 : body = []
  · subst h1; subst h2; simp [crc_write_nil]
  · subst h1; simp [hb' h2, crc_write_append]
  · subst h2; simp [hk' h1, crc_write_append]
  · simp [hk' h1, hb' h2, crc_write_append]

end HashLemmas

namespace HashLemmas
open Ref

theorem fmix32_lt (h : Nat) (hh : h < 2^32) : fmix32 h < 2^32 := by
  unfold fmix32
  apply Nat.xor_lt_two_pow
  · exact Nat.mod_lt _ (by decide)
  · exact Nat.lt_of_le_of_lt (Nat.div_le_self _ _) (Nat.mod_lt _ (by decide))

theorem murmur_lt (bs : Bytes) : murmur3_32 bs < 2^32 := by
  unfold murmur3_32
  unfold fmix32
  apply Nat.xor_lt_two_pow
  · exact Nat.mod_lt _ (by decide)
  · exact Nat.lt_of_le_of_lt (Nat.div_le_self _ _) (Nat.mod_lt _ (by decide))

theorem L_keyhash (bs : Bytes) : (Gen.getKeyHashDefalut bs).toNat = Ref.keyHash bs := by
  unfold Gen.getKeyHashDefalut Ref.keyHash
  simp only [Id.run, pure]
  have hm : (Ref.murmurU32 bs).toNat = murmur3_32 bs := by
    unfold Ref.murmurU32
    show (murmur3_32 bs).toUInt32.toNat = _
    rw [UInt32.toNat_ofNat', Nat.mod_eq_of_lt (murmur_lt bs)]
  have hf := L_fnv bs
  have hflt : (Gen.fnv1a bs).toNat < 2^32 := UInt32.toNat_lt _
  rw [UInt64.toNat_or, UInt32.toNat_toUInt64, hm]
  simp only [Go.shl64, show (32 : Nat) < 64 by decide, if_true]
  rw [UInt64.toNat_shiftLeft, UInt32.toNat_toUInt64, hf]
  have e : (Nat.toUInt64 32).toNat % 64 = 32 := by decide
  rw [e, Nat.shiftLeft_eq]
  have hlt : fnv1aSigned bs * 2^32 < 2^64 := by rw [← hf]; omega
  rw [Nat.mod_eq_of_lt hlt, ← Nat.shiftLeft_eq]
  exact (Nat.shiftLeft_add_eq_or_of_lt (murmur_lt bs) _).symm

end HashLemmas
