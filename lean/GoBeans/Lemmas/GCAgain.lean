/-
  A pass over a range in which every record is already current releases nothing (C18: "running the same pass again
  releases nothing"): every record is found newest, kept, and the release counters do not move.
-/
import GoBeans.Lemmas.GCAux
import GoBeans.Lemmas.GCFiles
set_option linter.unusedSimpArgs false
set_option linter.unusedVariables false
namespace StoreLemmas
open Store Spec

/-- everything still to be read in the range is current, and nothing has been released so far -/
structure Again (hash : Key → Nat) (begin stop : Nat) (b0 : Bucket) (s : GcSt) (src : Nat) (rest : List (Nat × Rec)) : Prop where
  here : src ≤ stop → ∀ p ∈ rest, CurT hash begin s.b.tree (({ chunk := src, off := p.1 } : Pos), p.2)
  later : ∀ i, src < i → i ≤ stop → ∀ p ∈ (b0.chunks i).recs, CurT hash begin s.b.tree (({ chunk := i, off := p.1 } : Pos), p.2)
  none : s.stats.numReleased = 0 ∧ s.stats.sizeReleased = 0

theorem fitSt_stats (cfg : Store.Cfg) (s : GcSt) (src : Nat) (r : Rec) (st : GcStats) : (fitSt cfg s src r st).stats = st := by
  unfold fitSt
  split
  · unfold gcBegin; split <;> rfl
  · rfl

theorem recNewest_of_cur {hash : Key → Nat} {begin src off : Nat} {s : GcSt} {r : Rec}
    (h : CurT hash begin s.b.tree (({ chunk := src, off := off } : Pos), r)) : recNewest hash begin src s off r = true := by
  unfold CurT at h
  unfold recNewest
  simp only at h
  cases hg : AMap.get s.b.tree (hash r.key) with
  | some it => rw [hg] at h; simp only at h; simp [h]
  | none => rw [hg] at h; simp only at h; simp [h.1, h.2]

section AgainStep
variable {hash : Key → Nat} {K : Key → Prop}

theorem record_step_again {P : Key → TItem → Rec → Prop} {N : Key → Prop} (hInj : InjOn hash K) (cfg : Store.Cfg)
    (begin stop src : Nat) {b0 : Bucket} {d0 : Nat} {s : GcSt} {off : Nat} {r : Rec} {rest : List (Nat × Rec)}
    (hstop : stop < s.b.head) (hsrc : src ≤ stop)
    (h : SInv cfg s src ((off, r) :: rest))
    (hv : VInv hash K P N (vlog s src ((off, r) :: rest)) s.b.tree)
    (a : Aux hash begin b0 d0 s src)
    (g : Again hash begin stop b0 s src ((off, r) :: rest)) :
    Again hash begin stop b0 (gcRecord hash cfg begin src s off r) src rest := by
  have hx : vlog s src ((off, r) :: rest)
      = preV s src ++ ((({ chunk := src, off := off } : Pos), r) :: (tag src rest ++ postV s.b src)) := rfl
  rw [hx] at hv
  have hkr : K r.key := (hv.recs (({ chunk := src, off := off } : Pos), r) (by simp)).1
  have hcur := g.here hsrc (off, r) (by simp)
  have hn := recNewest_of_cur hcur
  -- every record still to be read sits behind the current one in the virtual log
  have hmemL2 : ∀ (i o : Nat) (r' : Rec), ((i = src ∧ (o, r') ∈ rest) ∨ (src < i ∧ i ≤ stop ∧ (o, r') ∈ (b0.chunks i).recs)) →
      (({ chunk := i, off := o } : Pos), r') ∈ tag src rest ++ postV s.b src := by
    intro i o r' hc
    rw [List.mem_append]
    rcases hc with ⟨rfl, hm⟩ | ⟨h1, h2, hm⟩
    · left; rw [mem_tag]; exact ⟨rfl, hm⟩
    · right
      unfold postV
      rw [List.mem_flatMap]
      refine ⟨i, by rw [List.mem_range'_1]; omega, ?_⟩
      rw [recsAt_eq_tag, mem_tag, a.high i (by omega)]
      exact ⟨rfl, hm⟩
  -- the tree after the step still says "current" for every such record
  have hkeep : ∀ (t : List (Nat × TItem)),
      (t = s.b.tree ∨ ∃ it, AMap.get s.b.tree (hash r.key) = some it ∧ it.pos = { chunk := src, off := off } ∧
          ∃ p', t = AMap.set s.b.tree (hash r.key) { it with pos := p' }) →
      ∀ (i o : Nat) (r' : Rec), ((i = src ∧ (o, r') ∈ rest) ∨ (src < i ∧ i ≤ stop ∧ (o, r') ∈ (b0.chunks i).recs)) →
      CurT hash begin s.b.tree (({ chunk := i, off := o } : Pos), r') → CurT hash begin t (({ chunk := i, off := o } : Pos), r') := by
    intro t ht i o r' hc hcu
    rcases ht with rfl | ⟨it, hit, hpos, p', rfl⟩
    · exact hcu
    · have hin := hmemL2 i o r' hc
      have hky : K r'.key := (hv.recs (({ chunk := i, off := o } : Pos), r') (by
        rw [List.mem_append]; right; exact List.mem_cons_of_mem _ hin)).1
      unfold CurT at hcu ⊢
      simp only at hcu ⊢
      by_cases e : hash r.key = hash r'.key
      · have ek : r.key = r'.key := hInj _ _ hkr hky e
        rw [← e, hit] at hcu
        simp only at hcu
        exact absurd (hcu.symm.trans hpos) (mid_not_later hv.nodup _ hin)
      · rw [AMap.get_set_ne _ _ _ _ e]; exact hcu
  rw [gcRecord_eq]
  simp only [hn, Bool.not_true, Bool.false_eq_true, if_false]
  have hst : (recStats s r true).numReleased = 0 ∧ (recStats s r true).sizeReleased = 0 := by
    unfold recStats
    simp [g.none.1, g.none.2]
  obtain ⟨f1, f2, f3, f4, f5⟩ := fit_spec (recStats s r true) h
  generalize hs1 : fitSt cfg s src r (recStats s r true) = s1 at *
  have hstats : s1.stats = recStats s r true := by rw [← hs1]; exact fitSt_stats cfg s src r _
  cases hit : AMap.get s.b.tree (hash r.key) with
  | some it =>
    have hpos : it.pos = { chunk := src, off := off } := by
      unfold CurT at hcur; simp only at hcur; rw [hit] at hcur; exact hcur
    simp only []
    refine ⟨?_, ?_, ?_⟩
    · intro _ p hp
      show CurT hash begin (AMap.set s1.b.tree (hash r.key) _) _
      rw [f4]
      exact hkeep _ (Or.inr ⟨it, hit, hpos, _, rfl⟩) src p.1 p.2 (Or.inl ⟨rfl, hp⟩) (g.here hsrc p (by simp [hp]))
    · intro i h1 h2 p hp
      show CurT hash begin (AMap.set s1.b.tree (hash r.key) _) _
      rw [f4]
      exact hkeep _ (Or.inr ⟨it, hit, hpos, _, rfl⟩) i p.1 p.2 (Or.inr ⟨h1, h2, hp⟩) (g.later i h1 h2 p hp)
    · show (keepSt s1 _ r).stats.numReleased = 0 ∧ (keepSt s1 _ r).stats.sizeReleased = 0
      show s1.stats.numReleased = 0 ∧ s1.stats.sizeReleased = 0
      rw [hstats]; exact hst
  | none =>
    simp only []
    refine ⟨?_, ?_, ?_⟩
    · intro _ p hp
      show CurT hash begin s1.b.tree _
      rw [f4]
      exact g.here hsrc p (by simp [hp])
    · intro i h1 h2 p hp
      show CurT hash begin s1.b.tree _
      rw [f4]
      exact g.later i h1 h2 p hp
    · show s1.stats.numReleased = 0 ∧ s1.stats.sizeReleased = 0
      rw [hstats]; exact hst

theorem records_fold_again {P : Key → TItem → Rec → Prop} {N : Key → Prop}
    (hP : ∀ k it r p', P k it r → P k { it with pos := p' } r)
    (hInj : InjOn hash K) (cfg : Store.Cfg) (begin stop src : Nat) (b0 : Bucket) (d0 : Nat) (head : Nat) (hstop : stop < head) (hsrc : src ≤ stop) :
    ∀ (rest : List (Nat × Rec)) (s : GcSt), s.b.head = head → SInv cfg s src rest → VInv hash K P N (vlog s src rest) s.b.tree →
      (begin = 0 → KnownPre hash s src) → Aux hash begin b0 d0 s src → Again hash begin stop b0 s src rest →
      Again hash begin stop b0 (rest.foldl (fun s (p : Nat × Rec) => gcRecord hash cfg begin src s p.1 p.2) s) src []
  | [], s, _, _, _, _, _, g => g
  | (off, r) :: rest, s, hh, h, hv, hk, a, g => by
    obtain ⟨h1, h2, h3⟩ := record_step hP hInj cfg begin src h hv hk
    exact records_fold_again hP hInj cfg begin stop src b0 d0 head hstop hsrc rest _
      (by rw [gcRecord_head]; exact hh) h1 h2 h3 (record_step_aux hInj cfg begin src h hv a)
      (record_step_again hInj cfg begin stop src (by rw [hh]; exact hstop) hsrc h hv a g)

theorem file_step_again {P : Key → TItem → Rec → Prop} {N : Key → Prop}
    (hP : ∀ k it r p', P k it r → P k { it with pos := p' } r)
    (hInj : InjOn hash K) (cfg : Store.Cfg) (begin stop src : Nat) {b0 : Bucket} {d0 : Nat} {s : GcSt}
    (h : SInv cfg s src (s.b.chunks src).recs) (hlt : src < s.b.head) (hstop : stop < s.b.head) (hsrc : src ≤ stop)
    (hv : VInv hash K P N (vlog s src (s.b.chunks src).recs) s.b.tree)
    (hk : begin = 0 → KnownPre hash s src) (a : Aux hash begin b0 d0 s src)
    (g : Again hash begin stop b0 s src (s.b.chunks src).recs) :
    Again hash begin stop b0 (gcFile hash cfg begin s src) (src + 1) ((gcFile hash cfg begin s src).b.chunks (src + 1)).recs := by
  have a' := file_step_aux hP hInj cfg begin src h hlt hv hk a
  have hnext : ((gcFile hash cfg begin s src).b.chunks (src + 1)) = b0.chunks (src + 1) := a'.high (src + 1) (Nat.le_refl _)
  rw [hnext]
  -- after the file: the tree and the statistics are those after its last record
  have key : ∀ (s' : GcSt), Again hash begin stop b0 s' src [] → ∀ (b' : Bucket), b'.tree = s'.b.tree →
      Again hash begin stop b0 { s' with b := b' } (src + 1) (b0.chunks (src + 1)).recs := by
    intro s' g' b' ht
    refine ⟨?_, ?_, g'.none⟩
    · intro hle p hp
      show CurT hash begin b'.tree _
      rw [ht]
      exact g'.later (src + 1) (by omega) hle p hp
    · intro i h1 h2 p hp
      show CurT hash begin b'.tree _
      rw [ht]
      exact g'.later i (by omega) h2 p hp
  rw [gcFile_eq]
  by_cases hz : (s.b.chunks src).size = 0
  · rw [if_pos hz]
    have hnil : (s.b.chunks src).recs = [] := h.wf.nil_of_size hz
    rw [hnil] at g
    exact key s g s.b rfl
  · rw [if_neg hz]
    have g' := records_fold_again hP hInj cfg begin stop src b0 d0 s.b.head hstop hsrc _ s rfl h hv hk a g
    exact key _ g' _ (clearSrc_tree _ src)

theorem files_fold_again {P : Key → TItem → Rec → Prop} {N : Key → Prop}
    (hP : ∀ k it r p', P k it r → P k { it with pos := p' } r)
    (hInj : InjOn hash K) (cfg : Store.Cfg) (begin stop : Nat) (b0 : Bucket) (d0 : Nat) (s0 : GcSt) (hstop : stop < s0.b.head) :
    ∀ n, begin + n ≤ stop + 1 →
      SInv cfg s0 begin (s0.b.chunks begin).recs → VInv hash K P N (vlog s0 begin (s0.b.chunks begin).recs) s0.b.tree →
      (begin = 0 → KnownPre hash s0 begin) → Aux hash begin b0 d0 s0 begin →
      Again hash begin stop b0 s0 begin (s0.b.chunks begin).recs →
      Again hash begin stop b0 ((List.range n).foldl (fun s i => gcFile hash cfg begin s (begin + i)) s0) (begin + n)
        (((List.range n).foldl (fun s i => gcFile hash cfg begin s (begin + i)) s0).b.chunks (begin + n)).recs
  | 0, _, _, _, _, _, g => g
  | n + 1, hn, h, hv, hk, a, g => by
    obtain ⟨i1, i2, i3, i4, _⟩ := files_fold hP hInj cfg begin s0 n (by omega) h hv hk
    have ia := files_fold_aux hP hInj cfg begin b0 d0 s0 n (by omega) h hv hk a
    have ig := files_fold_again hP hInj cfg begin stop b0 d0 s0 hstop n (by omega) h hv hk a g
    rw [List.range_succ, List.foldl_append]
    simp only [List.foldl_cons, List.foldl_nil]
    generalize (List.range n).foldl (fun s i => gcFile hash cfg begin s (begin + i)) s0 = s at i1 i2 i3 i4 ia ig
    exact file_step_again hP hInj cfg begin stop (begin + n) i1 (by rw [i4]; omega) (by rw [i4]; exact hstop) (by omega) i2 i3 ia ig

/-- a pass over a range whose records are all current releases nothing -/
theorem gcRun_releases_nothing {P : Key → TItem → Rec → Prop} {N : Key → Prop}
    (hP : ∀ k it r p', P k it r → P k { it with pos := p' } r)
    (hInj : InjOn hash K) (cfg : Store.Cfg) {b : Bucket} (w : WF cfg b) (begin stop : Nat) (hbs : begin ≤ stop)
    (hs : stop < b.head) (hv : VInv hash K P N b.log b.tree)
    (hcur : ∀ i, begin ≤ i → i ≤ stop → ∀ p ∈ (b.chunks i).recs, CurT hash begin b.tree (({ chunk := i, off := p.1 } : Pos), p.2)) :
    (gcRun hash cfg b begin stop).2.numReleased = 0 ∧ (gcRun hash cfg b begin stop).2.sizeReleased = 0 := by
  have e : (gcRun hash cfg b begin stop).2 =
      ((List.range (stop + 1 - begin)).foldl (fun s i => gcFile hash cfg begin s (begin + i))
        (gcBegin b (gcDst cfg b begin) begin {})).stats := rfl
  rw [e]
  obtain ⟨s1, s2, s3⟩ := start_spec w begin (by omega) {}
  have sa := start_aux (hash := hash) w begin (by omega) {}
  generalize hd0 : gcDst cfg b begin = d0 at sa s1 s2 s3 ⊢
  have hrecs : ∀ i, ((gcBegin b d0 begin {}).b.chunks i).recs = (b.chunks i).recs := fun i => gcBegin_recs _ _ _ _ _
  have htree : (gcBegin b d0 begin {}).b.tree = b.tree := gcBegin_tree _ _ _ _
  have hstats : (gcBegin b d0 begin {}).stats = {} := by unfold gcBegin; split <;> rfl
  have g0 : Again hash begin stop b (gcBegin b d0 begin {}) begin ((gcBegin b d0 begin {}).b.chunks begin).recs := by
    refine ⟨?_, ?_, by rw [hstats]; exact ⟨rfl, rfl⟩⟩
    · intro _ p hp
      rw [htree]; rw [hrecs] at hp
      exact hcur begin (Nat.le_refl _) hbs p hp
    · intro i h1 h2 p hp
      rw [htree]
      exact hcur i (by omega) h2 p hp
  generalize hs0 : gcBegin b d0 begin {} = s0 at s1 s2 s3 sa g0
  have ht0 : s0.b.tree = b.tree := by rw [← hs0, gcBegin_tree]
  have hh0 : s0.b.head = b.head := by rw [← hs0, gcBegin_head]
  have hk0 : begin = 0 → KnownPre hash s0 begin := by
    intro hb y hy
    rw [s3, hb] at hy
    simp at hy
  have hv0 : VInv hash K P N (vlog s0 begin (s0.b.chunks begin).recs) s0.b.tree := by rw [s2, ht0]; exact hv
  have ga := files_fold_again hP hInj cfg begin stop b d0 s0 (by rw [hh0]; exact hs) (stop + 1 - begin) (by omega) s1 hv0 hk0 sa g0
  exact ga.none

end AgainStep

section AgainTop
variable (hash : Key → Nat) (K : Key → Prop)

/-- C18: running the same pass again releases nothing -/
theorem gcRun_twice_releases_nothing (cfg : Store.Cfg) (hInj : InjOn hash K) {n : Nat} {b : Bucket} {m : KV}
    (inv : Inv hash K n b m) (lr : LastRec hash K b) (w : WF cfg b) (nz : NoZero b)
    (begin stop : Nat) (hbs : begin ≤ stop) (hs : stop < b.head) :
    (gcRun hash cfg (gcRun hash cfg b begin stop).1 begin stop).2.numReleased = 0
    ∧ (gcRun hash cfg (gcRun hash cfg b begin stop).1 begin stop).2.sizeReleased = 0 := by
  have hv0 := vinv_of_inv hash K inv lr w nz
  obtain ⟨_, _, _, h4⟩ := gcRun_files (PG_pos m n) hInj cfg w begin stop hbs hs hv0
  obtain ⟨w', hv', hh⟩ := gcRun_vinv (PG_pos m n) hInj cfg w begin stop hbs hs hv0
  exact gcRun_releases_nothing (PG_pos m n) hInj cfg w' begin stop hbs (by rw [hh]; exact hs) hv' h4

end AgainTop
end StoreLemmas
