/-
  Reply round trip (C11), part 1: what a reply looks like on the wire, and one step of `readResp` on a line made of
  tokens.

  `Resp.write` yields segments, some of which stand for bytes the model does not fix (server clock, encoded record,
  order of listing lines, statistics the model does not track).  `SegBytes` says which byte strings a segment may
  stand for; `Resp.Wire r w`: `w` is one of the byte strings `Response.Write` may put on the wire for `r`
  (blocks in any order — Go map iteration — then the tail).
-/
import GoBeans.Lemmas.ProtoRT

namespace Proto

/-- one line of a `stats` reply -/
def statLineB (n v : Bytes) : Bytes := ascii "STAT " ++ n ++ sp ++ v ++ crlf

def statLines (nvs : List (Bytes × Bytes)) : Bytes := (nvs.map fun nv => statLineB nv.1 nv.2).flatten

/-- the byte strings a segment may stand for -/
inductive SegBytes : Seg → Bytes → Prop
  | lit (b : Bytes) : SegBytes (.lit b) b
  | ts (d : Bytes) (hl : d.length = 10) (hd : ∀ c ∈ d, 48 ≤ c.toNat ∧ c.toNat ≤ 57) : SegBytes .ts d
  | recDump (key : Bytes) (ver : Int) (flag : Nat) (body enc : Bytes)
      (hl : enc.length = 24 + key.length + body.length) : SegBytes (.recDump key ver flag body) enc
  | posOf (c o : Nat) : SegBytes (.posOf c o) (itoa c ++ sp ++ itoa o)
  | lines (ls ls' : List Bytes) (hp : ls'.Perm ls) : SegBytes (.lines ls) ls'.flatten
  | statsAll (nvs : List (Bytes × Bytes)) : SegBytes .statsAll (statLines nvs)
  | statVal (name v : Bytes) : SegBytes (.statVal name) (statLineB name v)

inductive SegsBytes : List Seg → Bytes → Prop
  | nil : SegsBytes [] []
  | cons {s : Seg} {ss : List Seg} {b bs : Bytes} (h : SegBytes s b) (hs : SegsBytes ss bs) : SegsBytes (s :: ss) (b ++ bs)

/-- `w` is a byte string `Response.Write` may emit for the reply `r` -/
def Resp.Wire (r : Resp) (w : Bytes) : Prop :=
  ∃ (blocks : List (List Seg × Bytes)) (tl : Bytes),
    (blocks.map (·.1)).Perm r.write.1 ∧ (∀ p ∈ blocks, SegsBytes p.1 p.2) ∧ SegsBytes r.write.2 tl ∧
    w = (blocks.map (·.2)).flatten ++ tl

theorem SegBytes.lit_inv {b x : Bytes} (h : SegBytes (.lit b) x) : x = b := by cases h; rfl

theorem SegsBytes.nil_inv {x : Bytes} (h : SegsBytes [] x) : x = [] := by cases h; rfl

theorem SegsBytes.cons_inv {s : Seg} {ss : List Seg} {x : Bytes} (h : SegsBytes (s :: ss) x) :
    ∃ b bs, SegBytes s b ∧ SegsBytes ss bs ∧ x = b ++ bs := by
  cases h with
  | cons h hs => exact ⟨_, _, h, hs, rfl⟩

theorem SegsBytes.append_inv {s1 s2 : List Seg} {x : Bytes} (h : SegsBytes (s1 ++ s2) x) :
    ∃ b1 b2, SegsBytes s1 b1 ∧ SegsBytes s2 b2 ∧ x = b1 ++ b2 := by
  induction s1 generalizing x with
  | nil => exact ⟨[], x, .nil, h, rfl⟩
  | cons s ss ih =>
    obtain ⟨b, bs, hb, hbs, rfl⟩ := SegsBytes.cons_inv h
    obtain ⟨b1, b2, h1, h2, rfl⟩ := ih hbs
    exact ⟨b ++ b1, b2, .cons hb h1, h2, by simp⟩

theorem SegsBytes.append {s1 s2 : List Seg} {b1 b2 : Bytes} (h1 : SegsBytes s1 b1) (h2 : SegsBytes s2 b2) :
    SegsBytes (s1 ++ s2) (b1 ++ b2) := by
  induction h1 with
  | nil => simpa using h2
  | cons h hs ih => simpa [List.append_assoc] using SegsBytes.cons h ih

theorem SegsBytes.single_lit (b : Bytes) : SegsBytes [.lit b] b := by
  simpa using SegsBytes.cons (SegBytes.lit b) .nil

theorem SegsBytes.single_lit_inv {b x : Bytes} (h : SegsBytes [.lit b] x) : x = b := by
  obtain ⟨b', bs, hb, hbs, rfl⟩ := SegsBytes.cons_inv h
  rw [hb.lit_inv, hbs.nil_inv]; simp

/-! ### one step of `readResp` on a line of tokens -/

/-- the body of `readResp` once the line is split (verbatim copy; `readResp_succ` is `rfl`) -/
def respBody (cfg : Cfg) (fuel : Nat) (parts : List Bytes) (rest : Bytes) (items : List PItem) : Option (PResp × Bytes) :=
  match parts with
  | [] => none
  | status :: args =>
    if status == ascii "VALUE" then
      if parts.length < 4 then none else
      match atoi (args.getD 1 []), atoi (args.getD 2 []) with
      | some flag, some len =>
        if !(0 ≤ len && len ≤ (cfg.bodyMax : Int)) then none else
        let cas? : Option Int := if parts.length == 5 then atoi (args.getD 3 []) else some 0
        match cas? with
        | none => none
        | some cas =>
          let L := len.toNat
          if rest.length < L then none else
          readResp cfg fuel (rest.drop (L + 2)) (putItem items { key := args.getD 0 [], flag := flag, cas := cas, body := rest.take L })
      | _, _ => none
    else if status == ascii "STAT" then
      if parts.length ≠ 3 then none
      else readResp cfg fuel rest (putItem items { key := args.getD 0 [], flag := 0, body := args.getD 1 [] })
    else if endStatuses.contains status then some ({ status := status, items := items }, rest)
    else if msgStatuses.contains status then some ({ status := status, msg := joinSp args, items := items }, rest)
    else match atoi status with
      | some _ => some ({ status := ascii "INCR", msg := status, items := items }, rest)
      | none => none

theorem readResp_succ (cfg : Cfg) (fuel : Nat) (inp : Bytes) (items : List PItem) :
    readResp cfg (fuel + 1) inp items =
      match readLine inp with
      | none => none
      | some line =>
        if line.length < 2 then none else
        respBody cfg fuel (fields (line.take (line.length - 2))) (inp.drop line.length) items := rfl

/-- a line made of tokens is read as exactly these tokens, and exactly its bytes are consumed -/
theorem readResp_toks (cfg : Cfg) (fuel : Nat) (toks : List Bytes) (rest : Bytes) (items : List PItem)
    (ht : ∀ t ∈ toks, Tok t) (hne : toks ≠ []) :
    readResp cfg (fuel + 1) (joinSp toks ++ crlf ++ rest) items = respBody cfg fuel toks rest items := by
  have hnl : (10 : UInt8) ∉ joinSp toks ++ [13] := by
    intro hm
    rcases List.mem_append.mp hm with hm | hm
    · exact joinSp_no_lf _ (fun t h => (ht t h).2.2) hm
    · simp at hm
  have hshape : joinSp toks ++ crlf ++ rest = (joinSp toks ++ [13]) ++ 10 :: rest := by simp [crlf]
  have hline : readLine (joinSp toks ++ crlf ++ rest) = some (joinSp toks ++ crlf) := by
    rw [hshape, readLine_append _ _ hnl]; simp [crlf]
  rw [readResp_succ, hline]
  simp only []
  have hcr : joinSp toks ++ crlf = joinSp toks ++ [13, 10] := rfl
  have hlen : ¬ (joinSp toks ++ crlf).length < 2 := by simp [crlf]
  rw [if_neg hlen, hcr, take_crlf, fields_joinSp toks (fun t h => ⟨(ht t h).1, (ht t h).2.1⟩) hne]
  simp

end Proto
