/-
  Reply round trip (C11), part 2: the VALUE loop.  `readResp` on  VALUE-block* END  recovers every block — key, flag,
  cas, and the body byte for byte whatever it contains — and stops exactly behind "END\r\n".
-/
import GoBeans.Lemmas.ProtoRespBase

namespace Proto

/-- what `readResp` stores for an item that was sent without / with its cas field -/
def PItem.norm (cas : Bool) (p : PItem) : PItem := if cas then p else { p with cas := 0 }

def valueHead (cas : Bool) (key : Bytes) (flag : Int) (len : Nat) (casv : Int) : List Bytes :=
  [ascii "VALUE", key, itoa flag, itoa len] ++ (if cas then [itoa casv] else [])

/-- one VALUE block as `Response.Write` prints it -/
def valueBlock (cas : Bool) (p : PItem) : Bytes :=
  joinSp (valueHead cas p.key p.flag p.body.length p.cas) ++ crlf ++ p.body ++ crlf

def endLine : Bytes := ascii "END" ++ crlf

def valueWire (cas : Bool) (ps : List PItem) : Bytes := (ps.map (valueBlock cas)).flatten ++ endLine

def ItemOK (cfg : Cfg) (p : PItem) : Prop := Tok p.key ∧ I64 p.flag ∧ I64 p.cas ∧ p.body.length ≤ cfg.bodyMax

theorem valueHead_tok (cas : Bool) (key : Bytes) (flag : Int) (len : Nat) (casv : Int) (hk : Tok key) :
    ∀ t ∈ valueHead cas key flag len casv, Tok t := by
  intro t ht
  unfold valueHead at ht
  have hv : Tok (ascii "VALUE") := ⟨by decide, by decide, by decide⟩
  cases cas <;> simp at ht
  · rcases ht with rfl | rfl | rfl | rfl
    · exact hv
    · exact hk
    · exact itoa_tok _
    · exact itoa_tok _
  · rcases ht with rfl | rfl | rfl | rfl | rfl
    · exact hv
    · exact hk
    · exact itoa_tok _
    · exact itoa_tok _
    · exact itoa_tok _

theorem drop_body (body rest : Bytes) : (body ++ (crlf ++ rest)).drop (body.length + 2) = rest := by
  have : body ++ (crlf ++ rest) = (body ++ crlf) ++ rest := by simp
  have hl : (body ++ crlf).length = body.length + 2 := by simp [crlf]
  rw [this, ← hl]; simp

theorem take_body (body rest : Bytes) : (body ++ (crlf ++ rest)).take body.length = body := by
  simp

/-- one VALUE block: the header line's numbers are read back, exactly `len` bytes are taken as the body (they are not
    looked at), the two terminator bytes are skipped -/
theorem respBody_value (cfg : Cfg) (hmax : cfg.bodyMax < 9223372036854775808) (fuel : Nat) (cas : Bool) (p : PItem)
    (rest : Bytes) (items : List PItem) (hp : ItemOK cfg p) :
    respBody cfg fuel (valueHead cas p.key p.flag p.body.length p.cas) (p.body ++ crlf ++ rest) items
      = readResp cfg fuel rest (putItem items (p.norm cas)) := by
  obtain ⟨_, hf, hc, hl⟩ := hp
  have a1 := atoi_itoa p.flag hf
  have a2 : atoi (itoa (p.body.length : Int)) = some (p.body.length : Int) := atoi_itoa _ (by constructor <;> omega)
  have a3 := atoi_itoa p.cas hc
  have hle : ¬ ((cfg.bodyMax : Int) < (p.body.length : Int)) := by omega
  have hcl : crlf.length = 2 := rfl
  unfold respBody valueHead
  cases cas
  · simp [a1, a2, Int.toNat_natCast, PItem.norm]
    rw [if_neg (by omega), if_neg (by omega)]; rfl
  · simp [a1, a2, a3, Int.toNat_natCast, PItem.norm]
    rw [if_neg (by omega), if_neg (by omega)]; rfl

theorem respBody_end (cfg : Cfg) (fuel : Nat) (rest : Bytes) (items : List PItem) :
    respBody cfg fuel [ascii "END"] rest items = some ({ status := ascii "END", items := items }, rest) := by
  have h1 : (ascii "END" == ascii "VALUE") = false := by decide
  have h2 : (ascii "END" == ascii "STAT") = false := by decide
  have h3 : ascii "END" ∈ endStatuses := by decide
  simp [respBody, h1, h2, h3]

theorem readResp_end (cfg : Cfg) (fuel : Nat) (rest : Bytes) (items : List PItem) :
    readResp cfg (fuel + 1) (endLine ++ rest) items = some ({ status := ascii "END", items := items }, rest) := by
  have h := readResp_toks cfg fuel [ascii "END"] rest items
    (by intro t ht; simp at ht; subst ht; exact ⟨by decide, by decide, by decide⟩) (by simp)
  rw [respBody_end] at h
  exact h

/-- **the VALUE loop**: any number of blocks, any bodies, any bytes behind the reply, any items collected before -/
theorem readResp_values (cfg : Cfg) (hmax : cfg.bodyMax < 9223372036854775808) (cas : Bool) (ps : List PItem)
    (hps : ∀ p ∈ ps, ItemOK cfg p) (rest : Bytes) (fuel : Nat) (hf : ps.length + 1 ≤ fuel) (acc : List PItem) :
    readResp cfg fuel (valueWire cas ps ++ rest) acc
      = some ({ status := ascii "END", items := (ps.map (PItem.norm cas)).foldl putItem acc }, rest) := by
  induction ps generalizing fuel acc with
  | nil =>
    obtain ⟨f, rfl⟩ : ∃ f, fuel = f + 1 := ⟨fuel - 1, by simp at hf; omega⟩
    simpa [valueWire] using readResp_end cfg f rest acc
  | cons p ps ih =>
    obtain ⟨f, rfl⟩ : ∃ f, fuel = f + 1 := ⟨fuel - 1, by simp at hf; omega⟩
    have hp := hps p (by simp)
    have hw : valueWire cas (p :: ps) ++ rest
        = joinSp (valueHead cas p.key p.flag p.body.length p.cas) ++ crlf ++ (p.body ++ crlf ++ (valueWire cas ps ++ rest)) := by
      simp [valueWire, valueBlock, List.append_assoc]
    rw [hw, readResp_toks cfg f _ _ acc (valueHead_tok cas _ _ _ _ hp.1) (by simp [valueHead]),
      respBody_value cfg hmax f cas p _ acc hp,
      ih (fun q hq => hps q (by simp [hq])) f (by simp at hf ⊢; omega)]
    simp

end Proto
