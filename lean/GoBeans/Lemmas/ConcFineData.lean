/-
  Invariants of the fine-grained interleaving model (Model/ConcFine.lean), layer 3:
    effect summaries of a micro-step (which shared component it can change, and how),
    `Grows`: no micro-step of any thread ever makes a stored record unreadable (buffer → file migration keeps it),
    DataInv  every tree item points at a stored record of its key and version; every position a reader took from
             the tree still has its record (in the FILE once the buffer test said "not buffered"); the writer that
             holds the write lock computed its version from the item the tree holds NOW.
  Preserved by every scheduler decision.  Core-only.
-/
import GoBeans.Lemmas.ConcFineLayout

namespace ConcFine

/-! ### what a micro-step can change -/

theorem micro_thr_others {cfg : Cfg} {s s' : State} {t : Nat} (h : micro cfg s t = some s') :
    ∀ u, u ≠ t → s'.thr u = s.thr u := by
  micro_split h
  all_goals (intro u hu; simp [State.goto, State.log, State.respond, State.setChunk, State.readDone, hu])

def appendTo (ch : Nat → Chunk) (c : Nat) (r : Rec) : Nat → Chunk := fun d =>
  if d = c then { ch c with wbuf := (ch c).wbuf ++ [r], writingHead := (ch c).writingHead + r.size,
                            size := (ch c).writingHead + r.size } else ch d

def writeTo (ch : Nat → Chunk) (c woff : Nat) (r : Rec) : Nat → Chunk := fun d =>
  if d = c then { ch c with file := (ch c).file ++ [{ r with off := woff }], fsize := woff + r.size } else ch d

def detachFrom (ch : Nat → Chunk) (c n : Nat) : Nat → Chunk := fun d =>
  if d = c then { ch c with wbuf := (ch c).wbuf.drop n } else ch d

theorem micro_chunks {cfg : Cfg} {s s' : State} {t : Nat} (h : micro cfg s t = some s') :
    s'.chunks = s.chunks
    ∨ (∃ q ver pos, (s.thr t).pc = .wAppend q ver pos ∧ s'.chunks = appendTo s.chunks s.newHead (q.toRec ver pos.off))
    ∨ (∃ c woff n i fl r, (s.thr t).pc = .fWrite c woff n i fl r ∧ s'.chunks = writeTo s.chunks c woff r)
    ∨ (∃ c n fl, (s.thr t).pc = .fDetach c n fl ∧ s'.chunks = detachFrom s.chunks c n) := by
  micro_split h
  all_goals first
    | (left; rfl)
    | (right; left; exact ⟨_, _, _, by assumption, rfl⟩)
    | (right; right; left; exact ⟨_, _, _, _, _, _, by assumption, rfl⟩)
    | (right; right; right; exact ⟨_, _, _, by assumption, rfl⟩)

theorem micro_tree {cfg : Cfg} {s s' : State} {t : Nat} (h : micro cfg s t = some s') :
    s'.tree = s.tree
    ∨ (∃ q ver pos, (s.thr t).pc = .wTreeSet q ver pos ∧
        s'.tree = fun k => if k = q.key then some ⟨ver, pos⟩ else s.tree k) := by
  micro_split h
  all_goals first
    | (left; rfl)
    | (right; exact ⟨_, _, _, by assumption, rfl⟩)

/-- nothing stored is ever lost -/
def Grows (ch ch' : Nat → Chunk) : Prop :=
  ∀ c r, (r ∈ (ch c).file → r ∈ (ch' c).file) ∧ (Stored (ch c) r → Stored (ch' c) r)

theorem grows_refl (ch : Nat → Chunk) : Grows ch ch := fun _ _ => ⟨id, id⟩

theorem micro_grows {cfg : Cfg} {s s' : State} {t : Nat} (hl : LockInv s) (hc : ChunkInv s)
    (h : micro cfg s t = some s') : Grows s.chunks s'.chunks := by
  rcases micro_chunks h with he | ⟨q, ver, pos, hpc, he⟩ | ⟨c, woff, n, i, fl, r, hpc, he⟩ | ⟨c, n, fl, hpc, he⟩
  · rw [he]; exact grows_refl _
  · rw [he]; intro c r
    unfold appendTo
    by_cases hcc : c = s.newHead
    · subst hcc
      simp only [if_true, Stored]
      refine ⟨id, ?_⟩
      rintro (h1 | h1)
      · exact Or.inl h1
      · exact Or.inr (List.mem_append_left _ h1)
    · simp only [hcc, if_false]; exact ⟨id, id⟩
  · rw [he]; intro c0 r0
    unfold writeTo
    by_cases hcc : c0 = c
    · subst hcc
      simp only [if_true, Stored]
      refine ⟨fun h1 => List.mem_append_left _ h1, ?_⟩
      rintro (h1 | h1)
      · exact Or.inl (List.mem_append_left _ h1)
      · exact Or.inr h1
    · simp only [hcc, if_false]; exact ⟨id, id⟩
  · rw [he]; intro c0 r0
    unfold detachFrom
    by_cases hcc : c0 = c
    · subst hcc
      simp only [if_true]
      refine ⟨id, ?_⟩
      intro h1
      have hlk : s.flushLock = some t := (hl.f t).2 (by rw [hpc]; rfl)
      have hok := hc.ok c0
      rw [progress_holder hlk, hpc] at hok
      simp only [prog, if_true] at hok
      exact hok.detach_stored r0 h1
    · simp only [hcc, if_false]; exact ⟨id, id⟩

/-- the only record a micro-step can add to what is stored is the one `dataChunk.AppendRecord` appends -/
theorem micro_stored_new {cfg : Cfg} {s s' : State} {t : Nat} (hl : LockInv s) (hc : ChunkInv s)
    (h : micro cfg s t = some s') (c : Nat) (r : Rec) (hr : Stored (s'.chunks c) r) :
    Stored (s.chunks c) r ∨ ∃ q ver pos, (s.thr t).pc = .wAppend q ver pos ∧ r = q.toRec ver pos.off := by
  rcases micro_chunks h with he | ⟨q, ver, pos, hpc, he⟩ | ⟨c1, woff, n, i, fl, r1, hpc, he⟩ | ⟨c1, n, fl, hpc, he⟩
  · rw [he] at hr; exact Or.inl hr
  · rw [he] at hr
    unfold appendTo at hr
    by_cases hcc : c = s.newHead
    · subst hcc
      simp only [if_true, Stored] at hr
      rcases hr with h1 | h1
      · exact Or.inl (Or.inl h1)
      · rcases List.mem_append.mp h1 with h1 | h1
        · exact Or.inl (Or.inr h1)
        · right; exact ⟨q, ver, pos, hpc, by simpa using h1⟩
    · simp only [hcc, if_false] at hr; exact Or.inl hr
  · rw [he] at hr
    unfold writeTo at hr
    left
    by_cases hcc : c = c1
    · subst hcc
      simp only [if_true, Stored] at hr
      rcases hr with h1 | h1
      · rcases List.mem_append.mp h1 with h1 | h1
        · exact Or.inl h1
        · -- the record written is buffered record number i
          have hlk : s.flushLock = some t := (hl.f t).2 (by rw [hpc]; rfl)
          have hfo := hc.fl t
          rw [hpc] at hfo
          simp only [FlushOK] at hfo
          have hok := hc.ok c
          rw [progress_holder hlk, hpc] at hok
          simp only [prog, if_true] at hok
          have hw := (hok.write r1 hfo.2.2.2).1
          have : r = r1 := by
            have : r = { r1 with off := woff } := by simpa using h1
            rw [this, hfo.1, ← hw]
          rw [this]
          exact Or.inr (List.mem_of_getElem? hfo.2.2.2)
      · exact Or.inr h1
    · simp only [hcc, if_false] at hr; exact hr
  · rw [he] at hr
    unfold detachFrom at hr
    left
    by_cases hcc : c = c1
    · subst hcc
      simp only [if_true, Stored] at hr
      rcases hr with h1 | h1
      · exact Or.inl h1
      · exact Or.inr (List.mem_of_mem_drop h1)
    · simp only [hcc, if_false] at hr; exact hr

/-! ### layer 3: tree items, readers' positions, the writer's version -/

/-- a live record carries a value, a delete marker none -/
def RecOK (r : Rec) : Prop := r.ver ≠ 0 ∧ (0 < r.ver → r.val ≠ 0) ∧ (r.ver < 0 → r.val = 0)

def StoredAt (ch : Nat → Chunk) (p : Pos) (r : Rec) : Prop := Stored (ch p.chunk) r ∧ r.off = p.off

def QOK (q : WReq) : Prop := (q.del = true → q.val = 0) ∧ (q.del = false → q.val ≠ 0)

/-- the version the writer computed is the one `checkAndUpdateVerison` yields for the item the tree holds now,
    and the NOT_FOUND test does not fire -/
def WPre (s : State) (q : WReq) (ver : Int) : Prop :=
  ver = (checkAndUpdateVersion (oldVer s q.key) q.rev).1 ∧ ¬ (ver < 0 ∧ (s.tree q.key = none ∨ oldVer s q.key < 0))

def WriterOK (s : State) : PC → Prop
  | .wLock q => QOK q
  | .wGet q => QOK q
  | .wSlot q ver => QOK q ∧ WPre s q ver
  | .wAppend q ver _ => QOK q ∧ WPre s q ver
  | .wDsUnlock q ver pos => QOK q ∧ WPre s q ver ∧ StoredAt s.chunks pos (q.toRec ver pos.off)
  | .wTreeSet q ver pos => QOK q ∧ WPre s q ver ∧ StoredAt s.chunks pos (q.toRec ver pos.off)
  | _ => True

def ReaderOK (ch : Nat → Chunk) : PC → Prop
  | .rBuf k it => ∃ r, StoredAt ch it.pos r ∧ r.key = k
  | .rFile k it => ∃ r, r ∈ (ch it.pos.chunk).file ∧ r.off = it.pos.off ∧ r.key = k
  | _ => True

structure DataInv (s : State) : Prop where
  recs : ∀ c r, Stored (s.chunks c) r → RecOK r
  tree : ∀ k it, s.tree k = some it → ∃ r, StoredAt s.chunks it.pos r ∧ r.key = k ∧ r.ver = it.ver
  wr : ∀ u, WriterOK s (s.thr u).pc
  rd : ∀ u, ReaderOK s.chunks (s.thr u).pc

theorem storedAt_grows {ch ch' : Nat → Chunk} (g : Grows ch ch') {p : Pos} {r : Rec} (h : StoredAt ch p r) :
    StoredAt ch' p r := ⟨(g _ _).2 h.1, h.2⟩

theorem readerOK_grows {ch ch' : Nat → Chunk} (g : Grows ch ch') {pc : PC} (h : ReaderOK ch pc) : ReaderOK ch' pc := by
  cases pc with
  | rBuf k it => obtain ⟨r, h1, h2⟩ := h; exact ⟨r, storedAt_grows g h1, h2⟩
  | rFile k it => obtain ⟨r, h1, h2⟩ := h; exact ⟨r, (g _ _).1 h1, h2⟩
  | _ => trivial

theorem wpre_congr {s s' : State} (ht : s'.tree = s.tree) {q : WReq} {ver : Int} (h : WPre s q ver) : WPre s' q ver := by
  unfold WPre oldVer at *
  rw [ht]; exact h

theorem writerOK_mono {s s' : State} (ht : s'.tree = s.tree) (g : Grows s.chunks s'.chunks) {pc : PC}
    (h : WriterOK s pc) : WriterOK s' pc := by
  cases pc with
  | wSlot q ver => exact ⟨h.1, wpre_congr ht h.2⟩
  | wAppend q ver pos => exact ⟨h.1, wpre_congr ht h.2⟩
  | wDsUnlock q ver pos => exact ⟨h.1, wpre_congr ht h.2.1, storedAt_grows g h.2.2⟩
  | wTreeSet q ver pos => exact ⟨h.1, wpre_congr ht h.2.1, storedAt_grows g h.2.2⟩
  | wLock q => exact h
  | wGet q => exact h
  | _ => trivial

theorem writerOK_not_holdsW {s s' : State} {pc : PC} (hn : holdsW pc = false) (h : WriterOK s pc) : WriterOK s' pc := by
  cases pc <;> simp_all [holdsW, WriterOK]

/-- `checkAndUpdateVerison` never refuses a plain set (Ver = 0) or a delete (Ver = -1) -/
theorem cauv_valid (oldv : Int) (q : WReq) : (checkAndUpdateVersion oldv q.rev).2 = true := by
  unfold checkAndUpdateVersion WReq.rev
  cases q.del <;> simp

theorem cauv_write (oldv : Int) (q : WReq) (h : q.del = false) :
    (checkAndUpdateVersion oldv q.rev).1 = (oldv.natAbs : Int) + 1 := by
  unfold checkAndUpdateVersion WReq.rev
  simp only [h, Bool.false_eq_true, if_false, if_true]
  split <;> omega

theorem cauv_delete (oldv : Int) (q : WReq) (h : q.del = true) :
    (checkAndUpdateVersion oldv q.rev).1 = -(oldv.natAbs : Int) - 1 := by
  unfold checkAndUpdateVersion WReq.rev
  simp [h]

theorem wpre_recOK {s : State} {q : WReq} {ver : Int} (hq : QOK q) (hw : WPre s q ver) (off : Nat) :
    RecOK (q.toRec ver off) := by
  unfold RecOK WReq.toRec
  cases hd : q.del with
  | false =>
    have := cauv_write (oldVer s q.key) q hd
    have hv := hq.2 hd
    rw [← hw.1] at this
    simp only
    refine ⟨by omega, fun _ => hv, fun h => by omega⟩
  | true =>
    have := cauv_delete (oldVer s q.key) q hd
    have hv := hq.1 hd
    rw [← hw.1] at this
    simp only
    refine ⟨by omega, fun h => by omega, fun _ => hv⟩

local macro "unf" : tactic =>
  `(tactic| simp [State.goto, State.log, State.respond, State.readDone, State.setChunk, WriterOK, ReaderOK])

/-- the stepping thread's own new program counter -/
theorem micro_self_data (cfg : Cfg) (s s' : State) (t : Nat) (hc : ChunkInv s) (hd : DataInv s)
    (h : micro cfg s t = some s') : WriterOK s' (s'.thr t).pc ∧ ReaderOK s'.chunks (s'.thr t).pc := by
  have hw := hd.wr t
  have hr := hd.rd t
  have hso := hc.slot t
  cases hpc : (s.thr t).pc with
  | wLock q =>
    simp only [micro, hpc] at h
    rw [hpc] at hw
    split at h
    · obtain rfl := Option.some.inj h; unf; exact hw
    · contradiction
  | wGet q =>
    simp only [micro, hpc] at h
    rw [hpc] at hw
    split at h
    · obtain rfl := Option.some.inj h; unf
    · rename_i hno
      obtain rfl := Option.some.inj h
      refine ⟨?_, by unf⟩
      simp only [State.goto, if_true, WriterOK]
      exact ⟨hw, rfl, hno⟩
  | wSlot q ver =>
    simp only [micro, hpc] at h
    rw [hpc] at hw
    split at h
    · split at h <;>
      · obtain rfl := Option.some.inj h
        refine ⟨?_, by unf⟩
        simp only [State.goto, if_true, WriterOK]
        exact ⟨hw.1, wpre_congr rfl hw.2⟩
    · contradiction
  | wAppend q ver pos =>
    simp only [micro, hpc] at h
    rw [hpc] at hw hso
    simp only [SlotOK] at hso
    obtain rfl := Option.some.inj h
    refine ⟨?_, by unf⟩
    simp only [State.goto, State.setChunk, if_true, WriterOK]
    refine ⟨hw.1, wpre_congr rfl hw.2, ?_, rfl⟩
    rw [hso.1]
    simp only [if_true, Stored]
    exact Or.inr (List.mem_append_right _ (List.mem_singleton.mpr rfl))
  | wDsUnlock q ver pos =>
    simp only [micro, hpc] at h
    rw [hpc] at hw
    obtain rfl := Option.some.inj h
    refine ⟨?_, by unf⟩
    simp only [State.goto, if_true, WriterOK]
    exact ⟨hw.1, wpre_congr rfl hw.2.1, hw.2.2⟩
  | rGet k =>
    simp only [micro, hpc] at h
    split at h
    · obtain rfl := Option.some.inj h; unf
    · rename_i it hit
      obtain rfl := Option.some.inj h
      obtain ⟨r, h1, h2, _⟩ := hd.tree k it hit
      refine ⟨by unf, ?_⟩
      simp only [State.goto, State.log, if_true, ReaderOK]
      exact ⟨r, h1, h2⟩
  | rBuf k it =>
    simp only [micro, hpc] at h
    rw [hpc] at hr
    split at h
    · obtain rfl := Option.some.inj h; unf
    · obtain rfl := Option.some.inj h; unf
    · rename_i hmiss
      obtain rfl := Option.some.inj h
      refine ⟨by unf, ?_⟩
      simp only [State.goto, if_true, ReaderOK]
      obtain ⟨r, ⟨h1, h2⟩, h3⟩ := hr
      rcases (hc.ok it.pos.chunk).read r h1 with hf | ⟨_, hf, _⟩
      · rw [h2, hmiss] at hf; contradiction
      · exact ⟨r, hf, h2, h3⟩
  | _ =>
    simp only [micro, hpc] at h
    repeat' (split at h)
    all_goals (try contradiction)
    all_goals (obtain rfl := Option.some.inj h
               simp [State.goto, State.log, State.respond, State.readDone, State.setChunk, WriterOK, ReaderOK, hpc])

theorem micro_data (cfg : Cfg) (s s' : State) (t : Nat) (hl : LockInv s) (hc : ChunkInv s) (hd : DataInv s)
    (h : micro cfg s t = some s') : DataInv s' := by
  have g := micro_grows hl hc h
  have hself := micro_self_data cfg s s' t hc hd h
  have hthr := micro_thr_others h
  refine ⟨?_, ?_, ?_, ?_⟩
  · intro c r hr
    rcases micro_stored_new hl hc h c r hr with h1 | ⟨q, ver, pos, hpc, rfl⟩
    · exact hd.recs c r h1
    · have hw := hd.wr t
      rw [hpc] at hw
      exact wpre_recOK hw.1 hw.2 _
  · intro k it hit
    rcases micro_tree h with he | ⟨q, ver, pos, hpc, he⟩
    · rw [he] at hit
      obtain ⟨r, h1, h2⟩ := hd.tree k it hit
      exact ⟨r, storedAt_grows g h1, h2⟩
    · rw [he] at hit
      by_cases hk : k = q.key
      · simp only [hk, if_true] at hit
        obtain rfl := Option.some.inj hit
        have hw := hd.wr t
        rw [hpc] at hw
        exact ⟨_, storedAt_grows g hw.2.2, hk.symm, rfl⟩
      · simp only [hk, if_false] at hit
        obtain ⟨r, h1, h2⟩ := hd.tree k it hit
        exact ⟨r, storedAt_grows g h1, h2⟩
  · intro u
    by_cases hu : u = t
    · subst hu; exact hself.1
    · rw [hthr u hu]
      rcases micro_tree h with he | ⟨q, ver, pos, hpc, he⟩
      · exact writerOK_mono he g (hd.wr u)
      · have htW : holdsW (s.thr t).pc = true := by rw [hpc]; rfl
        have : holdsW (s.thr u).pc = false := by
          cases hh : holdsW (s.thr u).pc with
          | false => rfl
          | true => exact absurd (hl.uniqW htW hh) hu
        exact writerOK_not_holdsW this (hd.wr u)
  · intro u
    by_cases hu : u = t
    · subst hu; exact hself.2
    · rw [hthr u hu]; exact readerOK_grows g (hd.rd u)

theorem invoke_data (s s' : State) (t : Nat) (op : Op) (hd : DataInv s) (h : invoke s t op = some s') : DataInv s' := by
  unfold invoke at h
  split at h
  · dsimp only at h
    have key : ∀ pc : PC, (∀ s1 : State, WriterOK s1 pc) → (∀ ch, ReaderOK ch pc) →
        DataInv { s with thr := fun u => if u = t then { pc := pc, inv := s.clock } else s.thr u } := by
      intro pc h1 h2
      refine ⟨hd.recs, hd.tree, ?_, ?_⟩
      · intro u
        by_cases hu : u = t
        · subst hu; simp only [if_true]; exact h1 _
        · simp only [hu, if_false]; exact writerOK_mono rfl (grows_refl _) (hd.wr u)
      · intro u
        by_cases hu : u = t
        · subst hu; simp only [if_true]; exact h2 _
        · simp only [hu, if_false]; exact hd.rd u
    cases op with
    | write k v sz =>
      dsimp only at h
      split at h
      · contradiction
      · rename_i hv
        obtain rfl := Option.some.inj h
        exact key _ (fun _ => ⟨by simp, fun _ => hv⟩) (fun _ => trivial)
    | delete k sz => obtain rfl := Option.some.inj h; exact key _ (fun _ => ⟨fun _ => rfl, by simp⟩) (fun _ => trivial)
    | read k => obtain rfl := Option.some.inj h; exact key _ (fun _ => trivial) (fun _ => trivial)
    | flush c force late => obtain rfl := Option.some.inj h; exact key _ (fun _ => trivial) (fun _ => trivial)
  · contradiction

theorem tick_data (s : State) (h : DataInv s) : DataInv s.tick :=
  ⟨h.recs, h.tree, fun u => writerOK_mono rfl (grows_refl _) (h.wr u), h.rd⟩

theorem step_data (cfg : Cfg) (s s' : State) (t : Nat) (a : Act) (hl : LockInv s) (hc : ChunkInv s) (hd : DataInv s)
    (h : step cfg s t a = some s') : DataInv s' := by
  obtain ⟨_, s1, rfl, h1 | ⟨op, h1⟩⟩ := step_cases h
  · exact tick_data _ (micro_data cfg s s1 t hl hc hd h1)
  · exact tick_data _ (invoke_data s s1 t op hd h1)

end ConcFine
