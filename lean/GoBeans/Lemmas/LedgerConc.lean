/-
  Lemmas for the interleaved ledger model (Model/LedgerConc.lean):
   A  the ledger as a commutative group (componentwise), sums over lists;
   B  effect, pushes and token discipline of every building block and of `microOps`: every clean outcome is `Balanced`
      (its total effect is exactly the ownership it hands to the write buffer; one token, taken once, put back);
      the four leaking outcomes leave exactly the residue `leak o` (`eff_microOps`);
   D  the tie to Model/Proto.lean: folding `microOps (outcomeOf ..)` = the ledger / write-buffer effect of `serveOnce`
      (`serveOnce_microOps`, `serve_microOps`); `flushOps` = `Proto.flush` (`flushOps_flush`);
   C  the invariant of the interleaved system for EVERY schedule (`run_inv`, `reachable_inv`), tokens (`tokens_eq`,
      `tokens_bounds`), quiescence (`idle_ledger`, `quiescent_zero`, exact with leaks: `finished_ledger`), no deadlock
      of the limiter (`no_deadlock`, `progress`), quiescence reachable from every reachable state (`drain`);
   E  the same statements for connections given by the outcomes of their commands (`C12_conc_*`), non-vacuity
      examples and sanity evaluations (a 3-connection / 1-token system, the leaking paths, the stream of Props/C12).
  Core-only.
-/
import GoBeans.Lemmas.Proto
import GoBeans.Model.LedgerConc
namespace LedgerConc
open Proto (Ledger Buf Cfg)

section proj
variable (a b : Ledger)
@[simp] theorem add_getC : (a + b).getC = a.getC + b.getC := rfl
@[simp] theorem add_getS : (a + b).getS = a.getS + b.getS := rfl
@[simp] theorem add_setC : (a + b).setC = a.setC + b.setC := rfl
@[simp] theorem add_setS : (a + b).setS = a.setS + b.setS := rfl
@[simp] theorem add_flushC : (a + b).flushC = a.flushC + b.flushC := rfl
@[simp] theorem add_flushS : (a + b).flushS = a.flushS + b.flushS := rfl
@[simp] theorem add_allocC : (a + b).allocC = a.allocC + b.allocC := rfl
@[simp] theorem add_allocS : (a + b).allocS = a.allocS + b.allocS := rfl
@[simp] theorem add_tokens : (a + b).tokens = a.tokens + b.tokens := rfl
@[simp] theorem sub_getC : (a - b).getC = a.getC + -b.getC := rfl
@[simp] theorem sub_getS : (a - b).getS = a.getS + -b.getS := rfl
@[simp] theorem sub_setC : (a - b).setC = a.setC + -b.setC := rfl
@[simp] theorem sub_setS : (a - b).setS = a.setS + -b.setS := rfl
@[simp] theorem sub_flushC : (a - b).flushC = a.flushC + -b.flushC := rfl
@[simp] theorem sub_flushS : (a - b).flushS = a.flushS + -b.flushS := rfl
@[simp] theorem sub_allocC : (a - b).allocC = a.allocC + -b.allocC := rfl
@[simp] theorem sub_allocS : (a - b).allocS = a.allocS + -b.allocS := rfl
@[simp] theorem sub_tokens : (a - b).tokens = a.tokens + -b.tokens := rfl
@[simp] theorem neg_getC : (-a).getC = -a.getC := rfl
@[simp] theorem neg_getS : (-a).getS = -a.getS := rfl
@[simp] theorem neg_setC : (-a).setC = -a.setC := rfl
@[simp] theorem neg_setS : (-a).setS = -a.setS := rfl
@[simp] theorem neg_flushC : (-a).flushC = -a.flushC := rfl
@[simp] theorem neg_flushS : (-a).flushS = -a.flushS := rfl
@[simp] theorem neg_allocC : (-a).allocC = -a.allocC := rfl
@[simp] theorem neg_allocS : (-a).allocS = -a.allocS := rfl
@[simp] theorem neg_tokens : (-a).tokens = -a.tokens := rfl
end proj
@[simp] theorem nil_getC : nil.getC = 0 := rfl
@[simp] theorem nil_getS : nil.getS = 0 := rfl
@[simp] theorem nil_setC : nil.setC = 0 := rfl
@[simp] theorem nil_setS : nil.setS = 0 := rfl
@[simp] theorem nil_flushC : nil.flushC = 0 := rfl
@[simp] theorem nil_flushS : nil.flushS = 0 := rfl
@[simp] theorem nil_allocC : nil.allocC = 0 := rfl
@[simp] theorem nil_allocS : nil.allocS = 0 := rfl
@[simp] theorem nil_tokens : nil.tokens = 0 := rfl

/-- close an equation between ledgers: componentwise linear arithmetic -/
macro "vec" : tactic => `(tactic| (apply Proto.led_ext <;> (try simp) <;> omega))

theorem vadd_assoc (a b c : Ledger) : a + b + c = a + (b + c) := by vec
theorem vadd_comm (a b : Ledger) : a + b = b + a := by vec
theorem vadd_nil (a : Ledger) : a + nil = a := by vec
theorem nil_vadd (a : Ledger) : nil + a = a := by vec

@[simp] theorem vsum_nil : vsum [] = nil := rfl
@[simp] theorem vsum_cons (x : Ledger) (xs : List Ledger) : vsum (x :: xs) = x + vsum xs := rfl
theorem vsum_append (xs ys : List Ledger) : vsum (xs ++ ys) = vsum xs + vsum ys := by
  induction xs with
  | nil => simp [nil_vadd]
  | cons x xs ih => simp [ih, vadd_assoc]

theorem vsum_set {α} (f : α → Ledger) : ∀ (xs : List α) (i : Nat) (x y : α), xs[i]? = some x →
    vsum ((xs.set i y).map f) = vsum (xs.map f) + f y - f x := by
  intro xs
  induction xs with
  | nil => intro i x y h; simp at h
  | cons a as ih =>
    intro i x y h
    cases i with
    | zero =>
      simp at h; subst h
      simp only [List.set_cons_zero, List.map_cons, vsum_cons]
      vec
    | succ n =>
      simp at h
      simp only [List.set_cons_succ, List.map_cons, vsum_cons, ih n x y h]
      vec

theorem vsum_perm {xs ys : List Ledger} (h : xs.Perm ys) : vsum xs = vsum ys := by
  induction h with
  | nil => rfl
  | cons x _ ih => simp [ih]
  | swap x y l => simp only [vsum_cons]; vec
  | trans _ _ ih1 ih2 => rw [ih1, ih2]

/-! ### effects -/
@[simp] theorem eff_nil : eff [] = nil := rfl
@[simp] theorem eff_cons (op : LedgerOp) (ops : List LedgerOp) : eff (op :: ops) = delta op + eff ops := rfl
theorem eff_append (a b : List LedgerOp) : eff (a ++ b) = eff a + eff b := by
  simp [eff, vsum_append]

theorem applyOps_eq (ops : List LedgerOp) (l : Ledger) : applyOps ops l = l + eff ops := by
  induction ops generalizing l with
  | nil => simp [applyOps, vadd_nil]
  | cons op ops ih =>
    have : applyOps (op :: ops) l = applyOps ops (applyOp l op) := rfl
    rw [this, ih, eff_cons, applyOp, vadd_assoc]

theorem eff_flatMap {α} (f : α → List LedgerOp) (l : List α) : eff (l.flatMap f) = vsum (l.map (fun x => eff (f x))) := by
  induction l with
  | nil => rfl
  | cons x xs ih => simp [List.flatMap_cons, eff_append, ih]

@[simp] theorem pushes_nil : pushes [] = [] := rfl
@[simp] theorem pushes_cons (op : LedgerOp) (ops : List LedgerOp) : pushes (op :: ops) = pushOf op ++ pushes ops := rfl
@[simp] theorem pushes_append (a b : List LedgerOp) : pushes (a ++ b) = pushes a ++ pushes b := by
  simp [pushes]
theorem pushes_flatMap_nil {α} (f : α → List LedgerOp) (l : List α) (h : ∀ x, pushes (f x) = []) : pushes (l.flatMap f) = [] := by
  induction l with
  | nil => rfl
  | cons x xs ih => simp [List.flatMap_cons, h, ih]

@[simp] theorem ownSum_nil : ownSum [] = nil := rfl
@[simp] theorem ownSum_cons (b : Buf) (bs : List Buf) : ownSum (b :: bs) = ownVec b + ownSum bs := rfl
theorem ownSum_append (a b : List Buf) : ownSum (a ++ b) = ownSum a + ownSum b := by
  simp [ownSum, vsum_append]

/-! ### the building blocks -/
def allocVec (b : Buf) : Ledger := { nil with allocC := if b.inC then 1 else 0, allocS := if b.inC then b.cap else 0 }
/-- a read buffer in the hands of a caller: AllocRL (if malloc'ed) and GetData -/
def heldVec (b : Buf) : Ledger := { allocVec b with getC := 1, getS := b.cap }

@[simp] theorem eff_addSC (s c : Ctr) (n : Int) : eff (addSC s c n) = s.vec n + c.vec 1 := by
  simp [addSC, delta, vadd_nil]
@[simp] theorem eff_subSC (s c : Ctr) (n : Int) : eff (subSC s c n) = s.vec (-n) + c.vec (-1) := by
  simp [subSC, delta, vadd_nil]
@[simp] theorem eff_allocOps (b : Buf) : eff (allocOps b) = allocVec b := by
  unfold allocOps allocVec; cases b.inC <;> simp [Ctr.vec] <;> vec
@[simp] theorem eff_freeOps (b : Buf) : eff (freeOps b) = -allocVec b := by
  unfold freeOps allocVec; cases b.inC <;> simp [Ctr.vec] <;> vec

@[simp] theorem allocVec_getC (b : Buf) : (allocVec b).getC = 0 := rfl
@[simp] theorem allocVec_getS (b : Buf) : (allocVec b).getS = 0 := rfl
@[simp] theorem allocVec_setC (b : Buf) : (allocVec b).setC = 0 := rfl
@[simp] theorem allocVec_setS (b : Buf) : (allocVec b).setS = 0 := rfl
@[simp] theorem allocVec_flushC (b : Buf) : (allocVec b).flushC = 0 := rfl
@[simp] theorem allocVec_flushS (b : Buf) : (allocVec b).flushS = 0 := rfl
@[simp] theorem allocVec_tokens (b : Buf) : (allocVec b).tokens = 0 := rfl

/-- componentwise arithmetic with the unit vectors unfolded -/
macro "vecx" : tactic => `(tactic| (apply Proto.led_ext <;> (try simp [Ctr.vec, delta]) <;> omega))

theorem heldVec_eq (b : Buf) : heldVec b = allocVec b + Ctr.vec .getS b.cap + Ctr.vec .getC 1 := by
  unfold heldVec; vecx
theorem ownVec_eq (b : Buf) : ownVec b = allocVec b + Ctr.vec .flushS b.cap + Ctr.vec .flushC 1 := by
  unfold ownVec allocVec; vecx

theorem eff_readOps (r : RdBuf) : eff (readOps r) = heldVec r.fin := by
  unfold readOps
  cases hd : r.dec with
  | none => simp [eff_append, RdBuf.fin, hd, heldVec_eq]; vecx
  | some d => simp [eff_append, RdBuf.fin, hd, heldVec_eq]; vecx

theorem eff_releaseOps (b : Buf) : eff (releaseOps b) = -heldVec b := by
  unfold releaseOps; simp [eff_append, heldVec_eq]; vecx

theorem eff_keyOps (k : KeyRead) (h : k.clean = true) : eff (keyOps k) = vsum ((keyHeld k).map heldVec) := by
  cases k with
  | miss => rfl
  | transient r => simp [keyOps, keyHeld, eff_append, eff_readOps, eff_releaseOps]; vec
  | hit r => simp [keyOps, keyHeld, eff_readOps, vadd_nil]
  | collision r1 r2 => simp [keyOps, keyHeld, eff_append, eff_readOps, eff_releaseOps]; vec
  | readErrLeak b => simp [KeyRead.clean] at h
  | decompFailLeak raw d => simp [KeyRead.clean] at h

theorem eff_compressOps (cur : Buf) (a : Attempt) :
    eff (compressOps cur a) = allocVec (a.out cur) - allocVec cur + Ctr.vec .setS (((a.out cur).cap : Int) - cur.cap) := by
  unfold compressOps
  have h0 : eff (a.tries.flatMap (fun t => allocOps t ++ freeOps t)) = nil := by
    induction a.tries with
    | nil => rfl
    | cons t ts ih => simp [List.flatMap_cons, eff_append, ih]; vec
  cases hc : a.comp with
  | none => simp [eff_append, h0, Attempt.out, hc]; vecx
  | some c => simp [eff_append, h0, Attempt.out, hc]; vecx

theorem eff_handOver (b : Buf) :
    eff (handOver b) = ownVec b - allocVec b + Ctr.vec .setS (-(b.cap : Int)) + Ctr.vec .setC (-1) := by
  unfold handOver; simp [eff_append, ownVec_eq]; vecx

theorem eff_storeHead (b : Buf) :
    eff (storeHead b) = delta .tokGet + allocVec b + Ctr.vec .setS b.cap + Ctr.vec .setC 1 := by
  unfold storeHead; simp [eff_append]; vecx

/-! ### pushes of the blocks -/
@[simp] theorem pushes_addSC (s c : Ctr) (n : Int) : pushes (addSC s c n) = [] := rfl
@[simp] theorem pushes_subSC (s c : Ctr) (n : Int) : pushes (subSC s c n) = [] := rfl
@[simp] theorem pushes_allocOps (b : Buf) : pushes (allocOps b) = [] := by unfold allocOps; cases b.inC <;> simp
@[simp] theorem pushes_freeOps (b : Buf) : pushes (freeOps b) = [] := by unfold freeOps; cases b.inC <;> simp
@[simp] theorem pushes_readOps (r : RdBuf) : pushes (readOps r) = [] := by
  unfold readOps; cases r.dec <;> simp [pushOf]
@[simp] theorem pushes_releaseOps (b : Buf) : pushes (releaseOps b) = [] := by simp [releaseOps]
@[simp] theorem pushes_keyOps (k : KeyRead) : pushes (keyOps k) = [] := by
  cases k <;> simp [keyOps, pushOf]
@[simp] theorem pushes_compressOps (cur : Buf) (a : Attempt) : pushes (compressOps cur a) = [] := by
  unfold compressOps
  have : pushes (a.tries.flatMap (fun t => allocOps t ++ freeOps t)) = [] := pushes_flatMap_nil _ _ (by simp)
  cases a.comp <;> simp [this, pushOf]
@[simp] theorem pushes_handOver (b : Buf) : pushes (handOver b) = [b] := by simp [handOver, pushOf]
@[simp] theorem pushes_storeHead (b : Buf) : pushes (storeHead b) = [] := by simp [storeHead, pushOf]
@[simp] theorem pushes_tail : pushes tail = [] := rfl
@[simp] theorem pushes_incrHead : pushes incrHead = [] := rfl
@[simp] theorem pushes_flatMap_keyOps (ks : List KeyRead) : pushes (ks.flatMap keyOps) = [] := pushes_flatMap_nil _ _ pushes_keyOps
@[simp] theorem pushes_flatMap_releaseOps (bs : List Buf) : pushes (bs.flatMap releaseOps) = [] := pushes_flatMap_nil _ _ pushes_releaseOps

/-! ### token discipline -/
def isTok : LedgerOp → Bool
  | .tokGet => true
  | .tokPut => true
  | _ => false

theorem tokWF_filter (h : Bool) (ops : List LedgerOp) : tokWF h ops = tokWF h (ops.filter isTok) := by
  induction ops generalizing h with
  | nil => rfl
  | cons op ops ih => cases op <;> simp [List.filter_cons, isTok, tokWF, ih]

theorem filterTok_flatMap_nil {α} (f : α → List LedgerOp) (l : List α) (h : ∀ x, (f x).filter isTok = []) :
    (l.flatMap f).filter isTok = [] := by
  induction l with
  | nil => rfl
  | cons x xs ih => simp [List.flatMap_cons, List.filter_append, h, ih]

@[simp] theorem ft_addSC (s c : Ctr) (n : Int) : (addSC s c n).filter isTok = [] := rfl
@[simp] theorem ft_subSC (s c : Ctr) (n : Int) : (subSC s c n).filter isTok = [] := rfl
@[simp] theorem ft_allocOps (b : Buf) : (allocOps b).filter isTok = [] := by unfold allocOps; cases b.inC <;> simp
@[simp] theorem ft_freeOps (b : Buf) : (freeOps b).filter isTok = [] := by unfold freeOps; cases b.inC <;> simp
@[simp] theorem ft_readOps (r : RdBuf) : (readOps r).filter isTok = [] := by
  unfold readOps; cases r.dec <;> simp [List.filter_append, isTok]
@[simp] theorem ft_releaseOps (b : Buf) : (releaseOps b).filter isTok = [] := by simp [releaseOps, List.filter_append]
@[simp] theorem ft_keyOps (k : KeyRead) : (keyOps k).filter isTok = [] := by
  cases k <;> simp [keyOps, List.filter_append, isTok]
@[simp] theorem ft_compressOps (cur : Buf) (a : Attempt) : (compressOps cur a).filter isTok = [] := by
  unfold compressOps
  have : (a.tries.flatMap (fun t => allocOps t ++ freeOps t)).filter isTok = [] :=
    filterTok_flatMap_nil _ _ (by simp [List.filter_append])
  cases a.comp <;> simp [List.filter_append, this, isTok]
@[simp] theorem ft_handOver (b : Buf) : (handOver b).filter isTok = [] := by
  simp [handOver, List.filter_append, isTok]
@[simp] theorem ft_storeHead (b : Buf) : (storeHead b).filter isTok = [.tokGet] := by
  simp [storeHead, List.filter_append, List.filter_cons, isTok]
@[simp] theorem ft_tail : tail.filter isTok = [.tokPut] := rfl
@[simp] theorem ft_incrHead : incrHead.filter isTok = [.tokGet] := rfl
@[simp] theorem ft_flatMap_keyOps (ks : List KeyRead) : (ks.flatMap keyOps).filter isTok = [] := filterTok_flatMap_nil _ _ ft_keyOps
@[simp] theorem ft_flatMap_releaseOps (bs : List Buf) : (bs.flatMap releaseOps).filter isTok = [] := filterTok_flatMap_nil _ _ ft_releaseOps

/-- every command takes at most one token and puts it back before it ends — also on the paths that leak counters -/
theorem microOps_tokWF (o : Outcome) : tokWF false (microOps o) = true := by
  rw [tokWF_filter]
  cases o with
  | plain => rfl
  | get keys rel => simp [microOps, List.filter_append, List.filter_cons, isTok, tokWF]
  | getPanic keys raw => simp [microOps, List.filter_append, List.filter_cons, isTok, tokWF]
  | store body e => cases e <;> simp [microOps, List.filter_append, List.filter_cons, isTok, tokWF]
  | incr e => cases e <;> simp [microOps, List.filter_append, isTok, tokWF]

/-- a command that gives back everything: token discipline, and its total effect is exactly what it handed to the write buffer -/
def Balanced (ops : List LedgerOp) : Prop := tokWF false ops = true ∧ eff ops = ownSum (pushes ops)

theorem vsum_flatMap_held (ks : List KeyRead) (h : ks.all KeyRead.clean = true) :
    eff (ks.flatMap keyOps) = vsum ((ks.flatMap keyHeld).map heldVec) := by
  induction ks with
  | nil => rfl
  | cons k ks ih =>
    simp only [List.all_cons, Bool.and_eq_true] at h
    simp [List.flatMap_cons, eff_append, eff_keyOps k h.1, ih h.2, vsum_append]

theorem eff_flatMap_release (bs : List Buf) : eff (bs.flatMap releaseOps) = -vsum (bs.map heldVec) := by
  induction bs with
  | nil => vec
  | cons b bs ih => simp [List.flatMap_cons, eff_append, eff_releaseOps, ih]; vec

@[simp] theorem allocVec_heap (n : Nat) : allocVec { cap := n, inC := false } = nil := rfl

theorem microOps_balanced (o : Outcome) (hc : o.clean = true)
    (hrel : ∀ keys rel, o = .get keys rel → rel.Perm (keys.flatMap keyHeld)) : Balanced (microOps o) := by
  refine ⟨microOps_tokWF o, ?_⟩
  cases o with
  | plain => rfl
  | get keys rel =>
    have hp := vsum_perm ((hrel keys rel rfl).map heldVec)
    simp only [Outcome.clean] at hc
    simp [microOps, eff_append, vsum_flatMap_held keys hc, eff_flatMap_release, hp, pushOf]; vecx
  | getPanic keys raw => simp [Outcome.clean] at hc
  | store body e =>
    cases e with
    | recvTimeoutLeak => simp [Outcome.clean] at hc
    | allocFail => simp [microOps, tail, pushOf]; vecx
    | cut => simp [microOps, eff_append, tail, eff_storeHead, pushOf]; vecx
    | append => simp [microOps, eff_append, tail, eff_storeHead, pushOf]; vecx
    | dropped => simp [microOps, eff_append, tail, eff_storeHead, pushOf]; vecx
    | refused a => simp [microOps, eff_append, tail, eff_storeHead, eff_compressOps, pushOf]; vecx
    | written a1 a2 =>
      simp [microOps, eff_append, tail, eff_storeHead, eff_compressOps, eff_handOver, vadd_nil, pushOf]; vecx
  | incr e =>
    cases e with
    | recvTimeoutLeak => simp [Outcome.clean] at hc
    | early => simp [microOps, tail, incrHead, pushOf]; vecx
    | failed old =>
      simp only [Outcome.clean] at hc
      simp [microOps, eff_append, tail, incrHead, eff_keyOps old hc, eff_flatMap_release, pushOf]; vecx
    | written old a =>
      simp only [Outcome.clean] at hc
      simp [microOps, eff_append, tail, incrHead, eff_keyOps old hc, eff_flatMap_release, eff_compressOps,
        eff_handOver, vadd_nil, pushOf]; vecx

/-! ### the flusher's program -/

theorem eff_flush_sub (batch : List Buf) : eff (batch.flatMap (fun b => subSC .flushS .flushC b.cap))
    = -vsum (batch.map (fun b => Ctr.vec .flushS b.cap + Ctr.vec .flushC 1)) := by
  induction batch with
  | nil => vec
  | cons b bs ih => simp [List.flatMap_cons, eff_append, ih]; vecx

theorem eff_flush_free (batch : List Buf) : eff (batch.flatMap freeOps) = -vsum (batch.map allocVec) := by
  induction batch with
  | nil => vec
  | cons b bs ih => simp [List.flatMap_cons, eff_append, ih]; vec

theorem ownSum_parts (batch : List Buf) :
    ownSum batch = vsum (batch.map (fun b => Ctr.vec .flushS b.cap + Ctr.vec .flushC 1)) + vsum (batch.map allocVec) := by
  induction batch with
  | nil => vec
  | cons b bs ih => simp [ih, ownVec_eq]; vecx

/-- the flusher gives back exactly what the write buffer owned for the batch -/
theorem eff_flushOps (batch : List Buf) : eff (flushOps batch) = -ownSum batch := by
  unfold flushOps
  simp [eff_append, eff_flush_sub, eff_flush_free, ownSum_parts batch, delta]; vec

theorem ft_flushOps (batch : List Buf) : (flushOps batch).filter isTok = [] := by
  unfold flushOps
  have h1 : (batch.flatMap (fun b => subSC .flushS .flushC b.cap)).filter isTok = [] := filterTok_flatMap_nil _ _ (by simp)
  have h2 : (batch.flatMap freeOps).filter isTok = [] := filterTok_flatMap_nil _ _ ft_freeOps
  simp [List.filter_append, h1, h2, isTok]

theorem vsum_map_nil {α} (f : α → Ledger) (l : List α) (h : ∀ x ∈ l, f x = nil) : vsum (l.map f) = nil := by
  induction l with
  | nil => rfl
  | cons x xs ih =>
    simp only [List.map_cons, vsum_cons, h x (by simp), ih (fun y hy => h y (by simp [hy]))]
    vec

/-! ### D. the tie to Model/Proto.lean -/

theorem zero_eq (cfg : Cfg) : Proto.zero cfg = zero cfg := rfl

theorem own_eq (l : Ledger) (b : Buf) : Proto.own l b = l + ownVec b := by
  unfold Proto.own Proto.Ledger.flushAdd ownVec
  cases h : b.inC <;> simp <;> vec

theorem idle_eq (cfg : Cfg) (pend : List Buf) : Proto.idle cfg pend = zero cfg + ownSum pend := by
  unfold Proto.idle
  rw [zero_eq]
  generalize zero cfg = l
  induction pend generalizing l with
  | nil => simp; vec
  | cons b bs ih => simp only [List.foldl_cons, ih, own_eq, ownSum_cons]; vec

/-- which buffers `process` appends to the write buffer's list, by command kind -/
theorem process_pend (cfg : Cfg) (st : Proto.St) (r : Proto.Req) (item : Option Buf) (k : Proto.Kind) :
    let pr := Proto.process cfg st r item k
    match k with
    | .store => pr.1.pend = st.pend ∨ pr.1.pend = st.pend ++ [item.getD { cap := 0, inC := false }]
    | .incr => pr.1.pend = st.pend ∨ pr.1.pend = st.pend ++ [{ cap := 0, inC := false }]
    | _ => pr.1.pend = st.pend := by
  cases k <;> simp only [Proto.process]
  · unfold Proto.processGet; repeat' split
    all_goals simp
  · unfold Proto.processStore; simp only []; repeat' split
    all_goals simp [Proto.replyIf]
  · unfold Proto.processAppend; simp only []; split <;> simp
  · unfold Proto.processDelete; simp only []; repeat' split
    all_goals simp [Proto.replyIf]
  · unfold Proto.processIncr; simp only []; repeat' split
    all_goals simp [Proto.replyIf]
  · simp [Proto.replyIf]
  · unfold Proto.processStats; split <;> simp

theorem apply_balanced {ops : List LedgerOp} (hb : Balanced ops) (l : Ledger) :
    applyOps ops l = l + ownSum (pushes ops) := by
  rw [applyOps_eq, hb.2]

theorem held_of_hits (bufs : List Buf) : (bufs.map (fun b => KeyRead.hit { raw := b })).flatMap keyHeld = bufs := by
  induction bufs with
  | nil => rfl
  | cons b bs ih => simp [List.flatMap_cons, keyHeld, RdBuf.fin, ih]

theorem balanced_get_hits (bufs : List Buf) :
    Balanced (microOps (.get (bufs.map (fun b => KeyRead.hit { raw := b })) bufs)) := by
  apply microOps_balanced
  · simp [Outcome.clean, KeyRead.clean]
  · intro keys rel h
    injection h with h1 h2
    subst h1 h2
    rw [held_of_hits]

theorem pushes_get (keys : List KeyRead) (rel : List Buf) : pushes (microOps (.get keys rel)) = [] := by
  simp [microOps, pushOf]

theorem balanced_clean_nonget (o : Outcome) (hc : o.clean = true) (hg : ∀ keys rel, o ≠ .get keys rel) :
    Balanced (microOps o) :=
  microOps_balanced o hc (fun keys rel h => absurd h (hg keys rel))

/-- the outcomes `outcomeOf` produces for commands that do not reach the write buffer have no net effect -/
theorem apply_plain (l : Ledger) : applyOps (microOps .plain) l = l := rfl

theorem apply_store_nopush (body : Buf) (e : StoreEnd) (he : e = .cut ∨ e = .append ∨ e = .dropped) (l : Ledger) :
    applyOps (microOps (.store body e)) l = l ∧ pushes (microOps (.store body e)) = [] := by
  have hb : Balanced (microOps (.store body e)) := by
    apply balanced_clean_nonget
    · rcases he with h | h | h <;> simp [h, Outcome.clean]
    · intro _ _ h; cases h
  have hp : pushes (microOps (.store body e)) = [] := by
    rcases he with h | h | h <;> simp [h, microOps]
  refine ⟨?_, hp⟩
  rw [apply_balanced hb, hp]; simp only [ownSum_nil]; vec

theorem apply_store_written (body : Buf) (l : Ledger) :
    applyOps (microOps (.store body (.written {} {}))) l = l + ownVec body
    ∧ pushes (microOps (.store body (.written {} {}))) = [body] := by
  have hb : Balanced (microOps (.store body (.written {} {}))) :=
    balanced_clean_nonget _ rfl (by intro _ _ h; cases h)
  have hp : pushes (microOps (.store body (.written {} {}))) = [body] := by
    simp [microOps, Attempt.out]
  refine ⟨?_, hp⟩
  rw [apply_balanced hb, hp]; simp only [ownSum_cons, ownSum_nil]; vec

theorem apply_incr_early (l : Ledger) :
    applyOps (microOps (.incr .early)) l = l ∧ pushes (microOps (.incr .early)) = [] := by
  have hb : Balanced (microOps (.incr .early)) := balanced_clean_nonget _ rfl (by intro _ _ h; cases h)
  have hp : pushes (microOps (.incr .early)) = [] := by simp [microOps, pushOf]
  refine ⟨?_, hp⟩
  rw [apply_balanced hb, hp]; simp only [ownSum_nil]; vec

theorem apply_incr_written (l : Ledger) :
    applyOps (microOps (.incr (.written .miss {}))) l = l + ownVec { cap := 0, inC := false }
    ∧ pushes (microOps (.incr (.written .miss {}))) = [{ cap := 0, inC := false }] := by
  have hb : Balanced (microOps (.incr (.written .miss {}))) := balanced_clean_nonget _ rfl (by intro _ _ h; cases h)
  have hp : pushes (microOps (.incr (.written .miss {}))) = [{ cap := 0, inC := false }] := by
    simp [microOps, Attempt.out, keyHeld]
  refine ⟨?_, hp⟩
  rw [apply_balanced hb, hp]; simp only [ownSum_cons, ownSum_nil]; vec

theorem apply_get_hits (bufs : List Buf) (l : Ledger) :
    applyOps (microOps (.get (bufs.map (fun b => KeyRead.hit { raw := b })) bufs)) l = l := by
  rw [apply_balanced (balanced_get_hits bufs), pushes_get]; simp only [ownSum_nil]; vec

theorem own_tok (l : Ledger) (b : Buf) : (l.tokGet + ownVec b).tokPut = l + ownVec b := by
  unfold Proto.Ledger.tokGet Proto.Ledger.tokPut; vec

theorem not_snoc_self {α} (l : List α) (b : α) : l ++ [b] ≠ l := by
  intro h
  have := congrArg List.length h
  simp at this

/-- Folding the micro-operations of a command's outcome over the ledger and the write-buffer list gives exactly what
    `Proto.serveOnce` does to them — for every state and every input -/
theorem serveOnce_microOps (cfg : Cfg) (st : Proto.St) (inp : Bytes) :
    applyOps (microOps (outcomeOf cfg st inp)) st.led = (Proto.serveOnce cfg st inp).st.led
    ∧ st.pend ++ pushes (microOps (outcomeOf cfg st inp)) = (Proto.serveOnce cfg st inp).st.pend := by
  have hp := Proto.readReq_post cfg st.led inp
  unfold outcomeOf Proto.serveOnce
  generalize Proto.readReq cfg st.led inp = ro at hp
  simp only []
  have herr : ro.res ≠ .ok →
      applyOps (microOps (if ro.working = true then Outcome.store (bufOf cfg (announcedLen inp)) .cut else .plain)) st.led
        = (if ro.working = true then ro.led.tokPut else ro.led)
      ∧ st.pend ++ pushes (microOps (if ro.working = true then Outcome.store (bufOf cfg (announcedLen inp)) .cut else .plain)) = st.pend := by
    intro e
    unfold Proto.ReadPost at hp
    split at hp
    · exact absurd (by assumption) e
    · rcases hp with ⟨h1, h2⟩ | ⟨h1, h2⟩
      · simp [h1, h2, microOps, applyOps]
      · have := apply_store_nopush (bufOf cfg (announcedLen inp)) .cut (Or.inl rfl) st.led
        simp [h1, h2, this.1, this.2, Proto.tokPut_tokGet]
  cases hres : ro.res with
  | net => simpa [hres] using herr (by simp [hres])
  | err e =>
    have := herr (by simp [hres])
    cases e <;> simpa [hres] using this
  | ok =>
    have pp := Proto.process_post cfg st ro st.led hp hres
    have pq := process_pend cfg { st with led := ro.led } ro.req ro.item ro.kind
    unfold Proto.ReadPost at hp
    rw [hres] at hp
    simp only [] at hp pq ⊢
    generalize Proto.process cfg { st with led := ro.led } ro.req ro.item ro.kind = pr at pp pq ⊢
    obtain ⟨st1, resp, bufs, quit⟩ := pr
    simp only [Proto.StepPost] at pp
    simp only [] at pp pq ⊢
    -- a command that leaves the write buffer's list alone has put the ledger back
    have same : st1.pend = st.pend →
        List.foldl Proto.releaseRead st1.led bufs = if ro.working = true then st.led.tokGet else st.led := by
      intro h
      rcases pp with ⟨_, h2⟩ | ⟨b, h1, _⟩
      · exact h2
      · exact absurd (h1.symm.trans h) (not_snoc_self _ _)
    -- a command that appended `b'` has moved the ledger by exactly that ownership
    have grew : ∀ b', st1.pend = st.pend ++ [b'] →
        List.foldl Proto.releaseRead st1.led bufs = Proto.own (if ro.working = true then st.led.tokGet else st.led) b' := by
      intro b' h
      rcases pp with ⟨h1, _⟩ | ⟨b, h1, h2⟩
      · exact absurd (h.symm.trans h1) (not_snoc_self _ _)
      · have : b = b' := by
          have := h1.symm.trans h
          simpa using this
        rw [← this]; exact h2
    cases hk : ro.kind <;> simp only [hk] at hp pq ⊢
    case get =>
      have h2 := same pq
      simp [hp.2.1, h2, Proto.tokPut_tokGet, apply_get_hits, pushes_get, pq]
    case store =>
      obtain ⟨L, _, _, hw⟩ := hp
      rcases pq with h | h
      · have h2 := same h
        have := apply_store_nopush (ro.item.getD { cap := 0, inC := false }) .dropped (Or.inr (Or.inr rfl)) st.led
        simp [hw, h2, h, Proto.tokPut_tokGet, this.1, this.2]
      · have h2 := grew _ h
        have := apply_store_written (ro.item.getD { cap := 0, inC := false }) st.led
        simp [hw, h2, h, own_eq, own_tok, this.1, this.2]
    case append =>
      obtain ⟨L, _, _, hw⟩ := hp
      have h2 := same pq
      have := apply_store_nopush (ro.item.getD { cap := 0, inC := false }) .append (Or.inr (Or.inl rfl)) st.led
      simp [hw, h2, pq, Proto.tokPut_tokGet, this.1, this.2]
    case incr =>
      rcases pq with h | h
      · have h2 := same h
        simp [hp.2, h2, h, Proto.tokPut_tokGet, (apply_incr_early st.led).1, (apply_incr_early st.led).2]
      · have h2 := grew _ h
        simp [hp.2, h2, h, own_eq, own_tok, (apply_incr_written st.led).1, (apply_incr_written st.led).2]
    case decr =>
      have h2 := same pq
      simp [hp.2, h2, pq, Proto.tokPut_tokGet, (apply_incr_early st.led).1, (apply_incr_early st.led).2]
    all_goals
      have h2 := same pq
      simp [hp.2, h2, pq, microOps, applyOps]

/-- every outcome Model/Proto.lean can produce is balanced -/
theorem outcomeOf_balanced (cfg : Cfg) (st : Proto.St) (inp : Bytes) : Balanced (microOps (outcomeOf cfg st inp)) := by
  unfold outcomeOf
  simp only []
  repeat' split
  all_goals first
    | exact balanced_get_hits _
    | exact balanced_clean_nonget _ rfl (by intro _ _ h; cases h)

theorem applyOps_append (a b : List LedgerOp) (l : Ledger) : applyOps (a ++ b) l = applyOps b (applyOps a l) := by
  simp [applyOps, List.foldl_append]

/-- a whole connection of Model/Proto.lean = its commands' micro-operations executed one after the other -/
theorem serve_microOps (cfg : Cfg) (fuel : Nat) (st : Proto.St) (inp : Bytes) :
    applyOps ((outcomes cfg fuel st inp).flatMap microOps) st.led = (Proto.serve cfg fuel st inp).1.led
    ∧ st.pend ++ pushes ((outcomes cfg fuel st inp).flatMap microOps) = (Proto.serve cfg fuel st inp).1.pend := by
  induction fuel generalizing st inp with
  | zero => simp [outcomes, Proto.serve, applyOps]
  | succ n ih =>
    have h1 := serveOnce_microOps cfg st inp
    unfold outcomes Proto.serve
    simp only []
    split
    · simpa using h1
    · have h2 := ih (Proto.serveOnce cfg st inp).st (inp.drop (Proto.serveOnce cfg st inp).n)
      simp only [List.flatMap_cons, applyOps_append, pushes_append, h1.1, ← List.append_assoc, h1.2]
      exact h2

theorem flush_step (l : Ledger) (b : Buf) : (l.flushSub b.cap).free b = l - ownVec b := by
  unfold Proto.Ledger.flushSub Proto.Ledger.free ownVec
  cases h : b.inC <;> simp <;> vec

/-- `flushOps` on everything pending is `Proto.flush` -/
theorem flushOps_flush (st : Proto.St) : applyOps (flushOps st.pend) st.led = (Proto.flush st).led := by
  have : ∀ (bs : List Buf) (l : Ledger),
      bs.foldl (fun l buf => (l.flushSub buf.cap).free buf) l = l - ownSum bs := by
    intro bs
    induction bs with
    | nil => intro l; simp; vec
    | cons b bs ih => intro l; rw [List.foldl_cons, ih, flush_step, ownSum_cons]; vec
  simp only [Proto.flush, this, applyOps_eq, eff_flushOps]; vec

/-! ### the four paths that do not give back what they took -/

def leakK : KeyRead → Ledger
  | .readErrLeak b => allocVec b
  | .decompFailLeak _ diff => Ctr.vec .getS diff
  | _ => nil

/-- what a served command leaves behind for ever -/
def leak : Outcome → Ledger
  | .get keys _ => vsum (keys.map leakK)
  | .getPanic keys raw => vsum ((keys.flatMap keyHeld).map heldVec) + vsum (keys.map leakK) + heldVec raw
  | .store body .recvTimeoutLeak => allocVec body + Ctr.vec .setS body.cap + Ctr.vec .setC 1
  | .incr .recvTimeoutLeak => Ctr.vec .setC 1
  | .incr (.failed old) => leakK old
  | .incr (.written old _) => leakK old
  | _ => nil

theorem eff_keyOps_all (k : KeyRead) : eff (keyOps k) = vsum ((keyHeld k).map heldVec) + leakK k := by
  cases k with
  | miss => simp [keyOps, keyHeld, leakK]; vec
  | transient r => simp [keyOps, keyHeld, leakK, eff_append, eff_readOps, eff_releaseOps]; vec
  | hit r => simp [keyOps, keyHeld, leakK, eff_readOps]; vec
  | collision r1 r2 => simp [keyOps, keyHeld, leakK, eff_append, eff_readOps, eff_releaseOps]; vec
  | readErrLeak b => simp [keyOps, keyHeld, leakK, eff_append]; vecx
  | decompFailLeak raw d => simp [keyOps, keyHeld, leakK, eff_append, heldVec_eq]; vecx

theorem eff_flatMap_keyOps_all (ks : List KeyRead) :
    eff (ks.flatMap keyOps) = vsum ((ks.flatMap keyHeld).map heldVec) + vsum (ks.map leakK) := by
  induction ks with
  | nil => vec
  | cons k ks ih => simp [List.flatMap_cons, eff_append, eff_keyOps_all k, ih, vsum_append]; vec

/-- the exact residue of EVERY outcome: what went to the write buffer plus `leak` -/
theorem eff_microOps (o : Outcome) (hrel : ∀ keys rel, o = .get keys rel → rel.Perm (keys.flatMap keyHeld)) :
    eff (microOps o) = ownSum (pushes (microOps o)) + leak o := by
  cases o with
  | plain => simp [microOps, leak]; vec
  | get keys rel =>
    have hp := vsum_perm ((hrel keys rel rfl).map heldVec)
    simp [microOps, eff_append, eff_flatMap_keyOps_all, eff_flatMap_release, hp, pushOf, leak]; vecx
  | getPanic keys raw =>
    simp [microOps, eff_append, eff_flatMap_keyOps_all, pushOf, leak, heldVec_eq]; vecx
  | store body e =>
    cases e with
    | recvTimeoutLeak => simp [microOps, eff_append, tail, eff_storeHead, pushOf, leak]; vecx
    | allocFail => simp [microOps, tail, pushOf, leak]; vecx
    | cut => simp [microOps, eff_append, tail, eff_storeHead, pushOf, leak]; vecx
    | append => simp [microOps, eff_append, tail, eff_storeHead, pushOf, leak]; vecx
    | dropped => simp [microOps, eff_append, tail, eff_storeHead, pushOf, leak]; vecx
    | refused a => simp [microOps, eff_append, tail, eff_storeHead, eff_compressOps, pushOf, leak]; vecx
    | written a1 a2 =>
      simp [microOps, eff_append, tail, eff_storeHead, eff_compressOps, eff_handOver, vadd_nil, pushOf, leak]; vecx
  | incr e =>
    cases e with
    | recvTimeoutLeak => simp [microOps, tail, incrHead, pushOf, leak]; vecx
    | early => simp [microOps, tail, incrHead, pushOf, leak]; vecx
    | failed old =>
      simp [microOps, eff_append, tail, incrHead, eff_keyOps_all old, eff_flatMap_release, pushOf, leak]; vecx
    | written old a =>
      simp [microOps, eff_append, tail, incrHead, eff_keyOps_all old, eff_flatMap_release, eff_compressOps,
        eff_handOver, vadd_nil, pushOf, leak]; vecx

theorem leakK_clean (k : KeyRead) (h : k.clean = true) : leakK k = nil := by
  cases k <;> simp [KeyRead.clean] at h <;> rfl

theorem leak_clean (o : Outcome) (h : o.clean = true) : leak o = nil := by
  cases o with
  | plain => rfl
  | get keys rel =>
    simp only [Outcome.clean, List.all_eq_true] at h
    exact vsum_map_nil _ _ (fun k hk => leakK_clean k (h k hk))
  | getPanic keys raw => simp [Outcome.clean] at h
  | store body e => cases e <;> simp [Outcome.clean] at h <;> rfl
  | incr e =>
    cases e <;> simp [Outcome.clean] at h <;> simp [leak, leakK_clean, h]
/-! ### C. the interleaved system -/


def b2i (b : Bool) : Int := if b then 1 else 0
@[simp] theorem b2i_true : b2i true = 1 := rfl
@[simp] theorem b2i_false : b2i false = 0 := rfl

theorem tokWF_split : ∀ (d t : List LedgerOp) (h : Bool), tokWF h (d ++ t) = true → tokWF (holdingFrom h d) t = true := by
  intro d
  induction d with
  | nil => intro t h hw; exact hw
  | cons op d ih =>
    intro t h hw
    cases op <;> simp [tokWF, holdingFrom] at hw ⊢
    · exact ih t true hw.2
    · exact ih t false hw.2
    · exact ih t h hw
    · exact ih t h hw
    · exact ih t h hw

theorem eff_tokens_prefix : ∀ (d t : List LedgerOp) (h : Bool), tokWF h (d ++ t) = true →
    (eff d).tokens = b2i h - b2i (holdingFrom h d) := by
  intro d
  induction d with
  | nil => intro t h _; simp [holdingFrom]
  | cons op d ih =>
    intro t h hw
    cases op <;> simp [tokWF, holdingFrom] at hw ⊢
    · rw [ih t true hw.2]; simp [delta, hw.1]; omega
    · rw [ih t false hw.2]; simp [delta, hw.1]; omega
    · rw [ih t h hw]; rename_i c d'; cases c <;> simp [delta, Ctr.vec]
    · rw [ih t h hw]; simp [delta]
    · rw [ih t h hw]; simp [delta]

/-- a complete token-disciplined command holds no token at its end -/
theorem tokWF_done (p : List LedgerOp) (h : tokWF false p = true) : holdingFrom false p = false := by
  have := tokWF_split p [] false (by simpa using h)
  simpa [tokWF] using this

@[simp] theorem resid_nil : resid [] = nil := by unfold resid; simp; vec

theorem resid_snoc (d : List LedgerOp) (op : LedgerOp) : resid (d ++ [op]) = resid d + delta op - ownSum (pushOf op) := by
  simp only [resid, eff_append, pushes_append, ownSum_append, eff_cons, eff_nil, pushes_cons, pushes_nil, List.append_nil]
  vec

theorem balanced_iff (ops : List LedgerOp) : Balanced ops ↔ tokWF false ops = true ∧ resid ops = nil := by
  unfold Balanced resid
  constructor
  · rintro ⟨h1, h2⟩; exact ⟨h1, by rw [h2]; vec⟩
  · rintro ⟨h1, h2⟩
    refine ⟨h1, ?_⟩
    have e := fun (f : Ledger → Int) => congrArg f h2
    apply Proto.led_ext
    · have := e Ledger.getC; simp at this; omega
    · have := e Ledger.getS; simp at this; omega
    · have := e Ledger.setC; simp at this; omega
    · have := e Ledger.setS; simp at this; omega
    · have := e Ledger.flushC; simp at this; omega
    · have := e Ledger.flushS; simp at this; omega
    · have := e Ledger.allocC; simp at this; omega
    · have := e Ledger.allocS; simp at this; omega
    · have := e Ledger.tokens; simp at this; omega

/-- static well-formedness of a connection: every command (completed, in flight, still to come) takes at most one
    token and puts it back — true of every `microOps o`, also on the leaking paths -/
def Conn.WF (c : Conn) : Prop :=
  (∀ p ∈ c.past, tokWF false p = true) ∧ tokWF false (c.done ++ c.todo) = true ∧ ∀ cmd ∈ c.later, tokWF false cmd = true

/-- every command of the connection gives back everything it took (no leaking path is taken) -/
def Conn.Bal (c : Conn) : Prop :=
  (∀ p ∈ c.past, resid p = nil) ∧ resid (c.done ++ c.todo) = nil ∧ ∀ cmd ∈ c.later, resid cmd = nil

/-- a flusher's program gives back exactly the ownership of its batch and never touches the request limiter -/
def Flusher.WF (f : Flusher) : Prop :=
  ownSum f.batch + eff (f.done ++ f.todo) = nil ∧ (f.done ++ f.todo).filter isTok = []

structure State.WF (s : State) : Prop where
  conns : ∀ c ∈ s.conns, c.WF
  flushers : ∀ f ∈ s.flushers, f.WF

def State.Bal (s : State) : Prop := ∀ c ∈ s.conns, c.Bal

/-- what a connection contributes to the ledger -/
def Conn.share (c : Conn) : Ledger := c.held + c.leaked

/-- invariant (i): the shared ledger is the idle ledger plus, per connection, the partial effect of its command in
    flight and what its completed commands left behind, plus what every flusher holds, plus what the write buffers
    own; the free-token count never goes negative.  No assumption on the commands. -/
def Inv (cfg : Cfg) (s : State) : Prop :=
  s.led = zero cfg + vsum (s.conns.map Conn.share) + vsum (s.flushers.map Flusher.held) + ownSum s.pend
  ∧ 0 ≤ s.led.tokens

theorem forall_mem_set {α} {P : α → Prop} {l : List α} {i : Nat} {y : α} (h : ∀ x ∈ l, P x) (hy : P y) :
    ∀ x ∈ l.set i y, P x := by
  intro x hx
  rcases List.mem_or_eq_of_mem_set hx with h1 | h1
  · exact h x h1
  · exact h1 ▸ hy

theorem share_step (c : Conn) (op : LedgerOp) (rest : List LedgerOp) :
    Conn.share { c with done := c.done ++ [op], todo := rest } = Conn.share c + delta op - ownSum (pushOf op) := by
  simp only [Conn.share, Conn.held, Conn.leaked, resid_snoc]
  vec

theorem share_load (c : Conn) (cmd : List LedgerOp) (cs : List (List LedgerOp)) :
    Conn.share { past := c.past ++ [c.done], done := [], todo := cmd, later := cs } = Conn.share c := by
  simp only [Conn.share, Conn.held, Conn.leaked, List.map_append, vsum_append, List.map_cons, List.map_nil, vsum_cons,
    vsum_nil, resid_nil]
  vec

theorem fheld_idle (f : Flusher) (hw : f.WF) (ht : f.todo = []) : Flusher.held f = nil := by
  have := hw.1
  rw [ht, List.append_nil] at this
  rw [Flusher.held, this]

theorem fheld_step (f : Flusher) (op : LedgerOp) (rest : List LedgerOp) :
    Flusher.held { f with done := f.done ++ [op], todo := rest } = Flusher.held f + delta op := by
  simp only [Flusher.held, eff_append, eff_cons, eff_nil]
  vec

theorem ownSum_splitMask : ∀ (mask : List Bool) (bs : List Buf),
    ownSum bs = ownSum (splitMask mask bs).1 + ownSum (splitMask mask bs).2 := by
  intro mask bs
  induction bs generalizing mask with
  | nil => cases mask <;> simp [splitMask] <;> vec
  | cons b bs ih =>
    cases mask with
    | nil => simp [splitMask]; vec
    | cons m ms =>
      simp only [splitMask]
      cases m <;> simp [ih ms] <;> vec

/-- the per-connection facts one step preserves, abstractly: `P` holds of every completed / current / future command -/
theorem step_conns {P : List LedgerOp → Prop} {s s' : State} {a : Action}
    (hw : ∀ c ∈ s.conns, (∀ p ∈ c.past, P p) ∧ P (c.done ++ c.todo) ∧ ∀ cmd ∈ c.later, P cmd)
    (h : step s a = some s') :
    ∀ c ∈ s'.conns, (∀ p ∈ c.past, P p) ∧ P (c.done ++ c.todo) ∧ ∀ cmd ∈ c.later, P cmd := by
  cases a with
  | conn i =>
    simp only [step] at h
    split at h
    · exact absurd h (by simp)
    · rename_i c hc
      have hcw := hw c (List.mem_of_getElem? hc)
      split at h
      · rename_i op rest htodo
        split at h
        · injection h with h; subst h
          refine forall_mem_set hw ⟨hcw.1, ?_, hcw.2.2⟩
          simpa [htodo] using hcw.2.1
        · exact absurd h (by simp)
      · rename_i htodo
        split at h
        · rename_i cmd cs hl
          injection h with h; subst h
          refine forall_mem_set hw ⟨?_, ?_, ?_⟩
          · intro p hp
            rcases List.mem_append.mp hp with h1 | h1
            · exact hcw.1 p h1
            · have : p = c.done := by simpa using h1
              subst this
              simpa [htodo] using hcw.2.1
          · simpa using hcw.2.2 cmd (by simp [hl])
          · intro x hx; exact hcw.2.2 x (by simp [hl, hx])
        · exact absurd h (by simp)
  | flush j =>
    simp only [step] at h
    split at h
    · exact absurd h (by simp)
    · split at h
      · split at h
        · injection h with h; subst h; exact hw
        · exact absurd h (by simp)
      · exact absurd h (by simp)
  | snap j mask =>
    simp only [step] at h
    split at h
    · exact absurd h (by simp)
    · split at h
      · injection h with h; subst h; exact hw
      · exact absurd h (by simp)

theorem step_flushers {s s' : State} {a : Action} (hw : ∀ f ∈ s.flushers, f.WF) (h : step s a = some s') :
    ∀ f ∈ s'.flushers, f.WF := by
  cases a with
  | conn i =>
    simp only [step] at h
    split at h
    · exact absurd h (by simp)
    · split at h
      · split at h
        · injection h with h; subst h; exact hw
        · exact absurd h (by simp)
      · split at h
        · injection h with h; subst h; exact hw
        · exact absurd h (by simp)
  | flush j =>
    simp only [step] at h
    split at h
    · exact absurd h (by simp)
    · rename_i f hf
      have hfw := hw f (List.mem_of_getElem? hf)
      split at h
      · rename_i op rest htodo
        split at h
        · injection h with h; subst h
          refine forall_mem_set hw ?_
          simpa [Flusher.WF, htodo] using hfw
        · exact absurd h (by simp)
      · exact absurd h (by simp)
  | snap j mask =>
    simp only [step] at h
    split at h
    · exact absurd h (by simp)
    · split at h
      · injection h with h; subst h
        refine forall_mem_set hw ⟨?_, by simpa using ft_flushOps _⟩
        simp only [List.nil_append, eff_flushOps]; vec
      · exact absurd h (by simp)

theorem step_WF {s s' : State} {a : Action} (hw : s.WF) (h : step s a = some s') : s'.WF :=
  ⟨step_conns (P := fun p => tokWF false p = true) hw.conns h, step_flushers hw.flushers h⟩

theorem step_Bal {s s' : State} {a : Action} (hb : s.Bal) (h : step s a = some s') : s'.Bal :=
  step_conns (P := fun p => resid p = nil) hb h

theorem step_inv {cfg : Cfg} {s s' : State} {a : Action} (hw : s.WF) (hi : Inv cfg s) (h : step s a = some s') : Inv cfg s' := by
  obtain ⟨hl, ht⟩ := hi
  cases a with
  | conn i =>
    simp only [step] at h
    split at h
    · exact absurd h (by simp)
    · rename_i c hc
      split at h
      · rename_i op rest htodo
        split at h
        · rename_i hen
          injection h with h; subst h
          constructor
          · simp only [vsum_set Conn.share _ _ _ _ hc, share_step, ownSum_append, applyOp, hl]
            vec
          · simp only [applyOp]
            cases op <;> simp [enabled, delta] at hen ⊢ <;> try omega
            rename_i c' d; cases c' <;> simp [Ctr.vec] <;> omega
        · exact absurd h (by simp)
      · split at h
        · rename_i cmd cs hlater
          injection h with h; subst h
          refine ⟨?_, ht⟩
          simp only [vsum_set Conn.share _ _ _ _ hc, share_load, hl]
          vec
        · exact absurd h (by simp)
  | flush j =>
    simp only [step] at h
    split at h
    · exact absurd h (by simp)
    · rename_i f hf
      split at h
      · rename_i op rest htodo
        split at h
        · rename_i hen
          injection h with h; subst h
          constructor
          · simp only [vsum_set Flusher.held _ _ _ _ hf, fheld_step, applyOp, hl]
            vec
          · simp only [applyOp]
            cases op <;> simp [enabled, delta] at hen ⊢ <;> try omega
            rename_i c' d; cases c' <;> simp [Ctr.vec] <;> omega
        · exact absurd h (by simp)
      · exact absurd h (by simp)
  | snap j mask =>
    simp only [step] at h
    split at h
    · exact absurd h (by simp)
    · rename_i f hf
      have hfw := hw.flushers f (List.mem_of_getElem? hf)
      split at h
      · rename_i htodo
        injection h with h; subst h
        refine ⟨?_, ht⟩
        simp only [vsum_set Flusher.held _ _ _ _ hf, fheld_idle f hfw htodo, hl]
        rw [ownSum_splitMask mask s.pend]
        simp only [Flusher.held, eff_nil]
        vec
      · exact absurd h (by simp)

theorem run_inv {cfg : Cfg} : ∀ (sched : List Action) (s : State), s.WF → Inv cfg s →
    (run s sched).WF ∧ Inv cfg (run s sched) := by
  intro sched
  induction sched with
  | nil => intro s hw hi; exact ⟨hw, hi⟩
  | cons a as ih =>
    intro s hw hi
    simp only [run]
    cases h : step s a with
    | none => exact ih s hw hi
    | some s' => exact ih s' (step_WF hw h) (step_inv hw hi h)

theorem run_Bal : ∀ (sched : List Action) (s : State), s.Bal → (run s sched).Bal := by
  intro sched
  induction sched with
  | nil => intro s hb; exact hb
  | cons a as ih =>
    intro s hb
    simp only [run]
    cases h : step s a with
    | none => exact ih s hb
    | some s' => exact ih s' (step_Bal hb h)

/-- the start state is well formed as soon as every command takes at most one token and puts it back -/
theorem init_WF (cfg : Cfg) (progs : List (List (List LedgerOp))) (nf : Nat)
    (h : ∀ p ∈ progs, ∀ cmd ∈ p, tokWF false cmd = true) : (init cfg progs nf).WF := by
  constructor
  · intro c hc
    simp only [init, List.mem_map] at hc
    obtain ⟨p, hp, rfl⟩ := hc
    exact ⟨by simp, rfl, h p hp⟩
  · intro f hf
    simp only [init] at hf
    rw [List.eq_of_mem_replicate hf]
    exact ⟨by vec, rfl⟩

theorem init_Bal (cfg : Cfg) (progs : List (List (List LedgerOp))) (nf : Nat)
    (h : ∀ p ∈ progs, ∀ cmd ∈ p, resid cmd = nil) : (init cfg progs nf).Bal := by
  intro c hc
  simp only [init, List.mem_map] at hc
  obtain ⟨p, hp, rfl⟩ := hc
  exact ⟨by simp, by simp, h p hp⟩

theorem init_inv (cfg : Cfg) (progs : List (List (List LedgerOp))) (nf : Nat) : Inv cfg (init cfg progs nf) := by
  constructor
  · have h1 : vsum ((init cfg progs nf).conns.map Conn.share) = nil := by
      apply vsum_map_nil
      intro c hc
      simp only [init, List.mem_map] at hc
      obtain ⟨p, _, rfl⟩ := hc
      simp only [Conn.share, Conn.held, Conn.leaked, resid_nil, List.map_nil, vsum_nil]; vec
    have h2 : vsum ((init cfg progs nf).flushers.map Flusher.held) = nil := by
      apply vsum_map_nil
      intro f hf
      simp only [init] at hf
      rw [List.eq_of_mem_replicate hf]
      simp only [Flusher.held, eff_nil, ownSum_nil]; vec
    rw [h1, h2]
    simp only [init, ownSum_nil]; vec
  · simp [init, zero]

/-- (i) for EVERY schedule, any number of connections, commands and flushers, ANY commands that respect the token discipline -/
theorem reachable_inv (cfg : Cfg) (progs : List (List (List LedgerOp))) (nf : Nat)
    (h : ∀ p ∈ progs, ∀ cmd ∈ p, tokWF false cmd = true) (sched : List Action) :
    (run (init cfg progs nf) sched).WF ∧ Inv cfg (run (init cfg progs nf) sched) :=
  run_inv sched _ (init_WF cfg progs nf h) (init_inv cfg progs nf)

/-! tokens -/
@[simp] theorem ownVec_tokens (b : Buf) : (ownVec b).tokens = 0 := rfl
theorem ownSum_tokens (bs : List Buf) : (ownSum bs).tokens = 0 := by
  induction bs with
  | nil => rfl
  | cons b bs ih => simp [ih]

theorem leaked_tokens (past : List (List LedgerOp)) (h : ∀ p ∈ past, tokWF false p = true) :
    (vsum (past.map resid)).tokens = 0 := by
  induction past with
  | nil => rfl
  | cons p ps ih =>
    have hp := h p (by simp)
    have e := eff_tokens_prefix p [] false (by simpa using hp)
    simp only [List.map_cons, vsum_cons, add_tokens, ih (fun x hx => h x (by simp [hx])), resid, sub_tokens,
      ownSum_tokens, e, tokWF_done p hp, b2i_false]
    omega

theorem share_tokens (c : Conn) (hw : c.WF) : (Conn.share c).tokens = -b2i (holding c.done) := by
  simp only [Conn.share, Conn.held, Conn.leaked, add_tokens, leaked_tokens c.past hw.1, resid, sub_tokens, ownSum_tokens,
    eff_tokens_prefix c.done c.todo false hw.2.1, holding, b2i_false]
  omega

theorem eff_tokens_noTok (ops : List LedgerOp) (h : ∀ op ∈ ops, isTok op = false) : (eff ops).tokens = 0 := by
  induction ops with
  | nil => rfl
  | cons op ops ih =>
    have h1 := h op (by simp)
    have h2 := ih (fun x hx => h x (by simp [hx]))
    cases op <;> simp [isTok] at h1 <;> simp [delta, h2]
    rename_i c d; cases c <;> simp [Ctr.vec]

theorem fheld_tokens (f : Flusher) (hw : f.WF) : (Flusher.held f).tokens = 0 := by
  have h := List.filter_eq_nil_iff.mp hw.2
  have h' : ∀ op ∈ f.done, isTok op = false := fun op hop => by simpa using h op (by simp [hop])
  simp [Flusher.held, ownSum_tokens, eff_tokens_noTok _ h']

theorem conns_tokens (l : List Conn) (hw : ∀ c ∈ l, c.WF) :
    (vsum (l.map Conn.share)).tokens = -(l.countP (fun c => holding c.done) : Int) := by
  induction l with
  | nil => rfl
  | cons c cs ih =>
    simp only [List.map_cons, vsum_cons, add_tokens, share_tokens c (hw c (by simp)),
      ih (fun x hx => hw x (by simp [hx])), List.countP_cons]
    cases holding c.done <;> simp <;> omega

theorem flushers_tokens (l : List Flusher) (hw : ∀ f ∈ l, f.WF) : (vsum (l.map Flusher.held)).tokens = 0 := by
  induction l with
  | nil => rfl
  | cons f fs ih =>
    simp [fheld_tokens f (hw f (by simp)), ih (fun x hx => hw x (by simp [hx]))]

/-- free tokens = maxReq − number of commands in flight that hold one -/
theorem tokens_eq {cfg : Cfg} {s : State} (hw : s.WF) (hi : Inv cfg s) :
    s.led.tokens = (cfg.maxReq : Int) - (s.conns.countP (fun c => holding c.done)) := by
  rw [hi.1]
  simp [conns_tokens _ hw.conns, flushers_tokens _ hw.flushers, ownSum_tokens, zero]
  omega

theorem tokens_bounds {cfg : Cfg} {s : State} (hw : s.WF) (hi : Inv cfg s) :
    0 ≤ s.led.tokens ∧ s.led.tokens ≤ cfg.maxReq := by
  have := tokens_eq hw hi
  exact ⟨hi.2, by omega⟩

/-! quiescence -/

theorem share_idle (c : Conn) (hb : c.Bal) (ht : c.todo = []) : Conn.share c = nil := by
  have h1 := hb.2.1
  rw [ht, List.append_nil] at h1
  rw [Conn.share, Conn.held, Conn.leaked, h1, vsum_map_nil _ _ hb.1]
  vec

/-- between commands (every connection idle or closed, no flusher at work) the ledger is exactly the ownership of the
    write buffers: GetData and SetData zero, all tokens free -/
theorem idle_ledger {cfg : Cfg} {s : State} (hw : s.WF) (hb : s.Bal) (hi : Inv cfg s)
    (hc : ∀ c ∈ s.conns, c.todo = []) (hf : ∀ f ∈ s.flushers, f.todo = []) :
    s.led = zero cfg + ownSum s.pend := by
  rw [hi.1, vsum_map_nil _ _ (fun c h => share_idle c (hb c h) (hc c h)),
    vsum_map_nil _ _ (fun f h => fheld_idle f (hw.flushers f h) (hf f h))]
  vec

/-- (ii) the C12 statement on the interleaved system -/
theorem quiescent_zero {cfg : Cfg} {s : State} (hw : s.WF) (hb : s.Bal) (hi : Inv cfg s) (hq : quiescent s = true) :
    s.led = zero cfg := by
  simp only [quiescent, Bool.and_eq_true, List.all_eq_true, List.isEmpty_iff] at hq
  rw [idle_ledger hw hb hi hq.1.1 hq.1.2, hq.2]
  simp only [ownSum_nil]; vec

/-! the exact ledger after everything was served, leaks included -/

/-- the residue of all commands of a connection: completed, in flight, still to come -/
def Conn.total (c : Conn) : Ledger := vsum (c.past.map resid) + resid (c.done ++ c.todo) + vsum (c.later.map resid)

def totalResid (s : State) : Ledger := vsum (s.conns.map Conn.total)

theorem step_total {s s' : State} {a : Action} (h : step s a = some s') : totalResid s' = totalResid s := by
  cases a with
  | conn i =>
    simp only [step] at h
    split at h
    · exact absurd h (by simp)
    · rename_i c hc
      split at h
      · rename_i op rest htodo
        split at h
        · injection h with h; subst h
          simp only [totalResid, vsum_set Conn.total _ _ _ _ hc]
          simp only [Conn.total, htodo, List.append_assoc, List.cons_append, List.nil_append]
          vec
        · exact absurd h (by simp)
      · rename_i htodo
        split at h
        · rename_i cmd cs hl
          injection h with h; subst h
          simp only [totalResid, vsum_set Conn.total _ _ _ _ hc]
          simp only [Conn.total, htodo, hl, List.map_append, vsum_append, List.map_cons, List.map_nil, vsum_cons, vsum_nil,
            List.append_nil, List.nil_append]
          vec
        · exact absurd h (by simp)
  | flush j =>
    simp only [step] at h
    split at h
    · exact absurd h (by simp)
    · split at h
      · split at h
        · injection h with h; subst h; rfl
        · exact absurd h (by simp)
      · exact absurd h (by simp)
  | snap j mask =>
    simp only [step] at h
    split at h
    · exact absurd h (by simp)
    · split at h
      · injection h with h; subst h; rfl
      · exact absurd h (by simp)

theorem run_total : ∀ (sched : List Action) (s : State), totalResid (run s sched) = totalResid s := by
  intro sched
  induction sched with
  | nil => intro s; rfl
  | cons a as ih =>
    intro s
    simp only [run]
    cases h : step s a with
    | none => exact ih s
    | some s' => rw [Option.getD_some, ih s', step_total h]

theorem init_total (cfg : Cfg) (progs : List (List (List LedgerOp))) (nf : Nat) :
    totalResid (init cfg progs nf) = vsum (progs.map (fun p => vsum (p.map resid))) := by
  simp only [totalResid, init, List.map_map]
  induction progs with
  | nil => rfl
  | cons p ps ih =>
    simp only [List.map_cons, vsum_cons, ih, Function.comp, Conn.total, List.map_nil, vsum_nil, List.append_nil, resid_nil]
    vec

/-- once everything was served and flushed the ledger is the idle ledger plus EXACTLY the residues of the commands -/
theorem finished_ledger {cfg : Cfg} {s : State} (hw : s.WF) (hi : Inv cfg s) (hq : finished s = true) :
    s.led = zero cfg + totalResid s := by
  simp only [finished, Bool.and_eq_true, List.all_eq_true, List.isEmpty_iff] at hq
  have h1 : vsum (s.conns.map Conn.share) = totalResid s := by
    unfold totalResid
    congr 1
    apply List.map_congr_left
    intro c hc
    have := hq.1.1 c hc
    simp only [Conn.share, Conn.total, Conn.held, Conn.leaked, this.1, this.2, List.append_nil, List.map_nil, vsum_nil]
    vec
  rw [hi.1, h1, vsum_map_nil _ _ (fun f h => fheld_idle f (hw.flushers f h) (hq.1.2 f h)), hq.2]
  simp only [ownSum_nil]; vec

/-! the limiter does not deadlock -/

theorem holder_can_step {s : State} (hw : s.WF) (j : Nat) (c : Conn) (hc : s.conns[j]? = some c)
    (hh : holding c.done = true) : (step s (.conn j)).isSome = true := by
  have hcw := hw.conns c (List.mem_of_getElem? hc)
  have ht := tokWF_split c.done c.todo false hcw.2.1
  rw [show holdingFrom false c.done = true from hh] at ht
  simp only [step, hc]
  cases htodo : c.todo with
  | nil => simp [htodo, tokWF] at ht
  | cons op rest =>
    cases op <;> simp [htodo, tokWF] at ht <;> simp [enabled]

/-- (iii) a connection waiting for a token is never waiting for itself: some OTHER connection holds a token and its
    next micro-operation is enabled -/
theorem no_deadlock {cfg : Cfg} {s : State} (hw : s.WF) (hi : Inv cfg s) (hm : 1 ≤ cfg.maxReq) (i : Nat)
    (hb : blocked s i = true) :
    ∃ j c, j ≠ i ∧ s.conns[j]? = some c ∧ holding c.done = true ∧ (step s (.conn j)).isSome = true := by
  unfold blocked at hb
  split at hb
  · rename_i ci hci
    simp only [Bool.and_eq_true, beq_iff_eq, Bool.not_eq_true', decide_eq_false_iff_not] at hb
    have htok := tokens_eq hw hi
    have hpos : 0 < s.conns.countP (fun c => holding c.done) := by omega
    obtain ⟨c, hmem, hh⟩ := List.countP_pos_iff.mp hpos
    obtain ⟨j, hj⟩ := List.mem_iff_getElem?.mp hmem
    refine ⟨j, c, ?_, hj, hh, holder_can_step hw j c hj hh⟩
    intro hji
    subst hji
    rw [hci] at hj
    injection hj with hj
    subst hj
    have hcw := hw.conns ci (List.mem_of_getElem? hci)
    have ht := tokWF_split ci.done ci.todo false hcw.2.1
    rw [show holdingFrom false ci.done = true from hh] at ht
    cases htodo : ci.todo with
    | nil => simp [htodo] at hb
    | cons op rest =>
      simp [htodo] at hb
      simp [htodo, hb.1, tokWF] at ht
  · exact absurd hb (by simp)

/-- with at least one token in the system an unfinished connection never stops the system: some connection can step -/
theorem progress {cfg : Cfg} {s : State} (hw : s.WF) (hi : Inv cfg s) (hm : 1 ≤ cfg.maxReq) (i : Nat) (c : Conn)
    (hc : s.conns[i]? = some c) (hnf : c.todo ≠ [] ∨ c.later ≠ []) : ∃ j, (step s (.conn j)).isSome = true := by
  by_cases hstep : (step s (.conn i)).isSome = true
  · exact ⟨i, hstep⟩
  · have hb : blocked s i = true := by
      simp only [step, hc] at hstep
      unfold blocked
      simp only [hc]
      cases htodo : c.todo with
      | nil =>
        cases hl : c.later with
        | nil => simp [htodo, hl] at hnf
        | cons cmd cs => simp [htodo, hl] at hstep
      | cons op rest =>
        cases op <;> simp [htodo, enabled] at hstep ⊢
        exact hstep
    obtain ⟨j, _, _, _, _, hs⟩ := no_deadlock hw hi hm i hb
    exact ⟨j, hs⟩


/-! ### quiescence is reachable from every reachable state -/

/-- micro-operations and command starts a connection still has to perform -/
def connTodo (c : Conn) : Nat := c.todo.length + (c.later.map (fun cmd => cmd.length + 1)).sum

def connsTodo (s : State) : Nat := (s.conns.map connTodo).sum

def flushTodo (s : State) : Nat := (s.flushers.map (fun f => f.todo.length)).sum

theorem sum_set {α} (f : α → Nat) : ∀ (xs : List α) (i : Nat) (x y : α), xs[i]? = some x →
    ((xs.set i y).map f).sum + f x = (xs.map f).sum + f y := by
  intro xs
  induction xs with
  | nil => intro i x y h; simp at h
  | cons a as ih =>
    intro i x y h
    cases i with
    | zero => simp at h; subst h; simp; omega
    | succ n =>
      simp at h
      have := ih n x y h
      simp only [List.set_cons_succ, List.map_cons, List.sum_cons]; omega

theorem sum_zero_all {α} (f : α → Nat) (xs : List α) (h : (xs.map f).sum = 0) : ∀ x ∈ xs, f x = 0 := by
  induction xs with
  | nil => intro x hx; simp at hx
  | cons a as ih =>
    simp only [List.map_cons, List.sum_cons] at h
    intro x hx
    rcases List.mem_cons.mp hx with h1 | h1
    · subst h1; omega
    · exact ih (by omega) x h1

theorem sum_pos_exists {α} (f : α → Nat) (xs : List α) (h : 0 < (xs.map f).sum) : ∃ (i : Nat) (x : α), xs[i]? = some x ∧ 0 < f x := by
  induction xs with
  | nil => simp at h
  | cons a as ih =>
    simp only [List.map_cons, List.sum_cons] at h
    by_cases ha : 0 < f a
    · exact ⟨0, a, by simp, ha⟩
    · obtain ⟨i, x, hx, hp⟩ := ih (by omega)
      exact ⟨i + 1, x, by simpa using hx, hp⟩

theorem conn_step_measure {s s' : State} {j : Nat} (h : step s (.conn j) = some s') :
    connsTodo s' + 1 = connsTodo s ∧ s'.flushers = s.flushers := by
  simp only [step] at h
  split at h
  · exact absurd h (by simp)
  · rename_i c hc
    split at h
    · rename_i op rest htodo
      split at h
      · injection h with h; subst h
        have := sum_set connTodo s.conns j c { c with done := c.done ++ [op], todo := rest } hc
        refine ⟨?_, rfl⟩
        simp only [connsTodo, connTodo, htodo, List.length_cons] at this ⊢
        omega
      · exact absurd h (by simp)
    · rename_i htodo
      split at h
      · rename_i cmd cs hl
        injection h with h; subst h
        have := sum_set connTodo s.conns j c { past := c.past ++ [c.done], done := [], todo := cmd, later := cs } hc
        refine ⟨?_, rfl⟩
        simp only [connsTodo, connTodo, htodo, hl, List.length_nil, List.map_cons, List.sum_cons] at this ⊢
        omega
      · exact absurd h (by simp)

/-- phase 1: every connection can be driven to the end of its last command -/
theorem drain_conns {cfg : Cfg} (hm : 1 ≤ cfg.maxReq) : ∀ (n : Nat) (s : State), s.WF → Inv cfg s → connsTodo s = n →
    ∃ sched, connsTodo (run s sched) = 0 ∧ (run s sched).flushers = s.flushers := by
  intro n
  induction n with
  | zero => intro s _ _ h; exact ⟨[], h, rfl⟩
  | succ n ih =>
    intro s hw hi hn
    obtain ⟨i, c, hc, hpos⟩ := sum_pos_exists connTodo s.conns (by unfold connsTodo at hn; omega)
    have hnf : c.todo ≠ [] ∨ c.later ≠ [] := by
      by_cases h1 : c.todo = []
      · right; intro h2; simp [connTodo, h1, h2] at hpos
      · exact Or.inl h1
    obtain ⟨j, hj⟩ := progress hw hi hm i c hc hnf
    obtain ⟨s1, hs1⟩ := Option.isSome_iff_exists.mp hj
    have hmeas := conn_step_measure hs1
    obtain ⟨sched, h1, h2⟩ := ih s1 (step_WF hw hs1) (step_inv hw hi hs1) (by omega)
    refine ⟨.conn j :: sched, ?_, ?_⟩
    · simpa [run, hs1] using h1
    · simpa [run, hs1, hmeas.2] using h2

theorem flush_step_measure {s s' : State} {j : Nat} (h : step s (.flush j) = some s') :
    flushTodo s' + 1 = flushTodo s ∧ s'.conns = s.conns ∧ s'.pend = s.pend := by
  simp only [step] at h
  split at h
  · exact absurd h (by simp)
  · rename_i f hf
    split at h
    · rename_i op rest htodo
      split at h
      · injection h with h; subst h
        have := sum_set (fun f : Flusher => f.todo.length) s.flushers j f { f with done := f.done ++ [op], todo := rest } hf
        refine ⟨?_, rfl, rfl⟩
        simp only [flushTodo, htodo, List.length_cons] at this ⊢
        omega
      · exact absurd h (by simp)
    · exact absurd h (by simp)

/-- phase 2: the flushers finish the batches they hold (their operations never block) -/
theorem drain_flushers : ∀ (n : Nat) (s : State), s.WF → flushTodo s = n →
    ∃ sched, flushTodo (run s sched) = 0 ∧ (run s sched).conns = s.conns ∧ (run s sched).pend = s.pend
      ∧ (run s sched).flushers.length = s.flushers.length := by
  intro n
  induction n with
  | zero => intro s _ h; exact ⟨[], h, rfl, rfl, rfl⟩
  | succ n ih =>
    intro s hw hn
    obtain ⟨j, f, hf, hpos⟩ := sum_pos_exists (fun f : Flusher => f.todo.length) s.flushers (by unfold flushTodo at hn; omega)
    have hfw := hw.flushers f (List.mem_of_getElem? hf)
    have hstep : (step s (.flush j)).isSome = true := by
      simp only [step, hf]
      cases htodo : f.todo with
      | nil => simp [htodo] at hpos
      | cons op rest =>
        have hno := List.filter_eq_nil_iff.mp hfw.2 op (by simp [htodo])
        cases op <;> simp [isTok] at hno <;> simp [enabled]
    obtain ⟨s1, hs1⟩ := Option.isSome_iff_exists.mp hstep
    have hmeas := flush_step_measure hs1
    have hlen : s1.flushers.length = s.flushers.length := by
      simp only [step, hf] at hs1
      split at hs1
      · split at hs1
        · injection hs1 with hs1; subst hs1; simp
        · exact absurd hs1 (by simp)
      · exact absurd hs1 (by simp)
    obtain ⟨sched, h1, h2, h3, h4⟩ := ih s1 (step_WF hw hs1) (by omega)
    refine ⟨.flush j :: sched, ?_, ?_, ?_, ?_⟩
    · simpa [run, hs1] using h1
    · simpa [run, hs1, hmeas.2.1] using h2
    · simpa [run, hs1, hmeas.2.2] using h3
    · simpa [run, hs1, hlen] using h4

theorem splitMask_all (bs : List Buf) : splitMask (List.replicate bs.length true) bs = (bs, []) := by
  induction bs with
  | nil => rfl
  | cons b bs ih => simp [splitMask, List.replicate_succ, ih]

theorem run_append (s : State) (a b : List Action) : run s (a ++ b) = run (run s a) b := by
  induction a generalizing s with
  | nil => rfl
  | cons x xs ih => simp only [List.cons_append, run, ih]

theorem finished_of (s : State) (h1 : connsTodo s = 0) (h2 : flushTodo s = 0) (h3 : s.pend = []) : finished s = true := by
  simp only [finished, Bool.and_eq_true, List.all_eq_true, List.isEmpty_iff]
  refine ⟨⟨?_, ?_⟩, h3⟩
  · intro c hc
    have := sum_zero_all connTodo s.conns h1 c hc
    simp only [connTodo] at this
    have h4 : c.todo.length = 0 := by omega
    have h5 : (c.later.map (fun cmd => cmd.length + 1)).sum = 0 := by omega
    refine ⟨List.length_eq_zero_iff.mp h4, ?_⟩
    cases hl : c.later with
    | nil => rfl
    | cons x xs => simp [hl] at h5
  · intro f hf
    have := sum_zero_all (fun f : Flusher => f.todo.length) s.flushers h2 f hf
    exact List.length_eq_zero_iff.mp this

/-- From every well-formed state satisfying the invariant (hence from every reachable state), with at least one token
    and at least one flusher, some schedule serves every command and flushes everything: the hypothesis of
    `finished_ledger` / `quiescent_zero` is always attainable — no reachable state is stuck. -/
theorem drain {cfg : Cfg} {s : State} (hw : s.WF) (hi : Inv cfg s) (hm : 1 ≤ cfg.maxReq) (hfl : s.flushers ≠ []) :
    ∃ sched, finished (run s sched) = true := by
  obtain ⟨a, ha1, ha2⟩ := drain_conns hm _ s hw hi rfl
  have hwa := (run_inv (cfg := cfg) a s hw hi).1
  obtain ⟨b, hb1, hb2, hb3, hb4⟩ := drain_flushers _ (run s a) hwa rfl
  have hwb := (run_inv (cfg := cfg) b (run s a) hwa (run_inv a s hw hi).2).1
  -- the first flusher takes everything that is pending
  let s2 := run (run s a) b
  have hlen : 0 < s2.flushers.length := by
    show 0 < (run (run s a) b).flushers.length
    rw [hb4, ha2]; exact List.length_pos_iff.mpr hfl
  obtain ⟨f, hf⟩ : ∃ f, s2.flushers[0]? = some f := ⟨s2.flushers[0], by simp [hlen]⟩
  have hfidle : f.todo = [] := by
    have := sum_zero_all (fun f : Flusher => f.todo.length) s2.flushers hb1 f (List.mem_of_getElem? hf)
    exact List.length_eq_zero_iff.mp this
  have hsnap : step s2 (.snap 0 (List.replicate s2.pend.length true))
      = some { s2 with pend := [], flushers := s2.flushers.set 0 { batch := s2.pend, done := [], todo := flushOps s2.pend } } := by
    simp [step, hf, hfidle, splitMask_all]
  let s3 : State := { s2 with pend := [], flushers := s2.flushers.set 0 { batch := s2.pend, done := [], todo := flushOps s2.pend } }
  have hw3 : s3.WF := step_WF hwb hsnap
  obtain ⟨c, hc1, hc2, hc3, _⟩ := drain_flushers _ s3 hw3 rfl
  refine ⟨a ++ b ++ (.snap 0 (List.replicate s2.pend.length true) :: c), ?_⟩
  rw [run_append, run_append]
  show finished (run (run (run s a) b) (_ :: c)) = true
  simp only [run]
  rw [show step (run (run s a) b) (.snap 0 (List.replicate s2.pend.length true)) = some s3 from hsnap, Option.getD_some]
  apply finished_of
  · show connsTodo (run s3 c) = 0
    unfold connsTodo; rw [hc2]; show connsTodo s2 = 0
    unfold connsTodo; show ((run (run s a) b).conns.map connTodo).sum = 0
    rw [hb2]; exact ha1
  · exact hc1
  · rw [hc3]

/-! ### E. the statements on connections given by their commands' outcomes -/

/-- `CleanBuffer` walks a Go map: the release order is SOME permutation of the buffers the gets returned -/
def RelOK (o : Outcome) : Prop := ∀ keys rel, o = .get keys rel → rel.Perm (keys.flatMap keyHeld)

/-- the system of `conns.length` connections serving these outcomes, with `nf` flusher threads -/
def system (cfg : Cfg) (conns : List (List Outcome)) (nf : Nat) : State := init cfg (conns.map program) nf

theorem program_tokWF (conns : List (List Outcome)) :
    ∀ p ∈ conns.map program, ∀ cmd ∈ p, tokWF false cmd = true := by
  intro p hp cmd hc
  simp only [List.mem_map] at hp
  obtain ⟨os, _, rfl⟩ := hp
  simp only [program, List.mem_map] at hc
  obtain ⟨o, _, rfl⟩ := hc
  exact microOps_tokWF o

theorem resid_microOps (o : Outcome) (h : RelOK o) : resid (microOps o) = leak o := by
  rw [resid, eff_microOps o h]; vec

theorem program_resid (conns : List (List Outcome)) (hc : ∀ os ∈ conns, ∀ o ∈ os, o.clean = true ∧ RelOK o) :
    ∀ p ∈ conns.map program, ∀ cmd ∈ p, resid cmd = nil := by
  intro p hp cmd hcm
  simp only [List.mem_map] at hp
  obtain ⟨os, hos, rfl⟩ := hp
  simp only [program, List.mem_map] at hcm
  obtain ⟨o, ho, rfl⟩ := hcm
  rw [resid_microOps o (hc os hos o ho).2, leak_clean o (hc os hos o ho).1]

/-- (i) EVERY schedule, any number of connections / commands / flushers, ANY outcomes (leaking ones included):
    the ledger is the sum of what every thread holds, what completed commands left behind and what the write buffers
    own; free tokens = maxReq − commands holding one, between 0 and maxReq -/
theorem C12_conc_invariant (cfg : Cfg) (conns : List (List Outcome)) (nf : Nat) (sched : List Action) :
    let s := run (system cfg conns nf) sched
    s.led = zero cfg + vsum (s.conns.map Conn.share) + vsum (s.flushers.map Flusher.held) + ownSum s.pend
    ∧ s.led.tokens = (cfg.maxReq : Int) - (s.conns.countP (fun c => holding c.done))
    ∧ 0 ≤ s.led.tokens ∧ s.led.tokens ≤ cfg.maxReq := by
  intro s
  obtain ⟨hw, hi⟩ := reachable_inv cfg (conns.map program) nf (program_tokWF conns) sched
  exact ⟨hi.1, tokens_eq hw hi, (tokens_bounds hw hi).1, (tokens_bounds hw hi).2⟩

/-- (ii) the C12 statement: no leaking path taken, every connection between commands (or closed — also closed in the
    middle of a body, `StoreEnd.cut`), flushers idle, write buffers empty ⇒ all eight counters zero, all tokens free -/
theorem C12_conc_quiescence (cfg : Cfg) (conns : List (List Outcome)) (nf : Nat) (sched : List Action)
    (hc : ∀ os ∈ conns, ∀ o ∈ os, o.clean = true ∧ RelOK o)
    (hq : quiescent (run (system cfg conns nf) sched) = true) :
    (run (system cfg conns nf) sched).led = zero cfg := by
  obtain ⟨hw, hi⟩ := reachable_inv cfg (conns.map program) nf (program_tokWF conns) sched
  exact quiescent_zero hw (run_Bal sched _ (init_Bal cfg _ nf (program_resid conns hc))) hi hq

/-- (ii') between commands with data still buffered: Get and Set counters zero, all tokens free, Flush/Alloc = what
    the write buffers own -/
theorem C12_conc_idle (cfg : Cfg) (conns : List (List Outcome)) (nf : Nat) (sched : List Action)
    (hc : ∀ os ∈ conns, ∀ o ∈ os, o.clean = true ∧ RelOK o)
    (h1 : ∀ c ∈ (run (system cfg conns nf) sched).conns, c.todo = [])
    (h2 : ∀ f ∈ (run (system cfg conns nf) sched).flushers, f.todo = []) :
    (run (system cfg conns nf) sched).led = zero cfg + ownSum (run (system cfg conns nf) sched).pend := by
  obtain ⟨hw, hi⟩ := reachable_inv cfg (conns.map program) nf (program_tokWF conns) sched
  exact idle_ledger hw (run_Bal sched _ (init_Bal cfg _ nf (program_resid conns hc))) hi h1 h2

/-- (ii'') the exact version, leaks included: after everything was served and flushed the ledger is the idle ledger
    plus the sum of `leak o` over ALL served commands — zero exactly when no leaking path was taken -/
theorem C12_conc_finished_exact (cfg : Cfg) (conns : List (List Outcome)) (nf : Nat) (sched : List Action)
    (hr : ∀ os ∈ conns, ∀ o ∈ os, RelOK o)
    (hq : finished (run (system cfg conns nf) sched) = true) :
    (run (system cfg conns nf) sched).led = zero cfg + vsum (conns.map (fun os => vsum (os.map leak))) := by
  obtain ⟨hw, hi⟩ := reachable_inv cfg (conns.map program) nf (program_tokWF conns) sched
  unfold system at hq ⊢
  rw [finished_ledger hw hi hq, run_total, init_total]
  congr 1
  rw [List.map_map]
  congr 1
  apply List.map_congr_left
  intro os hos
  simp only [Function.comp, program, List.map_map]
  congr 1
  apply List.map_congr_left
  intro o ho
  exact resid_microOps o (hr os hos o ho)

/-- (iii) no deadlock of the limiter -/
theorem C12_conc_no_deadlock (cfg : Cfg) (hm : 1 ≤ cfg.maxReq) (conns : List (List Outcome)) (nf : Nat) (sched : List Action)
    (i : Nat) (hb : blocked (run (system cfg conns nf) sched) i = true) :
    ∃ j c, j ≠ i ∧ (run (system cfg conns nf) sched).conns[j]? = some c ∧ holding c.done = true
      ∧ (step (run (system cfg conns nf) sched) (.conn j)).isSome = true := by
  obtain ⟨hw, hi⟩ := reachable_inv cfg (conns.map program) nf (program_tokWF conns) sched
  exact no_deadlock hw hi hm i hb

theorem step_flushers_length {s s' : State} {a : Action} (h : step s a = some s') :
    s'.flushers.length = s.flushers.length := by
  cases a with
  | conn i =>
    simp only [step] at h
    split at h
    · exact absurd h (by simp)
    · split at h
      · split at h
        · injection h with h; subst h; rfl
        · exact absurd h (by simp)
      · split at h
        · injection h with h; subst h; rfl
        · exact absurd h (by simp)
  | flush j =>
    simp only [step] at h
    split at h
    · exact absurd h (by simp)
    · split at h
      · split at h
        · injection h with h; subst h; simp
        · exact absurd h (by simp)
      · exact absurd h (by simp)
  | snap j mask =>
    simp only [step] at h
    split at h
    · exact absurd h (by simp)
    · split at h
      · injection h with h; subst h; simp
      · exact absurd h (by simp)

theorem run_flushers_length : ∀ (sc : List Action) (s : State), (run s sc).flushers.length = s.flushers.length := by
  intro sc
  induction sc with
  | nil => intro s; rfl
  | cons a as ih =>
    intro s
    simp only [run]
    cases h : step s a with
    | none => exact ih s
    | some s' => rw [Option.getD_some, ih s', step_flushers_length h]

/-- (iii') from every reachable state some continuation of the schedule serves every command and flushes everything -/
theorem C12_conc_drain (cfg : Cfg) (hm : 1 ≤ cfg.maxReq) (conns : List (List Outcome)) (nf : Nat) (hnf : 1 ≤ nf)
    (sched : List Action) : ∃ more, finished (run (system cfg conns nf) (sched ++ more)) = true := by
  obtain ⟨hw, hi⟩ := reachable_inv cfg (conns.map program) nf (program_tokWF conns) sched
  have hfl : (run (system cfg conns nf) sched).flushers ≠ [] := by
    apply List.ne_nil_of_length_pos
    rw [run_flushers_length]; simp [system, init]; omega
  obtain ⟨more, hmore⟩ := drain hw hi hm hfl
  exact ⟨more, by rw [run_append]; exact hmore⟩

/-! ### non-vacuity and sanity evaluations -/

def exCfg : Cfg := { bodyInC := 64, maxReq := 1 }
def big : Buf := { cap := 70, inC := true }
def small : Buf := { cap := 10, inC := false }

/-- three connections: a stored C value then a hit on it; an incr then a set cut off inside its body; a multi-get
    (tombstone read, hit with decompression, collision) then a delete -/
def exConns : List (List Outcome) :=
  [ [.store big (.written { tries := [{ cap := 470, inC := true }] } {}), .get [.hit { raw := big }] [big]],
    [.incr (.written .miss {}), .store small .cut],
    [.get [.transient { raw := small }, .hit { raw := small, dec := some big }, .collision { raw := small } { raw := big }]
          [big, big], .plain] ]

theorem exConns_ok : ∀ os ∈ exConns, ∀ o ∈ os, o.clean = true ∧ RelOK o := by
  intro os hos o ho
  simp only [exConns, List.mem_cons, List.not_mem_nil, or_false] at hos
  rcases hos with rfl | rfl | rfl <;> simp only [List.mem_cons, List.not_mem_nil, or_false] at ho <;>
    rcases ho with rfl | rfl <;> refine ⟨by decide, ?_⟩ <;> intro keys rel h <;> cases h <;>
    simp [keyHeld, RdBuf.fin]

/-- round robin over the three connections and the flusher, then the flusher takes everything, then works it off -/
def exSched : List Action :=
  (List.replicate 90 [Action.conn 0, .conn 1, .conn 2, .flush 0]).flatten
    ++ [.snap 0 [true, true]] ++ List.replicate 12 (.flush 0)

-- with ONE token: the invariant holds after every prefix of the schedule
example : invAlong exCfg (system exCfg exConns 1) exSched = true := by decide +kernel
-- the ledger is not trivially zero on the way: after 24 choices connection 0 holds the token and a counted C body,
-- connection 1 has counted its incr and is blocked on the token, connection 2 is blocked too
example : (run (system exCfg exConns 1) (exSched.take 24)).led
    = { getC := 0, getS := 0, setC := 2, setS := 70, flushC := 0, flushS := 0, allocC := 1, allocS := 70, tokens := 0 } := by
  decide +kernel
example : (blocked (run (system exCfg exConns 1) (exSched.take 24)) 1, blocked (run (system exCfg exConns 1) (exSched.take 24)) 2,
           (step (run (system exCfg exConns 1) (exSched.take 24)) (.conn 0)).isSome) = (true, true, true) := by
  decide +kernel
-- at the end everything was served and flushed: hypotheses of C12_conc_quiescence are satisfiable, conclusion as computed
example : finished (run (system exCfg exConns 1) exSched) = true := by decide +kernel
example : quiescent (run (system exCfg exConns 1) exSched) = true := by decide +kernel
example : (run (system exCfg exConns 1) exSched).led = zero exCfg :=
  C12_conc_quiescence exCfg exConns 1 exSched exConns_ok (by decide +kernel)
-- before the flusher ran: two buffers (the 70-byte body in C memory, the incr value on the Go heap) are owned by the write buffer
example : (run (system exCfg exConns 1) (exSched.take 360)).led
    = { getC := 0, getS := 0, setC := 0, setS := 0, flushC := 2, flushS := 70, allocC := 1, allocS := 70, tokens := 1 } := by
  decide +kernel

/-! the leaking paths, end to end -/

/-- one connection whose set is answered RECV_TIMEOUT (server.go:125-131), one whose get hits a short read
    (datafile.go:140-154), one whose get decompresses a damaged value (datachunk.go:160-161), an overdue incr, and a
    two-key get whose second key panics in SizeDecompressed after the first was fetched -/
def leakConns : List (List Outcome) :=
  [ [.store big .recvTimeoutLeak], [.get [.readErrLeak big] []], [.get [.decompFailLeak small 95] [small]], [.incr .recvTimeoutLeak],
    [.getPanic [.hit { raw := small }] { cap := 0, inC := false }] ]
def leakSched : List Action := (List.replicate 40 [Action.conn 0, .conn 1, .conn 2, .conn 3, .conn 4]).flatten

example : finished (run (system exCfg leakConns 1) leakSched) = true := by decide +kernel
/-- all tokens are back, but SetData (count 2, size 70), GetData (count 2, size 105) and AllocRL (2 buffers, 140 bytes) are not -/
example : (run (system exCfg leakConns 1) leakSched).led
    = { getC := 2, getS := 105, setC := 2, setS := 70, flushC := 0, flushS := 0, allocC := 2, allocS := 140, tokens := 1 } := by
  decide +kernel
theorem leakConns_rel : ∀ os ∈ leakConns, ∀ o ∈ os, RelOK o := by
  intro os hos o ho
  simp only [leakConns, List.mem_cons, List.not_mem_nil, or_false] at hos
  rcases hos with rfl | rfl | rfl | rfl | rfl <;> simp only [List.mem_cons, List.not_mem_nil, or_false] at ho <;>
    subst ho <;> intro keys rel h <;> cases h <;> simp [keyHeld]
example : (run (system exCfg leakConns 1) leakSched).led = zero exCfg + vsum (leakConns.map (fun os => vsum (os.map leak))) :=
  C12_conc_finished_exact exCfg leakConns 1 leakSched leakConns_rel (by decide +kernel)
example : vsum (leakConns.map (fun os => vsum (os.map leak)))
    = { getC := 2, getS := 105, setC := 2, setS := 70, flushC := 0, flushS := 0, allocC := 2, allocS := 140, tokens := 0 } := by
  decide +kernel

/-! the tie to Model/Proto.lean on the stream of Props/C12.lean -/
def exStream : Bytes :=
  Proto.ascii "set k 0 0 70\r\n" ++ List.replicate 70 120 ++ Proto.ascii "\r\nget k k\r\nset k 0 0\r\nincr n 5\r\nset j 0 0 10\r\nabc"
def protoCfg : Cfg := { bodyInC := 64 }
example : outcomes protoCfg 10 { led := zero protoCfg } exStream
    = [.store big (.written {} {}), .get [.hit { raw := big }] [big], .plain, .incr (.written .miss {}), .store small .cut] := by
  decide +kernel
end LedgerConc
