/-
  GC, record by record, on the VIRTUAL LOG of a pass (abstract layer of the refinement proof of `Store.gcRun`).

  A pass in progress is described by a list `L1 ++ x :: L2`: `L1` — everything already decided, in final order with
  final positions; `x` — the record being looked at; `L2` — everything not yet read, original positions.  The four
  things `gcRecord` can do to `x` (relocate the record the tree points at and repoint the tree; relocate a delete
  marker of a key the tree does not know; drop a record the tree does not point at; drop a record of an unknown key)
  each preserve the invariant `VInv`: the tree slot of every key describes the LAST record of that key in the
  virtual log, positions are unique.  `P` is whatever else is known about (key, tree item, last record) and does not
  mention the position (agreement with the reference map, version equality): it is carried along unchanged.
  Lemmas/GCRun.lean shows that the concrete pass performs exactly these steps on the log of the real files.
-/
import GoBeans.Lemmas.GCLog
set_option linter.unusedSimpArgs false
set_option linter.unusedVariables false
namespace StoreLemmas
open Store Spec

section GCStep
variable (hash : Key → Nat) (K : Key → Prop)

/-- the pass invariant on a virtual log and a tree -/
structure VInv (P : Key → TItem → Rec → Prop) (N : Key → Prop) (V : List (Pos × Rec)) (tree : List (Nat × TItem)) : Prop where
  recs : ∀ x ∈ V, K x.2.key ∧ x.2.ver ≠ 0
  nodup : (V.map (·.1)).Nodup
  dom : ∀ k, K k → AMap.get tree (hash k) = none → N k
  key : ∀ k, K k →
    (∃ it r, AMap.get tree (hash k) = some it ∧ lastOf k V = some (it.pos, r) ∧ P k it r) ∨
    (AMap.get tree (hash k) = none ∧ (lastOf k V = none ∨ ∃ p r, lastOf k V = some (p, r) ∧ ¬ r.ver > 0))

theorem lastOf_mid (k : Key) (L1 L2 : List (Pos × Rec)) (x : Pos × Rec) :
    lastOf k (L1 ++ x :: L2) = (lastOf k L2).or ((if x.2.key = k then some x else none).or (lastOf k L1)) := by
  rw [lastOf_append, lastOf_cons]
  cases lastOf k L2 <;> simp

theorem lastOf_mid_ne (k : Key) (L1 L2 : List (Pos × Rec)) (x : Pos × Rec) (h : x.2.key ≠ k) :
    lastOf k (L1 ++ x :: L2) = lastOf k (L1 ++ L2) := by
  rw [lastOf_mid, lastOf_append]
  simp [h]

theorem nodup_mid_drop {L1 L2 : List (Pos × Rec)} {x : Pos × Rec}
    (h : ((L1 ++ x :: L2).map (·.1)).Nodup) : ((L1 ++ L2).map (·.1)).Nodup := by
  refine List.Nodup.sublist ?_ h
  apply List.Sublist.map
  exact List.Sublist.append (List.Sublist.refl _) (List.sublist_cons_self _ _)

theorem nodup_mid_replace {L1 L2 : List (Pos × Rec)} {x : Pos × Rec} (p' : Pos) (r' : Rec)
    (h : ((L1 ++ x :: L2).map (·.1)).Nodup) (hf : ∀ y ∈ L1 ++ L2, y.1 ≠ p') :
    ((L1 ++ (p', r') :: L2).map (·.1)).Nodup := by
  simp only [List.map_append, List.map_cons] at h ⊢
  rw [List.nodup_append] at h ⊢
  obtain ⟨h1, h2, h3⟩ := h
  rw [List.nodup_cons] at h2 ⊢
  refine ⟨h1, ⟨?_, h2.2⟩, ?_⟩
  · intro hm
    rw [List.mem_map] at hm
    obtain ⟨y, hy, e⟩ := hm
    exact hf y (by simp [hy]) e
  · intro a ha b hb
    rw [List.mem_cons] at hb
    rcases hb with rfl | hb
    · intro e
      rw [List.mem_map] at ha
      obtain ⟨y, hy, e'⟩ := ha
      exact hf y (by simp [hy]) (e'.trans e)
    · exact h3 a ha b (by simp [hb])

/-- with unique positions, an element of the list is determined by its position -/
theorem eq_of_pos {V : List (Pos × Rec)} (h : (V.map (·.1)).Nodup) {a b : Pos × Rec} (ha : a ∈ V) (hb : b ∈ V)
    (e : a.1 = b.1) : a = b := by
  induction V with
  | nil => cases ha
  | cons v V ih =>
    simp only [List.map_cons, List.nodup_cons] at h
    rw [List.mem_cons] at ha hb
    rcases ha with rfl | ha <;> rcases hb with rfl | hb
    · rfl
    · exact absurd (List.mem_map.mpr ⟨b, hb, e.symm⟩) h.1
    · exact absurd (List.mem_map.mpr ⟨a, ha, e⟩) h.1
    · exact ih h.2 ha hb

/-- the record at the middle position does not occur again behind it -/
theorem mid_not_later {L1 L2 : List (Pos × Rec)} {x : Pos × Rec}
    (h : ((L1 ++ x :: L2).map (·.1)).Nodup) : ∀ y ∈ L2, y.1 ≠ x.1 := by
  intro y hy e
  simp only [List.map_append, List.map_cons] at h
  rw [List.nodup_append] at h
  have := h.2.1
  rw [List.nodup_cons] at this
  exact this.1 (List.mem_map.mpr ⟨y, hy, e⟩)

/-- if the last record of `x`'s key in the log sits at `x`'s position, nothing of that key follows `x` -/
theorem last_at_mid {L1 L2 : List (Pos × Rec)} {x : Pos × Rec} {r0 : Rec}
    (hn : ((L1 ++ x :: L2).map (·.1)).Nodup)
    (hl : lastOf x.2.key (L1 ++ x :: L2) = some (x.1, r0)) : lastOf x.2.key L2 = none ∧ r0 = x.2 := by
  have hmem := (lastOf_mem hl).1
  have hx : x ∈ L1 ++ x :: L2 := by simp
  have e := eq_of_pos hn hmem hx rfl
  refine ⟨?_, by rw [← e]⟩
  cases h2 : lastOf x.2.key L2 with
  | none => rfl
  | some y =>
    rw [lastOf_mid, h2] at hl
    simp only [Option.some_or, Option.some.injEq] at hl
    have hy := (lastOf_mem h2).1
    exact absurd (by rw [hl]) (mid_not_later hn y hy)

variable {hash K}

/-- (A) the record the tree points at is relocated and the tree repointed -/
theorem vinv_relocate {P : Key → TItem → Rec → Prop} {N : Key → Prop} (hP : ∀ k it r p', P k it r → P k { it with pos := p' } r)
    (hInj : InjOn hash K) {L1 L2 : List (Pos × Rec)} {p : Pos} {r : Rec} {tree : List (Nat × TItem)} {it : TItem}
    (h : VInv hash K P N (L1 ++ (p, r) :: L2) tree)
    (hit : AMap.get tree (hash r.key) = some it) (hpos : it.pos = p) (p' : Pos)
    (hf : ∀ y ∈ L1 ++ L2, y.1 ≠ p') :
    VInv hash K P N (L1 ++ (p', r) :: L2) (AMap.set tree (hash r.key) { it with pos := p' }) := by
  have hkr : K r.key := (h.recs (p, r) (by simp)).1
  refine ⟨?_, nodup_mid_replace p' r h.nodup hf, ?_, ?_⟩
  · intro y hy
    simp only [List.mem_append, List.mem_cons] at hy
    rcases hy with hy | rfl | hy
    · exact h.recs y (by simp [hy])
    · exact h.recs (p, r) (by simp)
    · exact h.recs y (by simp [hy])
  · intro k hk hn
    by_cases e : hash r.key = hash k
    · rw [← e, AMap.get_set_self] at hn; cases hn
    · rw [AMap.get_set_ne _ _ _ _ e] at hn; exact h.dom k hk hn
  · intro k hk
    by_cases hkk : r.key = k
    · subst hkk
      left
      rcases h.key r.key hk with ⟨it0, r0, h1, h2, h3⟩ | ⟨h1, _⟩
      · rw [hit] at h1; cases h1
        rw [hpos] at h2
        obtain ⟨hl2, hr0⟩ := last_at_mid (x := (p, r)) h.nodup h2
        simp only at hr0 hl2
        rw [hr0] at h3
        refine ⟨{ it with pos := p' }, r, AMap.get_set_self _ _ _, ?_, hP _ _ _ _ h3⟩
        rw [lastOf_mid, hl2]
        simp
      · rw [hit] at h1; cases h1
    · have hne : hash r.key ≠ hash k := fun e => hkk (hInj _ _ hkr hk e)
      rw [AMap.get_set_ne _ _ _ _ hne]
      have e1 : lastOf k (L1 ++ (p', r) :: L2) = lastOf k (L1 ++ (p, r) :: L2) := by
        rw [lastOf_mid_ne k L1 L2 (p', r) hkk, lastOf_mid_ne k L1 L2 (p, r) hkk]
      rw [e1]
      exact h.key k hk

/-- (B) a delete marker of a key the tree does not know is relocated; the tree is untouched -/
theorem vinv_relocate_unknown {P : Key → TItem → Rec → Prop} {N : Key → Prop} {L1 L2 : List (Pos × Rec)} {p : Pos} {r : Rec}
    {tree : List (Nat × TItem)} (hInj : InjOn hash K)
    (h : VInv hash K P N (L1 ++ (p, r) :: L2) tree)
    (hit : AMap.get tree (hash r.key) = none) (hv : r.ver < 0) (p' : Pos) (hf : ∀ y ∈ L1 ++ L2, y.1 ≠ p') :
    VInv hash K P N (L1 ++ (p', r) :: L2) tree := by
  refine ⟨?_, nodup_mid_replace p' r h.nodup hf, h.dom, ?_⟩
  · intro y hy
    simp only [List.mem_append, List.mem_cons] at hy
    rcases hy with hy | rfl | hy
    · exact h.recs y (by simp [hy])
    · exact h.recs (p, r) (by simp)
    · exact h.recs y (by simp [hy])
  · intro k hk
    by_cases hkk : r.key = k
    · subst hkk
      right
      refine ⟨hit, ?_⟩
      rcases h.key r.key hk with ⟨it0, r0, h1, _⟩ | ⟨_, h2⟩
      · rw [hit] at h1; cases h1
      · right
        rw [lastOf_mid] at h2 ⊢
        cases hl2 : lastOf r.key L2 with
        | some y =>
          rw [hl2] at h2
          simp only [Option.some_or] at h2 ⊢
          rcases h2 with h2 | h2
          · cases h2
          · exact h2
        | none =>
          simp only [Option.none_or, if_true, Option.some_or]
          exact ⟨p', r, rfl, by omega⟩
    · have e1 : lastOf k (L1 ++ (p', r) :: L2) = lastOf k (L1 ++ (p, r) :: L2) := by
        rw [lastOf_mid_ne k L1 L2 (p', r) hkk, lastOf_mid_ne k L1 L2 (p, r) hkk]
      rw [e1]
      exact h.key k hk

/-- dropping the middle record when it is not the last record of its key changes nobody's last record -/
theorem vinv_drop_of_later {P : Key → TItem → Rec → Prop} {N : Key → Prop} {L1 L2 : List (Pos × Rec)} {x : Pos × Rec}
    {tree : List (Nat × TItem)}
    (h : VInv hash K P N (L1 ++ x :: L2) tree)
    (hlater : ∀ y, lastOf x.2.key (L1 ++ x :: L2) = some y → lastOf x.2.key L2 = some y) :
    VInv hash K P N (L1 ++ L2) tree := by
  refine ⟨fun y hy => h.recs y ?_, nodup_mid_drop h.nodup, h.dom, ?_⟩
  · simp only [List.mem_append, List.mem_cons] at hy ⊢
    rcases hy with hy | hy
    · exact Or.inl hy
    · exact Or.inr (Or.inr hy)
  · intro k hk
    by_cases hkk : x.2.key = k
    · subst hkk
      have hsome : ∃ y, lastOf x.2.key (L1 ++ x :: L2) = some y := by
        cases hl : lastOf x.2.key (L1 ++ x :: L2) with
        | some y => exact ⟨y, rfl⟩
        | none =>
          rw [lastOf_none_iff] at hl
          exact absurd rfl (hl x (by simp))
      obtain ⟨y, hy⟩ := hsome
      have h2 := hlater y hy
      have e : lastOf x.2.key (L1 ++ L2) = lastOf x.2.key (L1 ++ x :: L2) := by
        rw [hy, lastOf_append, h2]; rfl
      rw [e]
      exact h.key _ hk
    · rw [← lastOf_mid_ne k L1 L2 x hkk]
      exact h.key k hk

/-- (C) a record of a known key that the tree does not point at is dropped -/
theorem vinv_drop_known {P : Key → TItem → Rec → Prop} {N : Key → Prop} {L1 L2 : List (Pos × Rec)} {p : Pos} {r : Rec}
    {tree : List (Nat × TItem)} {it : TItem}
    (h : VInv hash K P N (L1 ++ (p, r) :: L2) tree)
    (hit : AMap.get tree (hash r.key) = some it) (hpos : it.pos ≠ p) :
    VInv hash K P N (L1 ++ L2) tree := by
  apply vinv_drop_of_later h
  intro y hy
  have hkr : K r.key := (h.recs (p, r) (by simp)).1
  rcases h.key r.key hkr with ⟨it0, r0, h1, h2, _⟩ | ⟨h1, _⟩
  · rw [hit] at h1; cases h1
    simp only at hy
    rw [h2] at hy; cases hy
    rw [lastOf_mid] at h2
    cases hl2 : lastOf r.key L2 with
    | some z => rw [hl2] at h2; simpa using h2
    | none =>
      rw [hl2] at h2
      simp only [Option.none_or, if_true, Option.some_or, Option.some.injEq] at h2
      exact absurd (congrArg Prod.fst h2).symm hpos
  · rw [hit] at h1; cases h1

/-- (D) a live record of a key the tree does not know is dropped (it cannot be the last record of its key) -/
theorem vinv_drop_unknown_live {P : Key → TItem → Rec → Prop} {N : Key → Prop} {L1 L2 : List (Pos × Rec)} {p : Pos} {r : Rec}
    {tree : List (Nat × TItem)}
    (h : VInv hash K P N (L1 ++ (p, r) :: L2) tree)
    (hit : AMap.get tree (hash r.key) = none) (hv : r.ver > 0) :
    VInv hash K P N (L1 ++ L2) tree := by
  apply vinv_drop_of_later h
  intro y hy
  have hkr : K r.key := (h.recs (p, r) (by simp)).1
  rcases h.key r.key hkr with ⟨it0, r0, h1, _⟩ | ⟨_, h2⟩
  · rw [hit] at h1; cases h1
  · simp only at hy
    rcases h2 with h2 | ⟨q, r0, h2, hneg⟩
    · rw [h2] at hy; cases hy
    · rw [h2] at hy; cases hy
      rw [lastOf_mid] at h2
      cases hl2 : lastOf r.key L2 with
      | some z => rw [hl2] at h2; simpa using h2
      | none =>
        rw [hl2] at h2
        simp only [Option.none_or, if_true, Option.some_or, Option.some.injEq] at h2
        have : r0 = r := (congrArg Prod.snd h2).symm
        subst this
        exact absurd hv hneg

/-- (E) a pass that starts at file 0: a record of a key the tree does not know is dropped, and so was every earlier
    record of that key (nothing of an unknown key is in the decided part) -/
theorem vinv_drop_unknown_all {P : Key → TItem → Rec → Prop} {N : Key → Prop} {L1 L2 : List (Pos × Rec)} {p : Pos} {r : Rec}
    {tree : List (Nat × TItem)} (hInj : InjOn hash K)
    (h : VInv hash K P N (L1 ++ (p, r) :: L2) tree)
    (hit : AMap.get tree (hash r.key) = none)
    (hL1 : ∀ y ∈ L1, AMap.get tree (hash y.2.key) ≠ none) :
    VInv hash K P N (L1 ++ L2) tree := by
  have hkr : K r.key := (h.recs (p, r) (by simp)).1
  have hrecs : ∀ y ∈ L1 ++ L2, K y.2.key ∧ y.2.ver ≠ 0 := by
    intro y hy
    apply h.recs y
    simp only [List.mem_append, List.mem_cons] at hy ⊢
    rcases hy with hy | hy
    · exact Or.inl hy
    · exact Or.inr (Or.inr hy)
  refine ⟨hrecs, nodup_mid_drop h.nodup, h.dom, ?_⟩
  intro k hk
  by_cases hkk : r.key = k
  · subst hkk
    right
    refine ⟨hit, ?_⟩
    have hl1 : lastOf r.key L1 = none := by
      rw [lastOf_none_iff]
      intro y hy e
      exact hL1 y hy (by rw [e]; exact hit)
    rcases h.key r.key hk with ⟨it0, r0, h1, _⟩ | ⟨_, h2⟩
    · rw [hit] at h1; cases h1
    · rw [lastOf_append, hl1]
      rw [lastOf_mid, hl1] at h2
      cases hl2 : lastOf r.key L2 with
      | none => left; rfl
      | some z =>
        rw [hl2] at h2
        simp only [Option.some_or] at h2 ⊢
        rcases h2 with h2 | h2
        · cases h2
        · right; simpa using h2
  · rw [← lastOf_mid_ne k L1 L2 (p, r) hkk]
    exact h.key k hk

end GCStep
end StoreLemmas
