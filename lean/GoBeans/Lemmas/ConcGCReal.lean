/-
  The schedules of engine `concgc` (harness/cmd/hx/concgc.go, corpus/C05/concgc-*.txt) evaluated in Model/ConcGC.lean.

  The examples `ConcGC.Ex` (Lemmas/ConcGC.lean) use DataFileMax = 6 blocks and BodyMax = 0.  The real store needs
  BodyMax >= every body (config.IsValidValueSize in DataStreamReader.Next) and GC's "the file before the range is not
  full" test is size < DataFileMax - BodyMax (gc.go:226).  The controlled-schedule runs on the real store therefore use
  DataFileMax = 6 blocks, BodyMax = 3 blocks, and 5-block records (a 768-byte body under a 240-byte key).  This file
  evaluates the model on exactly those schedules (without the `spawn` decisions of the post-rotation flushers, which
  never take a step in them, except thread 6 of the cold-flush schedule, invoked here as in `Ex.ce_coldflush_fatal`):
  the model predicts what the real store did (the Lean driver Driver/ConcGCE.lean compares every observation after every
  decision of the real runs; these theorems state the outcomes).  One schedule of `Ex` is NOT reproducible on the real
  store (`unflushed_exact_model_says`): see the comment there.
  Core-only; every statement is closed and proved by evaluation.
-/
import GoBeans.Lemmas.ConcGC

namespace ConcGC
namespace ExReal
open ConcFine
open ConcGC.Ex (gos ggo wr rd fl)

/-- the configuration of the real runs: DataFileMax = 6 blocks, BodyMax = 768 bytes = 3 blocks -/
def cfgR : GCfg := { fine := { dataFileMax := 6 }, bodyMax := 3 }

def del (t k : Nat) : List (Nat × Act) := [(t, .call (.delete k 0))] ++ gos t 7

/-- keys 1, 3: short; key 2: 240 bytes (5 blocks with a 768-byte body, 2 blocks with a 4-byte body).
    file 0 = [key1 (2 blocks)], file 1 = [key2 v1 (5), key3 (1)], head file 2 = [key2 v2 (2)]; files 0, 1 flushed -/
def setupN : List (Nat × Act) := wr 1 1 11 1 ++ wr 1 2 12 4 ++ wr 1 3 13 0 ++ wr 1 2 22 1 ++ fl 3 0 1 ++ fl 3 1 2

example : let s := exec cfgR init setupN
    s.base.newHead = 2 ∧ (s.base.chunks 0).fsize = 2 ∧ (s.base.chunks 1).fsize = 6 ∧ pickDst cfgR s.base.chunks 1 = 0 := by
  decide +kernel

/-- corpus concgc-control: a write inside the window, nobody parked across the pass: no monitor, nothing fails,
    the get after the pass returns the acknowledged write -/
theorem control_ok :
    let s := exec cfgR init (setupN ++ [(0, .gcStart 1 1)] ++ ggo 7 ++ wr 4 3 33 0 ++ ggo 10 ++ rd 5 3)
    noHaz s ∧ s.fails = 0 ∧ s.base.fatal = false ∧ s.gc.pc = .done ∧ s.base.tree 3 = some ⟨2, ⟨2, 2⟩⟩ ∧
    (histOf s.base 3).map (·.out) = [.acc 1, .acc 2, .got 33 2] := by
  unfold noHaz; decide +kernel

/-- corpus concgc-stale-reader (REPRODUCED: `open 001.data: no such file or directory`) -/
theorem stale_reader_fails :
    let s := exec cfgR init (setupN ++ [(0, .gcStart 1 1)] ++ ggo 7 ++ [(2, .call (.read 3)), (2, .go)] ++ wr 4 3 33 0 ++
                             ggo 10 ++ gos 2 2 ++ rd 5 3)
    noHaz s ∧ s.fails = 1 ∧ s.gc.pc = .done ∧ s.base.tree 3 = some ⟨2, ⟨2, 2⟩⟩ := by
  unfold noHaz; decide +kernel

/-- corpus concgc-coldflush (REPRODUCED: Fatalf "wrong data file size, exp 768, got 512") -/
theorem coldflush_fatal :
    let s := exec cfgR init (setupN ++ [(0, .gcStart 1 1)] ++ ggo 7 ++ [(6, .call (.flush (some 0) true false))] ++
                             gos 6 4 ++ ggo 1 ++ gos 6 1)
    s.hazCold = true ∧ s.hazInplace = false ∧ s.hazReuse = false ∧ s.base.fatal = true ∧
    (s.base.chunks 0).size = 3 ∧ (s.base.chunks 0).fsize = 2 := by decide +kernel

/-! #### the unflushed source file (F25) -/

/-- `Ex.ce_unflushed_lost` with the sizes of the real runs (corpus concgc-unflushed): file 1 has NEVER been flushed.
    The MODEL says: the stream reader sees an empty file, Clear drops the buffer, the get of key 3 fails.
    The REAL store does not do that: 001.data does not exist (GetStreamWriter creates a data file only at its first
    flush), `GetStreamReader` (gc.go:265, datafile.go:185 os.Open) fails, the pass returns with gc.Err before any
    Clear, nothing is lost (trace: `gcdone:err:open_HOME/001.data:_no_such_file_or_directory`, then `got:13,1`).
    The model has no notion of "the file does not exist": `gOpen` must go to `gFinal` when the source has never been
    created (a bit per chunk: set by the flusher's `fOpen` / by `beginW`, cleared by `gRemove` and by the truncation
    to 0 of `endW`).  Kept as a statement ABOUT THE MODEL, not about the code. -/
theorem unflushed_exact_model_says :
    let s := exec cfgR init (wr 1 1 11 1 ++ wr 1 2 12 4 ++ wr 1 3 13 0 ++ wr 1 2 22 1 ++ fl 3 0 1 ++
                             [(0, .gcStart 1 1)] ++ ggo 10 ++ rd 5 3)
    s.hazCold = true ∧ s.gc.pc = .done ∧ s.fails = 1 ∧ (s.base.chunks 1).wbuf = [] := by decide +kernel

/-- corpus concgc-unflushed-partial (REPRODUCED): file 1 was flushed once while it was the head (key2 v1 on disk),
    key3 is still in its buffer at the rotation, the post-rotation flush has not run; gc(1,1): the reader sees the
    flushed prefix only, Clear drops the buffer with key3 and removes the file: the acknowledged write of key 3 is
    lost (the item points at nothing; real: `open 001.data: no such file`, also after a restart) -/
theorem unflushed_partial_lost :
    let s := exec cfgR init (wr 1 1 11 1 ++ wr 1 2 12 4 ++ fl 3 1 1 ++ wr 1 3 13 0 ++ wr 1 2 22 1 ++ fl 3 0 1 ++
                             [(0, .gcStart 1 1)] ++ ggo 11 ++ rd 5 3)
    s.hazCold = true ∧ s.hazInplace = false ∧ s.hazReuse = false ∧ s.gc.pc = .done ∧
    s.base.tree 3 = some ⟨1, ⟨1, 5⟩⟩ ∧ (s.base.chunks 1).wbuf = [] ∧ (s.base.chunks 1).file = [] ∧ s.fails = 1 := by
  decide +kernel

/-- corpus concgc-unflushed-opened (REPRODUCED): the post-rotation flusher of file 1 (thread 7) has opened = CREATED
    the file and is parked before its size check: now the file exists and is empty, and the real pass does what the
    model says: Clear drops both buffered records; key 3 is lost; the flusher then finds nothing to write -/
theorem unflushed_opened_lost :
    let s := exec cfgR init (wr 1 1 11 1 ++ wr 1 2 12 4 ++ wr 1 3 13 0 ++ wr 1 2 22 1 ++ fl 3 0 1 ++
                             [(7, .call (.flush (some 1) true false))] ++ gos 7 4 ++
                             [(0, .gcStart 1 1)] ++ ggo 10 ++ gos 7 8 ++ rd 5 3 ++ rd 5 2)
    s.hazCold = true ∧ s.gc.pc = .done ∧ s.base.fatal = false ∧ (s.base.chunks 1).wbuf = [] ∧ s.fails = 1 ∧
    (histOf s.base 2).map (·.out) = [.acc 1, .acc 2, .got 22 2] := by decide +kernel

/-! #### rewriting in place -/

/-- file 0 = [key1 v1 (1 block), key2 (3 blocks at offset 1), key1 v2 (1)], head file 1 = [key5 (2)] -/
def setupI : List (Nat × Act) := wr 1 1 11 0 ++ wr 1 2 12 2 ++ wr 1 1 21 0 ++ wr 1 5 15 1 ++ fl 3 0 3

/-- corpus concgc-inplace (REPRODUCED: `bad key size HOME/000.data:256`): a get of key 2 between the file write of its
    copy at offset 0 and the repoint reads the middle of the new copy -/
theorem inplace_get_fails :
    let s := exec cfgR init (setupI ++ [(0, .gcStart 0 0)] ++ ggo 10 ++ rd 2 2)
    s.hazInplace = true ∧ s.hazCold = false ∧ s.hazReuse = false ∧ s.fails = 1 ∧
    s.gc.pc = .gMove ⟨2, 1, 12, 1, 3⟩ 0 ∧ s.base.tree 2 = some ⟨1, ⟨0, 1⟩⟩ := by decide +kernel

/-- ... and after the pass everything is where it belongs (real: got 12 / version 1, got 21 / version 2, also after a restart) -/
theorem inplace_after :
    let s := exec cfgR init (setupI ++ [(0, .gcStart 0 0)] ++ ggo 10 ++ rd 2 2 ++ ggo 12 ++ rd 5 2 ++ rd 5 1)
    s.gc.pc = .done ∧ s.fails = 1 ∧ (s.base.chunks 0).file = [⟨2, 1, 12, 0, 3⟩, ⟨1, 2, 21, 3, 1⟩] ∧
    (histOf s.base 2).map (·.out) = [.acc 1, .got 12 1] ∧ (histOf s.base 1).map (·.out) = [.acc 1, .acc 2, .got 21 2] := by
  decide +kernel

/-! #### a file the pass has emptied becomes a destination: ABA on positions -/

/-- key 7: 240 bytes (5 blocks with a 768-byte body).  file 0 = [key9 (2 blocks)] is "not full" for GC (2 + 3 < 6) but
    cannot take key 7; file 1 = [key7 v1 (5), key8 v1 (1)], file 2 = [key7 v2 (5), key8 v2 (1)], head 3 = [key6];
    reader 2 holds key 7's item (version 1, position 1:0) and has not read yet -/
def setupR : List (Nat × Act) :=
  wr 1 9 19 1 ++ wr 1 7 17 4 ++ wr 1 8 18 0 ++ [(2, .call (.read 7)), (2, .go)] ++ wr 1 7 27 4 ++ wr 1 8 28 0 ++
  wr 1 6 16 0 ++ fl 3 0 1 ++ fl 3 1 2 ++ fl 3 2 2

/-- corpus concgc-reuse (REPRODUCED: reader 2 replies value 27 under version 1) -/
def sR : State := exec cfgR init (setupR ++ [(0, .gcStart 1 2)] ++ ggo 22 ++ gos 2 2)

theorem reuse_wrong_pair :
    sR.hazReuse = true ∧ sR.hazInplace = false ∧ sR.hazCold = false ∧ sR.fails = 0 ∧ sR.base.clock ≤ 1000 ∧
    (histAt sR.base 7 1000).map (·.out) = [.acc 1, .got 27 1, .acc 2] ∧
    Conc.checkA (histAt sR.base 7 1000) = false := by decide +kernel

/-- NEW, beyond `Ex`: the same ABA through the IN-PLACE path with a DELETE marker (corpus concgc-reuse-delete,
    REPRODUCED: reader 2 gets a payload with version +1 and an EMPTY body: StorageClient.Get hands the client an item).
    file 0 = [key9 (4 blocks)] is full for GC (4 + 3 >= 6): gc(1,2) rewrites file 1 = [key7 v1 (3), key8 v1 (3)] in
    place, keeps nothing of it, truncates it to 0 (dropStaleTail), and the first kept record of file 2 = [key7 delete
    marker (1), key8 v2 (3)] lands at 1:0, the position reader 2 took before the delete.  The reader checks the key
    only (bucket.go:457) and overwrites the record's version with the item's (bucket.go:459): a live reply (version 1)
    with the delete marker's empty body, a value no write ever stored -/
def setupD : List (Nat × Act) :=
  wr 1 9 19 3 ++ wr 1 7 17 2 ++ wr 1 8 18 2 ++ [(2, .call (.read 7)), (2, .go)] ++ del 1 7 ++ wr 1 8 28 2 ++
  wr 1 6 16 2 ++ fl 3 0 1 ++ fl 3 1 2 ++ fl 3 2 2

def schedD : List (Nat × Act) := setupD ++ [(0, .gcStart 1 2)] ++ ggo 18 ++ gos 2 2
def sD : State := exec cfgR init schedD

theorem reuse_delete_unwritten_value :
    sD.hazInplace = true ∧ sD.hazReuse = false ∧ sD.hazCold = false ∧ sD.fails = 0 ∧ sD.base.clock ≤ 1000 ∧
    sD.base.tree 7 = some ⟨-2, ⟨1, 0⟩⟩ ∧ (sD.base.chunks 1).file = [⟨7, -2, 0, 0, 1⟩] ∧
    (histAt sD.base 7 1000).map (·.out) = [.acc 1, .got 0 1, .acc 2] ∧
    Conc.checkA (histAt sD.base 7 1000) = false := by decide +kernel

/-- hence `C05_inplace_statement` (Lemmas/ConcGC.lean: "with rewriting in place allowed, but no re-filled file and no
    flush in the range, the checks still pass"), which was left open there and believed true, is FALSE -/
theorem C05_inplace_statement_false : ¬ C05_inplace_statement := by
  intro h
  have hb : cfgR.blind = false := rfl
  have hx := reuse_delete_unwritten_value
  unfold sD at hx
  have h1 := (h cfgR schedD 7 1000 hb hx.2.2.1 hx.2.1 hx.2.2.2.2.1).1
  rw [hx.2.2.2.2.2.2.2.2] at h1
  exact Bool.noConfusion h1

end ExReal
end ConcGC
