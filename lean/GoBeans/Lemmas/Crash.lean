/-
  Lemmas for C06: the log of a crash state is the durable part of the log; every durable record stays readable
  at its position; recovery (tree rebuilt by replay) serves, for every key, its last durable record.
-/
import GoBeans.Lemmas.Log
import GoBeans.Model.Crash

namespace StoreLemmas
open Store Spec

/-- the record lies completely inside the surviving bytes of its file -/
def durableP (cut : Nat → Nat) (x : Pos × Rec) : Bool := decide (x.1.off + x.2.size ≤ cut x.1.chunk)

theorem crash_log (b : Bucket) (cut : Nat → Nat) (present : Nat → Bool) :
    (b.crashAt cut present).log = b.log.filter (durableP cut) := by
  rw [log_eq, log_eq]
  have hh : (b.crashAt cut present).head = b.head := rfl
  rw [hh, List.filter_flatMap]
  congr 1
  funext i
  unfold recsAt
  have hc : ((b.crashAt cut present).chunks i).recs = (b.chunks i).recs.filter (fun p => decide (p.1 + p.2.size ≤ cut i)) := rfl
  rw [hc, List.filter_map]
  congr 1

/-- every record of the log is readable at its position -/
def ReadAll (b : Bucket) : Prop := ∀ x ∈ b.log, b.readAt x.1 = some x.2

theorem find_filter_of_find {α} (l : List α) (p q : α → Bool) (y : α) (h : l.find? q = some y) (hp : p y = true) :
    (l.filter p).find? q = some y := by
  induction l with
  | nil => simp at h
  | cons a l ih =>
    rw [List.find?_cons] at h
    by_cases hq : q a = true
    · simp only [hq] at h
      cases h
      simp [List.filter_cons, hp, hq]
    · simp only [hq] at h
      by_cases hpa : p a = true
      · simp only [List.filter_cons, hpa, if_true, List.find?_cons]
        simp only [hq]
        exact ih h
      · simp only [List.filter_cons, hpa]
        exact ih h

theorem crash_readAt (b : Bucket) (cut : Nat → Nat) (present : Nat → Bool) (p : Pos) (r : Rec)
    (hx : b.readAt p = some r) (hd : durableP cut (p, r) = true) :
    (b.crashAt cut present).readAt p = some r := by
  unfold Bucket.readAt Bucket.chunk Chunk.find at *
  have hc : ((b.crashAt cut present).chunks p.chunk).recs = (b.chunks p.chunk).recs.filter (fun q => decide (q.1 + q.2.size ≤ cut p.chunk)) := rfl
  rw [hc]
  cases hf : (b.chunks p.chunk).recs.find? (fun q => decide (q.1 = p.off)) with
  | none => simp [hf] at hx
  | some y =>
    simp only [hf, Option.map_some, Option.some.injEq] at hx
    have hy := List.find?_some hf
    simp only [decide_eq_true_eq] at hy
    rw [find_filter_of_find _ _ _ y hf (by
      simp only [durableP, decide_eq_true_eq] at hd ⊢
      rw [hy, hx]; exact hd)]
    simp [hx]

theorem recover_readAt (hash : Key → Nat) (cfg : Store.Cfg) (b : Bucket) (cut : Nat → Nat) (present : Nat → Bool) (q : Pos) :
    (b.recover hash cfg cut present).readAt q = (b.crashAt cut present).readAt q := by
  simp only [Bucket.recover, Store.step, Bucket.readAt, Bucket.chunk, Chunk.find]

theorem recover_tree (hash : Key → Nat) (cfg : Store.Cfg) (b : Bucket) (cut : Nat → Nat) (present : Nat → Bool) :
    (b.recover hash cfg cut present).tree = replayTree hash (b.crashAt cut present).log := rfl

theorem lastOf_mem_at (k : Key) (l : List (Pos × Rec)) (x : Pos × Rec) (h : lastOf k l = some x) : x ∈ l ∧ x.2.key = k := by
  unfold lastOf at h
  have := List.mem_of_getLast? h
  simp only [List.mem_filter, decide_eq_true_eq] at this
  exact this

/-- what a get returns after recovery: the live part of the key's last durable record -/
theorem recover_get (hash : Key → Nat) (K : Key → Prop) (hInj : InjOn hash K) (cfg : Store.Cfg) (b : Bucket)
    (ra : ReadAll b) (hkeys : ∀ x ∈ b.log, K x.2.key) (cut : Nat → Nat) (present : Nat → Bool) (k : Key) (hk : K k) :
    (Store.step hash cfg (b.recover hash cfg cut present) (.get k)).2.1 =
      (match lastOf k (b.log.filter (durableP cut)) with
       | some (_, r) => if r.ver > 0 then Reply.value r.flag r.body else Reply.miss
       | none => Reply.miss) := by
  have hkeys' : ∀ x ∈ b.log.filter (durableP cut), K x.2.key := fun x hx => hkeys x (List.mem_filter.mp hx).1
  have ht : AMap.get (b.recover hash cfg cut present).tree (hash k) = itemOfLast (lastOf k (b.log.filter (durableP cut))) := by
    rw [recover_tree, crash_log]
    exact replay_get hash K hInj _ hkeys' k hk
  simp only [Store.step, Bucket.lookup, ht]
  cases hl : lastOf k (b.log.filter (durableP cut)) with
  | none => simp [itemOfLast]
  | some x =>
    obtain ⟨p, r⟩ := x
    obtain ⟨hmem, hkey⟩ := lastOf_mem_at k _ _ hl
    have hm := List.mem_filter.mp hmem
    by_cases hv : r.ver > 0
    · have hread : (b.recover hash cfg cut present).readAt p = some r := by
        rw [recover_readAt]
        exact crash_readAt b cut present p r (ra (p, r) hm.1) hm.2
      simp only [itemOfLast, hv, if_true, hread]
      simp only at hkey
      simp [hkey, hv]
    · simp [itemOfLast, hv]

end StoreLemmas

namespace StoreLemmas
open Store Spec

section Good
variable (hash : Key → Nat) (K : Key → Prop)

/-- what the crash theorem needs of a state, and every history maintains -/
structure Good (b : Bucket) : Prop where
  pos : PosInv b
  read : ReadAll b
  keys : ∀ x ∈ b.log, K x.2.key

theorem put_log (cfg : Store.Cfg) (b : Bucket) (r : Rec) : (b.put hash cfg r).1.log = (b.append cfg r).1.log := rfl
theorem put_readAt (cfg : Store.Cfg) (b : Bucket) (r : Rec) (q : Pos) : (b.put hash cfg r).1.readAt q = (b.append cfg r).1.readAt q := rfl
theorem put_pos (cfg : Store.Cfg) (b : Bucket) (r : Rec) (h : PosInv (b.append cfg r).1) : PosInv (b.put hash cfg r).1 :=
  ⟨h.below, h.fresh⟩

theorem good_put (cfg : Store.Cfg) {b : Bucket} (g : Good K b) (r : Rec) (hk : K r.key) (hs : 0 < r.size) :
    Good K (b.put hash cfg r).1 := by
  obtain ⟨h1, h2, h3, _⟩ := append_spec cfg b r g.pos hs
  have hl := log_append cfg b r g.pos
  refine ⟨put_pos hash cfg b r h3, ?_, ?_⟩
  · intro x hx
    rw [put_log, hl] at hx
    rw [put_readAt]
    rcases List.mem_append.mp hx with hx | hx
    · exact h2 _ _ (g.read x hx)
    · simp only [List.mem_singleton] at hx
      subst hx; exact h1
  · intro x hx
    rw [put_log, hl] at hx
    rcases List.mem_append.mp hx with hx | hx
    · exact g.keys x hx
    · simp only [List.mem_singleton] at hx
      subst hx; exact hk

theorem good_congr {b b' : Bucket} (g : Good K b) (hlog : b'.log = b.log) (hread : ∀ q, b'.readAt q = b.readAt q)
    (hp : PosInv b') : Good K b' :=
  ⟨hp, fun x hx => by rw [hread]; exact g.read x (hlog ▸ hx), fun x hx => g.keys x (hlog ▸ hx)⟩

theorem good_tree {b : Bucket} (g : Good K b) (t : List (Nat × TItem)) : Good K { b with tree := t } :=
  good_congr K g rfl (fun _ => rfl) ⟨g.pos.below, g.pos.fresh⟩

theorem good_cas (cfg : Store.Cfg) {b : Bucket} (g : Good K b) (k : Key) (body : Bytes) (flag : Nat) (rev : Int)
    (ts : Option Nat) (size wts : Nat) (hk : K k) (hs : 0 < size) :
    Good K (checkAndSet hash cfg b k body flag rev ts size wts).1 := by
  cases h1 : AMap.get b.tree (hash k) with
  | none =>
    rw [cas_none hash cfg b k body flag rev ts size wts h1]
    split
    · exact g
    · split
      · exact g
      · exact good_put hash K cfg g _ hk hs
  | some it =>
    rw [cas_some hash cfg b k body flag rev ts size wts it h1]
    by_cases c1 : (it.ver > 0 ∧ (if rev ≥ 0 then vhashOf body else 0) = it.vhash) ∧ cfg.checkVHash = true
    · rw [if_pos c1]
      by_cases c2 : rev ≠ 0
      · rw [if_pos c2]; exact good_tree K g _
      · rw [if_neg c2]; exact g
    · rw [if_neg c1]
      by_cases c3 : (nextVer it.ver rev).2 = false
      · rw [if_pos c3]; exact g
      · rw [if_neg c3]
        by_cases c4 : (nextVer it.ver rev).1 < 0 ∧ it.ver < 0
        · rw [if_pos c4]; exact g
        · rw [if_neg c4]; exact good_put hash K cfg g _ hk hs

theorem good_step (cfg : Store.Cfg) {b : Bucket} (g : Good K b) (R : Nat) (op : Op) (hop : OpOK2 K R op) :
    Good K (Store.step hash cfg b op).1 := by
  cases op with
  | set k body flag rev ts size =>
    obtain ⟨hk, hs, _, _, _⟩ := hop
    have := good_cas hash K cfg g k body flag rev (some ts) size ts hk hs
    rw [step_set]
    generalize checkAndSet hash cfg b k body flag rev (some ts) size ts = res at this
    obtain ⟨b', c⟩ := res
    cases c <;> exact this
  | delete k size wts =>
    obtain ⟨hk, hs⟩ := hop
    have := good_cas hash K cfg g k [] 0 (-1) none size wts hk hs
    rw [step_delete]
    generalize checkAndSet hash cfg b k [] 0 (-1) none size wts = res at this
    obtain ⟨b', c⟩ := res
    cases c <;> exact this
  | incr k d size wts =>
    obtain ⟨hk, hs⟩ := hop
    have hput : ∀ ver v, Good K (b.put hash cfg { key := k, ver := ver, flag := Spec.FLAG_INCR, ts := none, body := Spec.itoa v, size := size, wts := wts }).1 :=
      fun ver v => good_put hash K cfg g _ hk hs
    simp only [Store.step]
    split
    · exact hput _ _
    · exact g
    · exact g
    · split
      · exact hput _ _
      · split
        · exact g
        · split
          · exact g
          · split
            · exact g
            · exact hput _ _
  | get k => simp only [Store.step]; split <;> (try split) <;> exact g
  | info k => simp only [Store.step]; split <;> exact g
  | flush =>
    have hr : ∀ q, (Store.step hash cfg b .flush).1.readAt q = b.readAt q := by
      intro q
      simp only [Store.step]
      rw [readAt_setChunk]
      by_cases h : q.chunk = b.head
      · simp [h, Bucket.readAt, Bucket.chunk, Chunk.find]
      · simp [h]
    have hp : PosInv (Store.step hash cfg b .flush).1 := by
      refine ⟨?_, ?_⟩
      · intro i o r hm
        simp only [Store.step] at hm ⊢
        rw [chunks_setChunk] at hm ⊢
        by_cases h : i = b.head
        · simp only [h, if_true, Bucket.chunk] at hm ⊢; exact g.pos.below _ o r hm
        · simp only [h, if_false] at hm ⊢; exact g.pos.below i o r hm
      · intro i hi
        have hh : (Store.step hash cfg b .flush).1.head = b.head := rfl
        rw [hh] at hi
        simp only [Store.step]
        rw [chunks_setChunk]
        have : i ≠ b.head := by omega
        simp only [this, if_false]
        exact g.pos.fresh i hi
    exact good_congr K g (log_flush hash cfg b).1 hr hp
  | reopen keep =>
    obtain ⟨hr, hl, hp', _⟩ := reopen_facts hash cfg b g.pos keep
    exact good_congr K g hl hr hp'

theorem good_run (cfg : Store.Cfg) (R : Nat) (ops : List Op) :
    ∀ (b : Bucket), Good K b → (∀ op ∈ ops, OpOK2 K R op) → Good K (Store.run hash cfg b ops).1 := by
  induction ops with
  | nil => intro b g _; exact g
  | cons op ops ih =>
    intro b g hops
    have g' := good_step hash K cfg g R op (hops op (by simp))
    have := ih (Store.step hash cfg b op).1 g' (fun o ho => hops o (by simp [ho]))
    simp only [Store.run]
    exact this

theorem good_init : Good K ({} : Bucket) := by
  refine ⟨⟨?_, ?_⟩, ?_, ?_⟩
  · intro i o r hm; simp [Bucket.chunks] at hm
  · intro i _; exact ⟨rfl, rfl⟩
  · intro x hx; simp [Bucket.log, Bucket.chunks] at hx
  · intro x hx; simp [Bucket.log, Bucket.chunks] at hx

end Good
end StoreLemmas
