/-
  The pass, step by step: the virtual log of `Store.gcRun`, its bookkeeping invariant, the destination switch, one
  record (`gcRecord` = one abstract step of Lemmas/GCStep.lean), one file, the whole pass.
-/
import GoBeans.Lemmas.GCRun
set_option linter.unusedSimpArgs false
set_option linter.unusedVariables false
namespace StoreLemmas
open Store Spec

/-- what the destination file will hold when writing ends -/
def dstRecs (s : GcSt) : List (Nat × Rec) := if s.rewriting then s.out else (s.b.chunks s.dst).recs ++ s.out

/-- the records of file `i` as the pass will leave them -/
def vrecs (s : GcSt) (i : Nat) : List (Nat × Rec) := if i = s.dst then dstRecs s else (s.b.chunks i).recs

def preV (s : GcSt) (src : Nat) : List (Pos × Rec) :=
  (List.range src).flatMap (fun i => tag i (vrecs s i)) ++ (if s.dst = src then tag src s.out else [])

def postV (b : Bucket) (src : Nat) : List (Pos × Rec) := (List.range' (src + 1) (b.head - src)).flatMap (recsAt b)

/-- the virtual log: decided part, unread remainder of the source, files above -/
def vlog (s : GcSt) (src : Nat) (rest : List (Nat × Rec)) : List (Pos × Rec) :=
  preV s src ++ (tag src rest ++ postV s.b src)

structure SInv (cfg : Store.Cfg) (s : GcSt) (src : Nat) (rest : List (Nat × Rec)) : Prop where
  wf : WF cfg s.b
  hsrc : src ≤ s.b.head
  dle : s.dst ≤ src
  app : s.rewriting = false → s.dst < src
  between : ∀ j, s.dst < j → j < src → (s.b.chunks j).recs = [] ∧ (s.b.chunks j).size = 0
  out : okFrom (if s.rewriting then 0 else (s.b.chunks s.dst).size) s.out s.wh
  whmax : s.wh ≤ cfg.dataFileMax
  inpl : s.dst = src → ∀ p ∈ rest, s.wh ≤ p.1
  rest : ∃ lo, okFrom lo rest (s.b.chunks src).size

/-! ### end of writing -/

theorem endWriting_other (s : GcSt) (i : Nat) (h : i ≠ s.dst) : s.endWriting.chunks i = s.b.chunks i := by
  unfold GcSt.endWriting
  split <;> simp [chunks_setChunk, h]

theorem endWriting_recs (s : GcSt) : (s.endWriting.chunks s.dst).recs = dstRecs s := by
  unfold GcSt.endWriting dstRecs
  split <;> simp [chunks_setChunk, *]

theorem endWriting_size (s : GcSt) :
    (s.endWriting.chunks s.dst).size = if s.rewriting then s.wh else max (s.b.chunks s.dst).size s.wh := by
  unfold GcSt.endWriting
  split <;> simp [chunks_setChunk, *]

theorem endWriting_head (s : GcSt) : s.endWriting.head = s.b.head := by
  unfold GcSt.endWriting; split <;> rfl

theorem endWriting_tree (s : GcSt) : s.endWriting.tree = s.b.tree := by
  unfold GcSt.endWriting; split <;> rfl

theorem endWriting_nextGC (s : GcSt) : s.endWriting.nextGC = s.b.nextGC := by
  unfold GcSt.endWriting; split <;> rfl

theorem dstRecs_ok {cfg : Store.Cfg} {s : GcSt} {src : Nat} {rest : List (Nat × Rec)} (h : SInv cfg s src rest) :
    okFrom 0 (dstRecs s) (s.endWriting.chunks s.dst).size := by
  rw [endWriting_size]
  unfold dstRecs
  have ho := h.out
  by_cases hr : s.rewriting = true
  · simp only [hr, if_true] at ho ⊢; exact ho
  · simp only [hr, if_false, Bool.false_eq_true] at ho ⊢
    have := okFrom_le ho
    exact okFrom_sz (okFrom_append (h.wf.ok s.dst) ho) (by omega)

theorem endWriting_wf {cfg : Store.Cfg} {s : GcSt} {src : Nat} {rest : List (Nat × Rec)} (h : SInv cfg s src rest) :
    WF cfg s.endWriting := by
  have hd : s.dst ≤ s.b.head := Nat.le_trans h.dle h.hsrc
  refine ⟨fun i => ?_, fun i => ?_, fun i hi => ?_⟩
  · by_cases hi : i = s.dst
    · subst hi; rw [endWriting_recs]; exact dstRecs_ok h
    · rw [endWriting_other s i hi]; exact h.wf.ok i
  · by_cases hi : i = s.dst
    · subst hi
      rw [endWriting_size]
      have := h.whmax
      have := h.wf.max s.dst
      split <;> omega
    · rw [endWriting_other s i hi]; exact h.wf.max i
  · rw [endWriting_head] at hi
    rw [endWriting_other s i (by omega)]
    exact h.wf.fresh i hi

/-! ### the destination switch -/

theorem gcBegin_tree (b : Bucket) (dst src : Nat) (st : GcStats) : (gcBegin b dst src st).b.tree = b.tree := by
  unfold gcBegin; split <;> rfl

theorem gcBegin_head (b : Bucket) (dst src : Nat) (st : GcStats) : (gcBegin b dst src st).b.head = b.head := by
  unfold gcBegin; split <;> rfl

theorem gcBegin_dst (b : Bucket) (dst src : Nat) (st : GcStats) : (gcBegin b dst src st).dst = dst := by
  unfold gcBegin; split <;> rfl

theorem gcBegin_out (b : Bucket) (dst src : Nat) (st : GcStats) : (gcBegin b dst src st).out = [] := by
  unfold gcBegin; split <;> rfl

theorem gcBegin_rewriting (b : Bucket) (dst src : Nat) (st : GcStats) :
    (gcBegin b dst src st).rewriting = decide (dst = src) := by
  unfold gcBegin; split <;> simp [*]

theorem gcBegin_recs (b : Bucket) (dst src : Nat) (st : GcStats) (i : Nat) :
    ((gcBegin b dst src st).b.chunks i).recs = (b.chunks i).recs := by
  unfold gcBegin
  split
  · rfl
  · simp only [chunks_setChunk]; split <;> simp [*]

theorem gcBegin_size (b : Bucket) (dst src : Nat) (st : GcStats) (i : Nat) :
    ((gcBegin b dst src st).b.chunks i).size = (b.chunks i).size := by
  unfold gcBegin
  split
  · rfl
  · simp only [chunks_setChunk]; split <;> simp [*]

theorem gcBegin_wh (b : Bucket) (dst src : Nat) (st : GcStats) :
    (gcBegin b dst src st).wh = if dst = src then 0 else (b.chunks dst).size := by
  unfold gcBegin
  split
  · rfl
  · simp [chunks_setChunk]

theorem gcBegin_wf {cfg : Store.Cfg} {b : Bucket} (w : WF cfg b) (dst src : Nat) (st : GcStats) :
    WF cfg (gcBegin b dst src st).b :=
  ⟨fun i => by rw [gcBegin_recs, gcBegin_size]; exact w.ok i,
   fun i => by rw [gcBegin_size]; exact w.max i,
   fun i hi => by rw [gcBegin_recs, gcBegin_size]; rw [gcBegin_head] at hi; exact w.fresh i hi⟩

theorem recsAt_congr {b b' : Bucket} {i : Nat} (h : (b'.chunks i).recs = (b.chunks i).recs) : recsAt b' i = recsAt b i := by
  unfold recsAt; rw [h]

theorem postV_congr {b b' : Bucket} {src : Nat} (hh : b'.head = b.head)
    (h : ∀ i, src < i → (b'.chunks i).recs = (b.chunks i).recs) : postV b' src = postV b src := by
  unfold postV
  rw [hh]
  exact flatMap_range'_congr _ _ _ _ (fun i h1 _ => recsAt_congr (h i (by omega)))

theorem preV_congr {s s' : GcSt} {src : Nat}
    (hx : (if s'.dst = src then tag src s'.out else []) = (if s.dst = src then tag src s.out else []))
    (h : ∀ i, i < src → vrecs s' i = vrecs s i) : preV s' src = preV s src := by
  unfold preV
  rw [flatMap_congr_range src _ _ (fun i hi => by rw [h i hi]), hx]

theorem switch_spec {cfg : Store.Cfg} {s : GcSt} {src : Nat} {rest : List (Nat × Rec)} (st : GcStats)
    (h : SInv cfg s src rest) (hlt : s.dst < src) :
    SInv cfg (gcBegin s.endWriting (s.dst + 1) src st) src rest
    ∧ preV (gcBegin s.endWriting (s.dst + 1) src st) src = preV s src
    ∧ postV (gcBegin s.endWriting (s.dst + 1) src st).b src = postV s.b src
    ∧ (gcBegin s.endWriting (s.dst + 1) src st).b.tree = s.b.tree
    ∧ (gcBegin s.endWriting (s.dst + 1) src st).wh = 0
    ∧ ((gcBegin s.endWriting (s.dst + 1) src st).b.chunks src).size = (s.b.chunks src).size := by
  have hwf1 := endWriting_wf h
  have hsz1 : ∀ i, i ≠ s.dst → (s.endWriting.chunks i) = s.b.chunks i := fun i hi => endWriting_other s i hi
  have hsrc_ne : src ≠ s.dst := by omega
  have hwh : (gcBegin s.endWriting (s.dst + 1) src st).wh = 0 := by
    rw [gcBegin_wh]
    split
    · rfl
    · rename_i hne
      rw [hsz1 (s.dst + 1) (by omega)]
      exact (h.between (s.dst + 1) (by omega) (by omega)).2
  have hrecs : ∀ i, i ≠ s.dst → ((gcBegin s.endWriting (s.dst + 1) src st).b.chunks i).recs = (s.b.chunks i).recs := by
    intro i hi; rw [gcBegin_recs, hsz1 i hi]
  have hsize : ∀ i, i ≠ s.dst → ((gcBegin s.endWriting (s.dst + 1) src st).b.chunks i).size = (s.b.chunks i).size := by
    intro i hi; rw [gcBegin_size, hsz1 i hi]
  refine ⟨⟨gcBegin_wf hwf1 _ _ _, ?_, ?_, ?_, ?_, ?_, ?_, ?_, ?_⟩, ?_, ?_, ?_, hwh, hsize src hsrc_ne⟩
  · rw [gcBegin_head, endWriting_head]; exact h.hsrc
  · rw [gcBegin_dst]; omega
  · intro hr
    rw [gcBegin_rewriting] at hr
    rw [gcBegin_dst]
    have : ¬ s.dst + 1 = src := by simpa using hr
    omega
  · intro j h1 h2
    rw [gcBegin_dst] at h1
    rw [hrecs j (by omega), hsize j (by omega)]
    exact h.between j (by omega) h2
  · rw [gcBegin_out, hwh, gcBegin_rewriting, gcBegin_dst]
    by_cases hd : s.dst + 1 = src
    · simp [hd, okFrom]
    · simp only [hd, decide_false, Bool.false_eq_true, if_false]
      rw [hsize (s.dst + 1) (by omega), (h.between (s.dst + 1) (by omega) (by omega)).2]
      simp [okFrom]
  · rw [hwh]; omega
  · intro _ p _; rw [hwh]; omega
  · rw [hsize src hsrc_ne]; exact h.rest
  · -- the decided part is unchanged: the old destination now really holds what was written to it
    apply preV_congr
    · rw [gcBegin_dst, gcBegin_out]
      have : ¬ s.dst = src := by omega
      simp [this, tag]
    · intro i hi
      unfold vrecs
      rw [gcBegin_dst]
      by_cases h1 : i = s.dst
      · subst h1
        have : ¬ s.dst = s.dst + 1 := by omega
        simp only [this, if_false, if_true]
        rw [gcBegin_recs, endWriting_recs]
      · simp only [h1, if_false]
        by_cases h2 : i = s.dst + 1
        · subst h2
          simp only [if_true]
          unfold dstRecs
          rw [gcBegin_out, gcBegin_rewriting, gcBegin_dst]
          have : ¬ s.dst + 1 = src := by omega
          simp only [this, decide_false, Bool.false_eq_true, if_false, List.append_nil]
          exact hrecs _ (by omega)
        · simp only [h2, if_false]
          exact hrecs i h1
  · apply postV_congr
    · rw [gcBegin_head, endWriting_head]
    · intro i hi; exact hrecs i (by omega)
  · rw [gcBegin_tree, endWriting_tree]

/-! ### one record -/

/-- the state after appending `r` at the write head and installing the tree `t` -/
def keepSt (s : GcSt) (t : List (Nat × TItem)) (r : Rec) : GcSt :=
  { s with b := { s.b with tree := t }, out := s.out ++ [(s.wh, r)], wh := s.wh + r.size }

theorem sinv_stats {cfg : Store.Cfg} {s : GcSt} {src : Nat} {rest : List (Nat × Rec)} (st : GcStats)
    (h : SInv cfg s src rest) : SInv cfg { s with stats := st } src rest :=
  ⟨h.wf, h.hsrc, h.dle, h.app, h.between, h.out, h.whmax, h.inpl, h.rest⟩

theorem sinv_tail {cfg : Store.Cfg} {s : GcSt} {src : Nat} {p : Nat × Rec} {rest : List (Nat × Rec)}
    (h : SInv cfg s src (p :: rest)) : SInv cfg s src rest :=
  ⟨h.wf, h.hsrc, h.dle, h.app, h.between, h.out, h.whmax, fun e q hq => h.inpl e q (by simp [hq]),
   by obtain ⟨lo, hl⟩ := h.rest; exact ⟨_, hl.2.2⟩⟩

theorem dstRecs_lt {cfg : Store.Cfg} {s : GcSt} {src : Nat} {rest : List (Nat × Rec)} (h : SInv cfg s src rest)
    (q : Nat × Rec) (hq : q ∈ dstRecs s) : q.1 < s.wh := by
  unfold dstRecs at hq
  have ho := h.out
  by_cases hr : s.rewriting = true
  · simp only [hr, if_true] at hq ho
    have := okFrom_mem ho q hq; omega
  · simp only [hr, if_false, Bool.false_eq_true] at hq ho
    rw [List.mem_append] at hq
    rcases hq with hq | hq
    · have := okFrom_mem (h.wf.ok s.dst) q hq
      have := okFrom_le ho
      omega
    · have := okFrom_mem ho q hq; omega

theorem out_lt {cfg : Store.Cfg} {s : GcSt} {src : Nat} {rest : List (Nat × Rec)} (h : SInv cfg s src rest)
    (q : Nat × Rec) (hq : q ∈ s.out) : q.1 < s.wh := by
  have := okFrom_mem h.out q hq; omega

theorem mem_postV {b : Bucket} {src : Nat} {y : Pos × Rec} (h : y ∈ postV b src) : src < y.1.chunk := by
  unfold postV at h
  rw [List.mem_flatMap] at h
  obtain ⟨i, hi, hy⟩ := h
  rw [recsAt_eq_tag, mem_tag] at hy
  rw [List.mem_range'_1] at hi
  omega

theorem mem_preV {s : GcSt} {src : Nat} {y : Pos × Rec} (h : y ∈ preV s src) :
    (y.1.chunk < src ∧ (y.1.off, y.2) ∈ vrecs s y.1.chunk) ∨ (s.dst = src ∧ y.1.chunk = src ∧ (y.1.off, y.2) ∈ s.out) := by
  unfold preV at h
  rw [List.mem_append] at h
  rcases h with h | h
  · left
    rw [List.mem_flatMap] at h
    obtain ⟨i, hi, hy⟩ := h
    rw [mem_tag] at hy
    rw [List.mem_range] at hi
    obtain ⟨h1, h2⟩ := hy
    subst h1
    exact ⟨hi, h2⟩
  · right
    by_cases hd : s.dst = src
    · simp only [hd, if_true] at h
      rw [mem_tag] at h
      exact ⟨hd, h.1, h.2⟩
    · simp [hd] at h

/-- the write head is a position nobody uses -/
theorem wh_fresh {cfg : Store.Cfg} {s : GcSt} {src off : Nat} {r : Rec} {rest : List (Nat × Rec)}
    (h : SInv cfg s src ((off, r) :: rest)) :
    ∀ y ∈ preV s src ++ (tag src rest ++ postV s.b src), y.1 ≠ ({ chunk := s.dst, off := s.wh } : Pos) := by
  intro y hy e
  have hc : y.1.chunk = s.dst := by rw [e]
  have ho : y.1.off = s.wh := by rw [e]
  rw [List.mem_append, List.mem_append] at hy
  rcases hy with hy | hy | hy
  · rcases mem_preV hy with ⟨h1, h2⟩ | ⟨h1, h2, h3⟩
    · unfold vrecs at h2
      rw [hc] at h2
      simp only [if_true] at h2
      have := dstRecs_lt h _ h2
      simp only at this; omega
    · have := out_lt h _ h3
      simp only at this; omega
  · rw [mem_tag] at hy
    have hd : s.dst = src := by rw [← hc]; exact hy.1
    have h1 := h.inpl hd (off, r) (by simp)
    obtain ⟨lo, hl⟩ := h.rest
    have h2 := okFrom_mem hl.2.2 _ hy.2
    have h3 := hl.2.1
    simp only at h1 h2 h3; omega
  · have := mem_postV hy
    have := h.dle
    omega

theorem keep_spec {cfg : Store.Cfg} {s : GcSt} {src off : Nat} {r : Rec} {rest : List (Nat × Rec)}
    (t : List (Nat × TItem)) (h : SInv cfg s src ((off, r) :: rest)) (hfit : r.size + s.wh ≤ cfg.dataFileMax) :
    SInv cfg (keepSt s t r) src rest
    ∧ preV (keepSt s t r) src = preV s src ++ [(({ chunk := s.dst, off := s.wh } : Pos), r)]
    ∧ postV (keepSt s t r).b src = postV s.b src := by
  obtain ⟨lo, hl⟩ := h.rest
  have hrs : 0 < r.size := hl.2.1
  have hdr : dstRecs (keepSt s t r) = dstRecs s ++ [(s.wh, r)] := by
    unfold dstRecs keepSt
    by_cases hr : s.rewriting = true <;> simp [hr]
  refine ⟨⟨⟨h.wf.ok, h.wf.max, h.wf.fresh⟩, h.hsrc, h.dle, h.app, h.between, okFrom_snoc h.out r hrs, ?_, ?_, ⟨_, hl.2.2⟩⟩, ?_, rfl⟩
  · show s.wh + r.size ≤ cfg.dataFileMax
    omega
  · intro hd p hp
    show s.wh + r.size ≤ p.1
    have h1 := h.inpl hd (off, r) (by simp)
    have h2 := okFrom_mem hl.2.2 p hp
    simp only at h1 h2; omega
  · by_cases hd : s.dst = src
    · unfold preV
      have e1 : (keepSt s t r).dst = s.dst := rfl
      have e2 : (keepSt s t r).out = s.out ++ [(s.wh, r)] := rfl
      rw [e1, e2]
      simp only [hd, if_true, tag_append, ← List.append_assoc]
      congr 1
      congr 1
      apply flatMap_congr_range
      intro i hi
      unfold vrecs
      rw [e1]
      have : ¬ i = s.dst := by omega
      simp only [this, if_false]
      rfl
    · have hlt : s.dst < src := by have := h.dle; omega
      unfold preV
      have e1 : (keepSt s t r).dst = s.dst := rfl
      rw [e1]
      simp only [hd, if_false, List.append_nil]
      apply flatMap_range_snoc _ _ s.dst _ src hlt
      · intro i hi
        unfold vrecs
        rw [e1]
        simp only [hi, if_false]
        rfl
      · unfold vrecs
        rw [e1]
        simp only [if_true, hdr, tag_append]
        rfl
      · intro j h1 h2
        unfold vrecs
        have : ¬ j = s.dst := by omega
        simp only [this, if_false, (h.between j h1 h2).1]
        rfl

/-! ### `gcRecord` is one abstract step -/

/-- nothing of a key the tree does not know has been kept so far (used by passes that start at file 0) -/
def KnownPre (hash : Key → Nat) (s : GcSt) (src : Nat) : Prop :=
  ∀ y ∈ preV s src, AMap.get s.b.tree (hash y.2.key) ≠ none

def recNewest (hash : Key → Nat) (begin src : Nat) (s : GcSt) (off : Nat) (r : Rec) : Bool :=
  match AMap.get s.b.tree (hash r.key) with
  | some it => it.pos == { chunk := src, off := off }
  | none => decide (begin > 0) && decide (r.ver < 0)

def recStats (s : GcSt) (r : Rec) (newest : Bool) : GcStats :=
  { s.stats with numBefore := s.stats.numBefore + 1, sizeBefore := s.stats.sizeBefore + r.size,
                 numReleased := s.stats.numReleased + (if newest then 0 else 1),
                 sizeReleased := s.stats.sizeReleased + (if newest then 0 else r.size) }

/-- the state in which a kept record is written: after the destination switch if the record does not fit -/
def fitSt (cfg : Store.Cfg) (s : GcSt) (src : Nat) (r : Rec) (st : GcStats) : GcSt :=
  if r.size + s.wh > cfg.dataFileMax then gcBegin s.endWriting (s.dst + 1) src st else { s with stats := st }

theorem gcRecord_eq (hash : Key → Nat) (cfg : Store.Cfg) (begin src : Nat) (s : GcSt) (off : Nat) (r : Rec) :
    gcRecord hash cfg begin src s off r =
      if !recNewest hash begin src s off r then { s with stats := recStats s r (recNewest hash begin src s off r) }
      else
        keepSt (fitSt cfg s src r (recStats s r (recNewest hash begin src s off r)))
          (match AMap.get s.b.tree (hash r.key) with
           | some it => AMap.set (fitSt cfg s src r (recStats s r (recNewest hash begin src s off r))).b.tree (hash r.key)
               { it with pos := { chunk := (fitSt cfg s src r (recStats s r (recNewest hash begin src s off r))).dst,
                                  off := (fitSt cfg s src r (recStats s r (recNewest hash begin src s off r))).wh } }
           | none => (fitSt cfg s src r (recStats s r (recNewest hash begin src s off r))).b.tree) r := rfl

theorem fit_spec {cfg : Store.Cfg} {s : GcSt} {src off : Nat} {r : Rec} {rest : List (Nat × Rec)} (st : GcStats)
    (h : SInv cfg s src ((off, r) :: rest)) :
    SInv cfg (fitSt cfg s src r st) src ((off, r) :: rest)
    ∧ preV (fitSt cfg s src r st) src = preV s src
    ∧ postV (fitSt cfg s src r st).b src = postV s.b src
    ∧ (fitSt cfg s src r st).b.tree = s.b.tree
    ∧ r.size + (fitSt cfg s src r st).wh ≤ cfg.dataFileMax := by
  obtain ⟨lo, hl⟩ := h.rest
  have hfits : off + r.size ≤ (s.b.chunks src).size := okFrom_le hl.2.2
  have hmax := h.wf.max src
  unfold fitSt
  by_cases hbig : r.size + s.wh > cfg.dataFileMax
  · rw [if_pos hbig]
    have hlt : s.dst < src := by
      have := h.dle
      by_cases hd : s.dst = src
      · have := h.inpl hd (off, r) (by simp)
        simp only at this; omega
      · omega
    obtain ⟨h1, h2, h3, h4, h5, h6⟩ := switch_spec st h hlt
    refine ⟨h1, h2, h3, h4, ?_⟩
    rw [h5]; omega
  · rw [if_neg hbig]
    exact ⟨sinv_stats st h, rfl, rfl, rfl, by show r.size + s.wh ≤ _; omega⟩

section RecordStep
variable {hash : Key → Nat} {K : Key → Prop}

theorem get_set_ne_none (t : List (Nat × TItem)) (h h' : Nat) (v : TItem) (hne : AMap.get t h' ≠ none) :
    AMap.get (AMap.set t h v) h' ≠ none := by
  by_cases e : h = h'
  · subst e; simp
  · rw [AMap.get_set_ne _ _ _ _ e]; exact hne

theorem record_step {P : Key → TItem → Rec → Prop} {N : Key → Prop} (hP : ∀ k it r p', P k it r → P k { it with pos := p' } r)
    (hInj : InjOn hash K) (cfg : Store.Cfg) (begin src : Nat) {s : GcSt} {off : Nat} {r : Rec} {rest : List (Nat × Rec)}
    (h : SInv cfg s src ((off, r) :: rest))
    (hv : VInv hash K P N (vlog s src ((off, r) :: rest)) s.b.tree)
    (hk : begin = 0 → KnownPre hash s src) :
    SInv cfg (gcRecord hash cfg begin src s off r) src rest
    ∧ VInv hash K P N (vlog (gcRecord hash cfg begin src s off r) src rest) (gcRecord hash cfg begin src s off r).b.tree
    ∧ (begin = 0 → KnownPre hash (gcRecord hash cfg begin src s off r) src) := by
  have hx : vlog s src ((off, r) :: rest)
      = preV s src ++ ((({ chunk := src, off := off } : Pos), r) :: (tag src rest ++ postV s.b src)) := rfl
  rw [hx] at hv
  have hdrop : vlog s src rest = preV s src ++ (tag src rest ++ postV s.b src) := rfl
  rw [gcRecord_eq]
  generalize hst : recStats s r (recNewest hash begin src s off r) = st
  cases hit : AMap.get s.b.tree (hash r.key) with
  | some it =>
    by_cases hpos : it.pos = { chunk := src, off := off }
    · have hn : recNewest hash begin src s off r = true := by unfold recNewest; rw [hit]; simp [hpos]
      simp only [hn, Bool.not_true, Bool.false_eq_true, if_false]
      obtain ⟨f1, f2, f3, f4, f5⟩ := fit_spec st h
      obtain ⟨k1, k2, k3⟩ := keep_spec (AMap.set (fitSt cfg s src r st).b.tree (hash r.key)
          { it with pos := { chunk := (fitSt cfg s src r st).dst, off := (fitSt cfg s src r st).wh } }) f1 (by omega)
      have hfresh := wh_fresh f1
      rw [f2, f3] at hfresh
      have hv' := vinv_relocate hP hInj hv hit hpos { chunk := (fitSt cfg s src r st).dst, off := (fitSt cfg s src r st).wh } hfresh
      refine ⟨k1, ?_, ?_⟩
      · unfold vlog
        rw [k2, k3, f2, f3, f4, List.append_assoc]
        exact hv'
      · intro hb y hy
        rw [k2, f2, List.mem_append] at hy
        show AMap.get (AMap.set _ _ _) _ ≠ none
        rw [f4]
        rcases hy with hy | hy
        · exact get_set_ne_none _ _ _ _ (hk hb y hy)
        · simp only [List.mem_singleton] at hy
          subst hy
          simp
    · have hn : recNewest hash begin src s off r = false := by unfold recNewest; rw [hit]; simp [hpos]
      simp only [hn, Bool.not_false, if_true]
      refine ⟨sinv_stats st (sinv_tail h), ?_, fun hb y hy => hk hb y hy⟩
      exact vinv_drop_known hv hit hpos
  | none =>
    by_cases hkeep : begin > 0 ∧ r.ver < 0
    · have hn : recNewest hash begin src s off r = true := by unfold recNewest; rw [hit]; simp [hkeep.1, hkeep.2]
      simp only [hn, Bool.not_true, Bool.false_eq_true, if_false]
      obtain ⟨f1, f2, f3, f4, f5⟩ := fit_spec st h
      obtain ⟨k1, k2, k3⟩ := keep_spec (fitSt cfg s src r st).b.tree f1 (by omega)
      have hfresh := wh_fresh f1
      rw [f2, f3] at hfresh
      have hv' := vinv_relocate_unknown hInj hv hit hkeep.2 { chunk := (fitSt cfg s src r st).dst, off := (fitSt cfg s src r st).wh } hfresh
      refine ⟨k1, ?_, fun hb => by omega⟩
      unfold vlog
      rw [k2, k3, f2, f3, List.append_assoc]
      show VInv hash K P N _ (fitSt cfg s src r st).b.tree
      rw [f4]
      exact hv'
    · have hn : recNewest hash begin src s off r = false := by
        unfold recNewest; rw [hit]
        by_cases hb : begin > 0
        · have : ¬ r.ver < 0 := fun e => hkeep ⟨hb, e⟩
          simp [hb, this]
        · simp [hb]
      simp only [hn, Bool.not_false, if_true]
      refine ⟨sinv_stats st (sinv_tail h), ?_, fun hb y hy => hk hb y hy⟩
      show VInv hash K P N (vlog s src rest) s.b.tree
      rw [hdrop]
      by_cases hb : begin = 0
      · exact vinv_drop_unknown_all hInj hv hit (hk hb)
      · have hr0 := (hv.recs (({ chunk := src, off := off } : Pos), r) (by simp)).2
        have : r.ver > 0 := by
          have : ¬ r.ver < 0 := fun e => hkeep ⟨by omega, e⟩
          simp only at hr0; omega
        exact vinv_drop_unknown_live hv hit this

end RecordStep

/-! ### one file, all files -/

theorem fitSt_head (cfg : Store.Cfg) (s : GcSt) (src : Nat) (r : Rec) (st : GcStats) :
    (fitSt cfg s src r st).b.head = s.b.head := by
  unfold fitSt
  split
  · rw [gcBegin_head, endWriting_head]
  · rfl

theorem gcRecord_head (hash : Key → Nat) (cfg : Store.Cfg) (begin src : Nat) (s : GcSt) (off : Nat) (r : Rec) :
    (gcRecord hash cfg begin src s off r).b.head = s.b.head := by
  rw [gcRecord_eq]
  split
  · rfl
  · exact fitSt_head cfg s src r _

theorem records_head (hash : Key → Nat) (cfg : Store.Cfg) (begin src : Nat) :
    ∀ (rest : List (Nat × Rec)) (s : GcSt),
      (rest.foldl (fun s (p : Nat × Rec) => gcRecord hash cfg begin src s p.1 p.2) s).b.head = s.b.head
  | [], _ => rfl
  | p :: rest, s => by
    rw [List.foldl_cons, records_head hash cfg begin src rest, gcRecord_head]

/-- the bucket after a source file has been read: the file is gone unless it is the destination -/
def clearSrc (s : GcSt) (src : Nat) : Bucket :=
  { (if src ≠ s.dst then s.b.setChunk src {} else s.b) with
      nextGC := max (if src ≠ s.dst then s.b.setChunk src {} else s.b).nextGC (src + 1) }

theorem clearSrc_head (s : GcSt) (src : Nat) : (clearSrc s src).head = s.b.head := by
  unfold clearSrc; by_cases h : src ≠ s.dst <;> simp [h, Bucket.setChunk]

theorem clearSrc_tree (s : GcSt) (src : Nat) : (clearSrc s src).tree = s.b.tree := by
  unfold clearSrc; by_cases h : src ≠ s.dst <;> simp [h, Bucket.setChunk]

theorem clearSrc_other (s : GcSt) (src : Nat) (i : Nat) (hi : i ≠ src) : (clearSrc s src).chunks i = s.b.chunks i := by
  unfold clearSrc; by_cases h : src ≠ s.dst <;> simp [h, Bucket.setChunk, hi]

theorem clearSrc_keep (s : GcSt) (src : Nat) (hd : s.dst = src) : (clearSrc s src).chunks src = s.b.chunks src := by
  unfold clearSrc
  have : ¬ src ≠ s.dst := fun e => e hd.symm
  simp [this]

theorem clearSrc_clear (s : GcSt) (src : Nat) (hd : ¬ s.dst = src) : (clearSrc s src).chunks src = {} := by
  unfold clearSrc
  have : src ≠ s.dst := fun e => hd e.symm
  simp [this, Bucket.setChunk]

theorem gcFile_eq (hash : Key → Nat) (cfg : Store.Cfg) (begin : Nat) (s : GcSt) (src : Nat) :
    gcFile hash cfg begin s src =
      if (s.b.chunks src).size = 0 then s else
        { (s.b.chunks src).recs.foldl (fun s (p : Nat × Rec) => gcRecord hash cfg begin src s p.1 p.2) s with
          b := clearSrc ((s.b.chunks src).recs.foldl (fun s (p : Nat × Rec) => gcRecord hash cfg begin src s p.1 p.2) s) src } := rfl

section FileStep
variable {hash : Key → Nat} {K : Key → Prop}

theorem records_fold {P : Key → TItem → Rec → Prop} {N : Key → Prop} (hP : ∀ k it r p', P k it r → P k { it with pos := p' } r)
    (hInj : InjOn hash K) (cfg : Store.Cfg) (begin src : Nat) :
    ∀ (rest : List (Nat × Rec)) (s : GcSt), SInv cfg s src rest → VInv hash K P N (vlog s src rest) s.b.tree →
      (begin = 0 → KnownPre hash s src) →
      SInv cfg (rest.foldl (fun s (p : Nat × Rec) => gcRecord hash cfg begin src s p.1 p.2) s) src []
      ∧ VInv hash K P N (vlog (rest.foldl (fun s (p : Nat × Rec) => gcRecord hash cfg begin src s p.1 p.2) s) src [])
          (rest.foldl (fun s (p : Nat × Rec) => gcRecord hash cfg begin src s p.1 p.2) s).b.tree
      ∧ (begin = 0 → KnownPre hash (rest.foldl (fun s (p : Nat × Rec) => gcRecord hash cfg begin src s p.1 p.2) s) src)
  | [], s, h, hv, hk => ⟨h, hv, hk⟩
  | (off, r) :: rest, s, h, hv, hk => by
    obtain ⟨h1, h2, h3⟩ := record_step hP hInj cfg begin src h hv hk
    exact records_fold hP hInj cfg begin src rest _ h1 h2 h3

/-- moving on to the next file: the source just read is empty from now on unless it is the destination -/
theorem advance {cfg : Store.Cfg} {s : GcSt} {src : Nat} (b' : Bucket) (h : SInv cfg s src []) (hlt : src < s.b.head)
    (hh : b'.head = s.b.head)
    (ho : ∀ i, i ≠ src → b'.chunks i = s.b.chunks i)
    (hs : if s.dst = src then b'.chunks src = s.b.chunks src else ((b'.chunks src).recs = [] ∧ (b'.chunks src).size = 0)) :
    SInv cfg { s with b := b' } (src + 1) (b'.chunks (src + 1)).recs
    ∧ vlog { s with b := b' } (src + 1) (b'.chunks (src + 1)).recs = vlog s src []
    ∧ preV { s with b := b' } (src + 1) = preV s src := by
  have hdle := h.dle
  have hrw : s.dst = src → s.rewriting = true := by
    intro e
    cases hr : s.rewriting with
    | true => rfl
    | false => have := h.app hr; omega
  have hchunk : ∀ i, i = s.dst → s.rewriting = false → b'.chunks i = s.b.chunks i := by
    intro i hi hr
    have := h.app hr
    exact ho i (by omega)
  have hwf : WF cfg b' := by
    refine ⟨fun i => ?_, fun i => ?_, fun i hi => ?_⟩
    · by_cases hi : i = src
      · subst hi
        by_cases hd : s.dst = i
        · simp only [hd, if_true] at hs; rw [hs]; exact h.wf.ok i
        · simp only [hd, if_false] at hs; rw [hs.1, hs.2]; simp [okFrom]
      · rw [ho i hi]; exact h.wf.ok i
    · by_cases hi : i = src
      · subst hi
        by_cases hd : s.dst = i
        · simp only [hd, if_true] at hs; rw [hs]; exact h.wf.max i
        · simp only [hd, if_false] at hs; rw [hs.2]; omega
      · rw [ho i hi]; exact h.wf.max i
    · rw [hh] at hi
      rw [ho i (by omega)]
      exact h.wf.fresh i hi
  have hvrecs : ∀ i, i < src → vrecs { s with b := b' } i = vrecs s i := by
    intro i hi
    unfold vrecs dstRecs
    by_cases hd : i = s.dst
    · simp only [hd, if_true]
      show (if s.rewriting = true then s.out else (b'.chunks s.dst).recs ++ s.out) = _
      rw [ho s.dst (by omega)]
    · simp only [hd, if_false]
      show (b'.chunks i).recs = _
      rw [ho i (by omega)]
  have hpre : preV { s with b := b' } (src + 1) = preV s src := by
    unfold preV
    have e1 : ({ s with b := b' } : GcSt).dst = s.dst := rfl
    have e2 : ¬ s.dst = src + 1 := by omega
    rw [e1]
    simp only [e2, if_false, List.append_nil]
    rw [List.range_succ, List.flatMap_append, flatMap_congr_range src _ _ (fun i hi => by rw [hvrecs i hi])]
    congr 1
    simp only [List.flatMap_cons, List.flatMap_nil, List.append_nil]
    unfold vrecs dstRecs
    rw [e1]
    by_cases hd : s.dst = src
    · have hr := hrw hd
      have : src = s.dst := hd.symm
      simp only [this, if_true]
      show tag s.dst (if s.rewriting = true then s.out else _) = _
      simp only [hr, if_true]
    · have : ¬ src = s.dst := fun e => hd e.symm
      simp only [this, hd, if_false]
      simp only [hd, if_false] at hs
      show tag src (b'.chunks src).recs = []
      rw [hs.1]; rfl
  refine ⟨⟨hwf, ?_, ?_, ?_, ?_, ?_, h.whmax, ?_, ⟨0, hwf.ok (src + 1)⟩⟩, ?_, hpre⟩
  · show src + 1 ≤ b'.head; omega
  · show s.dst ≤ src + 1; omega
  · intro hr
    have := h.app hr
    show s.dst < src + 1; omega
  · intro j h1 h2
    show (b'.chunks j).recs = [] ∧ (b'.chunks j).size = 0
    by_cases hj : j = src
    · subst hj
      have hd : ¬ s.dst = j := by
        have : s.dst < j := h1
        omega
      simpa only [hd, if_false] using hs
    · rw [ho j hj]
      exact h.between j h1 (by omega)
  · show okFrom (if s.rewriting = true then 0 else (b'.chunks s.dst).size) s.out s.wh
    cases hr : s.rewriting with
    | true => have := h.out; simpa only [hr, if_true] using this
    | false =>
      have := h.out
      simp only [hr, Bool.false_eq_true, if_false] at this ⊢
      rw [hchunk s.dst rfl hr]; exact this
  · intro e
    have : s.dst = src + 1 := e
    omega
  · -- the virtual log does not change
    unfold vlog
    have hpost : tag (src + 1) (b'.chunks (src + 1)).recs ++ postV b' (src + 1) = postV s.b src := by
      unfold postV
      rw [hh, show s.b.head - src = (s.b.head - (src + 1)) + 1 by omega, List.range'_succ, List.flatMap_cons]
      congr 1
      · rw [recsAt_eq_tag, ho (src + 1) (by omega)]
      · exact flatMap_range'_congr _ _ _ _ (fun i h1 _ => by unfold recsAt; rw [ho i (by omega)])
    rw [hpre]
    show preV s src ++ (tag (src + 1) (b'.chunks (src + 1)).recs ++ postV b' (src + 1)) = preV s src ++ (tag src [] ++ postV s.b src)
    rw [hpost]
    rfl

theorem file_step {P : Key → TItem → Rec → Prop} {N : Key → Prop} (hP : ∀ k it r p', P k it r → P k { it with pos := p' } r)
    (hInj : InjOn hash K) (cfg : Store.Cfg) (begin src : Nat) {s : GcSt}
    (h : SInv cfg s src (s.b.chunks src).recs) (hlt : src < s.b.head)
    (hv : VInv hash K P N (vlog s src (s.b.chunks src).recs) s.b.tree)
    (hk : begin = 0 → KnownPre hash s src) :
    SInv cfg (gcFile hash cfg begin s src) (src + 1) ((gcFile hash cfg begin s src).b.chunks (src + 1)).recs
    ∧ VInv hash K P N (vlog (gcFile hash cfg begin s src) (src + 1) ((gcFile hash cfg begin s src).b.chunks (src + 1)).recs)
        (gcFile hash cfg begin s src).b.tree
    ∧ (begin = 0 → KnownPre hash (gcFile hash cfg begin s src) (src + 1))
    ∧ (gcFile hash cfg begin s src).b.head = s.b.head
    ∧ (gcFile hash cfg begin s src).dst ≤ src := by
  rw [gcFile_eq]
  by_cases hz : (s.b.chunks src).size = 0
  · rw [if_pos hz]
    have hnil : (s.b.chunks src).recs = [] := by
      have := h.wf.ok src
      rw [hz] at this
      exact okFrom_nil_of_zero this
    rw [hnil] at h hv
    have hs : if s.dst = src then s.b.chunks src = s.b.chunks src else ((s.b.chunks src).recs = [] ∧ (s.b.chunks src).size = 0) := by
      split
      · rfl
      · exact ⟨hnil, hz⟩
    obtain ⟨a1, a2, a3⟩ := advance s.b h hlt rfl (fun i _ => rfl) hs
    refine ⟨a1, ?_, ?_, rfl, h.dle⟩
    · have e : vlog s (src + 1) (s.b.chunks (src + 1)).recs = vlog s src [] := a2
      rw [e]; exact hv
    · intro hb y hy
      have e : preV s (src + 1) = preV s src := a3
      rw [e] at hy
      exact hk hb y hy
  · rw [if_neg hz]
    obtain ⟨r1, r2, r3⟩ := records_fold hP hInj cfg begin src _ s h hv hk
    have rh := records_head hash cfg begin src (s.b.chunks src).recs s
    generalize (s.b.chunks src).recs.foldl (fun s (p : Nat × Rec) => gcRecord hash cfg begin src s p.1 p.2) s = s' at r1 r2 r3 rh
    have hlt' : src < s'.b.head := by rw [rh]; exact hlt
    have hs : if s'.dst = src then (clearSrc s' src).chunks src = s'.b.chunks src
        else (((clearSrc s' src).chunks src).recs = [] ∧ ((clearSrc s' src).chunks src).size = 0) := by
      by_cases hd : s'.dst = src
      · rw [if_pos hd]; exact clearSrc_keep s' src hd
      · rw [if_neg hd, clearSrc_clear s' src hd]; exact ⟨rfl, rfl⟩
    obtain ⟨a1, a2, a3⟩ := advance (clearSrc s' src) r1 hlt' (clearSrc_head s' src) (clearSrc_other s' src) hs
    refine ⟨a1, ?_, ?_, by rw [← rh]; exact clearSrc_head s' src, r1.dle⟩
    · rw [a2]
      show VInv hash K P N (vlog s' src []) (clearSrc s' src).tree
      rw [clearSrc_tree]; exact r2
    · intro hb y hy
      rw [a3] at hy
      show AMap.get (clearSrc s' src).tree _ ≠ none
      rw [clearSrc_tree]
      exact r3 hb y hy

end FileStep

/-! ### the whole pass -/

theorem gcDst_go_spec (cfg : Store.Cfg) (b : Bucket) (start : Nat) :
    ∀ (fuel i : Nat), i < start → (∀ j, i < j → j < start → (b.chunks j).size = 0) →
      gcDst.go cfg b start fuel i ≤ start
      ∧ ∀ j, gcDst.go cfg b start fuel i < j → j < start → (b.chunks j).size = 0
  | 0, i, hi, hb => by
    unfold gcDst.go
    exact ⟨Nat.le_refl _, fun j h1 h2 => by omega⟩
  | f + 1, i, hi, hb => by
    unfold gcDst.go
    simp only
    by_cases hsz : (b.chunks i).size > 0
    · simp only [hsz, if_true]
      split
      · exact ⟨by omega, hb⟩
      · split
        · exact ⟨by omega, fun j h1 h2 => hb j (by omega) h2⟩
        · exact ⟨Nat.le_refl _, fun j h1 h2 => by omega⟩
    · simp only [hsz, if_false]
      split
      · exact ⟨Nat.le_refl _, fun j h1 h2 => by omega⟩
      · rename_i hi0
        apply gcDst_go_spec cfg b start f (i - 1) (by omega)
        intro j h1 h2
        by_cases hj : j = i
        · subst hj; omega
        · exact hb j (by omega) h2

theorem gcDst_spec (cfg : Store.Cfg) (b : Bucket) (start : Nat) :
    gcDst cfg b start ≤ start ∧ ∀ j, gcDst cfg b start < j → j < start → (b.chunks j).size = 0 := by
  unfold gcDst
  by_cases h0 : start = 0
  · simp only [h0, if_true]
    exact ⟨Nat.le_refl _, fun j h1 h2 => by omega⟩
  · simp only [h0, if_false]
    exact gcDst_go_spec cfg b start start (start - 1) (by omega) (fun j h1 h2 => by omega)

theorem WF.nil_of_size {cfg : Store.Cfg} {b : Bucket} (w : WF cfg b) {i : Nat} (h : (b.chunks i).size = 0) :
    (b.chunks i).recs = [] := by
  have := w.ok i
  rw [h] at this
  exact okFrom_nil_of_zero this

/-- the state in which the pass starts describes the bucket as it is -/
theorem start_spec {cfg : Store.Cfg} {b : Bucket} (w : WF cfg b) (begin : Nat) (hb : begin ≤ b.head) (st : GcStats) :
    SInv cfg (gcBegin b (gcDst cfg b begin) begin st) begin ((gcBegin b (gcDst cfg b begin) begin st).b.chunks begin).recs
    ∧ vlog (gcBegin b (gcDst cfg b begin) begin st) begin ((gcBegin b (gcDst cfg b begin) begin st).b.chunks begin).recs = b.log
    ∧ preV (gcBegin b (gcDst cfg b begin) begin st) begin = (List.range begin).flatMap (recsAt b) := by
  obtain ⟨hd1, hd2⟩ := gcDst_spec cfg b begin
  generalize gcDst cfg b begin = d at hd1 hd2
  have hpre : preV (gcBegin b d begin st) begin = (List.range begin).flatMap (recsAt b) := by
    unfold preV
    rw [gcBegin_dst, gcBegin_out]
    have : (if d = begin then tag begin ([] : List (Nat × Rec)) else []) = [] := by split <;> rfl
    rw [this, List.append_nil]
    apply flatMap_congr_range
    intro i hi
    unfold vrecs dstRecs
    rw [gcBegin_dst, gcBegin_out, gcBegin_rewriting, gcBegin_recs, recsAt_eq_tag]
    by_cases hid : i = d
    · have : ¬ d = begin := by omega
      simp [hid, this, gcBegin_recs]
    · simp [hid, gcBegin_recs]
  refine ⟨⟨gcBegin_wf w _ _ _, ?_, ?_, ?_, ?_, ?_, ?_, ?_, ⟨0, (gcBegin_wf w _ _ _).ok begin⟩⟩, ?_, hpre⟩
  · rw [gcBegin_head]; exact hb
  · rw [gcBegin_dst]; exact hd1
  · intro hr
    rw [gcBegin_rewriting] at hr
    rw [gcBegin_dst]
    have : ¬ d = begin := by simpa using hr
    omega
  · intro j h1 h2
    rw [gcBegin_dst] at h1
    rw [gcBegin_recs, gcBegin_size]
    exact ⟨w.nil_of_size (hd2 j h1 h2), hd2 j h1 h2⟩
  · rw [gcBegin_out, gcBegin_wh, gcBegin_rewriting, gcBegin_dst, gcBegin_size]
    by_cases hdb : d = begin
    · simp [hdb, okFrom]
    · simp [hdb, okFrom]
  · rw [gcBegin_wh]
    split
    · omega
    · exact w.max d
  · intro e p _
    rw [gcBegin_dst] at e
    rw [gcBegin_wh]
    simp [e]
  · unfold vlog
    rw [hpre, log_split b begin hb]
    congr 1
    congr 1
    · rw [recsAt_eq_tag, gcBegin_recs]
    · apply postV_congr (gcBegin_head _ _ _ _)
      intro i _
      exact gcBegin_recs _ _ _ _ _

section Pass
variable {hash : Key → Nat} {K : Key → Prop}

theorem files_fold {P : Key → TItem → Rec → Prop} {N : Key → Prop} (hP : ∀ k it r p', P k it r → P k { it with pos := p' } r)
    (hInj : InjOn hash K) (cfg : Store.Cfg) (begin : Nat) (s0 : GcSt) :
    ∀ n, begin + n ≤ s0.b.head →
      SInv cfg s0 begin (s0.b.chunks begin).recs → VInv hash K P N (vlog s0 begin (s0.b.chunks begin).recs) s0.b.tree →
      (begin = 0 → KnownPre hash s0 begin) →
      SInv cfg ((List.range n).foldl (fun s i => gcFile hash cfg begin s (begin + i)) s0) (begin + n)
          (((List.range n).foldl (fun s i => gcFile hash cfg begin s (begin + i)) s0).b.chunks (begin + n)).recs
      ∧ VInv hash K P N (vlog ((List.range n).foldl (fun s i => gcFile hash cfg begin s (begin + i)) s0) (begin + n)
          (((List.range n).foldl (fun s i => gcFile hash cfg begin s (begin + i)) s0).b.chunks (begin + n)).recs)
          ((List.range n).foldl (fun s i => gcFile hash cfg begin s (begin + i)) s0).b.tree
      ∧ (begin = 0 → KnownPre hash ((List.range n).foldl (fun s i => gcFile hash cfg begin s (begin + i)) s0) (begin + n))
      ∧ ((List.range n).foldl (fun s i => gcFile hash cfg begin s (begin + i)) s0).b.head = s0.b.head
      ∧ (0 < n → ((List.range n).foldl (fun s i => gcFile hash cfg begin s (begin + i)) s0).dst < begin + n)
  | 0, _, h, hv, hk => ⟨h, hv, hk, rfl, fun h0 => by omega⟩
  | n + 1, hn, h, hv, hk => by
    obtain ⟨i1, i2, i3, i4, _⟩ := files_fold hP hInj cfg begin s0 n (by omega) h hv hk
    rw [List.range_succ, List.foldl_append]
    simp only [List.foldl_cons, List.foldl_nil]
    generalize (List.range n).foldl (fun s i => gcFile hash cfg begin s (begin + i)) s0 = s at i1 i2 i3 i4
    obtain ⟨f1, f2, f3, f4, f5⟩ := file_step hP hInj cfg begin (begin + n) i1 (by rw [i4]; omega) i2 i3
    exact ⟨f1, f2, f3, by rw [f4, i4], fun _ => by show _ < begin + n + 1; omega⟩

/-- the end of writing turns the virtual log into the real one -/
theorem finish_spec {cfg : Store.Cfg} {s : GcSt} {src : Nat} (h : SInv cfg s src (s.b.chunks src).recs) (hd : s.dst < src) :
    WF cfg s.endWriting ∧ s.endWriting.log = vlog s src (s.b.chunks src).recs := by
  refine ⟨endWriting_wf h, ?_⟩
  have hrec : ∀ i, recsAt s.endWriting i = tag i (vrecs s i) := by
    intro i
    rw [recsAt_eq_tag]
    unfold vrecs
    by_cases hi : i = s.dst
    · subst hi; simp only [if_true]; rw [endWriting_recs]
    · simp only [hi, if_false]; rw [endWriting_other s i hi]
  rw [log_split s.endWriting src (by rw [endWriting_head]; exact h.hsrc)]
  unfold vlog preV
  have : ¬ s.dst = src := by omega
  simp only [this, if_false, List.append_nil]
  congr 1
  · exact flatMap_congr_range src _ _ (fun i _ => hrec i)
  · congr 1
    · rw [recsAt_eq_tag, endWriting_other s src (by omega)]
    · unfold postV
      rw [endWriting_head]
      exact flatMap_range'_congr _ _ _ _ (fun i h1 _ => by
        unfold recsAt; rw [endWriting_other s i (by omega)])

theorem gcRun_eq (hash : Key → Nat) (cfg : Store.Cfg) (b : Bucket) (begin stop : Nat) :
    (gcRun hash cfg b begin stop).1 =
      ((List.range (stop + 1 - begin)).foldl (fun s i => gcFile hash cfg begin s (begin + i))
        (gcBegin b (gcDst cfg b begin) begin {})).endWriting := rfl

/-- THE PASS: from a well-formed bucket whose tree describes the last record of every key, `gcRun` over any range
    below the head leaves a well-formed bucket whose tree again describes the last record of every key, with the same
    `P` facts (content of the record, version, agreement with the reference) -/
theorem gcRun_vinv {P : Key → TItem → Rec → Prop} {N : Key → Prop} (hP : ∀ k it r p', P k it r → P k { it with pos := p' } r)
    (hInj : InjOn hash K) (cfg : Store.Cfg) {b : Bucket} (w : WF cfg b) (begin stop : Nat) (hbs : begin ≤ stop)
    (hs : stop < b.head) (hv : VInv hash K P N b.log b.tree) :
    WF cfg (gcRun hash cfg b begin stop).1
    ∧ VInv hash K P N (gcRun hash cfg b begin stop).1.log (gcRun hash cfg b begin stop).1.tree
    ∧ (gcRun hash cfg b begin stop).1.head = b.head := by
  rw [gcRun_eq]
  obtain ⟨s1, s2, s3⟩ := start_spec w begin (by omega) {}
  generalize hs0 : gcBegin b (gcDst cfg b begin) begin {} = s0 at s1 s2 s3
  have ht0 : s0.b.tree = b.tree := by rw [← hs0, gcBegin_tree]
  have hh0 : s0.b.head = b.head := by rw [← hs0, gcBegin_head]
  have hk0 : begin = 0 → KnownPre hash s0 begin := by
    intro hb y hy
    rw [s3, hb] at hy
    simp at hy
  obtain ⟨f1, f2, f3, f4, f5⟩ := files_fold hP hInj cfg begin s0 (stop + 1 - begin) (by rw [hh0]; omega) s1
    (by rw [s2, ht0]; exact hv) hk0
  generalize (List.range (stop + 1 - begin)).foldl (fun s i => gcFile hash cfg begin s (begin + i)) s0 = s at f1 f2 f3 f4 f5
  obtain ⟨e1, e2⟩ := finish_spec f1 (f5 (by omega))
  refine ⟨e1, ?_, by rw [endWriting_head, f4, hh0]⟩
  rw [e2, endWriting_tree]
  exact f2

end Pass

end StoreLemmas
