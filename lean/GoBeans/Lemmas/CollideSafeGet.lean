/-
  C13 (b): the read path under the invariant — `Bucket.get` returns the last record of the key, and a read through a
  slot owned by another key enters both keys into the collision table with their exact positions.
-/
import GoBeans.Lemmas.CollideSafe
set_option linter.unusedSimpArgs false
set_option linter.unusedVariables false
namespace CollideLemmas
open Store Spec HintIndex Collide StoreLemmas HintBufferLemmas

section
variable (hash : Key → Nat)

theorem lastOf_facts {cfg : Collide.Cfg} {st : State} {t : Trk} {n : Nat} (inv : SInv hash cfg st t n) {k : Key} {p : Pos} {r : Rec}
    (h : lastOf k st.b.log = some (p, r)) :
    st.b.readAt p = some r ∧ r.key = k ∧ (p.off, r) ∈ (st.b.chunks p.chunk).recs ∧ p.chunk ≤ st.b.head
    ∧ lastIn k (st.b.chunks p.chunk).recs = some (p.off, r) := by
  rw [lastOf_log] at h
  obtain ⟨h1, h2⟩ := lastDown_some h
  obtain ⟨h3, h4⟩ := lastIn_mem h2
  exact ⟨inv.ra _ _ _ h3, h4, h3, by omega, h2⟩

/-- `hintMgr.getItem` against the last record of the key -/
def GI (k : Key) : Option (Item × Nat) → Option (Pos × Rec) → Prop
  | none, none => True
  | some x, some y => x.2 = y.1.chunk ∧ x.1.off = y.1.off ∧ x.1.ver = y.2.ver ∧ x.1.key = k ∧ x.1.khash = hash k
  | _, _ => False

theorem getItemGo_spec {cfg : Collide.Cfg} {st : State} {t : Trk} {n : Nat} (inv : SInv hash cfg st t n) (hid : Nat) (k : Key) (m : Nat) :
    GI hash k (getItemGo st.hs hid (hash k) k m) (lastDown st.b k m) := by
  induction m with
  | zero => exact True.intro
  | succ i ih =>
    rw [lastDown_succ]
    unfold getItemGo
    have hm : (if i ≤ hid then st.hs.merged else none) = none := by rw [inv.hmerged]; simp
    rw [hm]
    simp only
    have hx := inv.hex i k
    cases hg : (st.hs.chunks i).get (hash k) k with
    | none =>
      rw [hg] at hx
      cases hl : lastIn k (st.b.chunks i).recs with
      | none => simp only; exact ih
      | some p => rw [hl] at hx; exact hx.elim
    | some it =>
      rw [hg] at hx
      cases hl : lastIn k (st.b.chunks i).recs with
      | none => rw [hl] at hx; exact hx.elim
      | some p =>
        rw [hl] at hx
        obtain ⟨a, b, c, d⟩ := hx
        exact ⟨rfl, a, b, c, d⟩

theorem getItem_spec {cfg : Collide.Cfg} {st : State} {t : Trk} {n : Nat} (inv : SInv hash cfg st t n) (hid : Nat) (k : Key) :
    GI hash k (st.hs.getItem hid (hash k) k) (lastOf k st.b.log) := by
  unfold Hints.getItem
  have h1 := getItemGo_spec hash inv hid k (st.hs.maxChunk + 1)
  have e1 : lastDown st.b k (st.hs.maxChunk + 1) = lastDown st.b k (max st.hs.maxChunk st.b.head + 1) := by
    symm
    apply lastDown_extend _ _ _ _ (by omega)
    intro c hc
    cases hr : (st.b.chunks c).recs with
    | nil => rfl
    | cons x xs =>
      have := inv.hmax c (by rw [hr]; simp)
      omega
  have e2 : lastOf k st.b.log = lastDown st.b k (max st.hs.maxChunk st.b.head + 1) := by
    rw [lastOf_log]
    symm
    apply lastDown_extend _ _ _ _ (by omega)
    intro c hc
    exact (inv.pos.fresh c (by omega)).1
  rw [e2, ← e1]
  exact h1


theorem memMeta_eq (st : State) (k : Key) :
    st.memMeta hash k = (match tget st.ct (hash k) k with
      | some it => some { pos := { chunk := it.chunk, off := it.off }, ver := it.ver, vhash := it.vhash }
      | none => AMap.get st.b.tree (hash k)) := by
  unfold State.memMeta
  rw [ctGet_eq]
  rfl

theorem afterGet_reg (t : Trk) (k : Key) (h : k ∈ t.reg) : t.afterGet hash k = t := by
  unfold Trk.afterGet
  rw [if_neg (fun c => c.2 h)]

theorem afterGet_unwritten (t : Trk) (k : Key) (h : k ∉ t.written) : t.afterGet hash k = t := by
  unfold Trk.afterGet
  rw [if_neg (fun c => h c.1)]

theorem not_reg_of_tget_none {cfg : Collide.Cfg} {st : State} {t : Trk} {n : Nat} (inv : SInv hash cfg st t n) {k : Key}
    (h : tget st.ct (hash k) k = none) : k ∉ t.reg := by
  intro hk
  have := inv.tabc k hk
  rw [h] at this; simp at this

/-- the state after a read that entered the slot's key `o` and the wanted key `k` into the collision table -/
theorem detect_inv {cfg : Collide.Cfg} {st : State} {t : Trk} {n : Nat} (inv : SInv hash cfg st t n)
    (k o : Key) (i1 i2 : Item)
    (h1 : i1.key = o ∧ i1.khash = hash o ∧ ∃ r, lastOf o st.b.log = some (⟨i1.chunk, i1.off⟩, r) ∧ i1.ver = r.ver)
    (h2 : i2.key = k ∧ i2.khash = hash k ∧ ∃ r, lastOf k st.b.log = some (⟨i2.chunk, i2.off⟩, r) ∧ i2.ver = r.ver) :
    SInv hash cfg { st with ct := (st.ct.compareAndSet i1 false).compareAndSet i2 false } { t with reg := k :: o :: t.reg } n := by
  obtain ⟨a1, a2, a3⟩ := cas_spec st.ct i1 false
  obtain ⟨b1, b2, b3⟩ := cas_spec (st.ct.compareAndSet i1 false) i2 false
  -- every entry of the new table is exact
  have exact1 : ∀ h k' it, tget (st.ct.compareAndSet i1 false) h k' = some it →
      hash k' = h ∧ (k' ∈ t.reg ∨ k' = o) ∧ it.key = k' ∧ it.khash = h ∧ ∃ r, lastOf k' st.b.log = some (⟨it.chunk, it.off⟩, r) ∧ it.ver = r.ver := by
    intro h k' it hg
    by_cases hc : h = i1.khash ∧ k' = i1.key
    · obtain ⟨hh, hk'⟩ := hc
      subst hh; subst hk'
      rcases a1 with e | ⟨old, e0, e, _, _⟩
      · rw [e] at hg; cases hg
        obtain ⟨c1, c2, r, c3, c4⟩ := h1
        rw [c1]
        exact ⟨c2.symm, Or.inr rfl, rfl, rfl, r, c3, c4⟩
      · rw [e] at hg; cases hg
        obtain ⟨d1, d2, d3, d4, d5⟩ := inv.tab _ _ _ e0
        exact ⟨d1, Or.inl d2, d3, d4, d5⟩
    · rw [a2 h k' hc] at hg
      obtain ⟨d1, d2, d3, d4, d5⟩ := inv.tab _ _ _ hg
      exact ⟨d1, Or.inl d2, d3, d4, d5⟩
  have exact2 : ∀ h k' it, tget ((st.ct.compareAndSet i1 false).compareAndSet i2 false) h k' = some it →
      hash k' = h ∧ k' ∈ (k :: o :: t.reg) ∧ it.key = k' ∧ it.khash = h ∧ ∃ r, lastOf k' st.b.log = some (⟨it.chunk, it.off⟩, r) ∧ it.ver = r.ver := by
    intro h k' it hg
    by_cases hc : h = i2.khash ∧ k' = i2.key
    · obtain ⟨hh, hk'⟩ := hc
      subst hh; subst hk'
      rcases b1 with e | ⟨old, e0, e, _, _⟩
      · rw [e] at hg; cases hg
        obtain ⟨c1, c2, r, c3, c4⟩ := h2
        rw [c1]
        exact ⟨c2.symm, by simp, rfl, rfl, r, c3, c4⟩
      · rw [e] at hg; cases hg
        obtain ⟨d1, d2, d3, d4, d5⟩ := exact1 _ _ _ e0
        refine ⟨d1, ?_, d3, d4, d5⟩
        rcases d2 with d2 | d2
        · simp [d2]
        · simp [d2]
    · rw [b2 h k' hc] at hg
      obtain ⟨d1, d2, d3, d4, d5⟩ := exact1 _ _ _ hg
      refine ⟨d1, ?_, d3, d4, d5⟩
      rcases d2 with d2 | d2
      · simp [d2]
      · simp [d2]
  -- and every key of the new list has an entry
  have some1 : ∀ h k', (tget st.ct h k').isSome = true → (tget (st.ct.compareAndSet i1 false) h k').isSome = true := by
    intro h k' hs
    by_cases hc : h = i1.khash ∧ k' = i1.key
    · obtain ⟨hh, hk'⟩ := hc
      subst hh; subst hk'
      rcases a1 with e | ⟨old, _, e, _, _⟩ <;> rw [e] <;> rfl
    · rw [a2 h k' hc]; exact hs
  have some2 : ∀ h k', (tget (st.ct.compareAndSet i1 false) h k').isSome = true →
      (tget ((st.ct.compareAndSet i1 false).compareAndSet i2 false) h k').isSome = true := by
    intro h k' hs
    by_cases hc : h = i2.khash ∧ k' = i2.key
    · obtain ⟨hh, hk'⟩ := hc
      subst hh; subst hk'
      rcases b1 with e | ⟨old, _, e, _, _⟩ <;> rw [e] <;> rfl
    · rw [b2 h k' hc]; exact hs
  have so : (tget (st.ct.compareAndSet i1 false) (hash o) o).isSome = true := by
    have e1 : i1.khash = hash o := h1.2.1
    have e2 : i1.key = o := h1.1
    rw [← e1, ← e2]
    rcases a1 with e | ⟨old, _, e, _, _⟩ <;> rw [e] <;> rfl
  have sk : (tget ((st.ct.compareAndSet i1 false).compareAndSet i2 false) (hash k) k).isSome = true := by
    have e1 : i2.khash = hash k := h2.2.1
    have e2 : i2.key = k := h2.1
    rw [← e1, ← e2]
    rcases b1 with e | ⟨old, _, e, _, _⟩ <;> rw [e] <;> rfl
  refine { pos := inv.pos, ra := inv.ra, ob := inv.ob, spec := inv.spec, wr := inv.wr, vers := inv.vers,
           tab := exact2, tabc := ?_, tabne := ?_, slot := inv.slot, own := inv.own, hgood := inv.hgood,
           hmerged := inv.hmerged, hex := inv.hex, hmax := inv.hmax }
  · intro k' hk'
    simp only [List.mem_cons] at hk'
    rcases hk' with rfl | rfl | hk'
    · exact sk
    · exact some2 _ _ so
    · exact some2 _ _ (some1 _ _ (inv.tabc k' hk'))
  · intro h hh
    show ∃ k' it, tget ((st.ct.compareAndSet i1 false).compareAndSet i2 false) h k' = some it
    rw [b3, a3] at hh
    simp only [Bool.or_eq_true, decide_eq_true_eq] at hh
    rcases hh with (hh | hh) | hh
    · obtain ⟨k', it, e⟩ := inv.tabne h hh
      have := some2 h k' (some1 h k' (by rw [e]; rfl))
      cases e' : tget ((st.ct.compareAndSet i1 false).compareAndSet i2 false) h k' with
      | none => rw [e'] at this; simp at this
      | some it' => exact ⟨k', it', e'⟩
    · subst hh
      have := some2 i1.khash i1.key (by rcases a1 with e | ⟨old, _, e, _, _⟩ <;> rw [e] <;> rfl)
      cases e' : tget ((st.ct.compareAndSet i1 false).compareAndSet i2 false) i1.khash i1.key with
      | none => rw [e'] at this; simp at this
      | some it' => exact ⟨_, it', e'⟩
    · subst hh
      rcases b1 with e | ⟨old, _, e, _, _⟩
      · exact ⟨_, _, e⟩
      · exact ⟨_, _, e⟩

end
end CollideLemmas
