/-
  Explicit forms of `trydump` and `hintMgr.setItem` on hint chunks whose closed splits are all written (`CkGood`),
  and what they do to the items held, to `datasize` / `maxoffset`, and to `maxDumpedHintID` — the bookkeeping a
  restart depends on.
-/
import GoBeans.Lemmas.CollideHints
set_option linter.unusedSimpArgs false
set_option linter.unusedVariables false
namespace CollideLemmas
open Store Spec HintIndex Collide HintBufferLemmas HintLoadLemmas HintIndexLemmas

theorem map_dumpIf_files {old : List HSplit} (h : AllFiles old) : old.map dumpIf = old := by
  induction old with
  | nil => rfl
  | cons sp rest ih =>
    simp only [List.map_cons]
    rw [dumpIf_file (h sp (by simp)), ih (fun s hs => h s (by simp [hs]))]

theorem dumpOldGo_files (c : Nat) (old : List HSplit) (h : AllFiles old) : ∀ (j : Nat) (md : Nat × Int), (dumpOldGo c j old md).2 = md := by
  induction old with
  | nil => intro j md; rfl
  | cons sp rest ih =>
    intro j md
    unfold dumpOldGo
    obtain ⟨_, f, hf, _⟩ := h sp (by simp)
    have hn : sp.needDump = false := by unfold HSplit.needDump; rw [hf]; rfl
    simp only [hn, Bool.false_eq_true, if_false]
    exact ih (fun s hs => h s (by simp [hs])) (j + 1) md

/-- does `trydump(c, dumplast)` close and write the newest split -/
def dumpsLast (hs : Hints) (c : Nat) (dl : Bool) : Bool := !((!dl && c == hs.maxChunk) || (hs.chunks c).last.items.isEmpty)

theorem trydump_form (hs : Hints) (c : Nat) (dl : Bool) (g : CkGood (hs.chunks c)) :
    hs.trydump c dl =
      if dumpsLast hs c dl then
        { hs.setCk c { old := (hs.chunks c).old ++ [{ buf := none, file := some (hs.chunks c).last.dump }], last := {} } with
          maxDumped := setIfLarger hs.maxDumped c (hs.chunks c).old.length }
      else { hs.setCk c (hs.chunks c) with maxDumped := hs.maxDumped } := by
  unfold Hints.trydump dumpsLast
  simp only
  have e1 := dumpOldGo_fst c (hs.chunks c).old 0 hs.maxDumped
  have e2 := dumpOldGo_files c (hs.chunks c).old g.files 0 hs.maxDumped
  rw [map_dumpIf_files g.files] at e1
  by_cases hc : ((!dl && c == hs.maxChunk) || (hs.chunks c).last.items.isEmpty) = true
  · rw [if_pos hc, e1, e2]
    simp [hc]
  · rw [if_neg hc, e1, e2]
    have : ((!dl && c == hs.maxChunk) || (hs.chunks c).last.items.isEmpty) = false := by
      cases h : ((!dl && c == hs.maxChunk) || (hs.chunks c).last.items.isEmpty) with
      | true => exact absurd h hc
      | false => rfl
    simp [this]

theorem setCk_self (hs : Hints) (c : Nat) : (hs.setCk c (hs.chunks c)).chunks = hs.chunks := by
  funext j
  rw [setCk_chunks]
  by_cases h : j = c
  · rw [if_pos h, h]
  · rw [if_neg h]

/-- any item held by the chunk: in the newest buffer or in a closed split -/
def InCk (ck : HCk) (x : Item) : Prop := x ∈ ck.last.items ∨ ∃ sp ∈ ck.old, x ∈ spItems sp

theorem isLarger_trans (a : Nat × Int) (b : Nat × Int) (ck : Nat) (sp : Int) (h1 : isLarger a b.1 b.2 = true) (h2 : isLarger b ck sp = true) :
    isLarger a ck sp = true := by
  unfold isLarger at *
  simp only [Bool.or_eq_true, Bool.and_eq_true, decide_eq_true_eq] at *
  omega

theorem isLarger_setIfLarger (a b : Nat × Int) (ck : Nat) (sp : Int) (h : isLarger a b.1 b.2 = true) :
    isLarger a (setIfLarger b ck sp).1 (setIfLarger b ck sp).2 = true := by
  unfold setIfLarger
  by_cases hl : isLarger b ck sp = true
  · rw [if_pos hl]; exact isLarger_trans a b ck sp h hl
  · rw [if_neg hl]; exact h

/-- what `trydump` guarantees on a chunk in `CkGood` form -/
theorem trydump_r (hs : Hints) (c : Nat) (dl : Bool) (g : CkGood (hs.chunks c)) :
    (∀ x, InCk ((hs.trydump c dl).chunks c) x ↔ InCk (hs.chunks c) x)
    ∧ (∀ a, isLarger a hs.maxDumped.1 hs.maxDumped.2 = true → isLarger a (hs.trydump c dl).maxDumped.1 (hs.trydump c dl).maxDumped.2 = true)
    ∧ (dl = true → ((hs.trydump c dl).chunks c).last.items = [])
    ∧ ((hs.chunks c).last.items = [] → ((hs.trydump c dl).chunks c).last.items = [])
    ∧ (∀ sz, (∀ sp ∈ (hs.chunks c).old, ∀ f, sp.file = some f → f.datasize ≤ sz) → (hs.chunks c).last.maxoffset ≤ sz →
         (∀ sp ∈ ((hs.trydump c dl).chunks c).old, ∀ f, sp.file = some f → f.datasize ≤ sz) ∧ ((hs.trydump c dl).chunks c).last.maxoffset ≤ sz)
    ∧ (∀ sz, ((∃ sp ∈ (hs.chunks c).old, ∃ f, sp.file = some f ∧ f.datasize = sz) ∨ ((hs.chunks c).last.items ≠ [] ∧ (hs.chunks c).last.maxoffset = sz)) →
         ((∃ sp ∈ ((hs.trydump c dl).chunks c).old, ∃ f, sp.file = some f ∧ f.datasize = sz)
           ∨ (((hs.trydump c dl).chunks c).last.items ≠ [] ∧ ((hs.trydump c dl).chunks c).last.maxoffset = sz))) := by
  rw [trydump_form hs c dl g]
  by_cases hd : dumpsLast hs c dl = true
  · rw [if_pos hd]
    have hne : (hs.chunks c).last.items ≠ [] := by
      unfold dumpsLast at hd
      intro he; rw [he] at hd; simp at hd
    simp only [setCk_chunks, if_true]
    refine ⟨?_, fun a ha => isLarger_setIfLarger a _ _ _ ha, fun _ => (by first | rfl | trivial), fun h => absurd h hne, ?_, ?_⟩
    · intro x
      unfold InCk
      simp only [List.mem_append, List.mem_singleton]
      constructor
      · rintro (h | ⟨sp, hsp, hx⟩)
        · cases h
        · rcases hsp with hsp | hsp
          · exact Or.inr ⟨sp, hsp, hx⟩
          · subst hsp
            have : x ∈ sortItems (hs.chunks c).last.items := hx
            exact Or.inl ((sortItems_perm _).subset this)
      · rintro (h | ⟨sp, hsp, hx⟩)
        · refine Or.inr ⟨_, Or.inr rfl, ?_⟩
          show x ∈ sortItems (hs.chunks c).last.items
          exact (sortItems_perm _).symm.subset h
        · exact Or.inr ⟨sp, Or.inl hsp, hx⟩
    · intro sz h1 h2
      refine ⟨?_, Nat.zero_le _⟩
      intro sp hsp f hf
      rw [List.mem_append] at hsp
      rcases hsp with hsp | hsp
      · exact h1 sp hsp f hf
      · simp only [List.mem_singleton] at hsp; subst hsp
        simp only [Option.some.injEq] at hf; subst hf
        exact h2
    · intro sz h
      left
      rcases h with ⟨sp, hsp, f, hf, hd'⟩ | ⟨_, hm⟩
      · exact ⟨sp, by simp [hsp], f, hf, hd'⟩
      · exact ⟨({ buf := none, file := some (hs.chunks c).last.dump } : HSplit), by simp, (hs.chunks c).last.dump, rfl, hm⟩
  · rw [if_neg hd]
    simp only [setCk_chunks, if_true]
    refine ⟨fun x => (by first | exact Iff.rfl | trivial), fun a ha => ha, ?_, fun h => h, fun sz h1 h2 => ⟨h1, h2⟩, fun sz h => h⟩
    intro hdl
    subst hdl
    unfold dumpsLast at hd
    simp only [Bool.not_true, Bool.false_and, Bool.false_or, Bool.not_eq_true', Bool.not_eq_false] at hd
    exact List.isEmpty_iff.mp hd

theorem dumpOldGo_snoc (c : Nat) (old : List HSplit) (h : AllFiles old) (sp : HSplit) (hn : sp.needDump = true) :
    ∀ (j : Nat) (md : Nat × Int), dumpOldGo c j (old ++ [sp]) md = (old ++ [sp.dumped], setIfLarger md c (j + old.length)) := by
  induction old with
  | nil =>
    intro j md
    simp only [List.nil_append, List.length_nil, Nat.add_zero]
    unfold dumpOldGo
    simp only [hn, if_true]
    unfold dumpOldGo
    rfl
  | cons s0 rest ih =>
    intro j md
    obtain ⟨_, f, hf, _⟩ := h s0 (by simp)
    have hn0 : s0.needDump = false := by unfold HSplit.needDump; rw [hf]; rfl
    simp only [List.cons_append]
    unfold dumpOldGo
    simp only [hn0, Bool.false_eq_true, if_false]
    rw [ih (fun s hs => h s (by simp [hs])) (j + 1) md]
    simp only [List.length_cons]
    have : ((j + 1 : Nat) : Int) + (rest.length : Int) = (j : Int) + ((rest.length + 1 : Nat) : Int) := by omega
    rw [this]

/-- the chunk after a REFUSED `Set`: the full buffer is closed and written, the item sits alone in a fresh buffer — which is
    written at once too unless the chunk is `maxChunkID` -/
theorem setItem_refused_form (cap : Nat) (hs : Hints) (it : Item) (c : Nat) (sz : Nat) (g : CkGood (hs.chunks c))
    (hne : ((hs.chunks c).last.set cap it sz).1.items ≠ []) (ha : ((hs.chunks c).last.set cap it sz).2 = false) :
    (hs.setItem cap it c sz).1.chunks c =
      (if (c == hs.maxChunk) || (({} : Buf).set cap it sz).1.items.isEmpty then
        { old := (hs.chunks c).old ++ [{ buf := none, file := some ((hs.chunks c).last.set cap it sz).1.dump }],
          last := (({} : Buf).set cap it sz).1 }
       else
        { old := (hs.chunks c).old ++ [{ buf := none, file := some ((hs.chunks c).last.set cap it sz).1.dump }]
                  ++ [{ buf := none, file := some (({} : Buf).set cap it sz).1.dump }],
          last := {} })
    ∧ (∀ j, j ≠ c → (hs.setItem cap it c sz).1.chunks j = hs.chunks j)
    ∧ (∀ a, isLarger a hs.maxDumped.1 hs.maxDumped.2 = true →
          isLarger a (hs.setItem cap it c sz).1.maxDumped.1 (hs.setItem cap it c sz).1.maxDumped.2 = true) := by
  unfold Hints.setItem HCk.setItem
  simp only [ha, Bool.false_eq_true, if_false, if_true]
  have hnd : ({ buf := some ((hs.chunks c).last.set cap it sz).1, file := none } : HSplit).needDump = true := by
    unfold HSplit.needDump
    simp only [Option.isNone_none, Bool.true_and]
    cases hi : ((hs.chunks c).last.set cap it sz).1.items with
    | nil => exact absurd hi hne
    | cons _ _ => rfl
  have hdump : ({ buf := some ((hs.chunks c).last.set cap it sz).1, file := none } : HSplit).dumped
      = { buf := none, file := some ((hs.chunks c).last.set cap it sz).1.dump } := rfl
  unfold Hints.trydump
  simp only [setCk_chunks, if_true]
  rw [dumpOldGo_snoc c _ g.files _ hnd 0 _, hdump]
  simp only [Bool.not_false, Bool.true_and, Nat.zero_add]
  have hmc : (hs.setCk c { old := (hs.chunks c).old ++ [{ buf := some ((hs.chunks c).last.set cap it sz).1, file := none }],
                            last := (({} : Buf).set cap it sz).1 }).maxChunk = hs.maxChunk := rfl
  rw [hmc]
  by_cases hc : ((c == hs.maxChunk) || (({} : Buf).set cap it sz).1.items.isEmpty) = true
  · rw [if_pos hc, if_pos hc]
    simp only [setCk_chunks, if_true]
    refine ⟨by first | rfl | trivial, ?_, ?_⟩
    · intro j hj; simp only [setCk_chunks, if_neg hj]
    · intro a ha'; exact isLarger_setIfLarger a _ _ _ ha'
  · rw [if_neg hc, if_neg hc]
    simp only [setCk_chunks, if_true]
    refine ⟨by first | rfl | trivial, ?_, ?_⟩
    · intro j hj; simp only [setCk_chunks, if_neg hj]
    · intro a ha'; exact isLarger_setIfLarger a _ _ _ (isLarger_setIfLarger a _ _ _ ha')

theorem setItem_accepted_form (cap : Nat) (hs : Hints) (it : Item) (c : Nat) (sz : Nat)
    (ha : ((hs.chunks c).last.set cap it sz).2 = true) :
    (hs.setItem cap it c sz).1.chunks c = { (hs.chunks c) with last := ((hs.chunks c).last.set cap it sz).1 }
    ∧ (∀ j, j ≠ c → (hs.setItem cap it c sz).1.chunks j = hs.chunks j)
    ∧ (hs.setItem cap it c sz).1.maxDumped = hs.maxDumped := by
  unfold Hints.setItem HCk.setItem
  simp only [ha, if_true, Bool.false_eq_true, if_false, setCk_chunks]
  exact ⟨by first | rfl | trivial, fun j hj => by simp only [setCk_chunks, if_neg hj], by first | rfl | trivial⟩

theorem set_mem' (cap : Nat) (b : Buf) (hb : BufInv b) (it : Item) (sz : Nat) {x : Item}
    (hx : x ∈ (b.set cap it sz).1.items) : x ∈ b.items ∨ x = it := by
  obtain ⟨e1, _⟩ := set_items cap b hb it sz
  rw [e1] at hx
  cases hs : slotSet cap b.items it with
  | none => rw [hs] at hx; exact Or.inl hx
  | some items' =>
    rw [hs] at hx
    have hp := slotSet_perm hb.nodup hs
    have := hp.subset hx
    rw [List.mem_append] at this
    rcases this with h | h
    · exact Or.inl (List.mem_filter.mp h).1
    · exact Or.inr (by simpa using h)

theorem set_fresh_all (cap : Nat) (hcap : 1 ≤ cap) (it : Item) (sz : Nat) :
    (({} : Buf).set cap it sz).1.items = [it] ∧ (({} : Buf).set cap it sz).1.maxoffset = it.off + sz := by
  have h1 := set_fresh cap hcap it sz
  refine ⟨h1, ?_⟩
  have h2 : (({} : Buf).set cap it sz).2 = true := by
    obtain ⟨_, e2⟩ := set_items cap {} bufInv_empty it sz
    rw [e2]
    have : slotSet cap ([] : List Item) it = some [it] := slotSet_nil cap hcap it
    show (slotSet cap [] it).isSome = true
    rw [this]; rfl
  rw [set_maxoffset, h2]
  simp only [if_true]
  show (if it.off + sz > 0 then it.off + sz else 0) = it.off + sz
  split <;> omega

/-- what `hintMgr.setItem` guarantees on chunks in `CkGood` form, for a record that starts at the end of the data
    described so far (`mo ≤ it.off`) -/
theorem setItem_r (cap : Nat) (hcap : 1 ≤ cap) (hs : Hints) (it : Item) (c : Nat) (sz : Nat) (g : CkGood (hs.chunks c))
    (hf : ∀ sp ∈ (hs.chunks c).old, ∀ f, sp.file = some f → f.datasize ≤ it.off) (hm : (hs.chunks c).last.maxoffset ≤ it.off) :
    (∀ y, InCk ((hs.setItem cap it c sz).1.chunks c) y → y = it ∨ InCk (hs.chunks c) y)
    ∧ (∀ a, isLarger a hs.maxDumped.1 hs.maxDumped.2 = true →
          isLarger a (hs.setItem cap it c sz).1.maxDumped.1 (hs.setItem cap it c sz).1.maxDumped.2 = true)
    ∧ (∀ sp ∈ ((hs.setItem cap it c sz).1.chunks c).old, ∀ f, sp.file = some f → f.datasize ≤ it.off + sz)
    ∧ ((hs.setItem cap it c sz).1.chunks c).last.maxoffset ≤ it.off + sz
    ∧ ((∃ sp ∈ ((hs.setItem cap it c sz).1.chunks c).old, ∃ f, sp.file = some f ∧ f.datasize = it.off + sz)
        ∨ (((hs.setItem cap it c sz).1.chunks c).last.items ≠ [] ∧ ((hs.setItem cap it c sz).1.chunks c).last.maxoffset = it.off + sz)) := by
  by_cases ha : ((hs.chunks c).last.set cap it sz).2 = true
  · obtain ⟨e1, _, e3⟩ := setItem_accepted_form cap hs it c sz ha
    obtain ⟨a1, _⟩ := set_accept cap _ g.last it sz ha
    have hmo := set_maxoffset cap (hs.chunks c).last it sz
    rw [ha] at hmo
    simp only [if_true] at hmo
    have hmo' : ((hs.chunks c).last.set cap it sz).1.maxoffset = it.off + sz := by
      rw [hmo]; split <;> omega
    rw [e1, e3]
    refine ⟨?_, fun a h => h, fun sp hsp f hf' => by have := hf sp hsp f hf'; omega, by rw [hmo']; exact Nat.le_refl _, Or.inr ⟨?_, hmo'⟩⟩
    · intro y hy
      rcases hy with hy | ⟨sp, hsp, hy⟩
      · rcases set_mem' cap _ g.last it sz hy with h | h
        · exact Or.inr (Or.inl h)
        · exact Or.inl h
      · exact Or.inr (Or.inr ⟨sp, hsp, hy⟩)
    · intro he
      have := (lk_some a1).1
      rw [he] at this; cases this
  · have ha' : ((hs.chunks c).last.set cap it sz).2 = false := by
      cases hx : ((hs.chunks c).last.set cap it sz).2 with
      | true => exact absurd hx ha
      | false => rfl
    have hitems := set_refuse cap _ g.last it sz ha'
    have hne := refused_nonempty cap hcap _ g.last it sz ha'
    obtain ⟨f1, f2⟩ := set_fresh_all cap hcap it sz
    have hmo := set_maxoffset cap (hs.chunks c).last it sz
    rw [ha'] at hmo
    simp only [Bool.false_eq_true, if_false] at hmo
    have hmo' : ((hs.chunks c).last.set cap it sz).1.maxoffset = it.off := by
      rw [hmo]; split <;> omega
    obtain ⟨e1, _, e3⟩ := setItem_refused_form cap hs it c sz g (by rw [hitems]; exact hne) ha'
    rw [e1]
    have hempty : (({} : Buf).set cap it sz).1.items.isEmpty = false := by rw [f1]; rfl
    by_cases hc : (c == hs.maxChunk) = true
    · simp only [hc, Bool.true_or, if_true]
      refine ⟨?_, e3, ?_, by rw [f2]; exact Nat.le_refl _, Or.inr ⟨by rw [f1]; simp, f2⟩⟩
      · intro y hy
        rcases hy with hy | ⟨sp, hsp, hy⟩
        · rw [f1] at hy; simp only [List.mem_singleton] at hy; exact Or.inl hy
        · rw [List.mem_append] at hsp
          rcases hsp with hsp | hsp
          · exact Or.inr (Or.inr ⟨sp, hsp, hy⟩)
          · simp only [List.mem_singleton] at hsp; subst hsp
            have : y ∈ sortItems ((hs.chunks c).last.set cap it sz).1.items := hy
            have := (sortItems_perm _).subset this
            rw [hitems] at this
            exact Or.inr (Or.inl this)
      · intro sp hsp f hf'
        rw [List.mem_append] at hsp
        rcases hsp with hsp | hsp
        · have := hf sp hsp f hf'; omega
        · simp only [List.mem_singleton] at hsp; subst hsp
          simp only [Option.some.injEq] at hf'; subst hf'
          show ((hs.chunks c).last.set cap it sz).1.maxoffset ≤ it.off + sz
          rw [hmo']; omega
    · have hc' : (c == hs.maxChunk) = false := by
        cases h : (c == hs.maxChunk) with
        | true => exact absurd h hc
        | false => rfl
      simp only [hc', hempty, Bool.or_false, Bool.false_eq_true, if_false]
      refine ⟨?_, e3, ?_, Nat.zero_le _, Or.inl ⟨({ buf := none, file := some (({} : Buf).set cap it sz).1.dump } : HSplit), by simp, (({} : Buf).set cap it sz).1.dump, rfl, f2⟩⟩
      · intro y hy
        rcases hy with hy | ⟨sp, hsp, hy⟩
        · cases hy
        · simp only [List.mem_append, List.mem_singleton] at hsp
          rcases hsp with (hsp | hsp) | hsp
          · exact Or.inr (Or.inr ⟨sp, hsp, hy⟩)
          · subst hsp
            have : y ∈ sortItems ((hs.chunks c).last.set cap it sz).1.items := hy
            have := (sortItems_perm _).subset this
            rw [hitems] at this
            exact Or.inr (Or.inl this)
          · subst hsp
            have : y ∈ sortItems (({} : Buf).set cap it sz).1.items := hy
            have := (sortItems_perm _).subset this
            rw [f1] at this
            simp only [List.mem_singleton] at this
            exact Or.inl this
      · intro sp hsp f hf'
        simp only [List.mem_append, List.mem_singleton] at hsp
        rcases hsp with (hsp | hsp) | hsp
        · have := hf sp hsp f hf'; omega
        · subst hsp
          simp only [Option.some.injEq] at hf'; subst hf'
          show ((hs.chunks c).last.set cap it sz).1.maxoffset ≤ it.off + sz
          rw [hmo']; omega
        · subst hsp
          simp only [Option.some.injEq] at hf'; subst hf'
          show (({} : Buf).set cap it sz).1.maxoffset ≤ it.off + sz
          rw [f2]; exact Nat.le_refl _

end CollideLemmas
