/-
  QuickLZ (C10) — THE LEVEL-1 ROUND TRIP (partial correctness).  `cloop_post1`: backward induction over the first loop
  of `Compress(x,1)` — the finished stream, read from the position that corresponds to any state at the top of a pass,
  is a certified level-1 encoding (`Enc1`) of the rest of `x` FOR THE DECODER'S TABLE that the table invariant `TInv1`
  ties to the compressor's tables at that state.  `compress1_roundtrip`: for ALL values below 4 GiB − 400, whatever
  `Compress(x,1)` returns decompresses (`Decompress`, `DecompressSafe`) to `x`.  Core-only.
-/
import GoBeans.Lemmas.Qlz1Tbl
import GoBeans.Lemmas.Qlz1Tail
set_option linter.unusedVariables false
set_option linter.unusedSimpArgs false
namespace QlzRT
open Qlz QlzLemmas

/-- the compressor's variables when the first loop is entered (level 1) -/
def cinit1 (s : Buf) (fetch : Nat) : CSt :=
  ⟨0, 13, 0x80000000, 9, Array.replicate (s.size + 400) 0, Array.replicate (4096 * 1) 0, Array.replicate 4096 0,
    Array.replicate 4096 0, fetch, 0⟩

/-- `Compress(s, 1)` in terms of its three stages -/
theorem compress1_eq (s : Buf) (hs : s.size ≠ 0) :
    compress s 1 =
      match (if (0 : Int) ≤ (s.size : Int) - 11 then fastRead s 0 3 else some 0) with
      | none => none
      | some fetch =>
        match cloop s 1 (s.size + 1) (cinit1 s fetch) with
        | none => none
        | some (.stored out) => some out
        | some (.fin st) =>
          match ctail s (s.size - st.src) st with
          | none => none
          | some st => finish1 s st := by
  unfold compress finish1
  simp only [show ¬ ((1 : Nat) ≠ 1 ∧ (1 : Nat) ≠ 3) by omega, if_false, hs, DEFAULT_HEADERLEN, CWORD_LEN, cinit1]
  rfl

theorem cloop_succ1 (s : Buf) (n : Nat) (st : CSt) :
    cloop s 1 (n + 1) st =
      if (st.src : Int) ≤ (s.size : Int) - 11 then
        (if st.cwordVal &&& 1 = 1 ∧ giveUp s.size st.src st.dst = true then (storedStream s 1).map CLoop.stored
         else
          match flushed st with
          | none => none
          | some stf =>
            match cstep1 s stf with
            | none => none
            | some st' => cloop s 1 n st')
      else some (.fin st) := by
  conv => lhs; unfold cloop
  unfold flushed flushCword
  simp only [CWORD_LEN]
  by_cases h0 : (st.src : Int) ≤ (s.size : Int) - 11
  · simp only [h0, if_true]
    by_cases h : st.cwordVal &&& 1 = 1
    · simp only [h, if_true, true_and]
      by_cases hg : giveUp s.size st.src st.dst = true
      · simp only [hg, if_true]
      · simp only [hg, if_false, Bool.false_eq_true]
        cases fastWrite st.dest st.cwordPtr ((st.cwordVal >>> 1) ||| 0x80000000) 4 with
        | none => rfl
        | some d => rfl
    · simp only [h, if_false, false_and]
      rfl
  · simp only [h0, if_false]

/-- the control-word handling does not touch the tables -/
theorem flushed_tbl {st stf : CSt} (h : flushed st = some stf) :
    stf.src = st.src ∧ stf.ht = st.ht ∧ stf.cache = st.cache ∧ stf.hc = st.hc ∧ stf.fetch = st.fetch ∧ stf.lits = st.lits := by
  unfold flushed at h
  split at h
  · split at h
    · contradiction
    · simp only [Option.some.injEq] at h; subst h; exact ⟨rfl, rfl, rfl, rfl, rfl, rfl⟩
  · simp only [Option.some.injEq] at h; subst h; exact ⟨rfl, rfl, rfl, rfl, rfl, rfl⟩

theorem TInv1_congr {s : Buf} {st stf : CSt} {dht : Array Int} {lh : Int} (hi : TInv1 s st dht lh)
    (h : stf.src = st.src ∧ stf.ht = st.ht ∧ stf.cache = st.cache ∧ stf.hc = st.hc ∧ stf.fetch = st.fetch ∧ stf.lits = st.lits) :
    TInv1 s stf dht lh := by
  obtain ⟨e1, e2, e3, e4, e5, e6⟩ := h
  exact ⟨by rw [e2]; exact hi.hts, by rw [e3]; exact hi.cas, by rw [e4]; exact hi.hcs, hi.dhs, by rw [e6, e1]; exact hi.litle,
    by rw [e6, e1]; exact hi.lhe, by rw [e6, e1, e2]; exact hi.sync, by rw [e6, e1]; exact hi.rep, by rw [e1, e5]; exact hi.fetch,
    by rw [e1, e2, e3, e4]; exact hi.cache⟩

/-- a reload of the control word in front of a certified rest -/
theorem Enc1_reload {c x : Buf} {p q W : Nat} {ht : Array Int} {lh : Int} (hW : W ≠ 1) (hr : fastRead c p 4 = some W)
    (h : Enc1 c x (p + 4) q W ht lh) : Enc1 c x p q 1 ht lh := by
  have hcw : cwAt c p 1 = some (p + 4, W) := by simp [cwAt, hr]
  cases h with
  | lit b b2 h1 h2 h3 h4 h5 h6 h7 h8 h9 h10 h11 =>
    simp only [cwAt, hW, if_false, Option.some.injEq, Prod.mk.injEq] at h1
    obtain ⟨rfl, rfl⟩ := h1
    exact Enc1.lit b b2 hcw h2 h3 h4 h5 h6 h7 h8 h9 h10 h11
  | mat h1 h2 h3 h4 h5 h6 h7 h8 h9 h10 h11 h12 h13 h14 h15 h16 =>
    simp only [cwAt, hW, if_false, Option.some.injEq, Prod.mk.injEq] at h1
    obtain ⟨rfl, rfl⟩ := h1
    exact Enc1.mat hcw h2 h3 h4 h5 h6 h7 h8 h9 h10 h11 h12 h13 h14 h15 h16
  | fin h1 h2 h3 h4 h5 =>
    simp only [cwAt, hW, if_false, Option.some.injEq, Prod.mk.injEq] at h1
    obtain ⟨rfl, rfl⟩ := h1
    exact Enc1.fin hcw h2 h3 h4 h5

/-- the three bytes the level-1 decoder fetches at a token: the token's own bytes, then whatever follows -/
theorem fetch_of_token3 {c : Buf} {p enc len f : Nat} (h2 : 2 ≤ len) (h3 : len ≤ 3) (henc : enc < 2 ^ (8 * len))
    (hb : ∀ j, j < len → c[p + j]? = some (byteOf enc j)) (hf : fastRead c p 3 = some f) :
    ∃ junk, junk < 2 ^ (24 - 8 * len) ∧ f = enc + 2 ^ (8 * len) * junk := by
  obtain ⟨b0, b1, b2, g0, g1, g2, rfl⟩ := fastRead3 hf
  have e0 := b0.toNat_lt
  have e1 := b1.toNat_lt
  have e2 := b2.toNat_lt
  have hb0 := hb 0 (by omega)
  simp only [Nat.add_zero] at hb0
  rw [g0] at hb0
  have q0 : b0.toNat = enc % 256 := by
    have := congrArg UInt8.toNat (Option.some.inj hb0)
    rw [byteOf_toNat] at this
    simpa using this
  have hb1 := hb 1 (by omega)
  rw [g1] at hb1
  have q1 : b1.toNat = enc / 256 % 256 := by
    have := congrArg UInt8.toNat (Option.some.inj hb1)
    rw [byteOf_toNat] at this
    simpa using this
  have hlen : len = 2 ∨ len = 3 := by omega
  rcases hlen with rfl | rfl
  · refine ⟨b2.toNat, by simp only [Nat.reducePow, Nat.reduceSub, Nat.reduceMul]; omega, ?_⟩
    simp only [Nat.reducePow, Nat.reduceMul] at henc ⊢
    omega
  · have hb2 := hb 2 (by omega)
    rw [g2] at hb2
    have q2 : b2.toNat = enc / 65536 % 256 := by
      have := congrArg UInt8.toNat (Option.some.inj hb2)
      rw [byteOf_toNat] at this
      simpa using this
    refine ⟨0, by simp, ?_⟩
    simp only [Nat.reducePow, Nat.reduceMul] at henc ⊢
    omega

/-- main phase: the rest of the stream is certified from the decoder position that corresponds to the state -/
def PostMain1 (s c : Buf) (st : CSt) (k F : Nat) (dht : Array Int) (lh : Int) : Prop :=
  Post s c st k F ∧ HdrOK1 s c ∧ ∀ W, fastRead c st.cwordPtr 4 = some W → Enc1 c s st.dst st.src (W >>> k) dht lh

/-- THE FIRST LOOP, backward: if `Compress(s,1)` continues from a state at the top of a pass and finishes with the
    stream `c`, then `c` from the corresponding position is a certified level-1 encoding of the rest of `s` for a
    decoder whose table is tied to the compressor's by `TInv1` -/
theorem cloop_post1 {s c : Buf} {st1 st2 : CSt} : ∀ (n : Nat) (st : CSt) (k F : Nat) (dht : Array Int) (lh : Int),
    CInv s st k F → TInv1 s st dht lh → st.src < s.size →
    cloop s 1 n st = some (.fin st1) → ctail s (s.size - st1.src) st1 = some st2 → finish1 s st2 = some c →
    PostMain1 s c st k F dht lh := by
  intro n
  induction n with
  | zero => intro st k F dht lh _ _ _ h; simp [cloop] at h
  | succ n ih =>
    intro st k F dht lh hi hti hlt h ht hf
    rw [cloop_succ1] at h
    by_cases hmain : (st.src : Int) ≤ (s.size : Int) - 11
    · rw [if_pos hmain] at h
      split at h
      · simp only [Option.map_eq_some_iff] at h
        obtain ⟨_, _, h⟩ := h
        cases h
      · split at h
        · contradiction
        · rename_i stf hfl
          split at h
          · contradiction
          · rename_i st' hstep
            obtain ⟨kf, Ff, hif, hsrcf, hback, hcase⟩ := flushed_post (c := c) hi hfl
            have htf : TInv1 s stf dht lh := TInv1_congr hti (flushed_tbl hfl)
            have hmainf : (stf.src : Int) ≤ (s.size : Int) - 11 := by rw [hsrcf]; exact hmain
            obtain ⟨t1, t2, t3, t4, t5, t6, htok⟩ := cstep1_spec hstep hmainf
            obtain ⟨hp1, hp2⟩ := hif.ptr
            have hlh := htf.lhe
            have hlits := htf.litle
            suffices hmf : Post s c stf kf Ff ∧ HdrOK1 s c ∧ ∀ W, fastRead c stf.cwordPtr 4 = some W → Enc1 c s stf.dst stf.src (W >>> kf) dht lh by
              obtain ⟨hpostf, hhdr, hencf⟩ := hmf
              have hpost := hback hpostf
              refine ⟨hpost, hhdr, ?_⟩
              intro W hW
              rcases hcase with ⟨hk, rfl, rfl, rfl⟩ | ⟨rfl, rfl, rfl, hcp, hd⟩
              · exact hencf W hW
              · obtain ⟨W0, hW0, _, hW1, hW2⟩ := hpost.W
                rw [hW] at hW0; cases hW0
                obtain ⟨Wf, hWf, _, hWf1, hWf2⟩ := hpostf.W
                have := hencf Wf hWf
                rw [hcp] at hWf
                rw [hd, hsrcf] at this
                rw [w_eq_one hW1 hW2]
                exact Enc1_reload (by omega) hWf (by simpa using this)
            cases htok with
            | lit b b2 a1 a2 a3 a4 a5 a6 a7 a8 a9 =>
              have hi' : CInv s st' (kf + 1) Ff :=
                ⟨by rw [a3]; exact shape_lit hif.shape hif.klt, by rw [t1, a2]; exact ⟨hp1, by omega⟩, t3, by rw [a1]; omega, by rw [t2, hif.dsz]⟩
              obtain ⟨dht1, lh1, hupd, hti'⟩ := tinv_lit htf hmainf a1 a8 t5 t6 a9 a6 a7
              obtain ⟨hpost', hhdr, henc'⟩ := ih st' (kf + 1) Ff dht1 lh1 hi' hti' (by rw [a1]; omega) h ht hf
              have ⟨hpostf, hbyte⟩ := @post_tok s c stf st' kf Ff Ff hif.ptr t1 (by omega) t4
                (fun W hW => (w_lit hif.klt hif.shape.2.1 hW).1)
                (by intro csz hcs; omega) hpost'
              refine ⟨hpostf, hhdr, ?_⟩
              intro W hW
              obtain ⟨W0, hW0, hWm, hW1, hW2⟩ := hpost'.W
              rw [t1, hW] at hW0; cases hW0
              have hbit := (w_lit hif.klt hif.shape.2.1 hWm).2
              have hne := w_ne_one hif.klt hW1
              have hroom := hpost'.room
              have hcb : c[stf.dst]? = some b := by rw [hbyte stf.dst (Nat.le_refl _) (by omega), a5]
              obtain ⟨f, hf3⟩ := fastRead_isSome (c := c) (p := stf.dst) 3 (by omega)
              obtain ⟨cb2, hcb2⟩ := getElem?_isSome_of_lt (c := c) (i := stf.dst + 1 + 2) (by omega)
              have hrest := henc' W (by rw [t1]; exact hW)
              rw [a2, a1, ← w_shift] at hrest
              exact Enc1.lit b cb2 (by simp [cwAt, hne]) hbit hmainf (by rw [hf3]; rfl) hcb a4 hcb2 (by omega) (by omega) hupd hrest
            | mat ml o cached enc len cnt a1 a2 a3 a4 a5 a6 a7 a8 a9 a10 a11 a12 a13 a14 a15 a16 a17 =>
              obtain ⟨l1, l2, l3, l4⟩ := a5
              have hi' : CInv s st' (kf + 1) (Ff + 2 ^ kf) :=
                ⟨by rw [a3]; exact shape_mat hif.shape hif.klt, by rw [t1, a2]; exact ⟨hp1, by omega⟩, t3, by rw [a1]; omega, by rw [t2, hif.dsz]⟩
              obtain ⟨off, hd, o1, o2, hxs⟩ := lookup1 htf hmainf a8 a9 a10 a11 a12 a13 a6 a7 a14
              obtain ⟨dht', hupd, hti'⟩ := tinv_mat htf hmainf (by omega) a1 a16 t5 t6 a17 a15
              obtain ⟨hpost', hhdr, henc'⟩ := ih st' (kf + 1) (Ff + 2 ^ kf) dht' _ hi' hti' (by rw [a1]; omega) h ht hf
              have ⟨hpostf, hbyte⟩ := @post_tok s c stf st' kf Ff (Ff + 2 ^ kf) hif.ptr t1 (by omega) t4
                (fun W hW => (w_mat hif.klt hif.shape.2.1 hW).1)
                (by intro csz hcs; omega) hpost'
              refine ⟨hpostf, hhdr, ?_⟩
              intro W hW
              obtain ⟨W0, hW0, hWm, hW1, hW2⟩ := hpost'.W
              rw [t1, hW] at hW0; cases hW0
              have hbit := (w_mat hif.klt hif.shape.2.1 hWm).2
              have hne := w_ne_one hif.klt hW1
              have hroom := hpost'.room
              have hbytes : ∀ j, j < len → c[stf.dst + j]? = some (byteOf enc j) := by
                intro j hj
                rw [hbyte (stf.dst + j) (by omega) (by omega), a4 j hj]
              obtain ⟨f, hf3⟩ := fastRead_isSome (c := c) (p := stf.dst) 3 (by omega)
              obtain ⟨junk, hj1, hj2⟩ := fetch_of_token3 l1 l2 l3 hbytes hf3
              have htk := l4 junk hj1
              rw [← hj2] at htk
              obtain ⟨f', hf'⟩ := fastRead_isSome (c := c) (p := stf.dst + len) 3 (by omega)
              have hrest := henc' W (by rw [t1]; exact hW)
              rw [a2, a1, ← w_shift] at hrest
              have e1 : (tok1 f).1 = ml := by rw [htk]
              have e2 : (tok1 f).2.1 = hashOf stf.fetch := by rw [htk]
              have e3 : (tok1 f).2.2 = len := by rw [htk]
              exact Enc1.mat (f := f) (off := off) (by simp [cwAt, hne]) hbit hmainf hf3 (by rw [e2]; exact hd) o1 o2
                (by rw [e1]; exact a6) (by rw [e1]; exact a7) (by rw [e1]; exact hxs) (by omega) (by omega) htf.dhs hupd
                (by rw [e3, hf']; rfl) (by rw [e1, e3]; exact hrest)
    · -- the first loop ends here
      rw [if_neg hmain] at h
      simp only [Option.some.injEq, CLoop.fin.injEq] at h
      subst h
      obtain ⟨hpost, hhdr, hfin⟩ := ctail_fin1 hi hlt ht hf
      refine ⟨hpost, hhdr, ?_⟩
      intro W hW
      obtain ⟨p', cw', h1, h2, h3⟩ := hfin W hW
      exact Enc1.fin h1 h2 hmain (by omega) h3

theorem cloop_stored1 {s out : Buf} : ∀ (n : Nat) (st : CSt), cloop s 1 n st = some (.stored out) → storedStream s 1 = some out := by
  intro n
  induction n with
  | zero => intro st h; simp [cloop] at h
  | succ n ih =>
    intro st h
    rw [cloop_succ1] at h
    split at h
    · split at h
      · simp only [Option.map_eq_some_iff] at h
        obtain ⟨o, ho, he⟩ := h
        cases he
        exact ho
      · split at h
        · contradiction
        · split at h
          · contradiction
          · exact ih _ h
    · cases h

/-- the table relation when the first loop is entered: both tables are all zero, nothing is pending -/
theorem tinv_init (x : Buf) (fetch : Nat)
    (hf : (if (0 : Int) ≤ (x.size : Int) - 11 then fastRead x 0 3 else some 0) = some fetch) :
    TInv1 x (cinit1 x fetch) (Array.replicate 4096 0) (-1) := by
  refine ⟨by simp [cinit1], by simp [cinit1], by simp [cinit1], by simp, by simp [cinit1], by simp [cinit1], ?_, ?_, ?_, ?_⟩
  · refine ⟨Array.replicate 4096 0, by simp [cinit1, hashUpdLit], ?_⟩
    intro h hh
    simp [cinit1, Array.getElem?_replicate, hh]
  · intro h3; simp [cinit1] at h3
  · intro h0
    simp only [cinit1] at h0 ⊢
    rw [if_pos (by omega)] at hf
    exact hf
  · intro h o cf cnt h1 h2 h3 h4
    simp only [cinit1, Array.getElem?_replicate] at h3
    split at h3
    · cases h3; exact absurd rfl h4
    · cases h3

/-- (3) THE ROUND TRIP, LEVEL 1, for ALL values below 4 GiB − 400: whatever the model of the Go `Compress(x, 1)`
    returns — the compressed form or the stored form — `Decompress` of it is `x`, and so is `DecompressSafe` of it.
    (`Compress` returning at all is the hypothesis `h`; it is discharged by `compress1_total` in `Lemmas/Qlz1Total.lean`.) -/
theorem compress1_roundtrip {x c : Buf} (hx : x.size ≠ 0) (hsz : x.size + 400 < 2 ^ 32) (h : compress x 1 = some c) :
    decompress c = .ok x ∧ decompressSafe c = .ok x := by
  rw [compress1_eq x hx] at h
  split at h
  · contradiction
  · rename_i fetch hfetch
    split at h
    · contradiction
    · rename_i out hcl
      cases h
      exact stored_roundtrip (Or.inl rfl) (by omega) (cloop_stored1 _ _ hcl)
    · rename_i st1 hcl
      split at h
      · contradiction
      · rename_i st2 hct
        have hi : CInv x (cinit1 x fetch) 0 0 :=
          ⟨shape_init, ⟨by simp [cinit1], by simp [cinit1]⟩, by simp [cinit1], by simp [cinit1], by simp [cinit1]⟩
        obtain ⟨hpost, hhdr, henc⟩ := cloop_post1 (x.size + 1) (cinit1 x fetch) 0 0 _ _ hi (tinv_init x fetch hfetch)
          (by simp [cinit1]; omega) hcl hct h
        obtain ⟨W, hW, _, hW1, hW2⟩ := hpost.W
        have he := henc W hW
        have hW' : fastRead c 9 4 = some W := hW
        have he' : Enc1 c x (9 + 4) 0 W (Array.replicate 4096 0) (-1) := by simpa [cinit1] using he
        have hcert := Enc1_reload (by omega) hW' he'
        obtain ⟨r1, r2, r3, r4, r5, r6⟩ := hhdr
        rw [Nat.mod_eq_of_lt (by omega)] at r2
        rw [Nat.mod_eq_of_lt (by omega)] at r3
        have hdec := dec1 r1 r2 r4 r5 hcert
        refine ⟨hdec, ?_⟩
        unfold decompressSafe
        rw [r3, r2, hdec]
        simp

end QlzRT
