/-
  C13 (b) with restarts: the class `SafeR` extends `Safe` by restarts (tree dump kept or rebuilt from hints; hint
  files and collision.yaml stay) at moments when something has been written and every key that has a written hash-mate
  is in the collision table; after a restart no NEW undetected pair may be started (a key with written hash-mates may
  be written only if its hash is already in the table).  `C13_safe_with_restarts_statement` is PROVED in
  GoBeans/Lemmas/Collide.lean (`C13_safe_with_restarts`, through `CollideLemmas.run_safeR` and the invariant `RInv`);
  the differential harness checks the same statement on the real store (CollideCheck.lean counts the replies inside
  `SafeR` prefixes that deviate from the reference map: none).
-/
import GoBeans.Lemmas.CollideSafeRun
namespace CollideLemmas
open Store Spec HintIndex Collide

structure TrkR where
  t : Trk := {}
  restarted : Bool := false

section
variable (hash : Key → Nat)

/-- every key with a written hash-mate is in the collision table -/
def Trk.allDetected (t : Trk) : Bool := t.written.all (fun k => (t.others hash k).isEmpty || t.reg.contains k)

/-- after a restart a write must not start a new undetected pair -/
def Trk.writeOK (t : Trk) (k : Key) : Bool := (t.others hash k).isEmpty || t.det hash (hash k)

def TrkR.step (x : TrkR) : Collide.Op → Option TrkR
  | .reopen _ =>
    if x.t.allDetected hash && !x.t.written.isEmpty then
      -- which key owns a slot is not tracked any more (a rebuilt tree replays splits in (hash,key) order); it is not
      -- needed either: every key with a written hash-mate is in the table
      some { t := { x.t with owner := [] }, restarted := true }
    else none
  | .set k body flag rev ts size =>
    if x.restarted && !(x.t.writeOK hash k) then none
    else (x.t.step hash (.set k body flag rev ts size)).map (fun t => { x with t := t })
  | .incr k d size wts =>
    if x.restarted && !(x.t.writeOK hash k) then none
    else (x.t.step hash (.incr k d size wts)).map (fun t => { x with t := t })
  | op => (x.t.step hash op).map (fun t => { x with t := t })

def TrkR.run (x : TrkR) : List Collide.Op → Option TrkR
  | [] => some x
  | op :: ops => match x.step hash op with | some x' => TrkR.run x' ops | none => none

def SafeR (ops : List Collide.Op) : Bool := (TrkR.run hash {} ops).isSome

end

/-- the statement with restarts -/
def C13_safe_with_restarts_statement : Prop :=
  ∀ (hash : Key → Nat) (cfg : Collide.Cfg), cfg.s.checkVHash = false → cfg.s.dataFileMax < 4294967296 → 1 ≤ cfg.cap →
    ∀ ops : List Collide.Op, ops.length < 2147483647 → SafeR hash ops = true →
      (Collide.run hash cfg {} ops).2.map coarse = (Spec.run {} [] (ops.filterMap Collide.cmdOf)).2.map coarse

end CollideLemmas
