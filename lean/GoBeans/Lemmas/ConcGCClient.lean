/-
  GC beside clients: effect summaries of a CLIENT micro-step (`ConcFine.micro`) as far as the GC invariants need them:
  the head only grows, a flusher keeps its target, only the head chunk and the flusher's target change.  Core-only.
-/
import GoBeans.Lemmas.ConcGCHot

namespace ConcGC
open ConcFine

theorem micro_head {cfg : Cfg} {b b' : ConcFine.State} {t : Nat} (h : micro cfg b t = some b') :
    b.newHead ≤ b'.newHead := by
  micro_split h
  all_goals simp [ConcFine.State.goto, ConcFine.State.log, ConcFine.State.respond, ConcFine.State.setChunk, ConcFine.State.readDone]

theorem micro_target {cfg : Cfg} {b b' : ConcFine.State} {t : Nat} (h : micro cfg b t = some b')
    (hn : ∀ c f l, (b.thr t).pc ≠ .fDs1 c f l) (c : Nat) (hf : flushTarget (b'.thr t).pc = some c) :
    flushTarget (b.thr t).pc = some c := by
  cases hpc : (b.thr t).pc with
  | fDs1 c f l => exact absurd hpc (hn c f l)
  | _ =>
    simp only [micro, hpc] at h
    repeat' (split at h)
    all_goals (first | contradiction | (obtain rfl := Option.some.inj h
                                        simp [ConcFine.State.goto, ConcFine.State.log, ConcFine.State.respond, ConcFine.State.setChunk, ConcFine.State.readDone, flushTarget, hpc] at hf ⊢
                                        try exact hf))

/-- a client micro-step changes only the head chunk (append) or the chunk its flusher works on -/
theorem micro_other_chunks {cfg : Cfg} {b b' : ConcFine.State} {t : Nat} (h : micro cfg b t = some b') (c : Nat)
    (h1 : c ≠ b.newHead) (h2 : flushTarget (b.thr t).pc ≠ some c) : b'.chunks c = b.chunks c := by
  rcases micro_chunks h with he | ⟨q, ver, pos, hpc, he⟩ | ⟨c1, woff, n, i, fl, r1, hpc, he⟩ | ⟨c1, n, fl, hpc, he⟩
  · rw [he]
  · rw [he]; simp [appendTo, h1]
  · rw [he]; rw [hpc] at h2
    have : c ≠ c1 := fun e => h2 (by rw [e]; rfl)
    simp [writeTo, this]
  · rw [he]; rw [hpc] at h2
    have : c ≠ c1 := fun e => h2 (by rw [e]; rfl)
    simp [detachFrom, this]

theorem ctl_client {s s' : State} (hc : GCtl s) (hg : s'.gc = s.gc) (hh : s.base.newHead ≤ s'.base.newHead) : GCtl s' := by
  obtain ⟨h1, h2, h3, h4, h5, h6, h7, h8⟩ := hc
  refine ⟨?_, ?_, ?_, ?_, ?_, ?_, ?_, ?_⟩ <;> rw [hg] <;> try assumption
  intro hst; have := h3 hst; exact ⟨this.1, by omega⟩

/-- the chunks the pass owns are untouched by a client step -/
theorem chk_client {s s' : State} (hc : GCtl s) (hk : GChk s) (hg : s'.gc = s.gc)
    (hch : ∀ c, X s c → s'.base.chunks c = s.base.chunks c) : GChk s' := by
  have hX : ∀ c, X s' c ↔ X s c := X_congr (by rw [hg]) (by rw [hg])
  have hxd : s.gc.started = true → X s s.gc.dst := by
    intro hst; rw [X_iff]
    refine ⟨hst, ?_⟩
    have := (hc.rng hst).1
    rcases hc.dst hst with h1 | ⟨_, h1⟩ <;> omega
  have hxs : procPC s.gc.pc = true → X s s.gc.src := by
    intro hp; rw [X_iff]
    refine ⟨?_, hc.srcp (Or.inl hp)⟩
    cases hs : s.gc.started with
    | true => rfl
    | false => rw [hc.idle hs] at hp; simp [procPC] at hp
  have hst_of : s.gc.pc ≠ .idle → s.gc.started = true := by
    intro hne
    cases hs : s.gc.started with
    | true => rfl
    | false => exact absurd (hc.idle hs) hne
  refine ⟨?_, ?_, ?_, ?_, ?_, ?_, ?_, ?_⟩
  · intro c hx; rw [hch c ((hX c).1 hx)]; exact hk.cold c ((hX c).1 hx)
  · intro c hx hne; rw [hg] at hne ⊢; rw [hch c ((hX c).1 hx)]; exact hk.whf c ((hX c).1 hx) hne
  · intro hp; rw [hg] at hp ⊢
    rw [hch _ (hxs (by rw [hp]; rfl))]; exact hk.clr hp
  · intro c hd
    have hd' : Dead s c := by
      obtain ⟨d1, d2, d3⟩ := hd; rw [hg] at d1 d2 d3; exact ⟨d1, d2, d3⟩
    have hx : X s c := by
      obtain ⟨d1, d2, d3⟩ := hd'
      rw [X_iff]; refine ⟨d1, ?_⟩
      rcases d3 with d3 | ⟨d3, d4⟩
      · have := (hc.src d1).2; omega
      · rw [d3]; exact hc.srcp (Or.inl (by rw [d4]; rfl))
    rw [hch c hx]; exact hk.dead c hd'
  · intro ho; rw [hg] at ho ⊢
    rw [hch _ (hxd (hst_of (by intro e; rw [e] at ho; simp [openPC] at ho)))]; exact hk.wop ho
  · intro o ho; rw [hg] at ho ⊢
    rw [hch _ (hxd (hst_of (by intro e; rw [e] at ho; simp [curOff] at ho)))]; exact hk.off o ho
  · intro r hr; rw [hg] at hr ⊢
    have hp : procPC s.gc.pc = true := by
      cases hpc : s.gc.pc <;> simp [rem, hpc] at hr <;> rfl
    rw [hch _ (hxs hp)]; exact hk.remIn r hr
  · intro r o hp; rw [hg] at hp ⊢
    rw [hch _ (hxd (hst_of (by rw [hp]; simp)))]; exact hk.mv r o hp

/-- a client sets tree items only to positions outside the GC range -/
theorem gtree_client {s s' : State} (hc : GCtl s) (ht : GTree s) (hg : s'.gc = s.gc)
    (htr : s'.base.tree = s.base.tree ∨ ∃ k it, ¬ X s it.pos.chunk ∧
      s'.base.tree = fun k' => if k' = k then some it else s.base.tree k') : GTree s' := by
  have hX : ∀ c, X s' c ↔ X s c := X_congr (by rw [hg]) (by rw [hg])
  rcases htr with he | ⟨k, it, hx, he⟩
  · refine ⟨?_, ?_⟩
    · rw [hg, he]; exact ht.g2
    · intro r hr it' hit'; rw [hg] at hr; rw [he] at hit'; rw [hX]; exact ht.nf r hr it' hit'
  · refine ⟨?_, ?_⟩
    · intro hp k' it' hit' hcs
      rw [hg] at hp hcs ⊢
      rw [he] at hit'
      by_cases hkk : k' = k
      · simp only [hkk, if_true] at hit'
        obtain rfl := Option.some.inj hit'
        exfalso; apply hx; rw [hcs, X_iff]
        refine ⟨?_, hc.srcp (Or.inl hp)⟩
        cases hs : s.gc.started with
        | true => rfl
        | false => rw [hc.idle hs] at hp; simp [procPC] at hp
      · simp only [hkk, if_false] at hit'
        exact ht.g2 hp k' it' hit' hcs
    · intro r hr it' hit'
      rw [hg] at hr; rw [he] at hit'; rw [hX]
      by_cases hkk : r.key = k
      · simp only [hkk, if_true] at hit'
        obtain rfl := Option.some.inj hit'
        exact hx
      · simp only [hkk, if_false] at hit'
        exact ht.nf r hr it' hit'

end ConcGC
