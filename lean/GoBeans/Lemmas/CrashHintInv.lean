/-
  Crash recovery through the hint files, part 2: the invariant of the transition system of Model/CrashHint.lean and
  its preservation by every action of one process life (write, flush, split closing, split dump, close steps).
  The restart (kill + `Bucket.open`) is part 3 (Lemmas/CrashHint.lean).

  `Inv`:
   * every chunk: record offsets well-formed (`Contig`), file size ≤ end of the appended records, and its split files
     on disk are files of the chunk's CLOSED hint buffers (`Cur`: the hint chunk is the result of the chunk's own
     `setItem` / split-closing history; `Sub`: any subset of the closed splits has its file) or were left by an
     earlier process life (`Old`: correct for the records, no buffer holds items);
   * the tree in memory answers every key with the live part of its last record (memory tombstone entries aside);
   * a tree dump on disk describes a prefix of the data files that is completely on disk and will not change, and
     that prefix reaches beyond the dump's chunk id `tc` (`DumpOK`).
-/
import GoBeans.Lemmas.CrashHintDisk
set_option linter.unusedSimpArgs false
set_option linter.unusedVariables false
namespace CrashHintLemmas
open Store Spec StoreLemmas HintIndex HintBufferLemmas HintLoadLemmas HintIndexLemmas CrashHint

/-! ### list helpers -/

theorem length_updAt {α : Type} (f : α → α) : ∀ (l : List α) (i : Nat), (updAt l i f).length = l.length := by
  intro l
  induction l with
  | nil => intro i; rfl
  | cons a l ih => intro i; cases i <;> simp [updAt, ih]

theorem mem_updAt {α : Type} {f : α → α} : ∀ {l : List α} {i : Nat} {x : α}, x ∈ updAt l i f →
    x ∈ l ∨ ∃ c, l[i]? = some c ∧ x = f c := by
  intro l
  induction l with
  | nil => intro i x h; simp [updAt] at h
  | cons a l ih =>
    intro i x h
    cases i with
    | zero =>
      simp only [updAt, List.mem_cons] at h
      rcases h with h | h
      · right; exact ⟨a, by simp, h⟩
      · left; simp [h]
    | succ i =>
      simp only [updAt, List.mem_cons] at h
      rcases h with h | h
      · left; simp [h]
      · rcases ih h with h | ⟨c, hc, hx⟩
        · left; simp [h]
        · right; exact ⟨c, by simpa using hc, hx⟩

theorem map_updAt {α β : Type} (g : α → β) (f : α → α) (h : ∀ a, g (f a) = g a) :
    ∀ (l : List α) (i : Nat), (updAt l i f).map g = l.map g := by
  intro l
  induction l with
  | nil => intro i; rfl
  | cons a l ih => intro i; cases i <;> simp [updAt, ih, h]

theorem updAt_append_left {α : Type} (f : α → α) : ∀ (a b : List α) (i : Nat), i < a.length →
    updAt (a ++ b) i f = updAt a i f ++ b := by
  intro a
  induction a with
  | nil => intro b i h; simp at h
  | cons x a ih =>
    intro b i h
    cases i with
    | zero => rfl
    | succ i =>
      simp only [List.cons_append, updAt]
      rw [ih b i (by simpa using h)]

theorem updAt_append_right {α : Type} (f : α → α) : ∀ (a b : List α) (i : Nat), a.length ≤ i →
    updAt (a ++ b) i f = a ++ updAt b (i - a.length) f := by
  intro a
  induction a with
  | nil => intro b i _; rfl
  | cons x a ih =>
    intro b i h
    cases i with
    | zero => simp at h
    | succ i =>
      simp only [List.cons_append, updAt, List.length_cons, Nat.add_sub_add_right]
      rw [ih b i (by simpa using h)]

theorem updAt_ge {α : Type} (f : α → α) : ∀ (l : List α) (i : Nat), l.length ≤ i → updAt l i f = l := by
  intro l
  induction l with
  | nil => intro i _; rfl
  | cons a l ih =>
    intro i h
    cases i with
    | zero => simp at h
    | succ i => simp only [updAt]; rw [ih i (by simpa using h)]

theorem all_modChunk (s : St) (i : Nat) (f : CrashHint.Chunk → CrashHint.Chunk) :
    (s.modChunk i f).all = updAt s.all i f := by
  unfold St.modChunk St.all
  by_cases h1 : i < s.prev.length
  · simp only [h1, if_true]
    rw [updAt_append_left f _ _ _ h1]
  · simp only [h1, if_false]
    by_cases h2 : i = s.prev.length
    · simp only [h2, if_true]
      rw [updAt_append_right f _ _ _ (Nat.le_refl _)]
      simp [updAt]
    · simp only [h2, if_false]
      rw [updAt_ge]
      simp; omega

theorem prev_length_modChunk (s : St) (i : Nat) (f : CrashHint.Chunk → CrashHint.Chunk) :
    (s.modChunk i f).prev.length = s.prev.length := by
  unfold St.modChunk
  split
  · simp [length_updAt]
  · split <;> rfl

theorem snoc_decomp {α : Type} {prev A B : List α} {hd : α} (h : prev ++ [hd] = A ++ B) (hB : B ≠ []) :
    ∃ B0, B = B0 ++ [hd] ∧ prev = A ++ B0 := by
  have e := (List.dropLast_concat_getLast hB).symm
  rw [e, ← List.append_assoc] at h
  have := List.append_inj' h (by simp)
  refine ⟨B.dropLast, ?_, this.1⟩
  have h2 : hd = B.getLast hB := by simpa using this.2
  rw [h2]; exact e

/-! ### the log of a chunk list -/

theorem logFrom_append : ∀ (a b : List FileRecs) (c : Nat), logFrom c (a ++ b) = logFrom c a ++ logFrom (c + a.length) b := by
  intro a
  induction a with
  | nil => intro b c; simp [logFrom]
  | cons f a ih =>
    intro b c
    simp only [List.cons_append, logFrom, List.length_cons]
    rw [ih b (c + 1), List.append_assoc]
    congr 3
    omega

theorem logFrom_single (c : Nat) (f : FileRecs) : logFrom c [f] = fileLog c f := by simp [logFrom]

theorem logFrom_empties (c : Nat) : ∀ l : List FileRecs, (∀ f ∈ l, f = []) → logFrom c l = [] := by
  intro l
  induction l generalizing c with
  | nil => intro _; rfl
  | cons f l ih =>
    intro h
    simp only [logFrom]
    rw [h f (by simp), ih (c + 1) (fun g hg => h g (List.mem_cons_of_mem _ hg))]
    rfl

/-- all records of a state (written, flushed or not) in (file, offset) order -/
def memLog (s : St) : List (Pos × Rec) := logOf (s.all.map (·.recs))

theorem lastOf_append (k : Key) (a b : List (Pos × Rec)) : lastOf k (a ++ b) = (lastOf k b).or (lastOf k a) := by
  unfold lastOf
  rw [List.filter_append, List.getLast?_append]

/-! ### what the tree holds -/

/-- the live part of a tree entry: a memory tombstone entry (`Ver < 0`) reads as a miss, like no entry -/
def live (o : Option TItem) : Option TItem := o.bind (fun it => if it.ver > 0 then some it else none)

theorem live_itemOfLast (x : Option (Pos × Rec)) : live (itemOfLast x) = itemOfLast x := by
  cases x with
  | none => rfl
  | some y =>
    obtain ⟨p, r⟩ := y
    by_cases h : r.ver > 0
    · simp [itemOfLast, live, h]
    · simp [itemOfLast, live, h]

theorem live_memItem (pos : Pos) (r : Rec) : live (some (memItem pos r)) = itemOfLast (some (pos, r)) := by
  by_cases h : r.ver > 0
  · simp [itemOfLast, live, memItem, h]
  · simp [itemOfLast, live, memItem, h]

/-! ### split files on disk against the closed hint buffers -/

/-- `fs` holds, by split number, files of `d` — any subset of them, none beyond -/
inductive Sub : List (Option SplitFile) → List (Option SplitFile) → Prop
  | nil {d} : Sub d []
  | keep {a d fs} : Sub d fs → Sub (a :: d) (a :: fs)
  | drop {a d fs} : Sub d fs → Sub (a :: d) (none :: fs)

theorem sub_append {d fs : List (Option SplitFile)} (h : Sub d fs) (x : List (Option SplitFile)) : Sub (d ++ x) fs := by
  induction h with
  | nil => exact Sub.nil
  | keep _ ih => exact Sub.keep ih
  | drop _ ih => exact Sub.drop ih

theorem sub_setPad_nil : ∀ (j : Nat) (d : List (Option SplitFile)) (a : SplitFile), d[j]? = some (some a) →
    Sub d (setPad [] j a) := by
  intro j
  induction j with
  | zero =>
    intro d a h
    cases d with
    | nil => simp at h
    | cons x d =>
      simp at h
      subst h
      exact Sub.keep Sub.nil
  | succ j ih =>
    intro d a h
    cases d with
    | nil => simp at h
    | cons x d =>
      simp only [setPad]
      exact Sub.drop (ih d a (by simpa using h))

theorem sub_setPad {d fs : List (Option SplitFile)} (h : Sub d fs) : ∀ (j : Nat) (a : SplitFile),
    d[j]? = some (some a) → Sub d (setPad fs j a) := by
  induction h with
  | nil => intro j a hj; exact sub_setPad_nil j _ a hj
  | @keep x d fs _ ih =>
    intro j a hj
    cases j with
    | zero =>
      simp at hj
      subst hj
      simp only [setPad]
      exact Sub.keep ‹_›
    | succ j =>
      simp only [setPad]
      exact Sub.keep (ih j a (by simpa using hj))
  | @drop x d fs _ ih =>
    intro j a hj
    cases j with
    | zero =>
      simp at hj
      subst hj
      simp only [setPad]
      exact Sub.keep ‹_›
    | succ j =>
      simp only [setPad]
      exact Sub.drop (ih j a (by simpa using hj))

theorem masked_none : ∀ d : List (Option SplitFile), Masked d (List.replicate d.length none) := by
  intro d
  induction d with
  | nil => exact Masked.nil
  | cons a d ih => exact Masked.drop ih

theorem sub_masked {d fs : List (Option SplitFile)} (h : Sub d fs) :
    Masked d (fs ++ List.replicate (d.length - fs.length) none) := by
  induction h with
  | nil => simpa using masked_none _
  | keep _ ih => simpa using Masked.keep ih
  | drop _ ih => simpa using Masked.drop ih

/-! ### the chunk invariant -/

section Inv
variable (hash : Key → Nat) (K : Key → Prop) (cap : Nat)

/-- a chunk written in this process life: the hint chunk is what the chunk's own history of `setItem`s (one per record,
    `some p`) and split closings (`none`) makes of it, and a split file on disk is the dump of the closed split of
    that number -/
def Cur (c : CrashHint.Chunk) : Prop :=
  ∃ es : List (Option (Nat × Rec)), c.recs = es.filterMap id ∧ c.hint = HChunk.run cap (es.map (evOf hash false)) ∧
    Sub (c.hint.closed.map HintLoadLemmas.fileOfBuf) c.files

/-- a chunk of an earlier process life: no hint buffer holds items; the split files are whatever the last start left -/
def Old (c : CrashHint.Chunk) : Prop :=
  c.hint.closed = [] ∧ c.hint.last.items = [] ∧ DiskOK hash c.recs c.files

structure ChunkOK (c : CrashHint.Chunk) : Prop where
  contig : Contig c.recs
  keys : ∀ p ∈ c.recs, K p.2.key
  le : c.onDisk ≤ dataSizeOf c.recs
  nocreate : c.created = false → c.onDisk = 0
  hint : Old hash c ∨ Cur hash cap c

theorem cur_fresh : Cur hash cap {} := ⟨[], rfl, rfl, Sub.nil⟩

theorem chunkOK_fresh : ChunkOK hash K cap {} :=
  ⟨⟨List.Pairwise.nil, by intro p hp; simp at hp⟩, by intro p hp; simp at hp, Nat.le_refl _, fun _ => rfl,
    Or.inr (cur_fresh hash cap)⟩

/-- whatever subset of the closed splits has been dumped: a correct directory for ALL records appended so far -/
theorem cur_diskOK (hcap : 1 ≤ cap) {c : CrashHint.Chunk} (hc : Contig c.recs) (h : Cur hash cap c) :
    DiskOK hash c.recs c.files := by
  obtain ⟨es, hr, hh, hs⟩ := h
  have hm := sub_masked (sub_append hs [HintLoadLemmas.fileOfBuf c.hint.last])
  have hd : (HChunk.run cap (es.map (evOf hash false))).disk =
      c.hint.closed.map HintLoadLemmas.fileOfBuf ++ [HintLoadLemmas.fileOfBuf c.hint.last] := by
    rw [disk_eq, ← hh]; simp
  rw [← hd] at hm
  obtain ⟨segs, h1, h2⟩ := written_diskInv hash cap hcap es (by rw [← hr]; exact hc) _ hm
  rw [← hr] at h1 h2
  exact ⟨segs, _, h1, h2⟩

theorem chunk_diskOK (hcap : 1 ≤ cap) {c : CrashHint.Chunk} (h : ChunkOK hash K cap c) : DiskOK hash c.recs c.files := by
  rcases h.hint with ho | hc
  · exact ho.2.2
  · exact cur_diskOK hash cap hcap h.contig hc

theorem run_snoc (evs : List Ev) (e : Ev) : HChunk.run cap (evs ++ [e]) = (HChunk.run cap evs).step cap e := by
  unfold HChunk.run
  rw [List.foldl_append]
  rfl

theorem setItem_closed (ck : HChunk) (it : Item) (sz : Nat) :
    (ck.setItem cap it sz).closed = ck.closed ∨ ∃ x, (ck.setItem cap it sz).closed = ck.closed ++ [x] := by
  unfold HChunk.setItem
  by_cases h : (ck.last.set cap it sz).2 = true
  · left; simp [h]
  · right; simp [h]

theorem cur_push {c : CrashHint.Chunk} (h : Cur hash cap c) (p : Nat × Rec) : Cur hash cap (c.push hash cap p) := by
  obtain ⟨es, hr, hh, hs⟩ := h
  refine ⟨es ++ [some p], ?_, ?_, ?_⟩
  · simp [Chunk.push, hr, List.filterMap_append]
  · have e1 : (c.push hash cap p).hint = c.hint.setItem cap (itemOfWrite hash p) p.2.size := rfl
    rw [e1, List.map_append, List.map_singleton, run_snoc, ← hh]
    rfl
  · have e1 : (c.push hash cap p).hint = c.hint.setItem cap (itemOfWrite hash p) p.2.size := rfl
    have e2 : (c.push hash cap p).files = c.files := rfl
    rw [e1, e2]
    rcases setItem_closed cap c.hint (itemOfWrite hash p) p.2.size with h | ⟨x, h⟩
    · rw [h]; exact hs
    · rw [h, List.map_append]; exact sub_append hs _

theorem cur_rotate {c : CrashHint.Chunk} (h : Cur hash cap c) : Cur hash cap c.rotateSplit := by
  unfold Chunk.rotateSplit
  by_cases he : c.hint.last.items.isEmpty = true
  · simpa [he] using h
  · simp only [he, Bool.false_eq_true, if_false]
    obtain ⟨es, hr, hh, hs⟩ := h
    refine ⟨es ++ [none], ?_, ?_, ?_⟩
    · simp [hr, List.filterMap_append]
    · rw [List.map_append, List.map_singleton, run_snoc, ← hh]
      rfl
    · simp only [List.map_append]
      exact sub_append hs _

theorem cur_setFile {c : CrashHint.Chunk} (h : Cur hash cap c) (j : Nat) (b : Buf) (hb : c.hint.closed[j]? = some b)
    (hne : b.items.isEmpty = false) : Cur hash cap { c with files := setPad c.files j b.dump } := by
  obtain ⟨es, hr, hh, hs⟩ := h
  refine ⟨es, hr, hh, ?_⟩
  apply sub_setPad hs j b.dump
  simp only [List.getElem?_map, hb, Option.map_some]
  simp [HintLoadLemmas.fileOfBuf, hne]

theorem contig_snoc {recs : FileRecs} (hc : Contig recs) (r : Rec) (hs : 0 < r.size) :
    Contig (recs ++ [(dataSizeOf recs, r)]) := by
  refine ⟨?_, ?_⟩
  · rw [List.pairwise_append]
    refine ⟨hc.1, by simp, ?_⟩
    intro a ha b hb
    simp at hb
    subst hb
    exact dataSizeOf_bound recs hc a ha
  · intro p hp
    rcases List.mem_append.mp hp with hp | hp
    · exact hc.2 p hp
    · simp at hp; subst hp; exact hs

theorem chunkOK_push {c : CrashHint.Chunk} (h : ChunkOK hash K cap c) (hcur : Cur hash cap c) (r : Rec)
    (hk : K r.key) (hs : 0 < r.size) :
    ChunkOK hash K cap (c.push hash cap (dataSizeOf c.recs, r)) := by
  refine ⟨contig_snoc h.contig r hs, ?_, ?_, h.nocreate, Or.inr (cur_push hash cap hcur _)⟩
  · intro p hp
    rcases List.mem_append.mp hp with hp | hp
    · exact h.keys p hp
    · simp at hp; subst hp; exact hk
  · have : (c.push hash cap (dataSizeOf c.recs, r)).recs = c.recs ++ [(dataSizeOf c.recs, r)] := rfl
    rw [this, dataSizeOf_snoc]
    have := h.le
    show c.onDisk ≤ _
    simp only
    omega

/-! ### the state invariant -/

def Flushed (c : CrashHint.Chunk) : Prop := c.onDisk = dataSizeOf c.recs

theorem allFlushed_iff (s : St) : allFlushed s = true ↔ ∀ c ∈ s.all, Flushed c := by
  unfold allFlushed Flushed
  rw [List.all_eq_true]
  simp

/-- the tree dump on disk: the data files split into `A` (completely on disk, they will not change any more, the dump
    knows their records and nothing else) and `B`; the dump's chunk id lies inside `A` -/
def DumpOK (s : St) (d : TreeDump) : Prop :=
  0 ≤ d.ts ∧ ∃ A B : List CrashHint.Chunk, s.all = A ++ B ∧ d.tc < A.length ∧ (B = [] → s.closing = true) ∧ (∀ c ∈ A, Flushed c) ∧
    ∀ k, K k → live (AMap.get d.tree (hash k)) = itemOfLast (lastOf k (logOf (A.map (·.recs))))

structure Inv (s : St) : Prop where
  chunks : ∀ c ∈ s.all, ChunkOK hash K cap c
  headCur : Cur hash cap s.head
  tree : ∀ k, K k → live (AMap.get s.tree (hash k)) = itemOfLast (lastOf k (memLog s))
  maxd : s.maxDumped.1 ≤ s.prev.length
  pend : s.pending = true → s.treeID.1 ≤ s.prev.length ∧ s.closing = true ∧ allFlushed s = true
  dump : ∀ d, s.dump = some d → DumpOK hash K s d

theorem inv_init : Inv hash K cap {} := by
  refine ⟨?_, cur_fresh hash cap, ?_, Nat.le_refl _, ?_, ?_⟩
  · intro c hc
    simp [St.all] at hc
    subst hc
    exact chunkOK_fresh hash K cap
  · intro k _
    simp [memLog, St.all, logOf, logFrom, fileLog, lastOf, itemOfLast, live]
  · intro h; simp at h
  · intro d h; simp at h

/-! ### write -/

theorem tree_after_write (hInj : InjOn hash K) {t : Tree} {log : List (Pos × Rec)}
    (ht : ∀ k, K k → live (AMap.get t (hash k)) = itemOfLast (lastOf k log)) (pos : Pos) (r : Rec) (hk : K r.key) :
    ∀ k, K k → live (AMap.get (AMap.set t (hash r.key) (memItem pos r)) (hash k)) =
      itemOfLast (lastOf k (log ++ [(pos, r)])) := by
  intro k hkk
  rw [lastOf_append_single]
  by_cases he : r.key = k
  · subst he
    simp only [if_true, AMap.get_set_self]
    exact live_memItem pos r
  · have hne : hash r.key ≠ hash k := fun e => he (hInj _ _ hk hkk e)
    simp only [he, if_false]
    rw [AMap.get_set_ne _ _ _ _ hne]
    exact ht k hkk

theorem inv_write_same (hInj : InjOn hash K) {s : St} (inv : Inv hash K cap s) (hcl : s.closing = false) (r : Rec)
    (hk : K r.key) (hs : 0 < r.size) :
    Inv hash K cap { s with head := s.head.push hash cap (dataSizeOf s.head.recs, r),
                            tree := AMap.set s.tree (hash r.key)
                              (memItem { chunk := s.prev.length, off := dataSizeOf s.head.recs } r) } := by
  have hhead : ChunkOK hash K cap s.head := inv.chunks s.head (by simp [St.all])
  refine ⟨?_, cur_push hash cap inv.headCur _, ?_, inv.maxd, ?_, ?_⟩
  · intro c hc
    simp only [St.all, List.mem_append, List.mem_singleton] at hc
    rcases hc with hc | hc
    · exact inv.chunks c (by simp [St.all, hc])
    · subst hc; exact chunkOK_push hash K cap hhead inv.headCur r hk hs
  · have hl : ∀ s' : St, s'.prev = s.prev → s'.head = s.head.push hash cap (dataSizeOf s.head.recs, r) →
        memLog s' = memLog s ++ [(({ chunk := s.prev.length, off := dataSizeOf s.head.recs } : Pos), r)] := by
      intro s' h1 h2
      simp only [memLog, St.all, h1, h2, logOf, List.map_append, List.map_singleton, logFrom_append, logFrom_single,
        Chunk.push, fileLog_append, List.length_map, Nat.zero_add, List.append_assoc]
      rfl
    rw [hl]
    · exact tree_after_write hash K hInj inv.tree _ r hk
    · rfl
    · rfl
  · intro hp
    have := inv.pend hp
    rw [hcl] at this
    simp at this
  · intro d hd
    obtain ⟨hts, A, B, hAB, htc, hB, hfl, htr⟩ := inv.dump d hd
    have hBne : B ≠ [] := by
      intro e
      have := hB e
      rw [hcl] at this
      simp at this
    obtain ⟨B0, rfl, hprev⟩ := snoc_decomp hAB hBne
    refine ⟨hts, A, B0 ++ [s.head.push hash cap (dataSizeOf s.head.recs, r)], ?_, htc, by simp, hfl, htr⟩
    simp [St.all, hprev]

theorem inv_write_rot (hInj : InjOn hash K) {s : St} (inv : Inv hash K cap s) (hcl : s.closing = false) (r : Rec)
    (hk : K r.key) (hs : 0 < r.size) :
    Inv hash K cap { s with prev := s.prev ++ [s.head], head := ({} : CrashHint.Chunk).push hash cap (0, r),
                            tree := AMap.set s.tree (hash r.key) (memItem { chunk := s.prev.length + 1, off := 0 } r) } := by
  have hnew : ChunkOK hash K cap (({} : CrashHint.Chunk).push hash cap (0, r)) :=
    chunkOK_push hash K cap (chunkOK_fresh hash K cap) (cur_fresh hash cap) r hk hs
  refine ⟨?_, cur_push hash cap (cur_fresh hash cap) _, ?_, ?_, ?_, ?_⟩
  · intro c hc
    simp only [St.all, List.mem_append, List.mem_singleton] at hc
    rcases hc with (hc | hc) | hc
    · exact inv.chunks c (by simp [St.all, hc])
    · subst hc; exact inv.chunks s.head (by simp [St.all])
    · subst hc; exact hnew
  · have hl : ∀ s' : St, s'.prev = s.prev ++ [s.head] → s'.head = ({} : CrashHint.Chunk).push hash cap (0, r) →
        memLog s' = memLog s ++ [(({ chunk := s.prev.length + 1, off := 0 } : Pos), r)] := by
      intro s' h1 h2
      simp only [memLog, St.all, h1, h2, logOf, List.map_append, List.map_singleton, logFrom_append, logFrom_single,
        Chunk.push, List.length_map, Nat.zero_add, List.append_assoc, List.length_append, List.length_singleton]
      rfl
    rw [hl]
    · exact tree_after_write hash K hInj inv.tree _ r hk
    · rfl
    · rfl
  · have := inv.maxd
    simp only [List.length_append, List.length_singleton]
    omega
  · intro hp
    have := inv.pend hp
    rw [hcl] at this
    simp at this
  · intro d hd
    obtain ⟨hts, A, B, hAB, htc, hB, hfl, htr⟩ := inv.dump d hd
    refine ⟨hts, A, B ++ [({} : CrashHint.Chunk).push hash cap (0, r)], ?_, htc, by simp, hfl, htr⟩
    have : s.prev ++ [s.head] = A ++ B := hAB
    simp [St.all, this]

theorem inv_write (hInj : InjOn hash K) (cfg : Store.Cfg) {s : St} (inv : Inv hash K cap s) (r : Rec)
    (hk : K r.key) (hs : 0 < r.size) : Inv hash K cap (s.write hash cfg cap r) := by
  unfold St.write
  by_cases hcl : s.closing = true
  · rw [if_pos hcl]; exact inv
  · have hcl' : s.closing = false := by simpa using hcl
    rw [if_neg hcl]
    simp only
    split
    · exact inv_write_rot hash K cap hInj inv hcl' r hk hs
    · exact inv_write_same hash K cap hInj inv hcl' r hk hs

/-! ### actions on one chunk that leave its records alone: flush, split closing, split dump -/

theorem inv_modChunk {s : St} (inv : Inv hash K cap s) (i : Nat) (f : CrashHint.Chunk → CrashHint.Chunk)
    (hrec : ∀ c, (f c).recs = c.recs)
    (hok : ∀ c, s.all[i]? = some c → ChunkOK hash K cap c → ChunkOK hash K cap (f c))
    (hcur : ∀ c, s.all[i]? = some c → Cur hash cap c → Cur hash cap (f c))
    (hfl : ∀ c, Flushed c → Flushed (f c)) :
    Inv hash K cap (s.modChunk i f) := by
  have hall := all_modChunk s i f
  have hlog : memLog (s.modChunk i f) = memLog s := by
    unfold memLog
    rw [hall, map_updAt _ f hrec]
  have hcl : (s.modChunk i f).closing = s.closing := by unfold St.modChunk; split; rfl; split <;> rfl
  have htree : (s.modChunk i f).tree = s.tree := by unfold St.modChunk; split; rfl; split <;> rfl
  have hdump : (s.modChunk i f).dump = s.dump := by unfold St.modChunk; split; rfl; split <;> rfl
  have hmax : (s.modChunk i f).maxDumped = s.maxDumped := by unfold St.modChunk; split; rfl; split <;> rfl
  have htid : (s.modChunk i f).treeID = s.treeID := by unfold St.modChunk; split; rfl; split <;> rfl
  have hpend : (s.modChunk i f).pending = s.pending := by unfold St.modChunk; split; rfl; split <;> rfl
  refine ⟨?_, ?_, ?_, ?_, ?_, ?_⟩
  · intro c hc
    rw [hall] at hc
    rcases mem_updAt hc with hc | ⟨c0, hc0, rfl⟩
    · exact inv.chunks c hc
    · exact hok c0 hc0 (inv.chunks c0 (List.mem_of_getElem? hc0))
  · unfold St.modChunk
    by_cases h1 : i < s.prev.length
    · simpa [h1] using inv.headCur
    · simp only [h1, if_false]
      by_cases h2 : i = s.prev.length
      · simp only [h2, if_true]
        apply hcur _ _ inv.headCur
        simp [St.all, h2]
      · simpa [h2] using inv.headCur
  · rw [hlog, htree]; exact inv.tree
  · rw [hmax, prev_length_modChunk]; exact inv.maxd
  · intro hp
    rw [hpend] at hp
    obtain ⟨h1, h2, h3⟩ := inv.pend hp
    rw [htid, prev_length_modChunk, hcl]
    refine ⟨h1, h2, ?_⟩
    rw [allFlushed_iff] at h3 ⊢
    intro c hc
    rw [hall] at hc
    rcases mem_updAt hc with hc | ⟨c0, hc0, rfl⟩
    · exact h3 c hc
    · exact hfl c0 (h3 c0 (List.mem_of_getElem? hc0))
  · intro d hd
    rw [hdump] at hd
    obtain ⟨hts, A, B, hAB, htc, hB, hflA, htr⟩ := inv.dump d hd
    by_cases hi : i < A.length
    · refine ⟨hts, updAt A i f, B, ?_, by rw [length_updAt]; exact htc, by rw [hcl]; exact hB, ?_, ?_⟩
      · rw [hall, hAB, updAt_append_left f _ _ _ hi]
      · intro c hc
        rcases mem_updAt hc with hc | ⟨c0, hc0, rfl⟩
        · exact hflA c hc
        · exact hfl c0 (hflA c0 (List.mem_of_getElem? hc0))
      · rw [map_updAt _ f hrec]; exact htr
    · refine ⟨hts, A, updAt B (i - A.length) f, ?_, htc, ?_, hflA, htr⟩
      · rw [hall, hAB, updAt_append_right f _ _ _ (by omega)]
      · intro e
        rw [hcl]
        apply hB
        have := length_updAt f B (i - A.length)
        rw [e] at this
        exact List.length_eq_zero_iff.mp this.symm

theorem inv_flushTo {s : St} (inv : Inv hash K cap s) (i n : Nat) :
    Inv hash K cap (s.modChunk i (fun c => c.flushTo n)) := by
  apply inv_modChunk hash K cap inv
  · intro c; unfold Chunk.flushTo; split <;> rfl
  · intro c _ h
    unfold Chunk.flushTo
    by_cases hg : c.onDisk ≤ n ∧ n ≤ dataSizeOf c.recs
    · simp only [hg, and_self, if_true]
      exact ⟨h.contig, h.keys, hg.2, by intro e; simp at e, h.hint⟩
    · simpa [hg] using h
  · intro c _ h
    unfold Chunk.flushTo
    split
    · exact h
    · exact h
  · intro c h
    unfold Chunk.flushTo Flushed at *
    by_cases hg : c.onDisk ≤ n ∧ n ≤ dataSizeOf c.recs
    · simp only [hg, and_self, if_true]; omega
    · simpa [hg] using h

theorem inv_rotateSplit {s : St} (inv : Inv hash K cap s) (i : Nat) :
    Inv hash K cap (s.modChunk i Chunk.rotateSplit) := by
  apply inv_modChunk hash K cap inv
  · intro c; unfold Chunk.rotateSplit; split <;> rfl
  · intro c _ h
    have hr : c.rotateSplit.recs = c.recs := by unfold Chunk.rotateSplit; split <;> rfl
    have ho : c.rotateSplit.onDisk = c.onDisk := by unfold Chunk.rotateSplit; split <;> rfl
    have hcr : c.rotateSplit.created = c.created := by unfold Chunk.rotateSplit; split <;> rfl
    refine ⟨by rw [hr]; exact h.contig, by rw [hr]; exact h.keys, by rw [hr, ho]; exact h.le,
      by rw [hcr, ho]; exact h.nocreate, ?_⟩
    rcases h.hint with hold | hc
    · left
      unfold Chunk.rotateSplit
      have : c.hint.last.items.isEmpty = true := by simp [hold.2.1]
      simpa [this] using hold
    · right; exact cur_rotate hash cap hc
  · intro c _ h; exact cur_rotate hash cap h
  · intro c h
    unfold Flushed at *
    unfold Chunk.rotateSplit
    split <;> exact h

theorem inv_setMaxDumped {s : St} (inv : Inv hash K cap s) (m : Nat × Int) (hm : m.1 ≤ s.prev.length) :
    Inv hash K cap { s with maxDumped := m } :=
  ⟨inv.chunks, inv.headCur, inv.tree, hm, inv.pend, inv.dump⟩

theorem inv_dumpSplit {s : St} (inv : Inv hash K cap s) (i j : Nat) : Inv hash K cap (s.dumpSplit i j) := by
  unfold St.dumpSplit
  cases hc : s.all[i]? with
  | none => exact inv
  | some c =>
    simp only
    cases hb : c.hint.closed[j]? with
    | none => exact inv
    | some b =>
      simp only
      by_cases hg : (b.items.isEmpty || (c.files.getD j none).isSome) = true
      · rw [if_pos hg]; exact inv
      · rw [if_neg hg]
        have hne : b.items.isEmpty = false := by
          cases h : b.items.isEmpty
          · rfl
          · simp [h] at hg
        have hilt : i < s.all.length := by
          have := List.getElem?_eq_some_iff.mp hc
          exact this.1
        have hmod : Inv hash K cap (s.modChunk i (fun c => { c with files := setPad c.files j b.dump })) := by
          apply inv_modChunk hash K cap inv
          · intro c'; rfl
          · intro c' hc' h
            rw [hc] at hc'
            cases hc'
            refine ⟨h.contig, h.keys, h.le, h.nocreate, ?_⟩
            rcases h.hint with hold | hcur
            · rw [hold.1] at hb; simp at hb
            · right; exact cur_setFile hash cap hcur j b hb hne
          · intro c' hc' h
            rw [hc] at hc'
            cases hc'
            exact cur_setFile hash cap h j b hb hne
          · intro c' h; exact h
        apply inv_setMaxDumped hash K cap hmod
        rw [prev_length_modChunk]
        unfold setIfLarger
        split
        · simp only [St.all, List.length_append, List.length_singleton] at hilt
          simp only
          omega
        · exact inv.maxd

/-! ### close -/

theorem inv_beginClose {s : St} (inv : Inv hash K cap s) : Inv hash K cap { s with closing := true } := by
  refine ⟨inv.chunks, inv.headCur, inv.tree, inv.maxd, ?_, ?_⟩
  · intro hp
    obtain ⟨h1, _, h3⟩ := inv.pend hp
    exact ⟨h1, rfl, h3⟩
  · intro d hd
    obtain ⟨hts, A, B, hAB, htc, _, hfl, htr⟩ := inv.dump d hd
    exact ⟨hts, A, B, hAB, htc, fun _ => rfl, hfl, htr⟩

theorem inv_removeDump {s : St} (inv : Inv hash K cap s) : Inv hash K cap s.removeDump := by
  unfold St.removeDump
  by_cases hg : (s.closing && !s.pending && allFlushed s && isLarger s.treeID s.maxDumped.1 s.maxDumped.2) = true
  · simp only [hg, if_true]
    simp only [Bool.and_eq_true, Bool.not_eq_true'] at hg
    refine ⟨inv.chunks, inv.headCur, inv.tree, inv.maxd, ?_, ?_⟩
    · intro _
      exact ⟨inv.maxd, hg.1.1.1, hg.1.2⟩
    · intro d hd; simp at hd
  · simpa [hg] using inv

theorem inv_writeDump {s : St} (inv : Inv hash K cap s) : Inv hash K cap s.writeDump := by
  unfold St.writeDump
  by_cases hp : s.pending = true
  · simp only [hp, if_true]
    obtain ⟨h1, h2, h3⟩ := inv.pend hp
    refine ⟨inv.chunks, inv.headCur, inv.tree, inv.maxd, ?_, ?_⟩
    · intro h; simp at h
    · intro d hd
      by_cases hts : s.treeID.2 < 0
      · simp [hts] at hd
      · simp only [hts, if_false, Option.some.injEq] at hd
        subst hd
        refine ⟨by simp only; omega, s.all, [], by simp [St.all], ?_, fun _ => h2, (allFlushed_iff s).mp h3, inv.tree⟩
        simp only [St.all, List.length_append, List.length_singleton]
        omega
  · simpa [hp] using inv

end Inv
end CrashHintLemmas
