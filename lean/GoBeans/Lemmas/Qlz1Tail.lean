/-
  QuickLZ (C10) — level 1, the end of `Compress(x, 1)`: `finish1` (last control word, header, cut), the second loop
  (`ctail_post1`, `ctail_fin1`).  These are the level-3 proofs of `QlzTail3` / `QlzRT` with the level byte of the header
  changed (the second loop and the control-word handling do not depend on the level).  Core-only.
-/
import GoBeans.Lemmas.QlzTotal3
set_option linter.unusedVariables false
set_option linter.unusedSimpArgs false
namespace QlzRT
open Qlz QlzLemmas

/-- the end of `Compress` after both loops (quicklz.go:280-288), level 1 -/
def finish1 (s : Buf) (st : CSt) : Option Buf :=
  match fastWrite st.dest st.cwordPtr (((normCword 32 st.cwordVal) >>> 1) ||| 0x80000000) CWORD_LEN with
  | none => none
  | some d =>
    match writeHeader d 1 true s.size st.dst with
    | none => none
    | some d => some (d.extract 0 st.dst)

/-- the base: nothing left to compress; the last control word and the header are written and the buffer is cut -/
theorem finish_post1 {s c : Buf} {st : CSt} {k F : Nat} (hi : CInv s st k F) (hsrc : st.src = s.size) (hc : finish1 s st = some c) :
    Post s c st k F ∧ c.size = st.dst ∧ c.size ≤ s.size + 400 ∧ headerLen c = some 9 ∧ sizeDecompressed c = some (s.size % 2 ^ 32)
      ∧ sizeCompressed c = some (st.dst % 2 ^ 32) ∧ levelOf c = some 1 ∧ cbitOf c = some 1 := by
  unfold finish1 at hc
  rw [shape_final hi.shape] at hc
  split at hc
  · contradiction
  · rename_i d1 hw1
    split at hc
    · contradiction
    · rename_i d2 hw2
      cases hc
      obtain ⟨hs1, hg1⟩ := fastWrite_spec hw1
      obtain ⟨hs2, _, h0, h1, h5, hg2⟩ := writeHeader_spec hw2
      obtain ⟨hp1, hp2⟩ := hi.ptr
      have hdle := hi.dstle
      have hsz : (d2.extract 0 st.dst).size = st.dst := by simp; omega
      have hget : ∀ j, j < st.dst → (d2.extract 0 st.dst)[j]? = d2[j]? := by
        intro j hj
        rw [Array.getElem?_extract]
        have : j < min st.dst d2.size - 0 := by omega
        simp [this]
        intro h; omega
      have hF : F < 2 ^ 31 := Nat.lt_of_lt_of_le hi.shape.2.1 (Nat.pow_le_pow_right (by omega) hi.shape.1)
      refine ⟨⟨?_, ?_, ?_⟩, hsz, by rw [hsz, ← hi.dsz]; exact hdle, ?_⟩
      · refine ⟨F + 2 ^ 31, ?_, mod_pow_shape hi.shape.1 hi.shape.2.1, by omega, by omega⟩
        apply fastRead4_bytes _ (by omega)
        intro j hj
        rw [hget _ (by omega), hg2 _ (by omega), hg1, if_pos (by simp only [CWORD_LEN]; omega)]
        congr 2; omega
      · intro j h9 hj hns
        rw [hget j hj, hg2 j h9, hg1, if_neg (by simp only [CWORD_LEN]; omega)]
      · rw [hsz]; omega
      · have e1 : fastRead (d2.extract 0 st.dst) 1 4 = some (st.dst % 2 ^ 32) := by
          rw [← h1]; apply fastRead_congr; intro j hj; exact hget _ (by omega)
        have e5 : fastRead (d2.extract 0 st.dst) 5 4 = some (s.size % 2 ^ 32) := by
          rw [← h5]; apply fastRead_congr; intro j hj; exact hget _ (by omega)
        have e0 : (d2.extract 0 st.dst)[0]? = some (hdr0 1 true).toUInt8 := by rw [hget 0 (by omega), h0]
        obtain ⟨r1, r2, r3, r4, r5⟩ := header_read (Or.inl rfl) e0 e1 e5
        exact ⟨r1, r3, r2, r4, by simpa using r5⟩


/-- the header of the finished stream -/
def HdrOK1 (s c : Buf) : Prop :=
  headerLen c = some 9 ∧ sizeDecompressed c = some (s.size % 2 ^ 32) ∧ sizeCompressed c = some (c.size % 2 ^ 32)
    ∧ levelOf c = some 1 ∧ cbitOf c = some 1 ∧ c.size ≤ s.size + 400

/-- tail phase: the rest of the stream is the decoder's final literal run — for any value `V` of the decoder's control
    word (the run only ever tests it against 1) -/
def PostTail1 (s c : Buf) (st : CSt) (k F : Nat) : Prop :=
  Post s c st k F ∧ HdrOK1 s c ∧ ∀ V, 2 ^ 31 ≤ V → V < 2 ^ 32 → TailEnc c s st.dst st.src (V >>> k)

theorem ctail_post1 {s c : Buf} {st2 : CSt} : ∀ (m : Nat) (st : CSt) (k F : Nat), CInv s st k F → st.src + m = s.size →
    ctail s m st = some st2 → finish1 s st2 = some c → PostTail1 s c st k F := by
  intro m
  induction m with
  | zero =>
    intro st k F hi hm h hf
    simp only [ctail, Option.some.injEq] at h
    subst h
    obtain ⟨h1, h2, h2', h3, h4, h5, h6, h7⟩ := finish_post1 hi (by omega) hf
    exact ⟨h1, ⟨h3, h4, by rw [h2]; exact h5, h6, h7, h2'⟩, fun V _ _ => TailEnc.done (by omega)⟩
  | succ m ih =>
    intro st k F hi hm h hf
    rw [ctail_succ] at h
    split at h
    · contradiction
    · rename_i stf hfl
      split at h
      · contradiction
      · rename_i st' hlit
        obtain ⟨kf, Ff, hif, hsrcf, hback, hcase⟩ := flushed_post (c := c) hi hfl
        obtain ⟨hi', e1, e2, e3, e4, b, hb, hb'⟩ := tailLit_spec hlit hif (by omega)
        obtain ⟨hpost', hhdr, htail'⟩ := ih st' (kf + 1) Ff hi' (by omega) h hf
        have ⟨hpostf, hbyte⟩ := @post_tok s c stf st' kf Ff Ff hif.ptr e3 (by omega) e4
          (fun W hW => (w_lit hif.klt hif.shape.2.1 hW).1)
          (by intro csz hcs; omega) hpost'
        have hcb : c[stf.dst]? = some b := by rw [hbyte stf.dst (Nat.le_refl _) (by omega), hb']
        refine ⟨hback hpostf, hhdr, ?_⟩
        intro V hV1 hV2
        rcases hcase with ⟨hk, rfl, rfl, rfl⟩ | ⟨rfl, rfl, rfl, hcp, hd⟩
        · have hne := w_ne_one hk hV1
          refine TailEnc.step b (by omega) (by simpa [hne] using hcb) hb ?_
          have := htail' V hV1 hV2
          rw [e1, e2] at this
          simpa [hne, w_shift] using this
        · rw [w_eq_one hV1 hV2]
          rw [hd] at hcb
          refine TailEnc.step b (by omega) (by simpa using hcb) (by rw [← hsrcf]; exact hb) ?_
          have := htail' 0x80000000 (by decide) (by decide)
          rw [e1, e2, hd, hsrcf] at this
          simpa using this

/-- the first loop has ended with input left: the rest of the stream is what the decoder's pass that enters the final
    literal run needs (the control bit it tests is 0, after a reload if the open word is full) -/
theorem ctail_fin1 {s c : Buf} {st st2 : CSt} {k F : Nat} (hi : CInv s st k F) (hlt : st.src < s.size)
    (h : ctail s (s.size - st.src) st = some st2) (hf : finish1 s st2 = some c) :
    Post s c st k F ∧ HdrOK1 s c ∧ ∀ W, fastRead c st.cwordPtr 4 = some W →
      ∃ p' cw', cwAt c st.dst (W >>> k) = some (p', cw') ∧ cw' &&& 1 = 0 ∧ TailEnc c s p' st.src cw' := by
  obtain ⟨hpost, hhdr, htail⟩ := ctail_post1 _ st k F hi (by omega) h hf
  refine ⟨hpost, hhdr, ?_⟩
  intro W hW
  obtain ⟨W0, hW0, hWm, hW1, hW2⟩ := hpost.W
  rw [hW] at hW0
  cases hW0
  obtain ⟨m, hm⟩ : ∃ m, s.size - st.src = m + 1 := ⟨s.size - st.src - 1, by omega⟩
  rw [hm, ctail_succ] at h
  split at h
  · contradiction
  · rename_i stf hfl
    split at h
    · contradiction
    · rename_i st' hlit
      obtain ⟨kf, Ff, hif, hsrcf, hback, hcase⟩ := flushed_post (c := c) hi hfl
      obtain ⟨hi', e1, e2, e3, e4, b, hb, hb'⟩ := tailLit_spec hlit hif (by omega)
      obtain ⟨hpost', _, htail'⟩ := ctail_post1 m st' (kf + 1) Ff hi' (by omega) h hf
      have ⟨hpostf, hbyte⟩ := @post_tok s c stf st' kf Ff Ff hif.ptr e3 (by omega) e4
        (fun W hW => (w_lit hif.klt hif.shape.2.1 hW).1)
        (by intro csz hcs; omega) hpost'
      have hcb : c[stf.dst]? = some b := by rw [hbyte stf.dst (Nat.le_refl _) (by omega), hb']
      obtain ⟨W', hW', hWm', hW1', hW2'⟩ := hpost'.W
      have hbit := (w_lit hif.klt hif.shape.2.1 hWm').2
      rcases hcase with ⟨hk, rfl, rfl, rfl⟩ | ⟨rfl, rfl, rfl, hcp, hd⟩
      · -- the open word has room: no reload
        rw [e3, hW] at hW'
        cases hW'
        have hne := w_ne_one hk hW1
        exact ⟨stf.dst, W >>> kf, by simp [cwAt, hne], hbit, htail W hW1 hW2⟩
      · -- the open word is full: the decoder reloads the word reserved by the second loop
        rw [e3, hcp] at hW'
        have hne : W' ≠ 1 := by omega
        refine ⟨st.dst + 4, W', by simp [cwAt, w_eq_one hW1 hW2, hW'], by simpa using hbit, ?_⟩
        rw [hd] at hcb
        refine TailEnc.step b (by omega) (by simpa [hne] using hcb) (by rw [← hsrcf]; exact hb) ?_
        have := htail' W' hW1' hW2'
        rw [e1, e2, hd, hsrcf] at this
        simpa [hne] using this


end QlzRT
