/-
  C13 (b) with restarts: histories of the class `SafeR` answer like the reference map (`run_safeR`).
-/
import GoBeans.Lemmas.CollideRReopen4
import GoBeans.Lemmas.CollideSafeMain
set_option linter.unusedSimpArgs false
set_option linter.unusedVariables false
namespace CollideLemmas
open Store Spec HintIndex Collide StoreLemmas HintBufferLemmas HintIndexLemmas

section
variable (hash : Key → Nat)

theorem step_safeR {cfg : Collide.Cfg} (hcv : cfg.s.checkVHash = false) (hdf : cfg.s.dataFileMax < 4294967296) (hcap : 1 ≤ cfg.cap)
    {st : State} {x : TrkR} {n : Nat} (hn : n + 1 < 2147483647) (inv : RInv hash cfg st x n) (op : Collide.Op) (x' : TrkR)
    (h : x.step hash op = some x') : StepOKR hash cfg st x n op x' := by
  cases op with
  | set k body flag rev ts size =>
    simp only [TrkR.step] at h
    by_cases hc : (x.restarted && !(x.t.writeOK hash k)) = true
    · rw [if_pos hc] at h; cases h
    · rw [if_neg hc] at h
      have hw : x.restarted = true → x.t.writeOK hash k = true := by
        intro hr
        cases hwk : x.t.writeOK hash k with
        | true => rfl
        | false => exact absurd (by simp [hr, hwk]) hc
      simp only [Trk.step] at h
      by_cases hc2 : rev = 0 ∧ 0 < size ∧ body.length < 2^63
      · rw [if_pos hc2] at h
        obtain ⟨h0, h1, h2⟩ := hc2
        subst h0
        simp only [Option.map_some, Option.some.injEq] at h
        subst h
        exact set_safeR hash hcv hdf hcap hn inv k body flag ts size h1 h2 hw
      · rw [if_neg hc2] at h; cases h
  | delete k size wts =>
    simp only [TrkR.step, Trk.step] at h
    by_cases hc : 0 < size ∧ (k ∈ x.t.reg ∨ x.t.others hash k = [])
    · rw [if_pos hc] at h
      simp only [Option.map_some, Option.some.injEq] at h
      subst h
      exact delete_safeR hash hcv hdf hcap hn inv k size wts hc.1 hc.2
    · rw [if_neg hc] at h; cases h
  | incr k d size wts =>
    simp only [TrkR.step] at h
    by_cases hc : (x.restarted && !(x.t.writeOK hash k)) = true
    · rw [if_pos hc] at h; cases h
    · rw [if_neg hc] at h
      have hw : x.restarted = true → x.t.writeOK hash k = true := by
        intro hr
        cases hwk : x.t.writeOK hash k with
        | true => rfl
        | false => exact absurd (by simp [hr, hwk]) hc
      simp only [Trk.step] at h
      by_cases hc2 : 0 < size
      · rw [if_pos hc2] at h
        simp only [Option.map_some, Option.some.injEq] at h
        subst h
        exact incr_safeR hash hdf hcap inv k d size wts hc2 hw
      · rw [if_neg hc2] at h; cases h
  | get k =>
    simp only [TrkR.step, Trk.step, Option.map_some, Option.some.injEq] at h
    subst h; exact get_safeR hash inv k
  | info k =>
    simp only [TrkR.step, Trk.step, Option.map_some, Option.some.injEq] at h
    subst h; exact info_safeR hash inv k
  | flush =>
    simp only [TrkR.step, Trk.step, Option.map_some, Option.some.injEq] at h
    subst h; exact flush_safeR hash inv
  | hintDump =>
    simp only [TrkR.step, Trk.step, Option.map_some, Option.some.injEq] at h
    subst h; exact dump_safeR hash inv
  | reopen kt =>
    simp only [TrkR.step] at h
    by_cases hc : (x.t.allDetected hash && !x.t.written.isEmpty) = true
    · rw [if_pos hc] at h
      simp only [Option.some.injEq] at h
      subst h
      simp only [Bool.and_eq_true, Bool.not_eq_true', List.isEmpty_eq_false_iff] at hc
      unfold StepOKR
      simp only [Collide.cmdOf, Collide.step, and_true]
      exact reopen_safeR hash inv hc.1 hc.2 kt
    · rw [if_neg hc] at h; cases h
  | hintMerge => simp [TrkR.step, Trk.step] at h
  | gc g m => simp [TrkR.step, Trk.step] at h

theorem rinv_init (cfg : Collide.Cfg) : RInv hash cfg {} {} 0 := by
  have s := sinv_init hash cfg
  refine { pos := s.pos, ra := s.ra, ob := s.ob, spec := s.spec, wr := s.wr, vers := s.vers, tab := s.tab, tabc := s.tabc,
           tabne := s.tabne, slot := ?_, ownw := ?_, own := ?_, hgood := s.hgood, hmerged := s.hmerged, hex := s.hex,
           hmax := fun _ => s.hmax, sound := ?_, dsok := ?_, dsfull := ?_, szpos := ?_, le := ?_, tidle := ?_, alld := ?_ }
  · intro h ti hti; cases hti
  · intro h o ho; cases ho
  · intro k hk; cases hk
  · intro c y hy
    rcases hy with h | ⟨sp, hsp, _⟩
    · cases h
    · cases hsp
  · intro c; exact ⟨fun sp hsp => (by cases hsp), Nat.le_refl _⟩
  · intro c hne; exact absurd rfl hne
  · intro c hz; exact absurd hz (by simp [Bucket.chunks])
  · intro c _; rfl
  · rfl
  · intro hr; cases hr

theorem run_safeR {cfg : Collide.Cfg} (hcv : cfg.s.checkVHash = false) (hdf : cfg.s.dataFileMax < 4294967296) (hcap : 1 ≤ cfg.cap)
    (ops : List Collide.Op) :
    ∀ (st : State) (x : TrkR) (n : Nat), RInv hash cfg st x n → n + ops.length < 2147483647 →
      ∀ x', TrkR.run hash x ops = some x' →
      (Collide.run hash cfg st ops).2.map coarse = (Spec.run {} x.t.m (ops.filterMap Collide.cmdOf)).2.map coarse := by
  induction ops with
  | nil => intro st x n _ _ x' _; rfl
  | cons op ops ih =>
    intro st x n inv hn x' hrun
    unfold TrkR.run at hrun
    cases hst : x.step hash op with
    | none => rw [hst] at hrun; cases hrun
    | some x1 =>
      rw [hst] at hrun
      simp only at hrun
      have hlen : (op :: ops).length = ops.length + 1 := rfl
      obtain ⟨i1, i2⟩ := step_safeR hash hcv hdf hcap (by rw [hlen] at hn; omega) inv op x1 hst
      have ih' := ih _ x1 (n + 1) i1 (by rw [hlen] at hn; omega) x' hrun
      unfold Collide.run
      simp only
      cases hc : Collide.cmdOf op with
      | none =>
        rw [hc] at i2
        simp only at i2
        simp only [List.filterMap_cons, hc]
        rw [ih', i2]
      | some c =>
        rw [hc] at i2
        simp only at i2
        obtain ⟨j1, j2⟩ := i2
        simp only [List.filterMap_cons, hc]
        unfold Spec.run
        simp only [List.map_cons]
        rw [ih', j1, j2]

end
end CollideLemmas
