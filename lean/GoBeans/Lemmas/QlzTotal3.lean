/-
  QuickLZ (C10) — `Compress(x, 3)` NEVER PANICS (`compress3_total`), hence THE FULL LEVEL-3 ROUND TRIP (`roundtrip3`):
  for every non-empty value below 4 GiB − 400, `Compress(x,3)` returns a stream `c` and `Decompress(c) = x`.
  Ingredients: the candidate searches read only inside the source (`HtOK`: every hash-table entry is a position with
  three bytes after it), and `dst` stays inside `destination = make(len+400)`: a token never emits more than it
  consumes, at most 4 bytes, a control word costs 4 bytes per 31 tokens, and past ¾ of the input the give-up rule
  (`giveUp`, quicklz.go:119) caps the expansion (`Acc`).  Core-only.
-/
import GoBeans.Lemmas.QlzRT
set_option linter.unusedVariables false
set_option linter.unusedSimpArgs false
namespace QlzRT
open Qlz QlzLemmas

/-! ## `Compress(x, 3)` never panics: the searches -/

theorem getElem?_ok {α} {a : Array α} {i : Nat} (h : i < a.size) : ∃ b, a[i]? = some b := ⟨a[i], Array.getElem?_eq_getElem h⟩

theorem extend3_total (s : Buf) (o src rem : Nat) (ho : o ≤ src) (hr : src + rem < s.size) :
    ∀ (fuel m : Nat), m ≤ rem → ∃ r, extend3 s o src rem fuel m = some r := by
  intro fuel
  induction fuel with
  | zero => intro m _; exact ⟨m, rfl⟩
  | succ f ih =>
    intro m hm
    unfold extend3
    obtain ⟨a, ha⟩ := getElem?_ok (a := s) (i := o + m) (by omega)
    obtain ⟨b, hb⟩ := getElem?_ok (a := s) (i := src + m) (by omega)
    rw [ha, hb]
    simp only
    split
    · rename_i hc; exact ih (m + 1) (by omega)
    · exact ⟨m, rfl⟩

/-- every hash-table entry is a position with three bytes after it -/
def HtOK (s : Buf) (ht : Array Nat) : Prop := ht.size = 65536 ∧ ∀ (i v : Nat), ht[i]? = some v → v + 2 < s.size

theorem cands3_total (s : Buf) (ht : Array Nat) (hash src fetch rem c : Nat) (hht : HtOK s ht) (hh : hash < 4096)
    (hr : src + rem < s.size) (h3 : 3 ≤ rem) :
    ∀ (fuel k ml o : Nat), ∃ r, cands3 s ht hash src fetch rem c fuel k ml o = some r := by
  intro fuel
  induction fuel with
  | zero => intro k ml o; exact ⟨_, rfl⟩
  | succ f ih =>
    intro k ml o
    unfold cands3
    split
    · rename_i hk
      obtain ⟨cand, hcand⟩ := getElem?_ok (a := ht) (i := hash * 16 + k) (by rw [hht.1]; omega)
      have hc2 := hht.2 _ _ hcand
      rw [hcand]
      simp only
      obtain ⟨a0, ha0⟩ := getElem?_ok (a := s) (i := cand) (by omega)
      obtain ⟨a1, ha1⟩ := getElem?_ok (a := s) (i := cand + 1) (by omega)
      obtain ⟨a2, ha2⟩ := getElem?_ok (a := s) (i := cand + 2) (by omega)
      rw [ha0]
      simp only
      split
      · exact ih _ _ _
      · rw [ha1]
        simp only
        split
        · exact ih _ _ _
        · rw [ha2]
          simp only
          split
          · exact ih _ _ _
          · rename_i hcond
            have hlt : (cand : Int) < (src : Int) - 2 := by
              have := not_or.mp hcond
              omega
            obtain ⟨m, hm⟩ := extend3_total s cand src rem (by omega) hr 300 3 h3
            rw [hm]
            simp only
            split <;> exact ih _ _ _
    · exact ⟨_, rfl⟩


theorem hashOf_lt (f : Nat) : hashOf f < 4096 := by
  unfold hashOf
  have := @Nat.and_le_right ((f >>> 12) ^^^ f) 4095
  omega

theorem HtOK_set {s : Buf} {ht : Array Nat} (h : HtOK s ht) (i v : Nat) (hv : v + 2 < s.size) : HtOK s (ht.setIfInBounds i v) := by
  refine ⟨by rw [Array.size_setIfInBounds]; exact h.1, ?_⟩
  intro j w hj
  rw [Array.getElem?_setIfInBounds] at hj
  split at hj
  · split at hj
    · cases hj; exact hv
    · cases hj
  · exact h.2 j w hj

theorem fill3_total (s : Buf) (src : Nat) : ∀ (n u : Nat) (ht : Array Nat) (hc : Array UInt8), HtOK s ht → hc.size = 4096 →
    src + u + n + 2 ≤ s.size → ∃ ht' hc', fill3 s src n u ht hc = some (ht', hc') ∧ HtOK s ht' ∧ hc'.size = 4096 := by
  intro n
  induction n with
  | zero => intro u ht hc h1 h2 _; exact ⟨ht, hc, rfl, h1, h2⟩
  | succ n ih =>
    intro u ht hc h1 h2 hb
    unfold fill3
    obtain ⟨f, hf⟩ := fastRead_isSome (c := s) (p := src + u) 3 (by omega)
    rw [hf]
    simp only
    have hh := hashOf_lt f
    obtain ⟨c, hcc⟩ := getElem?_ok (a := hc) (i := hashOf f) (by omega)
    rw [hcc]
    simp only
    have hidx : hashOf f * 16 + (c.toNat &&& 15) < ht.size := by
      have := @Nat.and_le_right c.toNat 15
      rw [h1.1]; omega
    unfold wrN
    rw [if_pos hidx]
    simp only
    exact ih (u + 1) _ _ (HtOK_set h1 _ _ (by omega)) (by rw [Array.size_setIfInBounds]; exact h2) (by omega)


/-- sizes of the tables and the range of the hash-table entries -/
structure TInv (s : Buf) (st : CSt) : Prop where
  ht : HtOK s st.ht
  hc : st.hc.size = 4096
  dsz : st.dest.size = s.size + 400

theorem emit_total {dest : Buf} {dst enc len : Nat} (h : dst + len ≤ dest.size) :
    ∃ d, (fastWrite dest dst enc len).map (fun d => (d, dst + len)) = some (d, dst + len) ∧ d.size = dest.size := by
  obtain ⟨d, hd⟩ := fastWrite_ok dest dst enc len h
  exact ⟨d, by rw [hd]; rfl, (fastWrite_spec hd).1⟩

/-- one pass of the first loop (after the control-word handling) cannot panic while four bytes of `destination` are
    free; it consumes at least one byte, emits at most four and never more than it consumes -/
theorem cstep3_total {s : Buf} {st : CSt} (hi : TInv s st) (hsrc : (st.src : Int) ≤ (s.size : Int) - 11)
    (hd : st.dst + 4 ≤ st.dest.size) :
    ∃ st', cstep3 s st = some st' ∧ TInv s st' ∧ st.src < st'.src ∧ st'.dst ≤ st.dst + 4 ∧ st.dst < st'.dst
      ∧ st'.dst + st.src ≤ st.dst + st'.src := by
  unfold cstep3
  simp only
  obtain ⟨fetch, hfetch⟩ := fastRead_isSome (c := s) (p := st.src) 3 (by omega)
  rw [hfetch]
  simp only
  have hh := hashOf_lt fetch
  obtain ⟨c, hcc⟩ := getElem?_ok (a := st.hc) (i := hashOf fetch) (by rw [hi.hc]; exact hh)
  rw [hcc]
  simp only
  have hrem3 : (3 : Nat) ≤ (if (s.size : Int) - 4 - (st.src : Int) + 1 - 1 ≤ 255 then ((s.size : Int) - 4 - (st.src : Int) + 1 - 1).toNat else 255) := by
    split <;> omega
  have hremb : st.src + (if (s.size : Int) - 4 - (st.src : Int) + 1 - 1 ≤ 255 then ((s.size : Int) - 4 - (st.src : Int) + 1 - 1).toNat else 255) + 4 ≤ s.size := by
    split <;> omega
  obtain ⟨⟨ml, o2⟩, hcands⟩ := cands3_total s st.ht (hashOf fetch) st.src fetch _ c.toNat hi.ht hh (by omega) hrem3 17 0 0 0
  have hgood := cands3_spec s st.ht (hashOf fetch) st.src fetch _ c.toNat hfetch 17 0 0 0 ml o2 (Or.inl rfl) hcands
  rw [hcands]
  simp only
  have hidx : hashOf fetch * 16 + (c.toNat &&& 15) < st.ht.size := by
    have := @Nat.and_le_right c.toNat 15
    rw [hi.ht.1]; omega
  rw [if_neg (by omega)]
  have hht1 : HtOK s (st.ht.setIfInBounds (hashOf fetch * 16 + (c.toNat &&& 15)) st.src) := HtOK_set hi.ht _ _ (by omega)
  have hhc1 : (st.hc.setIfInBounds (hashOf fetch) (c + 1)).size = 4096 := by rw [Array.size_setIfInBounds]; exact hi.hc
  split
  · -- a match
    rename_i hcond
    rcases hgood with h0 | ⟨g1, g2, g3, g4⟩
    · omega
    have g3' := g3 hrem3
    obtain ⟨ht', hc', hfill, hht', hhc'⟩ := fill3_total s st.src (ml - 1) 1 _ _ hht1 hhc1 (by omega)
    rw [hfill]
    simp only
    have hnn : ∀ (enc len : Nat), len ≤ 4 → (fastWrite st.dest st.dst enc len).map (fun d => (d, st.dst + len)) ≠ none := by
      intro enc len hl hn
      obtain ⟨d, hd1, _⟩ := emit_total (dest := st.dest) (dst := st.dst) (enc := enc) (len := len) (by omega)
      rw [hd1] at hn; cases hn
    split
    · rename_i hnone
      exfalso
      repeat' (split at hnone)
      all_goals exact hnn _ _ (by omega) hnone
    · rename_i d dst' hsome
      have key : d.size = st.dest.size ∧ st.dst < dst' ∧ dst' ≤ st.dst + 4 ∧ dst' ≤ st.dst + ml := by
        repeat' (split at hsome)
        all_goals (obtain ⟨e1, e2, _, _, _⟩ := emit_spec (by omega) hsome; refine ⟨e2, ?_, ?_, ?_⟩ <;> omega)
      obtain ⟨k1, k2, k3, k4⟩ := key
      exact ⟨_, rfl, ⟨hht', hhc', by show d.size = _; rw [k1, hi.dsz]⟩, by show st.src < st.src + ml; omega, k3, k2,
        by show dst' + st.src ≤ st.dst + (st.src + ml); omega⟩
  · -- a literal
    obtain ⟨b, hb⟩ := getElem?_ok (a := s) (i := st.src) (by omega)
    rw [hb]
    simp only
    obtain ⟨d, hw⟩ := wr_ok b (by omega : st.dst < st.dest.size)
    rw [hw]
    exact ⟨_, rfl, ⟨hht1, hhc1, by show d.size = _; rw [wr_size hw, hi.dsz]⟩, by show st.src < st.src + 1; omega, by show st.dst + 1 ≤ _; omega, by show st.dst < st.dst + 1; omega, by show st.dst + 1 + st.src ≤ st.dst + (st.src + 1); omega⟩

/-! ## the bookkeeping that keeps `dst` inside `destination` -/

/-- `k` tokens since the last control word was reserved (at `d0 - 4`), `B` control words written so far -/
structure Acc (s : Buf) (st : CSt) (k B d0 : Nat) : Prop where
  a1 : 31 * B + k ≤ st.src
  a2 : st.dst ≤ st.src + 13 + 4 * B
  a3 : st.dst ≤ d0 + 4 * k
  a4 : d0 ≤ 3 * (s.size / 4) + 17 + 4 * (3 * (s.size / 4) / 31) ∨ d0 ≤ s.size + 4

theorem storedStream_total (s : Buf) : ∃ out, storedStream s 3 = some out := by
  unfold storedStream
  obtain ⟨d, hd⟩ := writeHeader_ok (Array.replicate (s.size + DEFAULT_HEADERLEN) 0) 3 s.size (s.size + DEFAULT_HEADERLEN) false
    (by simp [DEFAULT_HEADERLEN])
  rw [hd]
  exact ⟨_, rfl⟩

theorem flushed_total {s : Buf} {st : CSt} {k F : Nat} (hi : CInv s st k F) : ∃ stf, flushed st = some stf := by
  unfold flushed
  split
  · obtain ⟨d, hd⟩ := fastWrite_ok st.dest st.cwordPtr ((st.cwordVal >>> 1) ||| 0x80000000) 4 (by have := hi.ptr; have := hi.dstle; omega)
    rw [hd]; exact ⟨_, rfl⟩
  · exact ⟨_, rfl⟩

/-- THE FIRST LOOP NEVER PANICS: it ends by giving up (stored form) or by leaving the loop in a state that satisfies
    all the invariants, with `dst` at most 124 past the bound of `Acc.a4` -/
theorem cloop_total {s : Buf} : ∀ (fuel : Nat) (st : CSt) (k F B d0 : Nat), CInv s st k F → TInv s st → Acc s st k B d0 →
    s.size + 1 ≤ fuel + st.src →
    (∃ out, cloop s 3 fuel st = some (.stored out))
    ∨ (∃ st1 k1 F1 B1 d1, cloop s 3 fuel st = some (.fin st1) ∧ CInv s st1 k1 F1 ∧ TInv s st1 ∧ Acc s st1 k1 B1 d1
        ∧ ¬ ((st1.src : Int) ≤ (s.size : Int) - 11)) := by
  intro fuel
  induction fuel with
  | zero => intro st k F B d0 hi _ _ hf; have := hi.srcle; omega
  | succ n ih =>
    intro st k F B d0 hi hti hacc hfuel
    rw [cloop_succ]
    by_cases hmain : (st.src : Int) ≤ (s.size : Int) - 11
    · rw [if_pos hmain]
      split
      · obtain ⟨out, ho⟩ := storedStream_total s
        left; exact ⟨out, by rw [ho]; rfl⟩
      · rename_i hng
        obtain ⟨stf, hfl⟩ := flushed_total hi
        rw [hfl]
        simp only
        obtain ⟨kf, Ff, hif, hsrcf, _, hcase⟩ := flushed_post (c := #[]) hi hfl
        -- invariants of the state after the control-word handling
        have htif : TInv s stf := by
          rcases hcase with ⟨_, rfl, _, _⟩ | ⟨_, _, _, _, _⟩
          · exact hti
          · unfold flushed at hfl
            split at hfl
            · split at hfl
              · contradiction
              · simp only [Option.some.injEq] at hfl; subst hfl; exact ⟨hti.ht, hti.hc, hif.dsz⟩
            · simp only [Option.some.injEq] at hfl; subst hfl; exact hti
        obtain ⟨Bf, df, haccf⟩ : ∃ Bf df, Acc s stf kf Bf df := by
          rcases hcase with ⟨hk, rfl, rfl, rfl⟩ | ⟨rfl, rfl, rfl, hcp, hdst⟩
          · exact ⟨B, d0, hacc⟩
          · refine ⟨B + 1, st.dst + 4, ⟨by rw [hsrcf]; have := hacc.a1; omega, by rw [hsrcf, hdst]; have := hacc.a2; omega, by rw [hdst]; omega, ?_⟩⟩
            have hodd : st.cwordVal &&& 1 = 1 := (shape_odd hi.shape).mpr rfl
            have hg : ¬ (giveUp s.size st.src st.dst = true) := fun h => hng ⟨hodd, h⟩
            simp only [giveUp, decide_eq_true_eq, shr] at hg
            have h1 := hacc.a1
            have h2 := hacc.a2
            simp only [Nat.reducePow] at hg
            by_cases hlow : st.src > 3 * (s.size / 4)
            · right
              have : ¬ (st.dst > st.src - st.src / 32) := fun h => hg ⟨hlow, h⟩
              have := hi.srcle
              omega
            · left
              omega
        have hdst4 : stf.dst + 4 ≤ stf.dest.size := by
          rw [hif.dsz]
          have h3 := haccf.a3
          have hk := hif.klt
          rcases haccf.a4 with h4 | h4 <;> omega
        obtain ⟨st', hstep, hti', hs1, hs2, hs3, hs4⟩ := cstep3_total htif (by rw [hsrcf]; exact hmain) hdst4
        rw [hstep]
        simp only
        obtain ⟨t1, t2, t3, t4, htok⟩ := cstep3_spec hstep (by rw [hsrcf]; exact hmain)
        obtain ⟨hp1, hp2⟩ := hif.ptr
        have hacc' : Acc s st' (kf + 1) Bf df :=
          ⟨by have := haccf.a1; omega, by have := haccf.a2; omega, by have := haccf.a3; omega, haccf.a4⟩
        obtain ⟨F', hi'⟩ : ∃ F', CInv s st' (kf + 1) F' := by
          cases htok with
          | lit b a1 a2 a3 a4 a5 =>
            exact ⟨Ff, ⟨by rw [a3]; exact shape_lit hif.shape hif.klt, by rw [t1, a2]; exact ⟨hp1, by omega⟩, t3, by rw [a1]; omega, by rw [t2, hif.dsz]⟩⟩
          | mat ml off enc len a1 a2 a3 a4 a5 a6 a7 a8 a9 a10 =>
            obtain ⟨l1, l2, l3, l4⟩ := a5
            exact ⟨Ff + 2 ^ kf, ⟨by rw [a3]; exact shape_mat hif.shape hif.klt, by rw [t1, a2]; exact ⟨hp1, by omega⟩, t3, by rw [a1]; omega, by rw [t2, hif.dsz]⟩⟩
        exact ih st' (kf + 1) F' Bf df hi' hti' hacc' (by omega)
    · rw [if_neg hmain]
      right
      exact ⟨st, k, F, B, d0, rfl, hi, hti, hacc, hmain⟩

/-- the second loop never panics as long as five bytes of `destination` are free per remaining input byte -/
theorem ctail_total {s : Buf} : ∀ (m : Nat) (st : CSt) (k F : Nat), CInv s st k F → st.src + m = s.size →
    st.dst + 5 * m ≤ s.size + 400 → ∃ st2 k2 F2, ctail s m st = some st2 ∧ CInv s st2 k2 F2 ∧ st2.src = s.size := by
  intro m
  induction m with
  | zero => intro st k F hi hm _; exact ⟨st, k, F, rfl, hi, by omega⟩
  | succ m ih =>
    intro st k F hi hm hroom
    rw [ctail_succ]
    obtain ⟨stf, hfl⟩ := flushed_total hi
    rw [hfl]
    simp only
    obtain ⟨kf, Ff, hif, hsrcf, _, hcase⟩ := flushed_post (c := #[]) hi hfl
    have hdstf : stf.dst ≤ st.dst + 4 := by
      rcases hcase with ⟨_, rfl, _, _⟩ | ⟨_, _, _, _, h⟩ <;> omega
    obtain ⟨b, hb⟩ := getElem?_ok (a := s) (i := stf.src) (by omega)
    obtain ⟨d, hw⟩ := wr_ok b (by rw [hif.dsz]; omega : stf.dst < stf.dest.size)
    have hlit : tailLit s stf = some ⟨stf.src + 1, stf.dst + 1, stf.cwordVal >>> 1, stf.cwordPtr, d, stf.ht, stf.cache, stf.hc, stf.fetch, stf.lits⟩ := by
      unfold tailLit
      rw [hb]
      simp only
      rw [hw]
    rw [hlit]
    simp only
    obtain ⟨hi', e1, e2, _⟩ := tailLit_spec hlit hif (by omega)
    exact ih _ (kf + 1) Ff hi' (by rw [e1]; omega) (by rw [e2]; omega)

theorem finish3_total {s : Buf} {st : CSt} {k F : Nat} (hi : CInv s st k F) : ∃ c, finish3 s st = some c := by
  unfold finish3
  obtain ⟨d1, h1⟩ := fastWrite_ok st.dest st.cwordPtr (((normCword 32 st.cwordVal) >>> 1) ||| 0x80000000) CWORD_LEN
    (by have := hi.ptr; have := hi.dstle; simp only [CWORD_LEN]; omega)
  rw [h1]
  simp only
  obtain ⟨d2, h2⟩ := writeHeader_ok d1 3 s.size st.dst true (by rw [(fastWrite_spec h1).1, hi.dsz]; omega)
  rw [h2]
  exact ⟨_, rfl⟩

/-- (3) `Compress(x, 3)` NEVER PANICS, for every value below 4 GiB − 400 (in fact for every value): every index it
    uses is in range; in particular the output never outgrows `len(x) + 400` — thanks to the give-up rule. -/
theorem compress3_total : compress3_total_statement := by
  intro x _
  by_cases hx : x.size = 0
  · exact ⟨#[], by unfold compress; simp [hx]⟩
  rw [compress3_eq x hx]
  obtain ⟨fetch, hfetch⟩ : ∃ f, (if (0 : Int) ≤ (x.size : Int) - 11 then fastRead x 0 3 else some 0) = some f := by
    split
    · exact fastRead_isSome 3 (by omega)
    · exact ⟨0, rfl⟩
  rw [hfetch]
  simp only
  have hi : CInv x (cinit3 x fetch) 0 0 :=
    ⟨shape_init, ⟨by simp [cinit3], by simp [cinit3]⟩, by simp [cinit3], by simp [cinit3], by simp [cinit3]⟩
  have hacc : Acc x (cinit3 x fetch) 0 0 13 := ⟨by simp [cinit3], by simp [cinit3], by simp [cinit3], Or.inl (by omega)⟩
  have hloop : (∃ out, cloop x 3 (x.size + 1) (cinit3 x fetch) = some (.stored out))
      ∨ (∃ st1 k1 F1 B1 d1, cloop x 3 (x.size + 1) (cinit3 x fetch) = some (.fin st1) ∧ CInv x st1 k1 F1 ∧ Acc x st1 k1 B1 d1 ∧ x.size - st1.src ≤ 10) := by
    by_cases hn : 3 ≤ x.size
    · have hti : TInv x (cinit3 x fetch) := by
        refine ⟨⟨by simp [cinit3], ?_⟩, by simp [cinit3], by simp [cinit3]⟩
        intro i v hv
        simp only [cinit3, Array.getElem?_replicate] at hv
        split at hv
        · cases hv; omega
        · cases hv
      rcases cloop_total (x.size + 1) (cinit3 x fetch) 0 0 0 13 hi hti hacc (by simp [cinit3]) with ⟨out, ho⟩ | ⟨st1, k1, F1, B1, d1, h1, hi1, _, hacc1, hex⟩
      · exact Or.inl ⟨out, ho⟩
      · exact Or.inr ⟨st1, k1, F1, B1, d1, h1, hi1, hacc1, by omega⟩
    · -- fewer than three bytes: the first loop does not run
      right
      refine ⟨cinit3 x fetch, 0, 0, 0, 13, ?_, hi, hacc, by simp [cinit3]; omega⟩
      rw [cloop_succ, if_neg (by simp [cinit3]; omega)]
  rcases hloop with ⟨out, ho⟩ | ⟨st1, k1, F1, B1, d1, h1, hi1, hacc1, hex⟩
  · rw [ho]; exact ⟨out, rfl⟩
  · rw [h1]
    simp only
    have hroom : st1.dst + 5 * (x.size - st1.src) ≤ x.size + 400 := by
      have h3 := hacc1.a3
      have hk := hi1.shape.1
      have := hi1.srcle
      rcases hacc1.a4 with h4 | h4 <;> omega
    obtain ⟨st2, k2, F2, h2, hi2, _⟩ := ctail_total (x.size - st1.src) st1 k1 F1 hi1 (by have := hi1.srcle; omega) hroom
    rw [h2]
    exact finish3_total hi2

/-- (3) THE FULL LEVEL-3 STATEMENT: for every non-empty value below 4 GiB − 400, `Compress(x, 3)` returns a stream and
    `Decompress` of that stream is `x`. -/
theorem roundtrip3 : roundtrip3_statement := roundtrip3_of_total compress3_total

end QlzRT
