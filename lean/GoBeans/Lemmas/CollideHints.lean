/-
  The hint chunk of one data file as the collision path sees it: `HCk.get` searches the newest buffer, then the closed
  splits from the newest down (`ckLists`).  `hintMgr.setItem`, `trydump` and the dumper's round keep every lookup
  except the one of the item set (`setItem_spec`, `trydump_spec`).
-/
import GoBeans.Lemmas.CollideBuf
set_option linter.unusedSimpArgs false
set_option linter.unusedVariables false
namespace CollideLemmas
open Store Spec HintIndex Collide HintBufferLemmas HintLoadLemmas HintIndexLemmas

/-- a closed split that has been written: no buffer, a file with one item per (keyhash, key) -/
def IsFile (sp : HSplit) : Prop := sp.buf = none ∧ ∃ f, sp.file = some f ∧ NodupKey f.items
/-- a closed split not yet written: a non-empty buffer, no file -/
def IsBuf (sp : HSplit) : Prop := sp.file = none ∧ ∃ b, sp.buf = some b ∧ BufInv b ∧ b.items ≠ []

def spItems (sp : HSplit) : List Item :=
  match sp.file with
  | some f => f.items
  | none => match sp.buf with | some b => b.items | none => []

/-- written splits first, then (newer) unwritten ones -/
def Shape (old : List HSplit) : Prop := ∃ fs bs, old = fs ++ bs ∧ (∀ sp ∈ fs, IsFile sp) ∧ (∀ sp ∈ bs, IsBuf sp)

def AllFiles (old : List HSplit) : Prop := ∀ sp ∈ old, IsFile sp

theorem shape_of_allFiles {old : List HSplit} (h : AllFiles old) : Shape old :=
  ⟨old, [], by simp, h, by simp⟩

def firstLk (ls : List (List Item)) (h : Nat) (k : Key) : Option Item := ls.findSome? (fun l => lk l h k)

/-- the item lists `HCk.get` searches, in search order -/
def ckLists (ck : HCk) : List (List Item) := ck.last.items :: ck.old.reverse.map spItems

theorem fileGo_eq (h : Nat) (k : Key) (l : List HSplit) (hl : ∀ sp ∈ l, IsFile sp) :
    fileGo h k l = firstLk (l.map spItems) h k := by
  induction l with
  | nil => rfl
  | cons sp rest ih =>
    obtain ⟨hb, f, hf, _⟩ := hl sp (by simp)
    have ih' := ih (fun s hs => hl s (by simp [hs]))
    unfold fileGo firstLk
    simp only [hf, List.map_cons, List.findSome?_cons]
    have e : spItems sp = f.items := by unfold spItems; rw [hf]
    rw [e]
    unfold fileGet
    change (match lk f.items h k with | some it => some it | none => fileGo h k rest) = _
    cases lk f.items h k with
    | some it => rfl
    | none => exact ih'

theorem memGo_eq (h : Nat) (k : Key) (fs bs : List HSplit) (hf : ∀ sp ∈ fs, IsFile sp) (hb : ∀ sp ∈ bs, IsBuf sp) :
    memGo h k (bs.reverse ++ fs.reverse) = firstLk ((bs.reverse ++ fs.reverse).map spItems) h k := by
  generalize hbr : bs.reverse = br
  have hb' : ∀ sp ∈ br, IsBuf sp := by intro sp hsp; apply hb; rw [← hbr] at hsp; simpa using hsp
  clear hbr hb
  induction br with
  | nil =>
    simp only [List.nil_append]
    have hfr : ∀ sp ∈ fs.reverse, IsFile sp := by intro sp hsp; exact hf sp (by simpa using hsp)
    cases hfe : fs.reverse with
    | nil => rfl
    | cons sp rest =>
      rw [hfe] at hfr
      obtain ⟨hbn, _⟩ := hfr sp (by simp)
      have : memGo h k (sp :: rest) = fileGo h k (sp :: rest) := by
        unfold memGo; rw [hbn]
      rw [this]
      exact fileGo_eq h k _ hfr
  | cons sp rest ih =>
    obtain ⟨hfn, b, hbs, hbi, _⟩ := hb' sp (by simp)
    have ih' := ih (fun s hs => hb' s (by simp [hs]))
    have e : spItems sp = b.items := by unfold spItems; rw [hfn, hbs]
    simp only [List.cons_append, List.map_cons]
    unfold memGo firstLk
    simp only [hbs, List.findSome?_cons, e]
    rw [bufGet_fst b hbi]
    cases lk b.items h k with
    | some it => rfl
    | none => exact ih'

/-- `hintChunk.get`: the newest buffer, then the closed splits from the newest down -/
theorem ckGet_eq (ck : HCk) (hl : BufInv ck.last) (hs : Shape ck.old) (h : Nat) (k : Key) :
    ck.get h k = firstLk (ckLists ck) h k := by
  obtain ⟨fs, bs, ho, hf, hb⟩ := hs
  unfold HCk.get ckLists firstLk
  rw [bufGet_fst _ hl, List.findSome?_cons]
  cases lk ck.last.items h k with
  | some it => rfl
  | none =>
    simp only
    rw [ho, List.reverse_append]
    exact memGo_eq h k fs bs hf hb

/-- lists that are pairwise permutations of each other (without repeated keys) answer alike -/
theorem firstLk_congr {ls ls' : List (List Item)} (h : Forall2 (fun l l' => l.Perm l' ∧ NodupKey l) ls ls') (hh : Nat) (k : Key) :
    firstLk ls hh k = firstLk ls' hh k := by
  induction h with
  | nil => rfl
  | cons hab _ ih =>
    unfold firstLk at *
    simp only [List.findSome?_cons]
    rw [lk_perm hab.1 hab.2]
    rename_i a b l1 l2 _
    cases lk b hh k with
    | some _ => rfl
    | none => exact ih

theorem firstLk_nil_cons (ls : List (List Item)) (h : Nat) (k : Key) : firstLk ([] :: ls) h k = firstLk ls h k := by
  unfold firstLk; simp [List.findSome?_cons, lk]

/-! ### `trydump` -/

def dumpIf (sp : HSplit) : HSplit := if sp.needDump then sp.dumped else sp

theorem dumpOldGo_fst (c : Nat) (l : List HSplit) : ∀ (j : Nat) (md : Nat × Int), (dumpOldGo c j l md).1 = l.map dumpIf := by
  induction l with
  | nil => intro j md; rfl
  | cons sp rest ih =>
    intro j md
    unfold dumpOldGo
    simp only [List.map_cons]
    rw [ih]
    rfl

theorem dumpIf_file {sp : HSplit} (h : IsFile sp) : dumpIf sp = sp := by
  obtain ⟨_, f, hf, _⟩ := h
  unfold dumpIf HSplit.needDump
  rw [hf]; simp

theorem dumpIf_buf {sp : HSplit} (h : IsBuf sp) : IsFile (dumpIf sp) ∧ (spItems sp).Perm (spItems (dumpIf sp)) ∧ NodupKey (spItems sp) := by
  obtain ⟨hfn, b, hb, hbi, hne⟩ := h
  have hnd : sp.needDump = true := by
    unfold HSplit.needDump; rw [hfn, hb]
    cases hi : b.items with
    | nil => exact absurd hi hne
    | cons _ _ => simp [hi]
  have e : dumpIf sp = { buf := none, file := some b.dump } := by
    unfold dumpIf; rw [hnd]; unfold HSplit.dumped; rw [hb]; rfl
  have e1 : spItems sp = b.items := by unfold spItems; rw [hfn, hb]
  have e2 : spItems (dumpIf sp) = sortItems b.items := by rw [e]; rfl
  rw [e1, e2]
  refine ⟨?_, (sortItems_perm _).symm, hbi.nodup⟩
  rw [e]
  exact ⟨rfl, b.dump, rfl, nodupKey_perm (sortItems_perm _).symm hbi.nodup⟩

theorem spItems_nodup {sp : HSplit} (h : IsFile sp ∨ IsBuf sp) : NodupKey (spItems sp) := by
  rcases h with ⟨_, f, hf, hn⟩ | ⟨hfn, b, hb, hbi, _⟩
  · unfold spItems; rw [hf]; exact hn
  · unfold spItems; rw [hfn, hb]; exact hbi.nodup

/-- dumping the closed splits: all are files afterwards, with the same items up to order -/
theorem dumpOld_shape {old : List HSplit} (hs : Shape old) :
    AllFiles (old.map dumpIf)
    ∧ Forall2 (fun l l' => l.Perm l' ∧ NodupKey l) (old.reverse.map spItems) ((old.map dumpIf).reverse.map spItems) := by
  obtain ⟨fs, bs, ho, hf, hb⟩ := hs
  constructor
  · intro sp hsp
    rw [List.mem_map] at hsp
    obtain ⟨s0, hs0, rfl⟩ := hsp
    rw [ho, List.mem_append] at hs0
    rcases hs0 with h0 | h0
    · rw [dumpIf_file (hf s0 h0)]; exact hf s0 h0
    · exact (dumpIf_buf (hb s0 h0)).1
  · have hall : ∀ sp ∈ old, IsFile sp ∨ IsBuf sp := by
      intro sp hsp; rw [ho, List.mem_append] at hsp
      rcases hsp with h0 | h0
      · exact Or.inl (hf sp h0)
      · exact Or.inr (hb sp h0)
    rw [← List.map_reverse, List.map_map]
    have hall' : ∀ sp ∈ old.reverse, IsFile sp ∨ IsBuf sp := fun sp hsp => hall sp (by simpa using hsp)
    generalize old.reverse = l at hall'
    induction l with
    | nil => exact Forall2.nil
    | cons sp rest ih =>
      simp only [List.map_cons]
      refine Forall2.cons ?_ (ih (fun s hs => hall' s (by simp [hs])))
      simp only [Function.comp]
      rcases hall' sp (by simp) with h0 | h0
      · rw [dumpIf_file h0]; exact ⟨List.Perm.refl _, spItems_nodup (Or.inl h0)⟩
      · exact ⟨(dumpIf_buf h0).2.1, (dumpIf_buf h0).2.2⟩

/-- a hint chunk in working order: the newest buffer consistent, closed splits written first -/
structure CkOK (ck : HCk) : Prop where
  last : BufInv ck.last
  shape : Shape ck.old

/-- … and every closed split written -/
structure CkGood (ck : HCk) : Prop where
  last : BufInv ck.last
  files : AllFiles ck.old

theorem CkGood.ok {ck : HCk} (g : CkGood ck) : CkOK ck := ⟨g.last, shape_of_allFiles g.files⟩

theorem setCk_chunks (hs : Hints) (c : Nat) (ck : HCk) (j : Nat) :
    (hs.setCk c ck).chunks j = if j = c then ck else hs.chunks j := rfl

/-- `trydump(c, dumplast)`: chunk `c` ends with all closed splits written, every lookup is unchanged; nothing else
    changes but `maxDumpedHintID` -/
theorem trydump_spec (hs : Hints) (c : Nat) (dl : Bool) (ok : CkOK (hs.chunks c)) :
    CkGood ((hs.trydump c dl).chunks c)
    ∧ (∀ h k, ((hs.trydump c dl).chunks c).get h k = (hs.chunks c).get h k)
    ∧ (∀ j, j ≠ c → (hs.trydump c dl).chunks j = hs.chunks j)
    ∧ (hs.trydump c dl).maxChunk = hs.maxChunk ∧ (hs.trydump c dl).merged = hs.merged := by
  obtain ⟨hfa, hperm⟩ := dumpOld_shape ok.shape
  have e1 := dumpOldGo_fst c (hs.chunks c).old 0 hs.maxDumped
  unfold Hints.trydump
  simp only
  by_cases hcond : ((!dl && c == hs.maxChunk) || (hs.chunks c).last.items.isEmpty) = true
  · rw [if_pos hcond]
    simp only [setCk_chunks, if_true, e1]
    have g : CkGood { (hs.chunks c) with old := (hs.chunks c).old.map dumpIf } := ⟨ok.last, hfa⟩
    refine ⟨g, ?_, ?_, rfl, rfl⟩
    · intro h k
      rw [ckGet_eq _ g.last (shape_of_allFiles g.files), ckGet_eq _ ok.last ok.shape]
      unfold ckLists firstLk
      simp only [List.findSome?_cons]
      cases lk (hs.chunks c).last.items h k with
      | some _ => rfl
      | none => exact (firstLk_congr hperm h k).symm
    · intro j hj; simp [hj]
  · rw [if_neg hcond]
    simp only [setCk_chunks, if_true, e1]
    have hne : (hs.chunks c).last.items ≠ [] := by
      intro he; apply hcond; simp [he]
    have hbuf : IsBuf { buf := some (hs.chunks c).last, file := none } := ⟨rfl, _, rfl, ok.last, hne⟩
    have hd := dumpIf_buf hbuf
    have e2 : dumpIf { buf := some (hs.chunks c).last, file := none } = { buf := none, file := some (hs.chunks c).last.dump } := by
      unfold dumpIf HSplit.needDump HSplit.dumped
      cases hi : (hs.chunks c).last.items with
      | nil => exact absurd hi hne
      | cons _ _ => simp [hi]
    rw [e2] at hd
    have g : CkGood { old := (hs.chunks c).old.map dumpIf ++ [{ buf := none, file := some (hs.chunks c).last.dump }], last := {} } := by
      refine ⟨bufInv_empty, ?_⟩
      intro sp hsp
      rw [List.mem_append] at hsp
      rcases hsp with h0 | h0
      · exact hfa sp h0
      · simp only [List.mem_singleton] at h0; subst h0; exact hd.1
    refine ⟨g, ?_, ?_, rfl, rfl⟩
    · intro h k
      rw [ckGet_eq _ g.last (shape_of_allFiles g.files), ckGet_eq _ ok.last ok.shape]
      unfold ckLists
      simp only [List.reverse_append, List.reverse_cons, List.reverse_nil, List.nil_append, List.singleton_append, List.map_cons]
      rw [firstLk_nil_cons]
      have : Forall2 (fun l l' => l.Perm l' ∧ NodupKey l)
          ((hs.chunks c).last.items :: List.map spItems (hs.chunks c).old.reverse)
          (spItems { buf := none, file := some (hs.chunks c).last.dump } :: List.map spItems (List.map dumpIf (hs.chunks c).old).reverse) :=
        Forall2.cons ⟨hd.2.1, hd.2.2⟩ hperm
      exact (firstLk_congr this h k).symm
    · intro j hj; simp [hj]



theorem refused_nonempty (cap : Nat) (hcap : 1 ≤ cap) (b : Buf) (hb : BufInv b) (it : Item) (sz : Nat)
    (ha : (b.set cap it sz).2 = false) : b.items ≠ [] := by
  obtain ⟨_, e2⟩ := set_items cap b hb it sz
  rw [ha] at e2
  unfold slotSet at e2
  cases hf : b.items.findIdx? (sameKey it) with
  | some i => rw [hf] at e2; simp at e2
  | none =>
    rw [hf] at e2
    by_cases hc : b.items.length ≥ cap
    · intro he; rw [he] at hc; simp at hc; omega
    · simp [hc] at e2

theorem lk_single (it : Item) (h : Nat) (k : Key) :
    lk [it] h k = if it.khash = h ∧ it.key = k then some it else none := by
  unfold lk
  simp only [List.find?_cons, List.find?_nil]
  by_cases hc : it.khash = h ∧ it.key = k
  · rw [if_pos hc, (sameKey_probe h k it).mpr hc]
  · rw [if_neg hc]
    cases hs : sameKey (probe h k) it with
    | false => rfl
    | true => exact absurd ((sameKey_probe h k it).mp hs) hc

/-- `hintChunk.setItem` followed by what `hintMgr.setItem` does after a rotation -/
theorem setItem_spec (cap : Nat) (hcap : 1 ≤ cap) (hs : Hints) (it : Item) (c : Nat) (sz : Nat)
    (good : ∀ j, CkGood (hs.chunks j)) :
    (∀ j, CkGood ((hs.setItem cap it c sz).1.chunks j))
    ∧ ((hs.setItem cap it c sz).1.chunks c).get it.khash it.key = some it
    ∧ (∀ h k, ¬ (it.khash = h ∧ it.key = k) → ((hs.setItem cap it c sz).1.chunks c).get h k = (hs.chunks c).get h k)
    ∧ (∀ j, j ≠ c → (hs.setItem cap it c sz).1.chunks j = hs.chunks j)
    ∧ (hs.setItem cap it c sz).1.maxChunk = (if c > hs.maxChunk then c else hs.maxChunk)
    ∧ (hs.setItem cap it c sz).1.merged = hs.merged := by
  have gc := good c
  unfold Hints.setItem HCk.setItem
  simp only
  by_cases ha : ((hs.chunks c).last.set cap it sz).2 = true
  · -- accepted
    simp only [ha, if_true, Bool.false_eq_true, if_false]
    obtain ⟨a1, a2⟩ := set_accept cap _ gc.last it sz ha
    have g' : CkGood { (hs.chunks c) with last := ((hs.chunks c).last.set cap it sz).1 } :=
      ⟨set_inv cap _ gc.last it sz, gc.files⟩
    refine ⟨?_, ?_, ?_, ?_, rfl, rfl⟩
    · intro j
      simp only [setCk_chunks]
      by_cases hj : j = c
      · rw [if_pos hj]; exact g'
      · rw [if_neg hj]; exact good j
    · simp only [setCk_chunks, if_true]
      rw [ckGet_eq _ g'.last (shape_of_allFiles g'.files)]
      unfold ckLists firstLk
      simp only [List.findSome?_cons, a1]
    · intro h k hne
      simp only [setCk_chunks, if_true]
      rw [ckGet_eq _ g'.last (shape_of_allFiles g'.files), ckGet_eq _ gc.last (shape_of_allFiles gc.files)]
      unfold ckLists firstLk
      simp only [List.findSome?_cons, a2 h k hne]
    · intro j hj; simp only [setCk_chunks, if_neg hj]
  · -- refused: rotate, set on the fresh buffer, trydump
    have ha' : ((hs.chunks c).last.set cap it sz).2 = false := by
      cases hx : ((hs.chunks c).last.set cap it sz).2 with
      | true => exact absurd hx ha
      | false => rfl
    simp only [ha', Bool.false_eq_true, if_false, if_true]
    have hitems := set_refuse cap _ gc.last it sz ha'
    have hne := refused_nonempty cap hcap _ gc.last it sz ha'
    have hfresh := set_fresh cap hcap it sz
    let ck1 : HCk := { old := (hs.chunks c).old ++ [{ buf := some ((hs.chunks c).last.set cap it sz).1, file := none }],
                       last := (({} : Buf).set cap it sz).1 }
    have ok1 : CkOK ck1 := by
      refine ⟨set_inv cap _ bufInv_empty it sz, (hs.chunks c).old, [_], rfl, gc.files, ?_⟩
      intro sp hsp
      simp only [List.mem_singleton] at hsp
      subst hsp
      exact ⟨rfl, _, rfl, set_inv cap _ gc.last it sz, by rw [hitems]; exact hne⟩
    have hs1 : CkOK ((hs.setCk c ck1).chunks c) := by simp only [setCk_chunks, if_true]; exact ok1
    obtain ⟨t1, t2, t3, t4, t5⟩ := trydump_spec (hs.setCk c ck1) c false hs1
    have hl1 : ∀ h k, ck1.get h k = firstLk ([it] :: (hs.chunks c).last.items :: (hs.chunks c).old.reverse.map spItems) h k := by
      intro h k
      rw [ckGet_eq _ ok1.last ok1.shape]
      unfold ckLists
      show firstLk ((({} : Buf).set cap it sz).1.items :: List.map spItems ((hs.chunks c).old ++ [({ buf := some ((hs.chunks c).last.set cap it sz).1, file := none } : HSplit)]).reverse) h k = _
      rw [hfresh, List.reverse_append]
      simp only [List.reverse_cons, List.reverse_nil, List.nil_append, List.singleton_append, List.map_cons]
      have : spItems ({ buf := some ((hs.chunks c).last.set cap it sz).1, file := none } : HSplit) = (hs.chunks c).last.items := by
        unfold spItems; simp only; exact hitems
      rw [this]
    refine ⟨?_, ?_, ?_, ?_, ?_, ?_⟩
    · intro j
      by_cases hj : j = c
      · subst hj; exact t1
      · show CkGood (((hs.setCk c ck1).trydump c false).chunks j)
        rw [t3 j hj]; simp only [setCk_chunks, if_neg hj]; exact good j
    · show (((hs.setCk c ck1).trydump c false).chunks c).get it.khash it.key = some it
      rw [t2]; simp only [setCk_chunks, if_true]
      rw [hl1]; unfold firstLk
      simp only [List.findSome?_cons, lk_single, and_self, if_true]
    · intro h k hne'
      show (((hs.setCk c ck1).trydump c false).chunks c).get h k = _
      rw [t2]; simp only [setCk_chunks, if_true]
      rw [hl1, ckGet_eq _ gc.last (shape_of_allFiles gc.files)]
      unfold ckLists firstLk
      simp only [List.findSome?_cons, lk_single, if_neg hne']
    · intro j hj
      show ((hs.setCk c ck1).trydump c false).chunks j = _
      rw [t3 j hj]; simp only [setCk_chunks, if_neg hj]
    · show (if c > ((hs.setCk c ck1).trydump c false).maxChunk then c else ((hs.setCk c ck1).trydump c false).maxChunk) = _
      rw [t4]; rfl
    · show ((hs.setCk c ck1).trydump c false).merged = _
      rw [t5]; rfl

/-- the dumper's round -/
theorem dumpAll_spec (n : Nat) (hs : Hints) (good : ∀ j, CkGood (hs.chunks j)) :
    (∀ j, CkGood ((hs.dumpAll n).chunks j))
    ∧ (∀ j h k, ((hs.dumpAll n).chunks j).get h k = (hs.chunks j).get h k)
    ∧ (hs.dumpAll n).maxChunk = hs.maxChunk ∧ (hs.dumpAll n).merged = hs.merged := by
  unfold Hints.dumpAll
  induction n with
  | zero => exact ⟨good, fun _ _ _ => rfl, rfl, rfl⟩
  | succ n ih =>
    rw [List.range_succ, List.foldl_append]
    simp only [List.foldl_cons, List.foldl_nil]
    obtain ⟨i1, i2, i3, i4⟩ := ih
    generalize (List.range n).foldl (fun hs i => hs.trydump i false) hs = hs1 at i1 i2 i3 i4
    obtain ⟨t1, t2, t3, t4, t5⟩ := trydump_spec hs1 n false (i1 n).ok
    refine ⟨?_, ?_, by rw [t4, i3], by rw [t5, i4]⟩
    · intro j
      by_cases hj : j = n
      · subst hj; exact t1
      · rw [t3 j hj]; exact i1 j
    · intro j h k
      by_cases hj : j = n
      · subst hj; rw [t2, i2]
      · rw [t3 j hj, i2]

end CollideLemmas
