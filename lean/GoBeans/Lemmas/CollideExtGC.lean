/-
  C13 (a), GC: with no collision anywhere the collision-path pass does to the data files and the tree exactly what
  `Store.gcRun` does (the collision table stays empty: a hint merge finds nothing to report).
-/
import GoBeans.Lemmas.CollideExtOps
set_option linter.unusedSimpArgs false
set_option linter.unusedVariables false
namespace CollideLemmas
open Store Spec HintIndex Collide HintBufferLemmas HintLoadLemmas HintIndexLemmas StoreLemmas

section
variable (hash : Key → Nat) (K : Key → Prop)

theorem getCollisionGC_nc (hInj : InjOn hash K) {st : State} (nc : NoColl hash K st) (k : Key) (hk : K k) :
    (st.getCollisionGC (hash k) k).2.2 = false := by
  unfold State.getCollisionGC
  rw [ctGet_eq, (tget_nil nc.ct (hash k) k).1, (tget_nil nc.ct (hash k) k).2]
  simp only [Bool.or_false]
  exact getItemCollision_nocoll hash K hInj st.hs nc.hs k hk

theorem gcNewest_nc (hInj : InjOn hash K) {st : State} (nc : NoColl hash K st) (begin : Nat) (oldPos : Pos) (r : Rec) (hk : K r.key) :
    (gcNewest hash begin st oldPos r).1 =
      (match AMap.get st.b.tree (hash r.key) with
       | some it => it.pos == oldPos
       | none => decide (begin > 0) && decide (r.ver < 0)) := by
  unfold gcNewest
  simp only
  cases AMap.get st.b.tree (hash r.key) with
  | none => rfl
  | some ti =>
    simp only
    by_cases hp : (ti.pos == oldPos) = true
    · rw [if_pos hp, hp]
    · rw [if_neg hp]
      rw [getCollisionGC_nc hash K hInj nc r.key hk]
      simp only [Bool.false_eq_true, if_false]
      cases h : ti.pos == oldPos with
      | true => exact absurd h hp
      | false => rfl

/-- every record anywhere in the pass state carries a key in use -/
def AllK (g : GcSt) : Prop := (∀ i, ∀ p ∈ (g.b.chunks i).recs, K p.2.key) ∧ ∀ p ∈ g.out, K p.2.key

theorem allK_endWriting {g : GcSt} (h : AllK K g) : ∀ i, ∀ p ∈ (g.endWriting.chunks i).recs, K p.2.key := by
  intro i p hp
  unfold GcSt.endWriting at hp
  by_cases hr : g.rewriting = true
  · simp only [hr, if_true, chunks_setChunk] at hp
    by_cases hi : i = g.dst
    · rw [if_pos hi] at hp; exact h.2 p hp
    · rw [if_neg hi] at hp; exact h.1 i p hp
  · simp only [hr, Bool.false_eq_true, if_false, chunks_setChunk] at hp
    by_cases hi : i = g.dst
    · rw [if_pos hi] at hp
      simp only [List.mem_append] at hp
      rcases hp with hp | hp
      · exact h.1 g.dst p hp
      · exact h.2 p hp
    · rw [if_neg hi] at hp; exact h.1 i p hp

theorem allK_gcBegin {b : Bucket} (h : ∀ i, ∀ p ∈ (b.chunks i).recs, K p.2.key) (dst src : Nat) (stats : GcStats) :
    AllK K (gcBegin b dst src stats) := by
  unfold gcBegin
  by_cases hd : dst = src
  · rw [if_pos hd]; exact ⟨h, fun p hp => by cases hp⟩
  · rw [if_neg hd]
    refine ⟨?_, fun p hp => by cases hp⟩
    intro i p hp
    simp only [chunks_setChunk] at hp
    by_cases hi : i = dst
    · rw [if_pos hi] at hp; exact h dst p hp
    · rw [if_neg hi] at hp; exact h i p hp

/-- the pass state of the collision-path model shadows the one of `Store.gcRun` -/
structure GcI (s : GcC) : Prop where
  b : s.st.b = s.g.b
  nc : NoColl hash K s.st
  k : AllK K s.g

theorem hintSet_nc (cap : Nat) {ct : CTable} {hs : Hints} (hct : ct.items = []) (hhs : HsNC hash K hs) (k : Key) (hk : K k) (ver : Int) (vh : Nat)
    (pos : Pos) (sz : Nat) (gc : Bool) :
    (hintSet cap ct hs (hash k) k ver vh pos sz gc).1.items = [] ∧ HsNC hash K (hintSet cap ct hs (hash k) k ver vh pos sz gc).2.1 := by
  unfold hintSet
  simp only
  rw [ctGet_eq, (tget_nil hct (hash k) k).2]
  simp only [Bool.false_eq_true, if_false]
  exact ⟨hct, hsNC_setItem hash K cap hs hhs _ _ _ ⟨rfl, hk⟩⟩

/-- the state after a record was kept and relocated -/
theorem kept_gci (cfg : Collide.Cfg) (s : GcC) (gi : GcI hash K s) (g1 : GcSt) (hk1 : AllK K g1) (hs1 : Hints) (hh1 : HsNC hash K hs1)
    (tree : List (Nat × TItem)) (r : Rec) (hk : K r.key) (vh : Nat) (newPos : Pos) :
    GcI hash K
      { g := { g1 with b := { g1.b with tree := tree }, out := g1.out ++ [(g1.wh, r)], wh := g1.wh + r.size },
        st := { s.st with b := { g1.b with tree := tree },
                          ct := (hintSet cfg.cap s.st.ct hs1 (hash r.key) r.key r.ver vh newPos r.size true).1,
                          hs := if (hintSet cfg.cap s.st.ct hs1 (hash r.key) r.key r.ver vh newPos r.size true).2.2
                                then (hintSet cfg.cap s.st.ct hs1 (hash r.key) r.key r.ver vh newPos r.size true).2.1.trydump g1.dst false
                                else (hintSet cfg.cap s.st.ct hs1 (hash r.key) r.key r.ver vh newPos r.size true).2.1 } } := by
  obtain ⟨x1, x2⟩ := hintSet_nc hash K cfg.cap gi.nc.ct hh1 r.key hk r.ver vh newPos r.size true
  refine ⟨rfl, ⟨x1, ?_⟩, ⟨hk1.1, ?_⟩⟩
  · show HsNC hash K (if _ then _ else _)
    split
    · exact hsNC_trydump hash K _ x2 _ _
    · exact x2
  · intro p hp
    simp only [List.mem_append, List.mem_singleton] at hp
    rcases hp with hp | hp
    · exact hk1.2 p hp
    · rw [hp]; exact hk

theorem gcRecord_ext (hInj : InjOn hash K) (cfg : Collide.Cfg) (begin src : Nat) (s : GcC) (gi : GcI hash K s) (off : Nat) (r : Rec) (hk : K r.key) :
    (Collide.gcRecord hash cfg begin src s off r).g = Store.gcRecord hash cfg.s begin src s.g off r
    ∧ GcI hash K (Collide.gcRecord hash cfg begin src s off r) := by
  have hg1 : ∀ stats, AllK K (if r.size + s.g.wh > cfg.s.dataFileMax then gcBegin s.g.endWriting (s.g.dst + 1) src stats else { s.g with stats := stats }) := by
    intro stats
    split
    · exact allK_gcBegin K (allK_endWriting K gi.k) _ _ _
    · exact gi.k
  have hh1 : HsNC hash K (if r.size + s.g.wh > cfg.s.dataFileMax then s.st.hs.trydump s.g.dst true else s.st.hs) := by
    split
    · exact hsNC_trydump hash K _ gi.nc.hs _ _
    · exact gi.nc.hs
  unfold Collide.gcRecord Store.gcRecord
  simp only
  rw [gcNewest_nc hash K hInj gi.nc begin _ r hk, gi.b]
  cases htr : AMap.get s.g.b.tree (hash r.key) with
  | none =>
    simp only
    cases hn : (decide (begin > 0) && decide (r.ver < 0)) with
    | false =>
      simp only [Bool.not_false, if_true]
      exact ⟨by first | rfl | trivial, ⟨gi.b, gi.nc, gi.k⟩⟩
    | true =>
      simp only [Bool.not_true, Bool.false_eq_true, if_false]
      exact ⟨by first | rfl | trivial, kept_gci hash K cfg s gi _ (hg1 _) _ hh1 _ r hk _ _⟩
  | some ti =>
    simp only
    by_cases hn : (ti.pos == ({ chunk := src, off := off } : Pos)) = true
    · simp only [hn, Bool.not_true, Bool.false_eq_true, if_false, if_true]
      exact ⟨by first | rfl | trivial, kept_gci hash K cfg s gi _ (hg1 _) _ hh1 _ r hk _ _⟩
    · have hn' : (ti.pos == ({ chunk := src, off := off } : Pos)) = false := by
        cases h : (ti.pos == ({ chunk := src, off := off } : Pos)) with
        | true => exact absurd h hn
        | false => rfl
      simp only [hn', Bool.not_false, if_true]
      exact ⟨by first | rfl | trivial, ⟨gi.b, gi.nc, gi.k⟩⟩

theorem gcFold_ext (hInj : InjOn hash K) (cfg : Collide.Cfg) (begin src : Nat) (recs : List (Nat × Rec)) (hrecs : ∀ p ∈ recs, K p.2.key) :
    ∀ (s : GcC), GcI hash K s →
      (recs.foldl (fun s (p : Nat × Rec) => Collide.gcRecord hash cfg begin src s p.1 p.2) s).g
        = recs.foldl (fun g (p : Nat × Rec) => Store.gcRecord hash cfg.s begin src g p.1 p.2) s.g
      ∧ GcI hash K (recs.foldl (fun s (p : Nat × Rec) => Collide.gcRecord hash cfg begin src s p.1 p.2) s) := by
  induction recs with
  | nil => intro s gi; exact ⟨rfl, gi⟩
  | cons p rest ih =>
    intro s gi
    obtain ⟨e, gi'⟩ := gcRecord_ext hash K hInj cfg begin src s gi p.1 p.2 (hrecs p (by simp))
    have := ih (fun q hq => hrecs q (by simp [hq])) _ gi'
    simp only [List.foldl_cons]
    rw [← e]
    exact this

theorem hsNC_clear (hs : Hints) (h : HsNC hash K hs) (c : Nat) : HsNC hash K (hs.clearChunk c) :=
  hsNC_setCk hash K hs h c {} (ckNC_empty hash K)

theorem gcFile_ext (hInj : InjOn hash K) (cfg : Collide.Cfg) (begin : Nat) (s : GcC) (gi : GcI hash K s) (src : Nat) :
    (Collide.gcFile hash cfg begin s src).g = Store.gcFile hash cfg.s begin s.g src
    ∧ GcI hash K (Collide.gcFile hash cfg begin s src) := by
  unfold Collide.gcFile Store.gcFile
  simp only
  by_cases hz : (s.g.b.chunks src).size = 0
  · rw [if_pos hz, if_pos hz]; exact ⟨rfl, gi⟩
  · rw [if_neg hz, if_neg hz]
    have gi0 : GcI hash K { s with st := { s.st with hs := s.st.hs.clearChunk src } } :=
      ⟨gi.b, ⟨gi.nc.ct, hsNC_clear hash K _ gi.nc.hs src⟩, gi.k⟩
    obtain ⟨e, gi1⟩ := gcFold_ext hash K hInj cfg begin src (s.g.b.chunks src).recs (gi.k.1 src) _ gi0
    simp only at e
    generalize hs1 : (s.g.b.chunks src).recs.foldl (fun s (p : Nat × Rec) => Collide.gcRecord hash cfg begin src s p.1 p.2)
        { s with st := { s.st with hs := s.st.hs.clearChunk src } } = s1 at e gi1
    rw [← e]
    refine ⟨rfl, rfl, gi1.nc.ct |> fun c => ⟨c, gi1.nc.hs⟩, ?_, gi1.k.2⟩
    intro i p hp
    by_cases hd : src ≠ s1.g.dst
    · simp only [hd, ne_eq, not_false_eq_true, if_true, chunks_setChunk] at hp
      by_cases hi : i = src
      · rw [if_pos hi] at hp; cases hp
      · rw [if_neg hi] at hp; exact gi1.k.1 i p hp
    · simp only [hd, if_false] at hp; exact gi1.k.1 i p hp

theorem mergeInsert_mem {acc : List Item} {it x : Item} (h : x ∈ mergeInsert acc it) : x ∈ acc ∨ x = it := by
  unfold mergeInsert at h
  cases hf : acc.find? (sameKey it) with
  | none =>
    rw [hf] at h
    simp only [List.mem_append, List.mem_singleton] at h
    exact h
  | some old =>
    rw [hf] at h
    simp only at h
    split at h
    · rw [List.mem_map] at h
      obtain ⟨y, hy, hxy⟩ := h
      split at hxy
      · exact Or.inr hxy.symm
      · exact Or.inl (hxy ▸ hy)
    · exact Or.inl h

theorem mergeWinners_mem {all : List Item} {x : Item} (h : x ∈ mergeWinners all) : x ∈ all := by
  unfold mergeWinners at h
  have key : ∀ (l acc : List Item), x ∈ l.foldl mergeInsert acc → x ∈ acc ∨ x ∈ l := by
    intro l
    induction l with
    | nil => intro acc h; exact Or.inl h
    | cons a t ih =>
      intro acc h
      rcases ih _ h with h1 | h1
      · rcases mergeInsert_mem h1 with h2 | h2
        · exact Or.inl h2
        · exact Or.inr (by simp [h2])
      · exact Or.inr (by simp [h1])
  rcases key all [] h with h1 | h1
  · cases h1
  · exact h1

theorem mergeReport_nil (hInj : InjOn hash K) (ct : CTable) (hct : ct.items = []) (win : List Item) (hw : Keyed hash K win) :
    (mergeReport ct win).items = [] := by
  unfold mergeReport
  have key : ∀ (l : List Item) (ct : CTable), ct.items = [] → (∀ it ∈ l, it ∈ win) →
      (l.foldl (fun ct it => if win.any (fun x => x.khash == it.khash && x.key != it.key) then ct.compareAndSet it false else ct) ct).items = [] := by
    intro l
    induction l with
    | nil => intro ct h _; exact h
    | cons a t ih =>
      intro ct h hm
      simp only [List.foldl_cons]
      have hno : win.any (fun x => x.khash == a.khash && x.key != a.key) = false := by
        rw [List.any_eq_false]
        intro x hx hc
        simp only [Bool.and_eq_true, beq_iff_eq, bne_iff_ne] at hc
        obtain ⟨x1, x2⟩ := hw x hx
        obtain ⟨a1, a2⟩ := hw a (hm a (by simp))
        exact hc.2 (hInj _ _ x2 a2 (by rw [← x1, ← a1]; exact hc.1))
      rw [hno]
      simp only [Bool.false_eq_true, if_false]
      exact ih ct h (fun it hit => hm it (by simp [hit]))
  exact key win ct hct (fun _ h => h)

theorem merge_nc (hInj : InjOn hash K) {st : State} (nc : NoColl hash K st) (forGC : Bool) :
    NoColl hash K (st.merge forGC) ∧ (st.merge forGC).b = st.b := by
  unfold State.merge
  simp only
  refine ⟨⟨?_, ?_⟩, by first | rfl | trivial⟩
  · apply mergeReport_nil hash K hInj _ nc.ct
    intro x hx
    have := mergeWinners_mem hx
    rw [List.mem_flatMap] at this
    obtain ⟨c, _, hxc⟩ := this
    unfold ckFileItems at hxc
    rw [List.mem_flatMap] at hxc
    obtain ⟨sp, hsp, hxs⟩ := hxc
    cases hf : sp.file with
    | none => rw [hf] at hxs; cases hxs
    | some f =>
      rw [hf] at hxs
      simp only [List.mem_map] at hxs
      obtain ⟨y, hy, rfl⟩ := hxs
      exact ((nc.hs c).2 sp hsp).2 f hf y hy
  · exact nc.hs

theorem beforeGC_nc (hInj : InjOn hash K) {st : State} (nc : NoColl hash K st) (merge : Bool) :
    NoColl hash K (st.beforeGC merge) ∧ (st.beforeGC merge).b = st.b := by
  unfold State.beforeGC
  cases merge with
  | false => exact ⟨⟨nc.ct, nc.hs⟩, rfl⟩
  | true =>
    simp only [if_true]
    have nc1 : NoColl hash K { st with hs := (st.hs.setCk st.hs.maxChunk (st.hs.chunks st.hs.maxChunk).rotate).dumpAll (st.b.head + 1) } :=
      ⟨nc.ct, hsNC_dumpAll hash K _ _ (hsNC_setCk hash K _ nc.hs _ _ (ckNC_rotate hash K _ (nc.hs _)))⟩
    obtain ⟨m1, m2⟩ := merge_nc hash K hInj nc1 true
    exact ⟨⟨m1.ct, m1.hs⟩, m2⟩

end
end CollideLemmas
