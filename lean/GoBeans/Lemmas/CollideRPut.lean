/-
  C13 (b) with restarts: a write keeps `RInv`.  The fields shared with the invariant of one process life are proved
  once for the common part `CInv`.
-/
import GoBeans.Lemmas.CollideRRead
set_option linter.unusedSimpArgs false
set_option linter.unusedVariables false
namespace CollideLemmas
open Store Spec HintIndex Collide StoreLemmas HintBufferLemmas

section
variable (hash : Key → Nat)

/-- the part of the invariant that does not depend on the tree -/
structure CInv (cfg : Collide.Cfg) (st : State) (t : Trk) (n : Nat) : Prop where
  pos : PosInv st.b
  ra : ∀ c o r, (o, r) ∈ (st.b.chunks c).recs → st.b.readAt ⟨c, o⟩ = some r
  ob : ∀ c o r, (o, r) ∈ (st.b.chunks c).recs → o ≤ cfg.s.dataFileMax
  spec : ∀ k, LogSpec (lastOf k st.b.log) (AMap.get t.m k)
  wr : ∀ k, k ∈ t.written ↔ (lastOf k st.b.log).isSome
  vers : ∀ x ∈ st.b.log, x.2.ver.natAbs ≤ n
  tab : ∀ h k it, tget st.ct h k = some it → hash k = h ∧ k ∈ t.reg ∧ it.key = k ∧ it.khash = h
          ∧ ∃ r, lastOf k st.b.log = some (⟨it.chunk, it.off⟩, r) ∧ it.ver = r.ver
  tabc : ∀ k, k ∈ t.reg → (tget st.ct (hash k) k).isSome = true
  tabne : ∀ h, thas st.ct h = true → ∃ k it, tget st.ct h k = some it
  hgood : ∀ j, CkGood (st.hs.chunks j)
  hmerged : st.hs.merged = none
  hex : ∀ c k, HintAt hash k ((st.hs.chunks c).get (hash k) k) (lastIn k (st.b.chunks c).recs)

theorem RInv.toC {cfg : Collide.Cfg} {st : State} {x : TrkR} {n : Nat} (inv : RInv hash cfg st x n) : CInv hash cfg st x.t n :=
  { pos := inv.pos, ra := inv.ra, ob := inv.ob, spec := inv.spec, wr := inv.wr, vers := inv.vers, tab := inv.tab,
    tabc := inv.tabc, tabne := inv.tabne, hgood := inv.hgood, hmerged := inv.hmerged, hex := inv.hex }

theorem lastOf_factsC {cfg : Collide.Cfg} {st : State} {t : Trk} {n : Nat} (inv : CInv hash cfg st t n) {k : Key} {p : Pos} {r : Rec}
    (h : lastOf k st.b.log = some (p, r)) :
    st.b.readAt p = some r ∧ r.key = k ∧ (p.off, r) ∈ (st.b.chunks p.chunk).recs ∧ p.chunk ≤ st.b.head
    ∧ lastIn k (st.b.chunks p.chunk).recs = some (p.off, r) := by
  rw [lastOf_log] at h
  obtain ⟨h1, h2⟩ := lastDown_some h
  obtain ⟨h3, h4⟩ := lastIn_mem h2
  exact ⟨inv.ra _ _ _ h3, h4, h3, by omega, h2⟩

theorem det_iffC {cfg : Collide.Cfg} {st : State} {t : Trk} {n : Nat} (inv : CInv hash cfg st t n) (h : Nat) :
    t.det hash h = thas st.ct h := by
  unfold Trk.det
  cases hh : thas st.ct h with
  | true =>
    obtain ⟨k, it, e⟩ := inv.tabne h hh
    obtain ⟨a, b, _⟩ := inv.tab _ _ _ e
    rw [List.any_eq_true]
    exact ⟨k, b, by simp [a]⟩
  | false =>
    rw [List.any_eq_false]
    intro k hk hc
    have := inv.tabc k hk
    cases e : tget st.ct (hash k) k with
    | none => rw [e] at this; simp at this
    | some it =>
      have := tget_thas e
      simp only [beq_iff_eq] at hc
      rw [hc, hh] at this
      cases this

theorem put_cinv {cfg : Collide.Cfg} (hdf : cfg.s.dataFileMax < 4294967296) (hcap : 1 ≤ cfg.cap)
    {st : State} {t : Trk} {n : Nat} (inv : CInv hash cfg st t n) (r : Rec) (hsz : 0 < r.size)
    (hvb : r.ver.natAbs ≤ n + 1) (m' : KV) (hm' : ∀ k', k' ≠ r.key → AMap.get m' k' = AMap.get t.m k')
    (hspec : LogSpec (some ((st.b.append cfg.s r).2, r)) (AMap.get m' r.key)) :
    CInv hash cfg (st.put hash cfg r).1 (t.afterWrite hash r.key m') (n + 1) := by
  rw [put_eq]
  obtain ⟨f1, f2, f3, f4⟩ := append_spec cfg.s st.b r inv.pos hsz
  have flog := log_append cfg.s st.b r inv.pos
  obtain ⟨c1, c2, c3, c4, c5, c6⟩ := append_chunks cfg.s st.b r inv.pos
  generalize hA : st.b.append cfg.s r = A at *
  obtain ⟨b1, pos⟩ := A
  simp only at f1 f2 f3 f4 flog c1 c2 c3 c4 c5 c6 hspec ⊢
  -- the last record of every key in the new log
  have hlast : ∀ k', lastOf k' (st.b.log ++ [(pos, r)]) = if r.key = k' then some (pos, r) else lastOf k' st.b.log := by
    intro k'; rw [lastOf_append_single]
  have hrecs : ∀ c, (b1.chunks c).recs = if c = pos.chunk then (st.b.chunks pos.chunk).recs ++ [(pos.off, r)] else (st.b.chunks c).recs := by
    intro c
    by_cases hc : c = pos.chunk
    · subst hc; rw [if_pos rfl]; exact c1
    · rw [if_neg hc]; exact c2 c hc
  have hposeta : (⟨pos.chunk, pos.off⟩ : Pos) = pos := by cases pos; rfl
  -- the hint manager
  obtain ⟨s1, s2, s3, s4, s5, s6⟩ := setItem_spec cfg.cap hcap st.hs (wItem hash r pos) pos.chunk r.size inv.hgood
  -- the collision table
  have hdet := det_iffC hash inv (hash r.key)
  -- positions of existing records are smaller than the new one
  have hsmall : ∀ k0 (p0 : Pos) (r0 : Rec), lastOf k0 st.b.log = some (p0, r0) →
      p0.chunk * 4294967296 + p0.off < pos.chunk * 4294967296 + pos.off := by
    intro k0 p0 r0 hl
    obtain ⟨_, _, hmem, hle, _⟩ := lastOf_factsC hash inv hl
    have hob := inv.ob _ _ _ hmem
    have hbel := inv.pos.below _ _ _ hmem
    by_cases hc : p0.chunk = pos.chunk
    · rw [hc] at hbel ⊢; omega
    · have : p0.chunk < pos.chunk := by omega
      have : (p0.chunk + 1) * 4294967296 ≤ pos.chunk * 4294967296 := Nat.mul_le_mul_right _ (by omega)
      omega
  have tabNew : ∀ h k it, tget (wTable hash st.ct r pos) h k = some it →
      hash k = h ∧ k ∈ (t.afterWrite hash r.key m').reg ∧ it.key = k ∧ it.khash = h
        ∧ ∃ r', lastOf k (st.b.log ++ [(pos, r)]) = some (⟨it.chunk, it.off⟩, r') ∧ it.ver = r'.ver := by
    intro h k it hg
    unfold wTable at hg
    unfold Trk.afterWrite
    simp only
    rw [hdet]
    cases hth : thas st.ct (hash r.key) with
    | false =>
      rw [hth] at hg
      simp only [Bool.false_eq_true, if_false] at hg ⊢
      obtain ⟨d1, d2, d3, d4, r', d5, d6⟩ := inv.tab _ _ _ hg
      have hne : ¬ r.key = k := by
        intro e
        have := tget_thas hg
        rw [← d1, ← e, hth] at this; cases this
      exact ⟨d1, d2, d3, d4, r', by rw [hlast, if_neg hne]; exact d5, d6⟩
    | true =>
      rw [hth] at hg
      simp only [if_true] at hg ⊢
      obtain ⟨a1, a2, _⟩ := cas_w hash st.ct r pos
      by_cases hc : h = hash r.key ∧ k = r.key
      · obtain ⟨hh, hk⟩ := hc
        subst hh; subst hk
        have hnew : tget (st.ct.compareAndSet (wItemC hash r pos) false) (hash r.key) r.key
            = some (wItemC hash r pos) := by
          rcases a1 with e | ⟨old, e0, _, _, hlt⟩
          · exact e
          · exfalso
            obtain ⟨_, _, _, _, r0, d5, _⟩ := inv.tab _ _ _ e0
            have := hsmall _ _ _ d5
            simp only [cmpKey, wItemC] at hlt this
            omega
        rw [hnew] at hg
        cases hg
        refine ⟨rfl, by simp, rfl, rfl, r, ?_, rfl⟩
        rw [hlast, if_pos rfl]
        simp only [wItemC, hposeta]
      · rw [a2 h k hc] at hg
        obtain ⟨d1, d2, d3, d4, r', d5, d6⟩ := inv.tab _ _ _ hg
        have hne : ¬ r.key = k := by
          intro e
          apply hc
          rw [← e] at d1
          exact ⟨d1.symm, e.symm⟩
        exact ⟨d1, by simp [d2], d3, d4, r', by rw [hlast, if_neg hne]; exact d5, d6⟩
  have tabSome : ∀ h k, (tget st.ct h k).isSome = true → (tget (wTable hash st.ct r pos) h k).isSome = true := by
    intro h k hs
    unfold wTable
    cases hth : thas st.ct (hash r.key) with
    | false => simpa using hs
    | true =>
      simp only [if_true]
      obtain ⟨a1, a2, _⟩ := cas_w hash st.ct r pos
      by_cases hc : h = hash r.key ∧ k = r.key
      · obtain ⟨hh, hk⟩ := hc
        subst hh; subst hk
        rcases a1 with e | ⟨old, _, e, _, _⟩ <;> rw [e] <;> rfl
      · rw [a2 h k hc]; exact hs
  refine { pos := posInv_tree f3 _, ra := ?_, ob := ?_, spec := ?_, wr := ?_, vers := ?_, tab := ?_, tabc := ?_, tabne := ?_,
           hgood := s1, hmerged := by rw [s6]; exact inv.hmerged, hex := ?_ }
  · -- ra
    intro c o r0 hm
    show b1.readAt ⟨c, o⟩ = some r0
    rw [hrecs] at hm
    by_cases hc : c = pos.chunk
    · rw [if_pos hc, List.mem_append] at hm
      rcases hm with hm | hm
      · exact f2 _ _ (inv.ra c o r0 (by rw [hc]; exact hm))
      · simp only [List.mem_singleton, Prod.mk.injEq] at hm
        obtain ⟨ho, hr⟩ := hm
        subst ho; subst hr; subst hc
        rw [hposeta]; exact f1
    · rw [if_neg hc] at hm
      exact f2 _ _ (inv.ra c o r0 hm)
  · -- ob
    intro c o r0 hm
    have hm' : (o, r0) ∈ (b1.chunks c).recs := hm
    rw [hrecs] at hm'
    by_cases hc : c = pos.chunk
    · rw [if_pos hc, List.mem_append] at hm'
      rcases hm' with hm' | hm'
      · exact inv.ob c o r0 (by rw [hc]; exact hm')
      · simp only [List.mem_singleton, Prod.mk.injEq] at hm'
        rw [hm'.1]; exact c6
    · rw [if_neg hc] at hm'
      exact inv.ob c o r0 hm'
  · -- spec
    intro k'
    show LogSpec (lastOf k' b1.log) (AMap.get m' k')
    rw [flog, hlast]
    by_cases hk : r.key = k'
    · subst hk; rw [if_pos rfl]; exact hspec
    · rw [if_neg hk, hm' k' (Ne.symm hk)]; exact inv.spec k'
  · -- wr
    intro k'
    show k' ∈ r.key :: t.written ↔ (lastOf k' b1.log).isSome = true
    rw [flog, hlast, List.mem_cons]
    by_cases hk : r.key = k'
    · subst hk; simp
    · rw [if_neg hk, ← inv.wr k']
      constructor
      · rintro (e | e)
        · exact absurd e.symm hk
        · exact e
      · intro e; exact Or.inr e
  · -- vers
    intro x hx
    have hx' : x ∈ b1.log := hx
    rw [flog, List.mem_append] at hx'
    rcases hx' with hx' | hx'
    · have := inv.vers x hx'; omega
    · simp only [List.mem_singleton] at hx'; subst hx'; exact hvb
  · -- tab
    intro h k it hg
    have := tabNew h k it hg
    show _ ∧ _ ∧ _ ∧ _ ∧ ∃ r', lastOf k b1.log = _ ∧ _
    rw [flog]; exact this
  · -- tabc
    intro k hk
    show (tget (wTable hash st.ct r pos) (hash k) k).isSome = true
    unfold Trk.afterWrite at hk
    simp only at hk
    rw [hdet] at hk
    cases hth : thas st.ct (hash r.key) with
    | false =>
      rw [hth] at hk
      simp only [Bool.false_eq_true, if_false] at hk
      exact tabSome _ _ (inv.tabc k hk)
    | true =>
      rw [hth] at hk
      simp only [if_true, List.mem_cons] at hk
      rcases hk with rfl | hk
      · unfold wTable
        rw [hth]
        simp only [if_true]
        obtain ⟨a1, _, _⟩ := cas_w hash st.ct r pos
        rcases a1 with e | ⟨old, _, e, _, _⟩ <;> rw [e] <;> rfl
      · exact tabSome _ _ (inv.tabc k hk)
  · -- tabne
    intro h hh
    show ∃ k it, tget (wTable hash st.ct r pos) h k = some it
    have key : ∀ h k, (tget (wTable hash st.ct r pos) h k).isSome = true → ∃ it, tget (wTable hash st.ct r pos) h k = some it := by
      intro h k hs
      cases e : tget (wTable hash st.ct r pos) h k with
      | none => rw [e] at hs; simp at hs
      | some it => exact ⟨it, rfl⟩
    unfold wTable at hh
    cases hth : thas st.ct (hash r.key) with
    | false =>
      rw [hth] at hh
      simp only [Bool.false_eq_true, if_false] at hh
      obtain ⟨k, it, e⟩ := inv.tabne h hh
      obtain ⟨it', e'⟩ := key h k (tabSome _ _ (by rw [e]; rfl))
      exact ⟨k, it', e'⟩
    | true =>
      rw [hth] at hh
      simp only [if_true] at hh
      obtain ⟨_, _, a3⟩ := cas_w hash st.ct r pos
      rw [a3] at hh
      simp only [Bool.or_eq_true, decide_eq_true_eq] at hh
      have hold : thas st.ct h = true := by
        rcases hh with hh | hh
        · exact hh
        · rw [hh]; exact hth
      obtain ⟨k, it, e⟩ := inv.tabne h hold
      obtain ⟨it', e'⟩ := key h k (tabSome _ _ (by rw [e]; rfl))
      exact ⟨k, it', e'⟩
  · -- hex
    intro c k
    show HintAt hash k (((st.hs.setItem cfg.cap (wItem hash r pos) pos.chunk r.size).1.chunks c).get (hash k) k) (lastIn k (b1.chunks c).recs)
    rw [hrecs]
    by_cases hc : c = pos.chunk
    · subst hc
      rw [if_pos rfl, lastIn_append_single]
      by_cases hk : r.key = k
      · subst hk
        simp only [if_true]
        have s2' : ((st.hs.setItem cfg.cap (wItem hash r pos) pos.chunk r.size).1.chunks pos.chunk).get (hash r.key) r.key = some (wItem hash r pos) := s2
        rw [s2']
        exact ⟨rfl, rfl, rfl, rfl⟩
      · simp only [hk, if_false]
        rw [s3 (hash k) k (by intro e; exact hk e.2)]
        exact inv.hex pos.chunk k
    · rw [if_neg hc, s4 c hc]
      exact inv.hex c k

theorem snd_mono {b b' : Bucket} (h : ∀ c p, p ∈ (b.chunks c).recs → p ∈ (b'.chunks c).recs) {c : Nat} {y : Item} (s : Snd hash b c y) :
    Snd hash b' c y := by
  obtain ⟨r, a1, a2, a3, a4⟩ := s
  exact ⟨r, h c _ a1, a2, a3, a4⟩

theorem put_invR {cfg : Collide.Cfg} (hdf : cfg.s.dataFileMax < 4294967296) (hcap : 1 ≤ cfg.cap)
    {st : State} {x : TrkR} {n : Nat} (inv : RInv hash cfg st x n) (r : Rec) (hsz : 0 < r.size)
    (hvb : r.ver.natAbs ≤ n + 1) (m' : KV) (hm' : ∀ k', k' ≠ r.key → AMap.get m' k' = AMap.get x.t.m k')
    (hspec : LogSpec (some ((st.b.append cfg.s r).2, r)) (AMap.get m' r.key))
    (hw : x.restarted = true → x.t.writeOK hash r.key = true) :
    RInv hash cfg (st.put hash cfg r).1 { x with t := x.t.afterWrite hash r.key m' } (n + 1) := by
  have cinv := put_cinv hash hdf hcap (RInv.toC hash inv) r hsz hvb m' hm' hspec
  rw [put_eq] at cinv ⊢
  obtain ⟨f1, f2, f3, f4⟩ := append_spec cfg.s st.b r inv.pos hsz
  have flog := log_append cfg.s st.b r inv.pos
  obtain ⟨c1, c2, c3, c4, c5, c6⟩ := append_chunks cfg.s st.b r inv.pos
  obtain ⟨z1, z2⟩ := append_size cfg.s st.b r
  generalize hA : st.b.append cfg.s r = A at *
  obtain ⟨b1, pos⟩ := A
  simp only at f1 f2 f3 f4 flog c1 c2 c3 c4 c5 c6 z1 z2 hspec cinv ⊢
  have hlast : ∀ k', lastOf k' (st.b.log ++ [(pos, r)]) = if r.key = k' then some (pos, r) else lastOf k' st.b.log := by
    intro k'; rw [lastOf_append_single]
  have hrecs : ∀ c, (b1.chunks c).recs = if c = pos.chunk then (st.b.chunks pos.chunk).recs ++ [(pos.off, r)] else (st.b.chunks c).recs := by
    intro c
    by_cases hc : c = pos.chunk
    · subst hc; rw [if_pos rfl]; exact c1
    · rw [if_neg hc]; exact c2 c hc
  have hsub : ∀ c p, p ∈ (st.b.chunks c).recs → p ∈ (b1.chunks c).recs := by
    intro c p hp
    rw [hrecs]
    by_cases hc : c = pos.chunk
    · rw [if_pos hc, List.mem_append]; left; rw [← hc]; exact hp
    · rw [if_neg hc]; exact hp
  obtain ⟨s1, s2, s3, s4, s5, s6⟩ := setItem_spec cfg.cap hcap st.hs (wItem hash r pos) pos.chunk r.size inv.hgood
  have hoff : (wItem hash r pos).off = pos.off := rfl
  obtain ⟨q1, q2, q3, q4, q5⟩ := setItem_r cfg.cap hcap st.hs (wItem hash r pos) pos.chunk r.size (inv.hgood pos.chunk)
    (by intro sp hsp f hf; rw [hoff, c5]; exact (inv.dsok pos.chunk).1 sp hsp f hf)
    (by rw [hoff, c5]; exact (inv.dsok pos.chunk).2)
  rw [hoff] at q3 q4 q5
  have hregsub : ∀ k', k' ∈ x.t.reg → k' ∈ (x.t.afterWrite hash r.key m').reg := by
    intro k' hk'
    unfold Trk.afterWrite
    simp only
    split
    · simp [hk']
    · exact hk'
  refine { pos := cinv.pos, ra := cinv.ra, ob := cinv.ob, spec := cinv.spec, wr := cinv.wr, vers := cinv.vers, tab := cinv.tab,
           tabc := cinv.tabc, tabne := cinv.tabne, slot := ?_, ownw := ?_, own := ?_, hgood := cinv.hgood, hmerged := cinv.hmerged,
           hex := cinv.hex, hmax := ?_, sound := ?_, dsok := ?_, dsfull := ?_, szpos := ?_, le := ?_, tidle := ?_, alld := ?_ }
  · -- slot
    intro h ti hti
    have hti' : AMap.get (AMap.set b1.tree (hash r.key) { pos := pos, ver := r.ver, vhash := if r.ver > 0 then vhashOf r.body else 0 }) h = some ti := hti
    show ∃ o r', hash o = h ∧ b1.readAt ti.pos = some r' ∧ r'.key = o ∧ (ti.pos, r') ∈ b1.log ∧ ti.ver = r'.ver
        ∧ ((x.restarted = false ∨ o ∉ (x.t.afterWrite hash r.key m').reg) → lastOf o b1.log = some (ti.pos, r'))
        ∧ (x.restarted = false → AMap.get (AMap.set x.t.owner (hash r.key) r.key) h = some o)
    rw [flog]
    by_cases hh : hash r.key = h
    · subst hh
      rw [AMap.get_set_self] at hti'
      cases hti'
      exact ⟨r.key, r, rfl, f1, rfl, by simp, rfl, fun _ => by rw [hlast, if_pos rfl], fun _ => AMap.get_set_self _ _ _⟩
    · rw [AMap.get_set_ne _ _ _ _ hh, f4] at hti'
      obtain ⟨o, r', e1, e2, e3, e4, e5, e6, e7⟩ := inv.slot h ti hti'
      have hne : ¬ r.key = o := by intro e; apply hh; rw [e]; exact e1
      refine ⟨o, r', e1, f2 _ _ e2, e3, by simp [e4], e5, ?_, ?_⟩
      · intro hc
        rw [hlast, if_neg hne]
        apply e6
        rcases hc with hc | hc
        · exact Or.inl hc
        · exact Or.inr (fun hr => hc (hregsub o hr))
      · intro hr
        rw [AMap.get_set_ne _ _ _ _ hh]; exact e7 hr
  · -- ownw
    intro h o ho
    have ho' : AMap.get (AMap.set x.t.owner (hash r.key) r.key) h = some o := ho
    show o ∈ r.key :: x.t.written ∧ hash o = h
    by_cases hh : hash r.key = h
    · subst hh
      rw [AMap.get_set_self] at ho'
      cases ho'
      exact ⟨by simp, rfl⟩
    · rw [AMap.get_set_ne _ _ _ _ hh] at ho'
      obtain ⟨a, b⟩ := inv.ownw h o ho'
      exact ⟨by simp [a], b⟩
  · -- own
    intro k hk hc
    show ∃ ti, AMap.get (AMap.set b1.tree (hash r.key) { pos := pos, ver := r.ver, vhash := if r.ver > 0 then vhashOf r.body else 0 }) (hash k) = some ti
    by_cases hh : hash r.key = hash k
    · rw [← hh, AMap.get_set_self]; exact ⟨_, rfl⟩
    · rw [AMap.get_set_ne _ _ _ _ hh, f4]
      have hk' : k ∈ r.key :: x.t.written := hk
      rw [List.mem_cons] at hk'
      rcases hk' with e | e
      · exact absurd (by rw [e]) hh
      · apply inv.own k e
        rcases hc with hc | ⟨hc1, p, r', hc2, hc3⟩
        · exact Or.inl hc
        · refine Or.inr ⟨fun hr => hc1 (hregsub k hr), p, r', ?_, hc3⟩
          have hc2' : lastOf k b1.log = some (p, r') := hc2
          rw [flog, hlast] at hc2'
          have hne : ¬ r.key = k := by intro e'; apply hh; rw [e']
          rw [if_neg hne] at hc2'
          exact hc2'
  · -- hmax
    intro hr c hne
    have hne' : (b1.chunks c).recs ≠ [] := hne
    show c ≤ (st.hs.setItem cfg.cap (wItem hash r pos) pos.chunk r.size).1.maxChunk
    rw [s5]
    by_cases hc : c = pos.chunk
    · subst hc
      by_cases hgt : pos.chunk > st.hs.maxChunk
      · rw [if_pos hgt]; exact Nat.le_refl _
      · rw [if_neg hgt]; omega
    · rw [hrecs, if_neg hc] at hne'
      have := inv.hmax hr c hne'
      by_cases hgt : pos.chunk > st.hs.maxChunk
      · rw [if_pos hgt]; omega
      · rw [if_neg hgt]; exact this
  · -- sound
    intro c y hy
    have hy' : InCk ((st.hs.setItem cfg.cap (wItem hash r pos) pos.chunk r.size).1.chunks c) y := hy
    show Snd hash b1 c y
    by_cases hc : c = pos.chunk
    · subst hc
      rcases q1 y hy' with e | e
      · subst e
        refine ⟨r, ?_, rfl, rfl, rfl⟩
        rw [c1]; simp [wItem]
      · exact snd_mono hash hsub (inv.sound _ y e)
    · rw [s4 c hc] at hy'
      exact snd_mono hash hsub (inv.sound c y hy')
  · -- dsok
    intro c
    show (∀ sp ∈ ((st.hs.setItem cfg.cap (wItem hash r pos) pos.chunk r.size).1.chunks c).old, ∀ f, sp.file = some f → f.datasize ≤ (b1.chunks c).size)
        ∧ ((st.hs.setItem cfg.cap (wItem hash r pos) pos.chunk r.size).1.chunks c).last.maxoffset ≤ (b1.chunks c).size
    by_cases hc : c = pos.chunk
    · subst hc; rw [z1]; exact ⟨q3, q4⟩
    · rw [s4 c hc, z2 c hc]; exact inv.dsok c
  · -- dsfull
    intro c hne
    have hne' : (b1.chunks c).recs ≠ [] := hne
    show (∃ sp ∈ ((st.hs.setItem cfg.cap (wItem hash r pos) pos.chunk r.size).1.chunks c).old, ∃ f, sp.file = some f ∧ f.datasize = (b1.chunks c).size)
        ∨ (((st.hs.setItem cfg.cap (wItem hash r pos) pos.chunk r.size).1.chunks c).last.items ≠ []
            ∧ ((st.hs.setItem cfg.cap (wItem hash r pos) pos.chunk r.size).1.chunks c).last.maxoffset = (b1.chunks c).size)
    by_cases hc : c = pos.chunk
    · subst hc; rw [z1]; exact q5
    · rw [s4 c hc, z2 c hc]
      rw [hrecs, if_neg hc] at hne'
      exact inv.dsfull c hne'
  · -- szpos
    intro c hz
    show (b1.chunks c).recs ≠ []
    rw [hrecs]
    by_cases hc : c = pos.chunk
    · rw [if_pos hc]; simp
    · rw [if_neg hc]
      have hz' : (b1.chunks c).size > 0 := hz
      rw [z2 c hc] at hz'
      exact inv.szpos c hz'
  · -- le
    intro c hgt
    have hgt' : c > (st.hs.setItem cfg.cap (wItem hash r pos) pos.chunk r.size).1.maxChunk := hgt
    show ((st.hs.setItem cfg.cap (wItem hash r pos) pos.chunk r.size).1.chunks c).last.items = []
    rw [s5] at hgt'
    have hcne : c ≠ pos.chunk := by
      intro e; subst e
      split at hgt' <;> omega
    rw [s4 c hcne]
    apply inv.le
    split at hgt' <;> omega
  · -- tidle
    exact q2 _ inv.tidle
  · -- alld
    intro hr k hk hoth
    have hk' : k ∈ r.key :: x.t.written := hk
    have hwok := hw hr
    unfold Trk.writeOK at hwok
    have hdet : x.t.others hash r.key ≠ [] → (x.t.afterWrite hash r.key m').reg = r.key :: x.t.reg := by
      intro hne
      unfold Trk.afterWrite
      simp only
      have : x.t.det hash (hash r.key) = true := by
        rcases Bool.or_eq_true _ _ |>.mp hwok with h | h
        · exfalso; exact hne (List.isEmpty_iff.mp h)
        · exact h
      rw [this]; rfl
    -- the other written keys of k's hash after the write
    have hoth' : (x.t.afterWrite hash r.key m').others hash k =
        (if hash r.key = hash k ∧ r.key ≠ k then [r.key] else []) ++ x.t.others hash k := by
      unfold Trk.others Trk.afterWrite
      simp only [List.filter_cons]
      by_cases hc : hash r.key = hash k ∧ r.key ≠ k
      · simp [hc.1, hc.2]
      · by_cases h1 : hash r.key = hash k
        · have : r.key = k := by
            cases hd : decide (r.key = k) with
            | true => simpa using hd
            | false => exact absurd ⟨h1, by simpa using hd⟩ hc
          simp [this]
        · simp [h1]
    rw [List.mem_cons] at hk'
    rcases hk' with e | e
    · -- the key just written
      subst e
      rw [hoth'] at hoth
      have : x.t.others hash r.key ≠ [] := by simpa using hoth
      rw [hdet this]; simp
    · by_cases ho : x.t.others hash k = []
      · -- k had no hash-mate before: the new key is one, and the table knows the hash: it can only know k
        rw [hoth', ho] at hoth
        have hc : hash r.key = hash k ∧ r.key ≠ k := by
          by_cases hc : hash r.key = hash k ∧ r.key ≠ k
          · exact hc
          · simp [hc] at hoth
        have hkin : k ∈ x.t.others hash r.key := others_mem hash x.t e hc.1.symm (Ne.symm hc.2)
        have hne : x.t.others hash r.key ≠ [] := by intro e'; rw [e'] at hkin; cases hkin
        have hd : x.t.det hash (hash r.key) = true := by
          rcases Bool.or_eq_true _ _ |>.mp hwok with h | h
          · exfalso; exact hne (List.isEmpty_iff.mp h)
          · exact h
        unfold Trk.det at hd
        rw [List.any_eq_true] at hd
        obtain ⟨k1, hk1, hk1h⟩ := hd
        simp only [beq_iff_eq] at hk1h
        have hk1w : k1 ∈ x.t.written := by
          have := inv.tabc k1 hk1
          cases e' : tget st.ct (hash k1) k1 with
          | none => rw [e'] at this; simp at this
          | some it =>
            obtain ⟨_, _, _, _, r', hl, _⟩ := inv.tab _ _ _ e'
            exact (inv.wr k1).mpr (by rw [hl]; rfl)
        have : k1 = k := by
          cases hd' : decide (k1 = k) with
          | true => simpa using hd'
          | false =>
            have hne1 : k1 ≠ k := by simpa using hd'
            have := others_mem hash x.t (o := k1) (k := k) hk1w (by rw [hk1h, hc.1]) hne1
            rw [ho] at this; cases this
        subst this
        exact hregsub k1 hk1
      · exact hregsub k (inv.alld hr k e ho)

end
end CollideLemmas
