/-
  GC beside clients: every GC micro-step preserves the control part `GCtl` of the GC invariant, as long as no
  monitor fires.  Core-only.
-/
import GoBeans.Lemmas.ConcGCInv

namespace ConcGC
open ConcFine

local macro "ctl_auto" : tactic => `(tactic| (
  refine ⟨?_, ?_, ?_, ?_, ?_, ?_, ?_, ?_⟩ <;>
    simp_all [State.gcGoto, State.setChunk, ConcFine.State.setChunk, beginApp, endW, procPC] <;> omega))

theorem gmicro_ctl {cfg : GCfg} {s s' : State} (hc : GCtl s) (hz : noHaz s') (h : gmicro cfg s = some s') : GCtl s' := by
  obtain ⟨h1, h2, h3, h4, h5, h6, h7, h8⟩ := hc
  obtain ⟨_, hz2, hz3⟩ := hz
  have hst : s.gc.started = true := by
    cases hs : s.gc.started with
    | true => rfl
    | false => simp [gmicro, h1 hs] at h
  have h3 := h3 hst
  have h5 := h5 hst
  have h6 := h6 hst
  clear h1 h2
  cases hpc : s.gc.pc with
  | idle => simp [gmicro, hpc] at h
  | done => simp [gmicro, hpc] at h
  | gBegin =>
    simp only [gmicro, hpc] at h
    obtain rfl := Option.some.inj h
    obtain ⟨e1, e2, e3⟩ := beginW_nohaz h4 hz2 hz3
    rw [e3]; ctl_auto
  | gBeginW r f =>
    simp only [gmicro, hpc] at h
    obtain rfl := Option.some.inj h
    obtain ⟨e1, e2, e3⟩ := beginW_nohaz h4 hz2 hz3
    rw [e3]; ctl_auto
  | gCheck r =>
    simp only [gmicro, hpc, afterCheck] at h
    repeat' (split at h)
    all_goals (obtain rfl := Option.some.inj h; ctl_auto)
  | _ =>
    simp only [gmicro, hpc] at h
    repeat' (split at h)
    all_goals (obtain rfl := Option.some.inj h; ctl_auto)

end ConcGC
