/-
  GC beside clients: every GC micro-step preserves the tree part `GTree` of the GC invariant and the data invariant
  `DInv` (every tree item points at a stored record of its key and version), for the conditional repoint.  Core-only.
-/
import GoBeans.Lemmas.ConcGCChk

namespace ConcGC
open ConcFine

theorem stored_cold {s : State} (hk : GChk s) {c : Nat} (hx : X s c) {r : Rec} (h : Stored (s.base.chunks c) r) :
    r ∈ (s.base.chunks c).file := by
  rcases h with h | h
  · exact h
  · rw [(hk.cold c hx).1.nobuf] at h; simp at h

/-- the tree item that points at a record of a file GC owns is the item of that record's key, with its version -/
theorem item_of_rec {s : State} (hk : GChk s) (hd : DInv s) {c : Nat} (hx : X s c) {r : Rec}
    (hr : r ∈ (s.base.chunks c).file) {k : Nat} {it : Item} (hit : s.base.tree k = some it)
    (hp : it.pos = ⟨c, r.off⟩) : k = r.key ∧ it.ver = r.ver := by
  obtain ⟨r0, ⟨h1, h2⟩, h3, h4⟩ := hd.tree k it hit
  rw [hp] at h1 h2
  have h1' := stored_cold hk hx h1
  have := contig_inj _ _ _ (hk.cold c hx).1.cfile r0 r h1' hr h2
  subst this
  exact ⟨h3.symm, h4.symm⟩

/-- `procPC` steps inside one source file that do not touch the tree: the unprocessed part may only lose a record no
    tree item points at -/
theorem g2_same {s s' : State} (ht : GTree s) (hp : procPC s.gc.pc = true) (htr : s'.base.tree = s.base.tree)
    (hsrc : s'.gc.src = s.gc.src)
    (hrem : ∀ r ∈ rem s.gc, r ∈ rem s'.gc ∨ ∀ k it, s.base.tree k = some it → it.pos ≠ ⟨s.gc.src, r.off⟩) :
    ∀ k it, s'.base.tree k = some it → it.pos.chunk = s'.gc.src → ∃ r ∈ rem s'.gc, r.off = it.pos.off := by
  intro k it hit hc
  rw [htr] at hit; rw [hsrc] at hc
  obtain ⟨r, hr, ho⟩ := ht.g2 hp k it hit hc
  rcases hrem r hr with h1 | h1
  · exact ⟨r, h1, ho⟩
  · exfalso
    apply h1 k it hit
    cases hpos : it.pos with
    | mk c o => rw [hpos] at hc ho; simp only at hc ho; rw [hc, ho]

theorem gtree_same {s s' : State} (ht : GTree s) (htr : s'.base.tree = s.base.tree)
    (hX : ∀ c, X s' c ↔ X s c)
    (hg2 : procPC s'.gc.pc = true →
      ∀ k it, s'.base.tree k = some it → it.pos.chunk = s'.gc.src → ∃ r ∈ rem s'.gc, r.off = it.pos.off)
    (hnf : ∀ r, curNotFound s'.gc.pc = some r → curNotFound s.gc.pc = some r ∨ s.base.tree r.key = none) : GTree s' := by
  refine ⟨hg2, ?_⟩
  intro r hr it hit
  rw [htr] at hit
  rw [hX]
  rcases hnf r hr with h1 | h1
  · exact ht.nf r h1 it hit
  · rw [h1] at hit; contradiction

local macro "tr_same" ht:ident hpc:ident : tactic => `(tactic| (
  refine gtree_same $ht rfl (X_congr rfl rfl)
    (fun _ => g2_same $ht (by rw [$hpc:ident]; rfl) rfl rfl (fun r hr => Or.inl (by simpa [rem, State.gcGoto, State.setChunk, $hpc:ident] using hr)))
    (by intro r hr; left; simpa [curNotFound, State.gcGoto, State.setChunk, $hpc:ident] using hr)))

local macro "tr_noproc" ht:ident : tactic => `(tactic| (
  refine gtree_same $ht rfl (X_congr rfl rfl) (by intro hh; simp [procPC, State.gcGoto] at hh)
    (by intro r hr; simp [curNotFound, State.gcGoto] at hr)))

theorem gmicro_tree {cfg : GCfg} {s s' : State} (hc : GCtl s) (hk : GChk s) (ht : GTree s) (hd : DInv s) (hz : noHaz s')
    (h : gmicro cfg s = some s') : GTree s' := by
  obtain ⟨_, hz2, hz3⟩ := hz
  have hst : s.gc.started = true := by
    cases hs : s.gc.started with
    | true => rfl
    | false => simp [gmicro, hc.idle hs] at h
  cases hpc : s.gc.pc with
  | idle => simp [gmicro, hpc] at h
  | done => simp [gmicro, hpc] at h
  | gBegin =>
    simp only [gmicro, hpc] at h
    obtain rfl := Option.some.inj h
    obtain ⟨e1, e2, e3⟩ := beginW_nohaz hc.norew hz2 hz3
    rw [e3]; unfold beginApp; tr_noproc ht
  | gBeginW r f =>
    simp only [gmicro, hpc] at h
    obtain rfl := Option.some.inj h
    obtain ⟨e1, e2, e3⟩ := beginW_nohaz hc.norew hz2 hz3
    rw [e3]; unfold beginApp; tr_same ht hpc
  | gFile =>
    simp only [gmicro, hpc] at h
    repeat' (split at h)
    all_goals (obtain rfl := Option.some.inj h; tr_noproc ht)
  | gTail => exact absurd hpc hc.notail
  | gFileDone =>
    simp only [gmicro, hpc] at h
    obtain rfl := Option.some.inj h; tr_noproc ht
  | gFinal =>
    simp only [gmicro, hpc] at h
    obtain rfl := Option.some.inj h
    rw [endW_norew hc.norew]; tr_noproc ht
  | gEndW r f =>
    simp only [gmicro, hpc] at h
    obtain rfl := Option.some.inj h
    rw [endW_norew hc.norew]; tr_same ht hpc
  | gHead r f =>
    simp only [gmicro, hpc] at h
    obtain rfl := Option.some.inj h; tr_same ht hpc
  | gBuf r f off =>
    simp only [gmicro, hpc] at h
    obtain rfl := Option.some.inj h; tr_same ht hpc
  | gClearMem =>
    simp only [gmicro, hpc] at h
    obtain rfl := Option.some.inj h; tr_same ht hpc
  | gRemove =>
    simp only [gmicro, hpc] at h
    obtain rfl := Option.some.inj h; tr_same ht hpc
  | gOpen =>
    simp only [gmicro, hpc] at h
    obtain rfl := Option.some.inj h
    have hxs : X s s.gc.src := by rw [X_iff]; exact ⟨hst, hc.srcp (Or.inr hpc)⟩
    refine gtree_same ht rfl (X_congr rfl rfl) ?_ (by intro r hr; simp [curNotFound] at hr)
    intro _ k it hit hcs
    obtain ⟨r0, ⟨h1, h2⟩, _⟩ := hd.tree k it hit
    have hcs : it.pos.chunk = s.gc.src := hcs
    rw [hcs] at h1
    exact ⟨r0, by simpa [rem] using stored_cold hk hxs h1, h2⟩
  | gNext =>
    simp only [gmicro, hpc] at h
    split at h
    · rename_i htodo
      split at h <;>
      · obtain rfl := Option.some.inj h
        refine gtree_same ht rfl (X_congr rfl rfl)
          (fun _ => g2_same ht (by rw [hpc]; rfl) rfl rfl (fun r hr => Or.inl (by simpa [rem, State.gcGoto, hpc, htodo] using hr)))
          (by intro r hr; simp [curNotFound, State.gcGoto] at hr)
    · rename_i r rest htodo
      obtain rfl := Option.some.inj h
      refine gtree_same ht rfl (X_congr rfl rfl)
        (fun _ => g2_same ht (by rw [hpc]; rfl) rfl rfl (fun r hr => Or.inl (by simpa [rem, hpc, htodo] using hr)))
        (by intro r hr; simp [curNotFound] at hr)
  | gCheck r =>
    have hxs : X s s.gc.src := by rw [X_iff]; exact ⟨hst, hc.srcp (Or.inl (by rw [hpc]; rfl))⟩
    have hrf : r ∈ (s.base.chunks s.gc.src).file := hk.remIn r (by simp [rem, hpc])
    simp only [gmicro, hpc] at h
    split at h
    · rename_i it hit
      split at h
      · obtain rfl := Option.some.inj h
        unfold afterCheck
        split <;>
        · refine gtree_same ht rfl (X_congr rfl rfl)
            (fun _ => g2_same ht (by rw [hpc]; rfl) rfl rfl (fun r hr => Or.inl (by simpa [rem, State.gcGoto, hpc] using hr)))
            (by intro r hr; simp [curNotFound, State.gcGoto] at hr)
      · rename_i hne
        obtain rfl := Option.some.inj h
        refine gtree_same ht rfl (X_congr rfl rfl)
          (fun _ => g2_same ht (by rw [hpc]; rfl) rfl rfl ?_) (by intro r hr; simp [curNotFound, State.gcGoto] at hr)
        intro r' hr'
        simp only [rem, hpc, List.mem_cons] at hr'
        rcases hr' with rfl | hr'
        · right
          intro k' it' hit' hp
          obtain ⟨rfl, _⟩ := item_of_rec hk hd hxs hrf hit' hp
          rw [hit] at hit'
          obtain rfl := Option.some.inj hit'
          exact hne hp
        · left; simpa [rem, State.gcGoto] using hr'
    · rename_i hit
      split at h
      · obtain rfl := Option.some.inj h
        unfold afterCheck
        split <;>
        · refine gtree_same ht rfl (X_congr rfl rfl)
            (fun _ => g2_same ht (by rw [hpc]; rfl) rfl rfl (fun r hr => Or.inl (by simpa [rem, State.gcGoto, hpc] using hr)))
            (by intro r' hr; right; simp only [curNotFound, State.gcGoto] at hr; simp at hr; rw [← hr]; exact hit)
      · obtain rfl := Option.some.inj h
        refine gtree_same ht rfl (X_congr rfl rfl)
          (fun _ => g2_same ht (by rw [hpc]; rfl) rfl rfl ?_) (by intro r hr; simp [curNotFound, State.gcGoto] at hr)
        intro r' hr'
        simp only [rem, hpc, List.mem_cons] at hr'
        rcases hr' with rfl | hr'
        · right
          intro k' it' hit' hp
          obtain ⟨rfl, _⟩ := item_of_rec hk hd hxs hrf hit' hp
          rw [hit] at hit'; contradiction
        · left; simpa [rem, State.gcGoto] using hr'
  | gFlush r f off =>
    have hxs : X s s.gc.src := by rw [X_iff]; exact ⟨hst, hc.srcp (Or.inl (by rw [hpc]; rfl))⟩
    have hrf : r ∈ (s.base.chunks s.gc.src).file := hk.remIn r (by simp [rem, hpc])
    simp only [gmicro, hpc] at h
    obtain rfl := Option.some.inj h
    refine gtree_same ht rfl (X_congr rfl rfl) (fun _ => g2_same ht (by rw [hpc]; rfl) rfl rfl ?_)
      (by intro r hr; cases f <;> simp [curNotFound] at hr)
    intro r' hr'
    simp only [rem, hpc, List.mem_cons] at hr'
    cases f with
    | true => left; simpa [rem] using hr'
    | false =>
      rcases hr' with rfl | hr'
      · right
        intro k' it' hit' hp
        obtain ⟨rfl, _⟩ := item_of_rec hk hd hxs hrf hit' hp
        have := ht.nf r' (by simp [curNotFound, hpc]) it' hit'
        rw [hp] at this
        exact this hxs
      · left; simpa [rem] using hr'
  | gMove r off =>
    have hxs : X s s.gc.src := by rw [X_iff]; exact ⟨hst, hc.srcp (Or.inl (by rw [hpc]; rfl))⟩
    have hrf : r ∈ (s.base.chunks s.gc.src).file := hk.remIn r (by simp [rem, hpc])
    have hsd : s.gc.dst ≠ s.gc.src := by
      have := (hc.src hst).1
      rcases hc.dst hst with h1 | ⟨h1, _⟩
      · omega
      · rw [hpc] at h1; simp at h1
    simp only [gmicro, hpc] at h
    split at h
    · rename_i it hit
      split at h
      · obtain rfl := Option.some.inj h
        refine ⟨?_, by intro r' hr; simp [curNotFound] at hr⟩
        intro _ k it' hit' hcs
        by_cases hkk : k = r.key
        · simp only [hkk, if_true] at hit'
          obtain rfl := Option.some.inj hit'
          exact absurd hcs hsd
        · simp only [hkk, if_false] at hit'
          obtain ⟨r', hr', ho⟩ := ht.g2 (by rw [hpc]; rfl) k it' hit' hcs
          simp only [rem, hpc, List.mem_cons] at hr'
          rcases hr' with rfl | hr'
          · exfalso
            have hcs : it'.pos.chunk = s.gc.src := hcs
            have hp : it'.pos = ⟨s.gc.src, r'.off⟩ := by
              cases hpos : it'.pos with
              | mk c o => rw [hpos] at hcs ho; simp only at hcs ho; rw [hcs, ho]
            exact hkk (item_of_rec hk hd hxs hrf hit' hp).1
          · exact ⟨r', by simpa [rem] using hr', ho⟩
      · rename_i hne
        obtain rfl := Option.some.inj h
        refine gtree_same ht rfl (X_congr rfl rfl)
          (fun _ => g2_same ht (by rw [hpc]; rfl) rfl rfl ?_) (by intro r hr; simp [curNotFound, State.gcGoto] at hr)
        intro r' hr'
        simp only [rem, hpc, List.mem_cons] at hr'
        rcases hr' with rfl | hr'
        · right
          intro k' it' hit' hp
          obtain ⟨rfl, _⟩ := item_of_rec hk hd hxs hrf hit' hp
          rw [hit] at hit'
          obtain rfl := Option.some.inj hit'
          exact hne (Or.inr hp)
        · left; simpa [rem, State.gcGoto] using hr'
    · rename_i hit
      obtain rfl := Option.some.inj h
      refine gtree_same ht rfl (X_congr rfl rfl)
        (fun _ => g2_same ht (by rw [hpc]; rfl) rfl rfl ?_) (by intro r hr; simp [curNotFound, State.gcGoto] at hr)
      intro r' hr'
      simp only [rem, hpc, List.mem_cons] at hr'
      rcases hr' with rfl | hr'
      · right
        intro k' it' hit' hp
        obtain ⟨rfl, _⟩ := item_of_rec hk hd hxs hrf hit' hp
        rw [hit] at hit'; contradiction
      · left; simpa [rem, State.gcGoto] using hr'

end ConcGC
