/-
  C13 (b): incr, flush, the hint dumper's round.
-/
import GoBeans.Lemmas.CollideSafeOps
set_option linter.unusedSimpArgs false
set_option linter.unusedVariables false
namespace CollideLemmas
open Store Spec HintIndex Collide StoreLemmas HintBufferLemmas

section
variable (hash : Key → Nat)

theorem afterGet_setm (t : Trk) (k : Key) : ({ (t.afterGet hash k) with m := t.m } : Trk) = t.afterGet hash k := by
  have h := afterGet_m hash t k
  cases hh : t.afterGet hash k with
  | mk m w r o => rw [hh] at h; simp only at h; subst h; rfl

/-- the write of an incr on the state the read left behind -/
theorem incr_write {cfg : Collide.Cfg} (hdf : cfg.s.dataFileMax < 4294967296) (hcap : 1 ≤ cfg.cap)
    {st1 : State} {t : Trk} {n : Nat} (k : Key) (g1 : SInv hash cfg st1 (t.afterGet hash k) n)
    (size wts : Nat) (hsz : 0 < size) (v ve val : Int) (hv : 0 < v) (hve : 0 < ve) (hvb : v.natAbs ≤ n + 1) :
    SInv hash cfg (st1.put hash cfg { key := k, ver := v, flag := Spec.FLAG_INCR, ts := none, body := Spec.itoa val, size := size, wts := wts }).1
      ((t.afterGet hash k).afterWrite hash k (AMap.set t.m k { ver := ve, flag := Spec.FLAG_INCR, body := Spec.itoa val, ts := none })) (n + 1) := by
  apply put_inv hash hdf hcap g1 _ hsz hvb
  · intro k' hk'
    rw [afterGet_m]
    exact AMap.get_set_ne _ _ _ _ (Ne.symm hk')
  · simp only [AMap.get_set_self, LogSpec]
    exact ⟨by omega, ⟨fun _ => hve, fun _ => hv⟩, fun _ => by simp, itoa_length val, by omega⟩

theorem spec_incr_write (m : KV) (k : Key) (d : Int) (h : match AMap.get m k with | none => True | some e => e.ver < 0) :
    Spec.step {} m (.incr k d) = (AMap.set m k { ver := 1, flag := Spec.FLAG_INCR, body := Spec.itoa d, ts := none }, .num d) := by
  unfold Spec.step
  cases he : AMap.get m k with
  | none => simp [he]
  | some e => rw [he] at h; simp only at h; simp [he, h]

theorem incr_safe {cfg : Collide.Cfg} (hdf : cfg.s.dataFileMax < 4294967296) (hcap : 1 ≤ cfg.cap)
    {st : State} {t : Trk} {n : Nat} (inv : SInv hash cfg st t n) (k : Key) (d : Int) (size wts : Nat) (hsz : 0 < size) :
    StepOK hash cfg st t n (.incr k d size wts)
      (if incrWrites t.m k then (t.afterGet hash k).afterWrite hash k (Spec.step {} t.m (.incr k d)).1
       else { (t.afterGet hash k) with m := (Spec.step {} t.m (.incr k d)).1 }) := by
  obtain ⟨g1, g2, _, g4⟩ := get_spec hash inv k
  have hs := inv.spec k
  unfold StepOK
  simp only [Collide.cmdOf, Collide.step, g4]
  cases hl : lastOf k st.b.log with
  | none =>
    rw [hl] at hs
    cases he : AMap.get t.m k with
    | some e => rw [he] at hs; exact hs.elim
    | none =>
      have hiw : incrWrites t.m k = true := by unfold incrWrites; rw [he]
      rw [spec_incr_write t.m k d (by rw [he]; trivial), hiw]
      simp only [readOf, coarse, if_true, and_self, and_true]
      exact ⟨incr_write hash hdf hcap k g1 size wts hsz 1 1 d (by omega) (by omega) (by simp), rfl⟩
  | some x =>
    rw [hl] at hs
    cases he : AMap.get t.m k with
    | none => rw [he] at hs; exact hs.elim
    | some e =>
      rw [he] at hs
      obtain ⟨h0, h1, h2, _, he0⟩ := hs
      simp only [readOf]
      by_cases hpos : x.2.ver > 0
      · have hev : e.ver > 0 := h1.mp hpos
        obtain ⟨a, b, _⟩ := h2 hev
        have hnle : ¬ x.2.ver ≤ 0 := by omega
        have hnlt : ¬ e.ver < 0 := by omega
        simp only [hnle, if_false]
        -- the value is a counter, or it is not
        by_cases hf : x.2.flag ≠ Spec.FLAG_INCR
        · have hsp : Spec.step {} t.m (.incr k d) = (t.m, .num 0) := by
            unfold Spec.step; simp [he, hnlt, a, hf]
          have hiw : incrWrites t.m k = false := by unfold incrWrites; simp [he, hnlt, a, hf]
          rw [hsp, hiw, if_pos hf]
          simp only [coarse, Bool.false_eq_true, if_false, and_self, and_true]
          rw [afterGet_setm]
          exact inv_mono hash (Nat.le_succ n) g1
        · have hf' : x.2.flag = Spec.FLAG_INCR := by simpa using hf
          rw [if_neg hf]
          by_cases hlen : x.2.body.length > 22
          · have hsp : Spec.step {} t.m (.incr k d) = (t.m, .num 0) := by
              unfold Spec.step; simp [he, hnlt, a, hf', b, hlen]
            have hiw : incrWrites t.m k = false := by unfold incrWrites; simp [he, hnlt, a, hf', b, hlen]
            rw [hsp, hiw, if_pos hlen]
            simp only [coarse, Bool.false_eq_true, if_false, and_self, and_true]
            rw [afterGet_setm]
            exact inv_mono hash (Nat.le_succ n) g1
          · rw [if_neg hlen]
            cases hp : Spec.parseInt x.2.body with
            | none =>
              have hsp : Spec.step {} t.m (.incr k d) = (t.m, .num 0) := by
                unfold Spec.step; simp [he, hnlt, a, hf', b, hlen, hp]
              have hiw : incrWrites t.m k = false := by unfold incrWrites; simp [he, hnlt, a, hf', b, hlen, hp]
              rw [hsp, hiw]
              simp only [coarse, Bool.false_eq_true, if_false, and_self, and_true]
              rw [afterGet_setm]
              exact inv_mono hash (Nat.le_succ n) g1
            | some old =>
              have hsp : Spec.step {} t.m (.incr k d) =
                  (AMap.set t.m k { ver := e.ver + 1, flag := Spec.FLAG_INCR, body := Spec.itoa (Spec.wrap64 (old + d)), ts := none },
                   .num (Spec.wrap64 (old + d))) := by
                unfold Spec.step; simp [he, hnlt, a, hf', b, hlen, hp]
              have hiw : incrWrites t.m k = true := by unfold incrWrites; simp [he, hnlt, a, hf', b, hlen, hp]
              rw [hsp, hiw]
              simp only [coarse, if_true, and_self, and_true]
              have hvb := inv.vers x (lastOf_mem hl)
              exact ⟨incr_write hash hdf hcap k g1 size wts hsz (x.2.ver + 1) (e.ver + 1) _ (by omega) (by omega) (by omega), rfl⟩
      · have hle : x.2.ver ≤ 0 := by omega
        have hev : e.ver < 0 := by
          have : ¬ e.ver > 0 := fun c => hpos (h1.mpr c)
          omega
        have hiw : incrWrites t.m k = true := by unfold incrWrites; simp [he, hev]
        rw [spec_incr_write t.m k d (by rw [he]; exact hev), hiw]
        simp only [hle, if_true, coarse, and_self, and_true]
        exact ⟨incr_write hash hdf hcap k g1 size wts hsz 1 1 d (by omega) (by omega) (by simp), rfl⟩


/-- the invariant does not look at the flushed counters -/
theorem sinv_congr_b {cfg : Collide.Cfg} {st : State} {t : Trk} {n : Nat} (inv : SInv hash cfg st t n) (b' : Bucket)
    (hr : ∀ i, (b'.chunks i).recs = (st.b.chunks i).recs) (hz : ∀ i, (b'.chunks i).size = (st.b.chunks i).size)
    (hh : b'.head = st.b.head) (ht : b'.tree = st.b.tree) : SInv hash cfg { st with b := b' } t n := by
  have hlog : b'.log = st.b.log := by
    rw [log_eq, log_eq, hh]
    apply flatMap_congr_range
    intro i _
    unfold recsAt
    rw [hr]
  have hra : ∀ p, b'.readAt p = st.b.readAt p := by
    intro p
    unfold Bucket.readAt Bucket.chunk Chunk.find
    rw [hr]
  refine { pos := ⟨?_, ?_⟩, ra := ?_, ob := ?_, spec := ?_, wr := ?_, vers := ?_, tab := ?_, tabc := inv.tabc, tabne := inv.tabne,
           slot := ?_, own := ?_, hgood := inv.hgood, hmerged := inv.hmerged, hex := ?_, hmax := ?_ }
  · intro i o r hm
    show o < (b'.chunks i).size
    rw [hz]; exact inv.pos.below i o r (by rw [← hr]; exact hm)
  · intro i hi
    show (b'.chunks i).recs = [] ∧ (b'.chunks i).size = 0
    rw [hr, hz]; exact inv.pos.fresh i (by rw [← hh]; exact hi)
  · intro c o r hm
    show b'.readAt ⟨c, o⟩ = some r
    rw [hra]; exact inv.ra c o r (by rw [← hr]; exact hm)
  · intro c o r hm
    exact inv.ob c o r (by rw [← hr]; exact hm)
  · intro k; show LogSpec (lastOf k b'.log) _; rw [hlog]; exact inv.spec k
  · intro k; show _ ↔ (lastOf k b'.log).isSome = true; rw [hlog]; exact inv.wr k
  · intro x hx
    have hx' : x ∈ b'.log := hx
    rw [hlog] at hx'; exact inv.vers x hx'
  · intro h k it hg
    show _ ∧ _ ∧ _ ∧ _ ∧ ∃ r, lastOf k b'.log = _ ∧ _
    rw [hlog]; exact inv.tab h k it hg
  · intro h ti hti
    have hti' : AMap.get b'.tree h = some ti := hti
    show ∃ o r, _ ∧ _ ∧ lastOf o b'.log = _ ∧ _
    rw [hlog]; rw [ht] at hti'; exact inv.slot h ti hti'
  · intro k hk
    show ∃ ti, AMap.get b'.tree (hash k) = some ti
    rw [ht]; exact inv.own k hk
  · intro c k
    show HintAt hash k _ (lastIn k (b'.chunks c).recs)
    rw [hr]; exact inv.hex c k
  · intro c hne
    have hne' : (b'.chunks c).recs ≠ [] := hne
    rw [hr] at hne'; exact inv.hmax c hne'

theorem flush_safe {cfg : Collide.Cfg} {st : State} {t : Trk} {n : Nat} (inv : SInv hash cfg st t n) :
    StepOK hash cfg st t n .flush t := by
  unfold StepOK
  simp only [Collide.cmdOf, Collide.step, and_true]
  apply inv_mono hash (Nat.le_succ n)
  apply sinv_congr_b hash inv
  · intro i
    unfold Bucket.chunk
    rw [chunks_setChunk]
    by_cases h : i = st.b.head
    · subst h; simp
    · simp [h]
  · intro i
    unfold Bucket.chunk
    rw [chunks_setChunk]
    by_cases h : i = st.b.head
    · subst h; simp
    · simp [h]
  · rfl
  · rfl

theorem dump_safe {cfg : Collide.Cfg} {st : State} {t : Trk} {n : Nat} (inv : SInv hash cfg st t n) :
    StepOK hash cfg st t n .hintDump t := by
  unfold StepOK
  simp only [Collide.cmdOf, Collide.step, and_true]
  obtain ⟨d1, d2, d3, d4⟩ := dumpAll_spec (st.b.head + 1) st.hs inv.hgood
  apply inv_mono hash (Nat.le_succ n)
  exact { pos := inv.pos, ra := inv.ra, ob := inv.ob, spec := inv.spec, wr := inv.wr, vers := inv.vers, tab := inv.tab,
          tabc := inv.tabc, tabne := inv.tabne, slot := inv.slot, own := inv.own, hgood := d1,
          hmerged := by show (st.hs.dumpAll (st.b.head + 1)).merged = none; rw [d4]; exact inv.hmerged,
          hex := fun c k => by
            show HintAt hash k (((st.hs.dumpAll (st.b.head + 1)).chunks c).get (hash k) k) _
            rw [d2]; exact inv.hex c k,
          hmax := fun c hne => by
            show c ≤ (st.hs.dumpAll (st.b.head + 1)).maxChunk
            rw [d3]; exact inv.hmax c hne }

end
end CollideLemmas
