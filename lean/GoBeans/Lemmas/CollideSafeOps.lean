/-
  C13 (b): the operations of the class, one by one.
-/
import GoBeans.Lemmas.CollideSafeRun
set_option linter.unusedSimpArgs false
set_option linter.unusedVariables false
namespace CollideLemmas
open Store Spec HintIndex Collide StoreLemmas HintBufferLemmas

section
variable (hash : Key → Nat)

/-- what one operation has to establish: the invariant for the successor tracker, the reference map in the tracker
    following `Spec.step`, and the same reply up to version numbers -/
def StepOK (cfg : Collide.Cfg) (st : State) (t : Trk) (n : Nat) (op : Collide.Op) (t' : Trk) : Prop :=
  SInv hash cfg (Collide.step hash cfg st op).1 t' (n + 1)
  ∧ (match Collide.cmdOf op with
     | some c => t'.m = (Spec.step {} t.m c).1 ∧ coarse (Collide.step hash cfg st op).2.1 = coarse (Spec.step {} t.m c).2
     | none => t'.m = t.m)

theorem afterGet_m (t : Trk) (k : Key) : (t.afterGet hash k).m = t.m := by
  unfold Trk.afterGet
  split
  · split
    · split <;> rfl
    · rfl
  · rfl

theorem get_safe {cfg : Collide.Cfg} {st : State} {t : Trk} {n : Nat} (inv : SInv hash cfg st t n) (k : Key) :
    StepOK hash cfg st t n (.get k) (t.afterGet hash k) := by
  obtain ⟨g1, _, _, g4⟩ := get_spec hash inv k
  have hs := inv.spec k
  unfold StepOK
  simp only [Collide.cmdOf, Collide.step, g4, afterGet_m, Spec.step]
  refine ⟨?_, ?_, ?_⟩
  · cases hl : lastOf k st.b.log with
    | none => simp only [readOf]; exact inv_mono hash (Nat.le_succ n) g1
    | some x => simp only [readOf]; split <;> exact inv_mono hash (Nat.le_succ n) g1
  · cases AMap.get t.m k with
    | none => rfl
    | some e => simp only; split <;> rfl
  · cases hl : lastOf k st.b.log with
    | none =>
      rw [hl] at hs
      cases he : AMap.get t.m k with
      | none => simp [readOf]
      | some e => rw [he] at hs; exact hs.elim
    | some x =>
      rw [hl] at hs
      cases he : AMap.get t.m k with
      | none => rw [he] at hs; exact hs.elim
      | some e =>
        rw [he] at hs
        obtain ⟨h0, h1, h2, _⟩ := hs
        simp only [readOf]
        by_cases hv : x.2.ver > 0
        · have hev := h1.mp hv
          obtain ⟨a, b, _⟩ := h2 hev
          simp [hv, hev, a, b]
        · have hev : ¬ e.ver > 0 := fun c => hv (h1.mpr c)
          simp [hv, hev]

theorem info_safe {cfg : Collide.Cfg} {st : State} {t : Trk} {n : Nat} (inv : SInv hash cfg st t n) (k : Key) :
    StepOK hash cfg st t n (.info k) (t.afterGet hash k) := by
  obtain ⟨g1, _, _, g4⟩ := get_spec hash inv k
  have hs := inv.spec k
  unfold StepOK
  simp only [Collide.cmdOf, Collide.step, g4, afterGet_m, Spec.step]
  refine ⟨?_, ?_, ?_⟩
  · cases hl : lastOf k st.b.log with
    | none => simp only [readOf]; exact inv_mono hash (Nat.le_succ n) g1
    | some x => simp only [readOf]; exact inv_mono hash (Nat.le_succ n) g1
  · cases AMap.get t.m k with
    | none => rfl
    | some e => rfl
  · cases hl : lastOf k st.b.log with
    | none =>
      rw [hl] at hs
      cases he : AMap.get t.m k with
      | none => simp [readOf]
      | some e => rw [he] at hs; exact hs.elim
    | some x =>
      rw [hl] at hs
      cases he : AMap.get t.m k with
      | none => rw [he] at hs; exact hs.elim
      | some e =>
        rw [he] at hs
        obtain ⟨h0, h1, h2, h3, _⟩ := hs
        simp only [readOf, coarse]
        by_cases hv : x.2.ver > 0
        · have hev := h1.mp hv
          obtain ⟨a, b, c⟩ := h2 hev
          simp [hv, hev, a, b, c, vhashOf_eq x.2.body h3]
        · have hev : ¬ e.ver > 0 := fun c => hv (h1.mpr c)
          simp [hv, hev]


/-- the old version the write path sees -/
def baseVer (st : State) (k : Key) : Int := match st.memMeta hash k with | some it => it.ver | none => 0

theorem nextVersion_zero (v : Int) : Spec.nextVersion v 0 = ((v.natAbs : Int) + 1, true) := by
  unfold Spec.nextVersion; simp

theorem nextVersion_neg1 (v : Int) : Spec.nextVersion v (-1) = (-(v.natAbs : Int) - 1, true) := by
  unfold Spec.nextVersion; simp

/-- a set with automatic revision always writes, with the version after the one the write path saw -/
theorem cas_set0 (cfg : Collide.Cfg) (hcv : cfg.s.checkVHash = false) (st : State) (k : Key) (body : Bytes) (flag : Nat)
    (ts : Option Nat) (size wts : Nat) (hb : (baseVer hash st k).natAbs < 2147483647) :
    st.checkAndSet hash cfg k body flag 0 ts size wts =
      ((st.put hash cfg { key := k, ver := ((baseVer hash st k).natAbs : Int) + 1, flag := flag, ts := ts, body := body, size := size, wts := wts }).1,
       .done (some (st.put hash cfg { key := k, ver := ((baseVer hash st k).natAbs : Int) + 1, flag := flag, ts := ts, body := body, size := size, wts := wts }).2)) := by
  unfold State.checkAndSet baseVer at *
  cases hm : st.memMeta hash k with
  | none =>
    rw [hm] at hb
    simp only
    rw [nextVer_eq 0 0 (by simp) (by omega) (by omega), nextVersion_zero]
    simp
  | some it =>
    rw [hm] at hb
    simp only at hb ⊢
    rw [nextVer_eq it.ver 0 hb (by omega) (by omega), nextVersion_zero]
    simp only [hcv, Bool.false_eq_true, and_false, if_false]
    have : ¬ ((it.ver.natAbs : Int) + 1 < 0 ∧ it.ver < 0) := by omega
    simp [this]

theorem spec_set0 (m : KV) (k : Key) (body : Bytes) (flag ts : Nat) :
    Spec.step {} m (.set k body flag 0 ts) =
      (AMap.set m k { ver := (((match AMap.get m k with | some e => e.ver | none => 0) : Int).natAbs : Int) + 1, flag := flag, body := body, ts := some ts }, .stored) := by
  unfold Spec.step
  cases he : AMap.get m k with
  | none => simp [nextVersion_zero, he]
  | some e => simp [nextVersion_zero, he]

theorem set_safe {cfg : Collide.Cfg} (hcv : cfg.s.checkVHash = false) (hdf : cfg.s.dataFileMax < 4294967296) (hcap : 1 ≤ cfg.cap)
    {st : State} {t : Trk} {n : Nat} (hn : n + 1 < 2147483647) (inv : SInv hash cfg st t n)
    (k : Key) (body : Bytes) (flag ts size : Nat) (hsz : 0 < size) (hbl : body.length < 2^63) :
    StepOK hash cfg st t n (.set k body flag 0 ts size) (t.afterWrite hash k (Spec.step {} t.m (.set k body flag 0 ts)).1) := by
  have hb : (baseVer hash st k).natAbs ≤ n := by
    unfold baseVer
    cases hm : st.memMeta hash k with
    | none => simp
    | some it => exact memMeta_bound hash inv k it hm
  unfold StepOK
  simp only [Collide.cmdOf, Collide.step]
  rw [cas_set0 hash cfg hcv st k body flag (some ts) size ts (by omega), spec_set0]
  simp only [coarse, and_self, and_true, true_and]
  refine ⟨?_, rfl⟩
  apply put_inv hash hdf hcap inv _ hsz
  · simp only; omega
  · intro k' hk'
    exact AMap.get_set_ne _ _ _ _ (Ne.symm hk')
  · simp only [AMap.get_set_self, LogSpec]
    refine ⟨by omega, ⟨fun _ => by omega, fun _ => by omega⟩, fun _ => by simp, hbl, by omega⟩


theorem trk_eta (t : Trk) : ({ m := t.m, written := t.written, reg := t.reg, owner := t.owner } : Trk) = t := by cases t; rfl

theorem cas_del_none (cfg : Collide.Cfg) (st : State) (k : Key) (size wts : Nat) (hm : st.memMeta hash k = none) :
    st.checkAndSet hash cfg k [] 0 (-1) none size wts = (st, .notFound) := by
  unfold State.checkAndSet
  rw [hm]
  simp only
  rw [nextVer_eq 0 (-1) (by simp) (by omega) (by omega), nextVersion_neg1]
  simp

theorem cas_del_dead (cfg : Collide.Cfg) (hcv : cfg.s.checkVHash = false) (st : State) (k : Key) (size wts : Nat) (it : TItem)
    (hm : st.memMeta hash k = some it) (hb : it.ver.natAbs < 2147483647) (hneg : it.ver < 0) :
    st.checkAndSet hash cfg k [] 0 (-1) none size wts = (st, .notFound) := by
  unfold State.checkAndSet
  rw [hm]
  simp only [hcv, Bool.false_eq_true, and_false, if_false]
  rw [nextVer_eq it.ver (-1) hb (by omega) (by omega), nextVersion_neg1]
  have hc : (-(it.ver.natAbs : Int) - 1 < 0 ∧ it.ver < 0) := by omega
  simp [hc]

theorem cas_del_live (cfg : Collide.Cfg) (hcv : cfg.s.checkVHash = false) (st : State) (k : Key) (size wts : Nat) (it : TItem)
    (hm : st.memMeta hash k = some it) (hb : it.ver.natAbs < 2147483647) (hpos : it.ver > 0) :
    st.checkAndSet hash cfg k [] 0 (-1) none size wts =
      ((st.put hash cfg { key := k, ver := -(it.ver.natAbs : Int) - 1, flag := 0, ts := none, body := [], size := size, wts := wts }).1,
       .done (some (st.put hash cfg { key := k, ver := -(it.ver.natAbs : Int) - 1, flag := 0, ts := none, body := [], size := size, wts := wts }).2)) := by
  unfold State.checkAndSet
  rw [hm]
  simp only [hcv, Bool.false_eq_true, and_false, if_false]
  rw [nextVer_eq it.ver (-1) hb (by omega) (by omega), nextVersion_neg1]
  have hc : ¬ (-(it.ver.natAbs : Int) - 1 < 0 ∧ it.ver < 0) := by omega
  simp [hc]

theorem delete_safe {cfg : Collide.Cfg} (hcv : cfg.s.checkVHash = false) (hdf : cfg.s.dataFileMax < 4294967296) (hcap : 1 ≤ cfg.cap)
    {st : State} {t : Trk} {n : Nat} (hn : n + 1 < 2147483647) (inv : SInv hash cfg st t n)
    (k : Key) (size wts : Nat) (hsz : 0 < size) (hok : k ∈ t.reg ∨ t.others hash k = []) :
    StepOK hash cfg st t n (.delete k size wts)
      (if liveIn t.m k then t.afterWrite hash k (Spec.step {} t.m (.delete k)).1 else { t with m := (Spec.step {} t.m (.delete k)).1 }) := by
  have hs := inv.spec k
  unfold StepOK
  simp only [Collide.cmdOf, Collide.step]
  rcases memMeta_own hash inv k hok with ⟨hm, hl⟩ | ⟨mm, p, r, hm, hl, hv⟩
  · -- the key has no record
    rw [hl] at hs
    cases he : AMap.get t.m k with
    | some e => rw [he] at hs; exact hs.elim
    | none =>
      have hsp : Spec.step {} t.m (.delete k) = (t.m, .notFound) := by unfold Spec.step; simp [he]
      have hlv : liveIn t.m k = false := by unfold liveIn; rw [he]
      rw [cas_del_none hash cfg st k size wts hm, hsp, hlv]
      simp only [coarse, Bool.false_eq_true, if_false, and_self, and_true]
      exact inv_mono hash (Nat.le_succ n) inv
  · rw [hl] at hs
    cases he : AMap.get t.m k with
    | none => rw [he] at hs; exact hs.elim
    | some e =>
      rw [he] at hs
      obtain ⟨h0, h1, _, _, he0⟩ := hs
      simp only at h0 h1
      have hb := memMeta_bound hash inv k mm hm
      by_cases hpos : r.ver > 0
      · -- live: a delete marker is written
        have hev : e.ver > 0 := h1.mp hpos
        have hsp : Spec.step {} t.m (.delete k) = (AMap.set t.m k { ver := -(e.ver.natAbs : Int) - 1, flag := 0, body := [], ts := none }, .deleted) := by
          unfold Spec.step
          have : ¬ e.ver < 0 := by omega
          simp [he, this]
        have hlv : liveIn t.m k = true := by unfold liveIn; rw [he]; simp [hev]
        rw [cas_del_live hash cfg hcv st k size wts mm hm (by omega) (by omega), hsp, hlv]
        simp only [coarse, if_true, and_self, and_true]
        refine ⟨?_, rfl⟩
        apply put_inv hash hdf hcap inv _ hsz
        · simp only; omega
        · intro k' hk'
          exact AMap.get_set_ne _ _ _ _ (Ne.symm hk')
        · simp only [AMap.get_set_self, LogSpec]
          refine ⟨by omega, ⟨fun c => by omega, fun c => by omega⟩, fun c => by omega, by simp, by omega⟩
      · -- already deleted
        have hneg : r.ver < 0 := by omega
        have hev : ¬ e.ver > 0 := fun c => hpos (h1.mpr c)
        have hsp : Spec.step {} t.m (.delete k) = (t.m, .notFound) := by
          unfold Spec.step
          have : e.ver < 0 := by omega
          simp [he, this]
        have hlv : liveIn t.m k = false := by unfold liveIn; rw [he]; simp [hev]
        rw [cas_del_dead hash cfg hcv st k size wts mm hm (by omega) (by omega), hsp, hlv]
        simp only [coarse, Bool.false_eq_true, if_false, and_self, and_true]
        exact inv_mono hash (Nat.le_succ n) inv

end
end CollideLemmas
