/-
  C13 (a) with restarts: `maxDumpedHintID` changes only to an id of the data file whose hint is being written.
-/
import GoBeans.Lemmas.CollideRstHints
set_option linter.unusedSimpArgs false
set_option linter.unusedVariables false
namespace CollideLemmas
open Store Spec HintIndex Collide HintBufferLemmas HintLoadLemmas HintIndexLemmas StoreLemmas

section
variable (hash : Key → Nat)

theorem setIfLarger_or (md : Nat × Int) (c : Nat) (j : Int) : setIfLarger md c j = md ∨ (setIfLarger md c j).1 = c := by
  unfold setIfLarger
  split
  · exact Or.inr rfl
  · exact Or.inl rfl

theorem dumpOldGo_mdOr (c : Nat) : ∀ (l : List HSplit) (j : Nat) (md : Nat × Int),
    (dumpOldGo c j l md).2 = md ∨ (dumpOldGo c j l md).2.1 = c := by
  intro l
  induction l with
  | nil => intro j md; exact Or.inl rfl
  | cons sp rest ih =>
    intro j md
    unfold dumpOldGo
    simp only
    by_cases hn : sp.needDump = true
    · simp only [hn, if_true]
      rcases ih (j + 1) (setIfLarger md c j) with h | h
      · rw [h]; exact setIfLarger_or md c j
      · exact Or.inr h
    · simp only [hn, Bool.false_eq_true, if_false]
      exact ih (j + 1) md

theorem trydump_mdOr (hs : Hints) (c : Nat) (dl : Bool) :
    (hs.trydump c dl).maxDumped = hs.maxDumped ∨ (hs.trydump c dl).maxDumped.1 = c := by
  unfold Hints.trydump
  simp only
  split
  · exact dumpOldGo_mdOr c _ 0 _
  · show setIfLarger (dumpOldGo c 0 (hs.chunks c).old hs.maxDumped).2 c _ = hs.maxDumped ∨ (setIfLarger (dumpOldGo c 0 (hs.chunks c).old hs.maxDumped).2 c _).1 = c
    rcases setIfLarger_or (dumpOldGo c 0 (hs.chunks c).old hs.maxDumped).2 c
        ((dumpOldGo c 0 (hs.chunks c).old hs.maxDumped).1.length : Int) with h | h
    · rw [h]; exact dumpOldGo_mdOr c _ 0 _
    · exact Or.inr h

theorem setItem_mdOr (cap : Nat) (hs : Hints) (it : Item) (c sz : Nat) :
    (hs.setItem cap it c sz).1.maxDumped = hs.maxDumped ∨ (hs.setItem cap it c sz).1.maxDumped.1 = c := by
  unfold Hints.setItem
  simp only
  split
  · exact trydump_mdOr (hs.setCk c ((hs.chunks c).setItem cap it sz).1) c false
  · exact Or.inl rfl

/-- under the invariant: `trydump` raises `maxDumpedHintID` only by writing a non-empty newest buffer -/
theorem trydump_mdTop {V : Nat → FileRecs} {hs : Hints} (g : HsG hash V hs) (c : Nat) (dl : Bool) :
    (hs.trydump c dl).maxDumped = hs.maxDumped ∨ ((hs.trydump c dl).maxDumped.1 = c ∧ (hs.chunks c).last.items ≠ []) := by
  rw [trydump_form hs c dl (g.good hash c)]
  by_cases hd : dumpsLast hs c dl = true
  · rw [if_pos hd]
    have hne : (hs.chunks c).last.items ≠ [] := by
      unfold dumpsLast at hd
      intro he; rw [he] at hd; simp at hd
    rcases setIfLarger_or hs.maxDumped c ((hs.chunks c).old.length : Int) with h | h
    · exact Or.inl h
    · exact Or.inr ⟨h, hne⟩
  · rw [if_neg hd]; exact Or.inl rfl

theorem ckI_last_nonempty {scan : Bool} {all pre rest : FileRecs} {ck : HCk} (h : CkI hash scan all pre rest ck)
    (hne : ck.last.items ≠ []) : pre ≠ [] := by
  obtain ⟨segs, segLast, h1, h2, h3⟩ := h
  intro hp
  subst hp
  have hs : segLast = [] := by
    cases segLast with
    | nil => rfl
    | cons x l =>
      have : (segs.flatten ++ x :: l).length = 0 := by rw [h1]; rfl
      simp at this
  subst hs
  have := h3.perm
  simp [dedupLast] at this
  exact hne this

/-- `maxDumpedHintID` is unchanged or names a data file that holds records -/
def MdTop (V : Nat → FileRecs) (hs hs' : Hints) : Prop := hs'.maxDumped = hs.maxDumped ∨ V hs'.maxDumped.1 ≠ []

theorem mdTop_trans {V : Nat → FileRecs} {a b c : Hints} (h1 : MdTop V a b) (h2 : MdTop V b c) : MdTop V a c := by
  rcases h2 with h2 | h2
  · rcases h1 with h1 | h1
    · exact Or.inl (by rw [h2, h1])
    · exact Or.inr (by rw [h2]; exact h1)
  · exact Or.inr h2

theorem trydump_mdTop' {V : Nat → FileRecs} {hs : Hints} (g : HsG hash V hs) (c : Nat) (dl : Bool) : MdTop V hs (hs.trydump c dl) := by
  rcases trydump_mdTop hash g c dl with h | ⟨h1, h2⟩
  · exact Or.inl h
  · exact Or.inr (by rw [h1]; exact ckI_last_nonempty hash (g.ck c) h2)

theorem dumpAll_mdTop {V : Nat → FileRecs} (n : Nat) {hs : Hints} (g : HsG hash V hs) : MdTop V hs (hs.dumpAll n) := by
  induction n with
  | zero => exact Or.inl rfl
  | succ n ih =>
    have e : hs.dumpAll (n + 1) = (hs.dumpAll n).trydump n false := by
      unfold Hints.dumpAll
      rw [List.range_succ, List.foldl_append]; rfl
    rw [e]
    exact mdTop_trans ih (trydump_mdTop' hash (hsG_dumpAll hash n g).1 n false)

theorem closeAll_mdTop {V : Nat → FileRecs} (n : Nat) {hs : Hints} (g : HsG hash V hs) : MdTop V hs (closeAll hs n) := by
  induction n with
  | zero => exact Or.inl rfl
  | succ n ih =>
    have e : closeAll hs (n + 1) = (closeAll hs n).trydump n true := by
      unfold closeAll
      rw [List.range_succ, List.foldl_append]; rfl
    rw [e]
    exact mdTop_trans ih (trydump_mdTop' hash (hsG_closeAll hash n g).1 n true)

end
end CollideLemmas
