/-
  Second invariant of the pass (on top of Lemmas/GCPass.lean): what GC has written into files of the range is
  CURRENT — the tree points at it, or it is a delete marker of a key the tree does not know kept by a pass that does
  not start at file 0 — and stays so until the pass ends (C18); and which files the pass touches: nothing below the
  first destination, nothing at or above the file being read, the first destination only grows (C17, C18).
-/
import GoBeans.Lemmas.GCPass
set_option linter.unusedSimpArgs false
set_option linter.unusedVariables false
namespace StoreLemmas
open Store Spec

/-- the record `y` is what its key currently is, as far as the tree says -/
def CurT (hash : Key → Nat) (begin : Nat) (tree : List (Nat × TItem)) (y : Pos × Rec) : Prop :=
  match AMap.get tree (hash y.2.key) with
  | some it => it.pos = y.1
  | none => begin > 0 ∧ y.2.ver < 0

structure Aux (hash : Key → Nat) (begin : Nat) (b0 : Bucket) (d0 : Nat) (s : GcSt) (src : Nat) : Prop where
  kept : ∀ y ∈ preV s src, begin ≤ y.1.chunk → CurT hash begin s.b.tree y
  bsrc : begin ≤ src
  dmono : d0 ≤ s.dst
  low : ∀ i, i < d0 → s.b.chunks i = b0.chunks i
  high : ∀ i, src ≤ i → s.b.chunks i = b0.chunks i
  rwge : s.rewriting = true → begin ≤ s.dst
  pfx : d0 < begin → ∃ ext, vrecs s d0 = (b0.chunks d0).recs ++ ext

theorem gcBegin_other (b : Bucket) (dst src : Nat) (st : GcStats) (i : Nat) (h : i ≠ dst) :
    (gcBegin b dst src st).b.chunks i = b.chunks i := by
  unfold gcBegin
  split
  · rfl
  · simp [chunks_setChunk, h]

theorem gcBegin_self_inplace (b : Bucket) (src : Nat) (st : GcStats) (i : Nat) :
    (gcBegin b src src st).b.chunks i = b.chunks i := by
  unfold gcBegin; simp

section AuxStep
variable {hash : Key → Nat} {K : Key → Prop}

theorem aux_stats {begin : Nat} {b0 : Bucket} {d0 : Nat} {s : GcSt} {src : Nat} (st : GcStats)
    (a : Aux hash begin b0 d0 s src) : Aux hash begin b0 d0 { s with stats := st } src :=
  ⟨a.kept, a.bsrc, a.dmono, a.low, a.high, a.rwge, a.pfx⟩

theorem fit_aux {cfg : Store.Cfg} {begin : Nat} {b0 : Bucket} {d0 : Nat} {s : GcSt} {src off : Nat} {r : Rec}
    {rest : List (Nat × Rec)} (st : GcStats) (h : SInv cfg s src ((off, r) :: rest)) (a : Aux hash begin b0 d0 s src) :
    Aux hash begin b0 d0 (fitSt cfg s src r st) src := by
  obtain ⟨f1, f2, f3, f4, f5⟩ := fit_spec st h
  obtain ⟨lo, hl⟩ := h.rest
  have hfits : off + r.size ≤ (s.b.chunks src).size := okFrom_le hl.2.2
  have hmax := h.wf.max src
  unfold fitSt at f2 f4 ⊢
  by_cases hbig : r.size + s.wh > cfg.dataFileMax
  · rw [if_pos hbig] at f2 f4 ⊢
    have hlt : s.dst < src := by
      have := h.dle
      by_cases hd : s.dst = src
      · have := h.inpl hd (off, r) (by simp)
        simp only at this; omega
      · omega
    have hch : ∀ i, i ≠ s.dst → i ≠ s.dst + 1 → (gcBegin s.endWriting (s.dst + 1) src st).b.chunks i = s.b.chunks i := by
      intro i h1 h2
      rw [gcBegin_other _ _ _ _ _ h2, endWriting_other s i h1]
    refine ⟨?_, a.bsrc, ?_, ?_, ?_, ?_, ?_⟩
    · intro y hy hc
      rw [f2] at hy
      rw [f4]
      exact a.kept y hy hc
    · rw [gcBegin_dst]; have := a.dmono; omega
    · intro i hi
      have := a.dmono
      rw [hch i (by omega) (by omega)]
      exact a.low i hi
    · intro i hi
      by_cases hi2 : i = s.dst + 1
      · -- the new destination is the source itself: rewritten in place, the file is not touched
        have : s.dst + 1 = src := by omega
        subst hi2
        rw [this, gcBegin_self_inplace, endWriting_other s src (by omega)]
        exact a.high src (Nat.le_refl _)
      · rw [hch i (by omega) hi2]
        exact a.high i hi
    · intro hr
      rw [gcBegin_rewriting] at hr
      rw [gcBegin_dst]
      have : s.dst + 1 = src := by simpa using hr
      have := a.bsrc
      omega
    · intro hd
      obtain ⟨ext, he⟩ := a.pfx hd
      refine ⟨ext, ?_⟩
      rw [← he]
      unfold vrecs
      rw [gcBegin_dst]
      have hne : ¬ d0 = s.dst + 1 := by
        have := a.bsrc
        have := a.dmono
        intro e
        -- d0 = dst + 1 > dst ≥ d0
        omega
      simp only [hne, if_false]
      by_cases hdd : d0 = s.dst
      · simp only [hdd, if_true]
        rw [gcBegin_recs, endWriting_recs]
      · simp only [hdd, if_false]
        rw [gcBegin_recs, endWriting_other s d0 hdd]
  · rw [if_neg hbig]
    exact aux_stats st a

theorem nodup_left_ne {L1 L2 : List (Pos × Rec)} {x : Pos × Rec} (h : ((L1 ++ x :: L2).map (·.1)).Nodup) :
    ∀ y ∈ L1, y.1 ≠ x.1 := by
  intro y hy e
  simp only [List.map_append, List.map_cons] at h
  rw [List.nodup_append] at h
  exact h.2.2 y.1 (List.mem_map.mpr ⟨y, hy, rfl⟩) x.1 (by simp) e

theorem keep_aux {cfg : Store.Cfg} {begin : Nat} {b0 : Bucket} {d0 : Nat} {s : GcSt} {src off : Nat} {r : Rec}
    {rest : List (Nat × Rec)} (t : List (Nat × TItem)) (h : SInv cfg s src ((off, r) :: rest))
    (hfit : r.size + s.wh ≤ cfg.dataFileMax) (a : Aux hash begin b0 d0 s src)
    (hold : ∀ y ∈ preV s src, begin ≤ y.1.chunk → CurT hash begin s.b.tree y → CurT hash begin t y)
    (hnew : CurT hash begin t (({ chunk := s.dst, off := s.wh } : Pos), r)) :
    Aux hash begin b0 d0 (keepSt s t r) src := by
  obtain ⟨k1, k2, k3⟩ := keep_spec t h hfit
  refine ⟨?_, a.bsrc, a.dmono, a.low, a.high, a.rwge, ?_⟩
  · intro y hy hc
    rw [k2, List.mem_append] at hy
    show CurT hash begin t y
    rcases hy with hy | hy
    · exact hold y hy hc (a.kept y hy hc)
    · simp only [List.mem_singleton] at hy
      subst hy; exact hnew
  · intro hd
    obtain ⟨ext, he⟩ := a.pfx hd
    unfold vrecs at he ⊢
    have e1 : (keepSt s t r).dst = s.dst := rfl
    rw [e1]
    by_cases hdd : d0 = s.dst
    · simp only [hdd, if_true] at he ⊢
      have hdr : dstRecs (keepSt s t r) = dstRecs s ++ [(s.wh, r)] := by
        unfold dstRecs keepSt
        by_cases hr : s.rewriting = true <;> simp [hr]
      rw [hdr, he]
      exact ⟨ext ++ [(s.wh, r)], by simp⟩
    · simp only [hdd, if_false] at he ⊢
      exact ⟨ext, he⟩

theorem record_step_aux {P : Key → TItem → Rec → Prop} {N : Key → Prop} (hInj : InjOn hash K) (cfg : Store.Cfg)
    (begin src : Nat) {b0 : Bucket} {d0 : Nat} {s : GcSt} {off : Nat} {r : Rec} {rest : List (Nat × Rec)}
    (h : SInv cfg s src ((off, r) :: rest))
    (hv : VInv hash K P N (vlog s src ((off, r) :: rest)) s.b.tree)
    (a : Aux hash begin b0 d0 s src) :
    Aux hash begin b0 d0 (gcRecord hash cfg begin src s off r) src := by
  have hx : vlog s src ((off, r) :: rest)
      = preV s src ++ ((({ chunk := src, off := off } : Pos), r) :: (tag src rest ++ postV s.b src)) := rfl
  rw [hx] at hv
  have hkr : K r.key := (hv.recs (({ chunk := src, off := off } : Pos), r) (by simp)).1
  rw [gcRecord_eq]
  generalize hst : recStats s r (recNewest hash begin src s off r) = st
  cases hit : AMap.get s.b.tree (hash r.key) with
  | some it =>
    by_cases hpos : it.pos = { chunk := src, off := off }
    · have hn : recNewest hash begin src s off r = true := by unfold recNewest; rw [hit]; simp [hpos]
      simp only [hn, Bool.not_true, Bool.false_eq_true, if_false]
      obtain ⟨f1, f2, f3, f4, f5⟩ := fit_spec st h
      have fa := fit_aux (hash := hash) st h a
      apply keep_aux _ f1 (by omega) fa
      · intro y hy hc hcur
        rw [f2] at hy
        have hky : K y.2.key := (hv.recs y (by simp [hy])).1
        unfold CurT at hcur ⊢
        rw [f4] at hcur ⊢
        by_cases e : hash r.key = hash y.2.key
        · have ek : r.key = y.2.key := hInj _ _ hkr hky e
          rw [← e, hit] at hcur
          simp only at hcur
          exact absurd (hcur.symm.trans hpos) (nodup_left_ne hv.nodup y hy)
        · rw [AMap.get_set_ne _ _ _ _ e]; exact hcur
      · unfold CurT
        simp [AMap.get_set_self]
    · have hn : recNewest hash begin src s off r = false := by unfold recNewest; rw [hit]; simp [hpos]
      simp only [hn, Bool.not_false, if_true]
      exact aux_stats st a
  | none =>
    by_cases hkeep : begin > 0 ∧ r.ver < 0
    · have hn : recNewest hash begin src s off r = true := by unfold recNewest; rw [hit]; simp [hkeep.1, hkeep.2]
      simp only [hn, Bool.not_true, Bool.false_eq_true, if_false]
      obtain ⟨f1, f2, f3, f4, f5⟩ := fit_spec st h
      have fa := fit_aux (hash := hash) st h a
      apply keep_aux _ f1 (by omega) fa
      · intro y _ _ hcur; exact hcur
      · unfold CurT
        rw [f4, hit]
        exact hkeep
    · have hn : recNewest hash begin src s off r = false := by
        unfold recNewest; rw [hit]
        by_cases hb : begin > 0
        · have : ¬ r.ver < 0 := fun e => hkeep ⟨hb, e⟩
          simp [hb, this]
        · simp [hb]
      simp only [hn, Bool.not_false, if_true]
      exact aux_stats st a

theorem records_fold_aux {P : Key → TItem → Rec → Prop} {N : Key → Prop}
    (hP : ∀ k it r p', P k it r → P k { it with pos := p' } r)
    (hInj : InjOn hash K) (cfg : Store.Cfg) (begin src : Nat) (b0 : Bucket) (d0 : Nat) :
    ∀ (rest : List (Nat × Rec)) (s : GcSt), SInv cfg s src rest → VInv hash K P N (vlog s src rest) s.b.tree →
      (begin = 0 → KnownPre hash s src) → Aux hash begin b0 d0 s src →
      Aux hash begin b0 d0 (rest.foldl (fun s (p : Nat × Rec) => gcRecord hash cfg begin src s p.1 p.2) s) src
  | [], s, _, _, _, a => a
  | (off, r) :: rest, s, h, hv, hk, a => by
    obtain ⟨h1, h2, h3⟩ := record_step hP hInj cfg begin src h hv hk
    exact records_fold_aux hP hInj cfg begin src b0 d0 rest _ h1 h2 h3 (record_step_aux hInj cfg begin src h hv a)

theorem advance_aux {cfg : Store.Cfg} {begin : Nat} {b0 : Bucket} {d0 : Nat} {s : GcSt} {src : Nat} (b' : Bucket)
    (h : SInv cfg s src []) (hlt : src < s.b.head) (hh : b'.head = s.b.head) (ht : b'.tree = s.b.tree)
    (ho : ∀ i, i ≠ src → b'.chunks i = s.b.chunks i)
    (hs : if s.dst = src then b'.chunks src = s.b.chunks src else ((b'.chunks src).recs = [] ∧ (b'.chunks src).size = 0))
    (a : Aux hash begin b0 d0 s src) :
    Aux hash begin b0 d0 { s with b := b' } (src + 1) := by
  obtain ⟨a1, a2, a3⟩ := advance b' h hlt hh ho hs
  have hbs := a.bsrc
  have hdm := a.dmono
  have hdle := h.dle
  refine ⟨?_, by omega, a.dmono, ?_, ?_, a.rwge, ?_⟩
  · intro y hy hc
    rw [a3] at hy
    show CurT hash begin b'.tree y
    rw [ht]
    exact a.kept y hy hc
  · intro i hi
    show b'.chunks i = _
    rw [ho i (by omega)]; exact a.low i hi
  · intro i hi
    show b'.chunks i = _
    rw [ho i (by omega)]; exact a.high i (by omega)
  · intro hd
    obtain ⟨ext, he⟩ := a.pfx hd
    refine ⟨ext, ?_⟩
    rw [← he]
    unfold vrecs dstRecs
    by_cases hdd : d0 = s.dst
    · simp only [hdd, if_true]
      show (if s.rewriting = true then s.out else (b'.chunks s.dst).recs ++ s.out) = _
      rw [ho s.dst (by omega)]
    · have : ¬ d0 = ({ s with b := b' } : GcSt).dst := hdd
      simp only [this, hdd, if_false]
      show (b'.chunks d0).recs = _
      rw [ho d0 (by omega)]

theorem file_step_aux {P : Key → TItem → Rec → Prop} {N : Key → Prop}
    (hP : ∀ k it r p', P k it r → P k { it with pos := p' } r)
    (hInj : InjOn hash K) (cfg : Store.Cfg) (begin src : Nat) {b0 : Bucket} {d0 : Nat} {s : GcSt}
    (h : SInv cfg s src (s.b.chunks src).recs) (hlt : src < s.b.head)
    (hv : VInv hash K P N (vlog s src (s.b.chunks src).recs) s.b.tree)
    (hk : begin = 0 → KnownPre hash s src) (a : Aux hash begin b0 d0 s src) :
    Aux hash begin b0 d0 (gcFile hash cfg begin s src) (src + 1) := by
  rw [gcFile_eq]
  by_cases hz : (s.b.chunks src).size = 0
  · rw [if_pos hz]
    have hnil : (s.b.chunks src).recs = [] := by
      have := h.wf.ok src
      rw [hz] at this
      exact okFrom_nil_of_zero this
    rw [hnil] at h
    have hs : if s.dst = src then s.b.chunks src = s.b.chunks src else ((s.b.chunks src).recs = [] ∧ (s.b.chunks src).size = 0) := by
      split
      · rfl
      · exact ⟨hnil, hz⟩
    exact advance_aux s.b h hlt rfl rfl (fun i _ => rfl) hs a
  · rw [if_neg hz]
    obtain ⟨r1, r2, r3⟩ := records_fold hP hInj cfg begin src _ s h hv hk
    have ra := records_fold_aux hP hInj cfg begin src b0 d0 _ s h hv hk a
    have rh := records_head hash cfg begin src (s.b.chunks src).recs s
    generalize (s.b.chunks src).recs.foldl (fun s (p : Nat × Rec) => gcRecord hash cfg begin src s p.1 p.2) s = s' at r1 r2 r3 rh ra
    have hlt' : src < s'.b.head := by rw [rh]; exact hlt
    have hs : if s'.dst = src then (clearSrc s' src).chunks src = s'.b.chunks src
        else (((clearSrc s' src).chunks src).recs = [] ∧ ((clearSrc s' src).chunks src).size = 0) := by
      by_cases hd : s'.dst = src
      · rw [if_pos hd]; exact clearSrc_keep s' src hd
      · rw [if_neg hd, clearSrc_clear s' src hd]; exact ⟨rfl, rfl⟩
    exact advance_aux (clearSrc s' src) r1 hlt' (clearSrc_head s' src) (clearSrc_tree s' src) (clearSrc_other s' src) hs ra

theorem files_fold_aux {P : Key → TItem → Rec → Prop} {N : Key → Prop}
    (hP : ∀ k it r p', P k it r → P k { it with pos := p' } r)
    (hInj : InjOn hash K) (cfg : Store.Cfg) (begin : Nat) (b0 : Bucket) (d0 : Nat) (s0 : GcSt) :
    ∀ n, begin + n ≤ s0.b.head →
      SInv cfg s0 begin (s0.b.chunks begin).recs → VInv hash K P N (vlog s0 begin (s0.b.chunks begin).recs) s0.b.tree →
      (begin = 0 → KnownPre hash s0 begin) → Aux hash begin b0 d0 s0 begin →
      Aux hash begin b0 d0 ((List.range n).foldl (fun s i => gcFile hash cfg begin s (begin + i)) s0) (begin + n)
  | 0, _, _, _, _, a => a
  | n + 1, hn, h, hv, hk, a => by
    obtain ⟨i1, i2, i3, i4, _⟩ := files_fold hP hInj cfg begin s0 n (by omega) h hv hk
    have ia := files_fold_aux hP hInj cfg begin b0 d0 s0 n (by omega) h hv hk a
    rw [List.range_succ, List.foldl_append]
    simp only [List.foldl_cons, List.foldl_nil]
    generalize (List.range n).foldl (fun s i => gcFile hash cfg begin s (begin + i)) s0 = s at i1 i2 i3 i4 ia
    exact file_step_aux hP hInj cfg begin (begin + n) i1 (by rw [i4]; omega) i2 i3 ia

theorem start_aux {cfg : Store.Cfg} {b : Bucket} (w : WF cfg b) (begin : Nat) (hb : begin ≤ b.head) (st : GcStats) :
    Aux hash begin b (gcDst cfg b begin) (gcBegin b (gcDst cfg b begin) begin st) begin := by
  obtain ⟨s1, s2, s3⟩ := start_spec w begin hb st
  obtain ⟨hd1, hd2⟩ := gcDst_spec cfg b begin
  generalize gcDst cfg b begin = d at *
  refine ⟨?_, Nat.le_refl _, by rw [gcBegin_dst]; exact Nat.le_refl _, ?_, ?_, ?_, ?_⟩
  · intro y hy hc
    rw [s3] at hy
    have := mem_flatMap_range_chunk (fun i => (b.chunks i).recs) begin y hy
    omega
  · intro i hi; exact gcBegin_other _ _ _ _ _ (by omega)
  · intro i hi
    by_cases hid : i = d
    · have : d = begin := by omega
      subst hid; subst this
      exact gcBegin_self_inplace _ _ _ _
    · exact gcBegin_other _ _ _ _ _ hid
  · intro hr
    rw [gcBegin_rewriting] at hr
    rw [gcBegin_dst]
    have : d = begin := by simpa using hr
    omega
  · intro hd
    refine ⟨[], ?_⟩
    unfold vrecs dstRecs
    rw [gcBegin_dst, gcBegin_out, gcBegin_rewriting, gcBegin_recs]
    have : ¬ d = begin := by omega
    simp [this]

/-- what the pass leaves in the files: nothing below the first destination and nothing above the range is touched,
    the first destination (when it lies below the range) only grows, every record in a file of the range is current -/
theorem gcRun_files {P : Key → TItem → Rec → Prop} {N : Key → Prop}
    (hP : ∀ k it r p', P k it r → P k { it with pos := p' } r)
    (hInj : InjOn hash K) (cfg : Store.Cfg) {b : Bucket} (w : WF cfg b) (begin stop : Nat) (hbs : begin ≤ stop)
    (hs : stop < b.head) (hv : VInv hash K P N b.log b.tree) :
    (∀ i, i < gcDst cfg b begin → (gcRun hash cfg b begin stop).1.chunks i = b.chunks i)
    ∧ (∀ i, stop < i → (gcRun hash cfg b begin stop).1.chunks i = b.chunks i)
    ∧ (gcDst cfg b begin < begin → ∃ ext, ((gcRun hash cfg b begin stop).1.chunks (gcDst cfg b begin)).recs
          = (b.chunks (gcDst cfg b begin)).recs ++ ext)
    ∧ (∀ i, begin ≤ i → i ≤ stop → ∀ p ∈ ((gcRun hash cfg b begin stop).1.chunks i).recs,
          CurT hash begin (gcRun hash cfg b begin stop).1.tree (({ chunk := i, off := p.1 } : Pos), p.2)) := by
  rw [gcRun_eq]
  obtain ⟨s1, s2, s3⟩ := start_spec w begin (by omega) {}
  have sa := start_aux (hash := hash) w begin (by omega) {}
  generalize hd0 : gcDst cfg b begin = d0 at sa ⊢
  rw [hd0] at s1 s2 s3
  generalize hs0 : gcBegin b d0 begin {} = s0 at s1 s2 s3 sa
  have ht0 : s0.b.tree = b.tree := by rw [← hs0, gcBegin_tree]
  have hh0 : s0.b.head = b.head := by rw [← hs0, gcBegin_head]
  have hk0 : begin = 0 → KnownPre hash s0 begin := by
    intro hb y hy
    rw [s3, hb] at hy
    simp at hy
  have hv0 : VInv hash K P N (vlog s0 begin (s0.b.chunks begin).recs) s0.b.tree := by rw [s2, ht0]; exact hv
  obtain ⟨f1, f2, f3, f4, f5⟩ := files_fold hP hInj cfg begin s0 (stop + 1 - begin) (by rw [hh0]; omega) s1 hv0 hk0
  have fa := files_fold_aux hP hInj cfg begin b d0 s0 (stop + 1 - begin) (by rw [hh0]; omega) s1 hv0 hk0 sa
  generalize (List.range (stop + 1 - begin)).foldl (fun s i => gcFile hash cfg begin s (begin + i)) s0 = s at f1 f2 f3 f4 f5 fa
  have hsrc : begin + (stop + 1 - begin) = stop + 1 := by omega
  rw [hsrc] at f1 f5 fa
  have hdlt : s.dst < stop + 1 := f5 (by omega)
  have hdm := fa.dmono
  have hrec : ∀ i, (s.endWriting.chunks i).recs = vrecs s i := by
    intro i
    unfold vrecs
    by_cases hi : i = s.dst
    · subst hi; simp only [if_true]; rw [endWriting_recs]
    · simp only [hi, if_false]; rw [endWriting_other s i hi]
  refine ⟨?_, ?_, ?_, ?_⟩
  · intro i hi
    rw [endWriting_other s i (by omega)]
    exact fa.low i hi
  · intro i hi
    rw [endWriting_other s i (by omega)]
    exact fa.high i (by omega)
  · intro hd
    obtain ⟨ext, he⟩ := fa.pfx hd
    exact ⟨ext, by rw [hrec, he]⟩
  · intro i hi1 hi2 p hp
    rw [endWriting_tree]
    apply fa.kept _ _ hi1
    unfold preV
    rw [List.mem_append]
    left
    rw [List.mem_flatMap]
    refine ⟨i, by rw [List.mem_range]; omega, ?_⟩
    rw [mem_tag]
    rw [hrec] at hp
    exact ⟨rfl, hp⟩

end AuxStep
end StoreLemmas
