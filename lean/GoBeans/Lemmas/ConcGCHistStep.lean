/-
  GC beside clients: every CLIENT micro-step preserves the history invariant `HInv` (adaptation of
  `ConcFine.micro_hist`; the reader's last step is only taken through `ConcFine.micro` when the read succeeds — a
  failing read is `readFail`, see `hinv_readFail`).  Core-only.
-/
import GoBeans.Lemmas.ConcGCHist

namespace ConcGC
open ConcFine
open Conc (AOp Out Ev Reg regStep)

local macro "others" : tactic =>
  `(tactic| (intro u hu; simp [ConcFine.State.goto, ConcFine.State.log, ConcFine.State.respond, ConcFine.State.readDone,
                                 ConcFine.State.setChunk, hu]))

local macro "same_case" t:ident hi:ident hpc:ident hpo:ident hst:ident : tactic => `(tactic| (
  have hlt := HInvP.inv $hi $t (by rw [$hpc:ident]; intro hh; cases hh)
  refine hist_sameP $t $hi rfl rfl (by others) ?_ $hpo (fun k => $hst k rfl) ?_
  · intro _; simp [ConcFine.State.goto, ConcFine.State.log, ConcFine.State.respond, ConcFine.State.readDone,
                   ConcFine.State.setChunk]; omega
  · intro out hp; rw [$hpc:ident] at hp; exact False.elim (pend_nonreader rfl hp)))

theorem micro_hinv (cfg : Cfg) (s : State) (b' : ConcFine.State) (t : Nat) (hI : SInv s)
    (hI' : SInv { s with base := b' }) (hi : HInv s) (h : micro cfg s.base t = some b')
    (hrb : ∀ k it, (s.base.thr t).pc = .rBuf k it →
      bufLookup (s.base.chunks it.pos.chunk) it.pos.off ≠ .err ∧
      ∀ r, bufLookup (s.base.chunks it.pos.chunk) it.pos.off = .found r → r.key = k)
    (hrf : ∀ k it, (s.base.thr t).pc = .rFile k it →
      ∃ r, fileLookup (s.base.chunks it.pos.chunk) it.pos.off = some r ∧ r.key = k) :
    HInvP (Pend { s with base := b' }) b'.tick := by
  have g := micro_grows_hot hI.lock hI.hot (hI.data.fltg t) h
  have hrd := readable_sinv hI
  have hrd' : ∀ c, Readable (b'.chunks c) := readable_sinv hI'
  have hd := hI.data
  have hw := hd.wr t
  have hpo : ∀ u, u ≠ t → ∀ o, Pend s (s.base.thr u).pc o → Pend { s with base := b' } (s.base.thr u).pc o :=
    fun u _ o hp => pend_client g hp
  have hst : ∀ k, b'.tree k = s.base.tree k → absReg b' k = absReg s.base k := fun k ht =>
    absReg_stable' ht g (fun it hit => by obtain ⟨r, h1, _⟩ := hd.tree k it hit; exact ⟨r, h1⟩) hrd hrd'
  clear hI'
  cases hpc : (s.base.thr t).pc with
  | idle => simp [micro, hpc] at h
  | wLock q =>
    simp only [micro, hpc] at h
    split at h
    · obtain rfl := Option.some.inj h; same_case t hi hpc hpo hst
    · contradiction
  | wSlot q ver =>
    simp only [micro, hpc] at h
    split at h
    · split at h <;> (obtain rfl := Option.some.inj h; same_case t hi hpc hpo hst)
    · contradiction
  | wAppend q ver pos =>
    simp only [micro, hpc] at h
    obtain rfl := Option.some.inj h; same_case t hi hpc hpo hst
  | wDsUnlock q ver pos =>
    simp only [micro, hpc] at h
    obtain rfl := Option.some.inj h; same_case t hi hpc hpo hst
  | wGet q =>
    simp only [micro, hpc] at h
    have hne : (s.base.thr t).pc ≠ .idle := by rw [hpc]; intro hh; cases hh
    split at h
    · rename_i hno
      obtain rfl := Option.some.inj h
      have hrr := reject_reg' hd hrd hno
      refine hist_logP t q.key q.aop .rej hi rfl rfl (by others) hne (by simp [ConcFine.State.goto, ConcFine.State.log]) hpo
        ?_ ?_ ?_ ?_ ?_
      · rw [hrr]
      · rw [hrr]; exact hst _ rfl
      · intro k' _; exact hst _ rfl
      · intro o hp; rw [hpc] at hp; exact pend_nonreader rfl hp
      · exact Or.inl (by simp [ConcFine.State.goto, ConcFine.State.log, PendPC])
    · obtain rfl := Option.some.inj h; same_case t hi hpc hpo hst
  | wTreeSet q ver pos =>
    simp only [micro, hpc] at h
    have hne : (s.base.thr t).pc ≠ .idle := by rw [hpc]; intro hh; cases hh
    rw [hpc] at hw
    obtain ⟨hq, hwp, hsa⟩ := hw
    have hts := treeSet_reg' hd hrd hq hwp
    obtain rfl := Option.some.inj h
    refine hist_logP t q.key q.aop (.acc ver.natAbs) hi rfl rfl (by others) hne
      (by simp [ConcFine.State.goto, ConcFine.State.log]) hpo ?_ ?_ ?_ ?_ ?_
    · rw [hts]
    · rw [hts]
      have hsa' : StoredAt s.base.chunks pos (q.toRec ver pos.off) := hsa
      have hlk := (hrd pos.chunk).lookup _ hsa'.1
      have hoff : (q.toRec ver pos.off).off = pos.off := rfl
      rw [hoff] at hlk
      simp [absReg, ConcFine.State.goto, ConcFine.State.log, hlk, WReq.toRec]
    · intro k' hk'
      exact hst _ (by simp [ConcFine.State.goto, ConcFine.State.log, hk'])
    · intro o hp; rw [hpc] at hp; exact pend_nonreader rfl hp
    · exact Or.inl (by simp [ConcFine.State.goto, ConcFine.State.log, PendPC])
  | wUnlock k out =>
    simp only [micro, hpc] at h
    obtain rfl := Option.some.inj h
    refine hist_respondP t out hi rfl rfl (by others) (by simp [ConcFine.State.goto]) hpo (fun k => hst k rfl) ?_
    intro o hp; rw [hpc] at hp; exact pend_nonreader rfl hp
  | rGet k =>
    simp only [micro, hpc] at h
    have hne : (s.base.thr t).pc ≠ .idle := by rw [hpc]; intro hh; cases hh
    split at h
    · rename_i hit
      obtain rfl := Option.some.inj h
      refine hist_logP t k .read (.got 0 0) hi rfl rfl (by others) hne (by simp [ConcFine.State.goto, ConcFine.State.log]) hpo
        ?_ ?_ ?_ ?_ ?_
      · rw [absReg_none hit]; rfl
      · exact hst _ rfl
      · intro k' _; exact hst _ rfl
      · intro o hp; rw [hpc] at hp; exact pend_nonreader rfl hp
      · exact Or.inl (by simp [ConcFine.State.goto, ConcFine.State.log, PendPC])
    · rename_i it hit
      obtain rfl := Option.some.inj h
      refine hist_logP t k .read (.got (absReg s.base k).val (absReg s.base k).ver) hi rfl rfl (by others) hne
        (by simp [ConcFine.State.goto, ConcFine.State.log]) hpo rfl ?_ ?_ ?_ ?_
      · exact hst _ rfl
      · intro k' _; exact hst _ rfl
      · intro o hp; rw [hpc] at hp; exact pend_nonreader rfl hp
      · obtain ⟨r, h1, h2, _, _, h5⟩ := absReg_eq' hd hrd hit
        left
        simp only [ConcFine.State.goto, ConcFine.State.log, if_true, PendPC]
        exact ⟨r, h1, h2, by rw [h5]⟩
  | rRet k =>
    simp only [micro, hpc] at h
    obtain rfl := Option.some.inj h
    refine hist_respondP t (.got 0 0) hi rfl rfl (by others) (by simp [ConcFine.State.goto]) hpo (fun k => hst k rfl) ?_
    intro o hp; rw [hpc] at hp; exact pend_nonreader rfl hp
  | rBuf k it =>
    have hrb := hrb k it hpc
    simp only [micro, hpc] at h
    split at h
    · rename_i r' hfound
      obtain rfl := Option.some.inj h
      refine hist_respondP t (readOut k it (some r')) hi rfl rfl (by others)
        (by simp [ConcFine.State.goto, ConcFine.State.readDone]) hpo (fun k => hst k rfl) ?_
      intro o hp; rw [hpc] at hp
      rcases hp with ⟨r, h1, h2, h3⟩ | ⟨c, hc, hdd, _⟩
      · rcases (hrd it.pos.chunk) r h1.1 with hf | ⟨hf, _⟩
        · rw [h1.2, hfound] at hf
          obtain rfl := BufRes.found.inj hf
          simp [readOut, h2, h3]
        · rw [h1.2, hfound] at hf; contradiction
      · simp only [readerChunk, Option.some.injEq] at hc
        subst hc
        rw [bufLookup_nobuf _ _ (dead_empty hI hdd).1] at hfound; contradiction
    · rename_i herr
      exact absurd herr hrb.1
    · rename_i hmiss
      obtain rfl := Option.some.inj h
      have hlt := hi.inv t (by rw [hpc]; intro hh; cases hh)
      refine hist_sameP t hi rfl rfl (by others) ?_ hpo (fun k => hst k rfl) ?_
      · intro _; simp [ConcFine.State.goto]; omega
      · intro o hp; rw [hpc] at hp
        rcases hp with ⟨r, h1, h2, h3⟩ | ⟨c, hc, hdd, hg⟩
        · left
          simp only [ConcFine.State.goto, if_true, PendPC]
          rcases (hrd it.pos.chunk) r h1.1 with hf | ⟨_, hf, _⟩
          · rw [h1.2, hmiss] at hf; contradiction
          · exact ⟨r, hf, h1.2, h2, h3⟩
        · right
          simp only [ConcFine.State.goto, if_true]
          exact ⟨c, hc, hdd, hg⟩
  | rFile k it =>
    obtain ⟨r0, hr0, hk0⟩ := hrf k it hpc
    simp only [micro, hpc] at h
    obtain rfl := Option.some.inj h
    refine hist_respondP t (readOut k it (fileLookup (s.base.chunks it.pos.chunk) it.pos.off)) hi rfl rfl (by others)
      (by simp [ConcFine.State.goto, ConcFine.State.readDone]) hpo (fun k => hst k rfl) ?_
    intro o hp; rw [hpc] at hp
    rcases hp with ⟨r, h1, h2, h3, h4⟩ | ⟨c, hc, hdd, _⟩
    · have hfl := file_find hI h1
      rw [h2] at hfl
      rw [hfl]
      simp [readOut, h3, h4]
    · simp only [readerChunk, Option.some.injEq] at hc
      subst hc
      simp [fileLookup, (dead_empty hI hdd).2] at hr0
  | fPre c force late =>
    simp only [micro, hpc] at h
    split at h <;> (obtain rfl := Option.some.inj h; same_case t hi hpc hpo hst)
  | fLock c force late =>
    simp only [micro, hpc] at h
    split at h
    · obtain rfl := Option.some.inj h; same_case t hi hpc hpo hst
    · contradiction
  | fDs1 c force late =>
    simp only [micro, hpc] at h
    split at h
    · split at h
      · obtain rfl := Option.some.inj h; same_case t hi hpc hpo hst
      · split at h <;> (obtain rfl := Option.some.inj h; same_case t hi hpc hpo hst)
    · contradiction
  | fOpen c =>
    simp only [micro, hpc] at h
    obtain rfl := Option.some.inj h; same_case t hi hpc hpo hst
  | fCheck c woff =>
    simp only [micro, hpc] at h
    split at h <;> (obtain rfl := Option.some.inj h; same_case t hi hpc hpo hst)
  | fCount c woff =>
    simp only [micro, hpc] at h
    obtain rfl := Option.some.inj h; same_case t hi hpc hpo hst
  | fFetch c woff n i fl =>
    simp only [micro, hpc] at h
    split at h
    · split at h <;> (obtain rfl := Option.some.inj h; same_case t hi hpc hpo hst)
    · obtain rfl := Option.some.inj h; same_case t hi hpc hpo hst
  | fWrite c woff n i fl r =>
    simp only [micro, hpc] at h
    obtain rfl := Option.some.inj h; same_case t hi hpc hpo hst
  | fDetach c n fl =>
    simp only [micro, hpc] at h
    obtain rfl := Option.some.inj h; same_case t hi hpc hpo hst
  | fDs2 fl =>
    simp only [micro, hpc] at h
    split at h
    · obtain rfl := Option.some.inj h; same_case t hi hpc hpo hst
    · contradiction
  | fUnlock =>
    simp only [micro, hpc] at h
    obtain rfl := Option.some.inj h; same_case t hi hpc hpo hst

end ConcGC
