/-
  C13 (b) with restarts: the tree after the hint loop of `Bucket.open`, slot by slot (`treeFold_inv`).
-/
import GoBeans.Lemmas.CollideRTree
set_option linter.unusedSimpArgs false
set_option linter.unusedVariables false
namespace CollideLemmas
open Store Spec HintIndex Collide StoreLemmas HintBufferLemmas HintIndexLemmas

section
variable (hash : Key → Nat)

/-- what the tree loop relies on: the closed hint state `hs1` against the data files of `b`; `U` = the keys in use that the
    collision table does not know (each the only key of its hash) -/
structure TC (b : Bucket) (hs1 : Hints) (U : Key → Prop) : Prop where
  pos : PosInv b
  good : ∀ j, CkGood (hs1.chunks j)
  empty : ∀ j, (hs1.chunks j).last.items = []
  hex : ∀ c k, HintAt hash k ((hs1.chunks c).get (hash k) k) (lastIn k (b.chunks c).recs)
  single : ∀ o, U o → ∀ c y, InCk (hs1.chunks c) y → y.khash = hash o → y.key = o

/-- the slot is what the record `r` at (`i`, `off`) leaves: its position and version if live, nothing if it is a delete marker -/
def SlotIs (s : Option TItem) (i off : Nat) (r : Rec) : Prop :=
  (r.ver > 0 → ∃ ti, s = some ti ∧ ti.pos = ⟨i, off⟩ ∧ ti.ver = r.ver) ∧ (¬ r.ver > 0 → s = none)

theorem files_eq_map {old : List HSplit} (h : AllFiles old) : ({ old := old, last := {} } : HCk).files = old.map spItems := by
  unfold HCk.files
  simp only
  induction old with
  | nil => rfl
  | cons sp rest ih =>
    obtain ⟨_, f, hf, _⟩ := h sp (by simp)
    simp only [List.filterMap_cons, hf, Option.map_some, List.map_cons]
    rw [ih (fun s hs => h s (by simp [hs]))]
    congr 1
    unfold spItems; rw [hf]

/-- applying the split files of data file `i` -/
theorem chunk_apply {b : Bucket} {hs1 : Hints} {U : Key → Prop} (tc : TC hash b hs1 U) (i : Nat) (t : Tree) :
    (∀ h ti, AMap.get (applySplits i t (loadedCk (hs1.chunks i) (b.chunks i).size).files) h = some ti →
        AMap.get t h = some ti ∨ ∃ y, InCk (hs1.chunks i) y ∧ y.khash = h ∧ y.ver > 0 ∧ ti.pos = ⟨i, y.off⟩ ∧ ti.ver = y.ver)
    ∧ (∀ o, U o → match lastIn o (b.chunks i).recs with
        | none => AMap.get (applySplits i t (loadedCk (hs1.chunks i) (b.chunks i).size).files) (hash o) = AMap.get t (hash o)
        | some p => SlotIs (AMap.get (applySplits i t (loadedCk (hs1.chunks i) (b.chunks i).size).files) (hash o)) i p.1 p.2) := by
  unfold loadedCk
  by_cases hz : (b.chunks i).size = 0
  · rw [if_pos hz]
    have hre : (b.chunks i).recs = [] := by
      cases hr : (b.chunks i).recs with
      | nil => rfl
      | cons p rest =>
        have := tc.pos.below i p.1 p.2 (by rw [hr]; simp)
        omega
    refine ⟨fun h ti e => Or.inl e, ?_⟩
    intro o _
    rw [hre]
    rfl
  · rw [if_neg hz]
    have hf := (tc.good i).files
    rw [files_eq_map hf]
    have hnd : ∀ f ∈ (hs1.chunks i).old.map spItems, NodupKey f := by
      intro f hfm
      rw [List.mem_map] at hfm
      obtain ⟨sp, hsp, rfl⟩ := hfm
      exact spItems_nodup (Or.inl (hf sp hsp))
    have hin : ∀ f ∈ (hs1.chunks i).old.map spItems, ∀ y ∈ f, InCk (hs1.chunks i) y := by
      intro f hfm y hy
      rw [List.mem_map] at hfm
      obtain ⟨sp, hsp, rfl⟩ := hfm
      exact Or.inr ⟨sp, hsp, hy⟩
    constructor
    · intro h ti e
      rw [applySplits_get] at e
      cases hl : lastHitSplits h ((hs1.chunks i).old.map spItems) with
      | none => rw [hl] at e; exact Or.inl e
      | some y =>
        rw [hl] at e
        simp only at e
        obtain ⟨f, hfm, hyf, hyh⟩ := lastHit_mem hl
        unfold liveItem at e
        by_cases hv : y.ver > 0
        · rw [if_pos hv] at e
          simp only [Option.some.injEq] at e
          subst e
          exact Or.inr ⟨y, hin f hfm y hyf, hyh, hv, rfl, rfl⟩
        · rw [if_neg hv] at e; cases e
    · intro o ho
      have hsingle : ∀ f ∈ (hs1.chunks i).old.map spItems, ∀ y ∈ f, y.khash = hash o → y.key = o :=
        fun f hfm y hy hh => tc.single o ho i y (hin f hfm y hy) hh
      have hget : (hs1.chunks i).get (hash o) o = lastHitSplits (hash o) ((hs1.chunks i).old.map spItems) := by
        rw [lastHit_single (hash o) o _ hnd hsingle, ckGet_eq _ (tc.good i).last (shape_of_allFiles hf)]
        unfold ckLists
        rw [tc.empty i, firstLk_nil_cons, List.map_reverse]
      have hx := tc.hex i o
      rw [hget] at hx
      rw [applySplits_get]
      cases hl : lastIn o (b.chunks i).recs with
      | none =>
        rw [hl] at hx
        cases hh : lastHitSplits (hash o) ((hs1.chunks i).old.map spItems) with
        | none => rfl
        | some y => rw [hh] at hx; exact hx.elim
      | some p =>
        rw [hl] at hx
        cases hh : lastHitSplits (hash o) ((hs1.chunks i).old.map spItems) with
        | none => rw [hh] at hx; exact hx.elim
        | some y =>
          rw [hh] at hx
          obtain ⟨a1, a2, _, _⟩ := hx
          simp only
          unfold liveItem SlotIs
          by_cases hv : p.2.ver > 0
          · have hv' : y.ver > 0 := by rw [a2]; exact hv
            rw [if_pos hv']
            exact ⟨fun _ => ⟨_, rfl, by simp [a1], a2⟩, fun c => absurd hv c⟩
          · have hv' : ¬ y.ver > 0 := by rw [a2]; exact hv
            rw [if_neg hv']
            exact ⟨fun c => absurd c hv, fun _ => rfl⟩

/-- the hint loop applies the split files of data file `i` -/
def Applied (tid : Nat × Int) (hs1 : Hints) (b : Bucket) (i : Nat) : Prop :=
  ¬ i < tid.1 ∧ ¬ ((if i = tid.1 then tid.2 + 1 else 0) ≥ ((loadedCk (hs1.chunks i) (b.chunks i).size).old.length : Int))

theorem treeStep_applied {tid : Nat × Int} {hs1 : Hints} {b : Bucket} {i : Nat} (h : Applied tid hs1 b i) (t : Tree) :
    treeStep tid (loadedCk (hs1.chunks i) (b.chunks i).size) t i = applySplits i t (loadedCk (hs1.chunks i) (b.chunks i).size).files := by
  unfold treeStep
  rw [if_neg h.1, if_neg h.2]

theorem treeStep_skipped {tid : Nat × Int} {hs1 : Hints} {b : Bucket} {i : Nat} (h : ¬ Applied tid hs1 b i) (t : Tree) :
    treeStep tid (loadedCk (hs1.chunks i) (b.chunks i).size) t i = t := by
  unfold treeStep
  by_cases h1 : i < tid.1
  · rw [if_pos h1]
  · rw [if_neg h1]
    by_cases h2 : (if i = tid.1 then tid.2 + 1 else 0) ≥ ((loadedCk (hs1.chunks i) (b.chunks i).size).old.length : Int)
    · rw [if_pos h2]
    · exact absurd ⟨h1, h2⟩ h

/-- the tree `t` after the data files `done` (ascending) have been processed, starting from `T0` -/
structure Q (tid : Nat × Int) (b : Bucket) (hs1 : Hints) (U : Key → Prop) (T0 t : Tree) (done : List Nat) : Prop where
  q1 : ∀ h ti, AMap.get t h = some ti → AMap.get T0 h = some ti ∨
        ∃ i ∈ done, Applied tid hs1 b i ∧ ∃ y, InCk (hs1.chunks i) y ∧ y.khash = h ∧ y.ver > 0 ∧ ti.pos = ⟨i, y.off⟩ ∧ ti.ver = y.ver
  q2 : ∀ o, U o → (∀ i ∈ done, Applied tid hs1 b i → lastIn o (b.chunks i).recs = none) → AMap.get t (hash o) = AMap.get T0 (hash o)
  q3 : ∀ o, U o → ∀ i ∈ done, Applied tid hs1 b i → ∀ p, lastIn o (b.chunks i).recs = some p →
        (∀ i' ∈ done, i < i' → Applied tid hs1 b i' → lastIn o (b.chunks i').recs = none) → SlotIs (AMap.get t (hash o)) i p.1 p.2

theorem treeFold_inv {b : Bucket} {hs1 : Hints} {U : Key → Prop} (tc : TC hash b hs1 U) (tid : Nat × Int) (T0 : Tree) :
    ∀ (rest done : List Nat) (t : Tree), (done ++ rest).Pairwise (· < ·) → Q hash tid b hs1 U T0 t done →
      Q hash tid b hs1 U T0 (rest.foldl (fun t i => treeStep tid (loadedCk (hs1.chunks i) (b.chunks i).size) t i) t) (done ++ rest) := by
  intro rest
  induction rest with
  | nil => intro done t _ q; simpa using q
  | cons a rest ih =>
    intro done t hp q
    have hlt : ∀ i ∈ done, i < a := by
      intro i hi
      rw [List.pairwise_append] at hp
      exact hp.2.2 i hi a (by simp)
    have hp' : ((done ++ [a]) ++ rest).Pairwise (· < ·) := by simpa using hp
    have e : done ++ a :: rest = (done ++ [a]) ++ rest := by simp
    rw [e]
    simp only [List.foldl_cons]
    apply ih (done ++ [a]) _ hp'
    by_cases ha : Applied tid hs1 b a
    · rw [treeStep_applied ha]
      obtain ⟨c1, c2⟩ := chunk_apply hash tc a t
      refine ⟨?_, ?_, ?_⟩
      · intro h ti e1
        rcases c1 h ti e1 with e2 | ⟨y, y1, y2, y3, y4, y5⟩
        · rcases q.q1 h ti e2 with e3 | ⟨i, hi, y, yy⟩
          · exact Or.inl e3
          · exact Or.inr ⟨i, by simp [hi], y, yy⟩
        · exact Or.inr ⟨a, by simp, ha, y, y1, y2, y3, y4, y5⟩
      · intro o ho hnone
        have hna := hnone a (by simp) ha
        have := c2 o ho
        rw [hna] at this
        simp only at this
        rw [this]
        exact q.q2 o ho (fun i hi hai => hnone i (by simp [hi]) hai)
      · intro o ho i hi hai p hp1 hlater
        simp only [List.mem_append, List.mem_singleton] at hi
        rcases hi with hi | hi
        · -- an earlier file: nothing of `o` in file `a`
          have hna := hlater a (by simp) (hlt i hi) ha
          have := c2 o ho
          rw [hna] at this
          simp only at this
          rw [this]
          exact q.q3 o ho i hi hai p hp1 (fun i' hi' hlt' hai' => hlater i' (by simp [hi']) hlt' hai')
        · subst hi
          have := c2 o ho
          rw [hp1] at this
          exact this
    · rw [treeStep_skipped ha]
      refine ⟨?_, ?_, ?_⟩
      · intro h ti e1
        rcases q.q1 h ti e1 with e3 | ⟨i, hi, y, yy⟩
        · exact Or.inl e3
        · exact Or.inr ⟨i, by simp [hi], y, yy⟩
      · intro o ho hnone
        exact q.q2 o ho (fun i hi hai => hnone i (by simp [hi]) hai)
      · intro o ho i hi hai p hp1 hlater
        simp only [List.mem_append, List.mem_singleton] at hi
        rcases hi with hi | hi
        · exact q.q3 o ho i hi hai p hp1 (fun i' hi' hlt' hai' => hlater i' (by simp [hi']) hlt' hai')
        · subst hi; exact absurd hai ha

theorem q_init (tid : Nat × Int) (b : Bucket) (hs1 : Hints) (U : Key → Prop) (T0 : Tree) : Q hash tid b hs1 U T0 T0 [] :=
  ⟨fun h ti e => Or.inl e, fun _ _ _ => rfl, fun _ _ i hi => by cases hi⟩

theorem lastDown_above {b : Bucket} {k : Key} {n : Nat} {p : Pos} {r : Rec} (h : lastDown b k n = some (p, r)) :
    ∀ c, p.chunk < c → c < n → lastIn k (b.chunks c).recs = none := by
  induction n with
  | zero => intro c _ hc; omega
  | succ n ih =>
    intro c h1 h2
    rw [lastDown_succ] at h
    cases hl : lastIn k (b.chunks n).recs with
    | some q =>
      rw [hl] at h
      simp only [Option.some.injEq, Prod.mk.injEq] at h
      obtain ⟨e1, _⟩ := h
      subst e1
      simp only at h1
      omega
    | none =>
      rw [hl] at h
      by_cases hc : c = n
      · subst hc; exact hl
      · exact ih h c h1 (by omega)

end
end CollideLemmas
