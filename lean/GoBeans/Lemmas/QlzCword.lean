/-
  QuickLZ (C10) — the compressor half of the level-3 round trip, part 2: the control word under construction
  (`CwShape`: k tokens, flag bits F; brute-force case split over k = 0..31 keeps every goal linear) and how the
  finished word `W = F + 2^31` relates to the decoder's remaining word `W >>> k`.  Core-only.
-/
import GoBeans.Lemmas.QlzEnc3
set_option linter.unusedVariables false
set_option linter.unusedSimpArgs false
namespace QlzRT
open Qlz QlzLemmas
def CwShape (cv k F : Nat) : Prop := k ≤ 31 ∧ F < 2 ^ k ∧ cv = 2 ^ (31 - k) + F * 2 ^ (32 - k)

/-- case split `k = 0 | … | 31 | ≥ 32` (the number of tokens in the current control word) -/
macro "split_k " k:ident : tactic => `(tactic| (rcases $k:ident with _ | _ | _ | _ | _ | _ | _ | _ | _ | _ | _ | _ | _ | _ | _ | _ | _ | _ | _ | _ | _ | _ | _ | _ | _ | _ | _ | _ | _ | _ | _ | _ | $k:ident))

theorem shape_lit {cv k F : Nat} (h : CwShape cv k F) (hk : k < 31) : CwShape (cv >>> 1) (k + 1) F := by
  obtain ⟨h1, h2, h3⟩ := h
  subst h3
  rw [shr]
  split_k k
  all_goals ((try simp only [CwShape, Nat.reducePow, Nat.reduceSub, Nat.reduceAdd] at *); omega)

theorem or_hi (a : Nat) (h : a < 2 ^ 31) : a ||| 0x80000000 = a + 2 ^ 31 := by
  have : (0x80000000 : Nat) = 1 <<< 31 := by decide
  rw [this, or_shl _ _ _ h]

theorem shape_mat {cv k F : Nat} (h : CwShape cv k F) (hk : k < 31) : CwShape ((cv >>> 1) ||| 0x80000000) (k + 1) (F + 2 ^ k) := by
  obtain ⟨h1, h2, h3⟩ := h
  subst h3
  rw [shr]
  split_k k
  all_goals (try simp only [CwShape, Nat.reducePow, Nat.reduceSub, Nat.reduceAdd] at *)
  all_goals (first | omega | (rw [or_hi _ (by omega)]; omega))

theorem shape_init : CwShape 0x80000000 0 0 := by simp [CwShape]

theorem shape_odd {cv k F : Nat} (h : CwShape cv k F) : (cv &&& 1 = 1 ↔ k = 31) := by
  obtain ⟨h1, h2, h3⟩ := h
  subst h3
  rw [and_1]
  split_k k
  all_goals ((try simp only [Nat.reducePow, Nat.reduceSub, Nat.reduceAdd] at *); first | omega | (constructor <;> intro _ <;> first | trivial | omega))

/-- the value written when a control word is complete -/
theorem shape_flush {cv F : Nat} (h : CwShape cv 31 F) : (cv >>> 1) ||| 0x80000000 = F + 2 ^ 31 := by
  obtain ⟨h1, h2, h3⟩ := h
  subst h3
  rw [shr]
  simp only [Nat.reducePow, Nat.reduceSub] at *
  have : (1 + F * 2) / 2 = F := by omega
  rw [this, or_hi _ (by omega)]

theorem normCword_odd (n cv : Nat) (h : cv % 2 = 1) : normCword n cv = cv := by
  cases n with
  | zero => rfl
  | succ n => unfold normCword; rw [and_1, if_neg (by omega)]

theorem normCword_shift : ∀ (j n cv : Nat), cv % 2 = 1 → j ≤ n → normCword n (cv * 2 ^ j) = cv := by
  intro j
  induction j with
  | zero => intro n cv h _; simp only [Nat.pow_zero, Nat.mul_one]; exact normCword_odd _ _ h
  | succ j ih =>
    intro n cv h hn
    obtain ⟨m, rfl⟩ : ∃ m, n = m + 1 := ⟨n - 1, by omega⟩
    unfold normCword
    have e : cv * 2 ^ (j + 1) = (cv * 2 ^ j) * 2 := by rw [Nat.pow_succ, Nat.mul_assoc]
    rw [and_1, if_pos (by rw [e]; omega), shr, e]
    simp only [Nat.pow_one]
    rw [Nat.mul_div_cancel _ (by omega)]
    exact ih m cv h (by omega)

/-- the final normalisation (`for (cwordVal & 1) != 1 { cwordVal >>= 1 }`) and the value then written -/
theorem shape_final {cv k F : Nat} (h : CwShape cv k F) : ((normCword 32 cv) >>> 1) ||| 0x80000000 = F + 2 ^ 31 := by
  obtain ⟨h1, h2, h3⟩ := h
  have e : cv = (1 + 2 * F) * 2 ^ (31 - k) := by
    subst h3
    split_k k
    all_goals ((try simp only [Nat.reducePow, Nat.reduceSub, Nat.reduceAdd] at *); omega)
  rw [e, normCword_shift _ _ _ (by omega) (by omega), shr]
  have : (1 + 2 * F) / 2 ^ 1 = F := by omega
  have hF : F < 2 ^ 31 := Nat.lt_of_lt_of_le h2 (Nat.pow_le_pow_right (by omega) h1)
  rw [this, or_hi _ hF]

/-! facts about the finished control word `W` and the decoder's remaining word `W >>> k` -/

theorem w_lit {W k F : Nat} (hk : k < 31) (hF : F < 2 ^ k) (h : W % 2 ^ (k + 1) = F) : W % 2 ^ k = F ∧ (W >>> k) &&& 1 = 0 := by
  rw [and_1, shr]
  split_k k
  all_goals ((try simp only [Nat.reducePow, Nat.reduceSub, Nat.reduceAdd] at *); omega)

theorem w_mat {W k F : Nat} (hk : k < 31) (hF : F < 2 ^ k) (h : W % 2 ^ (k + 1) = F + 2 ^ k) : W % 2 ^ k = F ∧ (W >>> k) &&& 1 = 1 := by
  rw [and_1, shr]
  split_k k
  all_goals ((try simp only [Nat.reducePow, Nat.reduceSub, Nat.reduceAdd] at *); omega)

theorem w_ne_one {W k : Nat} (hk : k < 31) (h1 : 2 ^ 31 ≤ W) : W >>> k ≠ 1 := by
  rw [shr]
  split_k k
  all_goals ((try simp only [Nat.reducePow, Nat.reduceSub, Nat.reduceAdd] at *); omega)

theorem w_eq_one {W : Nat} (h1 : 2 ^ 31 ≤ W) (h2 : W < 2 ^ 32) : W >>> 31 = 1 := by
  rw [shr]; omega

theorem w_shift (W k : Nat) : (W >>> k) >>> 1 = W >>> (k + 1) := by
  rw [Nat.shiftRight_add]

end QlzRT
