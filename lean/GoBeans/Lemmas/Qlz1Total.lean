/-
  QuickLZ (C10) — `Compress(x, 1)` NEVER PANICS (`compress1_total`), hence THE FULL LEVEL-1 ROUND TRIP (`roundtrip1`):
  for every non-empty value below 4 GiB − 400, `Compress(x,1)` returns a stream `c` and `Decompress(c) = x`.
  Ingredients: a match is only tried against a position the compressor has really visited (`TInv1.cache`: a non-zero
  `hashCounter` entry means the `hashtable` entry is an earlier position), the length search stays inside the source
  (`srcE1_total`), and `dst` stays inside `destination = make(len+400)` by the same accounting as level 3 (`Acc`).
  Core-only.
-/
import GoBeans.Lemmas.Qlz1RT
set_option linter.unusedVariables false
set_option linter.unusedSimpArgs false
namespace QlzRT
open Qlz QlzLemmas

theorem extend1_total (s : Buf) (o oldSrc rem : Nat) (ho : o ≤ oldSrc) (hr : oldSrc + rem < s.size) :
    ∀ (fuel src0 : Nat), oldSrc ≤ src0 → src0 - oldSrc ≤ rem → ∃ r, extend1 s o oldSrc rem fuel src0 = some r := by
  intro fuel
  induction fuel with
  | zero => intro src0 _ _; exact ⟨src0, rfl⟩
  | succ f ih =>
    intro src0 h1 h2
    unfold extend1
    obtain ⟨a, ha⟩ := getElem?_ok (a := s) (i := o + (src0 - oldSrc)) (by omega)
    obtain ⟨b, hb⟩ := getElem?_ok (a := s) (i := src0) (by omega)
    rw [ha, hb]
    simp only
    split
    · rename_i hc; exact ih (src0 + 1) (by omega) (by omega)
    · exact ⟨src0, rfl⟩

theorem srcE1_total (s : Buf) (o src rem : Nat) (ho : o ≤ src) (hr : src + rem < s.size) (h6 : 6 ≤ rem) :
    ∃ r, srcE1 s o src rem = some r := by
  unfold srcE1
  simp only
  obtain ⟨a, ha⟩ := getElem?_ok (a := s) (i := o + (src + 4 - src)) (by omega)
  obtain ⟨b, hb⟩ := getElem?_ok (a := s) (i := src + 4) (by omega)
  obtain ⟨a', ha'⟩ := getElem?_ok (a := s) (i := o + (src + 4 + 1 - src)) (by omega)
  obtain ⟨b', hb'⟩ := getElem?_ok (a := s) (i := src + 4 + 1) (by omega)
  rw [ha, hb]
  simp only
  split
  · rw [ha', hb']
    simp only
    split
    · exact extend1_total s o src rem ho hr 300 (src + 4 + 1 + 1) (by omega) (by omega)
    · exact ⟨_, rfl⟩
  · exact ⟨_, rfl⟩

/-- one pass of the first loop at level 1 (after the control-word handling) cannot panic while four bytes of
    `destination` are free -/
theorem cstep1_ne_none {s : Buf} {st : CSt} {dht : Array Int} {lh : Int} (hi : TInv1 s st dht lh)
    (hsrc : (st.src : Int) ≤ (s.size : Int) - 11) (hd : st.dst + 4 ≤ st.dest.size) : cstep1 s st ≠ none := by
  intro h
  have hh := hashOf_lt st.fetch
  obtain ⟨o0, ho0⟩ := getElem?_ok (a := st.ht) (i := hashOf st.fetch) (by rw [hi.hts]; exact hh)
  obtain ⟨ca0, hca0⟩ := getElem?_ok (a := st.cache) (i := hashOf st.fetch) (by rw [hi.cas]; exact hh)
  obtain ⟨cn0, hcn0⟩ := getElem?_ok (a := st.hc) (i := hashOf st.fetch) (by rw [hi.hcs]; exact hh)
  have wr_ne : ∀ (d : Buf) (i : Nat) (v : UInt8), i < d.size → wr d i v ≠ none := by
    intro d i v hlt hn
    obtain ⟨d', hd'⟩ := wr_ok (a := d) v hlt
    rw [hd'] at hn; cases hn
  have fr_ne : ∀ (p : Nat), p + 3 ≤ s.size → fastRead s p 3 ≠ none := by
    intro p hp hn
    obtain ⟨f, hf⟩ := fastRead_isSome (c := s) (p := p) 3 hp
    rw [hf] at hn; cases hn
  unfold cstep1 at h
  simp only at h
  split at h
  · rename_i o cached cnt ho hcached hcnt
    split at h
    · -- a match
      rename_i hcond
      obtain ⟨hc1, hc2, hc3⟩ := hcond
      obtain ⟨hosrc, _⟩ := hi.cache _ _ _ _ ho hcached hcnt hc2
      obtain ⟨a0, ha0⟩ := getElem?_ok (a := s) (i := o + 3) (by omega)
      obtain ⟨b0, hb0⟩ := getElem?_ok (a := s) (i := st.src + 3) (by omega)
      split at h
      · rename_i a b ha hb
        split at h
        · -- three bytes
          split at h
          · rename_i hw1; exact wr_ne _ _ _ (by omega) hw1
          · rename_i d1 hw1
            split at h
            · rename_i hw2; exact wr_ne _ _ _ (by rw [wr_size hw1]; omega) hw2
            · split at h
              · rename_i hfr; exact fr_ne _ (by omega) hfr
              · cases h
        · -- four bytes or more
          have hrem6 : (6 : Nat) ≤ (if (s.size : Int) - 4 - (st.src : Int) + 1 - 1 ≤ 255 then ((s.size : Int) - 4 - (st.src : Int) + 1 - 1).toNat else 255) := by
            split <;> omega
          have hremb : st.src + (if (s.size : Int) - 4 - (st.src : Int) + 1 - 1 ≤ 255 then ((s.size : Int) - 4 - (st.src : Int) + 1 - 1).toNat else 255) + 4 ≤ s.size := by
            split <;> omega
          obtain ⟨r, hr⟩ := srcE1_total s o st.src _ (by omega) (by omega) hrem6
          obtain ⟨g1, g2, g3⟩ := srcE1_spec hr
          have g2' := g2 hrem6
          split at h
          · rename_i hsE
            have hsE' : srcE1 s o st.src (if (s.size : Int) - 4 - (st.src : Int) + 1 - 1 ≤ 255 then ((s.size : Int) - 4 - (st.src : Int) + 1 - 1).toNat else 255) = none := hsE
            rw [hr] at hsE'; cases hsE'
          · rename_i src' hsE
            have hsE' : srcE1 s o st.src (if (s.size : Int) - 4 - (st.src : Int) + 1 - 1 ≤ 255 then ((s.size : Int) - 4 - (st.src : Int) + 1 - 1).toNat else 255) = some src' := hsE
            rw [hr] at hsE'
            cases hsE'
            split at h
            · rename_i hrn
              split at hrn
              · split at hrn
                · rename_i hw1; exact wr_ne _ _ _ (by omega) hw1
                · rename_i d1 hw1
                  simp only [Option.map_eq_none_iff] at hrn
                  exact wr_ne _ _ _ (by rw [wr_size hw1]; omega) hrn
              · simp only [Option.map_eq_none_iff] at hrn
                obtain ⟨d', hd'⟩ := fastWrite_ok st.dest st.dst ((hashOf st.fetch <<< 4) ||| ((r - st.src) <<< 16)) 3 (by omega)
                rw [hd'] at hrn; cases hrn
            · split at h
              · rename_i hfr; exact fr_ne _ (by omega) hfr
              · cases h
      · rename_i hnn
        exact hnn a0 b0 ha0 hb0
    · -- a literal
      split at h
      · rename_i hb
        obtain ⟨b, hb'⟩ := getElem?_ok (a := s) (i := st.src) (by omega)
        rw [hb'] at hb; cases hb
      · split at h
        · rename_i hw; exact wr_ne _ _ _ (by omega) hw
        · split at h
          · rename_i hb2
            obtain ⟨b2, hb2'⟩ := getElem?_ok (a := s) (i := st.src + 1 + 2) (by omega)
            rw [hb2'] at hb2; cases hb2
          · cases h
  · rename_i hnn
    exact hnn o0 ca0 cn0 ho0 hca0 hcn0

theorem storedStream_total1 (s : Buf) : ∃ out, storedStream s 1 = some out := by
  unfold storedStream
  obtain ⟨d, hd⟩ := writeHeader_ok (Array.replicate (s.size + DEFAULT_HEADERLEN) 0) 1 s.size (s.size + DEFAULT_HEADERLEN) false
    (by simp [DEFAULT_HEADERLEN])
  rw [hd]
  exact ⟨_, rfl⟩

/-- THE FIRST LOOP NEVER PANICS (level 1): it ends by giving up (stored form) or by leaving the loop in a state that
    satisfies the invariants -/
theorem cloop_total1 {s : Buf} : ∀ (fuel : Nat) (st : CSt) (k F B d0 : Nat) (dht : Array Int) (lh : Int),
    CInv s st k F → TInv1 s st dht lh → Acc s st k B d0 → s.size + 1 ≤ fuel + st.src →
    (∃ out, cloop s 1 fuel st = some (.stored out))
    ∨ (∃ st1 k1 F1 B1 d1, cloop s 1 fuel st = some (.fin st1) ∧ CInv s st1 k1 F1 ∧ Acc s st1 k1 B1 d1
        ∧ ¬ ((st1.src : Int) ≤ (s.size : Int) - 11)) := by
  intro fuel
  induction fuel with
  | zero => intro st k F B d0 dht lh hi _ _ hf; have := hi.srcle; omega
  | succ n ih =>
    intro st k F B d0 dht lh hi hti hacc hfuel
    rw [cloop_succ1]
    by_cases hmain : (st.src : Int) ≤ (s.size : Int) - 11
    · rw [if_pos hmain]
      split
      · obtain ⟨out, ho⟩ := storedStream_total1 s
        left; exact ⟨out, by rw [ho]; rfl⟩
      · rename_i hng
        obtain ⟨stf, hfl⟩ := flushed_total hi
        rw [hfl]
        simp only
        obtain ⟨kf, Ff, hif, hsrcf, _, hcase⟩ := flushed_post (c := #[]) hi hfl
        have htf : TInv1 s stf dht lh := TInv1_congr hti (flushed_tbl hfl)
        have hmainf : (stf.src : Int) ≤ (s.size : Int) - 11 := by rw [hsrcf]; exact hmain
        obtain ⟨Bf, df, haccf⟩ : ∃ Bf df, Acc s stf kf Bf df := by
          rcases hcase with ⟨hk, rfl, rfl, rfl⟩ | ⟨rfl, rfl, rfl, hcp, hdst⟩
          · exact ⟨B, d0, hacc⟩
          · refine ⟨B + 1, st.dst + 4, ⟨by rw [hsrcf]; have := hacc.a1; omega, by rw [hsrcf, hdst]; have := hacc.a2; omega, by rw [hdst]; omega, ?_⟩⟩
            have hodd : st.cwordVal &&& 1 = 1 := (shape_odd hi.shape).mpr rfl
            have hg : ¬ (giveUp s.size st.src st.dst = true) := fun h => hng ⟨hodd, h⟩
            simp only [giveUp, decide_eq_true_eq, shr] at hg
            have h1 := hacc.a1
            have h2 := hacc.a2
            simp only [Nat.reducePow] at hg
            by_cases hlow : st.src > 3 * (s.size / 4)
            · right
              have : ¬ (st.dst > st.src - st.src / 32) := fun h => hg ⟨hlow, h⟩
              have := hi.srcle
              omega
            · left
              omega
        have hdst4 : stf.dst + 4 ≤ stf.dest.size := by
          rw [hif.dsz]
          have h3 := haccf.a3
          have hk := hif.klt
          rcases haccf.a4 with h4 | h4 <;> omega
        cases hstep : cstep1 s stf with
        | none => exact absurd hstep (cstep1_ne_none htf hmainf hdst4)
        | some st' =>
          simp only
          obtain ⟨t1, t2, t3, t4, t5, t6, htok⟩ := cstep1_spec hstep hmainf
          obtain ⟨hp1, hp2⟩ := hif.ptr
          cases htok with
          | lit b b2 a1 a2 a3 a4 a5 a6 a7 a8 a9 =>
            have hi' : CInv s st' (kf + 1) Ff :=
              ⟨by rw [a3]; exact shape_lit hif.shape hif.klt, by rw [t1, a2]; exact ⟨hp1, by omega⟩, t3, by rw [a1]; omega, by rw [t2, hif.dsz]⟩
            obtain ⟨dht1, lh1, _, hti'⟩ := tinv_lit htf hmainf a1 a8 t5 t6 a9 a6 a7
            have hacc' : Acc s st' (kf + 1) Bf df :=
              ⟨by have := haccf.a1; omega, by have := haccf.a2; omega, by have := haccf.a3; omega, haccf.a4⟩
            exact ih st' (kf + 1) Ff Bf df dht1 lh1 hi' hti' hacc' (by omega)
          | mat ml o cached enc len cnt a1 a2 a3 a4 a5 a6 a7 a8 a9 a10 a11 a12 a13 a14 a15 a16 a17 =>
            obtain ⟨l1, l2, l3, l4⟩ := a5
            have hi' : CInv s st' (kf + 1) (Ff + 2 ^ kf) :=
              ⟨by rw [a3]; exact shape_mat hif.shape hif.klt, by rw [t1, a2]; exact ⟨hp1, by omega⟩, t3, by rw [a1]; omega, by rw [t2, hif.dsz]⟩
            obtain ⟨dht', _, hti'⟩ := tinv_mat htf hmainf (by omega) a1 a16 t5 t6 a17 a15
            have hacc' : Acc s st' (kf + 1) Bf df :=
              ⟨by have := haccf.a1; omega, by have := haccf.a2; omega, by have := haccf.a3; omega, haccf.a4⟩
            exact ih st' (kf + 1) (Ff + 2 ^ kf) Bf df dht' _ hi' hti' hacc' (by omega)
    · rw [if_neg hmain]
      right
      exact ⟨st, k, F, B, d0, rfl, hi, hacc, hmain⟩

theorem finish1_total {s : Buf} {st : CSt} {k F : Nat} (hi : CInv s st k F) : ∃ c, finish1 s st = some c := by
  unfold finish1
  obtain ⟨d1, h1⟩ := fastWrite_ok st.dest st.cwordPtr (((normCword 32 st.cwordVal) >>> 1) ||| 0x80000000) CWORD_LEN
    (by have := hi.ptr; have := hi.dstle; simp only [CWORD_LEN]; omega)
  rw [h1]
  simp only
  obtain ⟨d2, h2⟩ := writeHeader_ok d1 1 s.size st.dst true (by rw [(fastWrite_spec h1).1, hi.dsz]; omega)
  rw [h2]
  exact ⟨_, rfl⟩

/-- `Compress` at level 1 never panics (every index it uses is in range; the output never outgrows `len(source)+400`
    thanks to the give-up rule). -/
def compress1_total_statement : Prop := ∀ x : Buf, x.size + 400 < 2 ^ 32 → ∃ c, compress x 1 = some c

/-- (3) `Compress(x, 1)` NEVER PANICS, for every value below 4 GiB − 400 (in fact for every value) -/
theorem compress1_total : compress1_total_statement := by
  intro x _
  by_cases hx : x.size = 0
  · exact ⟨#[], by unfold compress; simp [hx]⟩
  rw [compress1_eq x hx]
  obtain ⟨fetch, hfetch⟩ : ∃ f, (if (0 : Int) ≤ (x.size : Int) - 11 then fastRead x 0 3 else some 0) = some f := by
    split
    · exact fastRead_isSome 3 (by omega)
    · exact ⟨0, rfl⟩
  rw [hfetch]
  simp only
  have hi : CInv x (cinit1 x fetch) 0 0 :=
    ⟨shape_init, ⟨by simp [cinit1], by simp [cinit1]⟩, by simp [cinit1], by simp [cinit1], by simp [cinit1]⟩
  have hacc : Acc x (cinit1 x fetch) 0 0 13 := ⟨by simp [cinit1], by simp [cinit1], by simp [cinit1], Or.inl (by omega)⟩
  rcases cloop_total1 (x.size + 1) (cinit1 x fetch) 0 0 0 13 _ _ hi (tinv_init x fetch hfetch) hacc (by simp [cinit1])
    with ⟨out, ho⟩ | ⟨st1, k1, F1, B1, d1, h1, hi1, hacc1, hex⟩
  · rw [ho]; exact ⟨out, rfl⟩
  · rw [h1]
    simp only
    have hroom : st1.dst + 5 * (x.size - st1.src) ≤ x.size + 400 := by
      have h3 := hacc1.a3
      have hk := hi1.shape.1
      have := hi1.srcle
      rcases hacc1.a4 with h4 | h4 <;> omega
    obtain ⟨st2, k2, F2, h2, hi2, _⟩ := ctail_total (x.size - st1.src) st1 k1 F1 hi1 (by have := hi1.srcle; omega) hroom
    rw [h2]
    exact finish1_total hi2

/-- (3) THE FULL LEVEL-1 STATEMENT (`QlzRT.roundtrip1_statement`): for every non-empty value below 4 GiB − 400,
    `Compress(x, 1)` returns a stream and `Decompress` of that stream is `x`. -/
theorem roundtrip1 : roundtrip1_statement := by
  intro x hx hsz
  obtain ⟨c, hc⟩ := compress1_total x hsz
  exact ⟨c, hc, (compress1_roundtrip hx hsz hc).1⟩

/-- the same with `DecompressSafe` (its two size checks pass) -/
theorem roundtrip1_safe (x : Buf) (hx : x.size ≠ 0) (hsz : x.size + 400 < 2 ^ 32) :
    ∃ c, compress x 1 = some c ∧ decompress c = .ok x ∧ decompressSafe c = .ok x := by
  obtain ⟨c, hc⟩ := compress1_total x hsz
  exact ⟨c, hc, compress1_roundtrip hx hsz hc⟩

/-- the header of what `Compress(x, 1)` returns states the true sizes -/
theorem compress1_header {x c : Buf} (hx : x.size ≠ 0) (hsz : x.size + 400 < 2 ^ 32) (h : compress x 1 = some c) :
    sizeCompressed c = some c.size ∧ sizeDecompressed c = some x.size := by
  have := (compress1_roundtrip hx hsz h).2
  unfold decompressSafe at this
  split at this
  · cases this
  · rename_i sc hsc
    split at this
    · cases this
    · rename_i hne
      split at this
      · cases this
      · rename_i sd hsd
        have hd := decompress_size (compress1_roundtrip hx hsz h).1
        rw [hsd] at hd
        cases hd
        exact ⟨by rw [hsc]; congr 1; omega, hsd⟩

end QlzRT
