/-
  Reply round trip (C11): `Response.Read` ∘ `Response.Write`.  Entry point; the theorems live in ProtoResp{Base,Value,
  Line,Wire,Items,Stat,Get,Multi,Serve}.lean.
-/
import GoBeans.Lemmas.ProtoRespServe

open Proto

#print axioms readResp_values
#print axioms readResp_wire_value
#print axioms readResp_wire_value_nodup
#print axioms readResp_wire_value_lit
#print axioms wire_value_lit
#print axioms readResp_wire_line_end
#print axioms readResp_wire_line_msg
#print axioms readResp_wire_num
#print axioms readResp_wire_stat
#print axioms processStats_statSegs
#print axioms readResp_wire_none_refused
#print axioms readResp_wire_stat_refused
#print axioms clientGet_good
#print axioms clientGet_err_words
#print axioms lookedUp_spec
#print axioms serveOnce_get
#print axioms serveOnce_get_roundtrip
#print axioms serveOnce_get_one_lit
#print axioms readResp_wire_line
#print axioms server_messages_words
