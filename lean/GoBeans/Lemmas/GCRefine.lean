/-
  `Store.gcRun` refines "nothing happened": from the invariants of C01/C02 (`Inv` — tree and records agree with the
  reference map; `LastRec` — the tree describes the last record of every key) and well-formed files, a pass over any
  range below the head re-establishes all of them with the SAME reference map.  Hence every later get, every later
  write, a restart with loaded or rebuilt tree and a further pass behave as on the uncollected store.
-/
import GoBeans.Lemmas.GCPass
set_option linter.unusedSimpArgs false
set_option linter.unusedVariables false
namespace StoreLemmas
open Store Spec

section GCRefine
variable (hash : Key → Nat) (K : Key → Prop)

/-- what is known about (key, tree item, last record) besides the position -/
def PG (m : KV) (n : Nat) (k : Key) (it : TItem) (r : Rec) : Prop :=
  it.ver = r.ver ∧ ∃ e, AMap.get m k = some e ∧ e.ver = it.ver ∧ e.flag = r.flag ∧ e.body = r.body ∧ e.ts = r.ts
    ∧ it.vhash = (if it.ver > 0 then vhashOf r.body else 0) ∧ r.body.length < 2^63 ∧ it.ver.natAbs ≤ n

/-- no record carries version 0 (`checkAndUpdateVerison` never produces it) -/
def NoZero (b : Bucket) : Prop := ∀ x ∈ b.log, x.2.ver ≠ 0

theorem mem_log {b : Bucket} {y : Pos × Rec} (h : y ∈ b.log) : (y.1.off, y.2) ∈ (b.chunks y.1.chunk).recs := by
  rw [log_eq, List.mem_flatMap] at h
  obtain ⟨i, _, hy⟩ := h
  rw [recsAt_eq_tag, mem_tag] at hy
  rw [hy.1]; exact hy.2

theorem readAt_of_mem_log {cfg : Store.Cfg} {b : Bucket} (w : WF cfg b) {p : Pos} {r : Rec} (h : (p, r) ∈ b.log) :
    b.readAt p = some r := by
  have := mem_log h
  obtain ⟨c, o⟩ := p
  exact w.readAt c o r this

theorem vinv_of_inv {cfg : Store.Cfg} {n : Nat} {b : Bucket} {m : KV} (inv : Inv hash K n b m) (lr : LastRec hash K b)
    (w : WF cfg b) (nz : NoZero b) :
    VInv hash K (PG m n) (fun k => AMap.get m k = none) b.log b.tree := by
  refine ⟨fun x hx => ⟨lr.keys x hx, nz x hx⟩, log_nodup w, ?_, ?_⟩
  · intro k hk hn
    rcases inv.agree k hk with ⟨_, a⟩ | ⟨it, e, r, a1, _⟩
    · exact a
    · rw [hn] at a1; cases a1
  · intro k hk
    rcases lr.last k hk with ⟨it, r, ht, hl, hread, hver⟩ | ⟨htn, hl⟩
    · left
      rcases inv.agree k hk with ⟨a, _⟩ | ⟨it', e, r', a1, a2, a3, a4, a5, a6, a7, a8, a9, a10, a11⟩
      · rw [ht] at a; cases a
      · rw [ht] at a1; cases a1
        rw [hread] at a3; cases a3
        exact ⟨it, r, ht, hl, hver, e, a2, a5, a6, a7, a8, a9, a10, a11⟩
    · right; exact ⟨htn, hl⟩

theorem inv_of_vinv {cfg : Store.Cfg} {n : Nat} {b : Bucket} {m : KV} (w : WF cfg b)
    (hv : VInv hash K (PG m n) (fun k => AMap.get m k = none) b.log b.tree) :
    Inv hash K n b m ∧ LastRec hash K b ∧ NoZero b := by
  refine ⟨⟨w.posInv, ?_⟩, ⟨fun x hx => (hv.recs x hx).1, ?_⟩, fun x hx => (hv.recs x hx).2⟩
  · intro k hk
    rcases hv.key k hk with ⟨it, r, ht, hl, hver, e, a2, a5, a6, a7, a8, a9, a10, a11⟩ | ⟨htn, _⟩
    · right
      have hm := lastOf_mem hl
      exact ⟨it, e, r, ht, a2, readAt_of_mem_log w hm.1, hm.2, a5, a6, a7, a8, a9, a10, a11⟩
    · left; exact ⟨htn, hv.dom k hk htn⟩
  · intro k hk
    rcases hv.key k hk with ⟨it, r, ht, hl, hver, _⟩ | ⟨htn, hl⟩
    · left
      exact ⟨it, r, ht, hl, readAt_of_mem_log w (lastOf_mem hl).1, hver⟩
    · right; exact ⟨htn, hl⟩

theorem PG_pos (m : KV) (n : Nat) : ∀ k it r p', PG m n k it r → PG m n k { it with pos := p' } r :=
  fun _ _ _ _ h => h

/-- GC refines the identity on the reference map and keeps every invariant of the bucket -/
theorem gcRun_refines (cfg : Store.Cfg) (hInj : InjOn hash K) {n : Nat} {b : Bucket} {m : KV}
    (inv : Inv hash K n b m) (lr : LastRec hash K b) (w : WF cfg b) (nz : NoZero b)
    (begin stop : Nat) (hbs : begin ≤ stop) (hs : stop < b.head) :
    Inv hash K n (gcRun hash cfg b begin stop).1 m ∧ LastRec hash K (gcRun hash cfg b begin stop).1
    ∧ WF cfg (gcRun hash cfg b begin stop).1 ∧ NoZero (gcRun hash cfg b begin stop).1
    ∧ (gcRun hash cfg b begin stop).1.head = b.head := by
  obtain ⟨w', hv', hh⟩ := gcRun_vinv (PG_pos m n) hInj cfg w begin stop hbs hs (vinv_of_inv hash K inv lr w nz)
  obtain ⟨i1, i2, i3⟩ := inv_of_vinv hash K w' hv'
  exact ⟨i1, i2, w', i3, hh⟩

end GCRefine
end StoreLemmas
