/-
  C13 (b): every operation of a history of the class keeps the invariant and answers like the reference map.
-/
import GoBeans.Lemmas.CollideSafePut
import GoBeans.Lemmas.Version
set_option linter.unusedSimpArgs false
set_option linter.unusedVariables false
namespace CollideLemmas
open Store Spec HintIndex Collide StoreLemmas HintBufferLemmas

/-- a reply without version numbers: the meta reply of a deleted key counts as a miss -/
def coarse : Reply → Reply
  | .info ver vh f len ts => if ver > 0 then .info 1 vh f len ts else .miss
  | r => r

section
variable (hash : Key → Nat)

theorem inv_mono {cfg : Collide.Cfg} {st : State} {t : Trk} {n n' : Nat} (h : n ≤ n') (inv : SInv hash cfg st t n) :
    SInv hash cfg st t n' :=
  { inv with vers := fun x hx => by have := inv.vers x hx; omega }

theorem lastOf_mem {k : Key} {l : List (Pos × Rec)} {x : Pos × Rec} (h : lastOf k l = some x) : x ∈ l := by
  unfold lastOf at h
  exact (List.mem_filter.mp (List.mem_of_getLast? h)).1

theorem memMeta_bound {cfg : Collide.Cfg} {st : State} {t : Trk} {n : Nat} (inv : SInv hash cfg st t n) (k : Key) (mm : TItem)
    (h : st.memMeta hash k = some mm) : mm.ver.natAbs ≤ n := by
  rw [memMeta_eq] at h
  cases htg : tget st.ct (hash k) k with
  | some it =>
    rw [htg] at h
    simp only [Option.some.injEq] at h
    obtain ⟨_, _, _, _, r, hl, hv⟩ := inv.tab _ _ _ htg
    have := inv.vers _ (lastOf_mem hl)
    rw [← h]; simp only; rw [hv]; exact this
  | none =>
    rw [htg] at h
    simp only at h
    obtain ⟨o, r, _, _, hl, hv⟩ := inv.slot _ _ h
    have := inv.vers _ (lastOf_mem hl)
    rw [hv]; exact this

/-- with the key known to the table, or without written hash-mates, the write path reads the key's OWN old version -/
theorem memMeta_own {cfg : Collide.Cfg} {st : State} {t : Trk} {n : Nat} (inv : SInv hash cfg st t n) (k : Key)
    (hok : k ∈ t.reg ∨ t.others hash k = []) :
    (st.memMeta hash k = none ∧ lastOf k st.b.log = none)
    ∨ (∃ mm p r, st.memMeta hash k = some mm ∧ lastOf k st.b.log = some (p, r) ∧ mm.ver = r.ver) := by
  rw [memMeta_eq]
  cases htg : tget st.ct (hash k) k with
  | some it =>
    obtain ⟨_, _, _, _, r, hl, hv⟩ := inv.tab _ _ _ htg
    exact Or.inr ⟨_, _, r, rfl, hl, hv⟩
  | none =>
    have hnr := not_reg_of_tget_none hash inv htg
    have hoth : t.others hash k = [] := by
      rcases hok with h | h
      · exact absurd h hnr
      · exact h
    simp only
    cases htr : AMap.get st.b.tree (hash k) with
    | none =>
      left
      refine ⟨rfl, ?_⟩
      cases hl : lastOf k st.b.log with
      | none => rfl
      | some x =>
        obtain ⟨ti, hti⟩ := inv.own k ((inv.wr k).mpr (by rw [hl]; rfl))
        rw [htr] at hti; cases hti
    | some ti =>
      right
      obtain ⟨o, r, _, hho, hl, hv⟩ := inv.slot _ _ htr
      have how : o ∈ t.written := (inv.wr o).mpr (by rw [hl]; rfl)
      have hok' : o = k := by
        cases hd : decide (o = k) with
        | true => simpa using hd
        | false =>
          have hne : o ≠ k := by simpa using hd
          have : o ∈ t.others hash k := by
            unfold Trk.others
            rw [List.mem_filter]
            exact ⟨how, by simp [hho, hne]⟩
          rw [hoth] at this; simp at this
      subst hok'
      exact ⟨ti, ti.pos, r, rfl, hl, hv⟩

end
end CollideLemmas
