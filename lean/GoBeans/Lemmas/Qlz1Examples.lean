/-
  QuickLZ (C10) — non-vacuity of the level-1 round-trip theorems: the hypotheses of `compress1_roundtrip` are
  satisfiable (the kernel-checked evaluation `ex_compress_level1` of `Lemmas/QlzExamples.lean`: three literals, a
  39-byte hash-table match, final literals), and its conclusion on that instance.  Core-only.
-/
import GoBeans.Lemmas.Qlz1Total
import GoBeans.Lemmas.QlzExamples
namespace QlzRT
open Qlz QlzLemmas

example : decompress exC1 = .ok exOrig ∧ decompressSafe exC1 = .ok exOrig :=
  compress1_roundtrip (by decide) (by decide) ex_compress_level1

example : sizeCompressed exC1 = some exC1.size ∧ sizeDecompressed exC1 = some exOrig.size :=
  compress1_header (by decide) (by decide) ex_compress_level1

end QlzRT
