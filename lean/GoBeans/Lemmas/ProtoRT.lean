/-
  Request round trip (C11): parsing what `writeReq` wrote gives the request back, consumes exactly its bytes and does not
  look at what follows.  Building blocks: lines, fields, decimal numbers.
-/
import GoBeans.Lemmas.Proto

namespace Proto

/-- a token of a command line: not empty, no space, no line feed -/
def Tok (t : Bytes) : Prop := t ≠ [] ∧ (32 : UInt8) ∉ t ∧ (10 : UInt8) ∉ t

theorem readLine_append (l rest : Bytes) (h : (10 : UInt8) ∉ l) : readLine (l ++ 10 :: rest) = some (l ++ [10]) := by
  induction l with
  | nil => simp [readLine]
  | cons c l ih =>
    have hc : c ≠ 10 := fun e => h (by simp [e])
    have hl : (10 : UInt8) ∉ l := fun e => h (by simp [e])
    simp only [List.cons_append, readLine, hc, if_false, ih hl, Option.map_some]

theorem endsCRLF_append (x : Bytes) : endsCRLF (x ++ [13, 10]) = true := by
  simp [endsCRLF, crlf]

theorem take_crlf (x : Bytes) : (x ++ [13, 10]).take ((x ++ [13, 10]).length - 2) = x := by
  simp

/-! fields -/

theorem fieldsGo_tok (t rest cur : Bytes) (h : (32 : UInt8) ∉ t) : fieldsGo (t ++ rest) cur = fieldsGo rest (cur ++ t) := by
  induction t generalizing cur with
  | nil => simp
  | cons c t ih =>
    have hc : c ≠ 32 := fun e => h (by simp [e])
    have ht : (32 : UInt8) ∉ t := fun e => h (by simp [e])
    simp only [List.cons_append, fieldsGo, hc, if_false]
    rw [ih (cur ++ [c]) ht]
    simp

theorem fieldsGo_joinSp (toks : List Bytes) (h : ∀ t ∈ toks, t ≠ [] ∧ (32 : UInt8) ∉ t) (hne : toks ≠ []) :
    fieldsGo (joinSp toks) [] = toks := by
  induction toks with
  | nil => exact absurd rfl hne
  | cons t ts ih =>
    have ht := h t (by simp)
    cases ts with
    | nil =>
      simp only [joinSp]
      have := fieldsGo_tok t [] [] ht.2
      simp only [List.append_nil, List.nil_append] at this
      rw [this]
      simp [fieldsGo, ht.1]
    | cons t2 ts2 =>
      simp only [joinSp, List.append_assoc]
      rw [fieldsGo_tok t _ [] ht.2]
      simp only [List.nil_append, sp, List.cons_append, fieldsGo, if_true, ht.1, if_false]
      rw [ih (fun x hx => h x (by simp [hx])) (by simp)]

theorem fields_joinSp (toks : List Bytes) (h : ∀ t ∈ toks, t ≠ [] ∧ (32 : UInt8) ∉ t) (hne : toks ≠ []) :
    fields (joinSp toks) = toks := fieldsGo_joinSp toks h hne

theorem joinSp_no_lf (toks : List Bytes) (h : ∀ t ∈ toks, (10 : UInt8) ∉ t) : (10 : UInt8) ∉ joinSp toks := by
  induction toks with
  | nil => simp [joinSp]
  | cons t ts ih =>
    cases ts with
    | nil => simpa [joinSp] using h t (by simp)
    | cons t2 ts2 =>
      simp only [joinSp, List.mem_append, sp]
      intro hm
      rcases hm with (hm | hm) | hm
      · exact h t (by simp) hm
      · simp at hm
      · exact ih (fun x hx => h x (by simp [hx])) hm

end Proto

/-! decimal numbers: `atoi (itoa v) = v` -/
namespace Proto
open Spec

abbrev dstep := Spec.digitStep

theorem dstep_some (n : Nat) (c : UInt8) : dstep (some n) c = if 48 ≤ c.toNat ∧ c.toNat ≤ 57 then some (n * 10 + (c.toNat - 48)) else none := rfl

def valF : Nat → Nat → Nat → Nat
  | 0, k, _ => k
  | f + 1, k, n => if n < 10 then k * 10 + n else valF f k (n / 10) * 10 + n % 10

theorem digit_toNat (n : Nat) : ((48 + n % 10).toUInt8).toNat = 48 + n % 10 := by
  have : n % 10 < 10 := Nat.mod_lt _ (by omega)
  simp only [Nat.toUInt8, UInt8.toNat_ofNat']
  omega

theorem dfold_digits (fuel n : Nat) (acc : Bytes) (k : Nat) :
    (natDigitsAux fuel n acc).foldl dstep (some k) = acc.foldl dstep (some (valF fuel k n)) := by
  induction fuel generalizing n acc k with
  | zero => rfl
  | succ f ih =>
    unfold natDigitsAux valF
    have hd := digit_toNat n
    have hm : n % 10 < 10 := Nat.mod_lt _ (by omega)
    by_cases h : n < 10
    · simp only [h, if_true, List.foldl_cons, dstep_some, hd]
      have : n % 10 = n := Nat.mod_eq_of_lt h
      simp only [this]
      have h1 : 48 ≤ 48 + n ∧ 48 + n ≤ 57 := by omega
      simp only [h1, and_self, if_true]
      congr 2
      omega
    · simp only [h, if_false]
      rw [ih (n / 10) _ k]
      simp only [List.foldl_cons, dstep_some, hd]
      have h1 : 48 ≤ 48 + n % 10 ∧ 48 + n % 10 ≤ 57 := by omega
      simp only [h1, and_self, if_true]
      congr 2
      omega

theorem valF_zero (fuel n : Nat) (h : n < 10 ^ fuel) : valF fuel 0 n = n := by
  induction fuel generalizing n with
  | zero => simp at h; simp [valF, h]
  | succ f ih =>
    unfold valF
    by_cases h10 : n < 10
    · simp [h10]
    · simp only [h10, if_false]
      have : n / 10 < 10 ^ f := by
        rw [Nat.div_lt_iff_lt_mul (by omega)]
        rw [Nat.pow_succ] at h; omega
      rw [ih _ this]
      omega

theorem natDigitsAux_head (fuel n : Nat) (acc : Bytes) (hf : 0 < fuel) :
    ∃ c tl, natDigitsAux fuel n acc = c :: tl ∧ 48 ≤ c.toNat ∧ c.toNat ≤ 57 := by
  induction fuel generalizing n acc with
  | zero => omega
  | succ f ih =>
    unfold natDigitsAux
    have hd := digit_toNat n
    have hm : n % 10 < 10 := Nat.mod_lt _ (by omega)
    by_cases h : n < 10
    · simp only [h, if_true]
      exact ⟨_, _, rfl, by omega, by omega⟩
    · simp only [h, if_false]
      by_cases hf0 : f = 0
      · subst hf0
        simp only [natDigitsAux]
        exact ⟨_, _, rfl, by omega, by omega⟩
      · exact ih (n / 10) _ (by omega)

theorem atoi_itoa (v : Int) (h : -9223372036854775808 ≤ v ∧ v ≤ 9223372036854775807) : atoi (itoa v) = some v := by
  have hbig : v.natAbs < 10 ^ 40 := by
    have : v.natAbs ≤ 9223372036854775808 := by omega
    calc v.natAbs ≤ 9223372036854775808 := this
      _ < 10 ^ 40 := by decide
  have hfold : (natDigits v.natAbs).foldl dstep (some 0) = some v.natAbs := by
    unfold natDigits
    rw [dfold_digits 40 v.natAbs [] 0]
    simp [valF_zero 40 v.natAbs hbig]
  obtain ⟨c, tl, hc, hc1, hc2⟩ := natDigitsAux_head 40 v.natAbs [] (by omega)
  have hdv : digitsVal (natDigits v.natAbs) = some v.natAbs := by
    unfold digitsVal
    have : (natDigits v.natAbs).isEmpty = false := by unfold natDigits; rw [hc]; rfl
    rw [this]; exact hfold
  show Spec.parseInt (Spec.itoa v) = some v
  unfold Spec.parseInt Spec.itoa
  by_cases hneg : v < 0
  · simp only [hneg, if_true]
    have e : -(Int.ofNat v.natAbs) = v := by simp only [Int.ofNat_eq_coe]; omega
    simp [hdv]
    omega
  · simp only [hneg, if_false]
    have hnd : natDigits v.natAbs = c :: tl := hc
    rw [hnd]
    have h43 : c ≠ 43 := by intro e; rw [e] at hc1; simp at hc1
    have h45 : c ≠ 45 := by intro e; rw [e] at hc1; simp at hc1
    have e : Int.ofNat v.natAbs = v := by simp only [Int.ofNat_eq_coe]; omega
    simp only [h43, h45, if_false]
    rw [← hnd, hdv]
    simp
    omega

end Proto

/-! the command line -/
namespace Proto

theorem readReq_line (cfg : Cfg) (led : Ledger) (cmd : Bytes) (args : List Bytes) (rest : Bytes)
    (ht : ∀ t ∈ cmd :: args, Tok t) :
    readReq cfg led (joinSp (cmd :: args) ++ crlf ++ rest)
      = readCmd cfg led (joinSp (cmd :: args) ++ crlf ++ rest) (joinSp (cmd :: args) ++ crlf).length cmd args := by
  have hnl : (10 : UInt8) ∉ joinSp (cmd :: args) ++ [13] := by
    intro hm
    rcases List.mem_append.mp hm with hm | hm
    · exact joinSp_no_lf _ (fun t h => (ht t h).2.2) hm
    · simp at hm
  have hshape : joinSp (cmd :: args) ++ crlf ++ rest = (joinSp (cmd :: args) ++ [13]) ++ 10 :: rest := by
    simp [crlf]
  have hline : readLine (joinSp (cmd :: args) ++ crlf ++ rest) = some (joinSp (cmd :: args) ++ crlf) := by
    rw [hshape, readLine_append _ _ hnl]; simp [crlf]
  unfold readReq
  rw [hline]
  simp only []
  have hcr : joinSp (cmd :: args) ++ crlf = joinSp (cmd :: args) ++ [13, 10] := rfl
  rw [hcr, endsCRLF_append, take_crlf]
  rw [fields_joinSp (cmd :: args) (fun t h => ⟨(ht t h).1, (ht t h).2.1⟩) (by simp)]
  simp

/-- `get` / `gets` -/
theorem rt_get (cfg : Cfg) (led : Ledger) (c : Bytes) (ks : List Bytes) (rest : Bytes)
    (hc : (c == ascii "get" || c == ascii "gets") = true) (hns : isStoreCmd c = false)
    (hni : (c == ascii "incr" || c == ascii "decr") = false)
    (ht : ∀ t ∈ c :: ks, Tok t) (hne : ks ≠ []) :
    let r : Req := { cmd := c, keys := ks }
    readReq cfg led (writeReq r ++ rest)
      = { n := (writeReq r).length, res := .ok, req := r, working := true, led := led.tokGet, item := none, kind := .get } := by
  intro r
  have hw : writeReq r = joinSp (c :: ks) ++ crlf := by
    simp [writeReq, r, hns, hni]
  rw [hw, readReq_line cfg led c ks rest ht]
  unfold readCmd
  have hne' : ks.isEmpty = false := by cases ks <;> simp_all
  simp [hc, hne', r]

end Proto

namespace Proto
open Spec

theorem natDigitsAux_digits (fuel n : Nat) (acc : Bytes) (h : ∀ b ∈ acc, 48 ≤ b.toNat ∧ b.toNat ≤ 57) :
    ∀ b ∈ natDigitsAux fuel n acc, 48 ≤ b.toNat ∧ b.toNat ≤ 57 := by
  induction fuel generalizing n acc with
  | zero => exact h
  | succ f ih =>
    unfold natDigitsAux
    have hd := digit_toNat n
    have hm : n % 10 < 10 := Nat.mod_lt _ (by omega)
    have hacc : ∀ b ∈ (48 + n % 10).toUInt8 :: acc, 48 ≤ b.toNat ∧ b.toNat ≤ 57 := by
      intro b hb
      rcases List.mem_cons.mp hb with hb | hb
      · rw [hb, hd]; omega
      · exact h b hb
    by_cases h10 : n < 10
    · simp only [h10, if_true]; exact hacc
    · simp only [h10, if_false]; exact ih _ _ hacc

theorem itoa_tok (v : Int) : Tok (itoa v) := by
  have hd : ∀ b ∈ natDigits v.natAbs, 48 ≤ b.toNat ∧ b.toNat ≤ 57 :=
    natDigitsAux_digits 40 v.natAbs [] (by simp)
  obtain ⟨c, tl, hc, _, _⟩ := natDigitsAux_head 40 v.natAbs [] (by omega)
  have hne : natDigits v.natAbs ≠ [] := by unfold natDigits; rw [hc]; simp
  show Tok (Spec.itoa v)
  unfold Spec.itoa
  refine ⟨?_, ?_, ?_⟩
  · split <;> simp [hne]
  · split
    · intro hm
      rcases List.mem_cons.mp hm with hm | hm
      · simp at hm
      · have := hd _ hm; simp at this
    · intro hm; have := hd _ hm; simp at this
  · split
    · intro hm
      rcases List.mem_cons.mp hm with hm | hm
      · simp at hm
      · have := hd _ hm; simp at this
    · intro hm; have := hd _ hm; simp at this

theorem noreply_tok : Tok noreplyTok := by
  refine ⟨by decide, by decide, by decide⟩

/-- `delete` -/
theorem rt_delete (cfg : Cfg) (led : Ledger) (k : Bytes) (nr : Bool) (rest : Bytes) (hk : Tok k) :
    let r : Req := { cmd := ascii "delete", keys := [k], noreply := nr }
    readReq cfg led (writeReq r ++ rest)
      = { n := (writeReq r).length, res := .ok, req := r, working := false, led := led, item := none, kind := .delete } := by
  intro r
  have hcmd : Tok (ascii "delete") := ⟨by decide, by decide, by decide⟩
  have h2 : isStoreCmd (ascii "delete") = false := by decide
  have h3 : (ascii "delete" == ascii "incr" || ascii "delete" == ascii "decr") = false := by decide
  cases nr with
  | false =>
    have hw : writeReq r = joinSp [ascii "delete", k] ++ crlf := by
      simp [writeReq, r, h2, h3, joinSp]
    rw [hw, readReq_line cfg led (ascii "delete") [k] rest (by intro t ht; simp at ht; rcases ht with rfl | rfl <;> assumption)]
    unfold readCmd
    have h1 : (ascii "delete" == ascii "get" || ascii "delete" == ascii "gets") = false := by decide
    simp [h1, h2, r]
  | true =>
    have hw : writeReq r = joinSp [ascii "delete", k, noreplyTok] ++ crlf := by
      simp [writeReq, r, h2, h3, joinSp]
    rw [hw, readReq_line cfg led (ascii "delete") [k, noreplyTok] rest
      (by intro t ht; simp at ht; rcases ht with rfl | rfl | rfl; exact hcmd; exact hk; exact noreply_tok)]
    unfold readCmd
    have h1 : (ascii "delete" == ascii "get" || ascii "delete" == ascii "gets") = false := by decide
    simp [h1, h2, r]

end Proto

namespace Proto

def I64 (v : Int) : Prop := -9223372036854775808 ≤ v ∧ v ≤ 9223372036854775807

def storeArgs (c k : Bytes) (flag exptime cas : Int) (len : Nat) (nr : Bool) : List Bytes :=
  [k, itoa flag, itoa exptime, itoa len] ++ (if c == ascii "cas" then [itoa cas] else []) ++ (if nr then [noreplyTok] else [])

theorem readStore_ok (cfg : Cfg) (led : Ledger) (inp : Bytes) (n : Nat) (c k : Bytes) (flag exptime cas : Int)
    (body rest : Bytes) (nr : Bool)
    (hinp : inp.drop n = body ++ crlf ++ rest) (hf : I64 flag) (he : I64 exptime) (hcas : I64 cas)
    (hlen : body.length ≤ cfg.bodyMax) (hlen2 : body.length < 4294967296) :
    readStore cfg led inp n c (storeArgs c k flag exptime cas body.length nr) ((storeArgs c k flag exptime cas body.length nr).length + 1)
      = { n := n + body.length + 2, res := .ok,
          req := { cmd := c, keys := [k], flag := flag, exptime := exptime, cas := if c == ascii "cas" then cas else 0,
                   body := body, noreply := nr },
          working := true,
          led := ((led.tokGet).alloc cfg body.length).1.setAdd ((led.tokGet).alloc cfg body.length).2.cap,
          item := some ((led.tokGet).alloc cfg body.length).2,
          kind := if c == ascii "append" || c == ascii "prepend" then .append else .store } := by
  have a1 := atoi_itoa flag hf
  have a2 := atoi_itoa exptime he
  have a3 : atoi (itoa (body.length : Int)) = some (body.length : Int) := atoi_itoa _ (by constructor <;> omega)
  have a4 := atoi_itoa cas hcas
  have hok : lengthOK cfg (body.length : Int) = true := by
    simp only [lengthOK, Bool.and_eq_true, decide_eq_true_eq]
    refine ⟨⟨by omega, by exact_mod_cast hlen⟩, by omega⟩
  have hrest : (inp.drop n).length = body.length + 2 + rest.length := by rw [hinp]; simp [crlf]; omega
  have htake : (inp.drop n).take body.length = body := by rw [hinp]; simp
  have hterm : ((inp.drop n).drop body.length).take 2 = crlf := by rw [hinp]; simp [crlf]
  have hterm' : List.take 2 (List.drop (n + body.length) inp) = crlf := by
    rw [← List.drop_drop]; exact hterm
  have hnl : ¬ (body.length + 2 + rest.length < body.length + 2) := by omega
  unfold readStore storeArgs
  cases hc : (c == ascii "cas") <;> cases nr <;>
    simp [hc, a1, a2, a3, a4, hok, hrest, htake, hterm', hnl, Int.toNat_natCast]

end Proto

namespace Proto

theorem storeArgs_tok (c k : Bytes) (flag exptime cas : Int) (len : Nat) (nr : Bool) (hk : Tok k) :
    ∀ t ∈ storeArgs c k flag exptime cas len nr, Tok t := by
  intro t ht
  unfold storeArgs at ht
  simp only [List.mem_append, List.mem_cons, List.mem_nil_iff, or_false] at ht
  rcases ht with ((rfl | rfl | rfl | rfl) | ht) | ht
  · exact hk
  · exact itoa_tok _
  · exact itoa_tok _
  · exact itoa_tok _
  · split at ht
    · simp only [List.mem_cons, List.mem_nil_iff, or_false] at ht; rw [ht]; exact itoa_tok _
    · simp at ht
  · split at ht
    · simp only [List.mem_cons, List.mem_nil_iff, or_false] at ht; rw [ht]; exact noreply_tok
    · simp at ht

/-- the store commands (set / add / replace / cas / append / prepend): header, length-prefixed body, terminator -/
theorem rt_store (cfg : Cfg) (led : Ledger) (c k : Bytes) (flag exptime cas : Int) (body rest : Bytes) (nr : Bool)
    (hs : isStoreCmd c = true) (hg : (c == ascii "get" || c == ascii "gets") = false) (hct : Tok c) (hk : Tok k)
    (hf : I64 flag) (he : I64 exptime) (hcas : I64 cas)
    (hlen : body.length ≤ cfg.bodyMax) (hlen2 : body.length < 4294967296) :
    let r : Req := { cmd := c, keys := [k], flag := flag, exptime := exptime, cas := if c == ascii "cas" then cas else 0,
                     body := body, noreply := nr }
    readReq cfg led (writeReq r ++ rest)
      = { n := (writeReq r).length, res := .ok, req := r, working := true,
          led := ((led.tokGet).alloc cfg body.length).1.setAdd ((led.tokGet).alloc cfg body.length).2.cap,
          item := some ((led.tokGet).alloc cfg body.length).2,
          kind := if c == ascii "append" || c == ascii "prepend" then .append else .store } := by
  intro r
  have hw : writeReq r = joinSp (c :: storeArgs c k flag exptime cas body.length nr) ++ crlf ++ (body ++ crlf) := by
    unfold writeReq storeArgs
    cases hc : (c == ascii "cas") <;> cases nr <;> simp [r, hs, hc, joinSp, List.append_assoc]
  have hlenw : (writeReq r).length = (joinSp (c :: storeArgs c k flag exptime cas body.length nr) ++ crlf).length + body.length + 2 := by
    rw [hw]; simp [crlf]; omega
  rw [hlenw, hw]
  have hassoc : joinSp (c :: storeArgs c k flag exptime cas body.length nr) ++ crlf ++ (body ++ crlf) ++ rest
      = joinSp (c :: storeArgs c k flag exptime cas body.length nr) ++ crlf ++ (body ++ crlf ++ rest) := by
    simp [List.append_assoc]
  rw [hassoc]
  rw [readReq_line cfg led c _ _ (by
    intro t ht
    rcases List.mem_cons.mp ht with rfl | ht
    · exact hct
    · exact storeArgs_tok c k flag exptime cas body.length nr hk t ht)]
  unfold readCmd
  simp only [hg, hs, if_true, if_false, Bool.false_eq_true]
  exact readStore_ok cfg led _ _ c k flag exptime cas body rest nr (by simp) hf he hcas hlen hlen2

end Proto

namespace Proto

/-- `incr` / `decr` -/
theorem rt_incr (cfg : Cfg) (led : Ledger) (c k num : Bytes) (nr : Bool) (rest : Bytes)
    (hc : (c == ascii "incr" || c == ascii "decr") = true)
    (hg : (c == ascii "get" || c == ascii "gets") = false) (hs : isStoreCmd c = false) (hd : (c == ascii "delete") = false)
    (hct : Tok c) (hk : Tok k) (hn : Tok num) :
    let r : Req := { cmd := c, keys := [k], body := num, noreply := nr }
    readReq cfg led (writeReq r ++ rest)
      = { n := (writeReq r).length, res := .ok, req := r, working := true,
          led := ({ led with setC := led.setC + 1 } : Ledger).tokGet, item := none,
          kind := if c == ascii "incr" then .incr else .decr } := by
  intro r
  cases nr with
  | false =>
    have hw : writeReq r = joinSp [c, k, num] ++ crlf := by simp [writeReq, r, hs, hc, joinSp]
    rw [hw, readReq_line cfg led c [k, num] rest (by intro t ht; simp at ht; rcases ht with rfl | rfl | rfl <;> assumption)]
    unfold readCmd
    simp [hg, hs, hd, hc, r]
  | true =>
    have hw : writeReq r = joinSp [c, k, num, noreplyTok] ++ crlf := by simp [writeReq, r, hs, hc, joinSp]
    rw [hw, readReq_line cfg led c [k, num, noreplyTok] rest
      (by intro t ht; simp at ht; rcases ht with rfl | rfl | rfl | rfl; exact hct; exact hk; exact hn; exact noreply_tok)]
    unfold readCmd
    simp [hg, hs, hd, hc, r]

end Proto
