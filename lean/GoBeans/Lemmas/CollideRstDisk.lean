/-
  C13 (a) with restarts, hint side I: the hint chunk of a data file describes EXACTLY the records of the file, in order —
  `CkI`: some cut of the record sequence into consecutive runs, one run per closed split (a written file, or a buffer
  not yet written: its "virtual" file `vfile`), the rest in the newest buffer.  `DiskFull` is `HintLoadLemmas.DiskInv`
  without its tolerance for missing files (a split without file describes NO record).  Kept by `hintChunk.setItem`,
  by closing a split (`trydump`, `rotate`) and by writing closed buffers.
-/
import GoBeans.Lemmas.CollideExtHints
set_option linter.unusedSimpArgs false
set_option linter.unusedVariables false
namespace CollideLemmas
open Store Spec HintIndex Collide HintBufferLemmas HintLoadLemmas HintIndexLemmas StoreLemmas

section
variable (hash : Key → Nat)

/-- what a closed split will be on disk once it is written -/
def vfile (sp : HSplit) : Option SplitFile :=
  match sp.file with
  | some f => some f
  | none => match sp.buf with | some b => fileOfBuf b | none => none

/-- one split (file `f`, or none) against its run `s` of the records `all`; `after` = every record behind the run -/
def EntOK (all s : FileRecs) (f : Option SplitFile) (after : FileRecs) : Prop :=
  match f with
  | none => s = []
  | some f => SplitFileOf hash s f.items ∧ s ≠ [] ∧ (∀ p ∈ s, p.1 + p.2.size ≤ f.datasize) ∧
      (∀ q ∈ after, f.datasize ≤ q.1) ∧ (f.datasize = 0 ∨ ∃ p ∈ all, f.datasize ≤ p.1 + p.2.size)

def DiskFull (all : FileRecs) : List FileRecs → List (Option SplitFile) → FileRecs → Prop
  | [], [], _ => True
  | s :: ss, f :: fs, tail => EntOK hash all s f (ss.flatten ++ tail) ∧ DiskFull all ss fs tail
  | _, _, _ => False

theorem diskFull_inv (all : FileRecs) : ∀ (segs : List FileRecs) (fs : List (Option SplitFile)) (tail : FileRecs),
    DiskFull hash all segs fs tail → DiskInv hash all segs fs tail := by
  intro segs
  induction segs with
  | nil =>
    intro fs tail h
    cases fs with
    | nil => simp [DiskInv]
    | cons _ _ => simp [DiskFull] at h
  | cons s ss ih =>
    intro fs tail h
    cases fs with
    | nil => simp [DiskFull] at h
    | cons f fs =>
      simp only [DiskFull] at h
      simp only [DiskInv]
      refine ⟨?_, ih fs tail h.2⟩
      cases f with
      | none => trivial
      | some f => exact h.1

theorem diskFull_length (all : FileRecs) : ∀ (segs : List FileRecs) (fs : List (Option SplitFile)) (tail : FileRecs),
    DiskFull hash all segs fs tail → segs.length = fs.length := by
  intro segs
  induction segs with
  | nil =>
    intro fs tail h
    cases fs with
    | nil => rfl
    | cons _ _ => simp [DiskFull] at h
  | cons s ss ih =>
    intro fs tail h
    cases fs with
    | nil => simp [DiskFull] at h
    | cons f fs =>
      simp only [DiskFull] at h
      simp [ih fs tail h.2]

theorem entOK_mono {all all' s : FileRecs} {f : Option SplitFile} {after : FileRecs} (hsub : ∀ p ∈ all, p ∈ all')
    (h : EntOK hash all s f after) : EntOK hash all' s f after := by
  cases f with
  | none => exact h
  | some f =>
    obtain ⟨a1, a2, a3, a4, a5⟩ := h
    refine ⟨a1, a2, a3, a4, ?_⟩
    rcases a5 with a5 | ⟨p, hp, hle⟩
    · exact Or.inl a5
    · exact Or.inr ⟨p, hsub p hp, hle⟩

theorem diskFull_mono {all all' : FileRecs} (hsub : ∀ p ∈ all, p ∈ all') :
    ∀ (segs : List FileRecs) (fs : List (Option SplitFile)) (tail : FileRecs),
      DiskFull hash all segs fs tail → DiskFull hash all' segs fs tail := by
  intro segs
  induction segs with
  | nil =>
    intro fs tail h
    cases fs with
    | nil => simp [DiskFull]
    | cons _ _ => simp [DiskFull] at h
  | cons s ss ih =>
    intro fs tail h
    cases fs with
    | nil => simp [DiskFull] at h
    | cons f fs =>
      simp only [DiskFull] at h ⊢
      exact ⟨entOK_mono hash hsub h.1, ih fs tail h.2⟩

/-- a record appended behind everything: it lies behind every split -/
theorem entOK_after {all s : FileRecs} {f : Option SplitFile} {after : FileRecs} (p : Nat × Rec)
    (hp : ∀ x ∈ all, x.1 + x.2.size ≤ p.1) (h : EntOK hash all s f after) : EntOK hash all s f (after ++ [p]) := by
  cases f with
  | none => exact h
  | some f =>
    obtain ⟨a1, a2, a3, a4, a5⟩ := h
    refine ⟨a1, a2, a3, ?_, a5⟩
    intro q hq
    rw [List.mem_append] at hq
    rcases hq with hq | hq
    · exact a4 q hq
    · simp only [List.mem_singleton] at hq
      subst hq
      rcases a5 with a5 | ⟨x, hx, hle⟩
      · omega
      · have := hp x hx; omega

theorem diskFull_after {all : FileRecs} (p : Nat × Rec) (hp : ∀ x ∈ all, x.1 + x.2.size ≤ p.1) :
    ∀ (segs : List FileRecs) (fs : List (Option SplitFile)) (tail : FileRecs),
      DiskFull hash all segs fs tail → DiskFull hash all segs fs (tail ++ [p]) := by
  intro segs
  induction segs with
  | nil =>
    intro fs tail h
    cases fs with
    | nil => simp [DiskFull]
    | cons _ _ => simp [DiskFull] at h
  | cons s ss ih =>
    intro fs tail h
    cases fs with
    | nil => simp [DiskFull] at h
    | cons f fs =>
      simp only [DiskFull] at h ⊢
      refine ⟨?_, ih fs tail h.2⟩
      have := entOK_after hash p hp h.1
      rw [List.append_assoc] at this
      exact this

theorem diskFull_snoc (all : FileRecs) (s : FileRecs) (f : Option SplitFile) (tail : FileRecs) :
    ∀ (segs : List FileRecs) (fs : List (Option SplitFile)), DiskFull hash all segs fs (s ++ tail) →
      EntOK hash all s f tail → DiskFull hash all (segs ++ [s]) (fs ++ [f]) tail := by
  intro segs
  induction segs with
  | nil =>
    intro fs h he
    cases fs with
    | nil => simp only [List.nil_append, DiskFull, List.flatten_nil, and_true]; exact he
    | cons _ _ => simp [DiskFull] at h
  | cons s0 ss ih =>
    intro fs h he
    cases fs with
    | nil => simp [DiskFull] at h
    | cons f0 fs =>
      simp only [DiskFull, List.cons_append] at h ⊢
      refine ⟨?_, ih fs h.2 he⟩
      have : (ss ++ [s]).flatten ++ tail = ss.flatten ++ (s ++ tail) := by simp
      rw [this]; exact h.1

/-- a buffer that knows its run: its (virtual) file is a correct split -/
theorem entOK_of_splitInv {scan : Bool} {all s after : FileRecs} {b : Buf} (h : SplitInv hash scan all s after b) :
    EntOK hash all s (fileOfBuf b) after := by
  unfold fileOfBuf
  by_cases he : b.items.isEmpty = true
  · rw [if_pos he]
    show s = []
    have hb : b.items = [] := by simpa using he
    have := h.perm
    rw [hb] at this
    have := dedupLast_eq_nil this.nil_eq.symm
    simpa using this
  · rw [if_neg he]
    have hp : (sortItems b.items).Perm (dedupLast (s.map (mkItem hash scan))) := (sortItems_perm _).trans h.perm
    refine ⟨⟨scan, hp⟩, ?_, h.lower, h.upper, h.bound⟩
    intro hs
    subst hs
    have := h.perm
    simp [dedupLast] at this
    simp [this] at he

/-- the split files that exist are split files of a cut of all the records -/
theorem diskFull_fileHints (all : FileRecs) : ∀ (segs : List FileRecs) (fs : List (Option SplitFile)),
    DiskFull hash all segs fs [] →
      ∃ segs' : List FileRecs, segs'.flatten = segs.flatten ∧ Forall2 (SplitFileOf hash) segs' ((fs.filterMap id).map (·.items)) := by
  intro segs
  induction segs with
  | nil =>
    intro fs h
    cases fs with
    | nil => exact ⟨[], rfl, Forall2.nil⟩
    | cons _ _ => simp [DiskFull] at h
  | cons s ss ih =>
    intro fs h
    cases fs with
    | nil => simp [DiskFull] at h
    | cons f fs =>
      simp only [DiskFull] at h
      obtain ⟨segs', h1, h2⟩ := ih fs h.2
      cases f with
      | none =>
        have hs : s = [] := h.1
        refine ⟨segs', by simp [h1, hs], ?_⟩
        simpa using h2
      | some f =>
        refine ⟨s :: segs', by simp [h1], ?_⟩
        simp only [List.filterMap_cons, id, List.map_cons]
        exact Forall2.cons h.1.1 h2

/-! ### the chunk invariant -/

/-- the hint chunk `ck` describes the records `pre` of the data file `all = pre ++ rest` (the records `rest` are still to
    come); `scan`: the newest buffer is fed by a data scan (`buildHintFromData`) / by the write path -/
def CkI (scan : Bool) (all pre rest : FileRecs) (ck : HCk) : Prop :=
  ∃ (segs : List FileRecs) (segLast : FileRecs), segs.flatten ++ segLast = pre ∧
    DiskFull hash all segs (ck.old.map vfile) (segLast ++ rest) ∧ SplitInv hash scan all segLast rest ck.last

theorem ckI_empty (scan : Bool) (all : FileRecs) : CkI hash scan all [] all {} :=
  ⟨[], [], rfl, by simp [DiskFull], splitInv_empty hash scan all all⟩

theorem splitInv_mono {scan : Bool} {all all' s after : FileRecs} {b : Buf} (hsub : ∀ p ∈ all, p ∈ all')
    (h : SplitInv hash scan all s after b) : SplitInv hash scan all' s after b := by
  refine ⟨h.binv, h.perm, h.lower, h.upper, ?_⟩
  rcases h.bound with a | ⟨p, hp, hle⟩
  · exact Or.inl a
  · exact Or.inr ⟨p, hsub p hp, hle⟩

/-- a record appended to the data file, not yet indexed -/
theorem ckI_grow {scan : Bool} {all pre rest : FileRecs} {ck : HCk} (p : Nat × Rec) (hp : ∀ x ∈ all, x.1 + x.2.size ≤ p.1)
    (h : CkI hash scan all pre rest ck) : CkI hash scan (all ++ [p]) pre (rest ++ [p]) ck := by
  obtain ⟨segs, segLast, h1, h2, h3⟩ := h
  have hsub : ∀ x ∈ all, x ∈ all ++ [p] := fun x hx => by simp [hx]
  refine ⟨segs, segLast, h1, ?_, ?_⟩
  · have := diskFull_after hash p hp segs _ _ h2
    rw [List.append_assoc] at this
    exact diskFull_mono hash hsub _ _ _ this
  · refine ⟨h3.binv, h3.perm, h3.lower, ?_, ?_⟩
    · intro q hq
      rw [List.mem_append] at hq
      rcases hq with hq | hq
      · exact h3.upper q hq
      · simp only [List.mem_singleton] at hq
        subst hq
        rcases h3.bound with a | ⟨x, hx, hle⟩
        · omega
        · have := hp x hx; omega
    · rcases h3.bound with a | ⟨x, hx, hle⟩
      · exact Or.inl a
      · exact Or.inr ⟨x, hsub x hx, hle⟩

theorem vfile_bufsplit (b : Buf) : vfile ({ buf := some b, file := none } : HSplit) = fileOfBuf b := rfl
theorem vfile_filesplit (f : SplitFile) : vfile ({ buf := none, file := some f } : HSplit) = some f := rfl

theorem closedInv_nil_left {scan : Bool} {all : FileRecs} {segs : List FileRecs} {tail : FileRecs}
    (h : ClosedInv hash scan all segs [] tail) : segs = [] := by
  cases segs with
  | nil => rfl
  | cons _ _ => simp [ClosedInv] at h

theorem closedInv_single {scan : Bool} {all : FileRecs} {segs : List FileRecs} {b : Buf} {tail : FileRecs}
    (h : ClosedInv hash scan all segs [b] tail) : ∃ s, segs = [s] ∧ SplitInv hash scan all s tail b := by
  cases segs with
  | nil => simp [ClosedInv] at h
  | cons s ss =>
    simp only [ClosedInv] at h
    have := closedInv_nil_left hash h.2
    subst this
    exact ⟨s, rfl, by simpa using h.1⟩

/-- `hintChunk.setItem` with the item of the next record -/
theorem ckI_setItem {scan : Bool} {all pre rest : FileRecs} {ck : HCk} (cap : Nat) (hcap : 1 ≤ cap) (p : Nat × Rec)
    (hpa : p ∈ all) (hps : 0 < p.2.size) (hnext : ∀ q ∈ rest, p.1 + p.2.size ≤ q.1)
    (h : CkI hash scan all pre (p :: rest) ck) :
    CkI hash scan all (pre ++ [p]) rest (ck.setItem cap (mkItem hash scan p) p.2.size).1 := by
  obtain ⟨segs, segLast, h1, h2, h3⟩ := h
  have inv0 : ChunkInv hash scan all segLast (p :: rest) ({ closed := [], last := ck.last } : HChunk) :=
    ⟨[], segLast, rfl, by simp [ClosedInv], h3⟩
  have inv1 := step_set hash scan cap hcap p hpa hps hnext inv0
  have hstep : ({ closed := [], last := ck.last } : HChunk).step cap (.set (mkItem hash scan p) p.2.size)
      = ({ closed := [], last := ck.last } : HChunk).setItem cap (mkItem hash scan p) p.2.size := rfl
  rw [hstep] at inv1
  unfold HChunk.setItem at inv1
  unfold HCk.setItem
  simp only at inv1 ⊢
  by_cases ha : (ck.last.set cap (mkItem hash scan p) p.2.size).2 = true
  · rw [if_pos ha] at inv1 ⊢
    obtain ⟨segs', segLast', e1, e2, e3⟩ := inv1
    have := closedInv_nil_left hash e2
    subst this
    simp only [List.flatten_nil, List.nil_append] at e1
    subst e1
    refine ⟨segs, segLast ++ [p], by rw [← h1]; simp, ?_, e3⟩
    have : (segLast ++ [p]) ++ rest = segLast ++ p :: rest := by simp
    rw [this]; exact h2
  · rw [if_neg ha] at inv1 ⊢
    obtain ⟨segs', segLast', e1, e2, e3⟩ := inv1
    simp only [List.nil_append] at e2
    obtain ⟨s, rfl, e4⟩ := closedInv_single hash e2
    simp only [List.flatten_cons, List.flatten_nil, List.append_nil] at e1
    refine ⟨segs ++ [s], segLast', by rw [← h1]; simp [List.append_assoc, e1], ?_, e3⟩
    simp only [List.map_append, List.map_cons, List.map_nil, vfile_bufsplit]
    apply diskFull_snoc hash all s _ (segLast' ++ rest) segs _ _ (entOK_of_splitInv hash e4)
    have : s ++ (segLast' ++ rest) = segLast ++ p :: rest := by
      rw [← List.append_assoc, e1]; simp
    rw [this]; exact h2

theorem vfile_dumpIf (sp : HSplit) : vfile (dumpIf sp) = vfile sp := by
  unfold dumpIf
  by_cases hn : sp.needDump = true
  · rw [if_pos hn]
    unfold HSplit.needDump at hn
    unfold HSplit.dumped vfile
    cases hf : sp.file with
    | some f => rw [hf] at hn; simp at hn
    | none =>
      cases hb : sp.buf with
      | none => rw [hf, hb] at hn; simp at hn
      | some b =>
        rw [hf, hb] at hn
        simp only [Option.isNone_none, Bool.true_and, Bool.not_eq_true'] at hn
        simp only [fileOfBuf, hn, Bool.false_eq_true, if_false]
  · rw [if_neg hn]

theorem map_vfile_dumpIf (old : List HSplit) : (old.map dumpIf).map vfile = old.map vfile := by
  rw [List.map_map]
  apply List.map_congr_left
  intro sp _
  exact vfile_dumpIf sp

/-- closed buffers are written: nothing changes -/
theorem ckI_dumpOld {scan : Bool} {all pre rest : FileRecs} {ck : HCk} (h : CkI hash scan all pre rest ck) :
    CkI hash scan all pre rest { ck with old := ck.old.map dumpIf } := by
  obtain ⟨segs, segLast, h1, h2, h3⟩ := h
  refine ⟨segs, segLast, h1, ?_, h3⟩
  show DiskFull hash all segs ((ck.old.map dumpIf).map vfile) (segLast ++ rest)
  rw [map_vfile_dumpIf]; exact h2

/-- the newest split is closed as `sp` (written: `trydump`; as a buffer: `rotate`), a fresh buffer follows -/
theorem ckI_close {scan : Bool} (scan' : Bool) {all pre rest : FileRecs} {ck : HCk} (sp : HSplit) (hsp : vfile sp = fileOfBuf ck.last)
    (h : CkI hash scan all pre rest ck) : CkI hash scan' all pre rest { old := ck.old ++ [sp], last := {} } := by
  obtain ⟨segs, segLast, h1, h2, h3⟩ := h
  refine ⟨segs ++ [segLast], [], by rw [← h1]; simp, ?_, splitInv_empty hash scan' all rest⟩
  simp only [List.map_append, List.map_cons, List.map_nil, hsp, List.nil_append]
  exact diskFull_snoc hash all segLast _ rest segs _ h2 (entOK_of_splitInv hash h3)

/-- an empty newest buffer may be fed by either path -/
theorem ckI_reflag {scan : Bool} (scan' : Bool) {all pre rest : FileRecs} {ck : HCk} (he : ck.last.items = [])
    (h : CkI hash scan all pre rest ck) : CkI hash scan' all pre rest ck := by
  obtain ⟨segs, segLast, h1, h2, h3⟩ := h
  have hs : segLast = [] := by
    have := h3.perm
    rw [he] at this
    have := dedupLast_eq_nil this.nil_eq.symm
    simpa using this
  subst hs
  refine ⟨segs, [], h1, h2, ⟨h3.binv, by rw [he]; simp [dedupLast], by simp, h3.upper, h3.bound⟩⟩

theorem ckI_mono {scan : Bool} {all all' pre rest : FileRecs} {ck : HCk} (hsub : ∀ p ∈ all, p ∈ all')
    (h : CkI hash scan all pre rest ck) : CkI hash scan all' pre rest ck := by
  obtain ⟨segs, segLast, h1, h2, h3⟩ := h
  exact ⟨segs, segLast, h1, diskFull_mono hash hsub _ _ _ h2, splitInv_mono hash hsub h3⟩

/-- a chunk that describes records holds something -/
theorem ckI_nonempty {scan : Bool} {all pre : FileRecs} {ck : HCk} (h : CkI hash scan all pre [] ck) (hne : pre ≠ []) :
    ck.last.items ≠ [] ∨ ck.old ≠ [] := by
  obtain ⟨segs, segLast, h1, h2, h3⟩ := h
  by_cases hl : ck.last.items = []
  · right
    intro ho
    have hs : segLast = [] := by
      have := h3.perm
      rw [hl] at this
      have := dedupLast_eq_nil this.nil_eq.symm
      simpa using this
    have hlen := diskFull_length hash _ _ _ _ h2
    rw [ho] at hlen
    simp only [List.map_nil, List.length_nil, List.length_eq_zero_iff] at hlen
    subst hlen; subst hs
    simp at h1
    exact hne h1
  · exact Or.inl hl

end
end CollideLemmas
