/-
  GC beside clients: every CLIENT micro-step preserves the data invariant `DInv` (adaptation of
  `ConcFine.micro_data`: the readers' positions are not part of `DInv`; new: a writer's position is in the head
  chunk, a flusher's target is outside the GC range).  Core-only.
-/
import GoBeans.Lemmas.ConcGCClient

namespace ConcGC
open ConcFine

local macro "unfw" : tactic =>
  `(tactic| simp [ConcFine.State.goto, ConcFine.State.log, ConcFine.State.respond, ConcFine.State.readDone,
                  ConcFine.State.setChunk, WriterOK, WPosOK])

/-- the stepping thread's own new program counter: writer facts -/
theorem micro_self_wr (cfg : Cfg) (s s' : ConcFine.State) (t : Nat)
    (hso : SlotOK s.chunks s.newHead (s.thr t).pc) (hw : WriterOK s (s.thr t).pc) (hwp : WPosOK s.newHead (s.thr t).pc)
    (h : micro cfg s t = some s') : WriterOK s' (s'.thr t).pc ∧ WPosOK s'.newHead (s'.thr t).pc := by
  cases hpc : (s.thr t).pc with
  | wLock q =>
    simp only [micro, hpc] at h
    rw [hpc] at hw
    split at h
    · obtain rfl := Option.some.inj h; unfw; exact hw
    · contradiction
  | wGet q =>
    simp only [micro, hpc] at h
    rw [hpc] at hw
    split at h
    · obtain rfl := Option.some.inj h; unfw
    · rename_i hno
      obtain rfl := Option.some.inj h
      refine ⟨?_, by unfw⟩
      simp only [ConcFine.State.goto, if_true, WriterOK]
      exact ⟨hw, rfl, hno⟩
  | wSlot q ver =>
    simp only [micro, hpc] at h
    rw [hpc] at hw
    split at h
    · split at h <;>
      · obtain rfl := Option.some.inj h
        refine ⟨?_, by unfw⟩
        simp only [ConcFine.State.goto, if_true, WriterOK]
        exact ⟨hw.1, wpre_congr rfl hw.2⟩
    · contradiction
  | wAppend q ver pos =>
    simp only [micro, hpc] at h
    rw [hpc] at hw hso hwp
    simp only [SlotOK] at hso
    obtain rfl := Option.some.inj h
    refine ⟨?_, by simpa [ConcFine.State.goto, ConcFine.State.setChunk, WPosOK] using hwp⟩
    simp only [ConcFine.State.goto, ConcFine.State.setChunk, if_true, WriterOK]
    refine ⟨hw.1, wpre_congr rfl hw.2, ?_, rfl⟩
    rw [hso.1]
    simp only [if_true, Stored]
    exact Or.inr (List.mem_append_right _ (List.mem_singleton.mpr rfl))
  | wDsUnlock q ver pos =>
    simp only [micro, hpc] at h
    rw [hpc] at hw hwp
    obtain rfl := Option.some.inj h
    refine ⟨?_, by simpa [ConcFine.State.goto, WPosOK] using hwp⟩
    simp only [ConcFine.State.goto, if_true, WriterOK]
    exact ⟨hw.1, wpre_congr rfl hw.2.1, hw.2.2⟩
  | _ =>
    simp only [micro, hpc] at h
    repeat' (split at h)
    all_goals (try contradiction)
    all_goals (obtain rfl := Option.some.inj h
               simp [ConcFine.State.goto, ConcFine.State.log, ConcFine.State.respond, ConcFine.State.readDone,
                     ConcFine.State.setChunk, WriterOK, WPosOK, hpc])

/-- the head moves only in the rotation of `dataStore.AppendRecord` -/
theorem micro_head_eq {cfg : Cfg} {b b' : ConcFine.State} {t : Nat} (h : micro cfg b t = some b')
    (hn : holdsW (b.thr t).pc = false) : b'.newHead = b.newHead := by
  cases hpc : (b.thr t).pc with
  | wSlot q ver => rw [hpc] at hn; simp [holdsW] at hn
  | _ =>
    simp only [micro, hpc] at h
    repeat' (split at h)
    all_goals (first | contradiction | (obtain rfl := Option.some.inj h; rfl))

theorem wposOK_not_holdsW {hd : Nat} {pc : PC} (h : holdsW pc = false) : WPosOK hd pc := by
  cases pc <;> simp_all [holdsW, WPosOK]

theorem micro_dinv {cfg : Cfg} {s s' : State} {t : Nat} (hl : LockInv s.base) (hh : HotLay (X s) s.base) (hc : GCtl s)
    (hd : DInv s) (h : micro cfg s.base t = some s'.base) (hg : s'.gc = s.gc)
    (hfl : ∀ c, flushTarget (s'.base.thr t).pc = some c → ¬ X s c) : DInv s' := by
  have hX : ∀ c, X s' c ↔ X s c := X_congr (by rw [hg]) (by rw [hg])
  have g := micro_grows_hot hl hh (hd.fltg t) h
  have hself := micro_self_wr cfg s.base s'.base t (hh.slot t) (hd.wr t) (hd.wpos t) h
  have hthr := micro_thr_others h
  refine ⟨?_, ?_, ?_, ?_, ?_⟩
  · intro c r hr
    rcases micro_stored_new_hot hl hh (hd.fltg t) h c r hr with h1 | ⟨q, ver, pos, hpc, rfl⟩
    · exact hd.recs c r h1
    · have hw := hd.wr t
      rw [hpc] at hw
      exact wpre_recOK hw.1 hw.2 _
  · intro k it hit
    rcases micro_tree h with he | ⟨q, ver, pos, hpc, he⟩
    · rw [he] at hit
      obtain ⟨r, h1, h2⟩ := hd.tree k it hit
      exact ⟨r, storedAt_grows g h1, h2⟩
    · rw [he] at hit
      by_cases hk : k = q.key
      · simp only [hk, if_true] at hit
        obtain rfl := Option.some.inj hit
        have hw := hd.wr t
        rw [hpc] at hw
        exact ⟨_, storedAt_grows g hw.2.2, hk.symm, rfl⟩
      · simp only [hk, if_false] at hit
        obtain ⟨r, h1, h2⟩ := hd.tree k it hit
        exact ⟨r, storedAt_grows g h1, h2⟩
  · intro u
    by_cases hu : u = t
    · subst hu; exact hself.1
    · rw [hthr u hu]
      rcases micro_tree h with he | ⟨q, ver, pos, hpc, he⟩
      · exact writerOK_mono he g (hd.wr u)
      · have htW : holdsW (s.base.thr t).pc = true := by rw [hpc]; rfl
        have : holdsW (s.base.thr u).pc = false := by
          cases hh : holdsW (s.base.thr u).pc with
          | false => rfl
          | true => exact absurd (hl.uniqW htW hh) hu
        exact writerOK_not_holdsW this (hd.wr u)
  · intro u
    by_cases hu : u = t
    · subst hu; exact hself.2
    · rw [hthr u hu]
      cases hhw : holdsW (s.base.thr u).pc with
      | false => exact wposOK_not_holdsW hhw
      | true =>
        have : holdsW (s.base.thr t).pc = false := by
          cases hh : holdsW (s.base.thr t).pc with
          | false => rfl
          | true => exact absurd (hl.uniqW hh hhw) hu
        rw [micro_head_eq h this]; exact hd.wpos u
  · intro u c hf
    rw [hX]
    by_cases hu : u = t
    · subst hu; exact hfl c hf
    · rw [hthr u hu] at hf; exact hd.fltg u c hf

end ConcGC
