/-
  Reply round trip (C11), part 7: what the storage client hands to a `get` reply — every item it can produce (ordinary
  keys, '@' listings and record dumps, '?' meta lines) carries its key, no cas, and a body whose rendered length is the
  length the header announces; every error message is a sequence of words.
-/
import GoBeans.Lemmas.ProtoRespStat

namespace Proto

/-- the number of bytes a segment stands for, when the segment fixes it -/
def segLen : Seg → Nat
  | .lit b => b.length
  | .ts => 10
  | .recDump key _ _ body => 24 + key.length + body.length
  | .posOf c o => (itoa c).length + 1 + (itoa o).length
  | .lines ls => ls.flatten.length
  | .statsAll => 0
  | .statVal _ => 0

def DetLen : Seg → Prop
  | .statsAll => False
  | .statVal _ => False
  | _ => True

theorem perm_flatten_length {ls' ls : List Bytes} (h : ls'.Perm ls) : ls'.flatten.length = ls.flatten.length := by
  induction h with
  | nil => rfl
  | cons x _ ih => simp [ih]
  | swap x y l => simp; omega
  | trans _ _ ih1 ih2 => omega

theorem segBytes_len {s : Seg} {b : Bytes} (h : SegBytes s b) (hd : DetLen s) : b.length = segLen s := by
  cases h with
  | lit b => rfl
  | ts d hl _ => exact hl
  | recDump key ver flag body enc hl => exact hl
  | posOf c o => simp [segLen, sp]; omega
  | lines ls ls' hp => exact perm_flatten_length hp
  | statsAll _ => exact hd.elim
  | statVal _ _ => exact hd.elim

theorem segsBytes_len {ss : List Seg} {b : Bytes} (h : SegsBytes ss b) (hd : ∀ s ∈ ss, DetLen s) :
    b.length = (ss.map segLen).sum := by
  induction h with
  | nil => rfl
  | cons h hs ih =>
    simp only [List.length_append, List.map_cons, List.sum_cons]
    rw [segBytes_len h (hd _ (by simp)), ih (fun s hs => hd s (by simp [hs]))]

/-- what the round trip needs of a looked-up item, apart from the numeric ranges -/
def GoodItem (k : Bytes) (it : RItem) : Prop :=
  it.key = k ∧ it.cas = 0 ∧ (∀ s ∈ it.body, DetLen s) ∧ (it.body.map segLen).sum = it.len

theorem GoodItem.lenOK {k : Bytes} {it : RItem} (h : GoodItem k it) : it.LenOK := by
  intro b hb
  rw [segsBytes_len hb h.2.2.1, h.2.2.2]

theorem clientGet_good (cfg : Cfg) (st : St) (k : Bytes) (it : RItem) (h : (clientGet cfg st k).1 = .item it) :
    GoodItem k it := by
  unfold clientGet at h
  repeat' (split at h)
  all_goals first | (simp at h; done) | skip
  all_goals (simp at h; subst h)
  all_goals simp [GoodItem, DetLen, segLen, sp]
  all_goals first
    | decide
    | omega
    | (have : (ascii " 0 0").length = 4 := by decide
       omega)
    | (split <;> simp [segLen])

end Proto
