/-
  C13 (b) with restarts: `Bucket.close` + `Bucket.open` keep `RInv` (`reopen_safeR`).
-/
import GoBeans.Lemmas.CollideRTree3
set_option linter.unusedSimpArgs false
set_option linter.unusedVariables false
namespace CollideLemmas
open Store Spec HintIndex Collide StoreLemmas HintBufferLemmas HintIndexLemmas

section
variable (hash : Key → Nat)

/-- the data files after a restart: everything flushed, a new head behind the last existing file, no tree yet -/
def reB (st : State) (mx : Nat) : Bucket :=
  { chunks := fun i => { st.b.chunks i with flushed := (st.b.chunks i).recs.length }, head := mx + 1, tree := [], nextGC := st.b.nextGC }

/-- the tree dump the new process loads -/
def reLoaded (st : State) (mx : Nat) (kt : Bool) (hs1 : Hints) : Option ((Nat × Int) × Tree) :=
  match (if kt then (if isLarger st.treeID hs1.maxDumped.1 hs1.maxDumped.2 then some (hs1.maxDumped, st.b.tree) else st.treeFile) else none) with
  | some (id, t) => if id.1 > mx then none else some (id, t)
  | none => none

def reTid (l : Option ((Nat × Int) × Tree)) : Nat × Int := match l with | some (id, _) => id | none => (0, -1)
def reTree0 (l : Option ((Nat × Int) × Tree)) : Tree := match l with | some (_, t) => t | none => []

/-- the hint loop of the new process -/
def reFold (cfg : Collide.Cfg) (st : State) (mx : Nat) (hs1 : Hints) (l : Option ((Nat × Int) × Tree)) : Hints × Tree :=
  ((List.range (mx + 1)).filter (fun i => decide (i < (reTid l).1))).foldl
    (openChunk hash cfg.cap (reB st mx) (diskOf hs1) (reTid l))
    (((List.range (mx + 1)).filter (fun i => decide ((reTid l).1 ≤ i))).foldl
      (openChunk hash cfg.cap (reB st mx) (diskOf hs1) (reTid l)) ({ maxDumped := reTid l }, reTree0 l))

theorem reopen_some (cfg : Collide.Cfg) (st : State) (kt : Bool) (mx : Nat)
    (h : lastNonEmpty ((List.range (st.b.head + 1)).map (fun i => { st.b.chunks i with flushed := (st.b.chunks i).recs.length })) = some mx) :
    st.reopen hash cfg kt =
      { b := { reB st mx with tree := (reFold hash cfg st mx (closeAll st.hs (st.hs.maxChunk + 1)) (reLoaded st mx kt (closeAll st.hs (st.hs.maxChunk + 1)))).2 },
        ct := st.ct,
        hs := (reFold hash cfg st mx (closeAll st.hs (st.hs.maxChunk + 1)) (reLoaded st mx kt (closeAll st.hs (st.hs.maxChunk + 1)))).1,
        treeID := if (reLoaded st mx kt (closeAll st.hs (st.hs.maxChunk + 1))).isNone
                  then (reFold hash cfg st mx (closeAll st.hs (st.hs.maxChunk + 1)) (reLoaded st mx kt (closeAll st.hs (st.hs.maxChunk + 1)))).1.maxDumped
                  else reTid (reLoaded st mx kt (closeAll st.hs (st.hs.maxChunk + 1))),
        treeFile := if (reLoaded st mx kt (closeAll st.hs (st.hs.maxChunk + 1))).isNone
                    then some ((reFold hash cfg st mx (closeAll st.hs (st.hs.maxChunk + 1)) (reLoaded st mx kt (closeAll st.hs (st.hs.maxChunk + 1)))).1.maxDumped,
                               (reFold hash cfg st mx (closeAll st.hs (st.hs.maxChunk + 1)) (reLoaded st mx kt (closeAll st.hs (st.hs.maxChunk + 1)))).2)
                    else reLoaded st mx kt (closeAll st.hs (st.hs.maxChunk + 1)),
        ctFile := some st.ct } := by
  unfold State.reopen
  simp only [h]
  rfl

/-- with at least one record there is a last existing data file, and nothing behind it -/
theorem reopen_mx (b : Bucket) (hp : PosInv b) (i0 : Nat) (hi0 : (b.chunks i0).recs ≠ []) :
    ∃ mx, lastNonEmpty ((List.range (b.head + 1)).map (fun i => { b.chunks i with flushed := (b.chunks i).recs.length })) = some mx
      ∧ mx ≤ b.head ∧ ∀ j, mx < j → (b.chunks j).recs = [] ∧ (b.chunks j).size = 0 := by
  generalize hcl : (List.range (b.head + 1)).map (fun i => { b.chunks i with flushed := (b.chunks i).recs.length }) = cl
  have hlen : cl.length = b.head + 1 := by rw [← hcl]; simp
  have hget : ∀ j, j < b.head + 1 → (NonEmptyC (cl.getD j {}) ↔ NonEmptyC (b.chunks j)) := by
    intro j hj
    have : cl.getD j {} = { b.chunks j with flushed := (b.chunks j).recs.length } := by
      rw [← hcl]; simp [List.getD, hj]
    rw [this]; simp [NonEmptyC]
  have hempty : ∀ j, ¬ NonEmptyC (b.chunks j) → (b.chunks j).recs = [] ∧ (b.chunks j).size = 0 := by
    intro j hne
    have hs : (b.chunks j).size = 0 := by
      unfold NonEmptyC at hne; omega
    refine ⟨?_, hs⟩
    cases hr : (b.chunks j).recs with
    | nil => rfl
    | cons x xs =>
      have := hp.below j x.1 x.2 (by rw [hr]; simp)
      omega
  have hi0h : i0 ≤ b.head := by
    cases Nat.lt_or_ge b.head i0 with
    | inl h => exact absurd (hp.fresh i0 h).1 hi0
    | inr h => exact h
  have hne0 : NonEmptyC (b.chunks i0) := by
    left
    cases hr : (b.chunks i0).recs with
    | nil => exact absurd hr hi0
    | cons x xs =>
      have := hp.below i0 x.1 x.2 (by rw [hr]; simp)
      omega
  have hdef : lastNonEmpty cl = lastNonEmpty.go 0 cl none := rfl
  rcases lastNonEmpty_go_spec cl 0 none with ⟨j, hj, he, _, hafter⟩ | ⟨_, hnone⟩
  · rw [hlen] at hj
    refine ⟨j, by rw [hdef, he]; simp, by omega, ?_⟩
    intro j' hj'
    by_cases hle : j' ≤ b.head
    · apply hempty
      rw [← hget j' (by omega)]
      exact hafter j' hj' (by rw [hlen]; omega)
    · exact hp.fresh j' (by omega)
  · exfalso
    have := hnone i0 (by rw [hlen]; omega)
    rw [hget i0 (by omega)] at this
    exact this hne0

theorem treeStep_below (tid : Nat × Int) (f : Nat → HCk) (l : List Nat) (hl : ∀ i ∈ l, i < tid.1) (t : Tree) :
    l.foldl (fun t i => treeStep tid (f i) t i) t = t := by
  induction l generalizing t with
  | nil => rfl
  | cons a rest ih =>
    simp only [List.foldl_cons]
    have : treeStep tid (f a) t a = t := by unfold treeStep; rw [if_pos (hl a (by simp))]
    rw [this]
    exact ih (fun i hi => hl i (by simp [hi])) t

theorem isLarger_refl (a : Nat × Int) : isLarger a a.1 a.2 = true := by
  unfold isLarger; simp

end
end CollideLemmas
