/-
  GC beside clients: the structural invariant `SInv` (locks, clients' layout, GC invariant, data invariant) is
  preserved by every scheduler decision as long as no monitor fires.  Core-only.
-/
import GoBeans.Lemmas.ConcGCClientData

namespace ConcGC
open ConcFine

structure SInv (s : State) : Prop where
  lock : LockInv s.base
  hot : HotLay (X s) s.base
  ctl : GCtl s
  chk : GChk s
  tr : GTree s
  data : DInv s

theorem hotlay_mono {X Y : Nat → Prop} {b : ConcFine.State} (h : HotLay X b) (hxy : ∀ c, X c → Y c) : HotLay Y b :=
  ⟨fun c hy => h.ok c (fun hx => hy (hxy c hx)), h.above, h.fl, h.slot⟩

/-- a step of the embedded client state that leaves chunks, tree, head and the GC thread alone -/
theorem sinv_thr {s s' : State} (hi : SInv s) (hg : s'.gc = s.gc) (hl : LockInv s'.base) (hh : HotLay (X s) s'.base)
    (hch : s'.base.chunks = s.base.chunks) (htr : s'.base.tree = s.base.tree) (hnh : s'.base.newHead = s.base.newHead)
    (hwr : ∀ u, WriterOK s'.base (s'.base.thr u).pc) (hwp : ∀ u, WPosOK s.base.newHead (s'.base.thr u).pc)
    (hft : ∀ u c, flushTarget (s'.base.thr u).pc = some c → ¬ X s c) : SInv s' := by
  have hX : ∀ c, X s' c ↔ X s c := X_congr (by rw [hg]) (by rw [hg])
  refine ⟨hl, ?_, ctl_client hi.ctl hg (by omega), chk_client hi.ctl hi.chk hg (fun c _ => by rw [hch]),
    gtree_client hi.ctl hi.tr hg (Or.inl htr), ?_⟩
  · exact hotlay_mono hh (fun c hx => (hX c).2 hx)
  · refine ⟨?_, ?_, hwr, ?_, ?_⟩
    · intro c r hr; rw [hch] at hr; exact hi.data.recs c r hr
    · intro k it hit; rw [htr] at hit; rw [hch]; exact hi.data.tree k it hit
    · intro u; rw [hnh]; exact hwp u
    · intro u c hf; rw [hX]; exact hft u c hf

theorem invoke_eq {b b' : ConcFine.State} {t : Nat} {op : Op} (h : invoke b t op = some b') :
    ∃ pc, b' = { b with thr := fun u => if u = t then { pc := pc, inv := b.clock } else b.thr u } ∧
      (∀ b1 : ConcFine.State, WriterOK b1 pc) ∧ (∀ hd, WPosOK hd pc) ∧ flushTarget pc = none ∧
      (b.thr t).pc = .idle := by
  unfold invoke at h
  split at h
  · rename_i hpc
    dsimp only at h
    cases op with
    | write k v sz =>
      dsimp only at h
      split at h
      · contradiction
      · rename_i hv
        obtain rfl := Option.some.inj h
        exact ⟨_, rfl, fun _ => ⟨by simp, fun _ => hv⟩, fun _ => trivial, rfl, hpc⟩
    | delete k sz =>
      obtain rfl := Option.some.inj h
      exact ⟨_, rfl, fun _ => ⟨fun _ => rfl, by simp⟩, fun _ => trivial, rfl, hpc⟩
    | read k => obtain rfl := Option.some.inj h; exact ⟨_, rfl, fun _ => trivial, fun _ => trivial, rfl, hpc⟩
    | flush c force late => obtain rfl := Option.some.inj h; exact ⟨_, rfl, fun _ => trivial, fun _ => trivial, rfl, hpc⟩
  · contradiction

theorem sinv_invoke {s : State} {b' : ConcFine.State} {t : Nat} {op : Op} (hi : SInv s)
    (h : invoke s.base t op = some b') : SInv { s with base := b' } := by
  obtain ⟨pc, he, h1, h2, h3, _⟩ := invoke_eq h
  refine sinv_thr hi rfl (invoke_lock _ _ t op hi.lock h) (invoke_hotlay _ _ t op hi.hot h) (by rw [he]) (by rw [he])
    (by rw [he]) ?_ ?_ ?_
  · intro u
    show WriterOK b' (b'.thr u).pc
    rw [he]
    by_cases hu : u = t
    · simp only [hu, if_true]; exact h1 _
    · simp only [hu, if_false]; exact writerOK_mono rfl (grows_refl _) (hi.data.wr u)
  · intro u
    show WPosOK _ (b'.thr u).pc
    rw [he]
    by_cases hu : u = t
    · simp only [hu, if_true]; exact h2 _
    · simp only [hu, if_false]; exact hi.data.wpos u
  · intro u c hf
    have hf : flushTarget (b'.thr u).pc = some c := hf
    rw [he] at hf
    by_cases hu : u = t
    · simp only [hu, if_true, h3] at hf; contradiction
    · simp only [hu, if_false] at hf; exact hi.data.fltg u c hf

theorem sinv_readFail {s : State} {t : Nat} (hi : SInv s)
    (hpc : (∃ k it, (s.base.thr t).pc = .rBuf k it) ∨ ∃ k it, (s.base.thr t).pc = .rFile k it) :
    SInv (readFail s t) := by
  have hW : holdsW (s.base.thr t).pc = false := by rcases hpc with ⟨k, it, h⟩ | ⟨k, it, h⟩ <;> rw [h] <;> rfl
  have hD : holdsD (s.base.thr t).pc = false := by rcases hpc with ⟨k, it, h⟩ | ⟨k, it, h⟩ <;> rw [h] <;> rfl
  have hF : holdsF (s.base.thr t).pc = false := by rcases hpc with ⟨k, it, h⟩ | ⟨k, it, h⟩ <;> rw [h] <;> rfl
  have hP : ∀ c, prog c (s.base.thr t).pc = 0 := by
    intro c; rcases hpc with ⟨k, it, h⟩ | ⟨k, it, h⟩ <;> rw [h] <;> rfl
  have hthr : ∀ u, u ≠ t → (readFail s t).base.thr u = s.base.thr u := by
    intro u hu; simp [readFail, hu]
  have hself : ((readFail s t).base.thr t).pc = .idle := by simp [readFail]
  refine sinv_thr hi rfl ?_ ?_ rfl rfl rfl ?_ ?_ ?_
  · obtain ⟨hw, hd, hf⟩ := hi.lock
    refine ⟨lock_upd hw (t := t) hthr (Or.inl ⟨rfl, ?_⟩), lock_upd hd (t := t) hthr (Or.inl ⟨rfl, ?_⟩),
      lock_upd hf (t := t) hthr (Or.inl ⟨rfl, ?_⟩)⟩
    · rw [hself, hW]; rfl
    · rw [hself, hD]; rfl
    · rw [hself, hF]; rfl
  · refine hot_frame t hi.hot hthr rfl rfl (progress_same (t := t) hthr rfl ?_) ?_ ?_
    · intro c; rw [hself, hP]; rfl
    · rw [hself]; trivial
    · rw [hself]; trivial
  · intro u
    by_cases hu : u = t
    · subst hu; rw [hself]; trivial
    · rw [hthr u hu]; exact writerOK_mono rfl (grows_refl _) (hi.data.wr u)
  · intro u
    by_cases hu : u = t
    · subst hu; rw [hself]; trivial
    · rw [hthr u hu]; exact hi.data.wpos u
  · intro u c hf
    by_cases hu : u = t
    · subst hu; rw [hself] at hf; simp [flushTarget] at hf
    · rw [hthr u hu] at hf; exact hi.data.fltg u c hf

theorem not_X_head {s : State} (hc : GCtl s) (c : Nat) (h : s.base.newHead ≤ c) : ¬ X s c := by
  intro hx; rw [X_iff] at hx
  have := (hc.rng hx.1).2
  omega

theorem sinv_micro {cfg : Cfg} {s s' : State} {t : Nat} (hi : SInv s) (h : micro cfg s.base t = some s'.base)
    (hg : s'.gc = s.gc) (hfl : ∀ c, flushTarget (s'.base.thr t).pc = some c → ¬ X s c) : SInv s' := by
  have hX : ∀ c, X s' c ↔ X s c := X_congr (by rw [hg]) (by rw [hg])
  refine ⟨micro_lock cfg _ _ t hi.lock h, ?_, ctl_client hi.ctl hg (micro_head h), ?_, ?_,
    micro_dinv hi.lock hi.hot hi.ctl hi.data h hg hfl⟩
  · exact hotlay_mono (micro_hotlay cfg _ _ t hi.lock hi.hot (hi.data.fltg t) h) (fun c hx => (hX c).2 hx)
  · refine chk_client hi.ctl hi.chk hg ?_
    intro c hx
    refine micro_other_chunks h c ?_ ?_
    · intro e; exact not_X_head hi.ctl c (by omega) hx
    · intro e; exact hi.data.fltg t c e hx
  · refine gtree_client hi.ctl hi.tr hg ?_
    rcases micro_tree h with he | ⟨q, ver, pos, hpc, he⟩
    · exact Or.inl he
    · right
      refine ⟨q.key, ⟨ver, pos⟩, ?_, he⟩
      have := hi.data.wpos t
      rw [hpc] at this
      simp only [WPosOK] at this
      exact not_X_head hi.ctl _ (by show s.base.newHead ≤ pos.chunk; omega)

theorem liftBase_some {s s' : State} {ob : Option ConcFine.State} (h : liftBase s ob = some s') :
    ∃ b', ob = some b' ∧ s' = { s with base := b' } := by
  unfold liftBase at h
  cases ob with
  | none => simp at h
  | some b' => simp only [Option.map_some, Option.some.injEq] at h; exact ⟨b', rfl, h.symm⟩

theorem sinv_lift {cfg : GCfg} {s s' : State} {t : Nat} (hi : SInv s) (hn : ∀ c f l, (s.base.thr t).pc ≠ .fDs1 c f l)
    (h : liftBase s (micro cfg.fine s.base t) = some s') : SInv s' := by
  obtain ⟨b', h1, rfl⟩ := liftBase_some h
  exact sinv_micro hi h1 rfl (fun c hf => hi.data.fltg t c (micro_target h1 hn c hf))

theorem sinv_cmicro {cfg : GCfg} {s s' : State} {t : Nat} (hi : SInv s) (hz : noHaz s') (h : cmicro cfg s t = some s') :
    SInv s' := by
  unfold cmicro at h
  cases hpc : (s.base.thr t).pc with
  | rBuf k it =>
    simp only [hpc] at h
    have hn : ∀ c f l, (s.base.thr t).pc ≠ .fDs1 c f l := by intro c f l; rw [hpc]; simp
    have hrf : SInv (readFail s t) := sinv_readFail hi (Or.inl ⟨k, it, hpc⟩)
    split at h
    · split at h
      · exact sinv_lift hi hn h
      · obtain rfl := Option.some.inj h; exact hrf
    · obtain rfl := Option.some.inj h; exact hrf
    · exact sinv_lift hi hn h
  | rFile k it =>
    simp only [hpc] at h
    have hn : ∀ c f l, (s.base.thr t).pc ≠ .fDs1 c f l := by intro c f l; rw [hpc]; simp
    have hrf : SInv (readFail s t) := sinv_readFail hi (Or.inr ⟨k, it, hpc⟩)
    split at h
    · split at h
      · exact sinv_lift hi hn h
      · obtain rfl := Option.some.inj h; exact hrf
    · obtain rfl := Option.some.inj h; exact hrf
  | fDs1 c f l =>
    simp only [hpc] at h
    split at h
    · rename_i b hb
      obtain rfl := Option.some.inj h
      refine sinv_micro hi hb rfl ?_
      intro c' hf
      have h1 : (s.hazCold || match flushTarget (b.thr t).pc with | some c => cold s c | none => false) = false := hz.1
      rw [hf] at h1
      simp only [Bool.or_eq_false_iff] at h1
      intro hx
      rw [hx] at h1; exact absurd h1.2 (by simp)
    · contradiction
  | _ =>
    simp only [hpc] at h
    exact sinv_lift hi (by intro c f l; rw [hpc]; simp) h

theorem sinv_gmicro {cfg : GCfg} {s s' : State} (hb : cfg.blind = false) (hi : SInv s) (hz : noHaz s')
    (h : gmicro cfg s = some s') : SInv s' := by
  obtain ⟨t1, _, _, _, t5, t6, t7, _⟩ := gmicro_thr h
  refine ⟨?_, gmicro_hotlay hi.ctl hi.data hi.hot h, gmicro_ctl hi.ctl hz h, gmicro_chk hi.ctl hi.chk hz h,
    gmicro_tree hi.ctl hi.chk hi.tr hi.data hz h, gmicro_dinv hb hi.ctl hi.chk hi.tr hi.data hz h⟩
  obtain ⟨hw, hd, hf⟩ := hi.lock
  exact ⟨by rw [t6, t1]; exact hw, by rw [t7, t1]; exact hd, by rw [t5, t1]; exact hf⟩

theorem sinv_tick {s : State} (hi : SInv s) : SInv s.tick :=
  ⟨tick_lock _ hi.lock, ⟨hi.hot.ok, hi.hot.above, hi.hot.fl, hi.hot.slot⟩, ⟨hi.ctl.idle, hi.ctl.busy, hi.ctl.rng, hi.ctl.norew,
    hi.ctl.dst, hi.ctl.src, hi.ctl.srcp, hi.ctl.notail⟩,
   ⟨hi.chk.cold, hi.chk.whf, hi.chk.clr, hi.chk.dead, hi.chk.wop, hi.chk.off, hi.chk.remIn, hi.chk.mv⟩,
   ⟨hi.tr.g2, hi.tr.nf⟩,
   ⟨hi.data.recs, hi.data.tree, fun u => writerOK_mono rfl (grows_refl _) (hi.data.wr u), hi.data.wpos, hi.data.fltg⟩⟩

theorem sinv_cancel {s : State} (hi : SInv s) : SInv { s with gc := { s.gc with cancel := true } } :=
  ⟨hi.lock, ⟨hi.hot.ok, hi.hot.above, hi.hot.fl, hi.hot.slot⟩, ⟨hi.ctl.idle, hi.ctl.busy, hi.ctl.rng, hi.ctl.norew,
    hi.ctl.dst, hi.ctl.src, hi.ctl.srcp, hi.ctl.notail⟩,
   ⟨hi.chk.cold, hi.chk.whf, hi.chk.clr, hi.chk.dead, hi.chk.wop, hi.chk.off, hi.chk.remIn, hi.chk.mv⟩,
   ⟨hi.tr.g2, hi.tr.nf⟩,
   ⟨hi.data.recs, hi.data.tree, hi.data.wr, hi.data.wpos, hi.data.fltg⟩⟩

end ConcGC
