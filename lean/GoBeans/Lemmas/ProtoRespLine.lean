/-
  Reply round trip (C11), part 3: the one-line replies (status words with or without a message, numbers) and the
  `stats` listing; the one reply `readResp` does not accept.
-/
import GoBeans.Lemmas.ProtoRespValue

namespace Proto

/-- a status line as `Response.Write` prints it (default branch) -/
def lineWire (status msg : Bytes) : Bytes := status ++ (if msg = [] then [] else sp ++ msg) ++ crlf

theorem joinSp_ne_nil (t : Bytes) (ts : List Bytes) (h : t ≠ []) : joinSp (t :: ts) ≠ [] := by
  cases ts with
  | nil => simpa [joinSp] using h
  | cons t2 ts2 => simp [joinSp, h]

theorem lineWire_toks (status : Bytes) (toks : List Bytes) (ht : ∀ t ∈ toks, Tok t) :
    lineWire status (joinSp toks) = joinSp (status :: toks) ++ crlf := by
  cases toks with
  | nil => simp [lineWire, joinSp]
  | cons t ts =>
    have := joinSp_ne_nil t ts (ht t (by simp)).1
    simp [lineWire, this, joinSp]

theorem word_tok (w : Bytes) (h : w ∈ endStatuses ++ msgStatuses) : Tok w := by
  simp only [endStatuses, msgStatuses, List.cons_append, List.nil_append, List.mem_cons, List.mem_nil_iff, or_false] at h
  rcases h with rfl | rfl | rfl | rfl | rfl | rfl | rfl | rfl | rfl | rfl <;> exact ⟨by decide, by decide, by decide⟩

/-- END / STORED / NOT_STORED / DELETED / NOT_FOUND / OK -/
theorem respBody_endStatus (cfg : Cfg) (fuel : Nat) (status : Bytes) (args : List Bytes) (rest : Bytes) (acc : List PItem)
    (hs : status ∈ endStatuses) :
    respBody cfg fuel (status :: args) rest acc = some ({ status := status, items := acc }, rest) := by
  have hv : (status == ascii "VALUE") = false := by
    simp only [endStatuses, List.mem_cons, List.mem_nil_iff, or_false] at hs
    rcases hs with rfl | rfl | rfl | rfl | rfl | rfl <;> decide
  have ht : (status == ascii "STAT") = false := by
    simp only [endStatuses, List.mem_cons, List.mem_nil_iff, or_false] at hs
    rcases hs with rfl | rfl | rfl | rfl | rfl | rfl <;> decide
  simp [respBody, hv, ht, hs]

/-- ERROR / SERVER_ERROR / CLIENT_ERROR / VERSION -/
theorem respBody_msgStatus (cfg : Cfg) (fuel : Nat) (status : Bytes) (args : List Bytes) (rest : Bytes) (acc : List PItem)
    (hs : status ∈ msgStatuses) :
    respBody cfg fuel (status :: args) rest acc = some ({ status := status, msg := joinSp args, items := acc }, rest) := by
  have hall : (status == ascii "VALUE") = false ∧ (status == ascii "STAT") = false ∧ status ∉ endStatuses := by
    simp only [msgStatuses, List.mem_cons, List.mem_nil_iff, or_false] at hs
    rcases hs with rfl | rfl | rfl | rfl <;> exact ⟨by decide, by decide, by decide⟩
  simp [respBody, hall.1, hall.2.1, hall.2.2, hs]

theorem readResp_line_end (cfg : Cfg) (fuel : Nat) (status rest : Bytes) (acc : List PItem) (hs : status ∈ endStatuses) :
    readResp cfg (fuel + 1) (lineWire status [] ++ rest) acc = some ({ status := status, items := acc }, rest) := by
  have hw := lineWire_toks status [] (by simp)
  simp only [joinSp] at hw
  have hj : joinSp [status] = status := rfl
  rw [hw, ← hj, readResp_toks cfg fuel [status] rest acc
    (by intro t ht; simp at ht; subst ht; exact word_tok _ (by simp [hs])) (by simp)]
  exact respBody_endStatus cfg fuel status [] rest acc hs

theorem readResp_line_msg (cfg : Cfg) (fuel : Nat) (status : Bytes) (toks : List Bytes) (rest : Bytes) (acc : List PItem)
    (hs : status ∈ msgStatuses) (ht : ∀ t ∈ toks, Tok t) :
    readResp cfg (fuel + 1) (lineWire status (joinSp toks) ++ rest) acc
      = some ({ status := status, msg := joinSp toks, items := acc }, rest) := by
  rw [lineWire_toks status toks ht, readResp_toks cfg fuel (status :: toks) rest acc
    (by intro t h; rcases List.mem_cons.mp h with rfl | h; exact word_tok _ (by simp [hs]); exact ht t h) (by simp)]
  exact respBody_msgStatus cfg fuel status toks rest acc hs

/-! ### numbers (the reply of `incr`) -/

def alphaHead (w : Bytes) : Bool := match w with
  | c :: _ => decide (65 ≤ c.toNat)
  | [] => true

theorem itoa_head (v : Int) : ∃ c tl, itoa v = c :: tl ∧ c.toNat ≤ 57 := by
  obtain ⟨c, tl, hc, _, h2⟩ := natDigitsAux_head 40 v.natAbs [] (by omega)
  show ∃ c tl, Spec.itoa v = c :: tl ∧ c.toNat ≤ 57
  unfold Spec.itoa
  split
  · exact ⟨45, _, rfl, by decide⟩
  · exact ⟨c, tl, hc, h2⟩

theorem itoa_ne_word (v : Int) (w : Bytes) (hw : alphaHead w = true) : itoa v ≠ w := by
  obtain ⟨c, tl, hc, h⟩ := itoa_head v
  intro e
  rw [hc] at e
  subst e
  simp [alphaHead] at hw
  omega

theorem respBody_num (cfg : Cfg) (fuel : Nat) (v : Int) (hv : I64 v) (rest : Bytes) (acc : List PItem) :
    respBody cfg fuel [itoa v] rest acc = some ({ status := ascii "INCR", msg := itoa v, items := acc }, rest) := by
  have h1 : (itoa v == ascii "VALUE") = false := by simpa using itoa_ne_word v _ (by decide)
  have h2 : (itoa v == ascii "STAT") = false := by simpa using itoa_ne_word v _ (by decide)
  have h3 : itoa v ∉ endStatuses := by
    intro h
    have : ∀ w ∈ endStatuses, alphaHead w = true := by decide
    exact itoa_ne_word v _ (this _ h) rfl
  have h4 : itoa v ∉ msgStatuses := by
    intro h
    have : ∀ w ∈ msgStatuses, alphaHead w = true := by decide
    exact itoa_ne_word v _ (this _ h) rfl
  simp [respBody, h1, h2, h3, h4, atoi_itoa v hv]

def numWire (msg : Bytes) : Bytes := msg ++ crlf

theorem readResp_num (cfg : Cfg) (fuel : Nat) (v : Int) (hv : I64 v) (rest : Bytes) (acc : List PItem) :
    readResp cfg (fuel + 1) (numWire (itoa v) ++ rest) acc
      = some ({ status := ascii "INCR", msg := itoa v, items := acc }, rest) := by
  have hj : numWire (itoa v) = joinSp [itoa v] ++ crlf := rfl
  rw [hj, readResp_toks cfg fuel [itoa v] rest acc (by intro t ht; simp at ht; subst ht; exact itoa_tok v) (by simp)]
  exact respBody_num cfg fuel v hv rest acc

/-! ### `stats` -/

def statItem (nv : Bytes × Bytes) : PItem := { key := nv.1, flag := 0, body := nv.2 }

theorem statLineB_toks (n v : Bytes) : statLineB n v = joinSp [ascii "STAT", n, v] ++ crlf := by
  have : ascii "STAT " = ascii "STAT" ++ sp := by decide
  simp [statLineB, joinSp, this]

theorem respBody_stat (cfg : Cfg) (fuel : Nat) (n v rest : Bytes) (acc : List PItem) :
    respBody cfg fuel [ascii "STAT", n, v] rest acc = readResp cfg fuel rest (putItem acc (statItem (n, v))) := by
  have h1 : (ascii "STAT" == ascii "VALUE") = false := by decide
  simp [respBody, h1, statItem]

/-- the STAT loop: every line's name and value come back, in order; the reply ends behind "END\r\n" -/
theorem readResp_stats (cfg : Cfg) (nvs : List (Bytes × Bytes)) (hnv : ∀ nv ∈ nvs, Tok nv.1 ∧ Tok nv.2)
    (rest : Bytes) (fuel : Nat) (hf : nvs.length + 1 ≤ fuel) (acc : List PItem) :
    readResp cfg fuel (statLines nvs ++ endLine ++ rest) acc
      = some ({ status := ascii "END", items := (nvs.map statItem).foldl putItem acc }, rest) := by
  induction nvs generalizing fuel acc with
  | nil =>
    obtain ⟨f, rfl⟩ : ∃ f, fuel = f + 1 := ⟨fuel - 1, by simp at hf; omega⟩
    simpa [statLines] using readResp_end cfg f rest acc
  | cons nv nvs ih =>
    obtain ⟨f, rfl⟩ : ∃ f, fuel = f + 1 := ⟨fuel - 1, by simp at hf; omega⟩
    have hp := hnv nv (by simp)
    have hw : statLines (nv :: nvs) ++ endLine ++ rest
        = joinSp [ascii "STAT", nv.1, nv.2] ++ crlf ++ (statLines nvs ++ endLine ++ rest) := by
      simp [statLines, statLineB_toks, List.append_assoc]
    rw [hw, readResp_toks cfg f _ _ acc (by
        intro t ht; simp at ht
        rcases ht with rfl | rfl | rfl
        · exact ⟨by decide, by decide, by decide⟩
        · exact hp.1
        · exact hp.2) (by simp),
      respBody_stat, ih (fun q hq => hnv q (by simp [hq])) f (by simp at hf ⊢; omega)]
    simp

/-! ### what `readResp` (and the real `Response.Read`) refuses -/

/-- the reply of `optimize_stat` ("none\r\n") is not a reply `Response.Read` knows: whatever follows, whatever the fuel -/
theorem readResp_none_refused (cfg : Cfg) (fuel : Nat) (rest : Bytes) (acc : List PItem) :
    readResp cfg fuel (lineWire (ascii "none") [] ++ rest) acc = none := by
  cases fuel with
  | zero => rfl
  | succ f =>
    have hw : lineWire (ascii "none") [] = joinSp [ascii "none"] ++ crlf := by simp [lineWire, joinSp]
    rw [hw, readResp_toks cfg f [ascii "none"] rest acc
      (by intro t ht; simp at ht; subst ht; exact ⟨by decide, by decide, by decide⟩) (by simp)]
    have h1 : (ascii "none" == ascii "VALUE") = false := by decide
    have h2 : (ascii "none" == ascii "STAT") = false := by decide
    have h3 : ascii "none" ∉ endStatuses := by decide
    have h4 : ascii "none" ∉ msgStatuses := by decide
    have h5 : atoi (ascii "none") = none := by decide +kernel
    simp [respBody, h1, h2, h3, h4, h5]

/-- a STAT line whose value is empty (the full `stats` listing ends with "STAT version <config.Version>": an empty or
    spaced version string) makes the whole reply unreadable -/
theorem readResp_stat_empty_value_refused (cfg : Cfg) (fuel : Nat) (rest : Bytes) (acc : List PItem) :
    readResp cfg fuel (statLines [(ascii "version", [])] ++ endLine ++ rest) acc = none := by
  cases fuel with
  | zero => rfl
  | succ f =>
    have hl : (10 : UInt8) ∉ ascii "STAT version \r" := by decide
    have hw : statLines [(ascii "version", [])] ++ endLine ++ rest
        = ascii "STAT version \r" ++ 10 :: (endLine ++ rest) := by
      have : statLines [(ascii "version", [])] = ascii "STAT version \r" ++ [10] := by decide
      rw [this]; simp
    rw [hw, readResp_succ, readLine_append _ _ hl]
    have hf : fields ((ascii "STAT version \r" ++ [10]).take ((ascii "STAT version \r" ++ [10]).length - 2))
        = [ascii "STAT", ascii "version"] := by decide
    have hlen : ¬ (ascii "STAT version \r" ++ [10]).length < 2 := by decide
    simp only [if_neg hlen, hf]
    have h1 : (ascii "STAT" == ascii "VALUE") = false := by decide
    simp [respBody, h1]

end Proto
