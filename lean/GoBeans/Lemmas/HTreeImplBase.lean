/-
  Lazy Merkle tree (C08), part 1 of the proofs about Model/HTreeImpl.lean: the ARRAY-level invariant.
  `TreeInv`: a node flagged `isHashUpdated` holds exactly the fold (`subSum`) of the leaf-node summaries below it,
  and all its children are flagged too.  Preserved by path invalidation + any change of the touched leaf
  (`treeInv_touch`) and by the lazy recomputation (`updateNodes_spec`), which moreover returns a flagged, exact node.
  Core-only.
-/
import GoBeans.Model.HTreeImpl
import GoBeans.Lemmas.Tree
set_option linter.unusedSimpArgs false
set_option linter.unusedVariables false
namespace HTreeImplLemmas
open Tree TreeLemmas HTreeImpl

/-! ### lists -/
theorem getD_set {α : Type} (l : List α) (i j : Nat) (a d : α) :
    (l.set i a).getD j d = if i = j ∧ i < l.length then a else l.getD j d := by
  simp only [List.getD_eq_getElem?_getD, List.getElem?_set]
  by_cases h : i = j
  · subst h
    by_cases h2 : i < l.length
    · simp [h2]
    · simp [h2]
  · simp [h]

theorem getD_oor {α : Type} (l : List α) (i : Nat) (d : α) (h : ¬ i < l.length) : l.getD i d = d := by
  simp only [List.getD_eq_getElem?_getD]
  rw [List.getElem?_eq_none (by omega)]
  rfl

/-! ### node access -/
theorem innerNode_setInner (t : HTree) (level offset : Nat) (nd : Node) (l o : Nat) :
    (t.setInner level offset nd).innerNode l o
      = if l = level ∧ o = offset ∧ level < t.inner.length ∧ offset < (t.inner.getD level []).length then nd
        else t.innerNode l o := by
  unfold HTree.setInner HTree.innerNode
  simp only [getD_set]
  by_cases h1 : level = l ∧ level < t.inner.length
  · obtain ⟨rfl, h1⟩ := h1
    simp only [true_and, h1, if_true, getD_set]
    by_cases h2 : offset = o ∧ offset < (t.inner.getD level []).length
    · obtain ⟨rfl, h2⟩ := h2
      simp [h2]
    · rw [if_neg h2, if_neg (by intro h; exact h2 ⟨h.1.symm, h.2⟩)]
  · rw [if_neg h1, if_neg (by intro h; exact h1 ⟨h.1.symm, h.2.2.1⟩)]

theorem innerNode_clearFlag (t : HTree) (level offset l o : Nat) :
    (t.clearFlag level offset).innerNode l o
      = if l = level ∧ o = offset then { t.innerNode l o with upd := false } else t.innerNode l o := by
  unfold HTree.clearFlag
  rw [innerNode_setInner]
  by_cases h : l = level ∧ o = offset
  · obtain ⟨rfl, rfl⟩ := h
    simp only [true_and, and_self, if_true]
    by_cases h2 : l < t.inner.length ∧ o < (t.inner.getD l []).length
    · rw [if_pos h2]
    · rw [if_neg h2]
      have : t.innerNode l o = default := by
        unfold HTree.innerNode
        by_cases h3 : l < t.inner.length
        · exact getD_oor _ _ _ (by intro h4; exact h2 ⟨h3, h4⟩)
        · rw [getD_oor _ _ _ h3]; rfl
      rw [this]; rfl
  · rw [if_neg h, if_neg (by intro h'; exact h ⟨h'.1, h'.2.1⟩)]

theorem leaf_setLeaf (t : HTree) (off : Nat) (lf : Leaf) (j : Nat) :
    (t.setLeaf off lf).leaf j = if off = j ∧ off < t.leaves.length then lf else t.leaf j := by
  unfold HTree.setLeaf HTree.leaf
  exact getD_set _ _ _ _ _

@[simp] theorem height_setInner (t : HTree) (a b : Nat) (nd : Node) : (t.setInner a b nd).height = t.height := by
  simp [HTree.setInner, HTree.height]
@[simp] theorem height_clearFlag (t : HTree) (a b : Nat) : (t.clearFlag a b).height = t.height := by
  simp [HTree.clearFlag]
@[simp] theorem height_setLeaf (t : HTree) (a : Nat) (lf : Leaf) : (t.setLeaf a lf).height = t.height := rfl
@[simp] theorem leaves_setInner (t : HTree) (a b : Nat) (nd : Node) : (t.setInner a b nd).leaves = t.leaves := rfl
@[simp] theorem leaves_clearFlag (t : HTree) (a b : Nat) : (t.clearFlag a b).leaves = t.leaves := rfl
@[simp] theorem depth_setInner (t : HTree) (a b : Nat) (nd : Node) : (t.setInner a b nd).depth = t.depth := rfl
@[simp] theorem depth_clearFlag (t : HTree) (a b : Nat) : (t.clearFlag a b).depth = t.depth := rfl
@[simp] theorem bid_setInner (t : HTree) (a b : Nat) (nd : Node) : (t.setInner a b nd).bucketID = t.bucketID := rfl
@[simp] theorem bid_clearFlag (t : HTree) (a b : Nat) : (t.clearFlag a b).bucketID = t.bucketID := rfl
@[simp] theorem innerNode_setLeaf (t : HTree) (a : Nat) (lf : Leaf) (l o : Nat) : (t.setLeaf a lf).innerNode l o = t.innerNode l o := rfl
@[simp] theorem leaf_setInner (t : HTree) (a b : Nat) (nd : Node) (j : Nat) : (t.setInner a b nd).leaf j = t.leaf j := rfl

/-- the shape `newHTree` builds: row i of the inner levels has 16^i nodes, there are 16^(height-1) leaves,
    depth + height ≤ MAX_DEPTH -/
structure Shape (t : HTree) : Prop where
  rows : ∀ l, l < t.inner.length → (t.inner.getD l []).length = 16 ^ l
  leaves : t.leaves.length = 16 ^ t.inner.length
  bound : t.depth + t.height ≤ 8

theorem shape_setInner (t : HTree) (a b : Nat) (nd : Node) (h : Shape t) : Shape (t.setInner a b nd) := by
  refine ⟨?_, ?_, ?_⟩
  · intro l hl
    have hl' : l < t.inner.length := by simpa [HTree.setInner] using hl
    show ((t.inner.set a ((t.inner.getD a []).set b nd)).getD l []).length = 16 ^ l
    rw [getD_set]
    by_cases hc : a = l ∧ a < t.inner.length
    · rw [if_pos hc, List.length_set, hc.1]; exact h.rows l hl'
    · rw [if_neg hc]; exact h.rows l hl'
  · show t.leaves.length = 16 ^ (t.inner.set a _).length
    rw [List.length_set]; exact h.leaves
  · simpa using h.bound

theorem shape_setLeaf (t : HTree) (a : Nat) (lf : Leaf) (h : Shape t) : Shape (t.setLeaf a lf) := by
  refine ⟨h.rows, ?_, h.bound⟩
  show (t.leaves.set a lf).length = _
  rw [List.length_set]; exact h.leaves

theorem innerNode_oor (t : HTree) (l o : Nat) (h : ¬ l < t.inner.length) : t.innerNode l o = default := by
  unfold HTree.innerNode
  rw [getD_oor _ _ _ h]; rfl

/-- node access after an in-range assignment to an inner node -/
theorem node_setInner (t : HTree) (level offset : Nat) (nd : Node) (l o : Nat)
    (h1 : level < t.inner.length) (h2 : offset < (t.inner.getD level []).length) :
    (t.setInner level offset nd).node l o = if l = level ∧ o = offset then nd else t.node l o := by
  unfold HTree.node
  rw [height_setInner, innerNode_setInner]
  by_cases hl : l + 1 = t.height
  · have : l ≠ level := by unfold HTree.height at hl; omega
    simp [hl, this]
  · simp only [hl, if_false]
    by_cases hc : l = level ∧ o = offset
    · rw [if_pos hc, if_pos ⟨hc.1, hc.2, h1, h2⟩]
    · rw [if_neg hc, if_neg (by intro h; exact hc ⟨h.1, h.2.1⟩)]

/-! ### the fold of leaf summaries (`subSum`) -/

/-- an inner summary from the 16 child summaries (the body of `Tree.nodeSum`) -/
def combine (ch : List (Nat × Nat)) : Nat × Nat :=
  let cnt := ch.foldl (fun a x => a + x.1) 0
  let h := if cnt > Gen.ThresholdBigHash
    then ch.foldl (fun h x => (h * 97 + x.2) % M16) 0
    else ch.foldl (fun h x => (h + x.2) % M16) 0
  (cnt, h)

theorem nodeSum_succ (c : Content) (n p below : Nat) :
    nodeSum c n p (below + 1) = combine ((List.range 16).map (fun i => nodeSum c (n + 1) (p * 16 + i) below)) := rfl

/-- summary of the node `below` levels above the leaves at offset `o`, folded from the leaf summaries `lv` -/
def subSum (lv : Nat → Nat × Nat) : Nat → Nat → Nat × Nat
  | 0, o => lv o
  | below + 1, o => combine ((List.range 16).map (fun i => subSum lv below (o * 16 + i)))

/-- the (count, hash) of the leaf nodes -/
def lv (t : HTree) : Nat → Nat × Nat := fun j => ((t.leaf j).count, (t.leaf j).hash)

theorem div_pow_succ (j b : Nat) : j / 16 ^ (b + 1) = (j / 16 ^ b) / 16 := by
  rw [Nat.pow_succ, Nat.div_div_eq_div_mul]

/-- `subSum` at (below, o) reads only the leaves j with j / 16^below = o -/
theorem subSum_congr (f g : Nat → Nat × Nat) : ∀ (below o : Nat), (∀ j, j / 16 ^ below = o → f j = g j) →
    subSum f below o = subSum g below o := by
  intro below
  induction below with
  | zero => intro o h; exact h o (by simp)
  | succ b ih =>
    intro o h
    unfold subSum
    congr 1
    apply List.map_congr_left
    intro i hi
    have hi' : i < 16 := List.mem_range.mp hi
    apply ih
    intro j hj
    apply h
    rw [div_pow_succ, hj]; omega

/-- the two loops of `updateNodes` compute `combine` -/
theorem foldHash_combine (cs : List (Nat × Nat)) :
    (0 + (cs.map (·.1)).sum, foldHash (0 + (cs.map (·.1)).sum) (cs.map (·.2))) = combine cs := by
  unfold combine foldHash
  rw [foldl_add_sum]
  simp only []
  congr 1
  rw [List.foldl_map]
  by_cases hc : 0 + (cs.map (·.1)).sum > Gen.ThresholdBigHash
  · simp only [hc, if_true]
    congr 1
    funext h x
    rw [Nat.mod_add_mod]
  · simp only [hc, if_false]

/-! ### the invariant of the lazy flags -/

structure TreeInv (t : HTree) : Prop where
  /-- a flagged node holds the fold of the leaf summaries below it -/
  exact : ∀ l o, (t.node l o).upd = true →
    ((t.node l o).count, (t.node l o).hash) = subSum (lv t) (t.height - 1 - l) o
  /-- below a flagged node every node is flagged -/
  down : ∀ l o i, i < 16 → (t.node l o).upd = true → l + 1 < t.height → (t.node (l + 1) (o * 16 + i)).upd = true

theorem lv_congr (s t : HTree) (h : s.leaves = t.leaves) : lv s = lv t := by
  funext j; simp [lv, HTree.leaf, h]

/-! ### `getLeafAndInvalidNodes` clears exactly the flags of the ancestors of the leaf -/

theorem pathDigit_lt (kh i : Nat) : pathDigit kh i < 16 := Nat.mod_lt _ (by decide)

theorem shift_div (a d j : Nat) (hd : d < 16) : (a * 16 + d) / 16 ^ (j + 1) = a / 16 ^ j := by
  rw [Nat.pow_succ, Nat.mul_comm (16 ^ j) 16, ← Nat.div_div_eq_div_mul]
  congr 1; omega

/-- a node with its flag cleared -/
def clr (nd : Node) : Node := { nd with upd := false }

theorem innerNode_clearFlag_hit (t : HTree) (level offset : Nat) :
    (t.clearFlag level offset).innerNode level offset = clr (t.innerNode level offset) := by
  rw [innerNode_clearFlag, if_pos ⟨rfl, rfl⟩]; rfl

theorem innerNode_clearFlag_miss (t : HTree) (level offset l o : Nat) (h : ¬ (l = level ∧ o = offset)) :
    (t.clearFlag level offset).innerNode l o = t.innerNode l o := by
  rw [innerNode_clearFlag, if_neg h]

structure InvalRes (t : HTree) (r : HTree × Nat) (k : Nat) : Prop where
  leaves : r.1.leaves = t.leaves
  depth : r.1.depth = t.depth
  bid : r.1.bucketID = t.bucketID
  len : r.1.inner.length = t.inner.length
  shape : Shape t → Shape r.1
  hit : ∀ l o, l ≤ k → o = r.2 / 16 ^ (k - l) → r.1.innerNode l o = clr (t.innerNode l o)
  miss : ∀ l o, ¬ (l ≤ k ∧ o = r.2 / 16 ^ (k - l)) → r.1.innerNode l o = t.innerNode l o

theorem invalLoop_off (kh : Nat) (t : HTree) (k : Nat) : (invalLoop kh t k).2 = offsetAt kh t.depth k := by
  induction k with
  | zero => rfl
  | succ k ih => simp only [invalLoop, offsetAt, ih]

theorem invalLoop_spec (kh : Nat) (t : HTree) (k : Nat) : InvalRes t (invalLoop kh t k) k := by
  induction k with
  | zero =>
    refine ⟨rfl, rfl, rfl, ?_, ?_, ?_, ?_⟩
    · simp [invalLoop, HTree.clearFlag, HTree.setInner]
    · intro h; exact shape_setInner _ _ _ _ h
    · intro l o hl ho
      have : l = 0 := by omega
      subst this
      have : o = 0 := by simpa [invalLoop] using ho
      subst this
      exact innerNode_clearFlag_hit t 0 0
    · intro l o h
      apply innerNode_clearFlag_miss
      intro h'
      apply h
      obtain ⟨rfl, rfl⟩ := h'
      exact ⟨Nat.le_refl _, by simp [invalLoop]⟩
  | succ k ih =>
    have hd := pathDigit_lt kh (t.depth + k)
    have hr : invalLoop kh t (k + 1) = ((invalLoop kh t k).1.clearFlag (k + 1) ((invalLoop kh t k).2 * 16 + pathDigit kh (t.depth + k)),
        (invalLoop kh t k).2 * 16 + pathDigit kh (t.depth + k)) := rfl
    rw [hr]
    refine ⟨?_, ?_, ?_, ?_, ?_, ?_, ?_⟩
    · exact ih.leaves
    · exact ih.depth
    · exact ih.bid
    · simp only [HTree.clearFlag, HTree.setInner, List.length_set]; exact ih.len
    · intro h; exact shape_setInner _ _ _ _ (ih.shape h)
    · intro l o hl ho
      simp only [] at ho ⊢
      by_cases h1 : l = k + 1
      · subst h1
        have e0 : k + 1 - (k + 1) = 0 := by omega
        rw [e0, Nat.pow_zero, Nat.div_one] at ho
        subst ho
        rw [innerNode_clearFlag_hit, ih.miss _ _ (by omega)]
      · have e1 : k + 1 - l = (k - l) + 1 := by omega
        rw [e1, shift_div _ _ _ hd] at ho
        rw [innerNode_clearFlag_miss _ _ _ _ _ (by intro h; exact h1 h.1)]
        exact ih.hit l o (by omega) ho
    · intro l o h
      simp only [] at h ⊢
      by_cases h1 : l = k + 1
      · subst h1
        have e0 : k + 1 - (k + 1) = 0 := by omega
        rw [e0, Nat.pow_zero, Nat.div_one] at h
        rw [innerNode_clearFlag_miss _ _ _ _ _ (by intro h'; exact h ⟨Nat.le_refl _, h'.2⟩)]
        exact ih.miss _ _ (by omega)
      · rw [innerNode_clearFlag_miss _ _ _ _ _ (by intro h'; exact h1 h'.1)]
        apply ih.miss
        intro h'
        apply h
        have e1 : k + 1 - l = (k - l) + 1 := by omega
        rw [e1, shift_div _ _ _ hd]
        exact ⟨by omega, h'.2⟩

/-- the nodes whose flag `getLeafAndInvalidNodes` clears: the ancestors (levels 0..height-2) of leaf `off` -/
def Cleared (h off l o : Nat) : Prop := l + 2 ≤ h ∧ o = off / 16 ^ (h - 1 - l)

structure GLRes (t t1 : HTree) (off : Nat) : Prop where
  leaves : t1.leaves = t.leaves
  depth : t1.depth = t.depth
  bid : t1.bucketID = t.bucketID
  len : t1.inner.length = t.inner.length
  shape : Shape t → Shape t1
  hit : ∀ l o, Cleared t.height off l o → t1.innerNode l o = clr (t.innerNode l o)
  miss : ∀ l o, ¬ Cleared t.height off l o → t1.innerNode l o = t.innerNode l o

theorem getLeafAndInvalidNodes_spec (t : HTree) (kh : Nat) (hh : 2 ≤ t.height) :
    ∃ t1, getLeafAndInvalidNodes t kh = some (t1, leafOffset t kh) ∧ GLRes t t1 (leafOffset t kh) := by
  have hr := invalLoop_spec kh t (t.height - 2)
  have ho := invalLoop_off kh t (t.height - 2)
  have hoff : leafOffset t kh = (invalLoop kh t (t.height - 2)).2 * 16 + pathDigit kh (t.depth + (t.height - 2)) := by
    unfold leafOffset
    have : t.height - 1 = (t.height - 2) + 1 := by omega
    rw [this, offsetAt, ho]
  have hd := pathDigit_lt kh (t.depth + (t.height - 2))
  have key : ∀ l o, Cleared t.height (leafOffset t kh) l o ↔
      (l ≤ t.height - 2 ∧ o = (invalLoop kh t (t.height - 2)).2 / 16 ^ (t.height - 2 - l)) := by
    intro l o
    unfold Cleared
    constructor
    · intro h
      have e1 : t.height - 1 - l = (t.height - 2 - l) + 1 := by omega
      rw [e1, hoff, shift_div _ _ _ hd] at h
      exact ⟨by omega, h.2⟩
    · intro h
      have e1 : t.height - 1 - l = (t.height - 2 - l) + 1 := by omega
      rw [e1, hoff, shift_div _ _ _ hd]
      exact ⟨by omega, h.2⟩
  refine ⟨(invalLoop kh t (t.height - 2)).1, ?_, ?_⟩
  · unfold getLeafAndInvalidNodes
    rw [if_neg (by omega)]
    simp only [hoff]
  · refine ⟨hr.leaves, hr.depth, hr.bid, hr.len, hr.shape, ?_, ?_⟩
    · intro l o h
      have := (key l o).mp h
      exact hr.hit l o this.1 this.2
    · intro l o h
      exact hr.miss l o (fun h' => h ((key l o).mpr h'))

theorem node_inner (t : HTree) (l o : Nat) (h : l + 1 ≠ t.height) : t.node l o = t.innerNode l o := by
  unfold HTree.node; rw [if_neg h]

theorem node_leaf (t : HTree) (l o : Nat) (h : l + 1 = t.height) :
    t.node l o = { count := (t.leaf o).count, hash := (t.leaf o).hash, upd := true } := by
  unfold HTree.node; rw [if_pos h]

theorem node_oor (t : HTree) (l o : Nat) (h : t.height ≤ l) : t.node l o = default := by
  rw [node_inner _ _ _ (by omega)]
  exact innerNode_oor _ _ _ (by unfold HTree.height at h; omega)

/-- **invalidation is sufficient**: after the flags of all ancestors of leaf `off` were cleared, ANY change of
    leaf `off` (set, remove, nothing) leaves the invariant intact -/
theorem treeInv_touch (t t1 t2 : HTree) (off : Nat) (inv : TreeInv t) (g : GLRes t t1 off)
    (hin : t2.inner = t1.inner) (hleaf : ∀ j, j ≠ off → t2.leaf j = t1.leaf j) : TreeInv t2 := by
  have hh2 : t2.height = t.height := by unfold HTree.height; rw [hin, g.len]
  have hinner : ∀ l o, t2.innerNode l o = t1.innerNode l o := by intro l o; unfold HTree.innerNode; rw [hin]
  have hleaf1 : ∀ j, t1.leaf j = t.leaf j := by intro j; unfold HTree.leaf; rw [g.leaves]
  -- an inner node flagged in t2 is not cleared and was flagged, unchanged, in t
  have key : ∀ l o, l + 1 ≠ t.height → (t2.node l o).upd = true →
      ¬ Cleared t.height off l o ∧ t2.node l o = t.node l o ∧ l + 2 ≤ t.height := by
    intro l o hl hf
    rw [node_inner _ _ _ (by rw [hh2]; exact hl), hinner] at hf
    have hnc : ¬ Cleared t.height off l o := by
      intro hc; rw [g.hit l o hc] at hf; simp [clr] at hf
    rw [g.miss l o hnc] at hf
    refine ⟨hnc, ?_, ?_⟩
    · rw [node_inner _ _ _ (by rw [hh2]; exact hl), hinner, g.miss l o hnc, node_inner _ _ _ hl]
    · by_cases hge : t.height ≤ l
      · rw [innerNode_oor _ _ _ (by unfold HTree.height at hge; omega)] at hf
        exact absurd hf (by decide)
      · omega
  refine ⟨?_, ?_⟩
  · intro l o hf
    by_cases hl : l + 1 = t.height
    · rw [node_leaf _ _ _ (by rw [hh2]; exact hl)]
      have : t2.height - 1 - l = 0 := by omega
      rw [this]; rfl
    · obtain ⟨hnc, heq, hle⟩ := key l o hl hf
      rw [heq] at hf ⊢
      rw [inv.exact l o hf, hh2]
      apply subSum_congr
      intro j hj
      by_cases hjo : j = off
      · exfalso; apply hnc
        exact ⟨hle, by rw [← hjo, hj]⟩
      · simp only [lv, hleaf j hjo, hleaf1 j]
  · intro l o i hi hf hl1
    rw [hh2] at hl1
    obtain ⟨hnc, heq, hle⟩ := key l o (by omega) hf
    rw [heq] at hf
    have hchild := inv.down l o i hi hf hl1
    by_cases hl2 : l + 2 = t.height
    · rw [node_leaf _ _ _ (by rw [hh2]; omega)]
    · rw [node_inner _ _ _ (by rw [hh2]; omega), hinner]
      have hnc' : ¬ Cleared t.height off (l + 1) (o * 16 + i) := by
        intro hc
        apply hnc
        refine ⟨hle, ?_⟩
        have e : t.height - 1 - l = (t.height - 1 - (l + 1)) + 1 := by omega
        rw [e, div_pow_succ, ← hc.2]; omega
      rw [g.miss _ _ hnc', ← node_inner _ _ _ (by omega)]
      exact hchild

/-! ### the lazy recomputation `updateNodes` -/

/-- `s` differs from `t` only by inner nodes that were NOT flagged in `t` -/
structure Ext (t s : HTree) : Prop where
  leaves : s.leaves = t.leaves
  depth : s.depth = t.depth
  bid : s.bucketID = t.bucketID
  len : s.inner.length = t.inner.length
  mono : ∀ l o, (t.node l o).upd = true → s.node l o = t.node l o

theorem Ext.refl (t : HTree) : Ext t t := ⟨rfl, rfl, rfl, rfl, fun _ _ _ => rfl⟩

theorem Ext.trans {a b c : HTree} (h1 : Ext a b) (h2 : Ext b c) : Ext a c := by
  refine ⟨h2.leaves.trans h1.leaves, h2.depth.trans h1.depth, h2.bid.trans h1.bid, h2.len.trans h1.len, ?_⟩
  intro l o hf
  have e1 := h1.mono l o hf
  rw [h2.mono l o (by rw [e1]; exact hf), e1]

theorem Ext.height {a b : HTree} (h : Ext a b) : b.height = a.height := by unfold HTree.height; rw [h.len]

/-- nodes above level `k` are untouched -/
def Frame (k : Nat) (t s : HTree) : Prop := ∀ l o, l < k → s.node l o = t.node l o

structure UpdRes (t : HTree) (level offset : Nat) (r : HTree × Node) : Prop where
  shape : Shape r.1
  inv : TreeInv r.1
  ext : Ext t r.1
  frame : Frame level t r.1
  ret : r.2 = r.1.node level offset
  flagged : r.2.upd = true

/-- one round of the first loop of `updateNodes` -/
def updStep (fuel level offset : Nat) (acc : UpdAcc) (i : Nat) : UpdAcc :=
  { t := (updateNodes fuel acc.t (level + 1) (offset * 16 + i)).1,
    count := acc.count + (updateNodes fuel acc.t (level + 1) (offset * 16 + i)).2.count,
    hashs := acc.hashs ++ [(updateNodes fuel acc.t (level + 1) (offset * 16 + i)).2.hash] }

theorem updateNodes_succ (fuel : Nat) (t : HTree) (level offset : Nat) :
    updateNodes (fuel + 1) t level offset =
      if (t.node level offset).upd then (t, t.node level offset)
      else
        let acc := (List.range 16).foldl (updStep fuel level offset) ⟨t, 0, []⟩
        ((acc.t.setInner level offset { count := acc.count, hash := foldHash acc.count acc.hashs, upd := true }),
          { count := acc.count, hash := foldHash acc.count acc.hashs, upd := true }) := rfl

def UpdIH (fuel : Nat) : Prop := ∀ (t : HTree) (level offset : Nat), Shape t → TreeInv t →
  level + fuel + 1 = t.height → offset < 16 ^ level → UpdRes t level offset (updateNodes fuel t level offset)

theorem fold_spec (fuel level offset H : Nat) (IH : UpdIH fuel) (hH : level + 1 + fuel + 1 = H) (hoff : offset < 16 ^ level) :
    ∀ (is : List Nat) (acc : UpdAcc), (∀ i ∈ is, i < 16) → Shape acc.t → TreeInv acc.t → acc.t.height = H →
      Shape (is.foldl (updStep fuel level offset) acc).t ∧ TreeInv (is.foldl (updStep fuel level offset) acc).t ∧
      Ext acc.t (is.foldl (updStep fuel level offset) acc).t ∧
      Frame (level + 1) acc.t (is.foldl (updStep fuel level offset) acc).t ∧
      (is.foldl (updStep fuel level offset) acc).count
        = acc.count + ((is.map (fun i => subSum (lv acc.t) fuel (offset * 16 + i))).map (·.1)).sum ∧
      (is.foldl (updStep fuel level offset) acc).hashs
        = acc.hashs ++ (is.map (fun i => subSum (lv acc.t) fuel (offset * 16 + i))).map (·.2) ∧
      ∀ i ∈ is, ((is.foldl (updStep fuel level offset) acc).t.node (level + 1) (offset * 16 + i)).upd = true := by
  intro is
  induction is with
  | nil =>
    intro acc _ hs hi _
    exact ⟨hs, hi, Ext.refl _, fun _ _ _ => rfl, by simp, by simp, by simp⟩
  | cons i is ih =>
    intro acc hlt hs hi hh
    have hi16 : i < 16 := hlt i (by simp)
    have hoff' : offset * 16 + i < 16 ^ (level + 1) := by rw [Nat.pow_succ]; omega
    have r := IH acc.t (level + 1) (offset * 16 + i) hs hi (by omega) hoff'
    rw [List.foldl_cons]
    have hacc1 : (updStep fuel level offset acc i).t = (updateNodes fuel acc.t (level + 1) (offset * 16 + i)).1 := rfl
    have hh1 : (updStep fuel level offset acc i).t.height = H := by rw [hacc1, r.ext.height, hh]
    have hlv : lv (updStep fuel level offset acc i).t = lv acc.t := by rw [hacc1]; exact lv_congr _ _ r.ext.leaves
    obtain ⟨s1, s2, s3, s4, s5, s6, s7⟩ := ih (updStep fuel level offset acc i) (fun j hj => hlt j (by simp [hj]))
      (by rw [hacc1]; exact r.shape) (by rw [hacc1]; exact r.inv) hh1
    -- the value returned for child i is exact
    have hval : ((updateNodes fuel acc.t (level + 1) (offset * 16 + i)).2.count,
        (updateNodes fuel acc.t (level + 1) (offset * 16 + i)).2.hash) = subSum (lv acc.t) fuel (offset * 16 + i) := by
      have hf := r.flagged
      rw [r.ret] at hf ⊢
      rw [r.inv.exact _ _ hf, lv_congr _ _ r.ext.leaves, r.ext.height, hh]
      congr 1; omega
    have hc : (updateNodes fuel acc.t (level + 1) (offset * 16 + i)).2.count = (subSum (lv acc.t) fuel (offset * 16 + i)).1 := by
      rw [← hval]
    have hhash : (updateNodes fuel acc.t (level + 1) (offset * 16 + i)).2.hash = (subSum (lv acc.t) fuel (offset * 16 + i)).2 := by
      rw [← hval]
    have hext1 : Ext acc.t (updStep fuel level offset acc i).t := by rw [hacc1]; exact r.ext
    refine ⟨s1, s2, hext1.trans s3, ?_, ?_, ?_, ?_⟩
    · intro l o hl
      rw [s4 l o hl, hacc1, r.frame l o hl]
    · rw [s5, hlv]
      show acc.count + (updateNodes fuel acc.t (level + 1) (offset * 16 + i)).2.count + _ = _
      rw [hc]
      simp only [List.map_cons, List.sum_cons]
      omega
    · rw [s6, hlv]
      show (acc.hashs ++ [(updateNodes fuel acc.t (level + 1) (offset * 16 + i)).2.hash]) ++ _ = _
      rw [hhash]
      simp
    · intro j hj
      rcases List.mem_cons.mp hj with rfl | hj'
      · have hf := r.flagged
        rw [r.ret] at hf
        rw [s3.mono _ _ (by rw [hacc1]; exact hf), hacc1]
        exact hf
      · exact s7 j hj'

theorem updateNodes_spec : ∀ fuel, UpdIH fuel := by
  intro fuel
  induction fuel with
  | zero =>
    intro t level offset hs hi hl hoff
    have hleaf : level + 1 = t.height := by omega
    refine ⟨hs, hi, Ext.refl _, fun _ _ _ => rfl, rfl, ?_⟩
    show (t.node level offset).upd = true
    rw [node_leaf _ _ _ hleaf]
  | succ fuel IH =>
    intro t level offset hs hi hl hoff
    rw [updateNodes_succ]
    by_cases hf : (t.node level offset).upd = true
    · rw [if_pos hf]
      exact ⟨hs, hi, Ext.refl _, fun _ _ _ => rfl, rfl, hf⟩
    · rw [if_neg hf]
      obtain ⟨s1, s2, s3, s4, s5, s6, s7⟩ := fold_spec fuel level offset t.height IH (by omega) hoff (List.range 16) ⟨t, 0, []⟩
        (fun i hi => List.mem_range.mp hi) hs hi rfl
      simp only [] at s1 s2 s3 s4 s5 s6 s7 ⊢
      generalize hacc : (List.range 16).foldl (updStep fuel level offset) ⟨t, 0, []⟩ = acc at *
      have hlen : level < acc.t.inner.length := by
        have := s3.len; unfold HTree.height at hl; omega
      have hrow : offset < (acc.t.inner.getD level []).length := by rw [s1.rows level hlen]; exact hoff
      have hnode : ∀ l o, (acc.t.setInner level offset { count := acc.count, hash := foldHash acc.count acc.hashs, upd := true }).node l o
          = if l = level ∧ o = offset then { count := acc.count, hash := foldHash acc.count acc.hashs, upd := true } else acc.t.node l o :=
        fun l o => node_setInner _ _ _ _ _ _ hlen hrow
      have hhe : acc.t.height = t.height := s3.height
      -- the written value is the fold of the children
      have hval : (acc.count, foldHash acc.count acc.hashs) = subSum (lv acc.t) (fuel + 1) offset := by
        rw [s5, s6, List.nil_append, lv_congr _ _ s3.leaves]
        exact foldHash_combine _
      refine ⟨shape_setInner _ _ _ _ s1, ?_, ?_, ?_, ?_, rfl⟩
      · refine ⟨?_, ?_⟩
        · intro l o hfl
          dsimp only at hfl ⊢
          rw [hnode] at hfl ⊢
          rw [height_setInner, lv_congr (acc.t.setInner level offset _) acc.t rfl]
          by_cases hc : l = level ∧ o = offset
          · rw [if_pos hc]
            obtain ⟨rfl, rfl⟩ := hc
            have : acc.t.height - 1 - l = fuel + 1 := by omega
            rw [this]; exact hval
          · rw [if_neg hc] at hfl ⊢
            exact s2.exact l o hfl
        · intro l o i hi16 hfl hl1
          dsimp only at hfl hl1 ⊢
          rw [hnode] at hfl ⊢
          rw [height_setInner] at hl1
          by_cases hc : l = level ∧ o = offset
          · obtain ⟨rfl, rfl⟩ := hc
            rw [if_neg (by omega)]
            exact s7 i (List.mem_range.mpr hi16)
          · rw [if_neg hc] at hfl
            by_cases hc2 : l + 1 = level ∧ o * 16 + i = offset
            · rw [if_pos hc2]
            · rw [if_neg hc2]
              exact s2.down l o i hi16 hfl hl1
      · refine ⟨s3.leaves, s3.depth, s3.bid, by simp [HTree.setInner, s3.len], ?_⟩
        intro l o hfl
        rw [hnode, if_neg (by intro hc; obtain ⟨rfl, rfl⟩ := hc; exact hf hfl)]
        exact s3.mono l o hfl
      · intro l o hlt
        rw [hnode, if_neg (by omega)]
        exact s4 l o (by omega)
      · rw [hnode, if_pos ⟨rfl, rfl⟩]
end HTreeImplLemmas
