/-
  QuickLZ (C10) — the compressor half of the level-3 round trip, part 3: the end of `Compress` (`finish3`), the
  invariant `CInv` and the relation `Post` between an intermediate state and the finished stream, the generic backward
  steps (`post_tok`, `post_flush`, `flushed_post`) and the second loop (`ctail_post`: the rest of the stream is the
  decoder's final literal run).  Core-only.
-/
import GoBeans.Lemmas.QlzCword
set_option linter.unusedVariables false
set_option linter.unusedSimpArgs false
namespace QlzRT
open Qlz QlzLemmas

/-- the end of `Compress` after both loops (quicklz.go:280-288) -/
def finish3 (s : Buf) (st : CSt) : Option Buf :=
  match fastWrite st.dest st.cwordPtr (((normCword 32 st.cwordVal) >>> 1) ||| 0x80000000) CWORD_LEN with
  | none => none
  | some d =>
    match writeHeader d 3 true s.size st.dst with
    | none => none
    | some d => some (d.extract 0 st.dst)

/-- the compressor's variables when the first loop is entered (level 3) -/
def cinit3 (s : Buf) (fetch : Nat) : CSt :=
  ⟨0, 13, 0x80000000, 9, Array.replicate (s.size + 400) 0, Array.replicate (4096 * 16) 0, Array.replicate 4096 0,
    Array.replicate 4096 0, fetch, 0⟩

/-- `Compress(s, 3)` in terms of its three stages -/
theorem compress3_eq (s : Buf) (hs : s.size ≠ 0) :
    compress s 3 =
      match (if (0 : Int) ≤ (s.size : Int) - 11 then fastRead s 0 3 else some 0) with
      | none => none
      | some fetch =>
        match cloop s 3 (s.size + 1) (cinit3 s fetch) with
        | none => none
        | some (.stored out) => some out
        | some (.fin st) =>
          match ctail s (s.size - st.src) st with
          | none => none
          | some st => finish3 s st := by
  unfold compress finish3
  simp only [show ¬ ((3 : Nat) ≠ 1 ∧ (3 : Nat) ≠ 3) by omega, if_false, hs, DEFAULT_HEADERLEN, CWORD_LEN, cinit3]
  rfl

/-- what is known at the top of a pass of either loop: `k` tokens with flag bits `F` in the open control word -/
structure CInv (s : Buf) (st : CSt) (k F : Nat) : Prop where
  shape : CwShape st.cwordVal k F
  ptr : 9 ≤ st.cwordPtr ∧ st.cwordPtr + 4 ≤ st.dst
  dstle : st.dst ≤ st.dest.size
  srcle : st.src ≤ s.size
  dsz : st.dest.size = s.size + 400

/-- how the finished stream `c` relates to an intermediate state of the compressor -/
structure Post (s c : Buf) (st : CSt) (k F : Nat) : Prop where
  W : ∃ W, fastRead c st.cwordPtr 4 = some W ∧ W % 2 ^ k = F ∧ 2 ^ 31 ≤ W ∧ W < 2 ^ 32
  frame : ∀ j, 9 ≤ j → j < st.dst → ¬ (st.cwordPtr ≤ j ∧ j < st.cwordPtr + 4) → c[j]? = st.dest[j]?
  room : st.dst + min (s.size - st.src) 4 ≤ c.size

theorem fastRead4_bytes {a : Buf} {i v : Nat} (h : ∀ j, j < 4 → a[i + j]? = some (byteOf v j)) (hv : v < 2 ^ 32) :
    fastRead a i 4 = some v := by
  have := @fastRead_bytes a i v 4 h
  rw [this]
  congr 1
  exact Nat.mod_eq_of_lt (by omega)

theorem mod_pow_shape {k F : Nat} (hk : k ≤ 31) (hF : F < 2 ^ k) : (F + 2 ^ 31) % 2 ^ k = F := by
  split_k k
  all_goals ((try simp only [Nat.reducePow, Nat.reduceSub, Nat.reduceAdd] at *); omega)

/-- the base: nothing left to compress; the last control word and the header are written and the buffer is cut -/
theorem finish_post {s c : Buf} {st : CSt} {k F : Nat} (hi : CInv s st k F) (hsrc : st.src = s.size) (hc : finish3 s st = some c) :
    Post s c st k F ∧ c.size = st.dst ∧ c.size ≤ s.size + 400 ∧ headerLen c = some 9 ∧ sizeDecompressed c = some (s.size % 2 ^ 32)
      ∧ sizeCompressed c = some (st.dst % 2 ^ 32) ∧ levelOf c = some 3 ∧ cbitOf c = some 1 := by
  unfold finish3 at hc
  rw [shape_final hi.shape] at hc
  split at hc
  · contradiction
  · rename_i d1 hw1
    split at hc
    · contradiction
    · rename_i d2 hw2
      cases hc
      obtain ⟨hs1, hg1⟩ := fastWrite_spec hw1
      obtain ⟨hs2, _, h0, h1, h5, hg2⟩ := writeHeader_spec hw2
      obtain ⟨hp1, hp2⟩ := hi.ptr
      have hdle := hi.dstle
      have hsz : (d2.extract 0 st.dst).size = st.dst := by simp; omega
      have hget : ∀ j, j < st.dst → (d2.extract 0 st.dst)[j]? = d2[j]? := by
        intro j hj
        rw [Array.getElem?_extract]
        have : j < min st.dst d2.size - 0 := by omega
        simp [this]
        intro h; omega
      have hF : F < 2 ^ 31 := Nat.lt_of_lt_of_le hi.shape.2.1 (Nat.pow_le_pow_right (by omega) hi.shape.1)
      refine ⟨⟨?_, ?_, ?_⟩, hsz, by rw [hsz, ← hi.dsz]; exact hdle, ?_⟩
      · refine ⟨F + 2 ^ 31, ?_, mod_pow_shape hi.shape.1 hi.shape.2.1, by omega, by omega⟩
        apply fastRead4_bytes _ (by omega)
        intro j hj
        rw [hget _ (by omega), hg2 _ (by omega), hg1, if_pos (by simp only [CWORD_LEN]; omega)]
        congr 2; omega
      · intro j h9 hj hns
        rw [hget j hj, hg2 j h9, hg1, if_neg (by simp only [CWORD_LEN]; omega)]
      · rw [hsz]; omega
      · have e1 : fastRead (d2.extract 0 st.dst) 1 4 = some (st.dst % 2 ^ 32) := by
          rw [← h1]; apply fastRead_congr; intro j hj; exact hget _ (by omega)
        have e5 : fastRead (d2.extract 0 st.dst) 5 4 = some (s.size % 2 ^ 32) := by
          rw [← h5]; apply fastRead_congr; intro j hj; exact hget _ (by omega)
        have e0 : (d2.extract 0 st.dst)[0]? = some (hdr0 3 true).toUInt8 := by rw [hget 0 (by omega), h0]
        obtain ⟨r1, r2, r3, r4, r5⟩ := header_read (Or.inr rfl) e0 e1 e5
        exact ⟨r1, r3, r2, r4, by simpa using r5⟩


/-- backward over one token (no control-word write): the token's bytes are final, the open word is the same -/
theorem post_tok {s c : Buf} {st st' : CSt} {k F F' : Nat} (hp : 9 ≤ st.cwordPtr ∧ st.cwordPtr + 4 ≤ st.dst)
    (hcp : st'.cwordPtr = st.cwordPtr) (hdst : st.dst < st'.dst)
    (hfr : ∀ j, j < st.dst → st'.dest[j]? = st.dest[j]?)
    (hW : ∀ W, W % 2 ^ (k + 1) = F' → W % 2 ^ k = F)
    (hroom : ∀ csz, st'.dst + min (s.size - st'.src) 4 ≤ csz → st.dst + min (s.size - st.src) 4 ≤ csz)
    (hpost : Post s c st' (k + 1) F') :
    Post s c st k F ∧ ∀ j, st.dst ≤ j → j < st'.dst → c[j]? = st'.dest[j]? := by
  obtain ⟨W, hW1, hW2, hW3, hW4⟩ := hpost.W
  refine ⟨⟨⟨W, by rw [← hcp]; exact hW1, hW _ hW2, hW3, hW4⟩, ?_, hroom _ hpost.room⟩, ?_⟩
  · intro j h9 hj hns
    rw [hpost.frame j h9 (by omega) (by rw [hcp]; exact hns), hfr j hj]
  · intro j h1 h2
    exact hpost.frame j (by omega) h2 (by rw [hcp]; omega)

/-- backward over the write of a finished control word (31 tokens, flags `F`) and the reservation of the next -/
theorem post_flush {s c d : Buf} {st stf : CSt} {F : Nat} (hp : 9 ≤ st.cwordPtr ∧ st.cwordPtr + 4 ≤ st.dst) (hF : F < 2 ^ 31)
    (hw : fastWrite st.dest st.cwordPtr (F + 2 ^ 31) 4 = some d)
    (h1 : stf.dest = d) (h2 : stf.cwordPtr = st.dst) (h3 : stf.dst = st.dst + 4) (h4 : stf.src = st.src)
    (hpost : Post s c stf 0 0) : Post s c st 31 F := by
  obtain ⟨hs, hg⟩ := fastWrite_spec hw
  refine ⟨⟨F + 2 ^ 31, ?_, ?_, by omega, by omega⟩, ?_, ?_⟩
  · apply fastRead4_bytes _ (by omega)
    intro j hj
    rw [hpost.frame _ (by omega) (by omega) (by omega), h1, hg, if_pos (by omega)]
    congr 2; omega
  · simp only [Nat.reducePow] at *; omega
  · intro j h9 hj hns
    rw [hpost.frame j h9 (by omega) (by omega), h1, hg, if_neg (by omega)]
  · have := hpost.room
    rw [h3, h4] at this
    omega


/-- the header of the finished stream -/
def HdrOK (s c : Buf) : Prop :=
  headerLen c = some 9 ∧ sizeDecompressed c = some (s.size % 2 ^ 32) ∧ sizeCompressed c = some (c.size % 2 ^ 32)
    ∧ levelOf c = some 3 ∧ cbitOf c = some 1 ∧ c.size ≤ s.size + 400

/-- tail phase: the rest of the stream is the decoder's final literal run — for any value `V` of the decoder's control
    word (the run only ever tests it against 1) -/
def PostTail (s c : Buf) (st : CSt) (k F : Nat) : Prop :=
  Post s c st k F ∧ HdrOK s c ∧ ∀ V, 2 ^ 31 ≤ V → V < 2 ^ 32 → TailEnc c s st.dst st.src (V >>> k)

/-- the control-word handling at the top of a pass of either loop (quicklz.go:126-129, 269-272): a full word is
    written where it was reserved and the next one is reserved at `dst` -/
def flushed (st : CSt) : Option CSt :=
  if st.cwordVal &&& 1 = 1 then
    match fastWrite st.dest st.cwordPtr ((st.cwordVal >>> 1) ||| 0x80000000) 4 with
    | none => none
    | some d => some ⟨st.src, st.dst + 4, 0x80000000, st.dst, d, st.ht, st.cache, st.hc, st.fetch, st.lits⟩
  else some st

/-- the literal of the second loop (quicklz.go:275-278) -/
def tailLit (s : Buf) (st : CSt) : Option CSt :=
  match s[st.src]? with
  | none => none
  | some b =>
    match wr st.dest st.dst b with
    | none => none
    | some d => some ⟨st.src + 1, st.dst + 1, st.cwordVal >>> 1, st.cwordPtr, d, st.ht, st.cache, st.hc, st.fetch, st.lits⟩

theorem ctail_succ (s : Buf) (m : Nat) (st : CSt) :
    ctail s (m + 1) st =
      match flushed st with
      | none => none
      | some stf =>
        match tailLit s stf with
        | none => none
        | some st' => ctail s m st' := by
  conv => lhs; unfold ctail
  unfold flushed tailLit flushCword
  simp only [CWORD_LEN]
  by_cases h : st.cwordVal &&& 1 = 1
  · simp only [h, if_true]
    cases fastWrite st.dest st.cwordPtr ((st.cwordVal >>> 1) ||| 0x80000000) 4 with
    | none => rfl
    | some d =>
      simp only
      cases s[st.src]? with
      | none => rfl
      | some b =>
        simp only
        cases wr d (st.dst + 4) b with
        | none => rfl
        | some d' => rfl
  · simp only [h, if_false]
    cases s[st.src]? with
    | none => rfl
    | some b =>
      simp only
      cases wr st.dest st.dst b with
      | none => rfl
      | some d' => rfl

theorem cloop_succ (s : Buf) (n : Nat) (st : CSt) :
    cloop s 3 (n + 1) st =
      if (st.src : Int) ≤ (s.size : Int) - 11 then
        (if st.cwordVal &&& 1 = 1 ∧ giveUp s.size st.src st.dst = true then (storedStream s 3).map CLoop.stored
         else
          match flushed st with
          | none => none
          | some stf =>
            match cstep3 s stf with
            | none => none
            | some st' => cloop s 3 n st')
      else some (.fin st) := by
  conv => lhs; unfold cloop
  unfold flushed flushCword
  simp only [CWORD_LEN]
  by_cases h0 : (st.src : Int) ≤ (s.size : Int) - 11
  · simp only [h0, if_true]
    by_cases h : st.cwordVal &&& 1 = 1
    · simp only [h, if_true, true_and]
      by_cases hg : giveUp s.size st.src st.dst = true
      · simp only [hg, if_true]
      · simp only [hg, if_false, Bool.false_eq_true]
        cases fastWrite st.dest st.cwordPtr ((st.cwordVal >>> 1) ||| 0x80000000) 4 with
        | none => rfl
        | some d => rfl
    · simp only [h, if_false, false_and]
      rfl
  · simp only [h0, if_false]

/-- the state after the control-word handling: like `CInv` without `dst ≤ len(destination)` (the reserved word is
    written later) -/
structure CInvF (s : Buf) (st : CSt) (k F : Nat) : Prop where
  shape : CwShape st.cwordVal k F
  ptr : 9 ≤ st.cwordPtr ∧ st.cwordPtr + 4 ≤ st.dst
  srcle : st.src ≤ s.size
  klt : k < 31
  dsz : st.dest.size = s.size + 400

/-- the control-word handling, forward (invariant) and backward (the finished stream) -/
theorem flushed_post {s c : Buf} {st stf : CSt} {k F : Nat} (hi : CInv s st k F) (h : flushed st = some stf) :
    ∃ kf Ff, CInvF s stf kf Ff ∧ stf.src = st.src ∧ (Post s c stf kf Ff → Post s c st k F)
      ∧ ((k < 31 ∧ stf = st ∧ kf = k ∧ Ff = F) ∨ (k = 31 ∧ kf = 0 ∧ Ff = 0 ∧ stf.cwordPtr = st.dst ∧ stf.dst = st.dst + 4)) := by
  unfold flushed at h
  by_cases hodd : st.cwordVal &&& 1 = 1
  · have hk : k = 31 := (shape_odd hi.shape).mp hodd
    subst hk
    rw [if_pos hodd, shape_flush hi.shape] at h
    split at h
    · contradiction
    · rename_i d hw
      simp only [Option.some.injEq] at h
      subst h
      have hF : F < 2 ^ 31 := hi.shape.2.1
      obtain ⟨hp1, hp2⟩ := hi.ptr
      refine ⟨0, 0, ⟨shape_init, ⟨by show 9 ≤ st.dst; omega, by show st.dst + 4 ≤ st.dst + 4; omega⟩, hi.srcle, by omega,
        by show d.size = s.size + 400; rw [(fastWrite_spec hw).1, hi.dsz]⟩, rfl, ?_, Or.inr ⟨rfl, rfl, rfl, rfl, rfl⟩⟩
      intro hpost
      exact post_flush (stf := (⟨st.src, st.dst + 4, 0x80000000, st.dst, d, st.ht, st.cache, st.hc, st.fetch, st.lits⟩ : CSt)) hi.ptr hF hw rfl rfl rfl rfl hpost
  · have hk : k < 31 := by
      have := hi.shape.1
      have : k ≠ 31 := fun h => hodd ((shape_odd hi.shape).mpr h)
      omega
    rw [if_neg hodd] at h
    simp only [Option.some.injEq] at h
    subst h
    exact ⟨k, F, ⟨hi.shape, hi.ptr, hi.srcle, hk, hi.dsz⟩, rfl, id, Or.inl ⟨hk, rfl, rfl, rfl⟩⟩


theorem tailLit_spec {s : Buf} {stf st' : CSt} {kf Ff : Nat} (h : tailLit s stf = some st') (hi : CInvF s stf kf Ff)
    (hsrc : stf.src < s.size) :
    CInv s st' (kf + 1) Ff ∧ st'.src = stf.src + 1 ∧ st'.dst = stf.dst + 1 ∧ st'.cwordPtr = stf.cwordPtr
      ∧ (∀ j, j < stf.dst → st'.dest[j]? = stf.dest[j]?) ∧ ∃ b, s[stf.src]? = some b ∧ st'.dest[stf.dst]? = some b := by
  unfold tailLit at h
  split at h
  · contradiction
  · rename_i b hb
    split at h
    · contradiction
    · rename_i d hw
      simp only [Option.some.injEq] at h
      subst h
      have hlt := wr_some_lt hw
      obtain ⟨hp1, hp2⟩ := hi.ptr
      refine ⟨⟨shape_lit hi.shape hi.klt, ⟨hp1, by show stf.cwordPtr + 4 ≤ stf.dst + 1; omega⟩, ?_, by show stf.src + 1 ≤ s.size; omega,
        by show d.size = s.size + 400; rw [wr_size hw, hi.dsz]⟩,
        rfl, rfl, rfl, ?_, b, hb, ?_⟩
      · show stf.dst + 1 ≤ d.size
        rw [wr_size hw]; exact hlt
      · intro j hj
        show d[j]? = stf.dest[j]?
        rw [wr_get hw j, if_neg (by omega)]
      · show d[stf.dst]? = some b
        rw [wr_get hw]; simp

theorem ctail_post {s c : Buf} {st2 : CSt} : ∀ (m : Nat) (st : CSt) (k F : Nat), CInv s st k F → st.src + m = s.size →
    ctail s m st = some st2 → finish3 s st2 = some c → PostTail s c st k F := by
  intro m
  induction m with
  | zero =>
    intro st k F hi hm h hf
    simp only [ctail, Option.some.injEq] at h
    subst h
    obtain ⟨h1, h2, h2', h3, h4, h5, h6, h7⟩ := finish_post hi (by omega) hf
    exact ⟨h1, ⟨h3, h4, by rw [h2]; exact h5, h6, h7, h2'⟩, fun V _ _ => TailEnc.done (by omega)⟩
  | succ m ih =>
    intro st k F hi hm h hf
    rw [ctail_succ] at h
    split at h
    · contradiction
    · rename_i stf hfl
      split at h
      · contradiction
      · rename_i st' hlit
        obtain ⟨kf, Ff, hif, hsrcf, hback, hcase⟩ := flushed_post (c := c) hi hfl
        obtain ⟨hi', e1, e2, e3, e4, b, hb, hb'⟩ := tailLit_spec hlit hif (by omega)
        obtain ⟨hpost', hhdr, htail'⟩ := ih st' (kf + 1) Ff hi' (by omega) h hf
        have ⟨hpostf, hbyte⟩ := @post_tok s c stf st' kf Ff Ff hif.ptr e3 (by omega) e4
          (fun W hW => (w_lit hif.klt hif.shape.2.1 hW).1)
          (by intro csz hcs; omega) hpost'
        have hcb : c[stf.dst]? = some b := by rw [hbyte stf.dst (Nat.le_refl _) (by omega), hb']
        refine ⟨hback hpostf, hhdr, ?_⟩
        intro V hV1 hV2
        rcases hcase with ⟨hk, rfl, rfl, rfl⟩ | ⟨rfl, rfl, rfl, hcp, hd⟩
        · have hne := w_ne_one hk hV1
          refine TailEnc.step b (by omega) (by simpa [hne] using hcb) hb ?_
          have := htail' V hV1 hV2
          rw [e1, e2] at this
          simpa [hne, w_shift] using this
        · rw [w_eq_one hV1 hV2]
          rw [hd] at hcb
          refine TailEnc.step b (by omega) (by simpa using hcb) (by rw [← hsrcf]; exact hb) ?_
          have := htail' 0x80000000 (by decide) (by decide)
          rw [e1, e2, hd, hsrcf] at this
          simpa using this

end QlzRT
