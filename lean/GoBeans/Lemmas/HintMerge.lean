/-
  C14 hint merge — the k-way merge of store/hintmerge.go (`HintMerge.kway`, Model/HintMerge.lean) is correct,
  for EVERY priority queue obeying `HeapLaws` (Lemmas/HintMergeLoop.lean) — the plain list queue `listHeap` does
  (`listLaws`), and so do the array algorithms of Go's container/heap, `goHeap`, which is what the real code runs
  (`goLaws`, Lemmas/HintMergeHeap.lean) — and for ALL source lists in which every source has an item and is
  strictly sorted by (khash, key) (`srcsOK`, a decidable Bool predicate); no bound on anything:

   merge_total      the merge ends normally (no panic, the loop empties the heap within `totalItems` rounds);
   merge_panic_iff  REJECTED INPUT: the merge panics iff some source is empty — without any hypothesis;
   merge_sorted     (a) the written items are strictly increasing in (khash, key): sorted, no key twice
   merge_unique         (two written items with the same (khash, key) are the same item);
   merge_mem        (b) every written item is an item of a source (tagged with that source's chunk id),
   merge_greatest       for every occurrence of a (khash, key) in any source the written item of that (khash, key)
                        has a position (`posKey` = the code's `Pos.CmpKey()`; `posKey_lt_iff`: the order of
                        (chunk id, offset) pairs) not below the occurrence's;
   merge_exact          if no two occurrences tie (`noTies`): the written items are EXACTLY the occurrences of
                        greatest position of their (khash, key);
   merge_coll_eq    (c) the collision reports are the written items whose key hash was written more than once,
   merge_coll_iff       in written order; equivalently: an item is reported iff it is written and some source
                        holds a different key with the same hash — all of every group of ≥ 2 keys, nothing of a
                        singleton group;
   merge_table          on an empty collision table `compareAndSet` leaves exactly the reported items;
   merge_eq_spec    (d) without ties the k-way merge IS the functional `Hint.merge` (Model/Hint.lean), so what the
   go_merge_eq_spec     correspondence of engine `hint` compares the real code with is the proven thing;
   noTies_of_distinctChunks / merge_eq_spec_distinct   different chunk ids (one reader per chunk, what
                        `hintMgr.Merge` passes) and uint32 offsets exclude ties;
   merge_queue_independent   without ties the result does not depend on the queue;
   abort_sound      a merge cut short (gc abort / read error) reports only true collisions — but possibly with
   abort_stale          a position that is not the greatest (concrete instance).
  Corners (`tieSrcs`): with ties every queue still writes an item of greatest position, but which of the tied
  items survives depends on the queue; container/heap, the list queue and `Hint.merge` choose three different ones.
  How the proof goes: the loop pops a `Less`-sorted arrangement `s` of all items (`stream_spec`); the writer turns
  any stream into `dedupLast s` (`fin_out`) and, for a sorted stream, reports `grp (dedupLast s)` (`fin_coll`);
  `Hint.merge` is `dedupLast`/`grp` of the insertion-sorted list (`merge_unfold`); without ties a sorted arrangement
  is unique (`sorted_perm_unique`).  Core-only.
-/
import GoBeans.Lemmas.HintMergeWriter
import GoBeans.Lemmas.HintMergeLoop
import GoBeans.Lemmas.HintMergeHeap
set_option linter.unusedSimpArgs false
set_option linter.unusedVariables false
namespace HintMergeLemmas
open Hint HintMerge

/-! ### the functional description `Hint.merge` -/

theorem merge_unfold (srcs : List (Nat × List Item)) :
    Hint.merge srcs = (dedupLast (sortItems (allItems srcs)), grp (dedupLast (sortItems (allItems srcs)))) := by
  rw [← dd_eq_dedupLast]
  rfl

theorem insertSorted_perm (x : Item) : ∀ l : List Item, (insertSorted x l).Perm (x :: l)
  | [] => by simp [insertSorted]
  | y :: ys => by
    unfold insertSorted
    split
    · exact List.Perm.refl _
    · exact ((List.perm_cons y).mpr (insertSorted_perm x ys)).trans (List.Perm.swap _ _ _)

theorem insertSorted_sorted (x : Item) : ∀ l : List Item, l.Pairwise ILe → (insertSorted x l).Pairwise ILe
  | [], _ => by simp [insertSorted]
  | y :: ys, hp => by
    have hp' := List.pairwise_cons.mp hp
    unfold insertSorted
    split
    · rename_i hlt
      have hxy : ILe x y := ILe_of_ILt ((itemLt_iff _ _).mp hlt)
      rw [List.pairwise_cons]
      refine ⟨?_, hp⟩
      intro z hz
      rcases List.mem_cons.mp hz with rfl | hz'
      · exact hxy
      · exact ILe_trans hxy (hp'.1 z hz')
    · rename_i hlt
      have hyx : ILe y x := (itemLt_false_iff _ _).mp (by simpa using hlt)
      rw [List.pairwise_cons]
      refine ⟨?_, insertSorted_sorted x ys hp'.2⟩
      intro z hz
      rcases List.mem_cons.mp ((insertSorted_perm x ys).mem_iff.mp hz) with rfl | hz'
      · exact hyx
      · exact hp'.1 z hz'

theorem sortItems_perm : ∀ l : List Item, (sortItems l).Perm l
  | [] => by simp [sortItems]
  | x :: l => by
    have ih := sortItems_perm l
    unfold sortItems at *
    rw [List.foldr_cons]
    exact (insertSorted_perm x _).trans ((List.perm_cons x).mpr ih)

theorem sortItems_sorted : ∀ l : List Item, (sortItems l).Pairwise ILe
  | [] => by simp [sortItems]
  | x :: l => by
    have ih := sortItems_sorted l
    unfold sortItems at *
    rw [List.foldr_cons]
    exact insertSorted_sorted x _ ih

/-- two `Less`-sorted arrangements of the same items are equal when `Less` orders all different items -/
theorem sorted_perm_unique : ∀ (l1 l2 : List Item), l1.Perm l2 → l1.Pairwise ILe → l2.Pairwise ILe →
    (∀ a ∈ l1, ∀ b ∈ l1, ILe a b → ILe b a → a = b) → l1 = l2
  | [], l2, hp, _, _, _ => hp.nil_eq
  | a :: t1, [], hp, _, _, _ => by have := hp.length_eq; simp at this
  | a :: t1, b :: t2, hp, h1, h2, anti => by
    have h1' := List.pairwise_cons.mp h1
    have h2' := List.pairwise_cons.mp h2
    have hb : b ∈ a :: t1 := hp.mem_iff.mpr (by simp)
    have ha : a ∈ b :: t2 := hp.mem_iff.mp (by simp)
    have hab : ILe a b := by
      rcases List.mem_cons.mp hb with rfl | hb'
      · exact ILe_refl _
      · exact h1'.1 b hb'
    have hba : ILe b a := by
      rcases List.mem_cons.mp ha with rfl | ha'
      · exact ILe_refl _
      · exact h2'.1 a ha'
    have e : a = b := anti a (by simp) b hb hab hba
    subst e
    have ht := sorted_perm_unique t1 t2 hp.cons_inv h1'.2 h2'.2
      (fun x hx y hy => anti x (List.mem_cons_of_mem _ hx) y (List.mem_cons_of_mem _ hy))
    rw [ht]

/-! ### ties -/

theorem posTie_symm {a b : Item} (h : posTie a b = true) : posTie b a = true := by
  unfold posTie at *
  simp only [Bool.and_eq_true, decide_eq_true_eq] at *
  exact ⟨⟨h.1.1.symm, h.1.2.symm⟩, h.2.symm⟩

theorem noTies_iff : ∀ l : List Item, noTies l = true ↔ l.Pairwise (fun a b => posTie a b = false)
  | [] => by simp [noTies]
  | a :: t => by
    unfold noTies
    rw [Bool.and_eq_true, List.pairwise_cons, noTies_iff t, List.all_eq_true]
    simp

theorem noTies_anti : ∀ l : List Item, noTies l = true → ∀ a ∈ l, ∀ b ∈ l, posTie a b = true → a = b
  | [], _, a, ha, _, _, _ => by simp at ha
  | c :: t, h, a, ha, b, hb, hab => by
    unfold noTies at h
    rw [Bool.and_eq_true, List.all_eq_true] at h
    rcases List.mem_cons.mp ha with rfl | ha'
    · rcases List.mem_cons.mp hb with rfl | hb'
      · rfl
      · have := h.1 b hb'; simp [hab] at this
    · rcases List.mem_cons.mp hb with rfl | hb'
      · have := h.1 a ha'; simp [posTie_symm hab] at this
      · exact noTies_anti t h.2 a ha' b hb' hab

/-! ### the sources -/

theorem srcSorted_pairwise : ∀ l : List Item, srcSorted l = true → l.Pairwise KLt
  | [], _ => List.Pairwise.nil
  | [a], _ => by simp
  | a :: b :: t, h => by
    unfold srcSorted at h
    rw [Bool.and_eq_true] at h
    have ih := srcSorted_pairwise (b :: t) h.2
    have hab : KLt a b := (keyLt_iff _ _).mp h.1
    rw [List.pairwise_cons]
    refine ⟨?_, ih⟩
    intro z hz
    rcases List.mem_cons.mp hz with rfl | hz'
    · exact hab
    · exact KLt_trans hab ((List.pairwise_cons.mp ih).1 z hz')

theorem tag_pairwise (c : Nat) (l : List Item) (h : l.Pairwise KLt) : (l.map (tag c)).Pairwise KLt := by
  rw [List.pairwise_map]
  exact h

theorem allItems_cons (s : Nat × List Item) (ss : List (Nat × List Item)) :
    allItems (s :: ss) = s.2.map (tag s.1) ++ allItems ss := by
  simp [allItems]

theorem totalItems_eq : ∀ srcs : List (Nat × List Item), totalItems srcs = (allItems srcs).length
  | [] => by simp [totalItems, allItems]
  | s :: ss => by
    have ih := totalItems_eq ss
    unfold totalItems at *
    rw [allItems_cons, List.length_append, List.length_map, List.map_cons, List.sum_cons, ih]

theorem openAll_spec : ∀ srcs : List (Nat × List Item), srcsOK srcs = true →
    ∃ hp, openAll srcs = some hp ∧ pendingAll hp = allItems srcs ∧ ∀ r ∈ hp, (pending r).Pairwise KLt
  | [], _ => ⟨[], rfl, by simp [pendingAll, allItems], by simp⟩
  | (c, []) :: ss, h => by simp [srcsOK] at h
  | (c, x :: xs) :: ss, h => by
    have h' : srcSorted (x :: xs) = true ∧ srcsOK ss = true := by
      simpa [srcsOK] using h
    obtain ⟨hp, ho, hpa, hps⟩ := openAll_spec ss h'.2
    refine ⟨{ chunk := c, curr := tag c x, rest := xs } :: hp, by simp [openAll, ho], ?_, ?_⟩
    · rw [pendingAll_cons, hpa, allItems_cons]; simp [pending]
    · intro r hr
      rcases List.mem_cons.mp hr with rfl | hr'
      · have := tag_pairwise c _ (srcSorted_pairwise _ h'.1)
        simpa [pending] using this
      · exact hps r hr'

/-- sources without items are invisible to the opening loop -/
def nonEmpty (srcs : List (Nat × List Item)) : List (Nat × List Item) := srcs.filter (fun s => !s.2.isEmpty)

theorem openAll_nonEmpty : ∀ srcs : List (Nat × List Item), openAll srcs = openAll (nonEmpty srcs)
  | [] => rfl
  | (c, []) :: ss => by
    have : nonEmpty ((c, []) :: ss) = nonEmpty ss := by simp [nonEmpty]
    rw [this]
    have e : openAll ((c, []) :: ss) = openAll ss := by simp [openAll]
    rw [e]; exact openAll_nonEmpty ss
  | (c, x :: xs) :: ss => by
    have : nonEmpty ((c, x :: xs) :: ss) = (c, x :: xs) :: nonEmpty ss := by simp [nonEmpty]
    rw [this]
    have e : ∀ t, openAll ((c, x :: xs) :: t) = (match openAll t with
        | none => none | some rs => some ({ chunk := c, curr := tag c x, rest := xs } :: rs)) := fun t => by
      simp only [openAll]; cases openAll t <;> rfl
    rw [e, e, openAll_nonEmpty ss]

theorem openAll_total : ∀ srcs : List (Nat × List Item), ∃ hp, openAll srcs = some hp
  | [] => ⟨[], rfl⟩
  | (c, []) :: ss => by
    have e : openAll ((c, []) :: ss) = openAll ss := by simp [openAll]
    rw [e]; exact openAll_total ss
  | (c, x :: xs) :: ss => by
    obtain ⟨hp, h⟩ := openAll_total ss
    exact ⟨{ chunk := c, curr := tag c x, rest := xs } :: hp, by simp [openAll, h]⟩

theorem allItems_nonEmpty : ∀ srcs : List (Nat × List Item), allItems (nonEmpty srcs) = allItems srcs
  | [] => rfl
  | (c, []) :: ss => by
    have : nonEmpty ((c, []) :: ss) = nonEmpty ss := by simp [nonEmpty]
    rw [this, allItems_nonEmpty ss]; simp [allItems]
  | (c, x :: xs) :: ss => by
    have : nonEmpty ((c, x :: xs) :: ss) = (c, x :: xs) :: nonEmpty ss := by simp [nonEmpty]
    rw [this]
    have h := allItems_nonEmpty ss
    simp only [allItems, List.flatMap_cons] at h ⊢
    rw [h]

theorem totalItems_nonEmpty : ∀ srcs : List (Nat × List Item), totalItems (nonEmpty srcs) = totalItems srcs
  | [] => rfl
  | (c, []) :: ss => by
    have : nonEmpty ((c, []) :: ss) = nonEmpty ss := by simp [nonEmpty]
    rw [this, totalItems_nonEmpty ss]; simp [totalItems]
  | (c, x :: xs) :: ss => by
    have : nonEmpty ((c, x :: xs) :: ss) = (c, x :: xs) :: nonEmpty ss := by simp [nonEmpty]
    rw [this]
    have h := totalItems_nonEmpty ss
    simp only [totalItems, List.map_cons, List.sum_cons] at h ⊢
    rw [h]

/-! ### the run -/

theorem stream_take (I : HeapImpl) : ∀ (n k : Nat) (h : List Reader),
    stream I n h = (stream I (n + k) h).take n
  | 0, k, h => by simp [stream]
  | n + 1, k, h => by
    have e : n + 1 + k = (n + k) + 1 := by omega
    rw [e]
    unfold stream
    cases hp : I.pop h with
    | none => simp
    | some p =>
      obtain ⟨mr, h'⟩ := p
      cases hn : mr.next with
      | none => simp only [hn, List.take_succ_cons]; rw [← stream_take I n k]
      | some mr' => simp only [hn, List.take_succ_cons]; rw [← stream_take I n k]

/-- what `merge` does, in one line: the writer is fed with the first `n` items of a `Less`-sorted arrangement
    of all the items of all the sources -/
theorem run_spec {I : HeapImpl} (L : HeapLaws I) (srcs : List (Nat × List Item)) (hok : srcsOK srcs = true)
    (n : Nat) : ∃ (s : List Item) (hn : List Reader), s.Perm (allItems srcs) ∧ s.Pairwise ILe ∧
      run I n srcs = some (hn, fin {} (s.take n)) ∧ (totalItems srcs ≤ n → hn = []) := by
  obtain ⟨hp, ho, hpa, hps⟩ := openAll_spec srcs hok
  have hinv := L.init_inv hp
  have hperm := L.init_perm hp
  have hs0 : ∀ r ∈ I.init hp, (pending r).Pairwise KLt := fun r hr => hps r (hperm.mem_iff.mp hr)
  have hpa0 : (pendingAll (I.init hp)).Perm (allItems srcs) := by rw [← hpa]; exact pendingAll_perm hperm
  have hlen : (pendingAll (I.init hp)).length = totalItems srcs := by rw [totalItems_eq]; exact hpa0.length_eq
  obtain ⟨sp, ss⟩ := stream_spec L (n + totalItems srcs) (I.init hp) hinv hs0 (by omega)
  refine ⟨stream I (n + totalItems srcs) (I.init hp), (loop I n (I.init hp) {}).1, sp.trans hpa0, ss, ?_, ?_⟩
  · unfold run
    rw [ho]
    simp only
    rw [loop_snd, stream_take I n (totalItems srcs)]
    rfl
  · intro hle
    exact loop_fst_nil L n _ _ hinv (by omega)

/-- the undisturbed merge: written = last of every run of a sorted arrangement, reported = its groups -/
theorem kway_spec {I : HeapImpl} (L : HeapLaws I) (srcs : List (Nat × List Item)) (hok : srcsOK srcs = true) :
    ∃ s, s.Perm (allItems srcs) ∧ s.Pairwise ILe ∧ kway I srcs = .ok (dedupLast s) (grp (dedupLast s)) := by
  obtain ⟨s, hn, sp, ss, hr, hnil⟩ := run_spec L srcs hok (totalItems srcs)
  refine ⟨s, sp, ss, ?_⟩
  have hl : s.length ≤ totalItems srcs := by rw [totalItems_eq, sp.length_eq]; exact Nat.le_refl _
  rw [List.take_of_length_le hl] at hr
  have := hnil (Nat.le_refl _)
  subst this
  unfold kway kwayAbort
  rw [hr]
  simp only
  rw [fin_coll s ss, fin_out]

/-! ### consequences, in the words of the property -/

theorem kway_ok_inv {I : HeapImpl} (L : HeapLaws I) {srcs : List (Nat × List Item)} (hok : srcsOK srcs = true)
    {out coll : List Item} (h : kway I srcs = .ok out coll) :
    ∃ s, s.Perm (allItems srcs) ∧ s.Pairwise ILe ∧ out = dedupLast s ∧ coll = grp out := by
  obtain ⟨s, sp, ss, hk⟩ := kway_spec L srcs hok
  rw [hk] at h
  injection h with h1 h2
  exact ⟨s, sp, ss, h1.symm, by rw [← h2, ← h1]⟩

/-- the merge of well-formed sources ends normally -/
theorem merge_total {I : HeapImpl} (L : HeapLaws I) (srcs : List (Nat × List Item)) (hok : srcsOK srcs = true) :
    ∃ out coll, kway I srcs = .ok out coll := by
  obtain ⟨s, _, _, hk⟩ := kway_spec L srcs hok
  exact ⟨_, _, hk⟩

/-- the merge never panics (sources without items are skipped), whatever the queue and the sources -/
theorem merge_never_panics (I : HeapImpl) (srcs : List (Nat × List Item)) : kway I srcs ≠ .panic := by
  obtain ⟨hp, ho⟩ := openAll_total srcs
  unfold kway kwayAbort run
  rw [ho]
  simp only
  cases (loop I (totalItems srcs) (I.init hp) {}).1 with
  | nil => simp
  | cons a t => simp

/-- sources without items do not matter: the merge of `srcs` is the merge of its non-empty sources -/
theorem kway_nonEmpty (I : HeapImpl) (srcs : List (Nat × List Item)) : kway I srcs = kway I (nonEmpty srcs) := by
  unfold kway kwayAbort run
  rw [← openAll_nonEmpty, totalItems_nonEmpty]

/-- (a) the written items are strictly increasing in (khash, key) -/
theorem merge_sorted {I : HeapImpl} (L : HeapLaws I) {srcs : List (Nat × List Item)} (hok : srcsOK srcs = true)
    {out coll : List Item} (h : kway I srcs = .ok out coll) : out.Pairwise KLt := by
  obtain ⟨s, _, ss, ho, _⟩ := kway_ok_inv L hok h
  rw [ho]; exact dedupLast_sorted s ss

theorem pairwise_KLt_unique : ∀ {l : List Item}, l.Pairwise KLt → ∀ a ∈ l, ∀ b ∈ l, SameKey a b → a = b
  | [], _, a, ha, _, _, _ => by simp at ha
  | c :: t, hp, a, ha, b, hb, hk => by
    have hp' := List.pairwise_cons.mp hp
    rcases List.mem_cons.mp ha with rfl | ha'
    · rcases List.mem_cons.mp hb with rfl | hb'
      · rfl
      · exact absurd (hp'.1 b hb') (not_KLt_of_SameKey hk)
    · rcases List.mem_cons.mp hb with rfl | hb'
      · exact absurd (hp'.1 a ha') (not_KLt_of_SameKey hk.symm)
      · exact pairwise_KLt_unique hp'.2 a ha' b hb' hk

/-- (a) in particular no (khash, key) is written twice -/
theorem merge_unique {I : HeapImpl} (L : HeapLaws I) {srcs : List (Nat × List Item)} (hok : srcsOK srcs = true)
    {out coll : List Item} (h : kway I srcs = .ok out coll) :
    ∀ x ∈ out, ∀ x' ∈ out, SameKey x x' → x = x' :=
  pairwise_KLt_unique (merge_sorted L hok h)

/-- (b) nothing is invented: a written item is an item of a source, tagged with that source's chunk id -/
theorem merge_mem {I : HeapImpl} (L : HeapLaws I) {srcs : List (Nat × List Item)} (hok : srcsOK srcs = true)
    {out coll : List Item} (h : kway I srcs = .ok out coll) : ∀ x ∈ out, x ∈ allItems srcs := by
  obtain ⟨s, sp, _, ho, _⟩ := kway_ok_inv L hok h
  intro x hx
  rw [ho] at hx
  exact sp.mem_iff.mp (dedupLast_sub s x hx)

/-- (b) for every occurrence `y` of a (khash, key) in a source, the written item of that (khash, key) has a
    position (the code's `CmpKey`) not below `y`'s -/
theorem merge_greatest {I : HeapImpl} (L : HeapLaws I) {srcs : List (Nat × List Item)} (hok : srcsOK srcs = true)
    {out coll : List Item} (h : kway I srcs = .ok out coll) :
    ∀ y ∈ allItems srcs, ∃ x ∈ out, SameKey x y ∧ posKey y ≤ posKey x := by
  obtain ⟨s, sp, ss, ho, _⟩ := kway_ok_inv L hok h
  intro y hy
  rw [ho]
  exact dedupLast_max s ss y (sp.mem_iff.mpr hy)

/-- (b) without ties: the written items are EXACTLY the occurrences with the greatest position of their
    (khash, key) -/
theorem merge_exact {I : HeapImpl} (L : HeapLaws I) {srcs : List (Nat × List Item)} (hok : srcsOK srcs = true)
    (hnt : noTies (allItems srcs) = true) {out coll : List Item} (h : kway I srcs = .ok out coll) (x : Item) :
    x ∈ out ↔ x ∈ allItems srcs ∧ ∀ y ∈ allItems srcs, SameKey x y → posKey y ≤ posKey x := by
  constructor
  · intro hx
    refine ⟨merge_mem L hok h x hx, ?_⟩
    intro y hy hk
    obtain ⟨x', hx', hk', hp⟩ := merge_greatest L hok h y hy
    have : x = x' := merge_unique L hok h x hx x' hx' (hk.trans hk'.symm)
    rw [this]; exact hp
  · intro ⟨hx, hmax⟩
    obtain ⟨w, hw, hk, hp⟩ := merge_greatest L hok h x hx
    have hwa := merge_mem L hok h w hw
    have hp' := hmax w hwa hk.symm
    have ht : posTie x w = true := by
      unfold posTie
      simp only [Bool.and_eq_true, decide_eq_true_eq]
      exact ⟨⟨hk.1.symm, hk.2.symm⟩, by omega⟩
    rw [noTies_anti _ hnt x hx w hwa ht]; exact hw

theorem len_gt_one_of_two_mem {α : Type} {l : List α} {x y : α} (hx : x ∈ l) (hy : y ∈ l) (hne : x ≠ y) :
    l.length > 1 := by
  match l, hx, hy with
  | [a], hx, hy =>
    have h1 : x = a := by simpa using hx
    have h2 : y = a := by simpa using hy
    exact absurd (h1.trans h2.symm) hne
  | a :: b :: t, _, _ => simp

/-- membership in the groups of a list without repeated (khash, key) -/
theorem grp_mem {out : List Item} (hs : out.Pairwise KLt) (x : Item) :
    x ∈ grp out ↔ x ∈ out ∧ ∃ y ∈ out, y.khash = x.khash ∧ y.key ≠ x.key := by
  unfold grp
  rw [List.mem_filter]
  constructor
  · intro ⟨hx, hl⟩
    refine ⟨hx, ?_⟩
    have hl' : (out.filter (fun o => decide (o.khash = x.khash))).length > 1 := by simpa using hl
    have hF : (out.filter (fun o => decide (o.khash = x.khash))).Pairwise KLt := hs.filter _
    match hm : out.filter (fun o => decide (o.khash = x.khash)), hl' with
    | [], h0 => rw [hm] at h0; simp at h0
    | [_], h0 => rw [hm] at h0; simp at h0
    | a :: b :: t, _ =>
      rw [hm] at hF
      have ha : a ∈ out.filter (fun o => decide (o.khash = x.khash)) := by rw [hm]; simp
      have hb : b ∈ out.filter (fun o => decide (o.khash = x.khash)) := by rw [hm]; simp
      rw [List.mem_filter] at ha hb
      have hab : KLt a b := (List.pairwise_cons.mp hF).1 b (by simp)
      have hak : a.khash = x.khash := by simpa using ha.2
      have hbk : b.khash = x.khash := by simpa using hb.2
      have hne : a.key ≠ b.key := by
        intro e
        exact not_KLt_of_SameKey ⟨hak.trans hbk.symm, e⟩ hab
      by_cases hax : a.key = x.key
      · exact ⟨b, hb.1, hbk, fun e => hne (hax.trans e.symm)⟩
      · exact ⟨a, ha.1, hak, hax⟩
  · intro ⟨hx, y, hy, hyk, hyne⟩
    refine ⟨hx, ?_⟩
    have h1 : x ∈ out.filter (fun o => decide (o.khash = x.khash)) := by rw [List.mem_filter]; simp [hx]
    have h2 : y ∈ out.filter (fun o => decide (o.khash = x.khash)) := by rw [List.mem_filter]; simp [hy, hyk]
    have : x ≠ y := fun e => hyne (by rw [e])
    simpa using len_gt_one_of_two_mem h1 h2 this

/-- (c) the collision reports are the written items whose key hash was written more than once, in written order
    (the expression of `Hint.merge`) -/
theorem merge_coll_eq {I : HeapImpl} (L : HeapLaws I) {srcs : List (Nat × List Item)} (hok : srcsOK srcs = true)
    {out coll : List Item} (h : kway I srcs = .ok out coll) : coll = grp out := by
  obtain ⟨s, _, _, _, hc⟩ := kway_ok_inv L hok h
  exact hc

/-- (c) in terms of the sources: an item is reported iff it is written and some source holds a DIFFERENT key with
    the same hash.  So every member of every group of ≥ 2 keys sharing a hash is reported (with its greatest
    position, by (b)), and nothing of a singleton group is. -/
theorem merge_coll_iff {I : HeapImpl} (L : HeapLaws I) {srcs : List (Nat × List Item)} (hok : srcsOK srcs = true)
    {out coll : List Item} (h : kway I srcs = .ok out coll) (x : Item) :
    x ∈ coll ↔ x ∈ out ∧ ∃ y ∈ allItems srcs, y.khash = x.khash ∧ y.key ≠ x.key := by
  rw [merge_coll_eq L hok h, grp_mem (merge_sorted L hok h)]
  constructor
  · intro ⟨hx, y, hy, hk, hne⟩
    exact ⟨hx, y, merge_mem L hok h y hy, hk, hne⟩
  · intro ⟨hx, y, hy, hk, hne⟩
    obtain ⟨y', hy', hsk, _⟩ := merge_greatest L hok h y hy
    exact ⟨hx, y', hy', hsk.1.trans hk, by rw [hsk.2]; exact hne⟩

/-- (d) without ties the k-way merge computes exactly `Hint.merge` -/
theorem merge_eq_spec {I : HeapImpl} (L : HeapLaws I) (srcs : List (Nat × List Item)) (hok : srcsOK srcs = true)
    (hnt : noTies (allItems srcs) = true) : kway I srcs = .ok (Hint.merge srcs).1 (Hint.merge srcs).2 := by
  obtain ⟨s, sp, ss, hk⟩ := kway_spec L srcs hok
  have e : s = sortItems (allItems srcs) := by
    apply sorted_perm_unique s _ (sp.trans (sortItems_perm _).symm) ss (sortItems_sorted _)
    intro a ha b hb hab hba
    exact noTies_anti _ hnt a (sp.mem_iff.mp ha) b (sp.mem_iff.mp hb) (tie_of_ILe_ILe hab hba)
  rw [hk, merge_unfold, e]

/-- different chunk ids (what `hintMgr.Merge` passes: one reader per chunk) and uint32 offsets exclude ties -/
theorem noTies_of_distinctChunks (srcs : List (Nat × List Item)) (hok : srcsOK srcs = true)
    (hd : distinctChunks srcs = true) : noTies (allItems srcs) = true := by
  rw [noTies_iff]
  unfold allItems
  rw [List.pairwise_flatMap]
  unfold distinctChunks at hd
  rw [Bool.and_eq_true, decide_eq_true_eq, List.all_eq_true] at hd
  unfold srcsOK at hok
  rw [List.all_eq_true] at hok
  constructor
  · intro s hs
    have := hok s hs
    rw [Bool.and_eq_true] at this
    have hp := tag_pairwise s.1 _ (srcSorted_pairwise _ this.2)
    refine hp.imp ?_
    intro a b hab
    cases ht : posTie a b with
    | false => rfl
    | true =>
      unfold posTie at ht
      simp only [Bool.and_eq_true, decide_eq_true_eq] at ht
      exact absurd hab (not_KLt_of_SameKey ⟨ht.1.1, ht.1.2⟩)
  · have hn : srcs.Pairwise (fun s1 s2 => s1.1 ≠ s2.1) := by
      have := List.nodup_iff_pairwise_ne.mp hd.1
      rw [List.pairwise_map] at this
      exact this
    refine hn.imp_of_mem ?_
    intro s1 s2 h1 h2 hne x hx y hy
    obtain ⟨x0, hx0, rfl⟩ := List.mem_map.mp hx
    obtain ⟨y0, hy0, rfl⟩ := List.mem_map.mp hy
    have o1 := List.all_eq_true.mp (hd.2 s1 h1) x0 hx0
    have o2 := List.all_eq_true.mp (hd.2 s2 h2) y0 hy0
    simp only [decide_eq_true_eq] at o1 o2
    cases ht : posTie (tag s1.1 x0) (tag s2.1 y0) with
    | false => rfl
    | true =>
      unfold posTie posKey tag at ht
      simp only [Bool.and_eq_true, decide_eq_true_eq] at ht
      have := ht.2
      exfalso
      rcases Nat.lt_or_gt_of_ne hne with hlt | hlt
      · have : (s1.1 + 1) * 2^32 ≤ s2.1 * 2^32 := Nat.mul_le_mul_right _ hlt
        omega
      · have : (s2.1 + 1) * 2^32 ≤ s1.1 * 2^32 := Nat.mul_le_mul_right _ hlt
        omega

/-- (d) for the inputs of `hintMgr.Merge` -/
theorem merge_eq_spec_distinct {I : HeapImpl} (L : HeapLaws I) (srcs : List (Nat × List Item))
    (hok : srcsOK srcs = true) (hd : distinctChunks srcs = true) :
    kway I srcs = .ok (Hint.merge srcs).1 (Hint.merge srcs).2 :=
  merge_eq_spec L srcs hok (noTies_of_distinctChunks srcs hok hd)

/-- a merge that is cut short (gc abort at the loop head after `n` iterations, or a read error after the `n`-th
    pop) still reports collisions (`mw.flush()` runs before the error return): everything it reports is an item
    of a source that truly shares its hash with a different key — but see `abort_stale` -/
theorem abort_sound {I : HeapImpl} (L : HeapLaws I) {srcs : List (Nat × List Item)} (hok : srcsOK srcs = true)
    (n : Nat) {coll : List Item} (h : kwayAbort I n srcs = .aborted coll) :
    ∀ x ∈ coll, x ∈ allItems srcs ∧ ∃ y ∈ allItems srcs, y.khash = x.khash ∧ y.key ≠ x.key := by
  obtain ⟨s, hn, sp, ss, hr, _⟩ := run_spec L srcs hok n
  unfold kwayAbort at h
  rw [hr] at h
  have hst : (s.take n).Pairwise ILe := ss.sublist (List.take_sublist n s)
  have hc : coll = grp (dedupLast (s.take n)) := by
    cases hn with
    | nil => simp at h
    | cons a t =>
      simp only at h
      injection h with h
      rw [← h, fin_coll _ hst, fin_out]
  intro x hx
  rw [hc, grp_mem (dedupLast_sorted _ hst)] at hx
  have sub : ∀ z ∈ dedupLast (s.take n), z ∈ allItems srcs :=
    fun z hz => sp.mem_iff.mp (List.mem_of_mem_take (dedupLast_sub _ z hz))
  obtain ⟨hx1, y, hy, hk, hne⟩ := hx
  exact ⟨sub x hx1, y, sub y hy, hk, hne⟩


/-! ### the collision table after the merge -/

theorem ctSet_fresh : ∀ (t : List Item) (it : Item), (∀ o ∈ t, ¬ SameKey o it) → ctSet t it = t ++ [it]
  | [], it, _ => rfl
  | o :: t, it, h => by
    unfold ctSet
    have : ¬ (o.khash = it.khash ∧ o.key = it.key) := h o (by simp)
    rw [if_neg this, ctSet_fresh t it (fun o' ho' => h o' (List.mem_cons_of_mem _ ho'))]
    rfl

theorem ctSet_fold : ∀ (l t : List Item), l.Pairwise KLt → (∀ o ∈ t, ∀ y ∈ l, ¬ SameKey o y) →
    l.foldl ctSet t = t ++ l
  | [], t, _, _ => by simp
  | y :: l, t, hp, hd => by
    have hp' := List.pairwise_cons.mp hp
    rw [List.foldl_cons, ctSet_fresh t y (fun o ho => hd o ho y (by simp))]
    rw [ctSet_fold l (t ++ [y]) hp'.2]
    · simp
    · intro o ho z hz
      rcases List.mem_append.mp ho with ho' | ho'
      · exact hd o ho' z (List.mem_cons_of_mem _ hz)
      · have : o = y := by simpa using ho'
        subst this
        exact fun hk => not_KLt_of_SameKey hk (hp'.1 z hz)

/-- applied to an EMPTY collision table (what the harness observes) the reports of a merge leave exactly the
    reported items in the table, one entry per (khash, key) -/
theorem merge_table {I : HeapImpl} (L : HeapLaws I) {srcs : List (Nat × List Item)} (hok : srcsOK srcs = true)
    {out coll : List Item} (h : kway I srcs = .ok out coll) : coll.foldl ctSet [] = coll := by
  have hs : coll.Pairwise KLt := by
    rw [merge_coll_eq L hok h]
    exact (merge_sorted L hok h).sublist List.filter_sublist
  simpa using ctSet_fold coll [] hs (by simp)

/-! ### the queue the real code runs -/

/-- all of the above for Go's container/heap: in particular (d) -/
theorem go_merge_eq_spec (srcs : List (Nat × List Item)) (hok : srcsOK srcs = true)
    (hnt : noTies (allItems srcs) = true) : kway goHeap srcs = .ok (Hint.merge srcs).1 (Hint.merge srcs).2 :=
  merge_eq_spec goLaws srcs hok hnt

/-- without ties the result does not depend on the queue implementation at all -/
theorem merge_queue_independent {I I' : HeapImpl} (L : HeapLaws I) (L' : HeapLaws I')
    (srcs : List (Nat × List Item)) (hok : srcsOK srcs = true) (hnt : noTies (allItems srcs) = true) :
    kway I srcs = kway I' srcs := by
  rw [merge_eq_spec L srcs hok hnt, merge_eq_spec L' srcs hok hnt]

/-! ### non-vacuity, sanity evaluations, corners -/

def exItem (kh k off : Nat) (ver : Int) : Item :=
  { khash := kh, chunk := 0, off := off, ver := ver, vhash := 0, key := [k.toUInt8] }

/-- three sources (chunk ids 3, 1, 2): key (1,[2]) and (5,[1]) and (9,[9]) occur in several sources; hashes 1 and 5
    are shared by two keys each, hashes 3 and 9 by one -/
def exSrcs : List (Nat × List Item) :=
  [(3, [exItem 1 1 0 1, exItem 1 2 256 1, exItem 5 1 512 1, exItem 9 9 768 1]),
   (1, [exItem 1 2 0 2, exItem 3 1 256 2, exItem 5 1 512 2]),
   (2, [exItem 5 2 0 3, exItem 9 9 256 3])]

example : srcsOK exSrcs = true := by decide
example : noTies (allItems exSrcs) = true := by decide
example : distinctChunks exSrcs = true := by decide
example : kway goHeap exSrcs = .ok
    [{ exItem 1 1 0 1 with chunk := 3 }, { exItem 1 2 256 1 with chunk := 3 }, { exItem 3 1 256 2 with chunk := 1 },
     { exItem 5 1 512 1 with chunk := 3 }, { exItem 5 2 0 3 with chunk := 2 }, { exItem 9 9 768 1 with chunk := 3 }]
    [{ exItem 1 1 0 1 with chunk := 3 }, { exItem 1 2 256 1 with chunk := 3 },
     { exItem 5 1 512 1 with chunk := 3 }, { exItem 5 2 0 3 with chunk := 2 }] := by decide
example : kway listHeap exSrcs = kway goHeap exSrcs := by decide
example : kway goHeap exSrcs = .ok (Hint.merge exSrcs).1 (Hint.merge exSrcs).2 := by decide
/-- a source that is not sorted is outside the theorems (and the output is then not sorted either) -/
example : srcsOK [(0, [exItem 2 1 0 1, exItem 1 1 0 1])] = false := by decide
/-- a source without items is skipped, wherever it stands (it made the historical code panic) -/
example : kway goHeap [(0, [exItem 1 1 0 1]), (1, [])] = .ok [exItem 1 1 0 1] [] := by decide
/-- no source at all: nothing written, nothing reported -/
example : kway goHeap [] = .ok [] [] := by decide

/-- CORNER (ties): three sources with the SAME chunk id hold the same key at the same offset with different
    versions.  Every queue returns an item of greatest position (`merge_greatest`), but WHICH one depends on the
    queue: the list queue keeps the last source's, Go's container/heap the second one's (this is what the real
    code does, checked against it), and the functional `Hint.merge` the first one's. -/
def tieSrcs : List (Nat × List Item) := [(0, [exItem 1 1 0 1]), (0, [exItem 1 1 0 2]), (0, [exItem 1 1 0 3])]
example : srcsOK tieSrcs = true ∧ noTies (allItems tieSrcs) = false := by decide
example : kway listHeap tieSrcs = .ok [exItem 1 1 0 3] [] := by decide
example : kway goHeap tieSrcs = .ok [exItem 1 1 0 2] [] := by decide
example : Hint.merge tieSrcs = ([exItem 1 1 0 1], []) := by decide

/-- CORNER (cut-short merge): chunk 1 holds keys [1] and [2] under hash 7, chunk 2 holds key [2] again (newer).
    Cut after two pops (gc abort, or a read error), the final `flush` reports key [2] with its OLD position
    (chunk 1); the complete merge reports the new one (chunk 2). -/
def staleSrcs : List (Nat × List Item) := [(1, [exItem 7 1 0 1, exItem 7 2 256 1]), (2, [exItem 7 2 0 2])]
theorem abort_stale :
    kwayAbort goHeap 2 staleSrcs = .aborted [{ exItem 7 1 0 1 with chunk := 1 }, { exItem 7 2 256 1 with chunk := 1 }] ∧
    kway goHeap staleSrcs = .ok [{ exItem 7 1 0 1 with chunk := 1 }, { exItem 7 2 0 2 with chunk := 2 }]
                                [{ exItem 7 1 0 1 with chunk := 1 }, { exItem 7 2 0 2 with chunk := 2 }] := by decide


end HintMergeLemmas
