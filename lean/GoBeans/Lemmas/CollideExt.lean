/-
  C13 (a): for a key hash injective on the keys in use, the collision-path model `Collide.step` returns the replies of
  the non-colliding bucket model `Store.step` / `Store.gcRun` (histories of client commands, flush, the hint dumper's
  round, hint merges and GC requests with merge on or off, in any order) — the new model extends the old one.
-/
import GoBeans.Lemmas.CollideExtGC
set_option linter.unusedSimpArgs false
set_option linter.unusedVariables false
namespace CollideLemmas
open Store Spec HintIndex Collide HintBufferLemmas HintLoadLemmas HintIndexLemmas StoreLemmas

section
variable (hash : Key → Nat) (K : Key → Prop)

theorem allrecs_K {cfg : Store.Cfg} {n : Nat} {b : Bucket} {m : KV} (h : HInv hash K cfg n b m) :
    ∀ i, ∀ p ∈ (b.chunks i).recs, K p.2.key := by
  intro i p hp
  by_cases hi : i ≤ b.head
  · have : ((⟨i, p.1⟩ : Pos), p.2) ∈ b.log := by
      rw [log_eq, List.mem_flatMap]
      refine ⟨i, by simp; omega, ?_⟩
      rw [recsAt_eq_tag, mem_tag]
      exact ⟨rfl, hp⟩
    exact h.lr.keys _ this
  · rw [(h.wf.fresh i (by omega)).1] at hp; cases hp

theorem gcRun_ext (hInj : InjOn hash K) (cfg : Collide.Cfg) {st : State} (nc : NoColl hash K st)
    (hK : ∀ i, ∀ p ∈ (st.b.chunks i).recs, K p.2.key) (begin stop : Nat) (merge : Bool) :
    (st.gcRun hash cfg begin stop merge).1.b = (Store.gcRun hash cfg.s st.b begin stop).1
    ∧ NoColl hash K (st.gcRun hash cfg begin stop merge).1 := by
  obtain ⟨nc0, hb0⟩ := beforeGC_nc hash K hInj nc merge
  unfold State.gcRun Store.gcRun
  simp only
  rw [hb0]
  generalize st.beforeGC merge = st0 at nc0 hb0
  have gi0 : GcI hash K { g := gcBegin st.b (gcDst cfg.s st.b begin) begin {},
                          st := { st0 with b := (gcBegin st.b (gcDst cfg.s st.b begin) begin {}).b } } :=
    ⟨rfl, ⟨nc0.ct, nc0.hs⟩, allK_gcBegin K hK _ _ _⟩
  have key : ∀ (l : List Nat) (s : GcC), GcI hash K s →
      (l.foldl (fun s i => Collide.gcFile hash cfg begin s (begin + i)) s).g
        = l.foldl (fun g i => Store.gcFile hash cfg.s begin g (begin + i)) s.g
      ∧ GcI hash K (l.foldl (fun s i => Collide.gcFile hash cfg begin s (begin + i)) s) := by
    intro l
    induction l with
    | nil => intro s gi; exact ⟨rfl, gi⟩
    | cons a t ih =>
      intro s gi
      obtain ⟨e, gi'⟩ := gcFile_ext hash K hInj cfg begin s gi (begin + a)
      have := ih _ gi'
      simp only [List.foldl_cons]
      rw [← e]; exact this
  obtain ⟨e, gi⟩ := key (List.range (stop + 1 - begin)) _ gi0
  simp only at e
  rw [← e]
  exact ⟨rfl, ⟨gi.nc.ct, hsNC_trydump hash K _ gi.nc.hs _ _⟩⟩

/-- the non-colliding bucket model's reading of an operation (`none`: invisible to it) -/
def toH : Collide.Op → Option HOp
  | .set k body flag rev ts size => some (.op (.set k body flag rev ts size))
  | .delete k size wts => some (.op (.delete k size wts))
  | .incr k d size wts => some (.op (.incr k d size wts))
  | .get k => some (.op (.get k))
  | .info k => some (.op (.info k))
  | .flush => some (.op .flush)
  | .reopen kt => some (.op (.reopen kt))
  | .gc g _ => some (.gc g)
  | .hintDump => none
  | .hintMerge => none

/-- operations of the histories of (a): keys in `K`, sane sizes and revisions (as C01/C03), no restart -/
def ExtOK (cfg : Collide.Cfg) (R : Nat) : Collide.Op → Prop
  | .reopen _ => False
  | op => match toH op with | some h => HOpOK K cfg.s R h | none => True

theorem gcOp_ext (hInj : InjOn hash K) (cfg : Collide.Cfg) {st : State} (nc : NoColl hash K st)
    (hK : ∀ i, ∀ p ∈ (st.b.chunks i).recs, K p.2.key) (g : GcArgs) (merge : Bool) :
    (st.gcOp hash cfg g merge).1.b = StoreLemmas.gcOp hash cfg.s st.b g ∧ NoColl hash K (st.gcOp hash cfg g merge).1 := by
  unfold State.gcOp StoreLemmas.gcOp
  cases gcCheckRange cfg.s st.b g with
  | error e => exact ⟨rfl, nc⟩
  | ok se =>
    obtain ⟨s, e⟩ := se
    exact gcRun_ext hash K hInj cfg nc hK s e merge

/-- one client operation: same bucket, same reply, still no collision -/
def SameAs (cfg : Collide.Cfg) (st : State) (op : Collide.Op) (o : Store.Op) : Prop :=
  (Collide.step hash cfg st op).1.b = (Store.step hash cfg.s st.b o).1
  ∧ (Collide.step hash cfg st op).2.1 = (Store.step hash cfg.s st.b o).2.1
  ∧ NoColl hash K (Collide.step hash cfg st op).1

theorem set_ext (cfg : Collide.Cfg) {st : State} (nc : NoColl hash K st) (k : Key) (hk : K k) (body : Bytes) (flag : Nat) (rev : Int) (ts size : Nat) :
    SameAs hash K cfg st (.set k body flag rev ts size) (.set k body flag rev ts size) := by
  unfold SameAs
  simp only [Collide.step, Store.step]
  obtain ⟨e1, e2, e3⟩ := cas_ext hash K cfg nc k hk body flag rev (some ts) size ts
  generalize st.checkAndSet hash cfg k body flag rev (some ts) size ts = A at e1 e2 e3
  generalize Store.checkAndSet hash cfg.s st.b k body flag rev (some ts) size ts = B at e1 e2
  obtain ⟨st', res⟩ := A
  obtain ⟨b', res'⟩ := B
  simp only at e1 e2 e3
  subst e1; subst e2
  cases res <;> exact ⟨rfl, rfl, e3⟩

theorem delete_ext (cfg : Collide.Cfg) {st : State} (nc : NoColl hash K st) (k : Key) (hk : K k) (size wts : Nat) :
    SameAs hash K cfg st (.delete k size wts) (.delete k size wts) := by
  unfold SameAs
  simp only [Collide.step, Store.step]
  obtain ⟨e1, e2, e3⟩ := cas_ext hash K cfg nc k hk [] 0 (-1) none size wts
  generalize st.checkAndSet hash cfg k [] 0 (-1) none size wts = A at e1 e2 e3
  generalize Store.checkAndSet hash cfg.s st.b k [] 0 (-1) none size wts = B at e1 e2
  obtain ⟨st', res⟩ := A
  obtain ⟨b', res'⟩ := B
  simp only at e1 e2 e3
  subst e1; subst e2
  cases res <;> exact ⟨rfl, rfl, e3⟩

theorem get_ext' (cfg : Collide.Cfg) {st : State} (nc : NoColl hash K st) {n : Nat} {m : KV} (k : Key) (a : Agree hash n st.b m k) :
    SameAs hash K cfg st (.get k) (.get k) := by
  unfold SameAs
  simp only [Collide.step, Store.step]
  obtain ⟨g1, g2⟩ := get_ext hash K nc k a
  rcases g2 with ⟨l1, l2⟩ | ⟨r, it, l1, l2⟩
  · rw [l1, l2]; simp only; rw [g1]; exact ⟨by first | rfl | trivial, by first | rfl | trivial, nc⟩
  · rw [l1, l2]; simp only
    by_cases hv : it.ver > 0
    · simp only [hv, if_true]; rw [g1]; exact ⟨by first | rfl | trivial, by first | rfl | trivial, nc⟩
    · simp only [hv, if_false]; rw [g1]; exact ⟨by first | rfl | trivial, by first | rfl | trivial, nc⟩

theorem info_ext (cfg : Collide.Cfg) {st : State} (nc : NoColl hash K st) {n : Nat} {m : KV} (k : Key) (a : Agree hash n st.b m k) :
    SameAs hash K cfg st (.info k) (.info k) := by
  unfold SameAs
  simp only [Collide.step, Store.step]
  obtain ⟨g1, g2⟩ := get_ext hash K nc k a
  rcases g2 with ⟨l1, l2⟩ | ⟨r, it, l1, l2⟩
  · rw [l1, l2]; simp only; rw [g1]; exact ⟨by first | rfl | trivial, by first | rfl | trivial, nc⟩
  · rw [l1, l2]; simp only; rw [g1]; exact ⟨by first | rfl | trivial, by first | rfl | trivial, nc⟩

theorem incr_ext (cfg : Collide.Cfg) {st : State} (nc : NoColl hash K st) {n : Nat} {m : KV} (k : Key) (hk : K k)
    (a : Agree hash n st.b m k) (hnz : ∀ it, AMap.get st.b.tree (hash k) = some it → it.ver ≠ 0) (d : Int) (size wts : Nat) :
    SameAs hash K cfg st (.incr k d size wts) (.incr k d size wts) := by
  unfold SameAs
  simp only [Collide.step, Store.step]
  obtain ⟨g1, g2⟩ := get_ext hash K nc k a
  have pb := fun v val => put_b hash cfg st { key := k, ver := v, flag := Spec.FLAG_INCR, ts := none, body := Spec.itoa val, size := size, wts := wts }
  have pn := fun v val => put_nc hash K cfg nc { key := k, ver := v, flag := Spec.FLAG_INCR, ts := none, body := Spec.itoa val, size := size, wts := wts } hk
  rcases g2 with ⟨l1, l2⟩ | ⟨r, it, l1, l2⟩
  · rw [l1, l2, g1]; simp only
    exact ⟨(pb _ _).1, by first | rfl | trivial, pn _ _⟩
  · rw [l1, l2, g1]; simp only
    have htr : AMap.get st.b.tree (hash k) = some it := by
      unfold Bucket.lookup at l1
      cases ht : AMap.get st.b.tree (hash k) with
      | none => rw [ht] at l1; cases l1
      | some it' =>
        rw [ht] at l1
        simp only at l1
        cases hr : st.b.readAt it'.pos with
        | none => rw [hr] at l1; cases l1
        | some r' =>
          rw [hr] at l1
          simp only at l1
          split at l1
          · cases l1; rfl
          · cases l1
    have hne := hnz it htr
    by_cases hle : it.ver ≤ 0
    · have hlt : it.ver < 0 := by omega
      simp only [hle, hlt, if_true]
      exact ⟨(pb _ _).1, by first | rfl | trivial, pn _ _⟩
    · have hlt : ¬ it.ver < 0 := by omega
      simp only [hle, hlt, if_false]
      by_cases hf : r.flag ≠ Spec.FLAG_INCR
      · rw [if_pos hf, if_pos hf]; exact ⟨by first | rfl | trivial, by first | rfl | trivial, nc⟩
      · rw [if_neg hf, if_neg hf]
        by_cases hl : r.body.length > 22
        · rw [if_pos hl, if_pos hl]; exact ⟨by first | rfl | trivial, by first | rfl | trivial, nc⟩
        · rw [if_neg hl, if_neg hl]
          cases Spec.parseInt r.body with
          | none => exact ⟨by first | rfl | trivial, by first | rfl | trivial, nc⟩
          | some old => exact ⟨(pb _ _).1, by first | rfl | trivial, pn _ _⟩

theorem tree_ver_ne_zero {cfg : Store.Cfg} {n : Nat} {b : Bucket} {m : KV} (h : HInv hash K cfg n b m) (k : Key) (hk : K k) :
    ∀ it, AMap.get b.tree (hash k) = some it → it.ver ≠ 0 := by
  intro it hit
  rcases h.lr.last k hk with ⟨it', r, e1, e2, _, e4⟩ | ⟨e1, _⟩
  · rw [hit] at e1; cases e1
    rw [e4]
    exact h.nz _ (lastOf_mem e2).1
  · rw [hit] at e1; cases e1

/-- the replies of one client operation and the successor states, for the induction -/
theorem client_ext (hInj : InjOn hash K) (cfg : Collide.Cfg) (hcv : cfg.s.checkVHash = false) (R : Nat) {st : State} {m : KV} {n : Nat}
    (nc : NoColl hash K st) (h : HInv hash K cfg.s n st.b m) (op : Collide.Op) (o : Store.Op) (hto : toH op = some (.op o))
    (hop : ExtOK K cfg R op) : SameAs hash K cfg st op o := by
  cases op with
  | set k body flag rev ts size =>
    simp only [toH, Option.some.injEq, HOp.op.injEq] at hto; subst hto
    have : K k := hop.1.1
    exact set_ext hash K cfg nc k this body flag rev ts size
  | delete k size wts =>
    simp only [toH, Option.some.injEq, HOp.op.injEq] at hto; subst hto
    have : K k := hop.1.1
    exact delete_ext hash K cfg nc k this size wts
  | incr k d size wts =>
    simp only [toH, Option.some.injEq, HOp.op.injEq] at hto; subst hto
    have hk : K k := hop.1.1
    exact incr_ext hash K cfg nc k hk (h.inv.agree k hk) (tree_ver_ne_zero hash K h k hk) d size wts
  | get k =>
    simp only [toH, Option.some.injEq, HOp.op.injEq] at hto; subst hto
    have hk : K k := hop
    exact get_ext' hash K cfg nc k (h.inv.agree k hk)
  | info k =>
    simp only [toH, Option.some.injEq, HOp.op.injEq] at hto; subst hto
    have hk : K k := hop
    exact info_ext hash K cfg nc k (h.inv.agree k hk)
  | flush =>
    simp only [toH, Option.some.injEq, HOp.op.injEq] at hto; subst hto
    exact ⟨rfl, rfl, ⟨nc.ct, nc.hs⟩⟩
  | reopen kt => exact hop.elim
  | hintDump => simp [toH] at hto
  | hintMerge => simp [toH] at hto
  | gc g mg => simp [toH] at hto

theorem cmdOf_toH (op : Collide.Op) (o : Store.Op) (hto : toH op = some (.op o)) : Collide.cmdOf op = Store.cmdOf o := by
  cases op <;> simp [toH] at hto <;> subst hto <;> rfl

theorem ext_run (hInj : InjOn hash K) (cfg : Collide.Cfg) (hcv : cfg.s.checkVHash = false) (R : Nat) (ops : List Collide.Op) :
    ∀ (st : State) (m : KV) (n : Nat), NoColl hash K st → HInv hash K cfg.s n st.b m → R ≤ n → n + ops.length < 2147483647 →
      (∀ op ∈ ops, ExtOK K cfg R op) →
      (Collide.run hash cfg st ops).2 = (hrun hash cfg.s st.b (ops.filterMap toH)).2 := by
  induction ops with
  | nil => intro st m n _ _ _ _ _; rfl
  | cons op ops ih =>
    intro st m n nc h hR hn hops
    have hlen : (op :: ops).length = ops.length + 1 := rfl
    have hrest : ∀ o ∈ ops, ExtOK K cfg R o := fun o ho => hops o (by simp [ho])
    have hop := hops op (by simp)
    cases hto : toH op with
    | none =>
      -- invisible to the old model: the hint dumper's round, a hint merge
      have hb : (Collide.step hash cfg st op).1.b = st.b ∧ NoColl hash K (Collide.step hash cfg st op).1 ∧ Collide.cmdOf op = none := by
        cases op <;> simp [toH] at hto
        · exact ⟨rfl, ⟨nc.ct, hsNC_dumpAll hash K _ _ nc.hs⟩, rfl⟩
        · obtain ⟨m1, m2⟩ := merge_nc hash K hInj nc false
          exact ⟨m2, m1, rfl⟩
      obtain ⟨hb1, hb2, hb3⟩ := hb
      have := ih _ m (n + 1) hb2 (by rw [hb1]; exact hinv_mono hash K (Nat.le_succ n) h) (by omega) (by rw [hlen] at hn; omega) hrest
      unfold Collide.run
      simp only [List.filterMap_cons, hto, hb3]
      rw [this, hb1]
    | some ho =>
      cases ho with
      | gc g =>
        have hmg : ∃ mg, op = .gc g mg := by
          cases op <;> simp [toH] at hto
          subst hto; exact ⟨_, rfl⟩
        obtain ⟨mg, rfl⟩ := hmg
        obtain ⟨e1, e2⟩ := gcOp_ext hash K hInj cfg nc (allrecs_K hash K h) g mg
        have h' := gcOp_hinv hash K cfg.s hInj h g
        have := ih _ m (n + 1) e2 (by rw [e1]; exact hinv_mono hash K (Nat.le_succ n) h') (by omega) (by rw [hlen] at hn; omega) hrest
        unfold Collide.run
        simp only [List.filterMap_cons, hto, Collide.cmdOf, Collide.step, hrun]
        rw [this, e1]
      | op o =>
        obtain ⟨e1, e2, e3⟩ := client_ext hash K hInj cfg hcv R nc h op o hto hop
        have hok : OpOK3 K cfg.s R o := by
          cases op <;> simp [toH] at hto <;> subst hto <;> first | exact hop | exact hop.elim
        obtain ⟨h', _⟩ := op_hinv hash K cfg.s hcv hInj R h hR (by rw [hlen] at hn; omega) o hok
        have := ih _ _ (n + 1) e3 (by rw [e1]; exact h') (by omega) (by rw [hlen] at hn; omega) hrest
        unfold Collide.run
        simp only [List.filterMap_cons, hto, hrun]
        rw [this, e1, e2, cmdOf_toH op o hto]
        cases Store.cmdOf o <;> rfl

end
end CollideLemmas
