/-
  QuickLZ (C10) — the compressor half of the level-3 round trip, part 1: what one pass of the first loop of
  `Compress(x, 3)` emits (`cstep3_spec`): a literal, or a match token in one of the five forms whose length/offset the
  decoder's arithmetic `tok3` recovers (`tokEnc1..5`) and whose bytes really are a copy of earlier input
  (`cands3_spec`, `extend3_spec`: every candidate is verified against the source, whatever the hash tables hold).
  Core-only.
-/
import GoBeans.Lemmas.QlzDec3
set_option linter.unusedVariables false
set_option linter.unusedSimpArgs false
namespace QlzRT
open Qlz QlzLemmas

/-! ## level 3: what the candidate search returns is a verified match -/

theorem extend3_spec (s : Buf) (o src rem : Nat) : ∀ (fuel m0 m : Nat), extend3 s o src rem fuel m0 = some m →
    m0 ≤ m ∧ (m0 ≤ rem → m ≤ rem) ∧ ∀ j, m0 ≤ j → j < m → s[o + j]? = s[src + j]? := by
  intro fuel
  induction fuel with
  | zero => intro m0 m h; simp [extend3] at h; subst h; exact ⟨Nat.le_refl _, id, fun j h1 h2 => by omega⟩
  | succ f ih =>
    intro m0 m h
    unfold extend3 at h
    split at h
    · rename_i a b ha hb
      split at h
      · rename_i hc
        obtain ⟨h1, h2, h3⟩ := ih _ _ h
        refine ⟨by omega, fun hr => h2 (by omega), ?_⟩
        intro j hj1 hj2
        by_cases hj : j = m0
        · subst hj; rw [ha, hb, hc.1]
        · exact h3 j (by omega) hj2
      · cases h
        exact ⟨Nat.le_refl _, id, fun j h1 h2 => by omega⟩
    · contradiction

/-- a verified match candidate for position `src`: length `ml`, starting at `o` -/
def GoodMatch (s : Buf) (src rem ml o : Nat) : Prop :=
  ml = 0 ∨ (3 ≤ ml ∧ (o : Int) < (src : Int) - 2 ∧ (3 ≤ rem → ml ≤ rem) ∧ ∀ j, j < ml → s[o + j]? = s[src + j]?)

theorem fastRead3 {c : Buf} {p f : Nat} (h : fastRead c p 3 = some f) :
    ∃ b0 b1 b2 : UInt8, c[p]? = some b0 ∧ c[p + 1]? = some b1 ∧ c[p + 2]? = some b2
      ∧ f = b0.toNat + b1.toNat * 256 + b2.toNat * 65536 := by
  obtain ⟨l2, b2, h2, hb2, rfl⟩ := fastRead_succ h
  obtain ⟨l1, b1, h1, hb1, rfl⟩ := fastRead_succ h2
  obtain ⟨l0, b0, h0, hb0, rfl⟩ := fastRead_succ h1
  simp only [fastRead, Option.some.injEq] at h0
  subst h0
  simp only [Nat.add_zero] at hb0
  refine ⟨b0, b1, b2, hb0, hb1, hb2, ?_⟩
  have e0 := b0.toNat_lt
  have e1 := b1.toNat_lt
  simp only [Nat.mul_zero, Nat.shiftLeft_zero, Nat.zero_or]
  rw [or_shl _ _ _ (by omega : b0.toNat < 2 ^ (8 * 1))]
  rw [or_shl _ _ _ (by omega : b0.toNat + b1.toNat * 2 ^ (8 * 1) < 2 ^ (8 * 2))]

theorem toUInt8_toNat_eq (n : Nat) (b : UInt8) (h : (n % 256).toUInt8 = b) : n % 256 = b.toNat := by
  subst h
  simp [Nat.toUInt8, UInt8.toNat_ofNat']

theorem cands3_spec (s : Buf) (ht : Array Nat) (hash src fetch rem c : Nat) (hf : fastRead s src 3 = some fetch) :
    ∀ (fuel k ml o ml' o' : Nat), GoodMatch s src rem ml o → cands3 s ht hash src fetch rem c fuel k ml o = some (ml', o') →
      GoodMatch s src rem ml' o' := by
  obtain ⟨b0, b1, b2, g0, g1, g2, hfe⟩ := fastRead3 hf
  have e0 := b0.toNat_lt
  have e1 := b1.toNat_lt
  have e2 := b2.toNat_lt
  intro fuel
  induction fuel with
  | zero => intro k ml o ml' o' hg h; simp [cands3] at h; obtain ⟨rfl, rfl⟩ := h; exact hg
  | succ f ih =>
    intro k ml o ml' o' hg h
    unfold cands3 at h
    split at h
    · -- k < 16 ∧ c > k
      split at h
      · contradiction
      · rename_i cand hcand
        split at h
        · contradiction
        · rename_i a0 ha0
          split at h
          · exact ih _ _ _ _ _ hg h
          · rename_i hne0
            split at h
            · contradiction
            · rename_i a1 ha1
              split at h
              · exact ih _ _ _ _ _ hg h
              · rename_i hne1
                split at h
                · contradiction
                · rename_i a2 ha2
                  split at h
                  · exact ih _ _ _ _ _ hg h
                  · rename_i hne2
                    split at h
                    · contradiction
                    · rename_i m hm
                      split at h
                      · -- the candidate replaces the best so far
                        apply ih _ _ _ _ _ _ h
                        right
                        obtain ⟨h1, h2, h3⟩ := extend3_spec _ _ _ _ _ _ _ hm
                        have hlt : (cand : Int) < (src : Int) - 2 := by
                          have := not_or.mp hne2
                          omega
                        have q0 : a0 = b0 := by
                          have := toUInt8_toNat_eq _ _ (Decidable.not_not.mp hne0)
                          apply UInt8.toNat_inj.mp
                          omega
                        have q1 : a1 = b1 := by
                          have := toUInt8_toNat_eq _ _ (Decidable.not_not.mp hne1)
                          rw [shr] at this
                          apply UInt8.toNat_inj.mp
                          omega
                        have q2 : a2 = b2 := by
                          have := toUInt8_toNat_eq _ _ (Decidable.not_not.mp (not_or.mp hne2).1)
                          rw [shr] at this
                          apply UInt8.toNat_inj.mp
                          omega
                        refine ⟨h1, hlt, h2, ?_⟩
                        intro j hj
                        by_cases hj3 : 3 ≤ j
                        · exact h3 j hj3 hj
                        · have : j = 0 ∨ j = 1 ∨ j = 2 := by omega
                          rcases this with rfl | rfl | rfl
                          · simp only [Nat.add_zero]; rw [ha0, g0, q0]
                          · rw [ha1, g1, q1]
                          · rw [ha2, g2, q2]
                      · exact ih _ _ _ _ _ hg h
    · cases h; exact hg


/-! ## the five token forms: what the encoder writes is what the decoder reads -/

theorem or_low (X l k : Nat) (hl : l < 2 ^ k) (hX : X % 2 ^ k = 0) : X ||| l = X + l := by
  have : X = (X / 2 ^ k) <<< k := by
    rw [Nat.shiftLeft_eq]
    have := Nat.div_add_mod X (2 ^ k)
    rw [hX, Nat.add_zero, Nat.mul_comm] at this
    exact this.symm
  rw [this, Nat.or_comm, or_shl _ _ _ hl, Nat.shiftLeft_eq, Nat.add_comm]

/-- `enc` written little-endian in `len` bytes is a token that decodes to (`ml`, `off`) whatever follows it -/
def TokEnc (enc len ml off : Nat) : Prop :=
  1 ≤ len ∧ len ≤ 4 ∧ enc < 2 ^ (8 * len) ∧ ∀ junk, junk < 2 ^ (32 - 8 * len) → tok3 (enc + 2 ^ (8 * len) * junk) = (ml, off, len)

theorem tokEnc1 (off : Nat) (h : off ≤ 63) : TokEnc (off <<< 2) 1 3 off := by
  refine ⟨by omega, by omega, ?_, ?_⟩
  · rw [Nat.shiftLeft_eq]; omega
  · intro junk _
    rw [Nat.shiftLeft_eq]
    unfold tok3
    simp only [show (2 : Nat) ^ (8 * 1) = 256 by rfl, show (2 : Nat) ^ 2 = 4 by rfl]
    rw [if_pos (by omega)]
    congr 2; omega

theorem tokEnc2 (off : Nat) (h : off ≤ 16383) : TokEnc ((off <<< 2) ||| 1) 2 3 off := by
  have e : (off <<< 2) ||| 1 = off * 4 + 1 := by
    rw [or_low _ 1 2 (by omega) (by rw [Nat.shiftLeft_eq]; omega), Nat.shiftLeft_eq]
  rw [e]
  refine ⟨by omega, by omega, by omega, ?_⟩
  intro junk _
  unfold tok3
  simp only [show (2 : Nat) ^ (8 * 2) = 65536 by rfl]
  rw [if_neg (by omega), if_pos (by omega)]
  congr 2; omega

theorem tokEnc3 (ml off : Nat) (h1 : 3 ≤ ml) (h2 : ml ≤ 18) (h : off ≤ 1023) :
    TokEnc ((((ml - 3) <<< 2) ||| (off <<< 6)) ||| 2) 2 ml off := by
  have e : (((ml - 3) <<< 2) ||| (off <<< 6)) ||| 2 = (ml - 3) * 4 + off * 64 + 2 := by
    rw [Nat.shiftLeft_eq (ml - 3), or_shl _ _ _ (by omega)]
    rw [or_low _ 2 2 (by omega) (by omega)]
  rw [e]
  refine ⟨by omega, by omega, by omega, ?_⟩
  intro junk _
  unfold tok3
  simp only [show (2 : Nat) ^ (8 * 2) = 65536 by rfl]
  rw [if_neg (by omega), if_neg (by omega), if_pos (by omega)]
  congr 1
  · omega
  · congr 1; omega

theorem tokEnc4 (ml off : Nat) (h1 : 3 ≤ ml) (h2 : ml ≤ 33) (h : off < 131071) :
    TokEnc ((((ml - 2) <<< 2) ||| (off <<< 7)) ||| 3) 3 ml off := by
  have e : (((ml - 2) <<< 2) ||| (off <<< 7)) ||| 3 = (ml - 2) * 4 + off * 128 + 3 := by
    rw [Nat.shiftLeft_eq (ml - 2), or_shl _ _ _ (by omega)]
    rw [or_low _ 3 2 (by omega) (by omega)]
  rw [e]
  refine ⟨by omega, by omega, by omega, ?_⟩
  intro junk _
  unfold tok3
  simp only [show (2 : Nat) ^ (8 * 3) = 16777216 by rfl]
  rw [if_neg (by omega), if_neg (by omega), if_neg (by omega), if_pos (by omega)]
  congr 1
  · omega
  · congr 1; omega

theorem tokEnc5 (ml off : Nat) (h1 : 3 ≤ ml) (h2 : ml ≤ 258) (h : off < 131071) :
    TokEnc ((((ml - 3) <<< 7) ||| (off <<< 15)) ||| 3) 4 ml off := by
  have e : (((ml - 3) <<< 7) ||| (off <<< 15)) ||| 3 = (ml - 3) * 128 + off * 32768 + 3 := by
    rw [Nat.shiftLeft_eq (ml - 3), or_shl _ _ _ (by omega)]
    rw [or_low _ 3 2 (by omega) (by omega)]
  rw [e]
  refine ⟨by omega, by omega, by omega, ?_⟩
  intro junk hj
  have : junk = 0 := by simp at hj; exact hj
  subst this
  unfold tok3
  simp only [show (2 : Nat) ^ (8 * 4) = 4294967296 by rfl]
  rw [if_neg (by omega), if_neg (by omega), if_neg (by omega), if_neg (by omega)]
  congr 1
  · omega
  · congr 1; omega


/-! ## one token of the level-3 compressor -/

/-- what one pass of the first loop (after the control-word handling) emits -/
inductive TokStep (s : Buf) (st st' : CSt) : Prop
  | lit (b : UInt8) : st'.src = st.src + 1 → st'.dst = st.dst + 1 → st'.cwordVal = st.cwordVal >>> 1 →
      s[st.src]? = some b → st'.dest[st.dst]? = some b → TokStep s st st'
  | mat (ml off enc len : Nat) : st'.src = st.src + ml → st'.dst = st.dst + len →
      st'.cwordVal = (st.cwordVal >>> 1) ||| 0x80000000 →
      (∀ j, j < len → st'.dest[st.dst + j]? = some (byteOf enc j)) → TokEnc enc len ml off →
      3 ≤ ml → 1 ≤ off → off ≤ st.src → st.src + ml + 4 ≤ s.size →
      (∀ j, j < ml → s[st.src + j]? = s[st.src - off + j]?) → TokStep s st st'

theorem emit_spec {dest d : Buf} {dst dst' enc len : Nat} (hlen : 1 ≤ len)
    (h : (fastWrite dest dst enc len).map (fun d => (d, dst + len)) = some (d, dst')) :
    dst' = dst + len ∧ d.size = dest.size ∧ dst' ≤ d.size ∧ (∀ j, j < dst → d[j]? = dest[j]?)
      ∧ (∀ j, j < len → d[dst + j]? = some (byteOf enc j)) := by
  simp only [Option.map_eq_some_iff, Prod.mk.injEq] at h
  obtain ⟨d0, hw, rfl, rfl⟩ := h
  obtain ⟨hs, hg⟩ := fastWrite_spec hw
  obtain ⟨m, rfl⟩ : ∃ m, len = m + 1 := ⟨len - 1, by omega⟩
  have := fastWrite_some_le hw
  refine ⟨rfl, hs, by rw [hs]; omega, ?_, ?_⟩
  · intro j hj
    rw [hg j, if_neg (by omega)]
  · intro j hj
    rw [hg (dst + j), if_pos (by omega)]
    congr 2; omega

theorem cstep3_spec {s : Buf} {st st' : CSt} (h : cstep3 s st = some st') (hsrc : (st.src : Int) ≤ (s.size : Int) - 11) :
    st'.cwordPtr = st.cwordPtr ∧ st'.dest.size = st.dest.size ∧ st'.dst ≤ st'.dest.size
      ∧ (∀ j, j < st.dst → st'.dest[j]? = st.dest[j]?) ∧ TokStep s st st' := by
  unfold cstep3 at h
  simp only at h
  split at h
  · contradiction
  · rename_i fetch hfetch
    split at h
    · contradiction
    · rename_i c hc
      split at h
      · contradiction
      · rename_i matchlen offset2 hcands
        have hgood := cands3_spec s st.ht (hashOf fetch) st.src fetch _ c.toNat hfetch 17 0 0 0 matchlen offset2 (Or.inl rfl) hcands
        split at h
        · contradiction
        · split at h
          · -- a match
            rename_i hcond
            split at h
            · contradiction
            · rename_i ht' hc' hfill
              split at h
              · contradiction
              · rename_i d dst' hr
                simp only [Option.some.injEq] at h
                subst h
                -- the facts about the match
                have hrem : (3 : Nat) ≤ (if (s.size : Int) - 4 - (st.src : Int) + 1 - 1 ≤ 255 then ((s.size : Int) - 4 - (st.src : Int) + 1 - 1).toNat else 255) := by
                  split <;> omega
                rcases hgood with h0 | ⟨g1, g2, g3, g4⟩
                · omega
                have g3' := g3 hrem
                have hml : matchlen ≤ 255 ∧ st.src + matchlen + 4 ≤ s.size := by
                  split at g3' <;> omega
                have hoff : 1 ≤ st.src - offset2 ∧ st.src - offset2 ≤ st.src ∧ st.src - (st.src - offset2) = offset2 ∧ st.src - offset2 < 131071 := by omega
                have hxs : ∀ j, j < matchlen → s[st.src + j]? = s[st.src - (st.src - offset2) + j]? := by
                  intro j hj; rw [hoff.2.2.1]; exact (g4 j hj).symm
                -- the five forms
                split at hr
                · rename_i hf
                  obtain ⟨e1, e2, e3, e4, e5⟩ := emit_spec (by omega) hr
                  refine ⟨rfl, e2, by rw [e1] at e3; rw [e1]; exact e3, e4, ?_⟩
                  exact TokStep.mat matchlen (st.src - offset2) _ 1 rfl e1 rfl e5 (by rw [hf.1]; exact tokEnc1 _ hf.2) g1 hoff.1 hoff.2.1 hml.2 hxs
                · split at hr
                  · rename_i hf
                    obtain ⟨e1, e2, e3, e4, e5⟩ := emit_spec (by omega) hr
                    refine ⟨rfl, e2, by rw [e1] at e3; rw [e1]; exact e3, e4, ?_⟩
                    exact TokStep.mat matchlen (st.src - offset2) _ 2 rfl e1 rfl e5 (by rw [hf.1]; exact tokEnc2 _ hf.2) g1 hoff.1 hoff.2.1 hml.2 hxs
                  · split at hr
                    · rename_i hf
                      obtain ⟨e1, e2, e3, e4, e5⟩ := emit_spec (by omega) hr
                      refine ⟨rfl, e2, by rw [e1] at e3; rw [e1]; exact e3, e4, ?_⟩
                      exact TokStep.mat matchlen (st.src - offset2) _ 2 rfl e1 rfl e5 (tokEnc3 _ _ g1 hf.1 hf.2) g1 hoff.1 hoff.2.1 hml.2 hxs
                    · split at hr
                      · rename_i hf
                        obtain ⟨e1, e2, e3, e4, e5⟩ := emit_spec (by omega) hr
                        refine ⟨rfl, e2, by rw [e1] at e3; rw [e1]; exact e3, e4, ?_⟩
                        exact TokStep.mat matchlen (st.src - offset2) _ 3 rfl e1 rfl e5 (tokEnc4 _ _ g1 hf hoff.2.2.2) g1 hoff.1 hoff.2.1 hml.2 hxs
                      · obtain ⟨e1, e2, e3, e4, e5⟩ := emit_spec (by omega) hr
                        refine ⟨rfl, e2, by rw [e1] at e3; rw [e1]; exact e3, e4, ?_⟩
                        exact TokStep.mat matchlen (st.src - offset2) _ 4 rfl e1 rfl e5 (tokEnc5 _ _ g1 (by omega) hoff.2.2.2) g1 hoff.1 hoff.2.1 hml.2 hxs
          · -- a literal
            split at h
            · contradiction
            · rename_i b hb
              split at h
              · contradiction
              · rename_i d hw
                simp only [Option.some.injEq] at h
                subst h
                have hlt := wr_some_lt hw
                refine ⟨rfl, wr_size hw, by show st.dst + 1 ≤ d.size; rw [wr_size hw]; omega, ?_, ?_⟩
                · intro j hj
                  rw [wr_get hw j, if_neg (by omega)]
                · exact TokStep.lit b rfl rfl rfl hb (by rw [wr_get hw]; simp)

end QlzRT
