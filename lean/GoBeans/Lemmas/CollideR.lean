/-
  C13 (b) with restarts: the invariant `RInv` (the invariant `SInv` made restart-proof: the slot owner is only known
  for hashes with an unregistered key, a rebuilt tree may have dropped delete markers, `maxChunkID` covers the data only
  before the first restart; new: every hint item describes a record of its data file, `datasize` bookkeeping, the tree
  dump id never exceeds `maxDumpedHintID`).
-/
import GoBeans.Lemmas.CollideSafeR
import GoBeans.Lemmas.CollideHintsR
import GoBeans.Lemmas.CollideSafePut
set_option linter.unusedSimpArgs false
set_option linter.unusedVariables false
namespace CollideLemmas
open Store Spec HintIndex Collide StoreLemmas HintBufferLemmas

section
variable (hash : Key → Nat)

/-- the hint item describes a record of data file `c` -/
def Snd (b : Bucket) (c : Nat) (it : Item) : Prop :=
  ∃ r, (it.off, r) ∈ (b.chunks c).recs ∧ r.key = it.key ∧ it.ver = r.ver ∧ it.khash = hash it.key

structure RInv (cfg : Collide.Cfg) (st : State) (x : TrkR) (n : Nat) : Prop where
  pos : PosInv st.b
  ra : ∀ c o r, (o, r) ∈ (st.b.chunks c).recs → st.b.readAt ⟨c, o⟩ = some r
  ob : ∀ c o r, (o, r) ∈ (st.b.chunks c).recs → o ≤ cfg.s.dataFileMax
  spec : ∀ k, LogSpec (lastOf k st.b.log) (AMap.get x.t.m k)
  wr : ∀ k, k ∈ x.t.written ↔ (lastOf k st.b.log).isSome
  vers : ∀ y ∈ st.b.log, y.2.ver.natAbs ≤ n
  tab : ∀ h k it, tget st.ct h k = some it → hash k = h ∧ k ∈ x.t.reg ∧ it.key = k ∧ it.khash = h
          ∧ ∃ r, lastOf k st.b.log = some (⟨it.chunk, it.off⟩, r) ∧ it.ver = r.ver
  tabc : ∀ k, k ∈ x.t.reg → (tget st.ct (hash k) k).isSome = true
  tabne : ∀ h, thas st.ct h = true → ∃ k it, tget st.ct h k = some it
  slot : ∀ h ti, AMap.get st.b.tree h = some ti → ∃ o r, hash o = h ∧ st.b.readAt ti.pos = some r ∧ r.key = o
          ∧ (ti.pos, r) ∈ st.b.log ∧ ti.ver = r.ver
          ∧ ((x.restarted = false ∨ o ∉ x.t.reg) → lastOf o st.b.log = some (ti.pos, r))
          ∧ (x.restarted = false → AMap.get x.t.owner h = some o)
  ownw : ∀ h o, AMap.get x.t.owner h = some o → o ∈ x.t.written ∧ hash o = h
  own : ∀ k, k ∈ x.t.written → (x.restarted = false ∨ (k ∉ x.t.reg ∧ ∃ p r, lastOf k st.b.log = some (p, r) ∧ r.ver > 0)) →
          ∃ ti, AMap.get st.b.tree (hash k) = some ti
  hgood : ∀ j, CkGood (st.hs.chunks j)
  hmerged : st.hs.merged = none
  hex : ∀ c k, HintAt hash k ((st.hs.chunks c).get (hash k) k) (lastIn k (st.b.chunks c).recs)
  hmax : x.restarted = false → ∀ c, (st.b.chunks c).recs ≠ [] → c ≤ st.hs.maxChunk
  sound : ∀ c y, InCk (st.hs.chunks c) y → Snd hash st.b c y
  dsok : ∀ c, (∀ sp ∈ (st.hs.chunks c).old, ∀ f, sp.file = some f → f.datasize ≤ (st.b.chunks c).size)
          ∧ (st.hs.chunks c).last.maxoffset ≤ (st.b.chunks c).size
  dsfull : ∀ c, (st.b.chunks c).recs ≠ [] →
          (∃ sp ∈ (st.hs.chunks c).old, ∃ f, sp.file = some f ∧ f.datasize = (st.b.chunks c).size)
          ∨ ((st.hs.chunks c).last.items ≠ [] ∧ (st.hs.chunks c).last.maxoffset = (st.b.chunks c).size)
  szpos : ∀ c, (st.b.chunks c).size > 0 → (st.b.chunks c).recs ≠ []
  le : ∀ c, c > st.hs.maxChunk → (st.hs.chunks c).last.items = []
  tidle : isLarger st.treeID st.hs.maxDumped.1 st.hs.maxDumped.2 = true
  alld : x.restarted = true → ∀ k, k ∈ x.t.written → x.t.others hash k ≠ [] → k ∈ x.t.reg

/-- a lookup in a chunk returns an item the chunk holds, with the (keyhash, key) asked for -/
theorem get_inck {ck : HCk} (g : CkGood ck) {h : Nat} {k : Key} {it : Item} (e : ck.get h k = some it) :
    InCk ck it ∧ it.khash = h ∧ it.key = k := by
  rw [ckGet_eq ck g.last (shape_of_allFiles g.files)] at e
  unfold ckLists firstLk at e
  rw [List.findSome?_cons] at e
  cases hl : lk ck.last.items h k with
  | some y =>
    rw [hl] at e
    simp only [Option.some.injEq] at e
    subst e
    obtain ⟨a, b, c⟩ := lk_some hl
    exact ⟨Or.inl a, b, c⟩
  | none =>
    rw [hl] at e
    simp only at e
    obtain ⟨l, hlm, hfe⟩ := List.exists_of_findSome?_eq_some e
    obtain ⟨a, b, c⟩ := lk_some hfe
    rw [List.mem_map] at hlm
    obtain ⟨sp, hsp, rfl⟩ := hlm
    exact ⟨Or.inr ⟨sp, by simpa using hsp, a⟩, b, c⟩

/-- a key without any record is found by no hint lookup (soundness of the hint items) -/
theorem getItem_none_of_unwritten {cfg : Collide.Cfg} {st : State} {x : TrkR} {n : Nat} (inv : RInv hash cfg st x n) (hid : Nat) (k : Key)
    (hl : lastOf k st.b.log = none) : st.hs.getItem hid (hash k) k = none := by
  unfold Hints.getItem
  have key : ∀ m, getItemGo st.hs hid (hash k) k m = none := by
    intro m
    induction m with
    | zero => rfl
    | succ i ih =>
      unfold getItemGo
      have hm : (if i ≤ hid then st.hs.merged else none) = none := by rw [inv.hmerged]; simp
      rw [hm]
      simp only
      cases hg : (st.hs.chunks i).get (hash k) k with
      | none => simp only; exact ih
      | some it =>
        exfalso
        obtain ⟨a, _, c⟩ := get_inck (inv.hgood i) hg
        obtain ⟨r, hr, hrk, _, _⟩ := inv.sound i it a
        -- a record of key k exists in file i
        have hne : lastIn k (st.b.chunks i).recs ≠ none := by
          intro hn
          rw [lastIn_none] at hn
          exact hn _ hr (by rw [hrk, c])
        have hi : i ≤ st.b.head := by
          cases Nat.lt_or_ge st.b.head i with
          | inl hlt => rw [(inv.pos.fresh i hlt).1] at hr; cases hr
          | inr hge => exact hge
        rw [lastOf_log] at hl
        exact hne (lastDown_none hl i (by omega))
  exact key _

end
end CollideLemmas
