/-
  C13 — the collision path of the store (`GoBeans.Model.Collide`): the theorems.

  (b) `C13_safe_with_restarts`: for EVERY key-hash function (any number of colliding keys), every configuration with
      check_vhash off, `SplitCap ≥ 1` and `DataFileMax < 2^32`, and every history of the class `SafeR` (a decidable
      predicate on the history alone: sets with automatic revision, incr, get, meta, flush, the hint dumper's round in
      any order and any number; deletes only of keys the collision table already knows or of keys without written
      hash-mates; restarts — tree dump kept or rebuilt from the hint files — when every key with a written hash-mate is
      in the table, and no new undetected pair afterwards) the replies of `Collide.run` are those of the reference map
      `Spec.run`, up to version numbers.  Proved by the invariant `CollideLemmas.RInv`.
      `C13_safe_histories_answer_like_reference` is the restart-free core (class `Safe`, invariant `SInv`).
  (c) `CollideWitness.*`: for each mechanism behind the known findings a minimal history on which the model deviates
      from the reference exactly as the real store does.
  (a) `C13_collide_extends_store`: for a key hash injective on the keys in use the collision-path model returns the
      replies of the non-colliding bucket model (`Store.step`, `Store.gcRun`), for histories without restarts;
      `C13_collide_extends_store_statement` is the statement with restarts (open: the hint replay of `Collide.reopen`
      against `Store.step`'s `replayTree`).
-/
import GoBeans.Lemmas.CollideSafeMain
import GoBeans.Lemmas.CollideWitnessGC
import GoBeans.Lemmas.CollideExt
import GoBeans.Lemmas.CollideRMain

open Store Spec Collide CollideLemmas StoreLemmas

/-! ### (a) the new model extends the old one -/

/-- the full statement, restarts included (`ExtOK` with `reopen` admitted) — FALSE as written (`SplitCap = 0`:
    `CollideRstExample.C13_statement_false`); PROVED for `SplitCap ≥ 1` and histories without GC requests
    (`C13_collide_extends_store_restarts`, Lemmas/CollideRst.lean).  The original note:  Without GC and explicit revisions
    the restart case follows from (b) (`tree_final`: for a hash with one key in use the slot after the hint loop is that
    key's last record); what is missing is to carry the hint invariants of `RInv` through the GC pass and to compare exact
    version numbers with `Store.step … (.reopen _)` (`replayTree` / the kept tree) -/
def C13_collide_extends_store_statement : Prop :=
  ∀ (hash : Key → Nat) (K : Key → Prop), InjOn hash K → ∀ (cfg : Collide.Cfg), cfg.s.checkVHash = false → ∀ (R : Nat) (ops : List Collide.Op),
    R + ops.length < 2147483647 →
    (∀ op ∈ ops, match toH op with | some h => HOpOK K cfg.s R h | none => True) →
    (Collide.run hash cfg {} ops).2 = (hrun hash cfg.s {} (ops.filterMap toH)).2

/-- **(a), without restarts**: client commands (explicit revisions included), flush, the hint dumper's round, hint
    merges and GC requests (merge on or off), in any order: the replies of `Collide.run` are those of the non-colliding
    model (`hrun` = `Store.step` + `Store.gcRun`), and therefore those of the reference map -/
theorem C13_collide_extends_store (hash : Key → Nat) (K : Key → Prop) (hInj : InjOn hash K) (cfg : Collide.Cfg)
    (hcv : cfg.s.checkVHash = false) (R : Nat) (ops : List Collide.Op) (hlen : R + ops.length < 2147483647)
    (hops : ∀ op ∈ ops, ExtOK K cfg R op) :
    (Collide.run hash cfg {} ops).2 = (hrun hash cfg.s {} (ops.filterMap toH)).2
    ∧ (Collide.run hash cfg {} ops).2 = (hspec { checkVHash := cfg.s.checkVHash } [] (ops.filterMap toH)).2 := by
  have nc0 : NoColl hash K ({} : Collide.State) := ⟨rfl, fun _ => ckNC_empty hash K⟩
  have h0 : HInv hash K cfg.s R ({} : Collide.State).b [] := hinv_mono hash K (Nat.zero_le R) (hinv_init hash K cfg.s)
  have e1 := ext_run hash K hInj cfg hcv R ops {} [] R nc0 h0 (Nat.le_refl R) hlen hops
  refine ⟨e1, ?_⟩
  rw [e1]
  have hl : (ops.filterMap toH).length ≤ ops.length := List.length_filterMap_le _ _
  refine (hrun_refines hash K cfg.s hcv hInj R (ops.filterMap toH) R {} [] h0 (Nat.le_refl R) (by omega) ?_).1
  intro h hh
  rw [List.mem_filterMap] at hh
  obtain ⟨op, hop, ht⟩ := hh
  have := hops op hop
  cases op <;> simp only [ExtOK, ht] at this <;> first | exact this | exact this.elim

/-- **C13 on the class `Safe`**: the store, as modelled step by step including its collision handling, answers every
    command like the reference map that knows nothing of key hashes -/
theorem C13_safe_histories_answer_like_reference (hash : Key → Nat) (cfg : Collide.Cfg)
    (hcv : cfg.s.checkVHash = false) (hdf : cfg.s.dataFileMax < 4294967296) (hcap : 1 ≤ cfg.cap)
    (ops : List Collide.Op) (hlen : ops.length < 2147483647) (hsafe : Safe hash ops = true) :
    (Collide.run hash cfg {} ops).2.map coarse = (Spec.run {} [] (ops.filterMap Collide.cmdOf)).2.map coarse := by
  unfold Safe at hsafe
  cases hr : Trk.run hash {} ops with
  | none => rw [hr] at hsafe; cases hsafe
  | some t' =>
    exact run_safe hash hcv hdf hcap ops {} {} 0 (sinv_init hash cfg) (by omega) t' hr

/-- **C13 with restarts on the class `SafeR`** (`CollideSafeR.lean`): `Safe` plus restarts — tree dump kept or rebuilt from
    the hint files — at moments when every key with a written hash-mate is in the collision table, and afterwards no new
    undetected pair: still every reply is the reference map's -/
theorem C13_safe_with_restarts : C13_safe_with_restarts_statement := by
  intro hash cfg hcv hdf hcap ops hlen hsafe
  unfold SafeR at hsafe
  cases hr : TrkR.run hash {} ops with
  | none => rw [hr] at hsafe; cases hsafe
  | some x' => exact run_safeR hash hcv hdf hcap ops {} {} 0 (rinv_init hash cfg) (by omega) x' hr

/-- … in particular a get never returns another key's bytes, a missing key is missing and a live key is served -/
theorem C13_safe_get (hash : Key → Nat) (cfg : Collide.Cfg)
    (hcv : cfg.s.checkVHash = false) (hdf : cfg.s.dataFileMax < 4294967296) (hcap : 1 ≤ cfg.cap)
    (ops : List Collide.Op) (k : Key) (hlen : (ops ++ [Collide.Op.get k]).length < 2147483647)
    (hsafe : Safe hash (ops ++ [Collide.Op.get k]) = true) :
    ((Collide.run hash cfg {} (ops ++ [Collide.Op.get k])).2.map coarse).getLast? =
      ((Spec.run {} [] ((ops ++ [Collide.Op.get k]).filterMap Collide.cmdOf)).2.map coarse).getLast? := by
  rw [C13_safe_histories_answer_like_reference hash cfg hcv hdf hcap _ hlen hsafe]

/-! ### non-vacuity: a history of the class with three keys on one hash and an ordinary key — second and third key
    written while the slot belongs to another, detection by reads, overwrites, deletes of keys the table knows, incr,
    a never-written hash-mate read, flushes and dumper rounds in between -/

namespace CollideExample
open CollideWitness

def kD : Key := [100]
def safeOps : List Collide.Op :=
  [.set kA [1] 0 0 T 256, .set kX [9] 0 0 T 256, .set kB [2] 1 0 T 256, .get kD, .hintDump, .get kA, .info kB,
   .set kC [3] 0 0 T 512, .flush, .get kC, .get kB, .delete kA 256 T, .get kA, .get kB, .incr kC 5 256 T,
   .set kA [49] Spec.FLAG_INCR 0 T 256, .incr kA 7 256 T, .hintDump, .delete kB 256 T, .delete kB 256 T, .get kB, .get kC, .get kA,
   .delete kX 256 T, .info kX, .set kD [4] 0 0 T 256, .get kD, .get kC]

example : Safe hW safeOps = true := by decide +kernel

/-- the model's replies on it (they are the reference map's, by the theorem) -/
example : (Collide.run hW {} {} safeOps).2 =
    [.stored, .stored, .stored, .miss, .value 0 [1], .info 2 (vhashOf [2]) 1 1 (some T), .stored, .value 0 [3], .value 1 [2],
     .deleted, .miss, .value 1 [2], .num 0, .stored, .num 8, .deleted, .notFound, .miss, .value 0 [3], .value Spec.FLAG_INCR [56],
     .deleted, .info (-2) 0 0 0 none, .stored, .value 0 [4], .value 0 [3]] := by decide +kernel

/-- the witnesses of part (c) are outside the class, as they must be -/
example : Safe hW w1 = false ∧ Safe hW w2 = false ∧ Safe hW w3 = false ∧ Safe hW w4 = false ∧ Safe hW w7 = false := by decide +kernel


/-! non-vacuity of (a): two keys with different hashes, small data files, a GC request with merge in between -/
def exK : Key → Prop := fun k => k = kA ∨ k = kX
def exCfg : Collide.Cfg := { s := { dataFileMax := 512, bodyMax := 100 }, cap := 2 }
def extOps : List Collide.Op :=
  [.set kA [1] 0 0 T 256, .set kX [9] 0 3 T 256, .hintDump, .set kA [2] 0 0 T 256, .delete kX 256 T, .flush, .hintMerge,
   gcAll 0 0 true, .get kA, .get kX, .incr kX 4 256 T, gcAll (-1) (-1) false, .info kX, .get kA]

theorem exInj : InjOn hW exK := by
  intro a b ha hb h
  rcases ha with rfl | rfl <;> rcases hb with rfl | rfl <;> first | rfl | (exfalso; revert h; decide)

theorem extOps_ok : ∀ op ∈ extOps, ExtOK exK exCfg 3 op := by
  intro op hop
  simp only [extOps, List.mem_cons, List.mem_nil_iff, or_false] at hop
  rcases hop with rfl | rfl | rfl | rfl | rfl | rfl | rfl | rfl | rfl | rfl | rfl | rfl | rfl | rfl <;>
    simp [ExtOK, toH, HOpOK, OpOK3, OpOK, exK, exCfg, gcAll, kA, kX, T]

example : (Collide.run hW exCfg {} extOps).2 = (hrun hW exCfg.s {} (extOps.filterMap toH)).2 :=
  (C13_collide_extends_store hW exK exInj exCfg rfl 3 extOps (by decide) extOps_ok).1


/-! non-vacuity of the theorem with restarts: detection, delete of an ordinary key, a REBUILD (its delete marker is dropped),
    a restart with the tree dump kept, a new key of a detected hash after the restart, another rebuild -/
def safeROps : List Collide.Op :=
  [.set kA [1] 0 0 T 256, .set kX [9] 0 0 T 256, .set kB [2] 0 0 T 256, .get kA, .delete kX 256 T, .reopen false, .get kX, .info kX,
   .set kX [8] 0 0 T 256, .get kB, .delete kA 256 T, .reopen true, .get kA, .get kB, .incr kB 3 256 T, .set kC [3] 0 0 T 256, .get kC,
   .hintDump, .reopen false, .get kA, .get kB, .get kC, .get kX, .delete kC 256 T, .get kC, .info kB]

example : SafeR hW safeROps = true := by decide +kernel
example : Safe hW safeROps = false := by decide +kernel

example : (Collide.run hW {} {} safeROps).2.map coarse = (Spec.run {} [] (safeROps.filterMap Collide.cmdOf)).2.map coarse :=
  C13_safe_with_restarts hW {} rfl (by decide) (by decide) safeROps (by decide) (by decide +kernel)

/-- the witnesses with restarts are outside `SafeR` -/
example : SafeR hW w4 = false ∧ SafeR hW w5 = false ∧ SafeR hW w6 = false := by decide +kernel

end CollideExample
