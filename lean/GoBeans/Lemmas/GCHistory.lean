/-
  Histories with garbage collection anywhere: client commands, flushes, restarts (tree dump loaded or rebuilt) and GC
  REQUESTS (any arguments: they go through `gcCheckRange`, a refused request changes nothing) in any order, any
  number of times.  Every reply equals the reply of the reference map, for which a GC request is a no-op.
-/
import GoBeans.Lemmas.GCRefine
import GoBeans.Lemmas.GCRange
set_option linter.unusedSimpArgs false
set_option linter.unusedVariables false
namespace StoreLemmas
open Store Spec

theorem nextVersion_ne_zero (oldv rev : Int) (h : (Spec.nextVersion oldv rev).2 = true) : (Spec.nextVersion oldv rev).1 ≠ 0 := by
  unfold Spec.nextVersion at *
  split
  · simp; omega
  · split
    · simp; omega
    · split
      · rename_i h1 h2 h3; simp [h1, h2, h3] at h
      · simp; omega

theorem nextVer_ne_zero (oldv rev : Int) (ho : oldv.natAbs < 2147483647) (hr1 : -2147483648 < rev) (hr2 : rev < 2147483648)
    (h : ¬ (nextVer oldv rev).2 = false) : (nextVer oldv rev).1 ≠ 0 := by
  rw [nextVer_eq oldv rev ho hr1 hr2] at h ⊢
  exact nextVersion_ne_zero oldv rev (by simpa using h)

section History
variable (hash : Key → Nat) (K : Key → Prop)

theorem nozero_congr {b b' : Bucket} (h : b'.log = b.log) (nz : NoZero b) : NoZero b' := by
  unfold NoZero; rw [h]; exact nz

theorem wf_congr {cfg : Store.Cfg} {b b' : Bucket} (hh : b'.head = b.head)
    (hr : ∀ i, (b'.chunks i).recs = (b.chunks i).recs) (hs : ∀ i, (b'.chunks i).size = (b.chunks i).size) (w : WF cfg b) :
    WF cfg b' :=
  ⟨fun i => by rw [hr, hs]; exact w.ok i, fun i => by rw [hs]; exact w.max i,
   fun i hi => by rw [hr, hs]; rw [hh] at hi; exact w.fresh i hi⟩

theorem pushRec_wf {cfg : Store.Cfg} {b : Bucket} (w : WF cfg b) (ck off : Nat) (r : Rec) (hs : 0 < r.size)
    (hoff : off = (b.chunks ck).size) (hck : b.head ≤ ck) (hfit : off + r.size ≤ cfg.dataFileMax) :
    WF cfg (b.pushRec ck off r) := by
  have hc : ∀ i, (b.pushRec ck off r).chunks i =
      if i = ck then { b.chunks ck with recs := (b.chunks ck).recs ++ [(off, r)], size := off + r.size } else b.chunks i :=
    fun i => rfl
  have hh : (b.pushRec ck off r).head = ck := rfl
  refine ⟨fun i => ?_, fun i => ?_, fun i hi => ?_⟩
  · rw [hc]
    by_cases h : i = ck
    · subst h
      simp only [if_true]
      have := w.ok i
      rw [← hoff] at this
      exact okFrom_snoc this r hs
    · simp only [h, if_false]; exact w.ok i
  · rw [hc]
    by_cases h : i = ck
    · simp only [h, if_true]; exact hfit
    · simp only [h, if_false]; exact w.max i
  · rw [hh] at hi
    rw [hc]
    have : ¬ i = ck := by omega
    simp only [this, if_false]
    exact w.fresh i (by omega)

theorem sealHead_wf {cfg : Store.Cfg} {b : Bucket} (w : WF cfg b) : WF cfg b.sealHead :=
  wf_congr (b := b) (b' := b.sealHead) rfl (fun i => (sealHead_recs b i).1) (fun i => (sealHead_recs b i).2) w

theorem append_wf {cfg : Store.Cfg} {b : Bucket} (w : WF cfg b) (r : Rec) (hs : 0 < r.size) (hm : r.size ≤ cfg.dataFileMax) :
    WF cfg (b.append cfg r).1 := by
  unfold Bucket.append Bucket.slot
  by_cases hrot : (b.chunks b.head).size + r.size > cfg.dataFileMax
  · simp only [hrot, ↓reduceIte]
    have w' := sealHead_wf w
    have hf := w'.fresh (b.head + 1) (by show b.head < b.head + 1; omega)
    exact pushRec_wf w' (b.head + 1) 0 r hs (by rw [hf.2]) (by show b.head ≤ b.head + 1; omega) (by omega)
  · simp only [hrot, ↓reduceIte]
    exact pushRec_wf w b.head _ r hs rfl (Nat.le_refl _) (by omega)

theorem put_wf {cfg : Store.Cfg} {b : Bucket} (w : WF cfg b) (nz : NoZero b) (r : Rec) (hs : 0 < r.size)
    (hm : r.size ≤ cfg.dataFileMax) (hv : r.ver ≠ 0) :
    WF cfg (b.put hash cfg r).1 ∧ NoZero (b.put hash cfg r).1 := by
  have hlog : (b.put hash cfg r).1.log = b.log ++ [((b.append cfg r).2, r)] := log_append cfg b r w.posInv
  refine ⟨?_, ?_⟩
  · have := append_wf w r hs hm
    exact ⟨this.ok, this.max, this.fresh⟩
  · intro x hx
    rw [hlog, List.mem_append] at hx
    rcases hx with hx | hx
    · exact nz x hx
    · simp only [List.mem_singleton] at hx; subst hx; exact hv

theorem cas_wf (cfg : Store.Cfg) {n : Nat} (hn : n + 1 < 2147483647) {b : Bucket} {m : KV} (inv : Inv hash K n b m)
    (w : WF cfg b) (nz : NoZero b) (k : Key) (body : Bytes) (flag : Nat) (rev : Int) (ts : Option Nat) (size wts : Nat)
    (hk : K k) (hs : 0 < size) (hm : size ≤ cfg.dataFileMax) (hr1 : -2147483648 < rev) (hr2 : rev < 2147483648) :
    WF cfg (checkAndSet hash cfg b k body flag rev ts size wts).1 ∧ NoZero (checkAndSet hash cfg b k body flag rev ts size wts).1 := by
  cases ht : AMap.get b.tree (hash k) with
  | none =>
    rw [cas_none hash cfg b k body flag rev ts size wts ht]
    split
    · exact ⟨w, nz⟩
    · rename_i h2
      split
      · exact ⟨w, nz⟩
      · exact put_wf hash w nz _ hs hm (nextVer_ne_zero 0 rev (by simp) hr1 hr2 h2)
  | some it =>
    have hb : it.ver.natAbs ≤ n := by
      rcases inv.agree k hk with ⟨a, _⟩ | ⟨it', e, r, a1, a2, a3, a4, a5, a6, a7, a8, a9, a10, a11⟩
      · rw [ht] at a; cases a
      · rw [ht] at a1; cases a1; exact a11
    rw [cas_some hash cfg b k body flag rev ts size wts it ht]
    by_cases c1 : (it.ver > 0 ∧ (if rev ≥ 0 then vhashOf body else 0) = it.vhash) ∧ cfg.checkVHash = true
    · rw [if_pos c1]
      by_cases c0 : rev ≠ 0
      · rw [if_pos c0]; exact ⟨⟨w.ok, w.max, w.fresh⟩, nozero_congr rfl nz⟩
      · rw [if_neg c0]; exact ⟨w, nz⟩
    · rw [if_neg c1]
      by_cases c2 : (nextVer it.ver rev).2 = false
      · rw [if_pos c2]; exact ⟨w, nz⟩
      · rw [if_neg c2]
        by_cases c3 : (nextVer it.ver rev).1 < 0 ∧ it.ver < 0
        · rw [if_pos c3]; exact ⟨w, nz⟩
        · rw [if_neg c3]
          exact put_wf hash w nz _ hs hm (nextVer_ne_zero it.ver rev (by omega) hr1 hr2 c2)

/-- operations of a history, now also with the record-size limit of the configuration -/
def OpOK3 (cfg : Store.Cfg) (R : Nat) : Op → Prop
  | .set k body flag rev ts size => OpOK K R (.set k body flag rev ts size) ∧ size ≤ cfg.dataFileMax ∧ R < 2147483647
  | .delete k size w => OpOK K R (.delete k size w) ∧ size ≤ cfg.dataFileMax
  | .incr k d size w => OpOK K R (.incr k d size w) ∧ size ≤ cfg.dataFileMax
  | .reopen _ => True
  | op => OpOK K R op

theorem OpOK3.ok2 {cfg : Store.Cfg} {R : Nat} {op : Op} (h : OpOK3 K cfg R op) : OpOK2 K R op := by
  cases op <;> first | exact h.1 | exact h | trivial

theorem step_wf (cfg : Store.Cfg) {n : Nat} (hn : n + 1 < 2147483647) {b : Bucket} {m : KV} (inv : Inv hash K n b m)
    (w : WF cfg b) (nz : NoZero b) (R : Nat) (op : Op) (hop : OpOK3 K cfg R op) :
    WF cfg (Store.step hash cfg b op).1 ∧ NoZero (Store.step hash cfg b op).1 := by
  cases op with
  | set k body flag rev ts size =>
    obtain ⟨⟨hk, hs, _, hr0, hrR⟩, hm, hRb⟩ := hop
    have := cas_wf hash K cfg hn inv w nz k body flag rev (some ts) size ts hk hs hm (by omega) (by omega)
    rw [step_set]
    generalize checkAndSet hash cfg b k body flag rev (some ts) size ts = res at this
    obtain ⟨b', c⟩ := res
    cases c <;> exact this
  | delete k size wts =>
    obtain ⟨⟨hk, hs⟩, hm⟩ := hop
    have := cas_wf hash K cfg hn inv w nz k [] 0 (-1) none size wts hk hs hm (by omega) (by omega)
    rw [step_delete]
    generalize checkAndSet hash cfg b k [] 0 (-1) none size wts = res at this
    obtain ⟨b', c⟩ := res
    cases c <;> exact this
  | incr k d size wts =>
    obtain ⟨⟨hk, hs⟩, hm⟩ := hop
    have hput : ∀ ver v, ver ≠ 0 → WF cfg (b.put hash cfg { key := k, ver := ver, flag := Spec.FLAG_INCR, ts := none, body := Spec.itoa v, size := size, wts := wts }).1
        ∧ NoZero (b.put hash cfg { key := k, ver := ver, flag := Spec.FLAG_INCR, ts := none, body := Spec.itoa v, size := size, wts := wts }).1 :=
      fun ver v hv => put_wf hash w nz _ hs hm hv
    simp only [Store.step]
    split
    · exact hput _ _ (by omega)
    · exact ⟨w, nz⟩
    · exact ⟨w, nz⟩
    · split
      · exact hput _ _ (by omega)
      · rename_i hneg
        split
        · exact ⟨w, nz⟩
        · split
          · exact ⟨w, nz⟩
          · split
            · exact ⟨w, nz⟩
            · exact hput _ _ (by omega)
  | get k => simp only [Store.step]; split <;> (try split) <;> exact ⟨w, nz⟩
  | info k => simp only [Store.step]; split <;> exact ⟨w, nz⟩
  | flush =>
    have hl := (log_flush hash cfg b).1
    refine ⟨?_, nozero_congr hl nz⟩
    have hc : ∀ i, ((Store.step hash cfg b .flush).1.chunks i).recs = (b.chunks i).recs
        ∧ ((Store.step hash cfg b .flush).1.chunks i).size = (b.chunks i).size := by
      intro i
      simp only [Store.step, chunks_setChunk, Bucket.chunk]
      by_cases h : i = b.head
      · subst h; simp
      · simp [h]
    exact wf_congr (b := b) rfl (fun i => (hc i).1) (fun i => (hc i).2) w
  | reopen keep =>
    obtain ⟨_, hl, hp', _⟩ := reopen_facts hash cfg b w.posInv keep
    refine ⟨⟨fun i => w.ok i, fun i => w.max i, hp'.fresh⟩, nozero_congr hl nz⟩

/-! ### histories -/

inductive HOp
  | op (o : Op)
  | gc (g : GcArgs)

/-- a GC request: the range check, then the pass; a refused request changes nothing -/
def gcOp (cfg : Store.Cfg) (b : Bucket) (g : GcArgs) : Bucket :=
  match gcCheckRange cfg b g with
  | .ok (s, e) => (gcRun hash cfg b s e).1
  | .error _ => b

def hrun (cfg : Store.Cfg) : Bucket → List HOp → Bucket × List Reply
  | b, [] => (b, [])
  | b, .op o :: ops =>
    let (b', r, _) := Store.step hash cfg b o
    let (b'', rs) := hrun cfg b' ops
    (b'', match Store.cmdOf o with | some _ => r :: rs | none => rs)
  | b, .gc g :: ops => hrun cfg (gcOp hash cfg b g) ops

/-- the reference: a GC request is invisible -/
def hspec (c : Spec.Cfg) : KV → List HOp → KV × List Reply
  | m, [] => (m, [])
  | m, .op o :: ops =>
    let (m', r) := specStep c m o
    let (m'', rs) := hspec c m' ops
    (m'', match r with | some r => r :: rs | none => rs)
  | m, .gc _ :: ops => hspec c m ops

def HOpOK (cfg : Store.Cfg) (R : Nat) : HOp → Prop
  | .op o => OpOK3 K cfg R o
  | .gc _ => True

structure HInv (cfg : Store.Cfg) (n : Nat) (b : Bucket) (m : KV) : Prop where
  inv : Inv hash K n b m
  lr : LastRec hash K b
  wf : WF cfg b
  nz : NoZero b
  nd : AMap.NodupKeys m

theorem gcOp_hinv (cfg : Store.Cfg) (hInj : InjOn hash K) {n : Nat} {b : Bucket} {m : KV} (h : HInv hash K cfg n b m) (g : GcArgs) :
    HInv hash K cfg n (gcOp hash cfg b g) m := by
  unfold gcOp
  split
  · rename_i s e hr
    obtain ⟨h1, h2⟩ := gcCheckRange_range cfg b g s e hr
    obtain ⟨i1, i2, i3, i4, _⟩ := gcRun_refines hash K cfg hInj h.inv h.lr h.wf h.nz s e h1 h2
    exact ⟨i1, i2, i3, i4, h.nd⟩
  · exact h

theorem specStep_nodup (c : Spec.Cfg) (m : KV) (o : Op) (h : AMap.NodupKeys m) : AMap.NodupKeys (specStep c m o).1 := by
  cases o with
  | reopen keep =>
    cases keep
    · exact AMap.nodup_filter _ h
    · exact h
  | set k body flag rev ts size => exact spec_step_nodup c m _ h
  | delete k size w => exact spec_step_nodup c m _ h
  | incr k d size w => exact spec_step_nodup c m _ h
  | get k => exact spec_step_nodup c m _ h
  | info k => exact spec_step_nodup c m _ h
  | flush => exact h

theorem op_hinv (cfg : Store.Cfg) (hcv : cfg.checkVHash = false) (hInj : InjOn hash K) (R : Nat) {n : Nat} {b : Bucket} {m : KV}
    (h : HInv hash K cfg n b m) (hR : R ≤ n) (hn : n + 1 < 2147483647) (o : Op) (hop : OpOK3 K cfg R o) :
    HInv hash K cfg (n + 1) (Store.step hash cfg b o).1 (specStep { checkVHash := cfg.checkVHash } m o).1
    ∧ (match Store.cmdOf o with | some _ => [(Store.step hash cfg b o).2.1] | none => [])
        = (match (specStep { checkVHash := cfg.checkVHash } m o).2 with | some r => [r] | none => []) := by
  have h1 := run_refines_restart hash K cfg hcv hInj R [o] n b m h.inv h.lr h.nd hR (by simpa using hn)
    (fun op hop' => by simp at hop'; subst hop'; exact hop.ok2)
  have e1 : (Store.run hash cfg b [o]).1 = (Store.step hash cfg b o).1 := rfl
  have e2 : (specRun { checkVHash := cfg.checkVHash } m [o]).1 = (specStep { checkVHash := cfg.checkVHash } m o).1 := rfl
  have e3 : (Store.run hash cfg b [o]).2 = (match Store.cmdOf o with | some _ => [(Store.step hash cfg b o).2.1] | none => []) := rfl
  have e4 : (specRun { checkVHash := cfg.checkVHash } m [o]).2
      = (match (specStep { checkVHash := cfg.checkVHash } m o).2 with | some r => [r] | none => []) := rfl
  rw [e1, e2, e3, e4] at h1
  obtain ⟨w', nz'⟩ := step_wf hash K cfg hn h.inv h.wf h.nz R o hop
  exact ⟨⟨h1.2.1, h1.2.2, w', nz', specStep_nodup _ m o h.nd⟩, h1.1⟩

theorem hinv_mono {cfg : Store.Cfg} {n n' : Nat} (hn : n ≤ n') {b : Bucket} {m : KV} (h : HInv hash K cfg n b m) :
    HInv hash K cfg n' b m :=
  ⟨inv_mono hash K hn h.inv, h.lr, h.wf, h.nz, h.nd⟩

/-- HISTORIES WITH GC: every reply equals the reference map's, whatever GC requests are interleaved -/
theorem hrun_refines (cfg : Store.Cfg) (hcv : cfg.checkVHash = false) (hInj : InjOn hash K) (R : Nat) (ops : List HOp) :
    ∀ (n : Nat) (b : Bucket) (m : KV), HInv hash K cfg n b m → R ≤ n → n + ops.length < 2147483647 →
      (∀ op ∈ ops, HOpOK K cfg R op) →
      (hrun hash cfg b ops).2 = (hspec { checkVHash := cfg.checkVHash } m ops).2
      ∧ HInv hash K cfg (n + ops.length) (hrun hash cfg b ops).1 (hspec { checkVHash := cfg.checkVHash } m ops).1 := by
  induction ops with
  | nil => intro n b m h _ _ _; exact ⟨rfl, h⟩
  | cons op ops ih =>
    intro n b m h hR hn hops
    have hrest : ∀ o ∈ ops, HOpOK K cfg R o := fun o ho => hops o (by simp [ho])
    have hlen : (op :: ops).length = ops.length + 1 := rfl
    cases op with
    | gc g =>
      have h' := gcOp_hinv hash K cfg hInj h g
      have := ih n _ m h' hR (by rw [hlen] at hn; omega) hrest
      simp only [hrun, hspec]
      rw [hlen]
      exact ⟨this.1, hinv_mono hash K (by omega) this.2⟩
    | op o =>
      have hop : OpOK3 K cfg R o := hops (.op o) (by simp)
      obtain ⟨h', hr⟩ := op_hinv hash K cfg hcv hInj R h hR (by rw [hlen] at hn; omega) o hop
      have := ih (n + 1) _ _ h' (by omega) (by rw [hlen] at hn; omega) hrest
      simp only [hrun, hspec]
      rw [hlen, show n + (ops.length + 1) = n + 1 + ops.length by omega]
      refine ⟨?_, this.2⟩
      rw [this.1]
      generalize (hspec { checkVHash := cfg.checkVHash } (specStep { checkVHash := cfg.checkVHash } m o).1 ops).2 = rs
      generalize (specStep { checkVHash := cfg.checkVHash } m o).2 = sr at hr
      generalize (Store.step hash cfg b o).2.1 = r at hr
      cases hc : Store.cmdOf o <;> cases sr <;> simp [hc] at hr ⊢
      exact hr

theorem hinv_init (cfg : Store.Cfg) : HInv hash K cfg 0 ({} : Bucket) ([] : KV) := by
  refine ⟨inv_init hash K, lr_init hash K, ⟨fun i => ?_, fun i => ?_, fun i _ => ⟨rfl, rfl⟩⟩, ?_, ?_⟩
  · show okFrom 0 [] 0; simp [okFrom]
  · show 0 ≤ cfg.dataFileMax; omega
  · intro x hx; simp [Bucket.log] at hx
  · simp [AMap.NodupKeys]

end History
end StoreLemmas
