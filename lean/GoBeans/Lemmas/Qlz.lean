/-
  QuickLZ (C10) — proofs about `Model/Qlz.lean`, the model of the Go port's `Decompress` / `DecompressSafe`
  (quicklz.go:291-431, cquicklz.go:62-82).  Core-only.  For ALL byte strings:

  (i)   TERMINATION.  `decompress_terminates`: the main loop `for { … }` of `Decompress` never exhausts `len(source)`
        passes; `decompressFuel_stable`: any bound above `len(source) − headerLen` gives the same result (at most
        `len(source) − headerLen + 1` passes).  Progress measure: bytes of `source` ahead of `src` — every pass that
        neither returns nor panics advances `src` by ≥ 1 and ends with a successful read of `source[src+2]`
        (`step_cont`).  `decompressWork_le`: passes + every inner-loop iteration (match copies ≤ 258 per pass, level-1
        hash updates ≤ 3 per pass by the invariant `lastHashed < dst ≤ lastHashed+3`, final literals ≤ size) is at most
        262·(len(source) − headerLen + 1) + SizeDecompressed(source).  There is no input that loops forever.
  (ii)  `decompressSafe_spec`: `DecompressSafe` returns an error ("bad sizeCompressed" or a recovered panic) or a slice of
        exactly the announced decompressed length for an input of exactly the announced compressed length
        (`decompress_size`: whatever `Decompress` returns has the announced length, so the "bad sizeDecompressed"
        branch is dead code).
  (iii) `allocBeforeChecks_le`, `allocBeforeChecks_short`, `allocTotal_le`, `hostile9_alloc`: the allocation made before
        any check is `SizeDecompressed + 36 864` ≤ 2^32 − 1 + 36 864 bytes (3-byte header form: ≤ 255 + 36 864), attained
        by a NINE-byte input that passes the length check; that call allocates twice 4 GiB and returns 4 GiB of zeros
        with a nil error (`decompress_stored`: the stored form is not validated against the payload length).
-/
import GoBeans.Model.Qlz
set_option linter.unusedVariables false
set_option linter.unusedSimpArgs false
namespace QlzLemmas
open Qlz

/-! ## checked accesses -/

theorem wr_size {a a' : Buf} {i : Nat} {v : UInt8} (h : wr a i v = some a') : a'.size = a.size := by
  unfold wr at h
  split at h
  · cases h; simp
  · cases h

theorem wr_some_lt {a a' : Buf} {i : Nat} {v : UInt8} (h : wr a i v = some a') : i < a.size := by
  unfold wr at h
  split at h
  · assumption
  · cases h

theorem getElem?_some_lt {a : Buf} {i : Nat} {b : UInt8} (h : a[i]? = some b) : i < a.size :=
  (Array.getElem?_eq_some_iff.mp h).1

theorem fastRead_some_lt {a : Buf} {i n v : Nat} (h : fastRead a i (n + 1) = some v) : i + n < a.size := by
  unfold fastRead at h
  split at h
  · cases h
  · split at h
    · cases h
    · rename_i hb
      exact getElem?_some_lt hb

/-- `fastRead` of `n` bytes is below 2^(8n): Go's 64-bit `int` holds every value the decoder builds (n ≤ 4) -/
theorem fastRead_lt {a : Buf} {i : Nat} : ∀ {n v : Nat}, fastRead a i n = some v → v < 2 ^ (8 * n) := by
  intro n
  induction n with
  | zero => intro v h; simp [fastRead] at h; omega
  | succ n ih =>
    intro v h
    unfold fastRead at h
    split at h
    · cases h
    · rename_i l hl
      split at h
      · cases h
      · rename_i b hb
        cases h
        have h1 : l < 2 ^ (8 * (n + 1)) := Nat.lt_of_lt_of_le (ih hl) (Nat.pow_le_pow_right (by omega) (by omega))
        have h2 : b.toNat <<< (8 * n) < 2 ^ (8 * (n + 1)) := by
          rw [Nat.shiftLeft_eq]
          have hb : b.toNat < 2 ^ 8 := by have := b.toNat_lt; omega
          calc b.toNat * 2 ^ (8 * n) < 2 ^ 8 * 2 ^ (8 * n) := Nat.mul_lt_mul_of_pos_right hb (Nat.pow_pos (by omega))
            _ = 2 ^ (8 * (n + 1)) := by rw [← Nat.pow_add]; congr 1; omega
        exact Nat.or_lt_two_pow h1 h2

theorem copyFrom_size (dst : Nat) (off2 : Int) : ∀ (n i : Nat) (d d' : Buf), copyFrom dst off2 i n d = some d' → d'.size = d.size := by
  intro n
  induction n with
  | zero => intro i d d' h; simp [copyFrom] at h; rw [h]
  | succ n ih =>
    intro i d d' h
    unfold copyFrom at h
    split at h
    · cases h
    · split at h
      · cases h
      · rename_i b _ d1 hw
        rw [ih _ _ _ h, wr_size hw]

theorem tailLoop_size (s : Buf) : ∀ (n src dst cw : Nat) (d d' : Buf), tailLoop s n src dst cw d = some d' → d'.size = d.size := by
  intro n
  induction n with
  | zero => intro src dst cw d d' h; simp [tailLoop] at h; rw [h]
  | succ n ih =>
    intro src dst cw d d' h
    unfold tailLoop at h
    simp only at h
    split at h
    · cases h
    · split at h
      · cases h
      · rename_i hw
        rw [ih _ _ _ _ _ h, wr_size hw]

theorem hashUpdLit_lh (d : Buf) : ∀ (n : Nat) (ht : Array Int) (lh : Int) (ht' : Array Int) (lh' : Int),
    hashUpdLit d n ht lh = some (ht', lh') → lh' = lh + n := by
  intro n
  induction n with
  | zero => intro ht lh ht' lh' h; simp [hashUpdLit] at h; omega
  | succ n ih =>
    intro ht lh ht' lh' h
    unfold hashUpdLit at h
    simp only at h
    split at h
    · cases h
    · split at h
      · cases h
      · have := ih _ _ _ _ h
        omega

/-- level-1 bookkeeping: `lastHashed < dst ≤ lastHashed + 3` -/
def Gap (st : St) : Prop := st.lastHashed < (st.dst : Int) ∧ (st.dst : Int) ≤ st.lastHashed + 3

theorem and_le (x m : Nat) : x &&& m ≤ m := Nat.and_le_right

theorem decodeMatch_props {s : Buf} {level : Nat} {st : St} {ml : Nat} {off2 : Int} {src' : Nat}
    (h : decodeMatch s level st = some (ml, off2, src')) : st.src < src' ∧ src' ≤ st.src + 4 ∧ ml ≤ 258 := by
  unfold decodeMatch at h
  simp only at h
  repeat' (split at h)
  all_goals (try contradiction)
  all_goals (simp only [Option.some.injEq, Prod.mk.injEq] at h; obtain ⟨h1, h2, h3⟩ := h; subst h1; subst h3)
  all_goals (refine ⟨by omega, by omega, ?_⟩)
  · have := and_le st.fetch 0xf; omega
  · rename_i b _; have := and_le b.toNat 0xff; omega
  · omega
  · omega
  · have := and_le (st.fetch >>> 2) 15; omega
  · have := and_le (st.fetch >>> 2) 0x1f; omega
  · have := and_le (st.fetch >>> 7) 255; omega

theorem matchStep_props {s : Buf} {level : Nat} {st st' : St} (h : matchStep s level st = some st') :
    st'.dest.size = st.dest.size ∧ st.src < st'.src ∧ st'.src + 2 < s.size ∧ st.dst ≤ st'.dst ∧ Gap st' := by
  unfold matchStep at h
  repeat' (first | split at h | (simp only at h; split at h))
  all_goals (try contradiction)
  all_goals (simp only [Option.some.injEq] at h; subst h)
  all_goals (
    have hdm := decodeMatch_props ‹decodeMatch _ _ _ = some _›
    have hc1 := copyFrom_size _ _ _ _ _ _ ‹copyFrom _ _ 0 3 _ = some _›
    have hc2 := copyFrom_size _ _ _ _ _ _ ‹copyFrom _ _ 3 _ _ = some _›)
  · have hfr := fastRead_some_lt ‹fastRead s _ 3 = some _›
    refine ⟨by simp only; rw [hc2, hc1], by simp only; omega, by simp only; omega, by simp only; omega, ?_⟩
    simp only [Gap]; omega
  · have hfr := fastRead_some_lt ‹fastRead s _ 4 = some _›
    refine ⟨by simp only; rw [hc2, hc1], by simp only; omega, by simp only; omega, by simp only; omega, ?_⟩
    simp only [Gap]; omega

theorem litStep_props {s : Buf} {level : Nat} {st st' : St} (h : litStep s level st = some st') :
    st'.dest.size = st.dest.size ∧ st'.src = st.src + 1 ∧ st'.src + 2 < s.size ∧ st'.dst = st.dst + 1 ∧ st.dst < st.dest.size
      ∧ (level = 1 → Gap st → Gap st') := by
  unfold litStep at h
  repeat' (first | split at h | (simp only at h; split at h))
  all_goals (try contradiction)
  all_goals (simp only [Option.some.injEq] at h; subst h)
  · have h1 := wr_size ‹wr _ _ _ = some _›
    have h2 := wr_some_lt ‹wr _ _ _ = some _›
    have h3 := getElem?_some_lt ‹s[st.src + 1 + 2]? = some _›
    have h4 := hashUpdLit_lh _ _ _ _ _ _ ‹hashUpdLit _ _ _ _ = some _›
    refine ⟨h1, rfl, by simp; omega, rfl, h2, ?_⟩
    intro _ hg
    simp only [Gap] at hg ⊢
    omega
  · have h1 := wr_size ‹wr _ _ _ = some _›
    have h2 := wr_some_lt ‹wr _ _ _ = some _›
    have h3 := getElem?_some_lt ‹s[st.src + 1 + 2]? = some _›
    exact ⟨h1, rfl, by simp; omega, rfl, h2, fun h => absurd h ‹¬level = 1›⟩

theorem loadCword_props {s : Buf} {level : Nat} {lms : Int} {st st' : St} (h : loadCword s level lms st = some st') :
    st'.dest = st.dest ∧ st.src ≤ st'.src ∧ st'.dst = st.dst ∧ st'.lastHashed = st.lastHashed := by
  unfold loadCword at h
  repeat' (first | split at h | (simp only at h; split at h))
  all_goals (try contradiction)
  all_goals (simp only [Option.some.injEq] at h; subst h)
  all_goals (simp)

theorem loadCword_gap {s : Buf} {level : Nat} {lms : Int} {st st' : St} (h : loadCword s level lms st = some st') (hg : Gap st) : Gap st' := by
  obtain ⟨_, _, h3, h4⟩ := loadCword_props h
  simp only [Gap] at hg ⊢
  rw [h3, h4]; exact hg

/-- one pass that continues: `src` has advanced and the byte at `src+2` exists; `destination` keeps its length -/
theorem step_cont {s : Buf} {level size : Nat} {st st' : St} (h : step s level size st = some (.cont st')) :
    st'.dest.size = st.dest.size ∧ st.src < st'.src ∧ st'.src + 2 < s.size ∧ st.dst ≤ st'.dst ∧ (level = 1 → Gap st → Gap st') := by
  unfold step at h
  simp only at h
  split at h
  · contradiction
  · rename_i st1 hl
    obtain ⟨hd, hs, hdst, hlh⟩ := loadCword_props hl
    split at h
    · simp only [Option.map_eq_some_iff] at h
      obtain ⟨st2, hm, heq⟩ := h
      cases heq
      obtain ⟨h1, h2, h3, h4, h5⟩ := matchStep_props hm
      exact ⟨by rw [h1, hd], by omega, h3, by omega, fun _ _ => h5⟩
    · split at h
      · simp only [Option.map_eq_some_iff] at h
        obtain ⟨st2, hm, heq⟩ := h
        cases heq
        obtain ⟨h1, h2, h3, h4, h5, h6⟩ := litStep_props hm
        exact ⟨by rw [h1, hd], by omega, h3, by omega, fun hl1 hg => h6 hl1 (loadCword_gap hl hg)⟩
      · simp only [Option.map_eq_some_iff] at h
        obtain ⟨_, _, heq⟩ := h
        cases heq

/-- the pass that returns: the slice returned is `destination`, same length -/
theorem step_done {s : Buf} {level size : Nat} {st : St} {out : Buf} (h : step s level size st = some (.done out)) :
    out.size = st.dest.size := by
  unfold step at h
  simp only at h
  split at h
  · contradiction
  · rename_i st1 hl
    obtain ⟨hd, hs, hdst, hlh⟩ := loadCword_props hl
    split at h
    · simp only [Option.map_eq_some_iff] at h
      obtain ⟨_, _, heq⟩ := h
      cases heq
    · split at h
      · simp only [Option.map_eq_some_iff] at h
        obtain ⟨_, _, heq⟩ := h
        cases heq
      · simp only [Option.map_eq_some_iff] at h
        obtain ⟨o, ht, heq⟩ := h
        cases heq
        rw [tailLoop_size _ _ _ _ _ _ _ ht, hd]

/-! ## the main loop terminates -/

/-- with more passes allowed than bytes left in `source`, the loop never stops for lack of fuel -/
theorem loop_ne_fuel (s : Buf) (level size : Nat) : ∀ (fuel : Nat) (st : St), s.size - st.src < fuel → loop s level size fuel st ≠ .fuel := by
  intro fuel
  induction fuel with
  | zero => intro st h; omega
  | succ n ih =>
    intro st h
    unfold loop
    split
    · simp
    · simp
    · rename_i st' hs
      obtain ⟨_, h2, h3, _⟩ := step_cont hs
      apply ih
      omega

/-- more fuel does not change a result that was reached -/
theorem loop_fuel_mono (s : Buf) (level size : Nat) : ∀ (fuel : Nat) (st : St) (k : Nat),
    loop s level size fuel st ≠ .fuel → loop s level size (fuel + k) st = loop s level size fuel st := by
  intro fuel
  induction fuel with
  | zero => intro st k h; simp [loop] at h
  | succ n ih =>
    intro st k h
    have : n + 1 + k = (n + k) + 1 := by omega
    rw [this]
    unfold loop at h ⊢
    split
    · rfl
    · rfl
    · rename_i st' hs
      rw [hs] at h
      exact ih st' k h

theorem loop_size (s : Buf) (level size : Nat) : ∀ (fuel : Nat) (st : St) (out : Buf),
    loop s level size fuel st = .ok out → out.size = st.dest.size := by
  intro fuel
  induction fuel with
  | zero => intro st out h; simp [loop] at h
  | succ n ih =>
    intro st out h
    unfold loop at h
    split at h
    · cases h
    · rename_i o hs
      cases h
      exact step_done hs
    · rename_i st' hs
      rw [ih _ _ h, (step_cont hs).1]


/-! ## `Decompress` as a whole -/

theorem headerLen_cases {s : Buf} {hl : Nat} (h : headerLen s = some hl) : (hl = 3 ∨ hl = 9) ∧ 0 < s.size := by
  unfold headerLen at h
  split at h
  · contradiction
  · rename_i b hb
    have := getElem?_some_lt hb
    split at h <;> (cases h; omega)

theorem initSt_dest_size (hl size : Nat) : (initSt hl size).dest.size = size := by simp [initSt]

theorem storedCopy_size (s : Buf) (hl size : Nat) : (storedCopy s hl size).size = size := by simp [storedCopy]

/-- (i) TERMINATION.  With `fuel > len(source) - headerLen` passes allowed, the main loop of `Decompress` never runs out
    of passes: the loop cannot spin.  (Every pass that does not return or panic advances `src` by at least one and
    leaves `src + 2 < len(source)`.) -/
theorem decompressFuel_ne_fuel (s : Buf) (fuel : Nat) (h : ∀ hl, headerLen s = some hl → s.size - hl < fuel) :
    decompressFuel fuel s ≠ .fuel := by
  unfold decompressFuel
  repeat' split
  all_goals (try simp)
  exact loop_ne_fuel _ _ _ _ _ (by simpa [initSt] using h _ ‹headerLen s = some _›)

/-- (i) `Decompress` terminates on every input: its main loop makes at most `len(source)` passes (the model gives it
    exactly that many and never exhausts them). -/
theorem decompress_terminates (s : Buf) : decompress s ≠ .fuel := by
  apply decompressFuel_ne_fuel
  intro hl h
  have := headerLen_cases h
  omega

/-- (i) the fuel is not an artefact: any bound above `len(source) - headerLen` gives the same result; in particular the
    main loop makes at most `len(source) - headerLen + 1` passes. -/
theorem decompressFuel_stable (s : Buf) (fuel : Nat) (h : ∀ hl, headerLen s = some hl → s.size - hl < fuel) :
    decompressFuel fuel s = decompress s := by
  have h1 := decompressFuel_ne_fuel s fuel h
  have h2 := decompress_terminates s
  unfold decompress decompressFuel at *
  repeat' split
  all_goals (try rfl)
  all_goals (simp only [*] at h1 h2)
  rcases Nat.le_total fuel s.size with hle | hle
  · obtain ⟨k, hk⟩ := Nat.exists_eq_add_of_le hle
    rw [hk, loop_fuel_mono _ _ _ _ _ _ h1]
  · obtain ⟨k, hk⟩ := Nat.exists_eq_add_of_le hle
    rw [hk, loop_fuel_mono _ _ _ _ _ _ h2]

/-- (ii) whatever `Decompress` returns has exactly the length the header announces -/
theorem decompress_size {s out : Buf} (h : decompress s = .ok out) : sizeDecompressed s = some out.size := by
  unfold decompress decompressFuel at h
  repeat' (split at h)
  all_goals (try contradiction)
  · cases h; rw [‹sizeDecompressed s = some _›, storedCopy_size]
  · rw [‹sizeDecompressed s = some _›, loop_size _ _ _ _ _ _ h, initSt_dest_size]

/-- (ii) `DecompressSafe`, for ALL byte strings: it returns (it cannot hang), and it returns either an error or a slice
    of exactly the announced decompressed length, the input having exactly the announced compressed length.
    The error is "bad sizeCompressed" or a recovered panic; "bad sizeDecompressed" can never be reported. -/
theorem decompressSafe_spec (s : Buf) :
    (∃ out, decompressSafe s = .ok out ∧ sizeCompressed s = some s.size ∧ sizeDecompressed s = some out.size)
    ∨ decompressSafe s = .error .badSizeC ∨ decompressSafe s = .error .recovered := by
  unfold decompressSafe
  repeat' split
  all_goals (try simp)
  · exact absurd ‹decompress s = .fuel› (decompress_terminates s)
  · have h2 := ‹sizeDecompressed s = some _›
    have h1 := decompress_size ‹decompress s = .ok _›
    rw [h2] at h1
    have := Option.some.inj h1
    exfalso; omega
  · have := decompress_size ‹decompress s = .ok _›
    exact ⟨by rw [‹sizeCompressed s = some _›]; congr 1; omega, this⟩


/-! ## (i, continued) a bound on ALL the work: inner loops included -/

/-- inner-loop iterations of one pass: the iteration counts that `matchStep` / `litStep` / `step` hand to `copyFrom`,
    `hashUpdMatch`, `hashUpdLit`, `tailLoop` (0 for a pass that panics before reaching them) -/
def passWork (s : Buf) (level size : Nat) (st : St) : Nat :=
  match loadCword s level ((size : Int) - 11) st with
  | none => 0
  | some st =>
    if st.cword &&& 1 = 1 then
      match decodeMatch s level st with
      | none => 0
      | some (ml, _, _) => 3 + (ml - 3) + (if level = 1 then ((st.dst : Int) - st.lastHashed).toNat else 0)
    else if (st.dst : Int) ≤ (size : Int) - 11 then
      (if level = 1 then (((st.dst + 1 : Nat) : Int) - 3 - st.lastHashed).toNat else 0)
    else size - st.dst

/-- passes + inner-loop iterations of the whole main loop -/
def loopWork (s : Buf) (level size : Nat) : Nat → St → Nat
  | 0, _ => 0
  | n + 1, st =>
    passWork s level size st + 1 +
      match step s level size st with
      | some (.cont st') => loopWork s level size n st'
      | _ => 0

theorem passWork_le (s : Buf) (level size : Nat) (st : St) (hg : level = 1 → Gap st) : passWork s level size st ≤ 261 + size := by
  unfold passWork
  split
  · omega
  · rename_i st1 hl
    have hg1 : level = 1 → Gap st1 := fun h => loadCword_gap hl (hg h)
    split
    · split
      · omega
      · rename_i ml _ _ hdm
        have := (decodeMatch_props hdm).2.2
        split
        · rename_i h1
          have := hg1 h1
          simp only [Gap] at this
          omega
        · omega
    · split
      · split
        · rename_i h1
          have := hg1 h1
          simp only [Gap] at this
          omega
        · omega
      · omega

theorem passWork_cont_le {s : Buf} {level size : Nat} {st st' : St} (hs : step s level size st = some (.cont st'))
    (hg : level = 1 → Gap st) : passWork s level size st ≤ 261 := by
  unfold step at hs
  unfold passWork
  simp only at hs
  split
  · omega
  · rename_i st1 hl
    rw [hl] at hs
    simp only at hs
    have hg1 : level = 1 → Gap st1 := fun h => loadCword_gap hl (hg h)
    split
    · split
      · omega
      · rename_i ml _ _ hdm
        have := (decodeMatch_props hdm).2.2
        split
        · rename_i h1
          have := hg1 h1
          simp only [Gap] at this
          omega
        · omega
    · rename_i hc
      rw [if_neg hc] at hs
      split
      · split
        · rename_i h1
          have := hg1 h1
          simp only [Gap] at this
          omega
        · omega
      · rename_i hd
        rw [if_neg hd] at hs
        simp only [Option.map_eq_some_iff] at hs
        obtain ⟨_, _, heq⟩ := hs
        cases heq

/-- total work of the main loop from any state that satisfies the level-1 bookkeeping invariant:
    at most 262 per byte of `source` still ahead, plus the final literal run of at most `size` bytes -/
theorem loopWork_le (s : Buf) (level size : Nat) : ∀ (fuel : Nat) (st : St), (level = 1 → Gap st) →
    loopWork s level size fuel st ≤ 262 * (s.size - st.src) + 262 + size := by
  intro fuel
  induction fuel with
  | zero => intro st _; simp [loopWork]
  | succ n ih =>
    intro st hg
    unfold loopWork
    split
    · rename_i st' hs
      obtain ⟨_, h2, h3, _, h5⟩ := step_cont hs
      have := ih st' (fun h => h5 h (hg h))
      have := passWork_cont_le hs hg
      omega
    · have := passWork_le s level size st hg
      omega

/-- passes and inner-loop iterations of `Decompress(source)` (0 when it returns or panics before the main loop) -/
def decompressWork (s : Buf) : Nat :=
  match sizeDecompressed s, headerLen s, levelOf s, cbitOf s with
  | some size, some hl, some level, some 1 => if level ≠ 1 ∧ level ≠ 3 then 0 else loopWork s level size s.size (initSt hl size)
  | _, _, _, _ => 0

/-- (i) THE BOUND.  `Decompress(source)` performs at most `262·(len(source) − headerLen + 1) + SizeDecompressed(source)`
    loop iterations in total (main-loop passes, byte copies of matches, hash-table updates, final literals) — in
    `DecompressSafe`, where `len(source) = SizeCompressed(source)` has been checked, that is
    `262·(sizeC − hl + 1) + sizeD`: linear in the two sizes of the header. -/
theorem decompressWork_le (s : Buf) (size hl : Nat) (h1 : sizeDecompressed s = some size) (h2 : headerLen s = some hl) :
    decompressWork s ≤ 262 * (s.size - hl + 1) + size := by
  unfold decompressWork
  rw [h1, h2]
  split
  · rename_i heq1 heq2 _ _
    cases heq1; cases heq2
    split
    · omega
    · rename_i level _ _ _
      have := loopWork_le s level size s.size (initSt hl size) (fun _ => by simp [Gap, initSt])
      simp only [initSt] at this ⊢
      omega
  · omega

/-! ## (iii) allocation -/

/-- what `Decompress` asks the allocator for before it has checked anything is the announced size plus 36 KiB of tables -/
theorem allocBeforeChecks_eq (s : Buf) : allocBeforeChecks s = (sizeDecompressed s).map (· + 36864) := rfl

theorem sizeDecompressed_lt {s : Buf} {n : Nat} (h : sizeDecompressed s = some n) : n < 2 ^ 32 := by
  unfold sizeDecompressed at h
  split at h
  · contradiction
  · split at h
    · exact fastRead_lt h
    · have := fastRead_lt h; omega

theorem sizeDecompressed_short {s : Buf} {n : Nat} (h3 : headerLen s = some 3) (h : sizeDecompressed s = some n) : n < 256 := by
  unfold sizeDecompressed at h
  rw [h3] at h
  simp only [show (3 : Nat) ≠ 9 by omega, if_false] at h
  have := fastRead_lt h
  omega

/-- (iii) the memory a header can make `Decompress` request before any check: at most 2^32 − 1 + 36 864 bytes
    (destination + hashtable + hashCounter); with the 3-byte header form at most 255 + 36 864.  If the stream is in
    stored form and its level bits are 1 or 3, `d2` doubles the first term (`allocTotal`). -/
theorem allocBeforeChecks_le {s : Buf} {a : Nat} (h : allocBeforeChecks s = some a) : a ≤ 4294967295 + 36864 := by
  rw [allocBeforeChecks_eq] at h
  simp only [Option.map_eq_some_iff] at h
  obtain ⟨n, hn, rfl⟩ := h
  have := sizeDecompressed_lt hn
  omega

theorem allocBeforeChecks_short {s : Buf} {a : Nat} (h3 : headerLen s = some 3) (h : allocBeforeChecks s = some a) : a ≤ 255 + 36864 := by
  rw [allocBeforeChecks_eq] at h
  simp only [Option.map_eq_some_iff] at h
  obtain ⟨n, hn, rfl⟩ := h
  have := sizeDecompressed_short h3 hn
  omega

theorem allocTotal_le {s : Buf} {a : Nat} (h : allocTotal s = some a) : a ≤ 2 * 4294967295 + 36864 := by
  unfold allocTotal at h
  split at h
  · rename_i size cbit hs _
    cases h
    have := sizeDecompressed_lt hs
    split <;> omega
  · contradiction

/-- a stream in stored form (compressible bit 0, level bits 1 or 3): `Decompress` returns `size` bytes — the payload
    truncated or padded with zeros; nothing compares the payload length with the announced size -/
theorem decompress_stored {s : Buf} {size hl level : Nat} (h1 : sizeDecompressed s = some size) (h2 : headerLen s = some hl)
    (h3 : levelOf s = some level) (hl13 : level = 1 ∨ level = 3) (h4 : cbitOf s = some 0) :
    decompress s = .ok (storedCopy s hl size) := by
  unfold decompress decompressFuel
  rw [h1, h2, h3, h4]
  simp only
  rw [if_neg (by omega)]
  simp

/-- the hostile nine bytes: level 3, stored form, compressed size 9 (= its length), decompressed size 2^32 − 1 -/
def hostile9 : Buf := #[0x4e, 9, 0, 0, 0, 0xff, 0xff, 0xff, 0xff]

/-- (iii) the bound is attained by a 9-byte input that passes the only check `DecompressSafe` makes before calling
    `Decompress` (length = announced compressed size): 2^32 − 1 + 36 864 bytes are requested before anything is checked,
    2·(2^32 − 1) + 36 864 in all, and the call SUCCEEDS, returning 4 294 967 295 zero bytes. -/
theorem hostile9_alloc :
    hostile9.size = 9 ∧ sizeCompressed hostile9 = some 9 ∧ allocBeforeChecks hostile9 = some (4294967295 + 36864)
    ∧ allocTotal hostile9 = some (2 * 4294967295 + 36864)
    ∧ ∃ out, decompressSafe hostile9 = .ok out ∧ out.size = 4294967295 ∧ ∀ i (h : i < out.size), out[i] = 0 := by
  have hsz : hostile9.size = 9 := rfl
  have hc : sizeCompressed hostile9 = some 9 := by decide
  have hd : sizeDecompressed hostile9 = some 4294967295 := by decide
  have hh : headerLen hostile9 = some 9 := by decide
  have hlv : levelOf hostile9 = some 3 := by decide
  have hcb : cbitOf hostile9 = some 0 := by decide
  refine ⟨hsz, hc, by rw [allocBeforeChecks_eq, hd]; rfl, by unfold allocTotal; rw [hd, hcb]; rfl, ?_⟩
  have hdec := decompress_stored hd hh hlv (Or.inr rfl) hcb
  refine ⟨storedCopy hostile9 9 4294967295, ?_, storedCopy_size _ _ _, ?_⟩
  · unfold decompressSafe
    rw [hc, hd, hdec]
    simp [hsz, storedCopy_size]
  · intro i hi
    simp only [storedCopy, Array.getElem_ofFn]
    rw [dif_neg (by rw [hsz]; omega)]


/-! ## sanity evaluations and non-vacuity (kernel-checked evaluation of the model) -/

/-- "abc"·14 ++ "_the_end" (50 bytes) -/
def exOrig : Buf := #[97, 98, 99, 97, 98, 99, 97, 98, 99, 97, 98, 99, 97, 98, 99, 97, 98, 99, 97, 98, 99, 97, 98, 99, 97, 98, 99, 97, 98,
  99, 97, 98, 99, 97, 98, 99, 97, 98, 99, 97, 98, 99, 95, 116, 104, 101, 95, 101, 110, 100]
/-- what the real `Compress(exOrig, 1)` returns (engine qlz: the model's `compress` agrees byte for byte) -/
def exC1 : Buf := #[71, 27, 0, 0, 0, 50, 0, 0, 0, 8, 0, 0, 128, 97, 98, 99, 112, 69, 39, 95, 116, 104, 101, 95, 101, 110, 100]
/-- `Compress(exOrig, 3)` -/
def exC3 : Buf := #[79, 28, 0, 0, 0, 50, 0, 0, 0, 8, 0, 0, 128, 97, 98, 99, 3, 146, 1, 0, 95, 116, 104, 101, 95, 101, 110, 100]

example : headerLen exC1 = some 9 ∧ sizeCompressed exC1 = some 27 ∧ sizeDecompressed exC1 = some 50 ∧ levelOf exC1 = some 1 ∧ cbitOf exC1 = some 1 := by decide
example : headerLen exC3 = some 9 ∧ sizeCompressed exC3 = some 28 ∧ sizeDecompressed exC3 = some 50 ∧ levelOf exC3 = some 3 ∧ cbitOf exC3 = some 1 := by decide
/-- 3-byte header form (what the C library writes below 216 bytes) -/
example : headerLen #[0x4d, 12, 4, 0] = some 3 ∧ sizeCompressed #[0x4d, 12, 4, 0] = some 12 ∧ sizeDecompressed #[0x4d, 12, 4, 0] = some 4 := by decide
/-- too short for the header form it announces: the size functions panic -/
example : sizeDecompressed #[0x4f, 9, 0, 0, 0, 1] = none ∧ sizeCompressed #[] = none ∧ decompressSafe #[] = .error .recovered := by decide

/-- level 1: three literals, one match of 39 bytes through the hash table, eight final literals -/
theorem ex_decompress_level1 : decompress exC1 = .ok exOrig := by decide +kernel
/-- level 3 -/
theorem ex_decompress_level3 : decompressSafe exC3 = .ok exOrig := by decide +kernel

/-- non-vacuity of `step_cont` / `loopWork_le`: the first pass of the level-1 example continues with src = 14, dst = 1,
    and satisfies the bookkeeping invariant; the whole call does 56 units of work against the bound 262·19 + 50 -/
example : (match step exC1 1 50 (initSt 9 50) with
           | some (.cont st') => decide (st'.src = 14 ∧ st'.dst = 1 ∧ st'.lastHashed = -1 ∧ st'.cword = 0x40000004)
           | _ => false) = true := by decide +kernel
example : Gap (initSt 9 50) := by simp [Gap, initSt]
example : decompressWork exC1 = 56 := by decide +kernel

/-- one flipped bit in the match token: the decoder copies from a wrong place or panics; `DecompressSafe` reports the
    panic as an error (here: the hash slot 0x457 was never filled, offset2 = 0, the copy runs — and the final read fails) -/
example : decompressSafe #[71, 27, 0, 0, 0, 50, 0, 0, 0, 8, 0, 0, 128, 97, 98, 99, 112, 69, 255, 95, 116, 104, 101, 95, 101, 110, 100] = .error .recovered := by
  decide +kernel
/-- wrong length: rejected before `Decompress` is entered -/
example : decompressSafe (exC1.push 0) = .error .badSizeC := by decide +kernel
/-- level bits 0 or 2: the Go port panics ("Go version only supports level 1 and 3") -/
example : decompress #[0x43, 9, 0, 0, 0, 0, 0, 0, 0] = .panic ∧ decompress #[0x4b, 9, 0, 0, 0, 0, 0, 0, 0] = .panic := by decide +kernel
/-- stored form with an announced size larger than the payload: zero padding, no error -/
example : decompressSafe #[0x4e, 11, 0, 0, 0, 5, 0, 0, 0, 7, 8] = .ok #[7, 8, 0, 0, 0] := by decide +kernel

end QlzLemmas
