/-
  C07 on the log view: every INTERMEDIATE state of a GC pass serves what the store served before the pass.

  A pass processes the records of the range `mid` in order.  After `processed` of them (`mid = processed ++ rest`):
    * the kept ones among `processed` are in the destination (relocated), in order;
    * completed source files are gone; of the source being read, the originals already processed are still on disk
      if it is a separate file, and only a SUFFIX `tail` of them if it is the file rewritten in place (the part
      not yet overwritten) — once that file has been read to its end its stale tail is cut off (`dropStaleTail`,
      /repo fix), i.e. `tail = []`, before any later source is removed;
    * the rest of the range and everything outside it is untouched.
  So a crash state's record sequence is   before ++ relocate(kept(processed)) ++ tail ++ rest ++ after   with `tail`
  a suffix of `processed`.  Engine `crash` (mix c07) checks on every run that the data files a kill leaves are of
  this form; here: every such state reads like the store before the pass.
-/
import GoBeans.Lemmas.GCLog
set_option linter.unusedSimpArgs false
set_option linter.unusedVariables false
namespace StoreLemmas
open Store Spec

/-- duplicating a suffix of `m` right behind it does not change the last record of any key -/
theorem lastOf_dup_suffix (k : Key) (a m1 tail c : List (Pos × Rec)) :
    lastOf k (a ++ (m1 ++ tail) ++ (tail ++ c)) = lastOf k (a ++ (m1 ++ tail) ++ c) := by
  rw [lastOf_append, lastOf_append (a := a ++ (m1 ++ tail)) (b := c), lastOf_append (a := tail) (b := c)]
  cases hc : lastOf k c with
  | some r => simp
  | none =>
    simp only [Option.none_or]
    rw [lastOf_append (a := a), lastOf_append (a := m1)]
    cases ht : lastOf k tail with
    | some r => simp
    | none => simp

theorem gcKeep_congr (hasEntry : Key → Bool) (bp : Bool) (full full' : List (Pos × Rec))
    (h : ∀ k, lastOf k full' = lastOf k full) (x : Pos × Rec) :
    gcKeep hasEntry bp full' x = gcKeep hasEntry bp full x := by
  unfold gcKeep; rw [h]

/-- **every intermediate state of the pass preserves what every key reads** -/
theorem gc_interm_preserves (hasEntry : Key → Bool) (bp : Bool) (f : Pos → Pos)
    (before m1 tail rest after : List (Pos × Rec))
    (hpre : bp = false → before = [])
    (hEntry : ∀ k, hasEntry k = false → ∀ x, lastOf k (before ++ ((m1 ++ tail) ++ rest) ++ after) = some x → x.2.ver < 0)
    (k : Key) :
    liveRec k (before ++ relocate f ((m1 ++ tail).filter (gcKeep hasEntry bp (before ++ ((m1 ++ tail) ++ rest) ++ after)))
                ++ (tail ++ rest ++ after))
      = liveRec k (before ++ ((m1 ++ tail) ++ rest) ++ after) := by
  -- the state with the duplicated tail, seen as a completed pass over `m1 ++ tail` with `tail ++ rest ++ after` behind it
  have hsame : ∀ k', lastOf k' (before ++ (m1 ++ tail) ++ (tail ++ (rest ++ after)))
                   = lastOf k' (before ++ ((m1 ++ tail) ++ rest) ++ after) := by
    intro k'
    rw [lastOf_dup_suffix]
    simp only [List.append_assoc]
  have key := gc_preserves_live hasEntry bp f before (m1 ++ tail) (tail ++ (rest ++ after)) hpre
    (by
      intro k' he x hx
      rw [hsame] at hx
      exact hEntry k' he x hx) k
  have hfilter : (m1 ++ tail).filter (gcKeep hasEntry bp (before ++ (m1 ++ tail) ++ (tail ++ (rest ++ after))))
               = (m1 ++ tail).filter (gcKeep hasEntry bp (before ++ ((m1 ++ tail) ++ rest) ++ after)) := by
    apply List.filter_congr
    intro x _
    exact gcKeep_congr hasEntry bp _ _ hsame x
  rw [hfilter] at key
  have hlive : liveRec k (before ++ (m1 ++ tail) ++ (tail ++ (rest ++ after))) = liveRec k (before ++ ((m1 ++ tail) ++ rest) ++ after) := by
    unfold liveRec; rw [hsame]
  rw [hlive] at key
  simpa only [List.append_assoc] using key

end StoreLemmas
