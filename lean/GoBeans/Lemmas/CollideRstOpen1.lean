/-
  C13 (a) with restarts, `Bucket.open` I: the last existing data file, the closed hint state covers the data files
  (`Covers`), and what the hint loop does to `maxDumpedHintID`.
-/
import GoBeans.Lemmas.CollideRstInv
import GoBeans.Lemmas.CollideRReopen4
set_option linter.unusedSimpArgs false
set_option linter.unusedVariables false
namespace CollideLemmas
open Store Spec HintIndex Collide HintBufferLemmas HintLoadLemmas HintIndexLemmas StoreLemmas

section
variable (hash : Key → Nat)

/-- `lastNonEmpty` on the data files as `close` leaves them -/
theorem lne_spec (b : Bucket) (hp : PosInv b) :
    (∃ mx, lastNonEmpty ((List.range (b.head + 1)).map (fun i => { b.chunks i with flushed := (b.chunks i).recs.length })) = some mx
        ∧ mx ≤ b.head ∧ Exists' b mx ∧ ∀ j, mx < j → j ≤ b.head → ¬ Exists' b j)
    ∨ (lastNonEmpty ((List.range (b.head + 1)).map (fun i => { b.chunks i with flushed := (b.chunks i).recs.length })) = none
        ∧ ∀ j, j ≤ b.head → ¬ Exists' b j) := by
  generalize hcl : (List.range (b.head + 1)).map (fun i => { b.chunks i with flushed := (b.chunks i).recs.length }) = cl
  have hlen : cl.length = b.head + 1 := by rw [← hcl]; simp
  have hget : ∀ j, j < b.head + 1 → (NonEmptyC (cl.getD j {}) ↔ Exists' b j) := by
    intro j hj
    have : cl.getD j {} = { b.chunks j with flushed := (b.chunks j).recs.length } := by
      rw [← hcl]; simp [List.getD, hj]
    rw [this]; simp [NonEmptyC, Exists']
  have hdef : lastNonEmpty cl = lastNonEmpty.go 0 cl none := rfl
  rcases lastNonEmpty_go_spec cl 0 none with ⟨j, hj, he, hne, hafter⟩ | ⟨he, hnone⟩
  · rw [hlen] at hj
    left
    refine ⟨j, by rw [hdef, he]; simp, by omega, (hget j hj).mp hne, ?_⟩
    intro j' h1 h2
    rw [← hget j' (by omega)]
    exact hafter j' h1 (by rw [hlen]; omega)
  · right
    refine ⟨by rw [hdef, he], ?_⟩
    intro j hj
    rw [← hget j (by omega)]
    exact hnone j (by rw [hlen]; omega)

theorem not_exists_empty {b : Bucket} (hp : PosInv b) {j : Nat} (h : ¬ Exists' b j) : (b.chunks j).recs = [] ∧ (b.chunks j).size = 0 := by
  have hs : (b.chunks j).size = 0 := by
    unfold Exists' at h; omega
  refine ⟨?_, hs⟩
  cases hr : (b.chunks j).recs with
  | nil => rfl
  | cons x xs =>
    have := hp.below j x.1 x.2 (by rw [hr]; simp)
    omega

/-- what `hints.close` leaves -/
structure Closed (V : Nat → FileRecs) (size : Nat → Nat) (hs1 : Hints) : Prop where
  g : HsG hash V hs1
  empty : ∀ j, (hs1.chunks j).last.items = []
  full : ∀ j, DsFull (hs1.chunks j) (size j)

theorem closed_of {cfg : Store.Cfg} {st : State} (ri : RI hash st) :
    Closed hash (fun c => (st.b.chunks c).recs) (fun c => (st.b.chunks c).size) (closeAll st.hs (st.hs.maxChunk + 1))
    ∧ MdMono st.hs (closeAll st.hs (st.hs.maxChunk + 1))
    ∧ MdTop (fun c => (st.b.chunks c).recs) st.hs (closeAll st.hs (st.hs.maxChunk + 1)) := by
  obtain ⟨c1, c2, c3, c4⟩ := hsG_closeAll hash (st.hs.maxChunk + 1) ri.hg
  refine ⟨⟨c1, ?_, fun j => dsFull_closeAll hash _ ri.hg j _ (ri.dsf j)⟩, c2, closeAll_mdTop hash _ ri.hg⟩
  intro j
  apply c4 j
  by_cases hj : j < st.hs.maxChunk + 1
  · exact Or.inl hj
  · exact Or.inr (ri.hg.le j (by omega))

theorem covers_of {cfg : Store.Cfg} {st : State} (w : WF cfg st.b) {hs1 : Hints}
    (cl : Closed hash (fun c => (st.b.chunks c).recs) (fun c => (st.b.chunks c).size) hs1) (mx : Nat) : Covers hs1 (reB st mx) := by
  refine ⟨fun i => (cl.g.good hash i).files, ?_, ?_⟩
  · intro i
    exact (ckI_ds_le hash (cl.g.ck i) (st.b.chunks i).size (fun x hx => (okFrom_mem (w.ok i) x hx).2.1)).1
  · intro i hsz
    rcases cl.full i hsz with h | ⟨h, _⟩
    · exact h
    · exact absurd (cl.empty i) h

/-- `maxDumpedHintID` after one step of the hint loop -/
theorem openChunk_md (cap : Nat) (b : Bucket) (hs1 : Hints) (cov : Covers hs1 b) (tid : Nat × Int) (x : Hints × Tree) (i : Nat)
    (hfresh : x.1.chunks i = {}) :
    (openChunk hash cap b (diskOf hs1) tid x i).1.maxDumped =
      if i < tid.1 then x.1.maxDumped
      else if (if i = tid.1 then tid.2 + 1 else 0) ≥ ((loadedCk (hs1.chunks i) (b.chunks i).size).old.length : Int) then x.1.maxDumped
      else (i, (if i = tid.1 then tid.2 + 1 else 0) + (((loadedCk (hs1.chunks i) (b.chunks i).size).old.length : Int) - 1)) := by
  obtain ⟨c1, c2, c3, c4, c5⟩ := chk_form hash cap x.1 i (b.chunks i).recs (b.chunks i).size (hs1.chunks i) hfresh
    (cov.files i) (cov.le i) (cov.full i)
  unfold openChunk diskOf
  simp only
  by_cases h1 : i < tid.1
  · rw [if_pos h1, if_pos h1]
    exact c3
  · rw [if_neg h1, if_neg h1, c1]
    by_cases h2 : (if i = tid.1 then tid.2 + 1 else 0) ≥ ((loadedCk (hs1.chunks i) (b.chunks i).size).old.length : Int)
    · rw [if_pos h2, if_pos h2]
      exact c3
    · rw [if_neg h2, if_neg h2]

theorem openChunk_mdOr (cap : Nat) (b : Bucket) (hs1 : Hints) (cov : Covers hs1 b) (tid : Nat × Int) (x : Hints × Tree) (i : Nat)
    (hfresh : x.1.chunks i = {}) :
    (openChunk hash cap b (diskOf hs1) tid x i).1.maxDumped = x.1.maxDumped
    ∨ (openChunk hash cap b (diskOf hs1) tid x i).1.maxDumped.1 = i := by
  rw [openChunk_md hash cap b hs1 cov tid x i hfresh]
  by_cases h1 : i < tid.1
  · rw [if_pos h1]; exact Or.inl rfl
  · rw [if_neg h1]
    by_cases h2 : (if i = tid.1 then tid.2 + 1 else 0) ≥ ((loadedCk (hs1.chunks i) (b.chunks i).size).old.length : Int)
    · rw [if_pos h2]; exact Or.inl rfl
    · rw [if_neg h2]; exact Or.inr rfl

/-- over the whole loop: `maxDumpedHintID` is the initial one or names a file of the loop -/
theorem openFold_md (cap : Nat) (b : Bucket) (hs1 : Hints) (cov : Covers hs1 b) (tid : Nat × Int) (l : List Nat) (hnd : l.Nodup) :
    ∀ (x : Hints × Tree), (∀ j ∈ l, x.1.chunks j = {}) → isLarger tid x.1.maxDumped.1 x.1.maxDumped.2 = true →
      (l.foldl (openChunk hash cap b (diskOf hs1) tid) x).1.maxDumped = x.1.maxDumped
      ∨ (l.foldl (openChunk hash cap b (diskOf hs1) tid) x).1.maxDumped.1 ∈ l := by
  induction l with
  | nil => intro x _ _; exact Or.inl rfl
  | cons i rest ih =>
    intro x hfresh hmd
    rw [List.nodup_cons] at hnd
    have hfi := hfresh i (by simp)
    obtain ⟨_, c2, _, _, c5, _⟩ := openChunk_spec hash cap b hs1 cov tid x i hfi hmd
    simp only [List.foldl_cons]
    have hf1 : ∀ j ∈ rest, (openChunk hash cap b (diskOf hs1) tid x i).1.chunks j = {} := by
      intro j hj
      have hji : j ≠ i := by intro e; subst e; exact hnd.1 hj
      rw [c2 j hji]
      exact hfresh j (by simp [hj])
    rcases ih hnd.2 _ hf1 c5 with h | h
    · rw [h]
      rcases openChunk_mdOr hash cap b hs1 cov tid x i hfi with h' | h'
      · exact Or.inl h'
      · exact Or.inr (by rw [h']; simp)
    · exact Or.inr (by simp [h])

/-- without a tree dump (`TreeID = (0,-1)`), files in ascending order: every split of every file of the loop is at most
    `maxDumpedHintID` -/
theorem openFold_mdb (cap : Nat) (b : Bucket) (hs1 : Hints) (cov : Covers hs1 b) (l : List Nat) (hpw : l.Pairwise (· < ·)) :
    ∀ (x : Hints × Tree), (∀ j ∈ l, x.1.chunks j = {}) → isLarger ((0, -1) : Nat × Int) x.1.maxDumped.1 x.1.maxDumped.2 = true →
      ∀ c ∈ l, ∀ j, j < (loadedCk (hs1.chunks c) (b.chunks c).size).old.length →
        idLe c j (l.foldl (openChunk hash cap b (diskOf hs1) ((0, -1) : Nat × Int)) x).1.maxDumped := by
  induction l with
  | nil => intro x _ _ c hc; cases hc
  | cons i rest ih =>
    intro x hfresh hmd c hc j hj
    rw [List.pairwise_cons] at hpw
    have hnd : (i :: rest).Nodup := by
      rw [List.nodup_cons]
      refine ⟨fun hm => by have := hpw.1 i hm; omega, ?_⟩
      exact (hpw.2.imp (fun {a b} (h : a < b) => Nat.ne_of_lt h))
    rw [List.nodup_cons] at hnd
    have hfi := hfresh i (by simp)
    obtain ⟨_, c2, _, _, c5, _⟩ := openChunk_spec hash cap b hs1 cov ((0, -1) : Nat × Int) x i hfi hmd
    have hf1 : ∀ j ∈ rest, (openChunk hash cap b (diskOf hs1) ((0, -1) : Nat × Int) x i).1.chunks j = {} := by
      intro j hj
      have hji : j ≠ i := by intro e; subst e; exact hnd.1 hj
      rw [c2 j hji]
      exact hfresh j (by simp [hj])
    simp only [List.foldl_cons]
    rw [List.mem_cons] at hc
    rcases hc with hc | hc
    · subst hc
      -- after this file `maxDumped = (c, n - 1)`; the later files only raise the file id
      have e0 : (if c = ((0, -1) : Nat × Int).1 then ((0, -1) : Nat × Int).2 + 1 else (0 : Int)) = 0 := by split <;> simp
      have hstep : idLe c j (openChunk hash cap b (diskOf hs1) ((0, -1) : Nat × Int) x c).1.maxDumped := by
        rw [openChunk_md hash cap b hs1 cov ((0, -1) : Nat × Int) x c hfi]
        have h0 : ¬ c < ((0, -1) : Nat × Int).1 := by simp
        rw [if_neg h0, e0]
        have h2 : ¬ (0 : Int) ≥ ((loadedCk (hs1.chunks c) (b.chunks c).size).old.length : Int) := by omega
        rw [if_neg h2]
        unfold idLe isLarger
        simp only [Bool.or_eq_true, Bool.and_eq_true, decide_eq_true_eq]
        right
        exact ⟨trivial, by omega⟩
      rcases openFold_md hash cap b hs1 cov ((0, -1) : Nat × Int) rest hnd.2 _ hf1 c5 with h | h
      · rw [h]; exact hstep
      · have := hpw.1 _ h
        unfold idLe isLarger
        simp only [Bool.or_eq_true, Bool.and_eq_true, decide_eq_true_eq]
        left; exact this
    · exact ih hpw.2 _ hf1 c5 c hc j hj

end
end CollideLemmas
