/-
  Reply round trip (C11), part 8: the items a `get` / `gets` looks up (single key: Get; several: GetMulti) have
  distinct keys and each is an item of the storage client; the storage client's error messages are words.
-/
import GoBeans.Lemmas.ProtoRespGet

namespace Proto

/-- the items a served `get`/`gets` of these keys looks up -/
def lookedUp (cfg : Cfg) (st : St) : List Bytes → List RItem
  | [k] => match (clientGet cfg st k).1 with
    | .item it => [it]
    | _ => []
  | ks => (multiGet cfg st ks []).1

theorem clientGet_led (cfg : Cfg) (st : St) (l : Ledger) (k : Bytes) :
    clientGet cfg { st with led := l } k = clientGet cfg st k := rfl

theorem multiGet_led (cfg : Cfg) (st : St) (l : Ledger) (ks seen : List Bytes) :
    multiGet cfg { st with led := l } ks seen = multiGet cfg st ks seen := by
  induction ks generalizing seen with
  | nil => rfl
  | cons k ks ih => simp only [multiGet, ih, clientGet_led]

theorem lookedUp_led (cfg : Cfg) (st : St) (l : Ledger) (ks : List Bytes) :
    lookedUp cfg { st with led := l } ks = lookedUp cfg st ks := by
  unfold lookedUp
  split
  · rw [clientGet_led]
  · rw [multiGet_led]

theorem multiGet_spec (cfg : Cfg) (st : St) (ks : List Bytes) : ∀ seen : List Bytes,
    (∀ it ∈ (multiGet cfg st ks seen).1, it.key ∉ seen ∧ ∃ k ∈ ks, (clientGet cfg st k).1 = .item it)
    ∧ ((multiGet cfg st ks seen).1.map (·.key)).Nodup := by
  induction ks with
  | nil => intro seen; simp [multiGet]
  | cons k ks ih =>
    intro seen
    unfold multiGet
    split
    · obtain ⟨h1, h2⟩ := ih seen
      exact ⟨fun it hit => ⟨(h1 it hit).1, by obtain ⟨k', hk', e⟩ := (h1 it hit).2; exact ⟨k', by simp [hk'], e⟩⟩, h2⟩
    · rename_i hseen
      split
      · rename_i it buf hcg
        have hitem : (clientGet cfg st k).1 = .item it := by rw [hcg]
        have hkey : it.key = k := (clientGet_good cfg st k it hitem).1
        obtain ⟨h1, h2⟩ := ih (k :: seen)
        refine ⟨?_, ?_⟩
        · intro x hx
          simp only [List.mem_cons] at hx
          rcases hx with rfl | hx
          · refine ⟨?_, k, by simp, hitem⟩
            rw [hkey]; simpa using hseen
          · obtain ⟨a, k', hk', e⟩ := h1 x hx
            exact ⟨fun hm => a (by simp [hm]), k', by simp [hk'], e⟩
        · simp only [List.map_cons, List.nodup_cons]
          refine ⟨?_, h2⟩
          intro hm
          obtain ⟨x, hx, e⟩ := List.mem_map.mp hm
          exact (h1 x hx).1 (by rw [e, hkey]; simp)
      · obtain ⟨h1, h2⟩ := ih seen
        exact ⟨fun it hit => ⟨(h1 it hit).1, by obtain ⟨k', hk', e⟩ := (h1 it hit).2; exact ⟨k', by simp [hk'], e⟩⟩, h2⟩

/-- the looked-up items: distinct keys, each the storage client's item for one of the requested keys -/
theorem lookedUp_spec (cfg : Cfg) (st : St) (ks : List Bytes) :
    (∀ it ∈ lookedUp cfg st ks, ∃ k ∈ ks, (clientGet cfg st k).1 = .item it) ∧ ((lookedUp cfg st ks).map (·.key)).Nodup := by
  unfold lookedUp
  split
  · split
    · rename_i k _ it h
      exact ⟨by intro x hx; simp at hx; subst hx; exact ⟨k, by simp, h⟩, by simp⟩
    · simp
  · obtain ⟨h1, h2⟩ := multiGet_spec cfg st ks []
    exact ⟨fun it hit => (h1 it hit).2, h2⟩

/-! ### error messages of the storage client -/

theorem parsePath_error_mem (l : Bytes) (c : UInt8) (h : parsePath l = .error c) : c ∈ l := by
  induction l with
  | nil => simp [parsePath] at h
  | cons a l ih =>
    unfold parsePath at h
    split at h
    · simp at h; simp [h]
    · split at h
      · simp at h
      · rename_i e heq
        simp at h; subst h
        simp [ih heq]

def tokb (t : Bytes) : Bool := !t.isEmpty && !t.contains 32 && !t.contains 10

theorem tok_of_tokb (t : Bytes) (h : tokb t = true) : Tok t := by
  simp only [tokb, Bool.and_eq_true, Bool.not_eq_true', List.contains_eq_mem, decide_eq_false_iff_not] at h
  exact ⟨by intro e; simp [e] at h, h.1.2, h.2⟩

theorem toks_of_all (l : List Bytes) (h : l.all tokb = true) : ∀ t ∈ l, Tok t := by
  intro t ht
  exact tok_of_tokb t (List.all_eq_true.mp h t ht)

/-- a message `Response.Read` gives back unchanged: words separated by single spaces -/
def Words (msg : Bytes) : Prop := ∃ toks : List Bytes, (∀ t ∈ toks, Tok t) ∧ msg = joinSp toks

theorem quoteErr_words (c : UInt8) (h32 : c ≠ 32) (h10 : c ≠ 10) : Words (quoteErr c) := by
  refine ⟨[ascii "strconv.ParseInt:", ascii "parsing", ascii "\"" ++ [c] ++ ascii "\":", ascii "invalid", ascii "syntax"], ?_, ?_⟩
  · intro t ht
    simp only [List.mem_cons, List.mem_nil_iff, or_false] at ht
    rcases ht with rfl | rfl | rfl | rfl | rfl
    · exact ⟨by decide, by decide, by decide⟩
    · exact ⟨by decide, by decide, by decide⟩
    · have e : ascii "\"" ++ [c] ++ ascii "\":" = [34, c, 34, 58] := by
        have : ascii "\"" = [34] := by decide
        have : ascii "\":" = [34, 58] := by decide
        simp [*]
      rw [e]
      refine ⟨by simp, ?_, ?_⟩
      · simp; exact fun h => h32 h.symm
      · simp; exact fun h => h10 h.symm
    · exact ⟨by decide, by decide, by decide⟩
    · exact ⟨by decide, by decide, by decide⟩
  · have e1 : ascii "strconv.ParseInt: parsing \"" = ascii "strconv.ParseInt:" ++ sp ++ ascii "parsing" ++ sp ++ ascii "\"" := by decide
    have e2 : ascii "\": invalid syntax" = ascii "\":" ++ sp ++ ascii "invalid" ++ sp ++ ascii "syntax" := by decide
    simp [quoteErr, joinSp, e1, e2, List.append_assoc]

theorem clientGet_err_words (cfg : Cfg) (st : St) (k msg : Bytes) (hk : Tok k) (h : (clientGet cfg st k).1 = .err msg) :
    Words msg := by
  have w1 : Words (ascii "bad command line format") :=
    ⟨[ascii "bad", ascii "command", ascii "line", ascii "format"], toks_of_all _ (by decide), by decide⟩
  have w2 : Words (ascii "?") := ⟨[ascii "?"], toks_of_all _ (by decide), by decide⟩
  have w3 : Words (ascii "bad key ?") := ⟨[ascii "bad", ascii "key", ascii "?"], toks_of_all _ (by decide), by decide⟩
  unfold clientGet at h
  repeat' (split at h)
  all_goals first | (simp at h; done) | skip
  all_goals (simp at h; subst h)
  all_goals first | exact w1 | exact w2 | exact w3 | skip
  rename_i c heq
  have hc := parsePath_error_mem _ c heq
  exact quoteErr_words c (fun e => hk.2.1 (by simp [← e, hc])) (fun e => hk.2.2 (by simp [← e, hc]))

end Proto
