/-
  C13 (a), client operations: with an empty collision table and hint buffers that never report a collision, the
  collision-path model does to its bucket exactly what `Store.step` does, and answers the same.
-/
import GoBeans.Lemmas.CollideExtHints
import GoBeans.Lemmas.CollideSafePut
import GoBeans.Lemmas.GCHistory
set_option linter.unusedSimpArgs false
set_option linter.unusedVariables false
namespace CollideLemmas
open Store Spec HintIndex Collide HintBufferLemmas HintLoadLemmas HintIndexLemmas StoreLemmas

section
variable (hash : Key → Nat) (K : Key → Prop)

/-- no collision anywhere: the table is empty, every hint item carries the hash of its own key -/
structure NoColl (st : State) : Prop where
  ct : st.ct.items = []
  hs : HsNC hash K st.hs

theorem tget_nil {ct : CTable} (h : ct.items = []) (hh : Nat) (k : Key) : tget ct hh k = none ∧ thas ct hh = false := by
  unfold tget thas; rw [h]; exact ⟨rfl, rfl⟩

theorem memMeta_nc {st : State} (nc : NoColl hash K st) (k : Key) : st.memMeta hash k = AMap.get st.b.tree (hash k) := by
  rw [memMeta_eq, (tget_nil nc.ct _ _).1]

theorem put_b (cfg : Collide.Cfg) (st : State) (r : Rec) :
    (st.put hash cfg r).1.b = (st.b.put hash cfg.s r).1 ∧ (st.put hash cfg r).2 = (st.b.put hash cfg.s r).2 := by
  rw [put_eq]
  unfold Bucket.put
  generalize st.b.append cfg.s r = A
  obtain ⟨b', pos⟩ := A
  exact ⟨rfl, rfl⟩

theorem put_nc (cfg : Collide.Cfg) {st : State} (nc : NoColl hash K st) (r : Rec) (hk : K r.key) :
    NoColl hash K (st.put hash cfg r).1 := by
  rw [put_eq]
  refine ⟨?_, ?_⟩
  · show (wTable hash st.ct r _).items = []
    unfold wTable
    rw [(tget_nil nc.ct _ r.key).2]
    exact nc.ct
  · exact hsNC_setItem hash K cfg.cap st.hs nc.hs _ _ _ ⟨rfl, hk⟩

/-- `Bucket.checkAndSet` -/
theorem cas_ext (cfg : Collide.Cfg) {st : State} (nc : NoColl hash K st) (k : Key) (hk : K k) (body : Bytes) (flag : Nat) (rev : Int)
    (ts : Option Nat) (size wts : Nat) :
    (st.checkAndSet hash cfg k body flag rev ts size wts).1.b = (Store.checkAndSet hash cfg.s st.b k body flag rev ts size wts).1
    ∧ (st.checkAndSet hash cfg k body flag rev ts size wts).2 = (Store.checkAndSet hash cfg.s st.b k body flag rev ts size wts).2
    ∧ NoColl hash K (st.checkAndSet hash cfg k body flag rev ts size wts).1 := by
  unfold State.checkAndSet Store.checkAndSet
  rw [memMeta_nc hash K nc]
  have pb := fun v => put_b hash cfg st { key := k, ver := v, flag := flag, ts := ts, body := body, size := size, wts := wts }
  have pn := fun v => put_nc hash K cfg nc { key := k, ver := v, flag := flag, ts := ts, body := body, size := size, wts := wts } hk
  cases AMap.get st.b.tree (hash k) with
  | none =>
    simp only
    by_cases c1 : (nextVer 0 rev).2 = false
    · rw [if_pos c1, if_pos c1]; exact ⟨rfl, rfl, nc⟩
    · rw [if_neg c1, if_neg c1]
      by_cases c2 : (nextVer 0 rev).1 < 0
      · rw [if_pos c2, if_pos c2]; exact ⟨rfl, rfl, nc⟩
      · rw [if_neg c2, if_neg c2]
        exact ⟨(pb _).1, by rw [(pb _).2], pn _⟩
  | some it =>
    simp only
    by_cases c0 : (it.ver > 0 ∧ (if rev ≥ 0 then vhashOf body else 0) = it.vhash) ∧ cfg.s.checkVHash = true
    · rw [if_pos c0, if_pos c0]
      by_cases c00 : rev ≠ 0
      · rw [if_pos c00, if_pos c00]; exact ⟨rfl, rfl, ⟨nc.ct, nc.hs⟩⟩
      · rw [if_neg c00, if_neg c00]; exact ⟨rfl, rfl, nc⟩
    · rw [if_neg c0, if_neg c0]
      by_cases c1 : (nextVer it.ver rev).2 = false
      · rw [if_pos c1, if_pos c1]; exact ⟨rfl, rfl, nc⟩
      · rw [if_neg c1, if_neg c1]
        by_cases c2 : (nextVer it.ver rev).1 < 0 ∧ it.ver < 0
        · rw [if_pos c2, if_pos c2]; exact ⟨rfl, rfl, nc⟩
        · rw [if_neg c2, if_neg c2]
          exact ⟨(pb _).1, by rw [(pb _).2], pn _⟩

/-- `Bucket.get`: the tree slot, the record, the key compare — nothing else happens -/
theorem get_ext {st : State} (nc : NoColl hash K st) {n : Nat} {m : KV} (k : Key) (a : Agree hash n st.b m k) :
    (st.get hash k).1 = st
    ∧ ((st.b.lookup hash k = .miss ∧ (st.get hash k).2 = .miss)
       ∨ (∃ r it, st.b.lookup hash k = .found r it ∧ (st.get hash k).2 = .found r it.ver it.pos)) := by
  unfold State.get
  rw [memMeta_nc hash K nc]
  rcases a with ⟨a1, _⟩ | ⟨it, e, r, a1, _, a3, a4, _⟩
  · rw [a1]
    exact ⟨rfl, Or.inl ⟨by simp [Bucket.lookup, a1], rfl⟩⟩
  · rw [a1]
    simp only [a3, a4, if_true]
    exact ⟨trivial, Or.inr ⟨r, it, by simp [Bucket.lookup, a1, a3, a4], rfl⟩⟩

end
end CollideLemmas
