/-
  C08, lazy inner nodes of store/htree.go — entry module of the proofs about Model/HTreeImpl.lean.

  Parts (all core-only, no Mathlib):
    Lemmas/HTreeImplBase.lean     array level: `TreeInv` (flagged ⇒ exact fold of the leaf summaries, flagged ⇒ children
                                  flagged); `getLeafAndInvalidNodes` clears exactly the ancestors; `treeInv_touch`;
                                  `updateNodes_spec` (the lazy recomputation, children in order, state threaded)
    Lemmas/HTreeImplContent.lean  content level: `LeavesInv`; fold of leaf summaries = `Tree.nodeSum` of the content;
                                  `collectItems` = content under the prefix
    Lemmas/HTreeImplMain.lean     `Inv`, every call keeps it, every reader returns the specification:
                                  `C08_lazy_never_stale`, `C08_every_node`, `C08_flagged_is_exact`, `run_output_exact`,
                                  `listDir_exact`, `update_exact`; the reader WITHOUT update: `rootCount_step`,
                                  `rootCount_run`, `rootCount_writers_only`
    Lemmas/HTreeImplAbs.lean      the content is a dictionary (set = upsert, remove = delete): `content_set`,
                                  `content_remove`, `content_movePos`, `C08_history_to_summary`
  This file: non-vacuity (the hypotheses of the theorems hold on a concrete tree with stale flags) and sanity
  evaluations of the model against the specification.
-/
import GoBeans.Lemmas.HTreeImplAbs
set_option linter.unusedSimpArgs false
set_option linter.unusedVariables false
namespace HTreeImplLemmas
open Tree TreeLemmas HTreeImpl

/-! ### a concrete history: bucket 1 of 16 (depth 1), height 3 -/

/-- set k1; list node "12" (flags level-1 node 2) and node "15" (flags level-1 node 5); set k2 below node "12"
    (stale again); a remove whose position test fails (invalidates only); a GC repointing; set and remove k3 -/
def demoOps : List Op :=
  [.set k1, .list 1 [1, 2], .list 1 [1, 5], .set k2, .remove k1.khash false, .movePos k2.khash true, .set k3,
   .remove k3.khash true]

theorem t0_new : newHTree 1 1 3 = some t0 := by decide +kernel

theorem demo_ok : ∀ op ∈ demoOps, OpOk' t0 op := by
  intro op h
  simp only [demoOps, List.mem_cons, List.mem_nil_iff, or_false] at h
  rcases h with rfl | rfl | rfl | rfl | rfl | rfl | rfl | rfl
  · show topDigits k1.khash 1 = 1; decide
  · exact ⟨by decide, by decide, by decide⟩
  · exact ⟨by decide, by decide, by decide⟩
  · show topDigits k2.khash 1 = 1; decide
  · show topDigits k1.khash 1 = 1; decide
  · trivial
  · show topDigits k3.khash 1 = 1; decide
  · show topDigits k3.khash 1 = 1; decide

/-- the tree after the history -/
def demoT : HTree := ((run t0 demoOps).map (·.1)).getD t0

theorem demo_some : (run t0 demoOps).isSome = true := by decide +kernel

theorem demo_run : ∃ outs, run t0 demoOps = some (demoT, outs) := by
  have h := demo_some
  unfold demoT
  cases hr : run t0 demoOps with
  | none => rw [hr] at h; exact absurd h (by decide)
  | some r => exact ⟨r.2, rfl⟩

/-- non-vacuity of `C08_lazy_never_stale` / `C08_every_node` / `C08_history_to_summary`: `demoT` is reachable by an
    admissible history; its root was never refreshed and the level-1 node above k1/k2 is STALE (flag false, stored
    count 1 although 2 keys are live below it), another level-1 node is flagged -/
theorem demo_reach : Reach t0 demoT := by
  obtain ⟨t, outs, h1, _, _, h4, _⟩ := run_total t0 demoOps (newHTree_inv 1 1 3 t0 t0_new (by decide)).1
    (fun o h => opOk'_ok t0 o (demo_ok o h))
  obtain ⟨outs', h2⟩ := demo_run
  rw [h1] at h2
  have : t = demoT := congrArg Prod.fst (Option.some.inj h2)
  rw [← this]; exact h4

example : (demoT.node 0 0).upd = false ∧ (demoT.node 1 2).upd = false ∧ (demoT.node 1 2).count = 1 ∧
    (demoT.node 1 5).upd = true := by decide +kernel
example : content demoT = [k1, k2] := by decide +kernel
example : rootCountNoUpdate demoT = 0 ∧ liveCount (content demoT) = 2 := by decide +kernel

/-- the theorem applied: on the stale tree `Update` returns the specification of [k1, k2] -/
example : ((update demoT).2.count, (update demoT).2.hash) = nodeSum [k1, k2] 1 1 2 := by
  have h := (C08_every_node 1 1 3 t0 demoT t0_new (by decide) demo_reach 0 0 (by decide) (by decide)).1
  have hc : content demoT = [k1, k2] := by decide +kernel
  rw [hc] at h
  simpa [update, updateAt] using h

/-- and of the dictionary the history builds -/
example : absRun [] demoOps = [k2, k1] := by decide +kernel
example : ((update demoT).2.count, (update demoT).2.hash) = nodeSum [k2, k1] 1 1 2 := by
  obtain ⟨outs, hr⟩ := demo_run
  have h := C08_history_to_summary 1 1 3 t0 demoT demoOps outs t0_new (by decide) demo_ok hr 0 0 (by decide) (by decide)
  have hc : absRun [] demoOps = [k2, k1] := by decide +kernel
  rw [hc] at h
  simpa [update, updateAt] using h

/-! ### sanity evaluations: model against specification on concrete inputs (kernel evaluation; height 2 keeps the
    evaluation of `updateNodes` by the kernel cheap) -/

def t2h : HTree := (newHTree 1 1 2).getD ⟨0, 0, [], []⟩

-- every output of a run equals `specOut` on the content of that moment
example : (run t2h [.set k1, .set k2, .update]).map (·.2)
    = some [.done, .done, .node (nodeSum [k1, k2] 1 1 1).1 (nodeSum [k1, k2] 1 1 1).2] := by decide +kernel
example : (run t2h [.set k1, .set k2, .set k3, .list 1 [1]]).map (fun r => r.2.getLast?)
    = some (some (.listing (listBucket [k1, k2, k3] 1 2 1 [1]))) := by decide +kernel
example : (run t2h [.set k1, .set k2, .set k3, .list 1 [1], .remove k2.khash true, .list 1 [1]]).map (fun r => r.2.getLast?)
    = some (some (.listing (listBucket [k1, k3] 1 2 1 [1]))) := by decide +kernel
-- height 3, a level-1 node: children listing, then item listing below the threshold
example : (run t0 [.set k1, .set k2, .set k3, .list 1 [1, 2]]).map (fun r => r.2.getLast?)
    = some (some (.listing (listBucket [k1, k2, k3] 1 3 1 [1, 2]))) := by decide +kernel
example : (run t0 [.set k1, .set k2, .list 256 [1, 2, 3, 4]]).map (fun r => r.2.getLast?)
    = some (some (.listing (.items [k1]))) := by decide +kernel
-- too-short path
example : (run t0 [.list 1 []]).map (·.2) = some [.err] := by decide +kernel
-- `stats curr_items` after two sets on a fresh tree: 0, until somebody lists the bucket root
example : (run t2h [.set k1, .set k2]).map (fun r => rootCountNoUpdate r.1) = some 0 := by decide +kernel
example : (run t0 [.set k1, .set k2, .list 256 [1, 2]]).map (fun r => rootCountNoUpdate r.1) = some 0 := by decide +kernel
example : (run t2h [.set k1, .set k2, .list 256 [1]]).map (fun r => rootCountNoUpdate r.1) = some 2 := by decide +kernel
example : (run t2h [.set k1, .set k2, .list 256 [1], .remove k1.khash true]).map (fun r => rootCountNoUpdate r.1) = some 2 := by
  decide +kernel
-- restart: `load` of the dumped leaves leaves every inner node stale; `curr_items` is 0 until `ListTop` (depth 1) ran
example : ((run t2h [.set k1, .set k2]).bind (fun r => load t2h r.1.leaves)).map
    (fun t => (rootCountNoUpdate t, rootCountNoUpdate (listTop t), liveCount (content t))) = some (0, 2, 2) := by decide +kernel
-- a short dump file is a read error
example : (load t2h []).isNone = true := by decide +kernel
-- 256 buckets, bucket 5: `ListTop` formats the path as "5" (one digit), `ListDir` says "too short": nothing happens
example : (newHTree 2 5 2).map (fun t => decide (listTop t = t)) = some true := by decide +kernel
-- height 1: the first `set` panics (index -1 in getLeafAndInvalidNodes)
example : ((newHTree 0 0 1).bind (fun t => run t [.set k1])).isNone = true := by decide +kernel

end HTreeImplLemmas
