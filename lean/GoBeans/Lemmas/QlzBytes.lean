/-
  QuickLZ (C10) — byte-level facts about the Go port's helpers `fastRead` / `fastWrite` / `writeHeader`
  (quicklz.go:53-78) as modelled in `Model/Qlz.lean`, and the first fragment of the round trip:
  `stored_roundtrip` — whenever `Compress` gives up and returns the stored form, `Decompress` (and `DecompressSafe`)
  of that stream returns the original value, for ALL values below 4 GiB.  Core-only.
-/
import GoBeans.Lemmas.Qlz
set_option linter.unusedVariables false
set_option linter.unusedSimpArgs false
namespace QlzRT
open Qlz QlzLemmas

/-- the byte `byte(value >> (8*j))` that `fastWrite` stores -/
def byteOf (v j : Nat) : UInt8 := ((v >>> (8 * j)) % 256).toUInt8

theorem byteOf_toNat (v j : Nat) : (byteOf v j).toNat = (v / 2 ^ (8 * j)) % 256 := by
  simp [byteOf, Nat.toUInt8, UInt8.toNat_ofNat', Nat.shiftRight_eq_div_pow]

theorem wr_get {a a' : Buf} {i : Nat} {v : UInt8} (h : wr a i v = some a') (j : Nat) :
    a'[j]? = if j = i then some v else a[j]? := by
  unfold wr at h
  split at h
  · cases h
    rw [Array.getElem?_setIfInBounds]
    by_cases hj : i = j
    · subst hj; simp [*]
    · have : ¬ j = i := fun h => hj h.symm
      simp [hj, this]
  · cases h

/-- what `fastWrite` leaves in the array -/
theorem fastWrite_spec {a : Buf} {i v : Nat} : ∀ {n : Nat} {a' : Buf}, fastWrite a i v n = some a' →
    a'.size = a.size ∧ ∀ j, a'[j]? = if i ≤ j ∧ j < i + n then some (byteOf v (j - i)) else a[j]? := by
  intro n
  induction n with
  | zero => intro a' h; simp [fastWrite] at h; subst h; simp; intro j h1 h2; omega
  | succ n ih =>
    intro a' h
    unfold fastWrite at h
    split at h
    · cases h
    · rename_i a1 h1
      obtain ⟨hs, hg⟩ := ih h1
      refine ⟨by rw [wr_size h, hs], ?_⟩
      intro j
      rw [wr_get h j, hg j]
      by_cases hj : j = i + n
      · subst hj
        have : i + n - i = n := by omega
        simp [byteOf, this]
      · simp only [hj, if_false]
        by_cases hc : i ≤ j ∧ j < i + n
        · have : i ≤ j ∧ j < i + (n + 1) := by omega
          simp [hc, this]
        · have : ¬ (i ≤ j ∧ j < i + (n + 1)) := by omega
          simp [hc, this]

theorem fastWrite_some_le {a a' : Buf} {i v n : Nat} (h : fastWrite a i v (n + 1) = some a') : i + n < a.size := by
  unfold fastWrite at h
  split at h
  · cases h
  · rename_i a1 h1
    have := wr_some_lt h
    rw [(fastWrite_spec h1).1] at this
    exact this

/-- `fastWrite` succeeds when the bytes are in range -/
theorem fastWrite_ok (a : Buf) (i v : Nat) : ∀ (n : Nat), i + n ≤ a.size → ∃ a', fastWrite a i v n = some a' := by
  intro n
  induction n with
  | zero => intro _; exact ⟨a, rfl⟩
  | succ n ih =>
    intro h
    obtain ⟨a1, h1⟩ := ih (by omega)
    unfold fastWrite
    rw [h1]
    simp only [wr]
    rw [if_pos (by rw [(fastWrite_spec h1).1]; omega)]
    exact ⟨_, rfl⟩

/-- reading back little-endian bytes -/
theorem fastRead_bytes {a : Buf} {i v : Nat} : ∀ (n : Nat), (∀ j, j < n → a[i + j]? = some (byteOf v j)) →
    fastRead a i n = some (v % 2 ^ (8 * n)) := by
  intro n
  induction n with
  | zero => intro _; simp [fastRead, Nat.mod_one]
  | succ n ih =>
    intro h
    unfold fastRead
    rw [ih (fun j hj => h j (by omega)), h n (by omega)]
    simp only
    congr 1
    rw [byteOf_toNat]
    have hlt : v % 2 ^ (8 * n) < 2 ^ (8 * n) := Nat.mod_lt _ (Nat.pow_pos (by omega))
    rw [Nat.or_comm, ← Nat.shiftLeft_add_eq_or_of_lt hlt, Nat.shiftLeft_eq]
    have : 2 ^ (8 * (n + 1)) = 2 ^ (8 * n) * 256 := by
      rw [show 8 * (n + 1) = 8 * n + 8 by omega, Nat.pow_add]
    rw [this, Nat.mod_mul]
    rw [Nat.mul_comm]
    omega


/-- the first header byte `writeHeader` stores -/
def hdr0 (level : Nat) (compressible : Bool) : Nat := ((2 ||| (if compressible then 1 else 0)) ||| ((level <<< 2) % 256)) ||| 64

/-- what `writeHeader` leaves: byte 0, the little-endian sizes at 1 and 5, everything from 9 on untouched -/
theorem writeHeader_spec {d d' : Buf} {level p4 p5 : Nat} {c : Bool} (h : writeHeader d level c p4 p5 = some d') :
    d'.size = d.size ∧ 9 ≤ d.size ∧ d'[0]? = some (hdr0 level c).toUInt8 ∧ fastRead d' 1 4 = some (p5 % 2 ^ 32)
      ∧ fastRead d' 5 4 = some (p4 % 2 ^ 32) ∧ ∀ j, 9 ≤ j → d'[j]? = d[j]? := by
  unfold writeHeader at h
  simp only at h
  split at h
  · cases h
  · rename_i d1 h1
    split at h
    · cases h
    · rename_i d2 h2
      obtain ⟨s2, g2⟩ := fastWrite_spec h2
      obtain ⟨s3, g3⟩ := fastWrite_spec h
      have hlt := fastWrite_some_le h
      have g1 := wr_get h1
      refine ⟨by rw [s3, s2, wr_size h1], by rw [s2, wr_size h1] at hlt; omega, ?_, ?_, ?_, ?_⟩
      · rw [g3, g2, g1]; simp [hdr0]
      · apply fastRead_bytes
        intro j hj
        rw [g3, g2]
        have h1 : ¬ (5 ≤ 1 + j ∧ 1 + j < 5 + 4) := by omega
        have h2 : (1 ≤ 1 + j ∧ 1 + j < 1 + 4) := by omega
        simp only [h1, h2, if_false, if_true, and_self]
        congr 2; omega
      · apply fastRead_bytes
        intro j hj
        rw [g3]
        have h2 : (5 ≤ 5 + j ∧ 5 + j < 5 + 4) := by omega
        simp only [h2, if_true, and_self]
        congr 2; omega
      · intro j hj
        rw [g3, g2, g1]
        have h1 : ¬ (5 ≤ j ∧ j < 5 + 4) := by omega
        have h2 : ¬ (1 ≤ j ∧ j < 1 + 4) := by omega
        have h3 : ¬ j = 0 := by omega
        simp only [h1, h2, h3, if_false]

theorem writeHeader_ok (d : Buf) (level p4 p5 : Nat) (c : Bool) (h : 9 ≤ d.size) : ∃ d', writeHeader d level c p4 p5 = some d' := by
  unfold writeHeader
  simp only [wr]
  rw [if_pos (by omega)]
  simp only
  obtain ⟨d2, h2⟩ := fastWrite_ok (d.setIfInBounds 0 (((2 ||| (if c then 1 else 0)) ||| ((level <<< 2) % 256)) ||| 64).toUInt8) 1 p5 4 (by simp; omega)
  rw [h2]
  simp only
  exact fastWrite_ok d2 5 p4 4 (by rw [(fastWrite_spec h2).1]; simp; omega)

/-- header bits for the two levels the Go port knows -/
theorem hdr0_bits (level : Nat) (c : Bool) (hl : level = 1 ∨ level = 3) :
    (hdr0 level c).toUInt8.toNat &&& 2 = 2 ∧ ((hdr0 level c).toUInt8.toNat >>> 2) &&& 3 = level
      ∧ (hdr0 level c).toUInt8.toNat &&& 1 = (if c then 1 else 0) := by
  rcases hl with rfl | rfl <;> cases c <;> decide


theorem fastRead_congr {a b : Buf} {i : Nat} : ∀ (n : Nat), (∀ j, j < n → a[i + j]? = b[i + j]?) → fastRead a i n = fastRead b i n := by
  intro n
  induction n with
  | zero => intro _; rfl
  | succ n ih =>
    intro h
    unfold fastRead
    rw [ih (fun j hj => h j (by omega)), h n (by omega)]

/-- reading the header fields of a stream whose first nine bytes were written by `writeHeader` -/
theorem header_read {c : Buf} {level a b : Nat} {cb : Bool} (hl : level = 1 ∨ level = 3)
    (h0 : c[0]? = some (hdr0 level cb).toUInt8) (h1 : fastRead c 1 4 = some a) (h5 : fastRead c 5 4 = some b) :
    headerLen c = some 9 ∧ sizeCompressed c = some a ∧ sizeDecompressed c = some b ∧ levelOf c = some level
      ∧ cbitOf c = some (if cb then 1 else 0) := by
  obtain ⟨b1, b2, b3⟩ := hdr0_bits level cb hl
  have hh : headerLen c = some 9 := by simp only [headerLen, h0]; rw [if_pos b1]
  refine ⟨hh, ?_, ?_, ?_, ?_⟩
  · simp [sizeCompressed, hh, h1]
  · simp [sizeDecompressed, hh, h5]
  · simp only [levelOf, h0, Option.map_some, b2]
  · simp only [cbitOf, h0, Option.map_some, b3]

/-- (3, fragment) THE STORED BRANCH, for ALL values: whenever `Compress` gives up and returns the stored form
    (`storedStream`, quicklz.go:120-123), `Decompress` of that stream is the original value. -/
theorem stored_roundtrip {s out : Buf} {level : Nat} (hl : level = 1 ∨ level = 3) (hsz : s.size + 9 < 2 ^ 32)
    (h : storedStream s level = some out) : decompress out = .ok s ∧ decompressSafe out = .ok s := by
  unfold storedStream at h
  split at h
  · cases h
  · rename_i d2 hw
    cases h
    obtain ⟨hs, _, h0, h1, h5, _⟩ := writeHeader_spec hw
    have hd2 : d2.size = s.size + 9 := by rw [hs]; simp [DEFAULT_HEADERLEN]
    have hget : ∀ j, j < 9 → (d2.extract 0 DEFAULT_HEADERLEN ++ s)[j]? = d2[j]? := by
      intro j hj
      rw [Array.getElem?_append]
      have : j < min 9 (s.size + 9) := by omega
      simp [DEFAULT_HEADERLEN, hd2, hj, this]
    have hget2 : ∀ j, (d2.extract 0 DEFAULT_HEADERLEN ++ s)[9 + j]? = s[j]? := by
      intro j
      rw [Array.getElem?_append]
      have : ¬ (9 + j < min 9 (s.size + 9)) := by omega
      simp [DEFAULT_HEADERLEN, hd2, this]
      intro h; omega
    have e1 : fastRead (d2.extract 0 DEFAULT_HEADERLEN ++ s) 1 4 = some ((s.size + DEFAULT_HEADERLEN) % 2 ^ 32) := by
      rw [← h1]; apply fastRead_congr; intro j hj; exact hget _ (by omega)
    have e5 : fastRead (d2.extract 0 DEFAULT_HEADERLEN ++ s) 5 4 = some (s.size % 2 ^ 32) := by
      rw [← h5]; apply fastRead_congr; intro j hj; exact hget _ (by omega)
    have e0 : (d2.extract 0 DEFAULT_HEADERLEN ++ s)[0]? = some (hdr0 level false).toUInt8 := by rw [hget 0 (by omega), h0]
    obtain ⟨r1, r2, r3, r4, r5⟩ := header_read hl e0 e1 e5
    have hm : s.size % 2 ^ 32 = s.size := Nat.mod_eq_of_lt (by omega)
    have hm2 : (s.size + DEFAULT_HEADERLEN) % 2 ^ 32 = s.size + 9 := by simp [DEFAULT_HEADERLEN]; omega
    rw [hm] at r3
    rw [hm2] at r2
    have hdec := decompress_stored r3 r1 r4 hl (by simpa using r5)
    have hcopy : storedCopy (d2.extract 0 DEFAULT_HEADERLEN ++ s) 9 s.size = s := by
      apply Array.ext_getElem?
      intro i
      simp only [storedCopy, Array.getElem?_ofFn]
      by_cases hi : i < s.size
      · have hlt : 9 + i < (d2.extract 0 DEFAULT_HEADERLEN ++ s).size := by simp [DEFAULT_HEADERLEN, hd2]; omega
        simp only [hi, dite_true, hlt]
        have := hget2 i
        rw [Array.getElem?_eq_getElem hlt] at this
        rw [this]
      · simp [hi]
    rw [hcopy] at hdec
    refine ⟨hdec, ?_⟩
    unfold decompressSafe
    rw [r2, r3, hdec]
    have : (d2.extract 0 DEFAULT_HEADERLEN ++ s).size = s.size + 9 := by simp [DEFAULT_HEADERLEN, hd2]; omega
    simp [this]

end QlzRT
