/-
  QuickLZ (C10) — the decoder half of the level-3 round trip.  `Enc3 c x p q cw` is a certificate that the stream `c`,
  read from position `p` with `cw` left of the current control word, encodes `x[q..]` in the level-3 format
  (literal passes, match passes with the five token forms `tok3`, the final literal run `TailEnc`).
  `dec3_loop` / `dec3`: the model of the Go `Decompress` run on a certified stream returns exactly `x`.
  The compressor half (`QlzEnc3`) shows that `Compress(x, 3)` produces a certified stream.  Core-only.
-/
import GoBeans.Lemmas.QlzBytes
set_option linter.unusedVariables false
set_option linter.unusedSimpArgs false
namespace QlzRT
open Qlz QlzLemmas

/-! ## bit operations as arithmetic -/

theorem or_shl (a b k : Nat) (h : a < 2 ^ k) : a ||| (b <<< k) = a + b * 2 ^ k := by
  rw [Nat.or_comm, ← Nat.shiftLeft_add_eq_or_of_lt h, Nat.shiftLeft_eq, Nat.add_comm]

theorem and_1 (x : Nat) : x &&& 1 = x % 2 := Nat.and_two_pow_sub_one_eq_mod x 1
theorem and_3 (x : Nat) : x &&& 3 = x % 4 := Nat.and_two_pow_sub_one_eq_mod x 2
theorem and_15 (x : Nat) : x &&& 15 = x % 16 := Nat.and_two_pow_sub_one_eq_mod x 4
theorem and_31 (x : Nat) : x &&& 0x1f = x % 32 := Nat.and_two_pow_sub_one_eq_mod x 5
theorem and_127 (x : Nat) : x &&& 127 = x % 128 := Nat.and_two_pow_sub_one_eq_mod x 7
theorem and_255 (x : Nat) : x &&& 255 = x % 256 := Nat.and_two_pow_sub_one_eq_mod x 8
theorem and_ff (x : Nat) : x &&& 0xff = x % 256 := Nat.and_two_pow_sub_one_eq_mod x 8
theorem and_ffff (x : Nat) : x &&& 0xffff = x % 65536 := Nat.and_two_pow_sub_one_eq_mod x 16
theorem and_1ffff (x : Nat) : x &&& 0x1ffff = x % 131072 := Nat.and_two_pow_sub_one_eq_mod x 17
theorem and_2 (x : Nat) : x &&& 2 = (x / 2 % 2) * 2 := by
  have h1 : (x &&& 2) % 2 = 0 := by
    have := @Nat.and_mod_two_pow x 2 1
    simp only [Nat.pow_one] at this
    rw [this]; simp
  have h2 : (x &&& 2) / 2 = x / 2 % 2 := by
    rw [Nat.and_div_two]; exact and_1 (x / 2)
  omega

theorem shr (x k : Nat) : x >>> k = x / 2 ^ k := Nat.shiftRight_eq_div_pow x k

/-- level-3 token decoder: the arithmetic of quicklz.go:349-369 — (matchlen, offset, token length) -/
def tok3 (f : Nat) : Nat × Nat × Nat :=
  if f % 4 = 0 then (3, f % 256 / 4, 1)
  else if f / 2 % 2 = 0 then (3, f % 65536 / 4, 2)
  else if f % 2 = 0 then (f / 4 % 16 + 3, f % 65536 / 64, 2)
  else if f % 128 ≠ 3 then (f / 4 % 32 + 2, f / 128 % 131072, 3)
  else (f / 128 % 256 + 3, f / 32768, 4)

theorem decodeMatch3 (s : Buf) (st : St) :
    decodeMatch s 3 st = some ((tok3 st.fetch).1, (st.dst : Int) - ((tok3 st.fetch).2.1 : Nat), st.src + (tok3 st.fetch).2.2) := by
  unfold decodeMatch tok3
  simp only [show (3 : Nat) ≠ 1 by omega, if_false, and_3, and_2, and_1, and_127, and_ff, and_ffff, and_15, and_31, and_255, and_1ffff, shr]
  have h2 : (st.fetch / 2 % 2 * 2 = 0) ↔ (st.fetch / 2 % 2 = 0) := by omega
  by_cases c1 : st.fetch % 4 = 0
  · simp [c1]
  · by_cases c2 : st.fetch / 2 % 2 = 0
    · simp [c1, c2]
    · by_cases c3 : st.fetch % 2 = 0
      · simp [c1, c2, c3, h2]
      · by_cases c4 : st.fetch % 128 = 3
        · simp [c1, c2, c3, c4, h2]
        · simp [c1, c2, c3, c4, h2]

/-! ## `fastRead` of 3 and 4 bytes as arithmetic -/

theorem fastRead_succ {c : Buf} {p n f : Nat} (h : fastRead c p (n + 1) = some f) :
    ∃ l b, fastRead c p n = some l ∧ c[p + n]? = some b ∧ f = l ||| (b.toNat <<< (8 * n)) := by
  unfold fastRead at h
  split at h
  · contradiction
  · rename_i l hl
    split at h
    · contradiction
    · rename_i b hb
      cases h
      exact ⟨l, b, hl, hb, rfl⟩

theorem fastRead4 {c : Buf} {p f : Nat} (h : fastRead c p 4 = some f) :
    ∃ b0 b1 b2 b3 : UInt8, c[p]? = some b0 ∧ c[p + 1]? = some b1 ∧ c[p + 2]? = some b2 ∧ c[p + 3]? = some b3
      ∧ f = b0.toNat + b1.toNat * 256 + b2.toNat * 65536 + b3.toNat * 16777216 := by
  obtain ⟨l3, b3, h3, hb3, rfl⟩ := fastRead_succ h
  obtain ⟨l2, b2, h2, hb2, rfl⟩ := fastRead_succ h3
  obtain ⟨l1, b1, h1, hb1, rfl⟩ := fastRead_succ h2
  obtain ⟨l0, b0, h0, hb0, rfl⟩ := fastRead_succ h1
  simp only [fastRead, Option.some.injEq] at h0
  subst h0
  simp only [Nat.add_zero] at hb0
  refine ⟨b0, b1, b2, b3, hb0, hb1, hb2, hb3, ?_⟩
  have e0 := b0.toNat_lt
  have e1 := b1.toNat_lt
  have e2 := b2.toNat_lt
  simp only [Nat.mul_zero, Nat.shiftLeft_zero, Nat.zero_or]
  rw [or_shl _ _ _ (by omega : b0.toNat < 2 ^ (8 * 1))]
  rw [or_shl _ _ _ (by omega : b0.toNat + b1.toNat * 2 ^ (8 * 1) < 2 ^ (8 * 2))]
  rw [or_shl _ _ _ (by omega : b0.toNat + b1.toNat * 2 ^ (8 * 1) + b2.toNat * 2 ^ (8 * 2) < 2 ^ (8 * 3))]

theorem fastRead4_mk {c : Buf} {p : Nat} {b0 b1 b2 b3 : UInt8} (h0 : c[p]? = some b0) (h1 : c[p + 1]? = some b1)
    (h2 : c[p + 2]? = some b2) (h3 : c[p + 3]? = some b3) :
    fastRead c p 4 = some (b0.toNat + b1.toNat * 256 + b2.toNat * 65536 + b3.toNat * 16777216) := by
  have e0 := b0.toNat_lt
  have e1 := b1.toNat_lt
  have e2 := b2.toNat_lt
  simp only [fastRead, Nat.add_zero, h0, h1, h2, h3, Nat.mul_zero, Nat.shiftLeft_zero, Nat.zero_or]
  rw [or_shl _ _ _ (by omega : b0.toNat < 2 ^ (8 * 1))]
  rw [or_shl _ _ _ (by omega : b0.toNat + b1.toNat * 2 ^ (8 * 1) < 2 ^ (8 * 2))]
  rw [or_shl _ _ _ (by omega : b0.toNat + b1.toNat * 2 ^ (8 * 1) + b2.toNat * 2 ^ (8 * 2) < 2 ^ (8 * 3))]

/-- the level-3 fetch update after a literal (quicklz.go:413) keeps `fetch = fastRead(source, src, 4)` -/
theorem fetch_shift4 {c : Buf} {p f : Nat} {b2 b3 : UInt8} (h : fastRead c p 4 = some f) (h2 : c[p + 1 + 2]? = some b2)
    (h3 : c[p + 1 + 3]? = some b3) :
    fastRead c (p + 1) 4 = some ((((f >>> 8) &&& 0xffff) ||| (b2.toNat <<< 16)) ||| (b3.toNat <<< 24)) := by
  obtain ⟨a0, a1, a2, a3, g0, g1, g2, g3, rfl⟩ := fastRead4 h
  have e0 := a0.toNat_lt
  have e1 := a1.toNat_lt
  have e2 := a2.toNat_lt
  have e3 := a3.toNat_lt
  have e4 := b2.toNat_lt
  rw [show p + 1 + 2 = p + 3 by omega] at h2
  rw [g3] at h2; cases h2
  rw [fastRead4_mk g1 (by rw [show p + 1 + 1 = p + 2 by omega]; exact g2) (by rw [show p + 1 + 2 = p + 3 by omega]; exact g3) h3]
  congr 1
  rw [and_ffff, shr]
  have i1 : (a0.toNat + a1.toNat * 256 + a2.toNat * 65536 + b2.toNat * 16777216) / 2 ^ 8 % 65536 ||| b2.toNat <<< 16
      = a1.toNat + a2.toNat * 256 + b2.toNat * 2 ^ 16 := by
    rw [or_shl _ _ _ (by omega)]; omega
  rw [i1, or_shl _ _ _ (by omega)]


/-! ## the copy loop of a valid match reproduces the original bytes -/

theorem wr_ok {a : Buf} {i : Nat} (v : UInt8) (h : i < a.size) : ∃ a', wr a i v = some a' := by
  unfold wr; rw [if_pos h]; exact ⟨_, rfl⟩

theorem copyFrom_match {x : Buf} {q off : Nat} (hoff : 1 ≤ off) (hle : off ≤ q) :
    ∀ (n i : Nat) (d : Buf), d.size = x.size → q + i + n ≤ x.size → (∀ j, j < i + n → x[q + j]? = x[q - off + j]?) →
      (∀ j, j < q + i → d[j]? = x[j]?) →
      ∃ d', copyFrom q ((q : Int) - (off : Nat)) i n d = some d' ∧ d'.size = x.size ∧ ∀ j, j < q + i + n → d'[j]? = x[j]? := by
  intro n
  induction n with
  | zero => intro i d hs _ _ hp; exact ⟨d, rfl, hs, by simpa using hp⟩
  | succ n ih =>
    intro i d hs hb hx hp
    unfold copyFrom
    have hidx : ((q : Int) - (off : Nat) + (i : Nat)) = ((q - off + i : Nat) : Int) := by omega
    have hxq : q + i < x.size := by omega
    have hrd : rdI d ((q : Int) - (off : Nat) + (i : Nat)) = some x[q + i] := by
      unfold rdI
      rw [hidx]
      simp only [Int.toNat_natCast, show ¬ (((q - off + i : Nat) : Int) < 0) by omega, if_false]
      rw [hp _ (by omega), ← hx i (by omega)]
      exact Array.getElem?_eq_getElem hxq
    rw [hrd]
    simp only
    obtain ⟨d1, hd1⟩ := wr_ok x[q + i] (by rw [hs]; exact hxq : q + i < d.size)
    rw [hd1]
    simp only
    have := ih (i + 1) d1 (by rw [wr_size hd1, hs]) (by omega) (fun j hj => hx j (by omega)) (by
      intro j hj
      rw [wr_get hd1 j]
      by_cases hjq : j = q + i
      · subst hjq; simp [Array.getElem?_eq_getElem hxq]
      · simp only [hjq, if_false]; exact hp j (by omega))
    obtain ⟨d', h1, h2, h3⟩ := this
    exact ⟨d', h1, h2, fun j hj => h3 j (by omega)⟩


/-! ## the level-3 stream format as a certificate, and the decoder run on a certified stream -/

/-- the control word in force after the reload test at the top of a pass -/
def cwAt (c : Buf) (p cw : Nat) : Option (Nat × Nat) :=
  if cw = 1 then (match fastRead c p 4 with | none => none | some W => some (p + 4, W)) else some (p, cw)

/-- the final literal run: `c` from `p` holds `x[q..]` verbatim, a 4-byte control word skipped whenever the current one
    is used up (its value is not looked at) -/
inductive TailEnc (c x : Buf) : Nat → Nat → Nat → Prop
  | done {p q cw : Nat} : x.size ≤ q → TailEnc c x p q cw
  | step {p q cw : Nat} (b : UInt8) : q < x.size →
      c[if cw = 1 then p + 4 else p]? = some b → x[q]? = some b →
      TailEnc c x ((if cw = 1 then p + 4 else p) + 1) (q + 1) ((if cw = 1 then 0x80000000 else cw) >>> 1) →
      TailEnc c x p q cw

/-- `Enc3 c x p q cw`: read from position `p` with `cw` left of the current control word, the stream `c` encodes
    `x[q..]` given that `x[..q]` has been produced.  One constructor per kind of pass of the decoder. -/
inductive Enc3 (c x : Buf) : Nat → Nat → Nat → Prop
  | lit {p q cw p' cw' : Nat} (b b2 b3 : UInt8) :
      cwAt c p cw = some (p', cw') → cw' &&& 1 = 0 → ((q : Nat) : Int) ≤ (x.size : Int) - 11 →
      (fastRead c p' 4).isSome → c[p']? = some b → x[q]? = some b → c[p' + 1 + 2]? = some b2 → c[p' + 1 + 3]? = some b3 →
      Enc3 c x (p' + 1) (q + 1) (cw' >>> 1) → Enc3 c x p q cw
  | mat {p q cw p' cw' f : Nat} :
      cwAt c p cw = some (p', cw') → cw' &&& 1 = 1 → ((q : Nat) : Int) ≤ (x.size : Int) - 11 →
      fastRead c p' 4 = some f → 1 ≤ (tok3 f).2.1 → (tok3 f).2.1 ≤ q → 3 ≤ (tok3 f).1 → q + (tok3 f).1 ≤ x.size →
      (∀ j, j < (tok3 f).1 → x[q + j]? = x[q - (tok3 f).2.1 + j]?) →
      (fastRead c (p' + (tok3 f).2.2) 4).isSome →
      Enc3 c x (p' + (tok3 f).2.2) (q + (tok3 f).1) (cw' >>> 1) → Enc3 c x p q cw
  | fin {p q cw p' cw' : Nat} :
      cwAt c p cw = some (p', cw') → cw' &&& 1 = 0 → ¬ (((q : Nat) : Int) ≤ (x.size : Int) - 11) → q ≤ x.size →
      TailEnc c x p' q cw' → Enc3 c x p q cw

theorem tailLoop_enc {c x : Buf} {p q cw : Nat} (h : TailEnc c x p q cw) :
    ∀ (d : Buf), d.size = x.size → (∀ j, j < q → d[j]? = x[j]?) → q ≤ x.size → tailLoop c (x.size - q) p q cw d = some x := by
  induction h with
  | @done p q cw hq =>
    intro d hs hp hle
    have : x.size - q = 0 := by omega
    rw [this]; simp only [tailLoop]
    congr 1
    apply Array.ext_getElem?
    intro j
    by_cases hj : j < x.size
    · exact hp j (by omega)
    · rw [Array.getElem?_eq_none (by omega), Array.getElem?_eq_none (by omega)]
  | @step p q cw b hq hc hx _ ih =>
    intro d hs hp hle
    have : x.size - q = (x.size - (q + 1)) + 1 := by omega
    rw [this]
    unfold tailLoop
    simp only [CWORD_LEN]
    rw [hc]
    simp only
    obtain ⟨d1, hd1⟩ := wr_ok b (by rw [hs]; exact hq : q < d.size)
    rw [hd1]
    simp only
    apply ih d1 (by rw [wr_size hd1, hs]) _ (by omega)
    intro j hj
    rw [wr_get hd1 j]
    by_cases hjq : j = q
    · subst hjq; simp [hx]
    · simp only [hjq, if_false]; exact hp j (by omega)

/-- the decoder's variables at the top of a pass, related to a position of the certificate -/
structure DInv (c x : Buf) (st : St) (p q cw : Nat) : Prop where
  src : st.src = p
  dst : st.dst = q
  cword : st.cword = cw
  size : st.dest.size = x.size
  pre : ∀ j, j < q → st.dest[j]? = x[j]?
  fetch : cw ≠ 1 → ((q : Nat) : Int) ≤ (x.size : Int) - 11 → fastRead c p 4 = some st.fetch

theorem loadCword3 {c x : Buf} {st : St} {p q cw p' cw' : Nat} (hi : DInv c x st p q cw) (hcw : cwAt c p cw = some (p', cw'))
    (hf : ((q : Nat) : Int) ≤ (x.size : Int) - 11 → (fastRead c p' 4).isSome) :
    ∃ st1, loadCword c 3 ((x.size : Int) - 11) st = some st1 ∧ st1.src = p' ∧ st1.cword = cw' ∧ st1.dst = q ∧ st1.dest = st.dest
      ∧ st1.ht = st.ht ∧ st1.lastHashed = st.lastHashed
      ∧ (((q : Nat) : Int) ≤ (x.size : Int) - 11 → fastRead c p' 4 = some st1.fetch) ∧ p ≤ p' := by
  unfold cwAt at hcw
  unfold loadCword
  by_cases h1 : cw = 1
  · rw [if_pos h1] at hcw
    rw [if_pos (by rw [hi.cword]; exact h1)]
    split at hcw
    · contradiction
    · rename_i W hW
      cases hcw
      rw [hi.src, hW]
      simp only
      by_cases hq : ((q : Nat) : Int) ≤ (x.size : Int) - 11
      · rw [if_pos (by rw [hi.dst]; exact hq)]
        have := hf hq
        rw [Option.isSome_iff_exists] at this
        obtain ⟨f, hf'⟩ := this
        simp only [show (3 : Nat) ≠ 1 by omega, if_false]
        rw [hf']
        exact ⟨_, rfl, rfl, rfl, hi.dst, rfl, rfl, rfl, fun _ => rfl, by omega⟩
      · rw [if_neg (by rw [hi.dst]; exact hq)]
        exact ⟨_, rfl, rfl, rfl, hi.dst, rfl, rfl, rfl, fun h => absurd h hq, by omega⟩
  · rw [if_neg h1] at hcw
    cases hcw
    rw [if_neg (by rw [hi.cword]; exact h1)]
    exact ⟨st, rfl, hi.src, hi.cword, hi.dst, rfl, rfl, rfl, fun h => hi.fetch h1 h, by omega⟩


/-- THE DECODER ON A CERTIFIED LEVEL-3 STREAM: from any state of the main loop that corresponds to a position of the
    certificate, the loop returns exactly `x` -/
theorem dec3_loop {c x : Buf} {p q cw : Nat} (h : Enc3 c x p q cw) :
    ∀ (st : St), DInv c x st p q cw → ∀ fuel, c.size - p < fuel → loop c 3 x.size fuel st = .ok x := by
  induction h with
  | @lit p q cw p' cw' b b2 b3 hcw hbit hq hfr hc hx hb2 hb3 _ ih =>
    intro st hi fuel hfuel
    obtain ⟨n, rfl⟩ : ∃ n, fuel = n + 1 := ⟨fuel - 1, by omega⟩
    obtain ⟨st1, hl, s1, s2, s3, s4, s5, s6, s7, s8⟩ := loadCword3 hi hcw (fun _ => hfr)
    have hqx : q < x.size := (Array.getElem?_eq_some_iff.mp hx).1
    obtain ⟨d1, hd1⟩ := wr_ok b (by rw [hi.size]; exact hqx : q < st.dest.size)
    have hlit : litStep c 3 st1 = some (⟨p' + 1, q + 1, cw' >>> 1, d1, st1.ht, st1.lastHashed,
        (((st1.fetch >>> 8) &&& 0xffff) ||| (b2.toNat <<< 16)) ||| (b3.toNat <<< 24)⟩ : St) := by
      unfold litStep
      rw [s1, hc]
      simp only
      rw [s4, s3, hd1]
      simp only [show (3 : Nat) ≠ 1 by omega, if_false]
      rw [hb2, hb3, s2]
    unfold loop step
    simp only
    rw [hl]
    simp only
    rw [s2, if_neg (by rw [hbit]; omega), s3, if_pos hq, hlit]
    simp only [Option.map_some]
    apply ih
    · refine ⟨rfl, rfl, rfl, by simp only; rw [wr_size hd1, hi.size], ?_, ?_⟩
      · intro j hj
        simp only
        rw [wr_get hd1 j]
        by_cases hjq : j = q
        · subst hjq; simp [hx]
        · simp only [hjq, if_false]; exact hi.pre j (by omega)
      · intro _ _
        exact fetch_shift4 (s7 hq) hb2 hb3
    · have := getElem?_some_lt hb3
      omega
  | @mat p q cw p' cw' f hcw hbit hq hf ho1 ho2 hml hend hx hnext _ ih =>
    intro st hi fuel hfuel
    obtain ⟨n, rfl⟩ : ∃ n, fuel = n + 1 := ⟨fuel - 1, by omega⟩
    obtain ⟨st1, hl, s1, s2, s3, s4, s5, s6, s7, s8⟩ := loadCword3 hi hcw (fun _ => by rw [hf]; rfl)
    have hfe : st1.fetch = f := by
      have := s7 hq
      rw [hf] at this
      exact (Option.some.inj this).symm
    obtain ⟨f', hf'⟩ := Option.isSome_iff_exists.mp hnext
    obtain ⟨d3, hc3, hs3, hp3⟩ := copyFrom_match ho1 ho2 3 0 st.dest hi.size (by omega) (fun j hj => hx j (by omega)) (by simpa using hi.pre)
    obtain ⟨d, hcd, hsd, hpd⟩ := copyFrom_match ho1 ho2 ((tok3 f).1 - 3) 3 d3 hs3 (by omega) (fun j hj => hx j (by omega)) (by simpa using hp3)
    have hmat : matchStep c 3 st1 = some (⟨p' + (tok3 f).2.2, q + (tok3 f).1, cw' >>> 1, d, st1.ht,
        ((q + (tok3 f).1 : Nat) : Int) - 1, f'⟩ : St) := by
      unfold matchStep
      rw [decodeMatch3, hfe, s3, s4]
      simp only
      rw [hc3]
      simp only
      rw [hcd]
      simp only [show (3 : Nat) ≠ 1 by omega, if_false]
      rw [s1, hf', s2]
    unfold loop step
    simp only
    rw [hl]
    simp only
    rw [s2, if_pos hbit, hmat]
    simp only [Option.map_some]
    apply ih
    · refine ⟨rfl, rfl, rfl, hsd, ?_, ?_⟩
      · intro j hj
        exact hpd j (by omega)
      · intro _ _
        exact hf'
    · have := fastRead_some_lt hf'
      have : 1 ≤ (tok3 f).2.2 := by
        unfold tok3; repeat' split
        all_goals simp
      omega
  | @fin p q cw p' cw' hcw hbit hq hle ht =>
    intro st hi fuel hfuel
    obtain ⟨n, rfl⟩ : ∃ n, fuel = n + 1 := ⟨fuel - 1, by omega⟩
    obtain ⟨st1, hl, s1, s2, s3, s4, s5, s6, s7, s8⟩ := loadCword3 hi hcw (fun h => absurd h hq)
    have := tailLoop_enc ht st.dest hi.size hi.pre hle
    unfold loop step
    simp only
    rw [hl]
    simp only
    rw [s2, if_neg (by rw [hbit]; omega), s3, if_neg hq, s1, s4, this]
    simp only [Option.map_some]


/-- `Decompress` of a stream with a level-3 header announcing `len x` whose body is certified to encode `x` -/
theorem dec3 {c x : Buf} (hh : headerLen c = some 9) (hsd : sizeDecompressed c = some x.size) (hlv : levelOf c = some 3)
    (hcb : cbitOf c = some 1) (henc : Enc3 c x 9 0 1) : decompress c = .ok x := by
  unfold decompress decompressFuel
  rw [hsd, hh, hlv, hcb]
  simp only
  rw [if_neg (by omega)]
  simp only [show ¬ ((1 : Nat) ≠ 1) by omega, if_false]
  apply dec3_loop henc
  · exact ⟨rfl, rfl, rfl, by simp [initSt], fun j hj => by omega, fun h => absurd rfl h⟩
  · have := (headerLen_cases hh).2
    omega

end QlzRT
