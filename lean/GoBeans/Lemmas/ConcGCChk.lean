/-
  GC beside clients: every GC micro-step preserves the chunk part `GChk` of the GC invariant (layout of the chunks the
  pass owns, the gc writer's position, the unprocessed part of the source file).  Core-only.
-/
import GoBeans.Lemmas.ConcGCCtl

namespace ConcGC
open ConcFine

theorem contig_zero (l : List Rec) (a : Nat) (h : Contig a l a) : l = [] := by
  cases l with
  | nil => rfl
  | cons r l => have := contig_le _ _ _ h.2.2; have := h.2.1; omega

theorem X_congr {s s' : State} (h1 : s'.gc.started = s.gc.started) (h2 : s'.gc.gend = s.gc.gend) (c : Nat) :
    X s' c ↔ X s c := by
  simp [X, cold, h1, h2]

theorem Dead_def (s : State) (c : Nat) : Dead s c ↔
    (s.gc.started = true ∧ s.gc.gbegin ≤ c ∧ (c < s.gc.src ∨ (c = s.gc.src ∧ s.gc.pc = .gFileDone))) := Iff.rfl

/-- a GC micro-step that leaves the chunks, the source and the destination alone -/
theorem chk_same {s s' : State} (hk : GChk s) (hb : s'.base.chunks = s.base.chunks)
    (h1 : s'.gc.started = s.gc.started) (h2 : s'.gc.gend = s.gc.gend) (h3 : s'.gc.gbegin = s.gc.gbegin)
    (hsrc : s'.gc.src = s.gc.src) (hdst : s'.gc.dst = s.gc.dst)
    (hpend : ∀ c, pendC s'.gc c = pendC s.gc c) (hnr : s.gc.pc ≠ .gRemove) (hnr' : s'.gc.pc ≠ .gRemove)
    (hfd : s'.gc.pc = .gFileDone → s.gc.pc = .gFileDone)
    (hw : openPC s'.gc.pc = true → openPC s.gc.pc = true ∧ s'.gc.wopen = s.gc.wopen ∧ s'.gc.wpos = s.gc.wpos)
    (hco : ∀ o, curOff s'.gc.pc = some o → curOff s.gc.pc = some o)
    (hrem : ∀ r ∈ rem s'.gc, r ∈ rem s.gc)
    (hmv : ∀ r o, s'.gc.pc = .gMove r o → s.gc.pc = .gMove r o) : GChk s' := by
  have hX := X_congr h1 h2
  refine ⟨?_, ?_, ?_, ?_, ?_, ?_, ?_, ?_⟩
  · intro c hx; rw [hb]; exact hk.cold c ((hX c).1 hx)
  · intro c hx _
    rw [hb, hpend]
    exact hk.whf c ((hX c).1 hx) (fun hh => hnr hh.2)
  · intro hh; exact absurd hh hnr'
  · intro c hd
    rw [hb]
    apply hk.dead c
    obtain ⟨d1, d2, d3⟩ := hd
    rw [h1] at d1; rw [h3] at d2; rw [hsrc] at d3
    refine ⟨d1, d2, ?_⟩
    rcases d3 with d3 | ⟨d3, d4⟩
    · exact Or.inl d3
    · exact Or.inr ⟨d3, hfd d4⟩
  · intro ho
    obtain ⟨a, b, c⟩ := hw ho
    rw [b, c, hb, hdst]
    exact hk.wop a
  · intro o ho
    rw [hb, hdst, hpend]
    exact hk.off o (hco o ho)
  · intro r hr
    rw [hb, hsrc]
    exact hk.remIn r (hrem r hr)
  · intro r o hp
    rw [hb, hdst]
    exact hk.mv r o (hmv r o hp)

/-- a GC micro-step that leaves the chunks alone: the layout part carries over -/
theorem chk_gc {s s' : State} (hk : GChk s) (hb : s'.base.chunks = s.base.chunks)
    (h1 : s'.gc.started = s.gc.started) (h2 : s'.gc.gend = s.gc.gend)
    (hpend : ∀ c, pendC s'.gc c = pendC s.gc c) (hnr : s.gc.pc ≠ .gRemove) (hnr' : s'.gc.pc ≠ .gRemove)
    (hdead : ∀ c, Dead s' c → (s.base.chunks c).file = [])
    (hwop : openPC s'.gc.pc = true → s'.gc.wopen = true ∧ s'.gc.wpos = (s.base.chunks s'.gc.dst).fsize)
    (hoff : ∀ o, curOff s'.gc.pc = some o → o + pendC s'.gc s'.gc.dst = (s.base.chunks s'.gc.dst).writingHead)
    (hrem : ∀ r ∈ rem s'.gc, r ∈ (s.base.chunks s'.gc.src).file)
    (hmv : ∀ r o, s'.gc.pc = .gMove r o → ({ r with off := o } : Rec) ∈ (s.base.chunks s'.gc.dst).file) : GChk s' := by
  have hX := X_congr h1 h2
  refine ⟨?_, ?_, ?_, ?_, ?_, ?_, ?_, ?_⟩
  · intro c hx; rw [hb]; exact hk.cold c ((hX c).1 hx)
  · intro c hx _
    rw [hb, hpend]
    exact hk.whf c ((hX c).1 hx) (fun hh => hnr hh.2)
  · intro hh; exact absurd hh hnr'
  · intro c hd; rw [hb]; exact hdead c hd
  · rw [hb]; exact hwop
  · rw [hb]; exact hoff
  · rw [hb]; exact hrem
  · rw [hb]; exact hmv

theorem endW_norew {s : State} (h : s.gc.rewr = false) :
    endW s = { s with gc := { s.gc with wopen := false, rewr := false } } := by
  unfold endW
  simp [h]

theorem beginApp_chunks (s : State) (pc : GPC) (d : Nat) :
    (beginApp s pc).base.chunks d =
      if d = s.gc.dst then { s.base.chunks s.gc.dst with writingHead := (s.base.chunks s.gc.dst).size } else s.base.chunks d := rfl

/-- `beginGCWriting` of a destination below the range -/
theorem chk_beginApp {s : State} (hc : GCtl s) (hk : GChk s) (hst : s.gc.started = true) (hd : s.gc.dst < s.gc.gbegin)
    (pc' : GPC) (hp0 : ∀ c, pendC s.gc c = 0) (hp1 : ∀ c, pendC { s.gc with pc := pc' } c = 0)
    (hnr : s.gc.pc ≠ .gRemove) (hnr' : pc' ≠ .gRemove) (hfd : pc' ≠ .gFileDone) (hco : curOff pc' = none)
    (hrem : ∀ r ∈ rem { s.gc with pc := pc' }, r ∈ rem s.gc) (hmv : ∀ r o, pc' ≠ .gMove r o) :
    GChk (beginApp s pc') := by
  have hX : ∀ c, X (beginApp s pc') c ↔ X s c := X_congr rfl rfl
  have hsd : s.gc.src ≠ s.gc.dst := by have := (hc.src hst).1; omega
  have hxd : X s s.gc.dst := by rw [X_iff]; exact ⟨hst, by have := (hc.rng hst).1; omega⟩
  refine ⟨?_, ?_, ?_, ?_, ?_, ?_, ?_, ?_⟩
  · intro c hx
    have := hk.cold c ((hX c).1 hx)
    rw [beginApp_chunks]
    by_cases hcd : c = s.gc.dst
    · subst hcd; simp only [if_true]; exact ⟨⟨this.1.nobuf, this.1.cfile⟩, trivial⟩
    · simp only [hcd, if_false]; exact this
  · intro c hx _
    have h1 := hk.whf c ((hX c).1 hx) (fun hh => hnr hh.2)
    have h2 := hk.cold c ((hX c).1 hx)
    rw [beginApp_chunks]
    have e : pendC (beginApp s pc').gc c = 0 := hp1 c
    rw [e]; rw [hp0] at h1
    by_cases hcd : c = s.gc.dst
    · subst hcd; simp only [if_true]; omega
    · simp only [hcd, if_false]; exact h1
  · intro hh; exact absurd hh hnr'
  · intro c hdd
    have : Dead s c := by
      obtain ⟨d1, d2, d3⟩ := hdd
      refine ⟨d1, d2, ?_⟩
      rcases d3 with d3 | ⟨_, d4⟩
      · exact Or.inl d3
      · exact absurd d4 hfd
    have := hk.dead c this
    rw [beginApp_chunks]
    by_cases hcd : c = s.gc.dst
    · subst hcd; simp only [if_true]; exact this
    · simp only [hcd, if_false]; exact this
  · intro _
    refine ⟨rfl, ?_⟩
    rw [beginApp_chunks]
    have : (beginApp s pc').gc.dst = s.gc.dst := rfl
    rw [this]
    simp only [if_true]
    rfl
  · intro o ho
    have : curOff (beginApp s pc').gc.pc = none := hco
    rw [this] at ho; contradiction
  · intro r hr
    rw [beginApp_chunks]
    have : (beginApp s pc').gc.src = s.gc.src := rfl
    rw [this]
    simp only [hsd, if_false]
    exact hk.remIn r (hrem r hr)
  · intro r o hp
    exact absurd hp (hmv r o)

local macro "same_auto" hk:ident hpc:ident : tactic => `(tactic| (
  refine chk_same $hk rfl rfl rfl rfl rfl rfl ?_ ?_ ?_ ?_ ?_ ?_ ?_ ?_ <;>
    (simp [State.gcGoto, pendC, openPC, curOff, rem, $hpc:ident] <;> try (intro a ha; exact Or.inr ha))))

theorem gmicro_chk {cfg : GCfg} {s s' : State} (hc : GCtl s) (hk : GChk s) (hz : noHaz s')
    (h : gmicro cfg s = some s') : GChk s' := by
  obtain ⟨_, hz2, hz3⟩ := hz
  have hst : s.gc.started = true := by
    cases hs : s.gc.started with
    | true => rfl
    | false => simp [gmicro, hc.idle hs] at h
  have hbw := @beginW_nohaz s
  cases hpc : s.gc.pc with
  | idle => simp [gmicro, hpc] at h
  | done => simp [gmicro, hpc] at h
  | gBegin =>
    simp only [gmicro, hpc] at h
    obtain rfl := Option.some.inj h
    obtain ⟨e1, e2, e3⟩ := beginW_nohaz hc.norew hz2 hz3
    rw [e3]
    refine chk_beginApp hc hk hst e2 _ ?_ ?_ ?_ ?_ ?_ ?_ ?_ ?_ <;> simp [pendC, hpc, curOff, rem]
  | gBeginW r f =>
    simp only [gmicro, hpc] at h
    obtain rfl := Option.some.inj h
    obtain ⟨e1, e2, e3⟩ := beginW_nohaz hc.norew hz2 hz3
    rw [e3]
    refine chk_beginApp hc hk hst e2 _ ?_ ?_ ?_ ?_ ?_ ?_ ?_ ?_ <;> simp [pendC, hpc, curOff, rem]
  | gFile =>
    simp only [gmicro, hpc] at h
    split at h
    · obtain rfl := Option.some.inj h; same_auto hk hpc
    · split at h
      · obtain rfl := Option.some.inj h; same_auto hk hpc
      · split at h
        · rename_i hnc hle hsz
          obtain rfl := Option.some.inj h
          have hwop := hk.wop (by rw [hpc]; rfl)
          refine chk_gc hk rfl rfl rfl (fun c => by simp [pendC, hpc]) (by simp [hpc]) (by simp [hpc]) ?_ ?_ ?_ ?_ ?_
          · intro c hd
            obtain ⟨d1, d2, d3⟩ := hd
            simp only [hpc] at d3
            have d3 : c < s.gc.src ∨ c = s.gc.src := by
              rcases d3 with d3 | ⟨_, d4⟩
              · show c < s.gc.src ∨ c = s.gc.src
                have : c < s.gc.src + 1 := d3
                omega
              · cases d4
            rcases d3 with d3 | d3
            · exact hk.dead c ⟨d1, d2, Or.inl d3⟩
            · subst d3
              have hx : X s s.gc.src := by rw [X_iff]; exact ⟨hst, by omega⟩
              have c1 := hk.cold _ hx
              have c2 := hk.whf _ hx (by simp [hpc])
              simp only [pendC, hpc] at c2
              have : (s.base.chunks s.gc.src).fsize = 0 := by omega
              have c3 := c1.1.cfile
              rw [this] at c3
              exact contig_zero _ _ c3
          · intro _; exact hwop
          · intro o ho; simp [curOff, hpc] at ho
          · intro r hr; simp [rem, hpc] at hr
          · intro r o hp; simp [hpc] at hp
        · obtain rfl := Option.some.inj h; same_auto hk hpc
  | gOpen =>
    simp only [gmicro, hpc] at h
    obtain rfl := Option.some.inj h
    have hwop := hk.wop (by rw [hpc]; rfl)
    refine chk_gc hk rfl rfl rfl (fun c => by simp [pendC, hpc]) (by simp [hpc]) (by simp) ?_ ?_ ?_ ?_ ?_
    · intro c hd
      obtain ⟨d1, d2, d3⟩ := hd
      rcases d3 with d3 | ⟨_, d4⟩
      · exact hk.dead c ⟨d1, d2, Or.inl d3⟩
      · cases d4
    · intro _; exact hwop
    · intro o ho; simp [curOff] at ho
    · intro r hr; simpa [rem] using hr
    · intro r o hp; simp at hp
  | gNext =>
    simp only [gmicro, hpc] at h
    split at h
    · split at h <;> (obtain rfl := Option.some.inj h; same_auto hk hpc)
    · rename_i r rest htodo
      obtain rfl := Option.some.inj h
      same_auto hk hpc
      all_goals (simp [htodo]; intro a ha; exact Or.inr ha)
  | gCheck r =>
    simp only [gmicro, hpc, afterCheck] at h
    repeat' (split at h)
    all_goals (obtain rfl := Option.some.inj h; same_auto hk hpc)
  | gEndW r f =>
    simp only [gmicro, hpc] at h
    obtain rfl := Option.some.inj h
    rw [endW_norew hc.norew]
    refine chk_gc hk rfl rfl rfl (fun c => by simp [pendC, hpc]) (by simp [hpc]) (by simp) ?_ ?_ ?_ ?_ ?_
    · intro c hd
      obtain ⟨d1, d2, d3⟩ := hd
      rcases d3 with d3 | ⟨_, d4⟩
      · exact hk.dead c ⟨d1, d2, Or.inl d3⟩
      · cases d4
    · intro ho; simp [openPC] at ho
    · intro o ho; simp [curOff] at ho
    · intro r' hr; exact hk.remIn r' (by simpa [rem, hpc] using hr)
    · intro r o hp; simp at hp
  | gHead r f =>
    simp only [gmicro, hpc] at h
    have hs := (Option.some.inj h).symm
    clear h hz2 hz3 hbw
    have hd : s.gc.dst < s.gc.gbegin := by
      rcases hc.dst hst with h1 | ⟨h1, _⟩
      · exact h1
      · rw [hpc] at h1; simp at h1
    have hsd : s.gc.src ≠ s.gc.dst := by have := (hc.src hst).1; omega
    have hxd : X s s.gc.dst := by rw [X_iff]; exact ⟨hst, by have := (hc.rng hst).1; omega⟩
    have c1 := hk.cold _ hxd
    have w1 := hk.whf _ hxd (by simp [hpc])
    simp only [pendC, hpc] at w1
    have hch : ∀ d, s'.base.chunks d = if d = s.gc.dst then
        { s.base.chunks s.gc.dst with writingHead := (s.base.chunks s.gc.dst).writingHead + r.size,
                                      size := (s.base.chunks s.gc.dst).writingHead + r.size } else s.base.chunks d := by
      intro d; subst hs
      simp only [State.gcGoto, State.setChunk, ConcFine.State.setChunk]
      have : (s.base.chunks s.gc.dst).writingHead + r.size ≥ (s.base.chunks s.gc.dst).size := by omega
      simp only [this, if_true]
    have hgc : s'.gc = { s.gc with pc := .gBuf r f (s.base.chunks s.gc.dst).writingHead } := by subst hs; rfl
    have hX : ∀ c, X s' c ↔ X s c := X_congr (by rw [hgc]) (by rw [hgc])
    clear hs
    refine ⟨?_, ?_, ?_, ?_, ?_, ?_, ?_, ?_⟩
    · intro c hx
      have := hk.cold c ((hX c).1 hx)
      rw [hch]
      by_cases hcd : c = s.gc.dst
      · subst hcd; simp only [if_true]; exact ⟨⟨this.1.nobuf, this.1.cfile⟩, trivial⟩
      · simp only [hcd, if_false]; exact this
    · intro c hx _
      have h1 := hk.whf c ((hX c).1 hx) (by simp [hpc])
      rw [hch, hgc]
      simp only [pendC, hpc] at h1 ⊢
      by_cases hcd : c = s.gc.dst
      · subst hcd; simp only [if_true]; omega
      · simp only [hcd, if_false]; exact h1
    · intro hh; rw [hgc] at hh; simp at hh
    · intro c hdd
      have : Dead s c := by
        obtain ⟨d1, d2, d3⟩ := hdd
        rw [hgc] at d1 d2 d3
        refine ⟨d1, d2, ?_⟩
        rcases d3 with d3 | ⟨_, d4⟩
        · exact Or.inl d3
        · simp at d4
      have := hk.dead c this
      rw [hch]
      by_cases hcd : c = s.gc.dst
      · subst hcd; simp only [if_true]; exact this
      · simp only [hcd, if_false]; exact this
    · intro _
      have := hk.wop (by rw [hpc]; rfl)
      rw [hch, hgc]
      simp only [if_true]
      exact this
    · intro o ho
      rw [hgc] at ho
      simp only [curOff] at ho
      obtain rfl := Option.some.inj ho
      rw [hch, hgc]
      simp [pendC]
    · intro r' hr
      rw [hgc] at hr
      rw [hch, hgc]
      simp only [hsd, if_false]
      exact hk.remIn r' (by simpa [rem, hpc] using hr)
    · intro r' o hp; rw [hgc] at hp; simp at hp
  | gBuf r f off =>
    simp only [gmicro, hpc] at h
    obtain rfl := Option.some.inj h; same_auto hk hpc
  | gFlush r f off =>
    simp only [gmicro, hpc] at h
    have hs := (Option.some.inj h).symm
    clear h hz2 hz3 hbw
    have hd : s.gc.dst < s.gc.gbegin := by
      rcases hc.dst hst with h1 | ⟨h1, _⟩
      · exact h1
      · rw [hpc] at h1; simp at h1
    have hsd : s.gc.src ≠ s.gc.dst := by have := (hc.src hst).1; omega
    have hxd : X s s.gc.dst := by rw [X_iff]; exact ⟨hst, by have := (hc.rng hst).1; omega⟩
    have hxs : X s s.gc.src := by rw [X_iff]; exact ⟨hst, hc.srcp (Or.inl (by rw [hpc]; rfl))⟩
    have c1 := hk.cold _ hxd
    have w1 := hk.whf _ hxd (by simp [hpc])
    have o1 := hk.off off (by rw [hpc]; rfl)
    have p1 := hk.wop (by rw [hpc]; rfl)
    simp only [pendC, hpc, if_true] at w1 o1
    have hoff : off = (s.base.chunks s.gc.dst).fsize := by omega
    have hrs : 0 < r.size :=
      (contig_mem _ _ _ (hk.cold _ hxs).1.cfile r (hk.remIn r (by simp [rem, hpc]))).2.2
    have hch : ∀ d, s'.base.chunks d = if d = s.gc.dst then
        { s.base.chunks s.gc.dst with file := (s.base.chunks s.gc.dst).file ++ [{ r with off := (s.base.chunks s.gc.dst).fsize }],
                                      fsize := (s.base.chunks s.gc.dst).fsize + r.size } else s.base.chunks d := by
      intro d; subst hs
      simp only [State.setChunk, ConcFine.State.setChunk]
      rw [p1.2, writeAt_end _ _ c1.1.cfile]
    have hgc : s'.gc = { s.gc with pc := if f then .gMove r off else .gNext, gbuf := [], wpos := s.gc.wpos + r.size } := by
      subst hs; rfl
    have hpc' : s'.gc.pc = if f then .gMove r off else .gNext := by rw [hgc]
    have hX : ∀ c, X s' c ↔ X s c := X_congr (by rw [hgc]) (by rw [hgc])
    have hp' : ∀ c, pendC s'.gc c = 0 := by intro c; unfold pendC; rw [hpc']; cases f <;> rfl
    clear hs
    refine ⟨?_, ?_, ?_, ?_, ?_, ?_, ?_, ?_⟩
    · intro c hx
      have := hk.cold c ((hX c).1 hx)
      rw [hch]
      by_cases hcd : c = s.gc.dst
      · subst hcd; simp only [if_true]
        exact ⟨⟨this.1.nobuf, (contig_append _ _ _ _).mpr ⟨_, this.1.cfile, rfl, hrs, rfl⟩⟩, this.2⟩
      · simp only [hcd, if_false]; exact this
    · intro c hx _
      have h1 := hk.whf c ((hX c).1 hx) (by simp [hpc])
      rw [hch, hp']
      simp only [pendC, hpc] at h1
      by_cases hcd : c = s.gc.dst
      · subst hcd; simp only [if_true]; omega
      · simp only [hcd, if_false] at h1 ⊢; exact h1
    · intro hh; rw [hpc'] at hh; cases f <;> simp at hh
    · intro c hdd
      obtain ⟨d1, d2, d3⟩ := hdd
      rw [hgc] at d1 d2 d3
      have hcd : c ≠ s.gc.dst := by have : s.gc.gbegin ≤ c := d2; omega
      rw [hch]; simp only [hcd, if_false]
      refine hk.dead c ⟨d1, d2, ?_⟩
      rcases d3 with d3 | ⟨_, d4⟩
      · exact Or.inl d3
      · cases f <;> simp at d4
    · intro _
      rw [hch, hgc]
      simp only [if_true]
      exact ⟨p1.1, by omega⟩
    · intro o ho
      rw [hpc'] at ho
      cases f <;> simp [curOff] at ho
    · intro r' hr
      rw [hch, hgc]
      simp only [hsd, if_false]
      apply hk.remIn r'
      rw [hgc] at hr
      cases f <;> simp [rem, hpc] at hr ⊢
      · exact Or.inr hr
      · exact hr
    · intro r' o hp
      rw [hpc'] at hp
      cases f with
      | false => simp at hp
      | true =>
        simp only [if_true, GPC.gMove.injEq] at hp
        obtain ⟨rfl, rfl⟩ := hp
        rw [hch, hgc]
        simp only [if_true]
        rw [hoff]
        exact List.mem_append_right _ (List.mem_singleton.mpr rfl)
  | gMove r off =>
    simp only [gmicro, hpc] at h
    repeat' (split at h)
    all_goals (obtain rfl := Option.some.inj h; same_auto hk hpc)
  | gClearMem =>
    simp only [gmicro, hpc] at h
    have hs := (Option.some.inj h).symm
    clear h hz2 hz3 hbw
    have hd : s.gc.dst < s.gc.gbegin := by
      rcases hc.dst hst with h1 | ⟨h1, _⟩
      · exact h1
      · rw [hpc] at h1; simp at h1
    have hsd : s.gc.dst ≠ s.gc.src := by have := (hc.src hst).1; omega
    have hxs : X s s.gc.src := by rw [X_iff]; exact ⟨hst, hc.srcp (Or.inl (by rw [hpc]; rfl))⟩
    have p1 := hk.wop (by rw [hpc]; rfl)
    have hch : ∀ d, s'.base.chunks d = if d = s.gc.src then
        { s.base.chunks s.gc.src with wbuf := [], size := 0, writingHead := 0 } else s.base.chunks d := by
      intro d; subst hs; rfl
    have hgc : s'.gc = { s.gc with pc := .gRemove } := by subst hs; rfl
    have hX : ∀ c, X s' c ↔ X s c := X_congr (by rw [hgc]) (by rw [hgc])
    clear hs
    refine ⟨?_, ?_, ?_, ?_, ?_, ?_, ?_, ?_⟩
    · intro c hx
      have := hk.cold c ((hX c).1 hx)
      rw [hch]
      by_cases hcd : c = s.gc.src
      · subst hcd; simp only [if_true]; exact ⟨⟨rfl, this.1.cfile⟩, trivial⟩
      · simp only [hcd, if_false]; exact this
    · intro c hx hne
      rw [hgc] at hne
      have hcs : c ≠ s.gc.src := fun e => hne ⟨e, rfl⟩
      have h1 := hk.whf c ((hX c).1 hx) (by simp [hpc])
      rw [hch, hgc]
      simp only [pendC, hpc] at h1 ⊢
      simp only [hcs, if_false]; exact h1
    · intro _; rw [hch, hgc]; simp
    · intro c hdd
      obtain ⟨d1, d2, d3⟩ := hdd
      rw [hgc] at d1 d2 d3
      rcases d3 with d3 | ⟨_, d4⟩
      · have hcs : c ≠ s.gc.src := by have : c < s.gc.src := d3; omega
        rw [hch]; simp only [hcs, if_false]
        exact hk.dead c ⟨d1, d2, Or.inl d3⟩
      · simp at d4
    · intro _
      rw [hch, hgc]
      simp only [hsd, if_false]
      exact p1
    · intro o ho; rw [hgc] at ho; simp [curOff] at ho
    · intro r' hr; rw [hgc] at hr; simp [rem] at hr
    · intro r' o hp; rw [hgc] at hp; simp at hp
  | gRemove =>
    simp only [gmicro, hpc] at h
    have hs := (Option.some.inj h).symm
    clear h hz2 hz3 hbw
    have hd : s.gc.dst < s.gc.gbegin := by
      rcases hc.dst hst with h1 | ⟨h1, _⟩
      · exact h1
      · rw [hpc] at h1; simp at h1
    have hsd : s.gc.dst ≠ s.gc.src := by have := (hc.src hst).1; omega
    have hxs : X s s.gc.src := by rw [X_iff]; exact ⟨hst, hc.srcp (Or.inl (by rw [hpc]; rfl))⟩
    have p1 := hk.wop (by rw [hpc]; rfl)
    have k1 := hk.clr hpc
    have hch : ∀ d, s'.base.chunks d = if d = s.gc.src then
        { s.base.chunks s.gc.src with file := [], fsize := 0 } else s.base.chunks d := by
      intro d; subst hs; rfl
    have hgc : s'.gc = { s.gc with pc := .gFileDone } := by subst hs; rfl
    have hX : ∀ c, X s' c ↔ X s c := X_congr (by rw [hgc]) (by rw [hgc])
    clear hs
    refine ⟨?_, ?_, ?_, ?_, ?_, ?_, ?_, ?_⟩
    · intro c hx
      have := hk.cold c ((hX c).1 hx)
      rw [hch]
      by_cases hcd : c = s.gc.src
      · subst hcd; simp only [if_true]; exact ⟨⟨this.1.nobuf, rfl⟩, this.2⟩
      · simp only [hcd, if_false]; exact this
    · intro c hx _
      rw [hch, hgc]
      by_cases hcd : c = s.gc.src
      · subst hcd; simp only [if_true, pendC]; omega
      · have h1 := hk.whf c ((hX c).1 hx) (fun hh => hcd hh.1)
        simp only [pendC, hpc] at h1 ⊢
        simp only [hcd, if_false]; exact h1
    · intro hh; rw [hgc] at hh; simp at hh
    · intro c hdd
      obtain ⟨d1, d2, d3⟩ := hdd
      rw [hgc] at d1 d2 d3
      rw [hch]
      by_cases hcs : c = s.gc.src
      · subst hcs; simp
      · simp only [hcs, if_false]
        rcases d3 with d3 | ⟨d3, _⟩
        · exact hk.dead c ⟨d1, d2, Or.inl d3⟩
        · exact absurd d3 hcs
    · intro _
      rw [hch, hgc]
      simp only [hsd, if_false]
      exact p1
    · intro o ho; rw [hgc] at ho; simp [curOff] at ho
    · intro r' hr; rw [hgc] at hr; simp [rem] at hr
    · intro r' o hp; rw [hgc] at hp; simp at hp
  | gTail => exact absurd hpc hc.notail
  | gFileDone =>
    simp only [gmicro, hpc] at h
    obtain rfl := Option.some.inj h
    have hwop := hk.wop (by rw [hpc]; rfl)
    refine chk_gc hk rfl rfl rfl (fun c => by simp [pendC, hpc]) (by simp [hpc]) (by simp) ?_ ?_ ?_ ?_ ?_
    · intro c hd
      obtain ⟨d1, d2, d3⟩ := hd
      rcases d3 with d3 | ⟨_, d4⟩
      · have d3 : c < s.gc.src + 1 := d3
        by_cases hcs : c = s.gc.src
        · exact hk.dead c ⟨d1, d2, Or.inr ⟨hcs, hpc⟩⟩
        · exact hk.dead c ⟨d1, d2, Or.inl (by omega)⟩
      · cases d4
    · intro _; exact hwop
    · intro o ho; simp [curOff] at ho
    · intro r hr; simp [rem] at hr
    · intro r o hp; simp at hp
  | gFinal =>
    simp only [gmicro, hpc] at h
    obtain rfl := Option.some.inj h
    rw [endW_norew hc.norew]
    refine chk_gc hk rfl rfl rfl (fun c => by simp [pendC, hpc, State.gcGoto]) (by simp [hpc]) (by simp [State.gcGoto]) ?_ ?_ ?_ ?_ ?_
    · intro c hd
      obtain ⟨d1, d2, d3⟩ := hd
      rcases d3 with d3 | ⟨_, d4⟩
      · exact hk.dead c ⟨d1, d2, Or.inl d3⟩
      · cases d4
    · intro ho; simp [openPC, State.gcGoto] at ho
    · intro o ho; simp [curOff, State.gcGoto] at ho
    · intro r hr; simp [rem, State.gcGoto] at hr
    · intro r o hp; simp [State.gcGoto] at hp

end ConcGC
