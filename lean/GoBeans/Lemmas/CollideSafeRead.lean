/-
  C13 (b): `Bucket.get` under the invariant returns the last record of the key (`get_spec`).
-/
import GoBeans.Lemmas.CollideSafeGet
set_option linter.unusedSimpArgs false
set_option linter.unusedVariables false
namespace CollideLemmas
open Store Spec HintIndex Collide StoreLemmas HintBufferLemmas

section
variable (hash : Key → Nat)

/-- what a read returns: the last record of the key with its own version and position -/
def readOf (x : Option (Pos × Rec)) : GetRes :=
  match x with
  | none => .miss
  | some x => .found x.2 x.2.ver x.1

theorem get_spec {cfg : Collide.Cfg} {st : State} {t : Trk} {n : Nat} (inv : SInv hash cfg st t n) (k : Key) :
    SInv hash cfg (st.get hash k).1 (t.afterGet hash k) n
    ∧ (st.get hash k).1.b = st.b ∧ (st.get hash k).1.hs = st.hs
    ∧ (st.get hash k).2 = readOf (lastOf k st.b.log) := by
  unfold State.get
  rw [memMeta_eq]
  cases htg : tget st.ct (hash k) k with
  | some it =>
    -- the table knows the key
    obtain ⟨_, hreg, hkey, _, r, hl, hv⟩ := inv.tab _ _ _ htg
    obtain ⟨hra, hrk, _, _, _⟩ := lastOf_facts hash inv hl
    simp only [hra, hrk, if_true]
    rw [afterGet_reg hash t k hreg, hl]
    exact ⟨inv, by first | rfl | trivial, by first | rfl | trivial, by simp [readOf, hv]⟩
  | none =>
    have hnr := not_reg_of_tget_none hash inv htg
    simp only
    cases htr : AMap.get st.b.tree (hash k) with
    | none =>
      simp only
      have hnw : k ∉ t.written := by
        intro hw
        obtain ⟨ti, hti⟩ := inv.own k hw
        rw [htr] at hti; cases hti
      have hln : lastOf k st.b.log = none := by
        cases hl : lastOf k st.b.log with
        | none => rfl
        | some x => exact absurd ((inv.wr k).mpr (by rw [hl]; rfl)) hnw
      rw [afterGet_unwritten hash t k hnw, hln]
      exact ⟨inv, by first | rfl | trivial, by first | rfl | trivial, rfl⟩
    | some ti =>
      obtain ⟨o, ro, hown, hho, hlo, hvo⟩ := inv.slot _ _ htr
      obtain ⟨hra, hrk, _, _, _⟩ := lastOf_facts hash inv hlo
      simp only [hra]
      by_cases hok : o = k
      · -- the slot is the key's own
        subst hok
        simp only [hrk, if_true]
        have : t.afterGet hash o = t := by
          unfold Trk.afterGet
          by_cases hc : o ∈ t.written ∧ o ∉ t.reg
          · rw [if_pos hc, hown]; simp
          · rw [if_neg hc]
        rw [this, hlo]
        exact ⟨inv, by first | rfl | trivial, by first | rfl | trivial, by simp [readOf, hvo]⟩
      · -- the slot belongs to another key of the same hash
        have hne : ¬ ro.key = k := by rw [hrk]; exact hok
        have hsame : ¬ hash ro.key ≠ hash k := by rw [hrk, hho]; simp
        simp only [hne, if_false, hsame]
        have hgi := getItem_spec hash inv st.ct.hidChunk k
        cases hg : st.hs.getItem st.ct.hidChunk (hash k) k with
        | none =>
          rw [hg] at hgi
          cases hl : lastOf k st.b.log with
          | some x => rw [hl] at hgi; exact hgi.elim
          | none =>
            simp only
            have hnw : k ∉ t.written := by
              intro hw
              have := (inv.wr k).mp hw
              rw [hl] at this; simp at this
            rw [afterGet_unwritten hash t k hnw]
            exact ⟨inv, by first | rfl | trivial, by first | rfl | trivial, rfl⟩
        | some x =>
          obtain ⟨hit, chunkID⟩ := x
          rw [hg] at hgi
          cases hl : lastOf k st.b.log with
          | none => rw [hl] at hgi; exact hgi.elim
          | some y =>
            obtain ⟨p, rk⟩ := y
            rw [hl] at hgi
            obtain ⟨g1, g2, g3, g4, g5⟩ := hgi
            simp only at g1 g2 g3 g4 g5
            obtain ⟨hrak, _, _, _, _⟩ := lastOf_facts hash inv hl
            have hw : k ∈ t.written := (inv.wr k).mpr (by rw [hl]; rfl)
            have hag : t.afterGet hash k = { t with reg := k :: o :: t.reg } := by
              unfold Trk.afterGet
              rw [if_pos ⟨hw, hnr⟩, hown]
              simp [hok]
            have hpos : ({ chunk := chunkID, off := hit.off } : Pos) = p := by
              cases p; simp only at g1 g2; subst g1; subst g2; rfl
            simp only [hpos, hrak]
            rw [hag]
            refine ⟨?_, by first | rfl | trivial, by first | rfl | trivial, by simp [readOf]⟩
            apply detect_inv hash inv k o
            · refine ⟨hrk, by rw [hho], ro, ?_, rfl⟩
              simp only
              exact hlo
            · refine ⟨g4, g5, rk, ?_, g3⟩
              simp only
              rw [hpos]; exact hl

end
end CollideLemmas
