/- C14 hint merge, part 3: the loop of `merge` (store/hintmerge.go:131-149) over any priority queue that obeys
   `HeapLaws` pops ALL items of ALL sources, in the order of `mergeHeap.Less`, provided every source is strictly
   sorted by (khash, key).  `listHeap` obeys the laws.  Core-only. -/
import GoBeans.Lemmas.HintMergeOrder
set_option linter.unusedSimpArgs false
set_option linter.unusedVariables false
namespace HintMergeLemmas
open Hint HintMerge

/-- what the merge assumes of container/heap: `inv` = the heap invariant, elements are never lost or
    duplicated, and `Pop` returns an element no other element is `Less` than -/
structure HeapLaws (I : HeapImpl) where
  inv : List Reader → Prop
  init_inv : ∀ l, inv (I.init l)
  init_perm : ∀ l, (I.init l).Perm l
  pop_none : ∀ h, inv h → (I.pop h = none ↔ h = [])
  pop_some : ∀ h r h', inv h → I.pop h = some (r, h') →
    h.Perm (r :: h') ∧ inv h' ∧ ∀ x ∈ h', less x r = false
  push : ∀ h r, inv h → inv (I.push h r) ∧ (I.push h r).Perm (r :: h)

/-- the items a reader still has to deliver, as they will come out (tagged) -/
def pending (r : Reader) : List Item := r.curr :: r.rest.map (tag r.chunk)

def pendingAll (h : List Reader) : List Item := h.flatMap pending

/-- the items popped by `fuel` iterations of the loop, in order -/
def stream (I : HeapImpl) : Nat → List Reader → List Item
  | 0, _ => []
  | fuel + 1, h =>
    match I.pop h with
    | none => []
    | some (mr, h') =>
      mr.curr :: (match mr.next with
        | none => stream I fuel h'
        | some mr' => stream I fuel (I.push h' mr'))

/-- the writer only sees the popped stream -/
theorem loop_snd (I : HeapImpl) : ∀ (fuel : Nat) (h : List Reader) (w : Writer),
    (loop I fuel h w).2 = (stream I fuel h).foldl write w
  | 0, h, w => rfl
  | fuel + 1, h, w => by
    unfold loop stream
    cases hp : I.pop h with
    | none => rfl
    | some p =>
      obtain ⟨mr, h'⟩ := p
      cases hn : mr.next with
      | none => simp only [hn]; rw [loop_snd I fuel]; rfl
      | some mr' => simp only [hn]; rw [loop_snd I fuel]; rfl

theorem pending_next_none {mr : Reader} (h : mr.next = none) : pending mr = [mr.curr] := by
  unfold Reader.next at h
  unfold pending
  cases hr : mr.rest with
  | nil => simp
  | cons x xs => rw [hr] at h; simp at h

theorem pending_next_some {mr mr' : Reader} (h : mr.next = some mr') : pending mr = mr.curr :: pending mr' := by
  unfold Reader.next at h
  unfold pending
  cases hr : mr.rest with
  | nil => rw [hr] at h; simp at h
  | cons x xs =>
    rw [hr] at h
    simp only [Option.some.injEq] at h
    subst h
    simp

theorem pendingAll_cons (r : Reader) (h : List Reader) : pendingAll (r :: h) = pending r ++ pendingAll h := by
  simp [pendingAll]

theorem pendingAll_perm {h1 h2 : List Reader} (p : h1.Perm h2) : (pendingAll h1).Perm (pendingAll h2) :=
  List.Perm.flatMap_right _ p

theorem mem_pendingAll {y : Item} {h : List Reader} : y ∈ pendingAll h ↔ ∃ r ∈ h, y ∈ pending r := by
  simp [pendingAll]

theorem pendingAll_eq_nil {h : List Reader} (e : pendingAll h = []) : h = [] := by
  cases h with
  | nil => rfl
  | cons r t => rw [pendingAll_cons] at e; simp [pending] at e

/-- a popped reader's item is not after anything still pending in the readers left on the heap -/
theorem min_le_pending {mr : Reader} {h' : List Reader} (hmin : ∀ x ∈ h', less x mr = false)
    (hs : ∀ r ∈ h', (pending r).Pairwise KLt) : ∀ y ∈ pendingAll h', ILe mr.curr y := by
  intro y hy
  obtain ⟨r, hr, hyr⟩ := mem_pendingAll.mp hy
  have h1 : ILe mr.curr r.curr := by
    have := hmin r hr
    unfold less at this
    exact (itemLt_false_iff _ _).mp this
  have h2 : ILe r.curr y := by
    have hsr := hs r hr
    unfold pending at hsr hyr
    rcases List.mem_cons.mp hyr with rfl | hy'
    · exact ILe_refl _
    · exact ILe_of_KLt ((List.pairwise_cons.mp hsr).1 y hy')
  exact ILe_trans h1 h2

/-- the loop pops every pending item exactly once, in `Less` order -/
theorem stream_spec {I : HeapImpl} (L : HeapLaws I) : ∀ (fuel : Nat) (h : List Reader), L.inv h →
    (∀ r ∈ h, (pending r).Pairwise KLt) → (pendingAll h).length ≤ fuel →
    (stream I fuel h).Perm (pendingAll h) ∧ (stream I fuel h).Pairwise ILe
  | 0, h, _, _, hl => by
    have : pendingAll h = [] := List.eq_nil_of_length_eq_zero (by omega)
    rw [this]; simp [stream]
  | fuel + 1, h, hinv, hs, hl => by
    unfold stream
    cases hp : I.pop h with
    | none =>
      have : h = [] := (L.pop_none h hinv).mp hp
      subst this; simp [pendingAll]
    | some p =>
      obtain ⟨mr, h'⟩ := p
      obtain ⟨hperm, hinv', hmin⟩ := L.pop_some h mr h' hinv hp
      have hpp : (pendingAll h).Perm (pending mr ++ pendingAll h') := by
        rw [← pendingAll_cons]; exact pendingAll_perm hperm
      have hsmr : (pending mr).Pairwise KLt := hs mr (hperm.mem_iff.mpr (by simp))
      have hs' : ∀ r ∈ h', (pending r).Pairwise KLt :=
        fun r hr => hs r (hperm.mem_iff.mpr (List.mem_cons_of_mem _ hr))
      have hlen := hpp.length_eq
      rw [List.length_append] at hlen
      cases hn : mr.next with
      | none =>
        simp only [hn]
        have hpm := pending_next_none hn
        rw [hpm] at hpp hlen
        obtain ⟨ihp, ihs⟩ := stream_spec L fuel h' hinv' hs' (by simp at hlen; omega)
        refine ⟨?_, ?_⟩
        · exact ((List.perm_cons _).mpr ihp).trans hpp.symm
        · rw [List.pairwise_cons]
          refine ⟨?_, ihs⟩
          intro y hy
          exact min_le_pending hmin hs' y (ihp.mem_iff.mp hy)
      | some mr' =>
        simp only [hn]
        have hpm := pending_next_some hn
        rw [hpm] at hpp hlen hsmr
        obtain ⟨hinv'', hperm''⟩ := L.push h' mr' hinv'
        have hs'' : ∀ r ∈ I.push h' mr', (pending r).Pairwise KLt := by
          intro r hr
          rcases List.mem_cons.mp (hperm''.mem_iff.mp hr) with rfl | hr'
          · exact (List.pairwise_cons.mp hsmr).2
          · exact hs' r hr'
        have hpp'' : (pendingAll (I.push h' mr')).Perm (pending mr' ++ pendingAll h') := by
          rw [← pendingAll_cons]; exact pendingAll_perm hperm''
        have hlen'' := hpp''.length_eq
        rw [List.length_append] at hlen''
        obtain ⟨ihp, ihs⟩ := stream_spec L fuel (I.push h' mr') hinv'' hs''
          (by simp only [List.length_cons] at hlen; omega)
        refine ⟨?_, ?_⟩
        · exact ((List.perm_cons _).mpr (ihp.trans hpp'')).trans hpp.symm
        · rw [List.pairwise_cons]
          refine ⟨?_, ihs⟩
          intro y hy
          have hy' := hpp''.mem_iff.mp (ihp.mem_iff.mp hy)
          rcases List.mem_append.mp hy' with hy1 | hy2
          · exact ILe_of_KLt ((List.pairwise_cons.mp hsmr).1 y hy1)
          · exact min_le_pending hmin hs' y hy2

/-- with enough iterations the loop ends on an empty heap -/
theorem loop_fst_nil {I : HeapImpl} (L : HeapLaws I) : ∀ (fuel : Nat) (h : List Reader) (w : Writer), L.inv h →
    (pendingAll h).length ≤ fuel → (loop I fuel h w).1 = []
  | 0, h, w, _, hl => by
    have : pendingAll h = [] := List.eq_nil_of_length_eq_zero (by omega)
    simp [loop, pendingAll_eq_nil this]
  | fuel + 1, h, w, hinv, hl => by
    unfold loop
    cases hp : I.pop h with
    | none => exact (L.pop_none h hinv).mp hp
    | some p =>
      obtain ⟨mr, h'⟩ := p
      obtain ⟨hperm, hinv', _⟩ := L.pop_some h mr h' hinv hp
      have hpp : (pendingAll h).Perm (pending mr ++ pendingAll h') := by
        rw [← pendingAll_cons]; exact pendingAll_perm hperm
      have hlen := hpp.length_eq
      rw [List.length_append] at hlen
      cases hn : mr.next with
      | none =>
        simp only [hn]
        rw [pending_next_none hn] at hlen
        exact loop_fst_nil L fuel h' _ hinv' (by simp at hlen; omega)
      | some mr' =>
        simp only [hn]
        rw [pending_next_some hn] at hlen
        obtain ⟨hinv'', hperm''⟩ := L.push h' mr' hinv'
        have hpp'' : (pendingAll (I.push h' mr')).Perm (pending mr' ++ pendingAll h') := by
          rw [← pendingAll_cons]; exact pendingAll_perm hperm''
        have hlen'' := hpp''.length_eq
        rw [List.length_append] at hlen''
        exact loop_fst_nil L fuel _ _ hinv'' (by simp only [List.length_cons] at hlen; omega)

/-! ### the list queue obeys the laws -/

theorem popMin_none : ∀ h : List Reader, popMin h = none ↔ h = []
  | [] => by simp [popMin]
  | r :: rs => by
    unfold popMin
    cases hp : popMin rs with
    | none => simp
    | some p => obtain ⟨m, rest⟩ := p; simp only; split <;> simp

theorem popMin_some : ∀ (h : List Reader) (r : Reader) (h' : List Reader), popMin h = some (r, h') →
    h.Perm (r :: h') ∧ ∀ x ∈ h', less x r = false
  | [], r, h', e => by simp [popMin] at e
  | a :: rs, r, h', e => by
    unfold popMin at e
    cases hp : popMin rs with
    | none =>
      rw [hp] at e
      have hnil := (popMin_none rs).mp hp
      simp only [Option.some.injEq, Prod.mk.injEq] at e
      obtain ⟨rfl, rfl⟩ := e
      subst hnil
      exact ⟨List.Perm.refl _, by simp⟩
    | some p =>
      obtain ⟨m, rest⟩ := p
      rw [hp] at e
      obtain ⟨ihp, ihm⟩ := popMin_some rs m rest hp
      simp only at e
      by_cases hl : less m a = true
      · rw [if_pos hl] at e
        simp only [Option.some.injEq, Prod.mk.injEq] at e
        obtain ⟨rfl, rfl⟩ := e
        refine ⟨?_, ?_⟩
        · exact ((List.perm_cons a).mpr ihp).trans (List.Perm.swap _ _ _)
        · intro x hx
          rcases List.mem_cons.mp hx with rfl | hx'
          · -- `m` is less than `x`, so `x` is not less than `m`
            unfold less at hl ⊢
            have := (itemLt_iff _ _).mp hl
            cases hq : itemLt x.curr m.curr with
            | false => rfl
            | true => exact absurd (ILt_trans this ((itemLt_iff _ _).mp hq)) (ILt_irrefl _)
          · exact ihm x hx'
      · rw [if_neg hl] at e
        simp only [Option.some.injEq, Prod.mk.injEq] at e
        obtain ⟨rfl, rfl⟩ := e
        refine ⟨List.Perm.refl _, ?_⟩
        intro x hx
        have hma : ILe a.curr m.curr := by
          unfold less at hl
          exact (itemLt_false_iff _ _).mp (by simpa using hl)
        have hmx : ILe m.curr x.curr := by
          rcases List.mem_cons.mp (ihp.mem_iff.mp hx) with rfl | hx'
          · exact ILe_refl _
          · have := ihm x hx'
            unfold less at this
            exact (itemLt_false_iff _ _).mp this
        unfold less
        exact (itemLt_false_iff _ _).mpr (ILe_trans hma hmx)

/-- the plain list queue: no invariant needed -/
def listLaws : HeapLaws listHeap where
  inv := fun _ => True
  init_inv := fun _ => trivial
  init_perm := fun l => List.Perm.refl l
  pop_none := fun h _ => popMin_none h
  pop_some := fun h r h' _ e => ⟨(popMin_some h r h' e).1, trivial, (popMin_some h r h' e).2⟩
  push := fun h r _ => ⟨trivial, by
    show (h ++ [r]).Perm (r :: h)
    exact List.perm_append_comm.trans (by simp)⟩

end HintMergeLemmas
