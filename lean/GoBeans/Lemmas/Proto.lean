/-
  Lemmas for the protocol front end (C11, C12): the ledger algebra and the per-path accounting of
  `readReq` / `process` / `serveOnce` / `flush`.
-/
import GoBeans.Model.Proto

namespace Proto
open Ledger

def zero (cfg : Cfg) : Ledger := { tokens := cfg.maxReq }

/-- what ownership of a value buffer by the write buffer adds to the ledger -/
def own (l : Ledger) (b : Buf) : Ledger :=
  (if b.inC then { l with allocC := l.allocC + 1, allocS := l.allocS + b.cap } else l).flushAdd b.cap

/-- the ledger of an idle server whose write buffer owns `pend` -/
def idle (cfg : Cfg) (pend : List Buf) : Ledger := pend.foldl own (zero cfg)

def Quiet (cfg : Cfg) (st : St) : Prop := st.led = idle cfg st.pend

theorem led_ext {a b : Ledger} (h1 : a.getC = b.getC) (h2 : a.getS = b.getS) (h3 : a.setC = b.setC) (h4 : a.setS = b.setS)
    (h5 : a.flushC = b.flushC) (h6 : a.flushS = b.flushS) (h7 : a.allocC = b.allocC) (h8 : a.allocS = b.allocS)
    (h9 : a.tokens = b.tokens) : a = b := by
  cases a; cases b; simp_all

/-- close a ledger equation after the operations were unfolded -/
macro "led_fin" : tactic => `(tactic| first | omega | (apply led_ext <;> simp <;> omega) | (cases ‹Ledger›; simp; omega))

theorem getAdd_getSub (l : Ledger) (n : Nat) : (l.getAdd n).getSub n = l := by
  simp [getAdd, getSub] <;> led_fin

theorem release_acquire (l : Ledger) (b : Buf) : releaseRead (acquire l b) b = l := by
  unfold releaseRead acquire free getAdd getSub
  by_cases h : b.inC = true <;> simp [h] <;> led_fin

theorem release_acquire_comm (l : Ledger) (b b' : Buf) : releaseRead (acquire l b) b' = acquire (releaseRead l b') b := by
  unfold releaseRead acquire free getAdd getSub
  by_cases h : b.inC = true <;> by_cases h' : b'.inC = true <;> simp [h, h'] <;> led_fin

theorem release_foldl_acquire (bs : List Buf) (l : Ledger) (b : Buf) :
    releaseRead (bs.foldl acquire (acquire l b)) b = bs.foldl acquire l := by
  induction bs generalizing l with
  | nil => exact release_acquire l b
  | cons x xs ih =>
    simp only [List.foldl_cons]
    have : acquire (acquire l b) x = acquire (acquire l x) b := by
      unfold acquire getAdd
      by_cases h : b.inC = true <;> by_cases h' : x.inC = true <;> simp [h, h'] <;> led_fin
    rw [this]; exact ih (acquire l x)

theorem foldl_release_acquire (bs : List Buf) (l : Ledger) : bs.foldl releaseRead (bs.foldl acquire l) = l := by
  induction bs generalizing l with
  | nil => rfl
  | cons b bs ih =>
    simp only [List.foldl_cons]
    rw [release_foldl_acquire]; exact ih l



theorem alloc_undo (cfg : Cfg) (l : Ledger) (n : Nat) :
    (((l.alloc cfg n).1.setAdd (l.alloc cfg n).2.cap).setSub (l.alloc cfg n).2.cap).free (l.alloc cfg n).2 = l := by
  unfold alloc setAdd setSub free
  by_cases h : n ≤ cfg.bodyInC <;> simp [h] <;> led_fin

/-- what `readReq` has done to the ledger, by outcome -/
def ReadPost (cfg : Cfg) (led : Ledger) (ro : ReadOut) : Prop :=
  match ro.res with
  | .ok =>
    match ro.kind with
    | .get => ro.led = led.tokGet ∧ ro.working = true ∧ ro.req.noreply = false
    | .store | .append =>
      ∃ L, ro.led = ((led.tokGet).alloc cfg L).1.setAdd ((led.tokGet).alloc cfg L).2.cap
        ∧ ro.item = some ((led.tokGet).alloc cfg L).2 ∧ ro.working = true
    | .incr | .decr => ro.led = ({ led with setC := led.setC + 1 } : Ledger).tokGet ∧ ro.working = true
    | .none => False
    | .delete => ro.led = led ∧ ro.working = false
    | _ => ro.led = led ∧ ro.working = false ∧ ro.req.noreply = false
  | _ => (ro.led = led ∧ ro.working = false) ∨ (ro.led = led.tokGet ∧ ro.working = true)

theorem failRead_post (cfg : Cfg) (n : Nat) (led : Ledger) (e : RErr) (r : Req) : ReadPost cfg led (failRead n led e r) := by
  simp [ReadPost, failRead]

theorem readStore_post (cfg : Cfg) (led : Ledger) (inp : Bytes) (n : Nat) (cmd : Bytes) (args : List Bytes) (np : Nat) :
    ReadPost cfg led (readStore cfg led inp n cmd args np) := by
  unfold readStore
  simp only []
  repeat' split
  all_goals (first | exact failRead_post .. | (simp [ReadPost, alloc_undo]; done) | (simp [ReadPost, alloc_undo]; exact ⟨_, rfl, rfl⟩))

theorem readCmd_post (cfg : Cfg) (led : Ledger) (inp : Bytes) (n : Nat) (cmd : Bytes) (args : List Bytes) :
    ReadPost cfg led (readCmd cfg led inp n cmd args) := by
  unfold readCmd
  simp only []
  repeat' split
  all_goals (first | exact failRead_post .. | exact readStore_post .. | simp [ReadPost])

theorem readReq_post (cfg : Cfg) (led : Ledger) (inp : Bytes) : ReadPost cfg led (readReq cfg led inp) := by
  unfold readReq
  repeat' split
  all_goals (first | exact failRead_post .. | exact readCmd_post .. | simp [ReadPost])


/-- after `process`: the write buffer owns the same buffers and the ledger (once `CleanBuffer` has run) is back at
    `l0`, or it owns one more buffer `b` and the ledger has moved by exactly that ownership -/
def StepPost (l0 : Ledger) (p0 : List Buf) (r : PRes) : Prop :=
  (r.1.pend = p0 ∧ r.2.2.1.foldl releaseRead r.1.led = l0)
  ∨ (∃ b, r.1.pend = p0 ++ [b] ∧ r.2.2.1.foldl releaseRead r.1.led = own l0 b)

theorem replyIf_post (nr : Bool) (st : St) (x : Resp) (l0 : Ledger) (p0 : List Buf)
    (h : (st.pend = p0 ∧ st.led = l0) ∨ (∃ b, st.pend = p0 ++ [b] ∧ st.led = own l0 b)) :
    StepPost l0 p0 (replyIf nr st x) := by
  simpa [StepPost, replyIf] using h

theorem processGet_post (cfg : Cfg) (st : St) (r : Req) : StepPost st.led st.pend (processGet cfg st r) := by
  unfold processGet
  repeat' split
  all_goals (first | exact Or.inl ⟨rfl, foldl_release_acquire _ _⟩ | simp [StepPost])

theorem own_of_store (cfg : Cfg) (l : Ledger) (L : Nat) :
    (((l.alloc cfg L).1.setAdd (l.alloc cfg L).2.cap).flushAdd (l.alloc cfg L).2.cap).setSub (l.alloc cfg L).2.cap
      = own l (l.alloc cfg L).2 := by
  unfold alloc setAdd setSub flushAdd own
  by_cases h : L ≤ cfg.bodyInC <;> simp [h, flushAdd] <;> led_fin

theorem processStore_post (cfg : Cfg) (st : St) (r : Req) (l : Ledger) (L : Nat)
    (h : st.led = (l.alloc cfg L).1.setAdd (l.alloc cfg L).2.cap) :
    StepPost l st.pend (processStore cfg st r (l.alloc cfg L).2) := by
  unfold processStore
  simp only [h]
  repeat' split
  all_goals (apply replyIf_post; simp [alloc_undo, own_of_store])

theorem processAppend_post (cfg : Cfg) (st : St) (r : Req) (l : Ledger) (L : Nat)
    (h : st.led = (l.alloc cfg L).1.setAdd (l.alloc cfg L).2.cap) :
    StepPost l st.pend (processAppend st r (l.alloc cfg L).2) := by
  unfold processAppend
  simp only [h]
  split <;> simp [StepPost, alloc_undo]

theorem uncount (l : Ledger) : ({ ({ l with setC := l.setC + 1 } : Ledger).tokGet with setC := ({ l with setC := l.setC + 1 } : Ledger).tokGet.setC - 1 } : Ledger) = l.tokGet := by
  simp [tokGet]

theorem own_of_incr (l : Ledger) :
    ((({ l with setC := l.setC + 1 } : Ledger).tokGet).flushAdd 0).setSub 0 = own l.tokGet { cap := 0, inC := false } := by
  simp [tokGet, flushAdd, setSub, own]

theorem processIncr_post (cfg : Cfg) (st : St) (r : Req) (l : Ledger)
    (h : st.led = ({ l with setC := l.setC + 1 } : Ledger).tokGet) :
    StepPost l.tokGet st.pend (processIncr cfg st r) := by
  unfold processIncr
  simp only [h]
  repeat' split
  all_goals (apply replyIf_post; simp [uncount, own_of_incr])

theorem processDelete_post (cfg : Cfg) (st : St) (r : Req) : StepPost st.led st.pend (processDelete cfg st r) := by
  unfold processDelete
  simp only []
  repeat' split
  all_goals (apply replyIf_post; simp)

theorem processStats_post (st : St) (r : Req) : StepPost st.led st.pend (processStats st r) := by
  unfold processStats
  split <;> simp [StepPost]


theorem tokPut_tokGet (l : Ledger) : l.tokGet.tokPut = l := by
  simp [tokGet, tokPut]

theorem own_tokPut (l : Ledger) (b : Buf) : (own l.tokGet b).tokPut = own l b := by
  unfold own tokGet tokPut flushAdd
  by_cases h : b.inC = true <;> simp [h]

theorem process_post (cfg : Cfg) (st0 : St) (ro : ReadOut) (led : Ledger) (hpost : ReadPost cfg led ro) (hok : ro.res = .ok) :
    StepPost (if ro.working then led.tokGet else led) st0.pend (process cfg { st0 with led := ro.led } ro.req ro.item ro.kind) := by
  unfold ReadPost at hpost
  rw [hok] at hpost
  simp only [] at hpost
  cases hk : ro.kind <;> rw [hk] at hpost <;> simp only [] at hpost <;> unfold process <;> simp only []
  · obtain ⟨h1, h2, _⟩ := hpost
    rw [h2, h1]; exact processGet_post cfg { st0 with led := led.tokGet } ro.req
  · obtain ⟨L, h1, h2, h3⟩ := hpost
    rw [h3, h2]; simp only [Option.getD_some, if_true]
    exact processStore_post cfg { st0 with led := ro.led } ro.req led.tokGet L h1
  · obtain ⟨L, h1, h2, h3⟩ := hpost
    rw [h3, h2]; simp only [Option.getD_some, if_true]
    exact processAppend_post cfg { st0 with led := ro.led } ro.req led.tokGet L h1
  · obtain ⟨h1, h2⟩ := hpost
    rw [h2, h1]; exact processDelete_post cfg { st0 with led := led } ro.req
  · obtain ⟨h1, h2⟩ := hpost
    rw [h2]; simp only [if_true]
    exact processIncr_post cfg { st0 with led := ro.led } ro.req led h1
  · obtain ⟨h1, h2⟩ := hpost
    rw [h2, h1]; simp only [if_true]
    exact replyIf_post _ _ _ _ _ (by simp [tokGet])
  · obtain ⟨h1, h2, _⟩ := hpost
    rw [h2, h1]; exact processStats_post { st0 with led := led } ro.req
  · obtain ⟨h1, h2, _⟩ := hpost
    rw [h2, h1]; simp [StepPost]
  · obtain ⟨h1, h2, _⟩ := hpost
    rw [h2, h1]; simp [StepPost]
  · obtain ⟨h1, h2, _⟩ := hpost
    rw [h2, h1]; simp [StepPost]


theorem idle_snoc (cfg : Cfg) (p : List Buf) (b : Buf) : idle cfg (p ++ [b]) = own (idle cfg p) b := by
  simp [idle, List.foldl_append]

theorem serveOnce_quiet (cfg : Cfg) (st : St) (inp : Bytes) (h : Quiet cfg st) : Quiet cfg (serveOnce cfg st inp).st := by
  unfold Quiet at *
  unfold serveOnce
  have hp := readReq_post cfg st.led inp
  generalize readReq cfg st.led inp = ro at hp
  simp only []
  have hput : ∀ (e : ro.res ≠ .ok), (if ro.working = true then ro.led.tokPut else ro.led) = st.led := by
    intro e
    unfold ReadPost at hp
    split at hp
    · exact absurd (by assumption) e
    · rcases hp with ⟨h1, h2⟩ | ⟨h1, h2⟩ <;> simp [h1, h2, tokPut_tokGet]
  split
  · simp only []; rw [hput (by simp [*])]; exact h
  · simp only []; rw [hput (by simp [*])]; exact h
  · simp only []; rw [hput (by simp [*])]; exact h
  · rename_i hok
    have pp := process_post cfg st ro st.led hp hok
    generalize process cfg { st with led := ro.led } ro.req ro.item ro.kind = pr at pp
    obtain ⟨st1, resp, bufs, quit⟩ := pr
    simp only [StepPost] at pp
    simp only []
    rcases pp with ⟨h1, h2⟩ | ⟨b, h1, h2⟩
    · rw [h1, h2, ← h]
      by_cases hw : ro.working = true <;> simp [hw, tokPut_tokGet]
    · rw [h1, h2, idle_snoc, ← h]
      by_cases hw : ro.working = true <;> simp [hw, own_tokPut]

theorem serve_quiet (cfg : Cfg) (fuel : Nat) (st : St) (inp : Bytes) (h : Quiet cfg st) : Quiet cfg (serve cfg fuel st inp).1 := by
  induction fuel generalizing st inp with
  | zero => exact h
  | succ n ih =>
    unfold serve
    have hq := serveOnce_quiet cfg st inp h
    simp only []
    split
    · exact hq
    · exact ih _ _ hq

theorem flush_own (bs : List Buf) (l : Ledger) :
    bs.foldl (fun l buf => (l.flushSub buf.cap).free buf) (bs.foldl own l) = l := by
  induction bs generalizing l with
  | nil => rfl
  | cons b bs ih =>
    simp only [List.foldl_cons]
    have comm : ∀ (xs : List Buf) (l : Ledger), ((xs.foldl own (own l b)).flushSub b.cap).free b = xs.foldl own l := by
      intro xs
      induction xs with
      | nil =>
        intro l; unfold own flushAdd flushSub free
        by_cases h : b.inC = true <;> simp [h] <;> led_fin
      | cons x xs ihx =>
        intro l
        simp only [List.foldl_cons]
        have : own (own l b) x = own (own l x) b := by
          unfold own flushAdd
          by_cases h : b.inC = true <;> by_cases h' : x.inC = true <;> simp [h, h'] <;> led_fin
        rw [this]; exact ihx (own l x)
    rw [comm]; exact ih l

theorem flush_zero (cfg : Cfg) (st : St) (h : Quiet cfg st) : (flush st).led = zero cfg ∧ (flush st).pend = [] := by
  unfold Quiet idle at h
  simp only [flush, h, flush_own, and_self]


/-! ### replies -/

theorem replyIf_resp (nr : Bool) (st : St) (x : Resp) :
    (replyIf nr st x).2.1.isSome = !nr ∧ (replyIf nr st x).2.2.2 = false := by
  cases nr <;> simp [replyIf]

theorem process_resp (cfg : Cfg) (st : St) (r : Req) (item : Option Buf) (kind : Kind) (hk : kind ≠ .none)
    (hnr : kind = .get ∨ kind = .stats ∨ kind = .version ∨ kind = .okOnly ∨ kind = .quit → r.noreply = false) :
    (process cfg st r item kind).2.1.isSome = (!r.noreply && kind != .quit)
    ∧ (process cfg st r item kind).2.2.2 = (kind == .quit || (kind == .append && r.noreply)) := by
  cases kind <;> unfold process <;> simp only []
  · have := hnr (by simp)
    unfold processGet; simp only [this]
    repeat' split
    all_goals simp
  · unfold processStore; simp only []
    repeat' split
    all_goals (simp [replyIf_resp])
  · unfold processAppend; simp only []; split <;> simp [*]
  · unfold processDelete; simp only []
    repeat' split
    all_goals (simp [replyIf_resp])
  · unfold processIncr; simp only []
    repeat' split
    all_goals (simp [replyIf_resp])
  · simp [replyIf_resp]
  · have := hnr (by simp)
    unfold processStats; simp only [this]
    split <;> simp
  · have := hnr (by simp); simp [this]
  · have := hnr (by simp); simp [this]
  · simp
  · exact absurd rfl hk

end Proto
