/-
  QuickLZ (C10) — THE LEVEL-3 ROUND TRIP.  `cloop_post`: backward induction over the first loop of `Compress(x,3)` — the
  finished stream, read from the position that corresponds to any state at the top of a pass, is a certified level-3
  encoding (`Enc3`) of the rest of `x`.  `compress3_roundtrip`: for ALL values below 4 GiB − 400, whatever
  `Compress(x,3)` returns decompresses (`Decompress`, `DecompressSafe`) to `x`.  Statements that remain open are kept as
  `def …_statement : Prop`.  Core-only.
-/
import GoBeans.Lemmas.QlzTail3
set_option linter.unusedVariables false
set_option linter.unusedSimpArgs false
namespace QlzRT
open Qlz QlzLemmas

theorem fastRead_isSome {c : Buf} {p : Nat} : ∀ (n : Nat), p + n ≤ c.size → ∃ f, fastRead c p n = some f := by
  intro n
  induction n with
  | zero => intro _; exact ⟨0, rfl⟩
  | succ n ih =>
    intro h
    obtain ⟨l, hl⟩ := ih (by omega)
    unfold fastRead
    rw [hl]
    simp only
    rw [Array.getElem?_eq_getElem (by omega : p + n < c.size)]
    exact ⟨_, rfl⟩

/-- a reload of the control word in front of a certified rest -/
theorem Enc3_reload {c x : Buf} {p q W : Nat} (hW : W ≠ 1) (hr : fastRead c p 4 = some W) (h : Enc3 c x (p + 4) q W) :
    Enc3 c x p q 1 := by
  have hcw : cwAt c p 1 = some (p + 4, W) := by simp [cwAt, hr]
  cases h with
  | lit b b2 b3 h1 h2 h3 h4 h5 h6 h7 h8 h9 =>
    simp only [cwAt, hW, if_false, Option.some.injEq, Prod.mk.injEq] at h1
    obtain ⟨rfl, rfl⟩ := h1
    exact Enc3.lit b b2 b3 hcw h2 h3 h4 h5 h6 h7 h8 h9
  | mat h1 h2 h3 h4 h5 h6 h7 h8 h9 h10 h11 =>
    simp only [cwAt, hW, if_false, Option.some.injEq, Prod.mk.injEq] at h1
    obtain ⟨rfl, rfl⟩ := h1
    exact Enc3.mat hcw h2 h3 h4 h5 h6 h7 h8 h9 h10 h11
  | fin h1 h2 h3 h4 h5 =>
    simp only [cwAt, hW, if_false, Option.some.injEq, Prod.mk.injEq] at h1
    obtain ⟨rfl, rfl⟩ := h1
    exact Enc3.fin hcw h2 h3 h4 h5

/-- the four bytes the decoder fetches at a token: the token's own bytes, then whatever follows -/
theorem fetch_of_token {c : Buf} {p enc len f : Nat} (h1 : 1 ≤ len) (h4 : len ≤ 4) (henc : enc < 2 ^ (8 * len))
    (hb : ∀ j, j < len → c[p + j]? = some (byteOf enc j)) (hf : fastRead c p 4 = some f) :
    ∃ junk, junk < 2 ^ (32 - 8 * len) ∧ f = enc + 2 ^ (8 * len) * junk := by
  obtain ⟨b0, b1, b2, b3, g0, g1, g2, g3, rfl⟩ := fastRead4 hf
  have e0 := b0.toNat_lt
  have e1 := b1.toNat_lt
  have e2 := b2.toNat_lt
  have e3 := b3.toNat_lt
  have hb0 := hb 0 (by omega)
  simp only [Nat.add_zero] at hb0
  rw [g0] at hb0
  have q0 : b0.toNat = enc % 256 := by
    have := congrArg UInt8.toNat (Option.some.inj hb0)
    rw [byteOf_toNat] at this
    simpa using this
  have hlen : len = 1 ∨ len = 2 ∨ len = 3 ∨ len = 4 := by omega
  rcases hlen with rfl | rfl | rfl | rfl
  · refine ⟨b1.toNat + b2.toNat * 256 + b3.toNat * 65536, by simp only [Nat.reducePow, Nat.reduceSub, Nat.reduceMul]; omega, ?_⟩
    simp only [Nat.reducePow, Nat.reduceMul] at henc ⊢
    omega
  · have hb1 := hb 1 (by omega)
    rw [g1] at hb1
    have q1 : b1.toNat = enc / 256 % 256 := by
      have := congrArg UInt8.toNat (Option.some.inj hb1)
      rw [byteOf_toNat] at this
      simpa using this
    refine ⟨b2.toNat + b3.toNat * 256, by simp only [Nat.reducePow, Nat.reduceSub, Nat.reduceMul]; omega, ?_⟩
    simp only [Nat.reducePow, Nat.reduceMul] at henc ⊢
    omega
  · have hb1 := hb 1 (by omega)
    rw [g1] at hb1
    have q1 : b1.toNat = enc / 256 % 256 := by
      have := congrArg UInt8.toNat (Option.some.inj hb1)
      rw [byteOf_toNat] at this
      simpa using this
    have hb2 := hb 2 (by omega)
    rw [g2] at hb2
    have q2 : b2.toNat = enc / 65536 % 256 := by
      have := congrArg UInt8.toNat (Option.some.inj hb2)
      rw [byteOf_toNat] at this
      simpa using this
    refine ⟨b3.toNat, by simp only [Nat.reducePow, Nat.reduceSub, Nat.reduceMul]; omega, ?_⟩
    simp only [Nat.reducePow, Nat.reduceMul] at henc ⊢
    omega
  · have hb1 := hb 1 (by omega)
    rw [g1] at hb1
    have q1 : b1.toNat = enc / 256 % 256 := by
      have := congrArg UInt8.toNat (Option.some.inj hb1)
      rw [byteOf_toNat] at this
      simpa using this
    have hb2 := hb 2 (by omega)
    rw [g2] at hb2
    have q2 : b2.toNat = enc / 65536 % 256 := by
      have := congrArg UInt8.toNat (Option.some.inj hb2)
      rw [byteOf_toNat] at this
      simpa using this
    have hb3 := hb 3 (by omega)
    rw [g3] at hb3
    have q3 : b3.toNat = enc / 16777216 % 256 := by
      have := congrArg UInt8.toNat (Option.some.inj hb3)
      rw [byteOf_toNat] at this
      simpa using this
    refine ⟨0, by simp, ?_⟩
    simp only [Nat.reducePow, Nat.reduceMul] at henc ⊢
    omega

/-- the first loop has ended with input left: the rest of the stream is what the decoder's pass that enters the final
    literal run needs (the control bit it tests is 0, after a reload if the open word is full) -/
theorem ctail_fin {s c : Buf} {st st2 : CSt} {k F : Nat} (hi : CInv s st k F) (hlt : st.src < s.size)
    (h : ctail s (s.size - st.src) st = some st2) (hf : finish3 s st2 = some c) :
    Post s c st k F ∧ HdrOK s c ∧ ∀ W, fastRead c st.cwordPtr 4 = some W →
      ∃ p' cw', cwAt c st.dst (W >>> k) = some (p', cw') ∧ cw' &&& 1 = 0 ∧ TailEnc c s p' st.src cw' := by
  obtain ⟨hpost, hhdr, htail⟩ := ctail_post _ st k F hi (by omega) h hf
  refine ⟨hpost, hhdr, ?_⟩
  intro W hW
  obtain ⟨W0, hW0, hWm, hW1, hW2⟩ := hpost.W
  rw [hW] at hW0
  cases hW0
  obtain ⟨m, hm⟩ : ∃ m, s.size - st.src = m + 1 := ⟨s.size - st.src - 1, by omega⟩
  rw [hm, ctail_succ] at h
  split at h
  · contradiction
  · rename_i stf hfl
    split at h
    · contradiction
    · rename_i st' hlit
      obtain ⟨kf, Ff, hif, hsrcf, hback, hcase⟩ := flushed_post (c := c) hi hfl
      obtain ⟨hi', e1, e2, e3, e4, b, hb, hb'⟩ := tailLit_spec hlit hif (by omega)
      obtain ⟨hpost', _, htail'⟩ := ctail_post m st' (kf + 1) Ff hi' (by omega) h hf
      have ⟨hpostf, hbyte⟩ := @post_tok s c stf st' kf Ff Ff hif.ptr e3 (by omega) e4
        (fun W hW => (w_lit hif.klt hif.shape.2.1 hW).1)
        (by intro csz hcs; omega) hpost'
      have hcb : c[stf.dst]? = some b := by rw [hbyte stf.dst (Nat.le_refl _) (by omega), hb']
      obtain ⟨W', hW', hWm', hW1', hW2'⟩ := hpost'.W
      have hbit := (w_lit hif.klt hif.shape.2.1 hWm').2
      rcases hcase with ⟨hk, rfl, rfl, rfl⟩ | ⟨rfl, rfl, rfl, hcp, hd⟩
      · -- the open word has room: no reload
        rw [e3, hW] at hW'
        cases hW'
        have hne := w_ne_one hk hW1
        exact ⟨stf.dst, W >>> kf, by simp [cwAt, hne], hbit, htail W hW1 hW2⟩
      · -- the open word is full: the decoder reloads the word reserved by the second loop
        rw [e3, hcp] at hW'
        have hne : W' ≠ 1 := by omega
        refine ⟨st.dst + 4, W', by simp [cwAt, w_eq_one hW1 hW2, hW'], by simpa using hbit, ?_⟩
        rw [hd] at hcb
        refine TailEnc.step b (by omega) (by simpa [hne] using hcb) (by rw [← hsrcf]; exact hb) ?_
        have := htail' W' hW1' hW2'
        rw [e1, e2, hd, hsrcf] at this
        simpa [hne] using this

/-- main phase: the rest of the stream is certified from the decoder position that corresponds to the state -/
def PostMain (s c : Buf) (st : CSt) (k F : Nat) : Prop :=
  Post s c st k F ∧ HdrOK s c ∧ ∀ W, fastRead c st.cwordPtr 4 = some W → Enc3 c s st.dst st.src (W >>> k)

theorem getElem?_isSome_of_lt {c : Buf} {i : Nat} (h : i < c.size) : ∃ b, c[i]? = some b :=
  ⟨c[i], Array.getElem?_eq_getElem h⟩

/-- THE FIRST LOOP, backward: if `Compress(s,3)` continues from a state at the top of a pass and finishes with the
    stream `c`, then `c` from the corresponding position is a certified level-3 encoding of the rest of `s` -/
theorem cloop_post {s c : Buf} {st1 st2 : CSt} : ∀ (n : Nat) (st : CSt) (k F : Nat), CInv s st k F → st.src < s.size →
    cloop s 3 n st = some (.fin st1) → ctail s (s.size - st1.src) st1 = some st2 → finish3 s st2 = some c →
    PostMain s c st k F := by
  intro n
  induction n with
  | zero => intro st k F _ _ h; simp [cloop] at h
  | succ n ih =>
    intro st k F hi hlt h ht hf
    rw [cloop_succ] at h
    by_cases hmain : (st.src : Int) ≤ (s.size : Int) - 11
    · rw [if_pos hmain] at h
      split at h
      · -- gave up: the result is the stored form, not `.fin`
        simp only [Option.map_eq_some_iff] at h
        obtain ⟨_, _, h⟩ := h
        cases h
      · split at h
        · contradiction
        · rename_i stf hfl
          split at h
          · contradiction
          · rename_i st' hstep
            obtain ⟨kf, Ff, hif, hsrcf, hback, hcase⟩ := flushed_post (c := c) hi hfl
            obtain ⟨t1, t2, t3, t4, htok⟩ := cstep3_spec hstep (by rw [hsrcf]; exact hmain)
            obtain ⟨hp1, hp2⟩ := hif.ptr
            -- the certificate at `stf`, then across the control-word handling
            suffices hmainf : Post s c stf kf Ff ∧ HdrOK s c ∧ ∀ W, fastRead c stf.cwordPtr 4 = some W → Enc3 c s stf.dst stf.src (W >>> kf) by
              obtain ⟨hpostf, hhdr, hencf⟩ := hmainf
              have hpost := hback hpostf
              refine ⟨hpost, hhdr, ?_⟩
              intro W hW
              rcases hcase with ⟨hk, rfl, rfl, rfl⟩ | ⟨rfl, rfl, rfl, hcp, hd⟩
              · exact hencf W hW
              · obtain ⟨W0, hW0, _, hW1, hW2⟩ := hpost.W
                rw [hW] at hW0; cases hW0
                obtain ⟨Wf, hWf, _, hWf1, hWf2⟩ := hpostf.W
                have := hencf Wf hWf
                rw [hcp] at hWf
                rw [hd, hsrcf] at this
                rw [w_eq_one hW1 hW2]
                exact Enc3_reload (by omega) hWf (by simpa using this)
            cases htok with
            | lit b a1 a2 a3 a4 a5 =>
              have hi' : CInv s st' (kf + 1) Ff :=
                ⟨by rw [a3]; exact shape_lit hif.shape hif.klt, by rw [t1, a2]; exact ⟨hp1, by omega⟩, t3, by rw [a1]; omega, by rw [t2, hif.dsz]⟩
              obtain ⟨hpost', hhdr, henc'⟩ := ih st' (kf + 1) Ff hi' (by rw [a1]; omega) h ht hf
              have ⟨hpostf, hbyte⟩ := @post_tok s c stf st' kf Ff Ff hif.ptr t1 (by omega) t4
                (fun W hW => (w_lit hif.klt hif.shape.2.1 hW).1)
                (by intro csz hcs; omega) hpost'
              refine ⟨hpostf, hhdr, ?_⟩
              intro W hW
              obtain ⟨W0, hW0, hWm, hW1, hW2⟩ := hpost'.W
              rw [t1, hW] at hW0; cases hW0
              have hbit := (w_lit hif.klt hif.shape.2.1 hWm).2
              have hne := w_ne_one hif.klt hW1
              have hroom := hpost'.room
              have hcb : c[stf.dst]? = some b := by rw [hbyte stf.dst (Nat.le_refl _) (by omega), a5]
              obtain ⟨f, hf4⟩ := fastRead_isSome (c := c) (p := stf.dst) 4 (by omega)
              obtain ⟨b2, hb2⟩ := getElem?_isSome_of_lt (c := c) (i := stf.dst + 1 + 2) (by omega)
              obtain ⟨b3, hb3⟩ := getElem?_isSome_of_lt (c := c) (i := stf.dst + 1 + 3) (by omega)
              have hrest := henc' W (by rw [t1]; exact hW)
              rw [a2, a1, ← w_shift] at hrest
              exact Enc3.lit b b2 b3 (by simp [cwAt, hne]) hbit (by rw [hsrcf]; exact hmain) (by rw [hf4]; rfl) hcb a4 hb2 hb3 hrest
            | mat ml off enc len a1 a2 a3 a4 a5 a6 a7 a8 a9 a10 =>
              obtain ⟨l1, l2, l3, l4⟩ := a5
              have hi' : CInv s st' (kf + 1) (Ff + 2 ^ kf) :=
                ⟨by rw [a3]; exact shape_mat hif.shape hif.klt, by rw [t1, a2]; exact ⟨hp1, by omega⟩, t3, by rw [a1]; omega, by rw [t2, hif.dsz]⟩
              obtain ⟨hpost', hhdr, henc'⟩ := ih st' (kf + 1) (Ff + 2 ^ kf) hi' (by rw [a1]; omega) h ht hf
              have ⟨hpostf, hbyte⟩ := @post_tok s c stf st' kf Ff (Ff + 2 ^ kf) hif.ptr t1 (by omega) t4
                (fun W hW => (w_mat hif.klt hif.shape.2.1 hW).1)
                (by intro csz hcs; omega) hpost'
              refine ⟨hpostf, hhdr, ?_⟩
              intro W hW
              obtain ⟨W0, hW0, hWm, hW1, hW2⟩ := hpost'.W
              rw [t1, hW] at hW0; cases hW0
              have hbit := (w_mat hif.klt hif.shape.2.1 hWm).2
              have hne := w_ne_one hif.klt hW1
              have hroom := hpost'.room
              have hbytes : ∀ j, j < len → c[stf.dst + j]? = some (byteOf enc j) := by
                intro j hj
                rw [hbyte (stf.dst + j) (by omega) (by omega), a4 j hj]
              obtain ⟨f, hf4⟩ := fastRead_isSome (c := c) (p := stf.dst) 4 (by omega)
              obtain ⟨junk, hj1, hj2⟩ := fetch_of_token l1 l2 l3 hbytes hf4
              have htk := l4 junk hj1
              rw [← hj2] at htk
              obtain ⟨f', hf'⟩ := fastRead_isSome (c := c) (p := stf.dst + len) 4 (by omega)
              have hrest := henc' W (by rw [t1]; exact hW)
              rw [a2, a1, ← w_shift] at hrest
              have e1 : (tok3 f).1 = ml := by rw [htk]
              have e2 : (tok3 f).2.1 = off := by rw [htk]
              have e3 : (tok3 f).2.2 = len := by rw [htk]
              exact Enc3.mat (f := f) (by simp [cwAt, hne]) hbit (by rw [hsrcf]; exact hmain) hf4 (by rw [e2]; exact a7)
                (by rw [e2]; exact a8) (by rw [e1]; exact a6) (by rw [e1]; omega) (by rw [e1, e2]; exact a10)
                (by rw [e3, hf']; rfl) (by rw [e1, e3]; exact hrest)
    · -- the first loop ends here
      rw [if_neg hmain] at h
      simp only [Option.some.injEq, CLoop.fin.injEq] at h
      subst h
      obtain ⟨hpost, hhdr, hfin⟩ := ctail_fin hi hlt ht hf
      refine ⟨hpost, hhdr, ?_⟩
      intro W hW
      obtain ⟨p', cw', h1, h2, h3⟩ := hfin W hW
      exact Enc3.fin h1 h2 hmain (by omega) h3

theorem cloop_stored {s out : Buf} : ∀ (n : Nat) (st : CSt), cloop s 3 n st = some (.stored out) → storedStream s 3 = some out := by
  intro n
  induction n with
  | zero => intro st h; simp [cloop] at h
  | succ n ih =>
    intro st h
    rw [cloop_succ] at h
    split at h
    · split at h
      · simp only [Option.map_eq_some_iff] at h
        obtain ⟨o, ho, he⟩ := h
        cases he
        exact ho
      · split at h
        · contradiction
        · split at h
          · contradiction
          · exact ih _ h
    · cases h

/-- (3) THE ROUND TRIP, LEVEL 3 (the level of the C library the server uses), for ALL values below 4 GiB − 400:
    whatever the model of the Go `Compress(x, 3)` returns — the compressed form or the stored form — `Decompress` of it
    is `x`, and so is `DecompressSafe` of it (its two size checks pass).
    (`Compress` returning at all, i.e. not panicking on an index, is the hypothesis `h` here; it is discharged for every
    value by `compress3_total` in `Lemmas/QlzTotal3.lean`, giving `roundtrip3`.) -/
theorem compress3_roundtrip {x c : Buf} (hx : x.size ≠ 0) (hsz : x.size + 400 < 2 ^ 32) (h : compress x 3 = some c) :
    decompress c = .ok x ∧ decompressSafe c = .ok x := by
  rw [compress3_eq x hx] at h
  split at h
  · contradiction
  · rename_i fetch _
    split at h
    · contradiction
    · rename_i out hcl
      cases h
      exact stored_roundtrip (Or.inr rfl) (by omega) (cloop_stored _ _ hcl)
    · rename_i st1 hcl
      split at h
      · contradiction
      · rename_i st2 hct
        have hi : CInv x (cinit3 x fetch) 0 0 :=
          ⟨shape_init, ⟨by simp [cinit3], by simp [cinit3]⟩, by simp [cinit3], by simp [cinit3], by simp [cinit3]⟩
        obtain ⟨hpost, hhdr, henc⟩ := cloop_post (x.size + 1) (cinit3 x fetch) 0 0 hi (by simp [cinit3]; omega) hcl hct h
        obtain ⟨W, hW, _, hW1, hW2⟩ := hpost.W
        have he := henc W hW
        have hW' : fastRead c 9 4 = some W := hW
        have he' : Enc3 c x (9 + 4) 0 W := by simpa [cinit3] using he
        have hcert := Enc3_reload (by omega) hW' he'
        obtain ⟨r1, r2, r3, r4, r5, r6⟩ := hhdr
        rw [Nat.mod_eq_of_lt (by omega)] at r2
        rw [Nat.mod_eq_of_lt (by omega)] at r3
        have hdec := dec3 r1 r2 r4 r5 hcert
        refine ⟨hdec, ?_⟩
        unfold decompressSafe
        rw [r3, r2, hdec]
        simp

/-- the header of what `Compress(x, 3)` returns states the true sizes (so the length check of `DecompressSafe` and of
    `CDecompressSafe` passes and the announced decompressed size is `len x`) -/
theorem compress3_header {x c : Buf} (hx : x.size ≠ 0) (hsz : x.size + 400 < 2 ^ 32) (h : compress x 3 = some c) :
    sizeCompressed c = some c.size ∧ sizeDecompressed c = some x.size := by
  have := (compress3_roundtrip hx hsz h).2
  unfold decompressSafe at this
  split at this
  · cases this
  · rename_i sc hsc
    split at this
    · cases this
    · rename_i hne
      split at this
      · cases this
      · rename_i sd hsd
        have hd := decompress_size (compress3_roundtrip hx hsz h).1
        rw [hsd] at hd
        cases hd
        exact ⟨by rw [hsc]; congr 1; omega, hsd⟩

/-- `Compress` itself never panics (every index it uses is in range; in particular the output never outgrows
    `len(source)+400` thanks to the give-up rule).  PROVED: `QlzRT.compress3_total` in `Lemmas/QlzTotal3.lean`. -/
def compress3_total_statement : Prop := ∀ x : Buf, x.size + 400 < 2 ^ 32 → ∃ c, compress x 3 = some c

/-- the full statement for level 3.  PROVED: `QlzRT.roundtrip3` in `Lemmas/QlzTotal3.lean`. -/
def roundtrip3_statement : Prop :=
  ∀ x : Buf, x.size ≠ 0 → x.size + 400 < 2 ^ 32 → ∃ c, compress x 3 = some c ∧ decompress c = .ok x

/-- the full statement for level 1 (hash-table tokens: the decoder must rebuild the compressor's table) — NOT proved;
    proved fragment: the stored branch (`stored_roundtrip`), validated by engine `qlz` (Go1→Go on every value) -/
def roundtrip1_statement : Prop :=
  ∀ x : Buf, x.size ≠ 0 → x.size + 400 < 2 ^ 32 → ∃ c, compress x 1 = some c ∧ decompress c = .ok x

/-- the level-3 statement follows from totality and the partial-correctness theorem -/
theorem roundtrip3_of_total (ht : compress3_total_statement) : roundtrip3_statement := by
  intro x hx hsz
  obtain ⟨c, hc⟩ := ht x hsz
  exact ⟨c, hc, (compress3_roundtrip hx hsz hc).1⟩

end QlzRT
