/-
  C13 on the collision path, part (b): the class `Safe` of histories and the invariant `SInv` that ties the state of
  `Collide.step` to a tracker computed from the history alone (the reference map, the keys written so far, the keys
  the collision table knows, and per key hash the key whose record the tree slot points at).
-/
import GoBeans.Lemmas.CollideHints
import GoBeans.Lemmas.CollideTable
import GoBeans.Lemmas.CollideLog
set_option linter.unusedSimpArgs false
set_option linter.unusedVariables false
namespace CollideLemmas
open Store Spec HintIndex Collide StoreLemmas HintBufferLemmas

/-- what is known about the bucket from the history alone -/
structure Trk where
  m       : Spec.KV := []              -- the reference map
  written : List Key := []             -- keys that have a record
  reg     : List Key := []             -- keys entered in the collision table
  owner   : List (Nat × Key) := []     -- key hash ↦ the key whose record the tree slot points at (the last one written)

section
variable (hash : Key → Nat)

/-- the key hash is known to the collision table -/
def Trk.det (t : Trk) (h : Nat) : Bool := t.reg.any (fun k => hash k == h)

/-- the other keys of the same hash that have been written -/
def Trk.others (t : Trk) (k : Key) : List Key := t.written.filter (fun k' => hash k' == hash k && k' != k)

/-- the read path of `get k`: a written key the table does not know, read through a slot owned by another key, makes
    the store enter BOTH keys into the collision table -/
def Trk.afterGet (t : Trk) (k : Key) : Trk :=
  if k ∈ t.written ∧ k ∉ t.reg then
    match AMap.get t.owner (hash k) with
    | some o => if o = k then t else { t with reg := k :: o :: t.reg }
    | none => t
  else t

/-- a record of `k` is written: the slot is `k`'s; if the hash is known to the table, `k` is entered -/
def Trk.afterWrite (t : Trk) (k : Key) (m' : KV) : Trk :=
  { m := m', written := k :: t.written, owner := AMap.set t.owner (hash k) k,
    reg := if t.det hash (hash k) then k :: t.reg else t.reg }

/-- does the reference `incr` write (it refuses a value that is not a counter) -/
def incrWrites (m : KV) (k : Key) : Bool :=
  match AMap.get m k with
  | none => true
  | some e => if e.ver < 0 then true else if e.flag ≠ FLAG_INCR then false else if e.body.length > 22 then false
              else (parseInt e.body).isSome

def liveIn (m : KV) (k : Key) : Bool := match AMap.get m k with | some e => decide (e.ver > 0) | none => false

/-- one operation on the tracker; `none`: the operation is outside the class -/
def Trk.step (t : Trk) : Collide.Op → Option Trk
  | .set k body flag rev ts size =>
    if rev = 0 ∧ 0 < size ∧ body.length < 2^63 then some (t.afterWrite hash k (Spec.step {} t.m (.set k body flag rev ts)).1) else none
  | .delete k size _ =>
    -- a delete reads the old version through the slot of the key HASH unless the table knows the key
    if 0 < size ∧ (k ∈ t.reg ∨ t.others hash k = []) then
      let m' := (Spec.step {} t.m (.delete k)).1
      some (if liveIn t.m k then t.afterWrite hash k m' else { t with m := m' })
    else none
  | .incr k d size _ =>
    if 0 < size then
      let t1 := t.afterGet hash k
      let m' := (Spec.step {} t.m (.incr k d)).1
      some (if incrWrites t.m k then t1.afterWrite hash k m' else { t1 with m := m' })
    else none
  | .get k => some (t.afterGet hash k)
  | .info k => some (t.afterGet hash k)
  | .flush => some t
  | .hintDump => some t
  | _ => none

def Trk.run (t : Trk) : List Collide.Op → Option Trk
  | [] => some t
  | op :: ops => match t.step hash op with | some t' => Trk.run t' ops | none => none

/-- **the class**: client operations with automatic revisions, flush and the hint dumper's round, where a delete is
    issued only for a key the collision table knows or a key without written hash-mates -/
def Safe (ops : List Collide.Op) : Bool := (Trk.run hash {} ops).isSome

/-! ### the invariant -/

/-- the hint lookup of a data file against the last record of the key in that file -/
def HintAt (k : Key) : Option Item → Option (Nat × Rec) → Prop
  | none, none => True
  | some it, some p => it.off = p.1 ∧ it.ver = p.2.ver ∧ it.key = k ∧ it.khash = hash k
  | _, _ => False

/-- the last record of a key against its entry in the reference map (versions: sign only) -/
def LogSpec : Option (Pos × Rec) → Option Entry → Prop
  | none, none => True
  | some x, some e => x.2.ver ≠ 0 ∧ (x.2.ver > 0 ↔ e.ver > 0) ∧ (e.ver > 0 → e.flag = x.2.flag ∧ e.body = x.2.body ∧ e.ts = x.2.ts)
      ∧ x.2.body.length < 2^63 ∧ e.ver ≠ 0
  | _, _ => False

structure SInv (cfg : Collide.Cfg) (st : State) (t : Trk) (n : Nat) : Prop where
  pos : PosInv st.b
  ra : ∀ c o r, (o, r) ∈ (st.b.chunks c).recs → st.b.readAt ⟨c, o⟩ = some r
  ob : ∀ c o r, (o, r) ∈ (st.b.chunks c).recs → o ≤ cfg.s.dataFileMax
  spec : ∀ k, LogSpec (lastOf k st.b.log) (AMap.get t.m k)
  wr : ∀ k, k ∈ t.written ↔ (lastOf k st.b.log).isSome
  vers : ∀ x ∈ st.b.log, x.2.ver.natAbs ≤ n
  tab : ∀ h k it, tget st.ct h k = some it → hash k = h ∧ k ∈ t.reg ∧ it.key = k ∧ it.khash = h
          ∧ ∃ r, lastOf k st.b.log = some (⟨it.chunk, it.off⟩, r) ∧ it.ver = r.ver
  tabc : ∀ k, k ∈ t.reg → (tget st.ct (hash k) k).isSome = true
  tabne : ∀ h, thas st.ct h = true → ∃ k it, tget st.ct h k = some it
  slot : ∀ h ti, AMap.get st.b.tree h = some ti → ∃ o r, AMap.get t.owner h = some o ∧ hash o = h
          ∧ lastOf o st.b.log = some (ti.pos, r) ∧ ti.ver = r.ver
  own : ∀ k, k ∈ t.written → ∃ ti, AMap.get st.b.tree (hash k) = some ti
  hgood : ∀ j, CkGood (st.hs.chunks j)
  hmerged : st.hs.merged = none
  hex : ∀ c k, HintAt hash k ((st.hs.chunks c).get (hash k) k) (lastIn k (st.b.chunks c).recs)
  hmax : ∀ c, (st.b.chunks c).recs ≠ [] → c ≤ st.hs.maxChunk

end

end CollideLemmas
