/-
  C13 (b) with restarts: `reopen_safeR`.
-/
import GoBeans.Lemmas.CollideRReopen3
set_option linter.unusedSimpArgs false
set_option linter.unusedVariables false
namespace CollideLemmas
open Store Spec HintIndex Collide StoreLemmas HintBufferLemmas HintIndexLemmas

section
variable (hash : Key → Nat)

theorem reB_log (st : State) (mx : Nat) (hp : PosInv st.b) (hle : mx ≤ st.b.head)
    (hemp : ∀ j, mx < j → (st.b.chunks j).recs = [] ∧ (st.b.chunks j).size = 0) : (reB st mx).log = st.b.log := by
  rw [log_eq, log_eq]
  have hr : ∀ i, recsAt (reB st mx) i = recsAt st.b i := by intro i; rfl
  have hh : (reB st mx).head = mx + 1 := rfl
  rw [hh]
  rw [show (List.range (mx + 1 + 1)).flatMap (recsAt (reB st mx)) = (List.range (mx + 1 + 1)).flatMap (recsAt st.b) from
        flatMap_congr_range _ _ _ (fun i _ => hr i)]
  have hz : ∀ j, mx + 1 ≤ j → recsAt st.b j = [] := by
    intro j hj; unfold recsAt; rw [(hemp j (by omega)).1]; rfl
  rw [flatMap_range_trailing (recsAt st.b) (mx + 1) hz (mx + 1 + 1) (by omega),
      flatMap_range_trailing (recsAt st.b) (mx + 1) hz (st.b.head + 1) (by omega)]

theorem mem_filter_range_le (mx t j : Nat) : j ∈ (List.range (mx + 1)).filter (fun i => decide (t ≤ i)) ↔ j ≤ mx ∧ t ≤ j := by
  simp [List.mem_filter, List.mem_range]; omega

theorem mem_filter_range_lt (mx t j : Nat) : j ∈ (List.range (mx + 1)).filter (fun i => decide (i < t)) ↔ j ≤ mx ∧ j < t := by
  simp [List.mem_filter, List.mem_range]; omega

theorem loadedCk_good (ck : HCk) (size : Nat) (g : CkGood ck) : CkGood (loadedCk ck size) := by
  unfold loadedCk
  split
  · exact ⟨bufInv_empty, fun sp hsp => by cases hsp⟩
  · exact ⟨bufInv_empty, g.files⟩

theorem loadedCk_get (ck : HCk) (size : Nat) (g : CkGood ck) (he : ck.last.items = []) (hsz : size ≠ 0) (h : Nat) (k : Key) :
    (loadedCk ck size).get h k = ck.get h k := by
  have g' := loadedCk_good ck size g
  rw [ckGet_eq _ g'.last (shape_of_allFiles g'.files), ckGet_eq _ g.last (shape_of_allFiles g.files)]
  unfold loadedCk ckLists
  rw [if_neg hsz, he]

theorem loadedCk_inck (ck : HCk) (size : Nat) (y : Item) (h : InCk (loadedCk ck size) y) : InCk ck y := by
  unfold loadedCk at h
  split at h
  · rcases h with h | ⟨sp, hsp, _⟩
    · cases h
    · cases hsp
  · rcases h with h | ⟨sp, hsp, hy⟩
    · cases h
    · exact Or.inr ⟨sp, hsp, hy⟩

theorem allDetected_spec (t : Trk) (h : t.allDetected hash = true) : ∀ k, k ∈ t.written → t.others hash k ≠ [] → k ∈ t.reg := by
  intro k hk hne
  unfold Trk.allDetected at h
  rw [List.all_eq_true] at h
  have := h k hk
  simp only [Bool.or_eq_true, List.isEmpty_iff, List.contains_eq_mem, decide_eq_true_eq] at this
  rcases this with e | e
  · exact absurd e hne
  · simpa using e

theorem reopen_safeR {cfg : Collide.Cfg} {st : State} {x : TrkR} {n : Nat} (inv : RInv hash cfg st x n)
    (hall : x.t.allDetected hash = true) (hne : x.t.written ≠ []) (kt : Bool) :
    RInv hash cfg (st.reopen hash cfg kt) { t := { x.t with owner := [] }, restarted := true } (n + 1) := by
  have halld := allDetected_spec hash x.t hall
  -- some record exists
  obtain ⟨k0, hk0⟩ := List.exists_mem_of_ne_nil _ hne
  have hl0 := (inv.wr k0).mp hk0
  cases hlo0 : lastOf k0 st.b.log with
  | none => rw [hlo0] at hl0; cases hl0
  | some z0 =>
  obtain ⟨p0, r0⟩ := z0
  obtain ⟨_, _, hm0, _⟩ := lastOf_factsR hash inv hlo0
  obtain ⟨mx, hmx, hmxle, hemp⟩ := reopen_mx st.b inv.pos p0.chunk (by intro e; rw [e] at hm0; cases hm0)
  rw [reopen_some hash cfg st kt mx hmx]
  -- the close
  obtain ⟨k1, k2, k3, k4, k5, k6, k7⟩ := closeAll_r (st.hs.maxChunk + 1) st.hs inv.hgood
  generalize hhs1 : closeAll st.hs (st.hs.maxChunk + 1) = hs1 at k1 k2 k3 k4 k5 k6 k7
  have hempty1 : ∀ j, (hs1.chunks j).last.items = [] := by
    intro j
    apply k5
    by_cases hj : j < st.hs.maxChunk + 1
    · exact Or.inl hj
    · exact Or.inr (inv.le j (by omega))
  have hdump : isLarger st.treeID hs1.maxDumped.1 hs1.maxDumped.2 = true := k4 _ inv.tidle
  -- data of the new process
  have hlog : (reB st mx).log = st.b.log := reB_log st mx inv.pos hmxle hemp
  have hra : ∀ p, (reB st mx).readAt p = st.b.readAt p := fun p => rfl
  have hposB : PosInv (reB st mx) :=
    ⟨fun i o r hm => inv.pos.below i o r hm, fun i hi => hemp i (by have : (reB st mx).head = mx + 1 := rfl; omega)⟩
  -- the split files cover the data files
  have cov : Covers hs1 (reB st mx) := by
    refine ⟨fun i => (k1 i).files, fun i => (k6 i _ (inv.dsok i)).1, ?_⟩
    intro i hsz
    have hre := inv.szpos i hsz
    rcases k7 i _ (inv.dsfull i hre) with h | ⟨h, _⟩
    · exact h
    · exact absurd (hempty1 i) h
  -- what is loaded
  generalize hL : reLoaded st mx kt hs1 = L
  have hLcases : L = none ∨ (L = some (hs1.maxDumped, st.b.tree) ∧ hs1.maxDumped.1 ≤ mx) := by
    rw [← hL]
    unfold reLoaded
    cases kt with
    | false => left; rfl
    | true =>
      simp only [if_true, hdump]
      by_cases hgt : hs1.maxDumped.1 > mx
      · left; simp [hgt]
      · right; simp [hgt]; omega
  have htid2 : (reTid L).2 = -1 ∧ (reTid L).1 = 0 ∨ L = some (hs1.maxDumped, st.b.tree) := by
    rcases hLcases with h | ⟨h, _⟩
    · left; rw [h]; exact ⟨rfl, rfl⟩
    · right; exact h
  -- the two loops
  have hnd1 : ((List.range (mx + 1)).filter (fun i => decide ((reTid L).1 ≤ i))).Nodup := List.Nodup.sublist List.filter_sublist List.nodup_range
  have hnd2 : ((List.range (mx + 1)).filter (fun i => decide (i < (reTid L).1))).Nodup := List.Nodup.sublist List.filter_sublist List.nodup_range
  obtain ⟨a1, a2, a3, a4, a5⟩ := openFold_spec hash cfg.cap (reB st mx) hs1 cov (reTid L) _ hnd1
    (({ maxDumped := reTid L } : Hints), reTree0 L) (fun j _ => rfl) (isLarger_refl _)
  generalize hx1 : ((List.range (mx + 1)).filter (fun i => decide ((reTid L).1 ≤ i))).foldl
      (openChunk hash cfg.cap (reB st mx) (diskOf hs1) (reTid L)) (({ maxDumped := reTid L } : Hints), reTree0 L) = x1 at a1 a2 a3 a4 a5
  obtain ⟨b1, b2, b3, b4, b5⟩ := openFold_spec hash cfg.cap (reB st mx) hs1 cov (reTid L) _ hnd2 x1
    (by
      intro j hj
      have hnj : ¬ j ∈ (List.range (mx + 1)).filter (fun i => decide ((reTid L).1 ≤ i)) := by
        rw [mem_filter_range_le]; rw [mem_filter_range_lt] at hj; omega
      rw [a1 j, if_neg hnj])
    a4
  have hfold : reFold hash cfg st mx hs1 L =
      ((List.range (mx + 1)).filter (fun i => decide (i < (reTid L).1))).foldl (openChunk hash cfg.cap (reB st mx) (diskOf hs1) (reTid L)) x1 := by
    unfold reFold; rw [hx1]
  rw [hfold]
  generalize hx2 : ((List.range (mx + 1)).filter (fun i => decide (i < (reTid L).1))).foldl
      (openChunk hash cfg.cap (reB st mx) (diskOf hs1) (reTid L)) x1 = x2 at b1 b2 b3 b4 b5
  -- the hint chunks of the new process
  have hchunks : ∀ j, x2.1.chunks j = if j ≤ mx then loadedCk (hs1.chunks j) (st.b.chunks j).size else {} := by
    intro j
    rw [b1 j]
    by_cases hj2 : j ∈ (List.range (mx + 1)).filter (fun i => decide (i < (reTid L).1))
    · rw [if_pos hj2, if_pos ((mem_filter_range_lt _ _ _).mp hj2).1]; rfl
    · rw [if_neg hj2, a1 j]
      by_cases hj1 : j ∈ (List.range (mx + 1)).filter (fun i => decide ((reTid L).1 ≤ i))
      · rw [if_pos hj1, if_pos ((mem_filter_range_le _ _ _).mp hj1).1]; rfl
      · rw [if_neg hj1]
        have : ¬ j ≤ mx := by
          intro hle
          rw [mem_filter_range_le] at hj1; rw [mem_filter_range_lt] at hj2
          omega
        rw [if_neg this]
  -- the tree
  have htree : x2.2 = ((List.range (mx + 1)).filter (fun i => decide ((reTid L).1 ≤ i))).foldl
      (fun t i => treeStep (reTid L) (loadedCk (hs1.chunks i) ((reB st mx).chunks i).size) t i) (reTree0 L) := by
    rw [b5, treeStep_below _ _ _ (fun i hi => ((mem_filter_range_lt _ _ _).mp hi).2), a5]
  have hsingle : ∀ o, ((lastOf o (reB st mx).log).isSome = true ∧ o ∉ x.t.reg) → ∀ c y, InCk (hs1.chunks c) y → y.khash = hash o → y.key = o := by
    intro o ho c y hy hh
    rw [hlog] at ho
    obtain ⟨r, rm, rk, _, rh⟩ := inv.sound c y ((k3 c y).mp hy)
    have hyw : y.key ∈ x.t.written := by
      rw [← rk]
      apply written_of_mem_log hash inv (p := ⟨c, y.off⟩)
      rw [log_eq, List.mem_flatMap]
      have hc : c ≤ st.b.head := by
        cases Nat.lt_or_ge st.b.head c with
        | inl h => rw [(inv.pos.fresh c h).1] at rm; cases rm
        | inr h => exact h
      refine ⟨c, by simp; omega, ?_⟩
      unfold recsAt; rw [List.mem_map]; exact ⟨(y.off, r), rm, rfl⟩
    have how : o ∈ x.t.written := (inv.wr o).mpr ho.1
    cases hd : decide (y.key = o) with
    | true => simpa using hd
    | false =>
      exfalso
      have hne' : y.key ≠ o := by simpa using hd
      have := others_mem hash x.t hyw (by rw [← rh, hh]) hne'
      exact ho.2 (halld o how (by intro e; rw [e] at this; cases this))
  have tc : TC hash (reB st mx) hs1 (fun o => (lastOf o (reB st mx).log).isSome = true ∧ o ∉ x.t.reg) :=
    { pos := hposB, good := k1, empty := hempty1,
      hex := fun c k => by rw [k2]; exact inv.hex c k,
      single := hsingle }
  have hpw : ((List.range (mx + 1)).filter (fun i => decide ((reTid L).1 ≤ i))).Pairwise (· < ·) :=
    List.Pairwise.sublist List.filter_sublist List.pairwise_lt_range
  have hq := treeFold_inv hash tc (reTid L) (reTree0 L) ((List.range (mx + 1)).filter (fun i => decide ((reTid L).1 ≤ i))) [] (reTree0 L)
    (by simp only [List.nil_append]; exact hpw)
    (q_init hash _ _ _ _ _)
  simp only [List.nil_append] at hq
  rw [← htree] at hq
  have hsound1 : ∀ c y, InCk (hs1.chunks c) y → Snd hash (reB st mx) c y := fun c y hy => inv.sound c y ((k3 c y).mp hy)
  have t0ok : T0OK hash (reB st mx) x.t.reg (reTree0 L) := by
    constructor
    intro h ti hti
    rcases hLcases with hLn | ⟨hLs, _⟩
    · rw [hLn] at hti; cases hti
    · rw [hLs] at hti
      obtain ⟨o, r, c1, c2, c3, c4, c5, c6, _⟩ := inv.slot h ti hti
      exact ⟨o, r, c1, c2, c3, by rw [hlog]; exact c4, c5, fun hnr => by rw [hlog]; exact c6 (Or.inr hnr)⟩
  have t0own : (reTid L).2 = -1 ∧ (reTid L).1 = 0 ∨ (∀ k, (lastOf k (reB st mx).log).isSome = true → k ∉ x.t.reg →
      (∃ p r, lastOf k (reB st mx).log = some (p, r) ∧ r.ver > 0) → ∃ ti, AMap.get (reTree0 L) (hash k) = some ti) := by
    rcases htid2 with h | h
    · exact Or.inl h
    · right
      intro k hks hnr hlive
      rw [h]
      rw [hlog] at hks hlive
      exact inv.own k ((inv.wr k).mpr hks) (Or.inr ⟨hnr, hlive⟩)
  obtain ⟨tslot, town⟩ := tree_final hash x.t.reg tc (fun c o r hm => inv.ra c o r hm) hsound1 (reTid L) mx rfl
    (fun i hi => (hemp i hi).1) (reTree0 L) x2.2 t0ok t0own hq
  -- assemble
  have hgoodN : ∀ j, CkGood (x2.1.chunks j) := by
    intro j
    rw [hchunks]
    split
    · exact loadedCk_good _ _ (k1 j)
    · exact ⟨bufInv_empty, fun sp hsp => by cases hsp⟩
  have hincN : ∀ j y, InCk (x2.1.chunks j) y → InCk (st.hs.chunks j) y := by
    intro j y hy
    rw [hchunks] at hy
    split at hy
    · exact (k3 j y).mp (loadedCk_inck _ _ y hy)
    · rcases hy with h | ⟨sp, hsp, _⟩
      · cases h
      · cases hsp
  refine { pos := posInv_tree hposB _, ra := fun c o r hm => inv.ra c o r hm, ob := fun c o r hm => inv.ob c o r hm,
           spec := ?_, wr := ?_, vers := ?_, tab := ?_,
           tabc := inv.tabc, tabne := inv.tabne, slot := ?_, ownw := ?_, own := ?_,
           hgood := hgoodN, hmerged := ?_, hex := ?_, hmax := ?_,
           sound := fun c y hy => inv.sound c y (hincN c y hy), dsok := ?_, dsfull := ?_,
           szpos := fun c hz => inv.szpos c hz, le := ?_, tidle := ?_,
           alld := fun _ => halld }
  · intro k; show LogSpec (lastOf k (reB st mx).log) _; rw [hlog]; exact inv.spec k
  · intro k; show _ ↔ (lastOf k (reB st mx).log).isSome = true; rw [hlog]; exact inv.wr k
  · intro y hy
    have hy' : y ∈ (reB st mx).log := hy
    rw [hlog] at hy'
    have := inv.vers y hy'; omega
  · intro h k it hg
    show _ ∧ _ ∧ _ ∧ _ ∧ ∃ r, lastOf k (reB st mx).log = _ ∧ _
    rw [hlog]; exact inv.tab h k it hg
  · -- slot
    intro h ti hti
    obtain ⟨o, r, c1, c2, c3, c4, c5, c6⟩ := tslot.slot h ti hti
    exact ⟨o, r, c1, c2, c3, c4, c5, fun hc => by
      rcases hc with hc | hc
      · cases hc
      · exact c6 hc, fun hc => by cases hc⟩
  · -- ownw
    intro h o ho; cases ho
  · -- own
    intro k hk hc
    rcases hc with hc | ⟨hc1, hc2⟩
    · cases hc
    · have hks : (lastOf k (reB st mx).log).isSome = true := by rw [hlog]; exact (inv.wr k).mp hk
      exact town k hks hc1 hc2
  · -- hmerged
    show x2.1.merged = none
    rw [b3, a3]
  · -- hex
    intro c k
    show HintAt hash k ((x2.1.chunks c).get (hash k) k) (lastIn k (st.b.chunks c).recs)
    rw [hchunks]
    by_cases hc : c ≤ mx
    · rw [if_pos hc]
      by_cases hsz : (st.b.chunks c).size = 0
      · have hre : (st.b.chunks c).recs = [] := by
          cases hr : (st.b.chunks c).recs with
          | nil => rfl
          | cons p rest =>
            have := inv.pos.below c p.1 p.2 (by rw [hr]; simp)
            omega
        unfold loadedCk
        rw [if_pos hsz, hre]
        exact True.intro
      · rw [loadedCk_get _ _ (k1 c) (hempty1 c) hsz, k2]
        exact inv.hex c k
    · rw [if_neg hc, (hemp c (by omega)).1]
      exact True.intro
  · -- hmax
    intro hr; cases hr
  · -- dsok
    intro c
    show (∀ sp ∈ (x2.1.chunks c).old, ∀ f, sp.file = some f → f.datasize ≤ (st.b.chunks c).size) ∧ (x2.1.chunks c).last.maxoffset ≤ (st.b.chunks c).size
    rw [hchunks]
    by_cases hc : c ≤ mx
    · rw [if_pos hc]
      unfold loadedCk
      split
      · exact ⟨fun sp hsp => (by cases hsp), Nat.zero_le _⟩
      · exact ⟨(k6 c _ (inv.dsok c)).1, Nat.zero_le _⟩
    · rw [if_neg hc]
      exact ⟨fun sp hsp => (by cases hsp), Nat.zero_le _⟩
  · -- dsfull
    intro c hne'
    have hre : (st.b.chunks c).recs ≠ [] := hne'
    have hc : c ≤ mx := by
      cases Nat.lt_or_ge mx c with
      | inl h => exact absurd (hemp c h).1 hre
      | inr h => exact h
    have hsz : (st.b.chunks c).size ≠ 0 := by
      cases hr : (st.b.chunks c).recs with
      | nil => exact absurd hr hre
      | cons p rest =>
        have := inv.pos.below c p.1 p.2 (by rw [hr]; simp)
        omega
    show (∃ sp ∈ (x2.1.chunks c).old, ∃ f, sp.file = some f ∧ f.datasize = (st.b.chunks c).size) ∨ _
    rw [hchunks, if_pos hc]
    unfold loadedCk
    rw [if_neg hsz]
    left
    exact cov.full c (by show (st.b.chunks c).size > 0; omega)
  · -- le
    intro c _
    show (x2.1.chunks c).last.items = []
    rw [hchunks]
    split
    · unfold loadedCk; split <;> rfl
    · rfl
  · -- tidle
    show isLarger (if L.isNone then x2.1.maxDumped else reTid L) x2.1.maxDumped.1 x2.1.maxDumped.2 = true
    split
    · exact isLarger_refl _
    · exact b4

end
end CollideLemmas
