/-
  GC beside clients, fine-grained model: the layout invariant of the chunks the CLIENTS own.
  `HotLay X b` is `ConcFine.ChunkInv b` with the layout `ChunkOK` demanded only of the chunks outside `X` (X = the
  chunks the GC pass owns); every client micro-step preserves it as long as writers append and flushers work outside
  `X` (`micro_hotlay`: the proof of `ConcFine.micro_layout` relativised to the complement of X).  Core-only.
-/
import GoBeans.Lemmas.ConcGCBase

namespace ConcGC
open ConcFine

structure HotLay (X : Nat → Prop) (s : ConcFine.State) : Prop where
  ok : ∀ c, ¬ X c → ChunkOK (s.chunks c) (progress s c)
  above : ∀ c, s.newHead < c → (s.chunks c).writingHead = 0
  fl : ∀ u, FlushOK s.chunks (s.thr u).pc
  slot : ∀ u, SlotOK s.chunks s.newHead (s.thr u).pc

theorem hotlay_of_chunkInv {s : ConcFine.State} (h : ChunkInv s) (X : Nat → Prop) : HotLay X s :=
  ⟨fun c _ => h.ok c, h.above, h.fl, h.slot⟩

theorem chunkInv_of_hotlay {s : ConcFine.State} (h : HotLay (fun _ => False) s) : ChunkInv s :=
  ⟨fun c => h.ok c (fun x => x), h.above, h.fl, h.slot⟩

/-- a micro-step that leaves chunks and head alone -/
theorem hot_frame {s s' : ConcFine.State} (t : Nat) {X : Nat → Prop} (hc : HotLay X s)
    (hthr : ∀ u, u ≠ t → s'.thr u = s.thr u) (hch : s'.chunks = s.chunks) (hh : s'.newHead = s.newHead)
    (hprog : ∀ c, progress s' c = progress s c)
    (hfl : FlushOK s'.chunks (s'.thr t).pc) (hsl : SlotOK s'.chunks s'.newHead (s'.thr t).pc) : HotLay X s' := by
  refine ⟨?_, ?_, ?_, ?_⟩
  · intro c hx; rw [hch, hprog]; exact hc.ok c hx
  · intro c hlt; rw [hch]; rw [hh] at hlt; exact hc.above c hlt
  · intro u
    by_cases hu : u = t
    · subst hu; exact hfl
    · rw [hthr u hu, hch]; exact hc.fl u
  · intro u
    by_cases hu : u = t
    · subst hu; exact hsl
    · rw [hthr u hu, hch, hh]; exact hc.slot u

local macro "others" : tactic =>
  `(tactic| (intro u hu; simp [ConcFine.State.goto, ConcFine.State.log, ConcFine.State.respond, ConcFine.State.readDone, ConcFine.State.setChunk, hu]))

local macro "frame_case" t:ident hc:ident hpc:ident : tactic => `(tactic| (
  refine hot_frame $t $hc (by others) rfl rfl
    (progress_same (t := $t) (by others) rfl
      (by intro c; simp [ConcFine.State.goto, ConcFine.State.log, ConcFine.State.respond, ConcFine.State.readDone, prog, $hpc:ident])) ?_
    (by simp [ConcFine.State.goto, ConcFine.State.log, ConcFine.State.respond, ConcFine.State.readDone, SlotOK])
  first
    | (simp [ConcFine.State.goto, ConcFine.State.log, ConcFine.State.respond, ConcFine.State.readDone, FlushOK]; done)
    | simp only [ConcFine.State.goto, ConcFine.State.log, ConcFine.State.respond, ConcFine.State.readDone, if_true, FlushOK]))

theorem micro_hotlay (cfg : Cfg) (s s' : ConcFine.State) (t : Nat) {X : Nat → Prop} (hl : LockInv s) (hc : HotLay X s)
    (hflx : ∀ c, flushTarget (s.thr t).pc = some c → ¬ X c)
    (h : micro cfg s t = some s') : HotLay X s' := by
  have hfo := hc.fl t
  have hso := hc.slot t
  cases hpc : (s.thr t).pc with
  | idle => simp [micro, hpc] at h
  | wLock q =>
    simp only [micro, hpc] at h
    split at h
    · obtain rfl := Option.some.inj h; frame_case t hc hpc
    · contradiction
  | wGet q =>
    simp only [micro, hpc] at h
    split at h <;> (obtain rfl := Option.some.inj h; frame_case t hc hpc)
  | wSlot q ver =>
    simp only [micro, hpc] at h
    split at h
    · rename_i hds
      split at h
      · have hs := (Option.some.inj h).symm
        have hthr : ∀ u, u ≠ t → s'.thr u = s.thr u := by subst hs; others
        have hpc' : (s'.thr t).pc = .wAppend q ver ⟨s.newHead + 1, 0⟩ := by subst hs; simp [ConcFine.State.goto]
        have hch : s'.chunks = s.chunks := by subst hs; rfl
        have hh : s'.newHead = s.newHead + 1 := by subst hs; rfl
        have hfl : s'.flushLock = s.flushLock := by subst hs; rfl
        clear hs h
        refine ⟨?_, ?_, ?_, ?_⟩
        · intro c hx
          rw [progress_same hthr hfl (by intro c; rw [hpc', hpc]; rfl), hch]
          exact hc.ok c hx
        · intro c hlt; rw [hch]; exact hc.above c (by omega)
        · intro u
          by_cases hu : u = t
          · subst hu; rw [hpc']; trivial
          · rw [hthr u hu, hch]; exact hc.fl u
        · intro u
          by_cases hu : u = t
          · subst hu; rw [hpc', hch, hh]; exact ⟨rfl, (hc.above _ (Nat.lt_succ_self _)).symm⟩
          · rw [hthr u hu]
            apply slotOK_of_not_holdsD
            cases hd : holdsD (s.thr u).pc with
            | false => rfl
            | true => have := (hl.d u).2 hd; rw [hds] at this; contradiction
      · obtain rfl := Option.some.inj h; frame_case t hc hpc
    · contradiction
  | wAppend q ver pos =>
    simp only [micro, hpc] at h
    rw [hpc] at hso
    simp only [SlotOK] at hso
    have hs := (Option.some.inj h).symm
    have hthr : ∀ u, u ≠ t → s'.thr u = s.thr u := by subst hs; others
    have hpc' : (s'.thr t).pc = .wDsUnlock q ver pos := by subst hs; simp [ConcFine.State.goto]
    have hch : s'.chunks = fun d => if d = s.newHead then
        { s.chunks s.newHead with wbuf := (s.chunks s.newHead).wbuf ++ [q.toRec ver pos.off],
                                  writingHead := (s.chunks s.newHead).writingHead + (q.toRec ver pos.off).size,
                                  size := (s.chunks s.newHead).writingHead + (q.toRec ver pos.off).size }
        else s.chunks d := by subst hs; rfl
    have hh : s'.newHead = s.newHead := by subst hs; rfl
    have hfl : s'.flushLock = s.flushLock := by subst hs; rfl
    clear hs h
    have htD : holdsD (s.thr t).pc = true := by rw [hpc]; rfl
    refine ⟨?_, ?_, ?_, ?_⟩
    · intro c hx
      rw [progress_same hthr hfl (by intro c; rw [hpc', hpc]; rfl), hch]
      by_cases hcn : c = s.newHead
      · subst hcn
        simp only [if_true]
        exact (hc.ok s.newHead hx).append (q.toRec ver pos.off) hso.2 (by simp [WReq.toRec])
      · simp only [hcn, if_false]; exact hc.ok c hx
    · intro c hlt
      rw [hh] at hlt
      have : c ≠ s.newHead := by omega
      rw [hch]; simp only [this, if_false]; exact hc.above c hlt
    · intro u
      by_cases hu : u = t
      · subst hu; rw [hpc']; trivial
      · rw [hthr u hu, hch]
        exact flushOK_append s.newHead _ _ _ (hc.fl u)
    · intro u
      by_cases hu : u = t
      · subst hu; rw [hpc']; trivial
      · rw [hthr u hu]
        exact slotOK_of_not_holdsD (not_holdsD_of_ne hl htD hu)
  | wDsUnlock q ver pos =>
    simp only [micro, hpc] at h
    obtain rfl := Option.some.inj h; frame_case t hc hpc
  | wTreeSet q ver pos =>
    simp only [micro, hpc] at h
    obtain rfl := Option.some.inj h; frame_case t hc hpc
  | wUnlock k out =>
    simp only [micro, hpc] at h
    obtain rfl := Option.some.inj h; frame_case t hc hpc
  | rGet k =>
    simp only [micro, hpc] at h
    split at h <;> (obtain rfl := Option.some.inj h; frame_case t hc hpc)
  | rBuf k it =>
    simp only [micro, hpc] at h
    split at h <;> (obtain rfl := Option.some.inj h; frame_case t hc hpc)
  | rFile k it =>
    simp only [micro, hpc] at h
    obtain rfl := Option.some.inj h; frame_case t hc hpc
  | rRet k =>
    simp only [micro, hpc] at h
    obtain rfl := Option.some.inj h; frame_case t hc hpc
  | fPre c force late =>
    simp only [micro, hpc] at h
    split at h <;> (obtain rfl := Option.some.inj h; frame_case t hc hpc)
  | fLock c force late =>
    simp only [micro, hpc] at h
    split at h
    · rename_i hfl
      obtain rfl := Option.some.inj h
      refine hot_frame t hc (by others) rfl rfl ?_ (by simp [ConcFine.State.goto, FlushOK]) (by simp [ConcFine.State.goto, SlotOK])
      intro c
      simp [progress, ConcFine.State.goto, prog, hfl]
    · contradiction
  | fDs1 c force late =>
    simp only [micro, hpc] at h
    split at h
    · split at h
      · obtain rfl := Option.some.inj h; frame_case t hc hpc
      · split at h <;> (obtain rfl := Option.some.inj h; frame_case t hc hpc)
    · contradiction
  | fOpen c =>
    simp only [micro, hpc] at h
    obtain rfl := Option.some.inj h; frame_case t hc hpc
  | fCheck c woff =>
    simp only [micro, hpc] at h
    rw [hpc] at hfo; simp only [FlushOK] at hfo
    split at h
    · obtain rfl := Option.some.inj h
      exact ⟨hc.ok, hc.above, hc.fl, hc.slot⟩
    · obtain rfl := Option.some.inj h; frame_case t hc hpc; exact hfo
  | fCount c woff =>
    simp only [micro, hpc] at h
    rw [hpc] at hfo; simp only [FlushOK] at hfo
    obtain rfl := Option.some.inj h; frame_case t hc hpc
    exact ⟨hfo, Nat.zero_le _, Nat.le_refl _⟩
  | fFetch c woff n i fl =>
    simp only [micro, hpc] at h
    rw [hpc] at hfo; simp only [FlushOK] at hfo
    split at h
    · rename_i hlt
      split at h
      · rename_i r hr
        obtain rfl := Option.some.inj h; frame_case t hc hpc
        exact ⟨hfo.1, hlt, hfo.2.2, hr⟩
      · obtain rfl := Option.some.inj h
        exact ⟨hc.ok, hc.above, hc.fl, hc.slot⟩
    · rename_i hlt
      obtain rfl := Option.some.inj h
      have hin : i = n := by omega
      subst hin
      frame_case t hc hpc
      exact hfo.2.2
  | fWrite c woff n i fl r =>
    simp only [micro, hpc] at h
    rw [hpc] at hfo; simp only [FlushOK] at hfo
    obtain ⟨hwo, hin, hnl, hget⟩ := hfo
    have hlk : s.flushLock = some t := (hl.f t).2 (by rw [hpc]; rfl)
    have htF : holdsF (s.thr t).pc = true := by rw [hpc]; rfl
    have hxc : ¬ X c := hflx c (by rw [hpc]; rfl)
    have hw := (hc.ok c hxc).write r (by rw [progress_holder hlk, hpc]; simpa [prog] using hget)
    have hs := (Option.some.inj h).symm
    have hthr : ∀ u, u ≠ t → s'.thr u = s.thr u := by subst hs; others
    have hpc' : (s'.thr t).pc = .fFetch c (woff + r.size) n (i + 1) (fl + r.size) := by subst hs; simp [ConcFine.State.goto]
    have hch : s'.chunks = fun d => if d = c then
        { s.chunks c with file := (s.chunks c).file ++ [{ r with off := (s.chunks c).fsize }],
                          fsize := (s.chunks c).fsize + r.size } else s.chunks d := by subst hs; rw [hwo]; rfl
    have hh : s'.newHead = s.newHead := by subst hs; rfl
    have hfl : s'.flushLock = some t := by subst hs; exact hlk
    clear hs h
    refine ⟨?_, ?_, ?_, ?_⟩
    · intro c0 hx0
      rw [progress_holder hfl, hpc', hch]
      by_cases hcc : c0 = c
      · subst hcc
        simp only [prog, if_true]
        have := hw.2
        rw [progress_holder hlk, hpc] at this
        simpa [prog] using this
      · have hcc' : ¬ c = c0 := fun e => hcc e.symm
        simp only [prog, hcc, hcc', if_false]
        have := hc.ok c0 hx0
        rw [progress_holder hlk, hpc] at this
        simpa [prog, hcc'] using this
    · intro c0 hlt
      rw [hh] at hlt
      have := hc.above c0 hlt
      rw [hch]
      by_cases hcc : c0 = c
      · subst hcc; simpa using this
      · simpa [hcc] using this
    · intro u
      by_cases hu : u = t
      · subst hu
        rw [hpc', hch]
        simp only [if_true, FlushOK]
        exact ⟨by omega, by omega, hnl⟩
      · rw [hthr u hu]
        exact flushOK_of_not_holdsF (not_holdsF_of_ne hl htF hu)
    · intro u
      have hsl : SlotOK s.chunks s.newHead (s'.thr u).pc := by
        by_cases hu : u = t
        · subst hu; rw [hpc']; trivial
        · rw [hthr u hu]; exact hc.slot u
      rw [hh]
      refine slotOK_congr ?_ hsl
      intro d
      rw [hch]
      by_cases hd : d = c
      · subst hd; simp
      · simp [hd]
  | fDetach c n fl =>
    simp only [micro, hpc] at h
    rw [hpc] at hfo; simp only [FlushOK] at hfo
    have hlk : s.flushLock = some t := (hl.f t).2 (by rw [hpc]; rfl)
    have htF : holdsF (s.thr t).pc = true := by rw [hpc]; rfl
    have hs := (Option.some.inj h).symm
    have hthr : ∀ u, u ≠ t → s'.thr u = s.thr u := by subst hs; others
    have hpc' : (s'.thr t).pc = .fDs2 fl := by subst hs; simp [ConcFine.State.goto]
    have hch : s'.chunks = fun d => if d = c then { s.chunks c with wbuf := (s.chunks c).wbuf.drop n } else s.chunks d := by
      subst hs; rfl
    have hh : s'.newHead = s.newHead := by subst hs; rfl
    have hfl : s'.flushLock = some t := by subst hs; exact hlk
    clear hs h
    refine ⟨?_, ?_, ?_, ?_⟩
    · intro c0 hx0
      rw [progress_holder hfl, hpc', hch]
      have := hc.ok c0 hx0
      rw [progress_holder hlk, hpc] at this
      by_cases hcc : c0 = c
      · subst hcc
        simp only [prog, if_true] at this ⊢
        exact this.detach
      · have hcc' : ¬ c = c0 := fun e => hcc e.symm
        simp only [prog, hcc, if_false]
        simpa [prog, hcc'] using this
    · intro c0 hlt
      rw [hh] at hlt
      have := hc.above c0 hlt
      rw [hch]
      by_cases hcc : c0 = c
      · subst hcc; simpa using this
      · simpa [hcc] using this
    · intro u
      by_cases hu : u = t
      · subst hu; rw [hpc']; trivial
      · rw [hthr u hu]
        exact flushOK_of_not_holdsF (not_holdsF_of_ne hl htF hu)
    · intro u
      have hsl : SlotOK s.chunks s.newHead (s'.thr u).pc := by
        by_cases hu : u = t
        · subst hu; rw [hpc']; trivial
        · rw [hthr u hu]; exact hc.slot u
      rw [hh]
      refine slotOK_congr ?_ hsl
      intro d
      rw [hch]
      by_cases hd : d = c
      · subst hd; simp
      · simp [hd]
  | fDs2 fl =>
    simp only [micro, hpc] at h
    split at h
    · obtain rfl := Option.some.inj h; frame_case t hc hpc
    · contradiction
  | fUnlock =>
    simp only [micro, hpc] at h
    obtain rfl := Option.some.inj h
    have hlk : s.flushLock = some t := (hl.f t).2 (by rw [hpc]; rfl)
    refine hot_frame t hc (by others) rfl rfl ?_ (by simp [ConcFine.State.goto, FlushOK]) (by simp [ConcFine.State.goto, SlotOK])
    intro c
    simp [progress, ConcFine.State.goto, prog, hlk, hpc]


theorem invoke_hotlay (s s' : ConcFine.State) (t : Nat) (op : Op) {X : Nat → Prop} (hc : HotLay X s) (h : invoke s t op = some s') :
    HotLay X s' := by
  unfold invoke at h
  split at h
  · rename_i hpc
    dsimp only at h
    have key : ∀ pc : PC, (∀ c, prog c pc = 0) → FlushOK s.chunks pc → SlotOK s.chunks s.newHead pc →
        HotLay X { s with thr := fun u => if u = t then { pc := pc, inv := s.clock } else s.thr u } := by
      intro pc h1 h2 h3
      refine hot_frame t hc (by intro u hu; simp [hu]) rfl rfl
        (progress_same (t := t) (by intro u hu; simp [hu]) rfl ?_) (by simpa using h2) (by simpa using h3)
      intro c; simp only [↓reduceIte]; rw [h1, hpc]; rfl
    cases op with
    | write k v sz =>
      dsimp only at h
      split at h
      · contradiction
      · obtain rfl := Option.some.inj h; exact key _ (by intro c; rfl) trivial trivial
    | delete k sz => obtain rfl := Option.some.inj h; exact key _ (by intro c; rfl) trivial trivial
    | read k => obtain rfl := Option.some.inj h; exact key _ (by intro c; rfl) trivial trivial
    | flush c force late => obtain rfl := Option.some.inj h; exact key _ (by intro c; rfl) trivial trivial
  · contradiction

theorem micro_grows_hot {cfg : Cfg} {s s' : ConcFine.State} {t : Nat} {X : Nat → Prop} (hl : LockInv s) (hc : HotLay X s)
    (hflx : ∀ c, flushTarget (s.thr t).pc = some c → ¬ X c)
    (h : micro cfg s t = some s') : Grows s.chunks s'.chunks := by
  rcases micro_chunks h with he | ⟨q, ver, pos, hpc, he⟩ | ⟨c, woff, n, i, fl, r, hpc, he⟩ | ⟨c, n, fl, hpc, he⟩
  · rw [he]; exact grows_refl _
  · rw [he]; intro c r
    unfold appendTo
    by_cases hcc : c = s.newHead
    · subst hcc
      simp only [if_true, Stored]
      refine ⟨id, ?_⟩
      rintro (h1 | h1)
      · exact Or.inl h1
      · exact Or.inr (List.mem_append_left _ h1)
    · simp only [hcc, if_false]; exact ⟨id, id⟩
  · rw [he]; intro c0 r0
    unfold writeTo
    by_cases hcc : c0 = c
    · subst hcc
      simp only [if_true, Stored]
      refine ⟨fun h1 => List.mem_append_left _ h1, ?_⟩
      rintro (h1 | h1)
      · exact Or.inl (List.mem_append_left _ h1)
      · exact Or.inr h1
    · simp only [hcc, if_false]; exact ⟨id, id⟩
  · rw [he]; intro c0 r0
    unfold detachFrom
    by_cases hcc : c0 = c
    · subst hcc
      simp only [if_true]
      refine ⟨id, ?_⟩
      intro h1
      have hlk : s.flushLock = some t := (hl.f t).2 (by rw [hpc]; rfl)
      have hok := hc.ok c0 (hflx c0 (by rw [hpc]; rfl))
      rw [progress_holder hlk, hpc] at hok
      simp only [prog, if_true] at hok
      exact hok.detach_stored r0 h1
    · simp only [hcc, if_false]; exact ⟨id, id⟩

/-- the only record a micro-step can add to what is stored is the one `dataChunk.AppendRecord` appends -/
theorem micro_stored_new_hot {cfg : Cfg} {s s' : ConcFine.State} {t : Nat} {X : Nat → Prop} (hl : LockInv s) (hc : HotLay X s)
    (hflx : ∀ c, flushTarget (s.thr t).pc = some c → ¬ X c)
    (h : micro cfg s t = some s') (c : Nat) (r : Rec) (hr : Stored (s'.chunks c) r) :
    Stored (s.chunks c) r ∨ ∃ q ver pos, (s.thr t).pc = .wAppend q ver pos ∧ r = q.toRec ver pos.off := by
  rcases micro_chunks h with he | ⟨q, ver, pos, hpc, he⟩ | ⟨c1, woff, n, i, fl, r1, hpc, he⟩ | ⟨c1, n, fl, hpc, he⟩
  · rw [he] at hr; exact Or.inl hr
  · rw [he] at hr
    unfold appendTo at hr
    by_cases hcc : c = s.newHead
    · subst hcc
      simp only [if_true, Stored] at hr
      rcases hr with h1 | h1
      · exact Or.inl (Or.inl h1)
      · rcases List.mem_append.mp h1 with h1 | h1
        · exact Or.inl (Or.inr h1)
        · right; exact ⟨q, ver, pos, hpc, by simpa using h1⟩
    · simp only [hcc, if_false] at hr; exact Or.inl hr
  · rw [he] at hr
    unfold writeTo at hr
    left
    by_cases hcc : c = c1
    · subst hcc
      simp only [if_true, Stored] at hr
      rcases hr with h1 | h1
      · rcases List.mem_append.mp h1 with h1 | h1
        · exact Or.inl h1
        · -- the record written is buffered record number i
          have hlk : s.flushLock = some t := (hl.f t).2 (by rw [hpc]; rfl)
          have hfo := hc.fl t
          rw [hpc] at hfo
          simp only [FlushOK] at hfo
          have hok := hc.ok c (hflx c (by rw [hpc]; rfl))
          rw [progress_holder hlk, hpc] at hok
          simp only [prog, if_true] at hok
          have hw := (hok.write r1 hfo.2.2.2).1
          have : r = r1 := by
            have : r = { r1 with off := woff } := by simpa using h1
            rw [this, hfo.1, ← hw]
          rw [this]
          exact Or.inr (List.mem_of_getElem? hfo.2.2.2)
      · exact Or.inr h1
    · simp only [hcc, if_false] at hr; exact hr
  · rw [he] at hr
    unfold detachFrom at hr
    left
    by_cases hcc : c = c1
    · subst hcc
      simp only [if_true, Stored] at hr
      rcases hr with h1 | h1
      · exact Or.inl h1
      · exact Or.inr (List.mem_of_mem_drop h1)
    · simp only [hcc, if_false] at hr; exact hr

end ConcGC
