/-
  GC beside clients: the start of the pass establishes the GC invariant, provided the monitor does not fire (every
  file of the range is flushed and no flusher is at work on one).  Core-only.
-/
import GoBeans.Lemmas.ConcGCStep

namespace ConcGC
open ConcFine

theorem prog_target {c : Nat} {pc : PC} (h : prog c pc ≠ 0) : flushTarget pc = some c := by
  cases pc <;> simp_all [prog, flushTarget]

theorem holdsF_of_target {pc : PC} {c : Nat} (h : flushTarget pc = some c) : holdsF pc = true := by
  cases pc <;> simp_all [flushTarget, holdsF]

theorem sinv_gcStart {cfg : GCfg} {s s' : State} {b e : Nat} (hi : SInv s) (hz : noHaz s')
    (h : gcStart cfg s b e = some s') : SInv s' := by
  unfold gcStart at h
  split at h
  · contradiction
  · rename_i hcond
    have hns : s.gc.started = false := by
      cases hs : s.gc.started with
      | false => rfl
      | true => exact absurd (Or.inl hs) hcond
    have hbe : b ≤ e ∧ e < s.base.newHead := by
      have : ¬ ¬ (b ≤ e ∧ e < s.base.newHead) := fun hh => hcond (Or.inr hh)
      omega
    have hs := (Option.some.inj h).symm
    clear h hcond
    have hgc : s'.gc = { pc := .gBegin, started := true, gbegin := b, gend := e, src := b,
                         dst := pickDst cfg s.base.chunks b } := by subst hs; rfl
    have hbase : s'.base = s.base := by subst hs; rfl
    have hhaz := hz.1
    rw [hs] at hhaz
    simp only [Bool.or_eq_false_iff] at hhaz
    obtain ⟨⟨_, hz1⟩, hz2⟩ := hhaz
    clear hs
    have hXs : ∀ c, ¬ X s c := by intro c hx; rw [X_iff, hns] at hx; exact absurd hx.1 (by simp)
    have hX' : ∀ c, X s' c ↔ c ≤ e := by intro c; rw [X_iff, hgc]; simp
    -- no buffered record in the range
    have hnb : ∀ c, c ≤ e → (s.base.chunks c).wbuf = [] := by
      intro c hc
      rw [List.any_eq_false] at hz1
      have := hz1 c (List.mem_range.mpr (by omega))
      simpa using this
    -- no flusher at work in the range
    have hft : ∀ u c, flushTarget (s.base.thr u).pc = some c → ¬ c ≤ e := by
      intro u c hf hle
      have hlk := (hi.lock.f u).2 (holdsF_of_target hf)
      rw [hlk] at hz2
      simp only [hf, decide_eq_false_iff_not] at hz2
      exact hz2 hle
    have hprog : ∀ c, c ≤ e → progress s.base c = 0 := by
      intro c hle
      unfold progress
      cases hl : s.base.flushLock with
      | none => rfl
      | some u =>
        simp only
        cases hp : prog c (s.base.thr u).pc with
        | zero => rfl
        | succ n => exact absurd hle (hft u c (prog_target (by rw [hp]; simp)))
    have hpd := pickDst_le cfg s.base.chunks b
    refine ⟨by rw [hbase]; exact hi.lock, ?_, ?_, ?_, ?_, ?_⟩
    · rw [hbase]; exact hotlay_mono hi.hot (fun c hx => absurd hx (hXs c))
    · refine ⟨?_, ?_, ?_, ?_, ?_, ?_, ?_, ?_⟩ <;> rw [hgc] <;> simp [procPC, hbase]
      · exact hbe
      · exact Or.inr hpd
      · omega
    · refine ⟨?_, ?_, ?_, ?_, ?_, ?_, ?_, ?_⟩
      · intro c hx
        rw [hX'] at hx
        rw [hbase]
        have hok := hi.hot.ok c (hXs c)
        rw [hprog c hx] at hok
        have := ColdOK.sizes hok (hnb c hx)
        exact ⟨coldOK_of_ok hok (hnb c hx), by omega⟩
      · intro c hx _
        rw [hX'] at hx
        rw [hbase, hgc]
        have hok := hi.hot.ok c (hXs c)
        rw [hprog c hx] at hok
        have := ColdOK.sizes hok (hnb c hx)
        simp only [pendC]; omega
      · rw [hgc]; simp
      · intro c hd
        obtain ⟨_, d2, d3⟩ := hd
        rw [hgc] at d2 d3
        simp only at d2 d3
        rcases d3 with d3 | ⟨_, d4⟩
        · omega
        · simp at d4
      · rw [hgc]; simp [openPC]
      · rw [hgc]; simp [curOff]
      · rw [hgc]; simp [rem]
      · rw [hgc]; simp
    · refine ⟨?_, ?_⟩ <;> rw [hgc] <;> simp [procPC, curNotFound]
    · refine ⟨?_, ?_, ?_, ?_, ?_⟩
      · rw [hbase]; exact hi.data.recs
      · rw [hbase]; exact hi.data.tree
      · rw [hbase]; exact hi.data.wr
      · rw [hbase]; exact hi.data.wpos
      · intro u c hf
        rw [hbase] at hf
        rw [hX']
        exact hft u c hf

end ConcGC
