/-
  GC beside clients: the monitors are monotone; the structural invariant holds after every schedule in which no
  monitor has fired.  Core-only.
-/
import GoBeans.Lemmas.ConcGCStart

namespace ConcGC
open ConcFine

/-- `a` fired ⇒ `b` fired, for the three monitors -/
def HazLe (s s' : State) : Prop :=
  (s.hazCold = true → s'.hazCold = true) ∧ (s.hazInplace = true → s'.hazInplace = true) ∧
  (s.hazReuse = true → s'.hazReuse = true)

theorem hazLe_refl (s : State) : HazLe s s := ⟨id, id, id⟩

theorem gmicro_hazLe {cfg : GCfg} {s s' : State} (h : gmicro cfg s = some s') : HazLe s s' := by
  gmicro_split h
  all_goals first
    | exact ⟨id, id, id⟩
    | (simp only [afterCheck]; split <;> exact ⟨id, id, id⟩)
    | (simp only [endW]; split <;> exact ⟨id, id, id⟩)
    | (simp only [beginW]; split <;> refine ⟨id, ?_, ?_⟩ <;> simp [State.setChunk] <;> (try (intro hh; simp [hh])))

theorem cmicro_hazLe {cfg : GCfg} {s s' : State} {t : Nat} (h : cmicro cfg s t = some s') : HazLe s s' := by
  unfold cmicro at h
  have hl : ∀ ob, liftBase s ob = some s' → HazLe s s' := by
    intro ob hh; obtain ⟨b', _, rfl⟩ := liftBase_some hh; exact hazLe_refl _
  have hr : HazLe s (readFail s t) := ⟨id, id, id⟩
  cases hpc : (s.base.thr t).pc with
  | rBuf k it =>
    simp only [hpc] at h
    repeat' (split at h)
    all_goals first
      | exact hl _ h
      | (obtain rfl := Option.some.inj h; exact hr)
  | rFile k it =>
    simp only [hpc] at h
    repeat' (split at h)
    all_goals first
      | exact hl _ h
      | (obtain rfl := Option.some.inj h; exact hr)
  | fDs1 c f l =>
    simp only [hpc] at h
    split at h
    · obtain rfl := Option.some.inj h
      exact ⟨fun hh => by simp [hh], id, id⟩
    · contradiction
  | _ => simp only [hpc] at h; exact hl _ h

theorem step_hazLe {cfg : GCfg} {s s' : State} {t : Nat} {a : Act} (h : step cfg s t a = some s') : HazLe s s' := by
  unfold step at h
  split at h
  · contradiction
  · cases a with
    | call op =>
      simp only [Option.map_eq_some_iff] at h
      obtain ⟨s1, h1, rfl⟩ := h
      obtain ⟨b', _, rfl⟩ := liftBase_some h1
      exact hazLe_refl _
    | go =>
      simp only [Option.map_eq_some_iff] at h
      obtain ⟨s1, h1, rfl⟩ := h
      exact (cmicro_hazLe h1 : HazLe s s1)
    | gcStart b e =>
      simp only [Option.map_eq_some_iff] at h
      obtain ⟨s1, h1, rfl⟩ := h
      unfold gcStart at h1
      split at h1
      · contradiction
      · obtain rfl := Option.some.inj h1
        exact ⟨fun hh => by simp [State.tick, hh], id, id⟩
    | gcGo =>
      simp only [Option.map_eq_some_iff] at h
      obtain ⟨s1, h1, rfl⟩ := h
      exact (gmicro_hazLe h1 : HazLe s s1)
    | gcCancel => obtain rfl := Option.some.inj h; exact hazLe_refl _

theorem noHaz_back {s s' : State} (h : HazLe s s') (hz : noHaz s') : noHaz s := by
  obtain ⟨h1, h2, h3⟩ := h
  obtain ⟨z1, z2, z3⟩ := hz
  refine ⟨?_, ?_, ?_⟩
  · cases hh : s.hazCold with
    | false => rfl
    | true => rw [h1 hh] at z1; contradiction
  · cases hh : s.hazInplace with
    | false => rfl
    | true => rw [h2 hh] at z2; contradiction
  · cases hh : s.hazReuse with
    | false => rfl
    | true => rw [h3 hh] at z3; contradiction

theorem exec_hazLe (cfg : GCfg) (sched : List (Nat × Act)) : ∀ s, HazLe s (exec cfg s sched) := by
  induction sched with
  | nil => intro s; exact hazLe_refl s
  | cons d rest ih =>
    intro s
    obtain ⟨t, a⟩ := d
    simp only [exec]
    cases hst : step cfg s t a with
    | none => exact ih s
    | some s1 =>
      have h1 := step_hazLe hst
      have h2 := ih s1
      exact ⟨fun hh => h2.1 (h1.1 hh), fun hh => h2.2.1 (h1.2.1 hh), fun hh => h2.2.2 (h1.2.2 hh)⟩

end ConcGC
