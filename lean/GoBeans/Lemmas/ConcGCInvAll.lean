/-
  GC beside clients: the full invariant `Inv` and its preservation by every scheduler decision, as long as no monitor
  fires and the repoint is the conditional one.  Core-only.
-/
import GoBeans.Lemmas.ConcGCHistAll

namespace ConcGC
open ConcFine
open Conc (AOp Out Ev Reg regStep)

/-- the two ways a client micro-step can go: a get fails, or `ConcFine.micro` is taken (a reader's last step only
    when the read succeeds with the right key) -/
theorem cmicro_cases {cfg : GCfg} {s s' : State} {t : Nat} (h : cmicro cfg s t = some s') :
    (((∃ k it, (s.base.thr t).pc = .rBuf k it) ∨ ∃ k it, (s.base.thr t).pc = .rFile k it) ∧ s' = readFail s t) ∨
    (∃ b' hz, micro cfg.fine s.base t = some b' ∧ s' = { s with base := b', hazCold := hz } ∧
      (∀ k it, (s.base.thr t).pc = .rBuf k it →
        bufLookup (s.base.chunks it.pos.chunk) it.pos.off ≠ .err ∧
        ∀ r, bufLookup (s.base.chunks it.pos.chunk) it.pos.off = .found r → r.key = k) ∧
      (∀ k it, (s.base.thr t).pc = .rFile k it →
        ∃ r, fileLookup (s.base.chunks it.pos.chunk) it.pos.off = some r ∧ r.key = k)) := by
  unfold cmicro at h
  have hl : ∀ {ob}, liftBase s ob = some s' → ∃ b', ob = some b' ∧ s' = { s with base := b', hazCold := s.hazCold } := by
    intro ob hh; obtain ⟨b', h1, rfl⟩ := liftBase_some hh; exact ⟨b', h1, rfl⟩
  cases hpc : (s.base.thr t).pc with
  | rBuf k it =>
    simp only [hpc] at h
    split at h
    · rename_i r hf
      split at h
      · rename_i hk
        obtain ⟨b', h1, h2⟩ := hl h
        right
        refine ⟨b', _, h1, h2, ?_, ?_⟩
        · intro k' it' he
          obtain ⟨rfl, rfl⟩ := PC.rBuf.inj he
          rw [hf]
          refine ⟨by simp, ?_⟩
          intro r' hr'; obtain rfl := BufRes.found.inj hr'; exact hk
        · intro k' it' he; cases he
      · obtain rfl := Option.some.inj h; left; exact ⟨Or.inl ⟨k, it, rfl⟩, rfl⟩
    · obtain rfl := Option.some.inj h; left; exact ⟨Or.inl ⟨k, it, rfl⟩, rfl⟩
    · rename_i hf
      obtain ⟨b', h1, h2⟩ := hl h
      right
      refine ⟨b', _, h1, h2, ?_, ?_⟩
      · intro k' it' he
        obtain ⟨rfl, rfl⟩ := PC.rBuf.inj he
        rw [hf]
        exact ⟨by simp, by intro r' hr'; cases hr'⟩
      · intro k' it' he; cases he
  | rFile k it =>
    simp only [hpc] at h
    split at h
    · rename_i r hf
      split at h
      · rename_i hk
        obtain ⟨b', h1, h2⟩ := hl h
        right
        refine ⟨b', _, h1, h2, ?_, ?_⟩
        · intro k' it' he; cases he
        · intro k' it' he
          obtain ⟨rfl, rfl⟩ := PC.rFile.inj he
          exact ⟨r, hf, hk⟩
      · obtain rfl := Option.some.inj h; left; exact ⟨Or.inr ⟨k, it, rfl⟩, rfl⟩
    · obtain rfl := Option.some.inj h; left; exact ⟨Or.inr ⟨k, it, rfl⟩, rfl⟩
  | fDs1 c f l =>
    simp only [hpc] at h
    split at h
    · rename_i b hb
      obtain rfl := Option.some.inj h
      right
      refine ⟨b, _, hb, rfl, ?_, ?_⟩ <;> (intro k' it' he; cases he)
    · contradiction
  | _ =>
    simp only [hpc] at h
    obtain ⟨b', h1, h2⟩ := hl h
    right
    refine ⟨b', _, h1, h2, ?_, ?_⟩ <;> (intro k' it' he; cases he)

/-- the flusher never dies, a get taken through `micro` never fails (`ConcFine.micro_noerr`, for the chunks outside
    the GC range) -/
theorem micro_noerr' (cfg : Cfg) (s : State) (b' : ConcFine.State) (t : Nat) (hI : SInv s)
    (hf : s.base.fatal = false) (he : s.base.readErr = false) (h : micro cfg s.base t = some b')
    (hrb : ∀ k it, (s.base.thr t).pc = .rBuf k it →
      bufLookup (s.base.chunks it.pos.chunk) it.pos.off ≠ .err ∧
      ∀ r, bufLookup (s.base.chunks it.pos.chunk) it.pos.off = .found r → r.key = k)
    (hrf : ∀ k it, (s.base.thr t).pc = .rFile k it →
      ∃ r, fileLookup (s.base.chunks it.pos.chunk) it.pos.off = some r ∧ r.key = k) :
    b'.fatal = false ∧ b'.readErr = false := by
  have hfo := hI.hot.fl t
  cases hpc : (s.base.thr t).pc with
  | fCheck c woff =>
    simp only [micro, hpc] at h
    rw [hpc] at hfo; simp only [FlushOK] at hfo
    have hlk : s.base.flushLock = some t := (hI.lock.f t).2 (by rw [hpc]; rfl)
    have hok := hI.hot.ok c (hI.data.fltg t c (by rw [hpc]; rfl))
    rw [progress_holder hlk, hpc] at hok
    have hdisk := ChunkOK.disk (by simpa [prog] using hok)
    split at h
    · rename_i hne; exact absurd (hfo.trans hdisk.symm) hne
    · obtain rfl := Option.some.inj h; exact ⟨hf, he⟩
  | fFetch c woff n i fl =>
    simp only [micro, hpc] at h
    rw [hpc] at hfo; simp only [FlushOK] at hfo
    split at h
    · rename_i hlt
      split at h
      · obtain rfl := Option.some.inj h; exact ⟨hf, he⟩
      · rename_i hnone
        rw [List.getElem?_eq_none_iff] at hnone
        omega
    · obtain rfl := Option.some.inj h; exact ⟨hf, he⟩
  | rBuf k it =>
    have hrb := hrb k it hpc
    simp only [micro, hpc] at h
    split at h
    · rename_i r' hfound
      obtain rfl := Option.some.inj h
      have := hrb.2 r' hfound
      simp [ConcFine.State.readDone, ConcFine.State.goto, ConcFine.State.respond, readBad, hf, he, this]
    · rename_i herr; exact absurd herr hrb.1
    · obtain rfl := Option.some.inj h; exact ⟨hf, he⟩
  | rFile k it =>
    obtain ⟨r0, h0, hk0⟩ := hrf k it hpc
    simp only [micro, hpc] at h
    obtain rfl := Option.some.inj h
    simp [ConcFine.State.readDone, ConcFine.State.goto, ConcFine.State.respond, readBad, hf, he, h0, hk0]
  | _ =>
    simp only [micro, hpc] at h
    repeat' (split at h)
    all_goals (try contradiction)
    all_goals (obtain rfl := Option.some.inj h; exact ⟨hf, he⟩)

structure Inv (s : State) : Prop where
  sinv : SInv s
  hist : HInv s
  alive : s.base.fatal = false
  noerr : s.base.readErr = false

/-- the structural invariant does not look at the monitors and counters -/
theorem sinv_congr {s : State} (hi : SInv s) (f : Nat) (h1 h2 h3 : Bool) :
    SInv { s with fails := f, hazCold := h1, hazInplace := h2, hazReuse := h3 } :=
  ⟨hi.lock, ⟨hi.hot.ok, hi.hot.above, hi.hot.fl, hi.hot.slot⟩, ⟨hi.ctl.idle, hi.ctl.busy, hi.ctl.rng, hi.ctl.norew,
    hi.ctl.dst, hi.ctl.src, hi.ctl.srcp, hi.ctl.notail⟩,
   ⟨hi.chk.cold, hi.chk.whf, hi.chk.clr, hi.chk.dead, hi.chk.wop, hi.chk.off, hi.chk.remIn, hi.chk.mv⟩,
   ⟨hi.tr.g2, hi.tr.nf⟩,
   ⟨hi.data.recs, hi.data.tree, hi.data.wr, hi.data.wpos, hi.data.fltg⟩⟩

theorem inv_cmicro {cfg : GCfg} {s s' : State} {t : Nat} (hi : Inv s) (hz : noHaz s') (h : cmicro cfg s t = some s') :
    Inv s'.tick := by
  have hS := sinv_cmicro hi.sinv hz h
  rcases cmicro_cases h with ⟨hpc, rfl⟩ | ⟨b', hzv, hm, rfl, hrb, hrf⟩
  · exact ⟨sinv_tick hS, hinv_readFail hi.hist hpc, hi.alive, hi.noerr⟩
  · have hS0 : SInv { s with base := b' } := sinv_congr hS s.fails s.hazCold s.hazInplace s.hazReuse
    have hH := micro_hinv cfg.fine s b' t hi.sinv hS0 hi.hist hm hrb hrf
    have hne := micro_noerr' cfg.fine s b' t hi.sinv hi.alive hi.noerr hm hrb hrf
    exact ⟨sinv_tick hS, hH, hne.1, hne.2⟩

theorem hinv_gc_only {s s' : State} (hi : HInv s) (hb : s'.base = s.base)
    (hd : ∀ c, Dead s c → Dead s' c) : HInv s'.tick := by
  have hp : ∀ pc o, Pend s pc o → Pend s' pc o := by
    intro pc o hp
    rcases hp with hp | ⟨c, h1, h2, h3⟩
    · left; rw [hb]; exact hp
    · right; exact ⟨c, h1, hd c h2, h3⟩
  refine hist_sameP (P := Pend s) (P' := Pend s') 0 hi (by rw [hb]) (by rw [hb]) (fun u _ => by rw [hb]) ?_
    (fun u _ o h => hp _ o h) (fun k => by rw [hb]) ?_
  · intro hne
    rw [hb] at hne ⊢
    have := hi.inv 0 hne; omega
  · intro o h; rw [hb]; exact hp _ o h

theorem inv_step {cfg : GCfg} {s s' : State} {t : Nat} {a : Act} (hb : cfg.blind = false) (hi : Inv s) (hz : noHaz s')
    (h : step cfg s t a = some s') : Inv s' := by
  unfold step at h
  split at h
  · contradiction
  · cases a with
    | call op =>
      simp only [Option.map_eq_some_iff] at h
      obtain ⟨s1, h1, rfl⟩ := h
      obtain ⟨b', h2, rfl⟩ := liftBase_some h1
      have hne : b'.fatal = s.base.fatal ∧ b'.readErr = s.base.readErr := by
        obtain ⟨pc, he, _⟩ := invoke_eq h2
        rw [he]; exact ⟨rfl, rfl⟩
      exact ⟨sinv_tick (sinv_invoke hi.sinv h2), hinv_invoke hi.hist h2, hne.1.trans hi.alive, hne.2.trans hi.noerr⟩
    | go =>
      simp only [Option.map_eq_some_iff] at h
      obtain ⟨s1, h1, rfl⟩ := h
      have hz1 : noHaz s1 := hz
      exact inv_cmicro hi hz1 h1
    | gcStart b e =>
      simp only [Option.map_eq_some_iff] at h
      obtain ⟨s1, h1, rfl⟩ := h
      have hz1 : noHaz s1 := hz
      have hS := sinv_gcStart hi.sinv hz1 h1
      have hb1 : s1.base = s.base := by
        unfold gcStart at h1
        split at h1
        · contradiction
        · obtain rfl := Option.some.inj h1; rfl
      have hns : s.gc.started = false := by
        unfold gcStart at h1
        split at h1
        · contradiction
        · rename_i hc
          cases hs : s.gc.started with
          | false => rfl
          | true => exact absurd (Or.inl hs) hc
      refine ⟨sinv_tick hS, hinv_gc_only hi.hist hb1 ?_, ?_, ?_⟩
      · intro c hd; rw [hd.1] at hns; contradiction
      · show s1.base.fatal = false; rw [hb1]; exact hi.alive
      · show s1.base.readErr = false; rw [hb1]; exact hi.noerr
    | gcGo =>
      simp only [Option.map_eq_some_iff] at h
      obtain ⟨s1, h1, rfl⟩ := h
      have hz1 : noHaz s1 := hz
      have hS := sinv_gmicro hb hi.sinv hz1 h1
      obtain ⟨_, _, _, _, _, _, _, t8, t9⟩ := gmicro_thr h1
      exact ⟨sinv_tick hS, hinv_gmicro hb hi.sinv hS hi.hist hz1 h1, t8.trans hi.alive, t9.trans hi.noerr⟩
    | gcCancel =>
      obtain rfl := Option.some.inj h
      exact ⟨sinv_tick (sinv_cancel hi.sinv), hinv_gc_only hi.hist rfl (fun c hd => hd), hi.alive, hi.noerr⟩

end ConcGC
