/-
  Version arithmetic: the regenerated `Gen.checkAndUpdateVerison` (Int32, wrap-around) equals the
  documented rule `Spec.nextVersion` (Int) as long as versions stay inside int32.
-/
import GoBeans.Model.Store
set_option linter.unusedSimpArgs false
namespace StoreLemmas
open Store

theorem bmod_lit (x : Int) (h1 : -2147483648 ≤ x) (h2 : x < 2147483648) : x.bmod 4294967296 = x := by
  rw [Int.bmod_def]
  split <;> omega

theorem bmod_small (x : Int) (h1 : -2147483648 ≤ x) (h2 : x < 2147483648) : x.bmod (2^32) = x := bmod_lit x h1 h2

theorem toInt_ofInt_small (x : Int) (h1 : -2147483648 ≤ x) (h2 : x < 2147483648) : (Int32.ofInt x).toInt = x :=
  Int32.toInt_ofInt_of_le (by simpa using h1) (by simpa using h2)

theorem gen_abs (a : Int32) (h : -2147483648 < a.toInt) : (Gen.abs a).toInt = a.toInt.natAbs := by
  unfold Gen.abs
  simp only [Id.run, pure, bind]
  have hlt := a.toInt_lt
  by_cases hn : a < 0
  · have : a.toInt < 0 := by rw [Int32.lt_iff_toInt_lt] at hn; simpa using hn
    simp [hn, Int32.toInt_neg]
    rw [bmod_small _ (by omega) (by omega)]; omega
  · have : ¬ a.toInt < 0 := by rw [Int32.lt_iff_toInt_lt] at hn; simpa using hn
    simp [hn]; omega

theorem nextVer_eq (oldv rev : Int) (ho : oldv.natAbs < 2147483647) (hr1 : -2147483648 < rev) (hr2 : rev < 2147483648) :
    nextVer oldv rev = Spec.nextVersion oldv rev := by
  unfold nextVer Spec.nextVersion Gen.checkAndUpdateVerison
  have ha : (Int32.ofInt oldv).toInt = oldv := toInt_ofInt_small _ (by omega) (by omega)
  have hb : (Int32.ofInt rev).toInt = rev := toInt_ofInt_small _ (by omega) (by omega)
  generalize Int32.ofInt oldv = a at ha
  generalize Int32.ofInt rev = b at hb
  subst ha; subst hb
  have habs : (Gen.abs a).toInt = a.toInt.natAbs := gen_abs a (by omega)
  have hbabs : (Gen.abs b).toInt = b.toInt.natAbs := gen_abs b (by omega)
  simp only [Id.run, pure, bind]
  by_cases h0 : b = 0
  · subst h0
    simp
    by_cases hge : a ≥ 0
    · have : 0 ≤ a.toInt := by rw [ge_iff_le, Int32.le_iff_toInt_le] at hge; simpa using hge
      simp [hge, Int32.toInt_add]
      rw [bmod_small _ (by omega) (by omega)]; omega
    · have : a.toInt < 0 := by rw [ge_iff_le, Int32.le_iff_toInt_le] at hge; simp at hge; omega
      simp [hge, Int32.toInt_add, Int32.toInt_neg]
      rw [bmod_lit _ (by omega) (by omega)]; omega
  · have hb0 : b.toInt ≠ 0 := fun h => h0 (Int32.toInt_inj.mp (by simpa using h))
    have hbne : (b == 0) = false := by simpa using h0
    by_cases hneg : b < 0
    · have hbl : b.toInt < 0 := by rw [Int32.lt_iff_toInt_lt] at hneg; simpa using hneg
      simp [h0, hneg, hb0, hbl, Int32.toInt_sub, Int32.toInt_neg, habs]
      rw [bmod_lit _ (by omega) (by omega)]
    · have hbl : ¬ b.toInt < 0 := by rw [Int32.lt_iff_toInt_lt] at hneg; simpa using hneg
      by_cases hle : Gen.abs b ≤ Gen.abs a
      · have hle' : b.toInt.natAbs ≤ a.toInt.natAbs := by
          rw [Int32.le_iff_toInt_le, habs, hbabs] at hle; omega
        simp [h0, hneg, hb0, hbl, hle, hle']
      · have hle' : ¬ b.toInt.natAbs ≤ a.toInt.natAbs := by
          rw [Int32.le_iff_toInt_le, habs, hbabs] at hle; omega
        simp [h0, hneg, hb0, hbl, hle, hle']
end StoreLemmas
