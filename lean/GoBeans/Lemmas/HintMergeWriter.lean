/- C14 hint merge, part 2: what `mergeWriter` (store/hintmerge.go) makes of a stream of items.
   * for ANY stream the written items are "the last of every run of equal (khash, key)" (`dedupLast`);
   * for a stream in the order of `mergeHeap.Less` the reported collisions are exactly the written items whose
     key hash occurs more than once among the written items (`grp`), and the written items are strictly sorted
     by (khash, key) and hold, for every (khash, key) of the stream, an item of the greatest position.
   Core-only. -/
import GoBeans.Lemmas.HintMergeOrder
set_option linter.unusedSimpArgs false
set_option linter.unusedVariables false
namespace HintMergeLemmas
open Hint HintMerge

/-- the writer fed with a stream, then the final `mw.flush()` -/
def fin (w : Writer) (l : List Item) : Writer := flush (l.foldl write w)

theorem fin_cons (w : Writer) (it : Item) (l : List Item) : fin w (it :: l) = fin (write w it) l := rfl

/-- keep the last of every run of equal (khash, key) -/
def dedupLast : List Item → List Item
  | [] => []
  | [x] => [x]
  | x :: y :: t => if x.khash = y.khash ∧ x.key = y.key then dedupLast (y :: t) else x :: dedupLast (y :: t)

/-! ### written items, any stream -/

/-- `write` decides by `buf[num-1]` only: what is below it in the buffer is carried along and written first -/
theorem fin_out_gen (l : List Item) : ∀ (w : Writer) (last : Item) (tl : List Item), w.bufRev = last :: tl →
    (fin w l).out = w.out ++ tl.reverse ++ (fin { bufRev := [last] } l).out := by
  induction l with
  | nil => intro w last tl h; simp [fin, flush, h]
  | cons it l ih =>
    intro w last tl h
    rw [fin_cons, fin_cons]
    by_cases h1 : last.khash = it.khash
    · by_cases h2 : last.key = it.key
      · have e1 : write w it = { w with bufRev := it :: tl } := by simp [write, h, h1, h2]
        have e2 : write { bufRev := [last] } it = { bufRev := [it] } := by simp [write, h1, h2]
        rw [e1, e2, ih _ it tl rfl]
      · have e1 : write w it = { w with bufRev := it :: last :: tl } := by simp [write, h, h1, h2]
        have e2 : write { bufRev := [last] } it = { bufRev := [it, last] } := by simp [write, h1, h2]
        rw [e1, e2, ih _ it (last :: tl) rfl, ih { bufRev := [it, last] } it [last] rfl]
        simp
    · have e1 : write w it = { flush w with bufRev := [it] } := by simp [write, h, h1]
      have e2 : write { bufRev := [last] } it = { flush { bufRev := [last] } with bufRev := [it] } := by
        simp [write, h1]
      rw [e1, e2, ih _ it [] rfl, ih { flush { bufRev := [last] } with bufRev := [it] } it [] rfl]
      simp [flush, h]

theorem fin_one (l : List Item) : ∀ x : Item, (fin { bufRev := [x] } l).out = dedupLast (x :: l) := by
  induction l with
  | nil => intro x; simp [fin, flush, dedupLast]
  | cons y t ih =>
    intro x
    rw [fin_cons]
    by_cases h1 : x.khash = y.khash
    · by_cases h2 : x.key = y.key
      · have e2 : write { bufRev := [x] } y = { bufRev := [y] } := by simp [write, h1, h2]
        rw [e2, ih y]; simp [dedupLast, h1, h2]
      · have e2 : write { bufRev := [x] } y = { bufRev := [y, x] } := by simp [write, h1, h2]
        rw [e2, fin_out_gen t _ y [x] rfl, ih y]; simp [dedupLast, h1, h2]
    · have e2 : write { bufRev := [x] } y = { flush { bufRev := [x] } with bufRev := [y] } := by
        simp [write, h1]
      rw [e2, fin_out_gen t _ y [] rfl, ih y]; simp [dedupLast, h1, flush]

/-- the items written for a stream: the last of every run of equal (khash, key) -/
theorem fin_out (l : List Item) : (fin {} l).out = dedupLast l := by
  cases l with
  | nil => simp [fin, flush, dedupLast]
  | cons x l =>
    rw [fin_cons]
    have : write {} x = { bufRev := [x] } := by simp [write]
    rw [this, fin_one]

/-! ### reported collisions, stream in `Less` order -/

/-- the items whose key hash occurs more than once in the list (the expression of `Hint.merge`) -/
def grp (out : List Item) : List Item :=
  out.filter (fun it => decide ((out.filter (fun o => decide (o.khash = it.khash))).length > 1))

theorem grp_append (out buf : List Item) (hb : ∀ x ∈ out, ∀ y ∈ buf, x.khash < y.khash)
    (hs : ∀ x ∈ buf, ∀ y ∈ buf, x.khash = y.khash) :
    grp (out ++ buf) = grp out ++ (if buf.length > 1 then buf else []) := by
  unfold grp
  rw [List.filter_append]
  congr 1
  · apply List.filter_congr
    intro x hx
    rw [List.filter_append]
    have : buf.filter (fun o => decide (o.khash = x.khash)) = [] := by
      rw [List.filter_eq_nil_iff]; intro y hy; have := hb x hx y hy; simp; omega
    rw [this, List.append_nil]
  · have e : buf.filter (fun it => decide ((List.filter (fun o => decide (o.khash = it.khash)) (out ++ buf)).length > 1))
        = buf.filter (fun _ => decide (buf.length > 1)) := by
      apply List.filter_congr
      intro x hx
      rw [List.filter_append]
      have h1 : out.filter (fun o => decide (o.khash = x.khash)) = [] := by
        rw [List.filter_eq_nil_iff]; intro y hy; have := hb y hy x hx; simp; omega
      have h2 : buf.filter (fun o => decide (o.khash = x.khash)) = buf := by
        rw [List.filter_eq_self]; intro y hy; simp [hs y hy x hx]
      rw [h1, h2, List.nil_append]
    rw [e]
    by_cases hl : buf.length > 1
    · simp [hl]
    · simp [hl]

/-- invariant of the writer while it is fed in `Less` order -/
structure J (w : Writer) : Prop where
  empty : w.bufRev = [] → w.out = []
  same : ∀ x ∈ w.bufRev, ∀ y ∈ w.bufRev, x.khash = y.khash
  below : ∀ x ∈ w.out, ∀ y ∈ w.bufRev, x.khash < y.khash
  coll : w.coll = grp w.out

theorem J_init : J {} := ⟨fun _ => rfl, by simp, by simp, rfl⟩

theorem J_flush {w : Writer} (j : J w) : (flush w).coll = grp (flush w).out := by
  have := grp_append w.out w.bufRev.reverse
    (by intro x hx y hy; exact j.below x hx y (List.mem_reverse.mp hy))
    (by intro x hx y hy; exact j.same x (List.mem_reverse.mp hx) y (List.mem_reverse.mp hy))
  simp only [flush]
  rw [this, j.coll, List.length_reverse]
  by_cases hl : w.bufRev.length > 1
  · simp [hl]
  · simp [hl]

theorem write_head (w : Writer) (it : Item) : ∃ tl, (write w it).bufRev = it :: tl := by
  unfold write
  split
  · exact ⟨[], rfl⟩
  · split
    · exact ⟨[], rfl⟩
    · split
      · exact ⟨_, rfl⟩
      · exact ⟨_, rfl⟩

theorem J_write {w : Writer} (j : J w) (it : Item)
    (hle : ∀ last tl, w.bufRev = last :: tl → ILe last it) : J (write w it) := by
  cases hb : w.bufRev with
  | nil =>
    have e : write w it = { w with bufRev := [it] } := by simp [write, hb]
    rw [e]
    exact ⟨by simp, by simp, by simp [j.empty hb], j.coll⟩
  | cons last tl =>
    have hl := hle last tl hb
    by_cases h1 : last.khash = it.khash
    · by_cases h2 : last.key = it.key
      · have e : write w it = { w with bufRev := it :: tl } := by simp [write, hb, h1, h2]
        rw [e]
        have hs : ∀ x ∈ it :: tl, x.khash = last.khash := by
          intro x hx
          rcases List.mem_cons.mp hx with rfl | hx
          · exact h1.symm
          · exact j.same x (by rw [hb]; exact List.mem_cons_of_mem _ hx) last (by rw [hb]; simp)
        refine ⟨by simp, ?_, ?_, j.coll⟩
        · intro x hx y hy; rw [hs x hx, hs y hy]
        · intro x hx y hy
          have := j.below x hx last (by rw [hb]; simp)
          have := hs y hy
          simp only at *; omega
      · have e : write w it = { w with bufRev := it :: last :: tl } := by simp [write, hb, h1, h2]
        rw [e]
        have hs : ∀ x ∈ it :: last :: tl, x.khash = last.khash := by
          intro x hx
          rcases List.mem_cons.mp hx with rfl | hx
          · exact h1.symm
          · exact j.same x (by rw [hb]; exact hx) last (by rw [hb]; simp)
        refine ⟨by simp, ?_, ?_, j.coll⟩
        · intro x hx y hy; rw [hs x hx, hs y hy]
        · intro x hx y hy
          have := j.below x hx last (by rw [hb]; simp)
          have := hs y hy
          simp only at *; omega
    · have e : write w it = { flush w with bufRev := [it] } := by simp [write, hb, h1]
      rw [e]
      have hlt : last.khash < it.khash := by
        rw [ILe_iff] at hl
        rcases hl with hl | ⟨hl, _⟩
        · exact hl
        · exact absurd hl h1
      refine ⟨by simp, by simp, ?_, J_flush j⟩
      intro x hx y hy
      have hy' : y = it := by simpa using hy
      subst hy'
      have hx' : x ∈ w.out ∨ x ∈ w.bufRev := by
        simp only [flush, List.mem_append, List.mem_reverse] at hx; exact hx
      rcases hx' with hx' | hx'
      · have := j.below x hx' last (by rw [hb]; simp); omega
      · have := j.same x hx' last (by rw [hb]; simp); omega

theorem J_fold (s : List Item) : ∀ w : Writer, J w → s.Pairwise ILe →
    (∀ last tl, w.bufRev = last :: tl → ∀ y ∈ s, ILe last y) → J (s.foldl write w) := by
  induction s with
  | nil => intro w j _ _; exact j
  | cons it s ih =>
    intro w j hp hle
    rw [List.foldl_cons]
    rw [List.pairwise_cons] at hp
    apply ih _ (J_write j it (fun last tl h => hle last tl h it (by simp))) hp.2
    intro last tl h y hy
    obtain ⟨tl', htl⟩ := write_head w it
    rw [htl] at h
    have : last = it := by injection h with h _; exact h.symm
    rw [this]; exact hp.1 y hy

/-- the collision reports for a stream in `Less` order: the written items whose hash was written more than once -/
theorem fin_coll (s : List Item) (hs : s.Pairwise ILe) : (fin {} s).coll = grp (fin {} s).out :=
  J_flush (J_fold s {} J_init hs (by intro last tl h; simp at h))

/-! ### `dedupLast` of a stream in `Less` order -/

theorem dedupLast_sub : ∀ (s : List Item) (x : Item), x ∈ dedupLast s → x ∈ s
  | [], x, h => by simp [dedupLast] at h
  | [a], x, h => by simpa [dedupLast] using h
  | a :: b :: t, x, h => by
    unfold dedupLast at h
    split at h
    · exact List.mem_cons_of_mem _ (dedupLast_sub (b :: t) x h)
    · rcases List.mem_cons.mp h with rfl | h
      · simp
      · exact List.mem_cons_of_mem _ (dedupLast_sub (b :: t) x h)

/-- (a) strictly increasing in (khash, key): sorted, no (khash, key) twice -/
theorem dedupLast_sorted : ∀ (s : List Item), s.Pairwise ILe → (dedupLast s).Pairwise KLt
  | [], _ => by simp [dedupLast]
  | [a], _ => by simp [dedupLast]
  | a :: b :: t, hp => by
    have hp' := (List.pairwise_cons.mp hp)
    have ih := dedupLast_sorted (b :: t) hp'.2
    unfold dedupLast
    split
    · exact ih
    · rename_i hne
      rw [List.pairwise_cons]
      refine ⟨?_, ih⟩
      intro z hz
      have hzm := dedupLast_sub _ _ hz
      have hab : KLt a b := by
        rcases ILe_cases (hp'.1 b (by simp)) with h | ⟨h, _⟩
        · exact h
        · exact absurd h hne
      rcases List.mem_cons.mp hzm with rfl | hzt
      · exact hab
      · exact KLt_of_KLt_of_ILe hab ((List.pairwise_cons.mp hp'.2).1 z hzt)

/-- (b) every item of the stream is represented by a written item of the same (khash, key) whose position is
    not below -/
theorem dedupLast_max : ∀ (s : List Item), s.Pairwise ILe →
    ∀ y ∈ s, ∃ x ∈ dedupLast s, SameKey x y ∧ posKey y ≤ posKey x
  | [], _, y, hy => by simp at hy
  | [a], _, y, hy => by
    have : y = a := by simpa using hy
    subst this; exact ⟨y, by simp [dedupLast], SameKey.refl _, Nat.le_refl _⟩
  | a :: b :: t, hp, y, hy => by
    have hp' := (List.pairwise_cons.mp hp)
    have ih := dedupLast_max (b :: t) hp'.2
    unfold dedupLast
    split
    · rename_i hsame
      rcases List.mem_cons.mp hy with rfl | hy'
      · obtain ⟨x, hx, hk, hpos⟩ := ih b (by simp)
        refine ⟨x, hx, hk.trans ⟨hsame.1.symm, hsame.2.symm⟩, ?_⟩
        rcases ILe_cases (hp'.1 b (by simp)) with h | ⟨_, h⟩
        · exact absurd h (not_KLt_of_SameKey hsame)
        · omega
      · exact ih y hy'
    · rcases List.mem_cons.mp hy with rfl | hy'
      · exact ⟨y, by simp, SameKey.refl _, Nat.le_refl _⟩
      · obtain ⟨x, hx, h⟩ := ih y hy'
        exact ⟨x, List.mem_cons_of_mem _ hx, h⟩

/-! ### the `foldr` of `Hint.merge` is `dedupLast` -/

/-- the deduplication step of `Hint.merge` -/
def ddStep (it : Item) (acc : List Item) : List Item :=
  match acc with
  | nxt :: _ => if nxt.khash = it.khash ∧ nxt.key = it.key then acc else it :: acc
  | [] => [it]

theorem dd_head : ∀ (t : List Item) (y : Item), ∃ z rest, (y :: t).foldr ddStep [] = z :: rest ∧ SameKey z y
  | [], y => ⟨y, [], by simp [ddStep], SameKey.refl _⟩
  | y' :: t', y => by
    obtain ⟨z, rest, he, hk⟩ := dd_head t' y'
    rw [List.foldr_cons, he]
    by_cases h : z.khash = y.khash ∧ z.key = y.key
    · exact ⟨z, rest, by simp [ddStep, h], h⟩
    · exact ⟨y, z :: rest, by simp [ddStep, h], SameKey.refl _⟩

theorem dd_eq_dedupLast : ∀ (s : List Item), s.foldr ddStep [] = dedupLast s
  | [] => by simp [dedupLast]
  | [a] => by simp [dedupLast, ddStep]
  | a :: b :: t => by
    have ih := dd_eq_dedupLast (b :: t)
    obtain ⟨z, rest, he, hk⟩ := dd_head t b
    have e : dedupLast (a :: b :: t) =
        if a.khash = b.khash ∧ a.key = b.key then dedupLast (b :: t) else a :: dedupLast (b :: t) := by
      rw [dedupLast]
    rw [e, List.foldr_cons, ← ih, he]
    by_cases h : a.khash = b.khash ∧ a.key = b.key
    · have : z.khash = a.khash ∧ z.key = a.key := ⟨hk.1.trans h.1.symm, hk.2.trans h.2.symm⟩
      simp [ddStep, h, this]
    · have : ¬ (z.khash = a.khash ∧ z.key = a.key) := by
        intro h'; exact h ⟨h'.1.symm.trans hk.1, h'.2.symm.trans hk.2⟩
      simp [ddStep, h, this]

end HintMergeLemmas
