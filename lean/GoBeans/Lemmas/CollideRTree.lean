/-
  C13 (b) with restarts: what applying the split files of a data file does to one tree slot (`applySplits_get`), and that
  for a hash with a single key in use it leaves the item the hint lookup of that key finds (`lastHit_single`).
-/
import GoBeans.Lemmas.CollideRReopen2
set_option linter.unusedSimpArgs false
set_option linter.unusedVariables false
namespace CollideLemmas
open Store Spec HintIndex Collide StoreLemmas HintBufferLemmas HintIndexLemmas

/-- the last item addressing slot `h` in a sequence of split files applied in order -/
def lastHitSplits (h : Nat) : List (List Item) → Option Item
  | [] => none
  | f :: rest => match lastHitSplits h rest with | some x => some x | none => lastWith h f

theorem lastHitSplits_cons (h : Nat) (f : List Item) (rest : List (List Item)) :
    lastHitSplits h (f :: rest) = (match lastHitSplits h rest with | some x => some x | none => lastWith h f) := rfl

theorem applySplits_get (c : Nat) (fs : List (List Item)) :
    ∀ (t : Tree) (h : Nat), AMap.get (applySplits c t fs) h =
      (match lastHitSplits h fs with
       | some it => liveItem c it
       | none => AMap.get t h) := by
  induction fs with
  | nil => intro t h; rfl
  | cons f rest ih =>
    intro t h
    have e : applySplits c t (f :: rest) = applySplits c (applyFile c t f) rest := rfl
    rw [e, ih, lastHitSplits_cons]
    cases lastHitSplits h rest with
    | some x => rfl
    | none => simp only; exact applyFile_get c f t h

theorem lastHit_mem {h : Nat} {fs : List (List Item)} {it : Item} (e : lastHitSplits h fs = some it) :
    ∃ f ∈ fs, it ∈ f ∧ it.khash = h := by
  induction fs with
  | nil => cases e
  | cons f rest ih =>
    rw [lastHitSplits_cons] at e
    cases hr : lastHitSplits h rest with
    | some x =>
      rw [hr] at e
      simp only [Option.some.injEq] at e
      subst e
      obtain ⟨g, hg, a, b⟩ := ih hr
      exact ⟨g, by simp [hg], a, b⟩
    | none =>
      rw [hr] at e
      simp only at e
      unfold lastWith at e
      have := List.mem_of_getLast? e
      rw [List.mem_filter] at this
      exact ⟨f, by simp, this.1, by simpa using this.2⟩

/-- in a file without repeated keys where every item of hash `h` has key `o`, the last item of hash `h` is THE item (h, o) -/
theorem lastWith_single (h : Nat) (o : Key) (f : List Item) (hn : NodupKey f) (hs : ∀ y ∈ f, y.khash = h → y.key = o) :
    lastWith h f = lk f h o := by
  cases e : lk f h o with
  | none =>
    unfold lastWith
    rw [List.getLast?_eq_none_iff, List.filter_eq_nil_iff]
    intro y hy hc
    have hk : y.khash = h := by simpa using hc
    exact lk_none.mp e y hy ⟨hk, hs y hy hk⟩
  | some x =>
    obtain ⟨hx, hxh, hxk⟩ := lk_some e
    unfold lastWith
    cases eg : (f.filter (fun it => it.khash = h)).getLast? with
    | none =>
      rw [List.getLast?_eq_none_iff, List.filter_eq_nil_iff] at eg
      exact absurd (by simpa using hxh) (eg x hx)
    | some y =>
      have hym := List.mem_of_getLast? eg
      rw [List.mem_filter] at hym
      have hyh : y.khash = h := by simpa using hym.2
      have := lk_of_mem hn hym.1 hyh (hs y hym.1 hyh)
      rw [e] at this
      exact this.symm

theorem lastHit_single (h : Nat) (o : Key) (fs : List (List Item)) (hn : ∀ f ∈ fs, NodupKey f)
    (hs : ∀ f ∈ fs, ∀ y ∈ f, y.khash = h → y.key = o) :
    lastHitSplits h fs = firstLk fs.reverse h o := by
  induction fs with
  | nil => rfl
  | cons f rest ih =>
    have ih' := ih (fun g hg => hn g (by simp [hg])) (fun g hg => hs g (by simp [hg]))
    rw [lastHitSplits_cons, ih', List.reverse_cons]
    unfold firstLk
    rw [List.findSome?_append]
    cases List.findSome? (fun l => lk l h o) rest.reverse with
    | some x => rfl
    | none =>
      simp only [Option.none_or, List.findSome?_cons, List.findSome?_nil]
      rw [lastWith_single h o f (hn f (by simp)) (hs f (by simp))]
      cases lk f h o <;> rfl

end CollideLemmas
