/-
  Log view of a bucket: all records in (file, offset) order.  Rebuilding the tree = replaying the log =
  "the live part of the last record of each key" (`replay_get`); the tree maintained incrementally always
  describes the last record of each key (`LastRec`); a restart — with the tree dump loaded or rebuilt from
  the data — preserves the agreement with the reference map (`reopen_keep`, `reopen_rebuild`).
-/
import GoBeans.Lemmas.Store
import GoBeans.Model.LogView
set_option linter.unusedSimpArgs false
set_option linter.unusedVariables false
namespace StoreLemmas
open Store Spec

theorem lastOf_nil (k : Key) : lastOf k [] = none := rfl

theorem lastOf_append_single (k : Key) (l : List (Pos × Rec)) (x : Pos × Rec) :
    lastOf k (l ++ [x]) = if x.2.key = k then some x else lastOf k l := by
  unfold lastOf
  rw [List.filter_append]
  by_cases h : x.2.key = k
  · simp [List.filter, h]
  · simp [List.filter, h]

section Replay
variable (hash : Key → Nat) (K : Key → Prop)

/-- what the replayed tree holds for a key: the live part of its last record -/
def itemOfLast : Option (Pos × Rec) → Option TItem
  | some (p, r) => if r.ver > 0 then some { pos := p, ver := r.ver, vhash := vhashOf r.body } else none
  | none => none

theorem lastOf_cons (k : Key) (x : Pos × Rec) (l : List (Pos × Rec)) :
    lastOf k (x :: l) = (lastOf k l).or (if x.2.key = k then some x else none) := by
  unfold lastOf
  by_cases h : x.2.key = k
  · simp only [List.filter_cons, h, decide_true, if_true]
    rw [List.getLast?_cons]
    cases (l.filter fun p => p.2.key = k).getLast? <;> simp
  · simp [List.filter_cons, h]

theorem replay_from (hInj : InjOn hash K) (l : List (Pos × Rec)) (hl : ∀ x ∈ l, K x.2.key) (k : Key) (hk : K k) :
    ∀ t, AMap.get (l.foldl (replayStep hash) t) (hash k) =
      (match lastOf k l with
       | some x => itemOfLast (some x)
       | none => AMap.get t (hash k)) := by
  induction l with
  | nil => intro t; simp [lastOf]
  | cons x l ih =>
    intro t
    have hx : K x.2.key := hl x (by simp)
    have ih' := ih (fun y hy => hl y (by simp [hy]))
    rw [List.foldl_cons, ih', lastOf_cons]
    cases hlast : lastOf k l with
    | some y => simp
    | none =>
      simp only [Option.none_or]
      unfold replayStep
      by_cases hkk : x.2.key = k
      · subst hkk
        by_cases hv : x.2.ver > 0
        · simp [hv, itemOfLast]
        · simp [hv, itemOfLast, AMap.get_erase_self]
      · have hne : hash x.2.key ≠ hash k := fun e => hkk (hInj _ _ hx hk e)
        by_cases hv : x.2.ver > 0
        · simp only [hv, if_true, hkk, if_false]
          rw [AMap.get_set_ne _ _ _ _ hne]
        · simp only [hv, if_false, hkk]
          rw [AMap.get_erase_ne _ _ _ hne]

/-- replay = "later record of a key wins, ver<0 removes" = the live part of the last record of each key -/
theorem replay_get (hInj : InjOn hash K) (l : List (Pos × Rec)) (hl : ∀ x ∈ l, K x.2.key) (k : Key) (hk : K k) :
    AMap.get (replayTree hash l) (hash k) = itemOfLast (lastOf k l) := by
  unfold replayTree
  rw [replay_from hash K hInj l hl k hk]
  cases lastOf k l <;> simp [itemOfLast]
end Replay

/-! ### the log grows at its end -/

def recsAt (b : Bucket) (i : Nat) : List (Pos × Rec) :=
  (b.chunks i).recs.map (fun p => (({ chunk := i, off := p.1 } : Pos), p.2))

theorem log_eq (b : Bucket) : b.log = (List.range (b.head + 1)).flatMap (recsAt b) := rfl

theorem flatMap_congr_range (n : Nat) (f g : Nat → List (Pos × Rec)) (h : ∀ i, i < n → f i = g i) :
    (List.range n).flatMap f = (List.range n).flatMap g := by
  induction n with
  | zero => rfl
  | succ n ih =>
    rw [List.range_succ, List.flatMap_append, List.flatMap_append, ih (fun i hi => h i (by omega))]
    simp [h n (by omega)]

theorem log_pushRec (b : Bucket) (ck off : Nat) (r : Rec) (hp : PosInv b) (hck : ck = b.head ∨ ck = b.head + 1) :
    (b.pushRec ck off r).log = b.log ++ [(⟨ck, off⟩, r)] := by
  have hc : ∀ i, recsAt (b.pushRec ck off r) i = if i = ck then recsAt b ck ++ [(⟨ck, off⟩, r)] else recsAt b i := by
    intro i
    unfold recsAt
    have : (b.pushRec ck off r).chunks i = if i = ck then { b.chunks ck with recs := (b.chunks ck).recs ++ [(off, r)], size := off + r.size } else b.chunks i := rfl
    rw [this]
    by_cases h : i = ck
    · subst h; simp
    · simp [h]
  have hh : (b.pushRec ck off r).head = ck := rfl
  rw [log_eq, log_eq, hh]
  rcases hck with rfl | rfl
  · rw [List.range_succ, List.flatMap_append, List.flatMap_append]
    rw [flatMap_congr_range b.head (recsAt (b.pushRec b.head off r)) (recsAt b)
          (fun i hi => by rw [hc]; simp [Nat.ne_of_lt hi])]
    simp [hc]
  · have hf := hp.fresh (b.head + 1) (by omega)
    rw [List.range_succ, List.flatMap_append]
    rw [flatMap_congr_range (b.head + 1) (recsAt (b.pushRec (b.head + 1) off r)) (recsAt b)
          (fun i hi => by rw [hc]; simp [Nat.ne_of_lt hi])]
    have e1 : recsAt (b.pushRec (b.head + 1) off r) (b.head + 1) = [(⟨b.head + 1, off⟩, r)] := by
      rw [hc]; simp [recsAt, hf.1]
    rw [List.flatMap_cons, List.flatMap_nil, List.append_nil, e1]

theorem log_sealHead (b : Bucket) : b.sealHead.log = b.log := by
  rw [log_eq, log_eq]
  have hh : b.sealHead.head = b.head := rfl
  rw [hh]
  apply flatMap_congr_range
  intro i _
  unfold recsAt
  rw [(sealHead_recs b i).1]

theorem log_append (cfg : Store.Cfg) (b : Bucket) (r : Rec) (hp : PosInv b) :
    (b.append cfg r).1.log = b.log ++ [((b.append cfg r).2, r)] := by
  unfold Bucket.append Bucket.slot
  by_cases hrot : (b.chunks b.head).size + r.size > cfg.dataFileMax
  · simp only [hrot, ↓reduceIte]
    have hp' := (sealHead_posInv b hp).1
    have := log_pushRec b.sealHead (b.head + 1) 0 r hp' (Or.inr rfl)
    rw [this, log_sealHead]
  · simp only [hrot, ↓reduceIte]
    exact log_pushRec b b.head _ r hp (Or.inl rfl)

/-! ### LastRec: the tree slot of a key describes the LAST record of that key in the log -/

section LastRec
variable (hash : Key → Nat) (K : Key → Prop)

structure LastRec (b : Bucket) : Prop where
  keys : ∀ x ∈ b.log, K x.2.key
  last : ∀ k, K k →
    (∃ it r, AMap.get b.tree (hash k) = some it ∧ lastOf k b.log = some (it.pos, r) ∧ b.readAt it.pos = some r ∧ it.ver = r.ver) ∨
    (AMap.get b.tree (hash k) = none ∧ (lastOf k b.log = none ∨ ∃ p r, lastOf k b.log = some (p, r) ∧ ¬ r.ver > 0))

theorem lr_put (cfg : Store.Cfg) (hInj : InjOn hash K) {b : Bucket} (hp : PosInv b) (lr : LastRec hash K b)
    (r : Rec) (hk : K r.key) (hs : 0 < r.size) : LastRec hash K (b.put hash cfg r).1 := by
  obtain ⟨h1, h2, _, h4⟩ := append_spec cfg b r hp hs
  have hlog : (b.put hash cfg r).1.log = b.log ++ [((b.append cfg r).2, r)] := by
    have := log_append cfg b r hp
    simpa [Bucket.put, Bucket.log] using this
  have hread : ∀ q, (b.put hash cfg r).1.readAt q = (b.append cfg r).1.readAt q := fun q => rfl
  have htree : (b.put hash cfg r).1.tree = AMap.set b.tree (hash r.key)
      { pos := (b.append cfg r).2, ver := r.ver, vhash := if r.ver > 0 then vhashOf r.body else 0 } := by
    simp [Bucket.put, h4]
  constructor
  · intro x hx
    rw [hlog] at hx
    rcases List.mem_append.mp hx with hx | hx
    · exact lr.keys x hx
    · simp at hx; subst hx; exact hk
  · intro k hkK
    rw [hlog, lastOf_append_single, htree]
    by_cases hkk : r.key = k
    · subst hkk
      left
      exact ⟨_, r, AMap.get_set_self _ _ _, by simp, by rw [hread]; exact h1, rfl⟩
    · have hne : hash r.key ≠ hash k := fun e => hkk (hInj _ _ hk hkK e)
      simp only [hkk, if_false]
      rw [AMap.get_set_ne _ _ _ _ hne]
      rcases lr.last k hkK with ⟨it, r0, a1, a2, a3, a4⟩ | ⟨a1, a2⟩
      · left; exact ⟨it, r0, a1, a2, by rw [hread]; exact h2 _ _ a3, a4⟩
      · right; exact ⟨a1, a2⟩

/-- a state change that leaves records, head and tree alone keeps LastRec -/
theorem lr_congr {b b' : Bucket} (lr : LastRec hash K b) (hlog : b'.log = b.log) (htree : b'.tree = b.tree)
    (hread : ∀ q, b'.readAt q = b.readAt q) : LastRec hash K b' := by
  constructor
  · intro x hx; rw [hlog] at hx; exact lr.keys x hx
  · intro k hk
    rw [hlog, htree]
    rcases lr.last k hk with ⟨it, r0, a1, a2, a3, a4⟩ | h
    · left; exact ⟨it, r0, a1, a2, by rw [hread]; exact a3, a4⟩
    · right; exact h

theorem cas_lr (cfg : Store.Cfg) (hcv : cfg.checkVHash = false) (hInj : InjOn hash K) {b : Bucket} (hp : PosInv b)
    (lr : LastRec hash K b) (k : Key) (body : Bytes) (flag : Nat) (rev : Int) (ts : Option Nat) (size wts : Nat)
    (hk : K k) (hs : 0 < size) :
    LastRec hash K (checkAndSet hash cfg b k body flag rev ts size wts).1 := by
  have hput : ∀ v, LastRec hash K (b.put hash cfg { key := k, ver := v, flag := flag, ts := ts, body := body, size := size, wts := wts }).1 :=
    fun v => lr_put hash K cfg hInj hp lr _ hk hs
  cases h1 : AMap.get b.tree (hash k) with
  | none =>
    rw [cas_none hash cfg b k body flag rev ts size wts h1]
    split
    · exact lr
    · split
      · exact lr
      · exact hput _
  | some it =>
    rw [cas_some hash cfg b k body flag rev ts size wts it h1]
    have : ¬ ((it.ver > 0 ∧ (if rev ≥ 0 then vhashOf body else 0) = it.vhash) ∧ cfg.checkVHash = true) := by
      rw [hcv]; simp
    rw [if_neg this]
    split
    · exact lr
    · split
      · exact lr
      · exact hput _

theorem log_flush (cfg : Store.Cfg) (b : Bucket) :
    (Store.step hash cfg b .flush).1.log = b.log ∧ (Store.step hash cfg b .flush).1.tree = b.tree := by
  refine ⟨?_, rfl⟩
  rw [log_eq, log_eq]
  have hh : (Store.step hash cfg b .flush).1.head = b.head := rfl
  rw [hh]
  apply flatMap_congr_range
  intro i _
  unfold recsAt
  simp only [Store.step, Bucket.chunk]
  rw [chunks_setChunk]
  by_cases h : i = b.head
  · subst h; simp
  · simp [h]

theorem step_lr (cfg : Store.Cfg) (hcv : cfg.checkVHash = false) (hInj : InjOn hash K) {b : Bucket} (hp : PosInv b)
    (lr : LastRec hash K b) (R : Nat) (op : Op) (hop : OpOK K R op) :
    LastRec hash K (Store.step hash cfg b op).1 := by
  cases op with
  | set k body flag rev ts size =>
    obtain ⟨hk, hs, _, _, _⟩ := hop
    have := cas_lr hash K cfg hcv hInj hp lr k body flag rev (some ts) size ts hk hs
    rw [step_set]
    generalize checkAndSet hash cfg b k body flag rev (some ts) size ts = res at this
    obtain ⟨b', c⟩ := res
    cases c <;> exact this
  | delete k size wts =>
    obtain ⟨hk, hs⟩ := hop
    have := cas_lr hash K cfg hcv hInj hp lr k [] 0 (-1) none size wts hk hs
    rw [step_delete]
    generalize checkAndSet hash cfg b k [] 0 (-1) none size wts = res at this
    obtain ⟨b', c⟩ := res
    cases c <;> exact this
  | incr k d size wts =>
    obtain ⟨hk, hs⟩ := hop
    have hput : ∀ ver v, LastRec hash K (b.put hash cfg { key := k, ver := ver, flag := Spec.FLAG_INCR, ts := none, body := Spec.itoa v, size := size, wts := wts }).1 :=
      fun ver v => lr_put hash K cfg hInj hp lr _ hk hs
    simp only [Store.step]
    split
    · exact hput _ _
    · exact lr
    · exact lr
    · split
      · exact hput _ _
      · split
        · exact lr
        · split
          · exact lr
          · split
            · exact lr
            · exact hput _ _
  | get k => simp only [Store.step]; split <;> (try split) <;> exact lr
  | info k => simp only [Store.step]; split <;> exact lr
  | flush =>
    have hr : ∀ q, (Store.step hash cfg b .flush).1.readAt q = b.readAt q := by
      intro q
      simp only [Store.step]
      rw [readAt_setChunk]
      by_cases h : q.chunk = b.head
      · simp [h, Bucket.readAt, Bucket.chunk, Chunk.find]
      · simp [h]
    exact lr_congr hash K lr (log_flush hash cfg b).1 (log_flush hash cfg b).2 hr
  | reopen _ => exact absurd hop (by simp [OpOK])
end LastRec

/-! ### reopen -/

def NonEmptyC (c : Chunk) : Prop := c.size > 0 ∨ c.created = true

theorem lastNonEmpty_go_spec (cs : List Chunk) :
    ∀ (i : Nat) (best : Option Nat),
      (∃ j, j < cs.length ∧ lastNonEmpty.go i cs best = some (i + j) ∧ NonEmptyC (cs.getD j {}) ∧
          ∀ j', j < j' → j' < cs.length → ¬ NonEmptyC (cs.getD j' {})) ∨
      (lastNonEmpty.go i cs best = best ∧ ∀ j', j' < cs.length → ¬ NonEmptyC (cs.getD j' {})) := by
  induction cs with
  | nil => intro i best; right; exact ⟨rfl, fun j' h => by simp at h⟩
  | cons c rest ih =>
    intro i best
    unfold lastNonEmpty.go
    by_cases hc : c.size > 0 ∨ c.created = true
    · simp only [hc, if_true]
      rcases ih (i + 1) (some i) with ⟨j, hj, he, hne, hafter⟩ | ⟨he, hnone⟩
      · left
        refine ⟨j + 1, by simp; omega, by rw [he]; congr 1; omega, by simpa using hne, ?_⟩
        intro j' h1 h2
        cases j' with
        | zero => omega
        | succ j'' => simpa using hafter j'' (by omega) (by simp at h2; omega)
      · left
        refine ⟨0, by simp, by rw [he]; simp, by simpa [NonEmptyC] using hc, ?_⟩
        intro j' h1 h2
        cases j' with
        | zero => omega
        | succ j'' => simpa using hnone j'' (by simp at h2; omega)
    · simp only [hc, if_false]
      rcases ih (i + 1) best with ⟨j, hj, he, hne, hafter⟩ | ⟨he, hnone⟩
      · left
        refine ⟨j + 1, by simp; omega, by rw [he]; congr 1; omega, by simpa using hne, ?_⟩
        intro j' h1 h2
        cases j' with
        | zero => omega
        | succ j'' => simpa using hafter j'' (by omega) (by simp at h2; omega)
      · right
        refine ⟨he, ?_⟩
        intro j' h2
        cases j' with
        | zero => simpa [NonEmptyC] using hc
        | succ j'' => simpa using hnone j'' (by simp at h2; omega)

/-- the head after a restart: one past the last existing file (0 if none); everything at or above it is empty -/
theorem newHead_spec (b : Bucket) (hp : PosInv b) :
    let cl := (List.range (b.head + 1)).map (fun i => { b.chunks i with flushed := (b.chunks i).recs.length })
    let head := match lastNonEmpty cl with | some i => i + 1 | none => 0
    head ≤ b.head + 1 ∧ ∀ j, head ≤ j → (b.chunks j).recs = [] ∧ (b.chunks j).size = 0 := by
  intro cl head
  have hlen : cl.length = b.head + 1 := by simp [cl]
  have hget : ∀ j, j < b.head + 1 → (NonEmptyC (cl.getD j {}) ↔ NonEmptyC (b.chunks j)) := by
    intro j hj
    have : cl.getD j {} = { b.chunks j with flushed := (b.chunks j).recs.length } := by
      simp [cl, List.getD, hj]
    rw [this]; simp [NonEmptyC]
  have hempty : ∀ j, ¬ NonEmptyC (b.chunks j) → (b.chunks j).recs = [] ∧ (b.chunks j).size = 0 := by
    intro j hne
    have hs : (b.chunks j).size = 0 := by
      unfold NonEmptyC at hne; omega
    refine ⟨?_, hs⟩
    cases hr : (b.chunks j).recs with
    | nil => rfl
    | cons x xs =>
      have := hp.below j x.1 x.2 (by rw [hr]; simp)
      omega
  have habove : ∀ j, b.head < j → (b.chunks j).recs = [] ∧ (b.chunks j).size = 0 := fun j hj => hp.fresh j hj
  have hdef : head = (match lastNonEmpty.go 0 cl none with | some i => i + 1 | none => 0) := rfl
  rcases lastNonEmpty_go_spec cl 0 none with ⟨j, hj, he, _, hafter⟩ | ⟨he, hnone⟩
  · have hh : head = j + 1 := by rw [hdef, he]; simp
    rw [hlen] at hj
    refine ⟨by omega, ?_⟩
    intro j' hj'
    by_cases hle : j' ≤ b.head
    · apply hempty
      rw [← hget j' (by omega)]
      exact hafter j' (by omega) (by rw [hlen]; omega)
    · exact habove j' (by omega)
  · have hh : head = 0 := by rw [hdef, he]
    refine ⟨by omega, ?_⟩
    intro j' _
    by_cases hle : j' ≤ b.head
    · apply hempty
      rw [← hget j' (by omega)]
      exact hnone j' (by rw [hlen]; omega)
    · exact habove j' (by omega)

theorem flatMap_range_trailing (f : Nat → List (Pos × Rec)) (m : Nat) (hf : ∀ j, m ≤ j → f j = []) :
    ∀ n, m ≤ n → (List.range n).flatMap f = (List.range m).flatMap f := by
  intro n hn
  induction n with
  | zero => have : m = 0 := by omega
            subst this; rfl
  | succ n ih =>
    by_cases h : m = n + 1
    · subst h; rfl
    · rw [List.range_succ, List.flatMap_append, ih (by omega)]
      simp [hf n (by omega)]

section Reopen
variable (hash : Key → Nat) (K : Key → Prop)

theorem reopen_facts (cfg : Store.Cfg) (b : Bucket) (hp : PosInv b) (keep : Bool) :
    let b' := (Store.step hash cfg b (.reopen keep)).1
    (∀ q, b'.readAt q = b.readAt q) ∧ b'.log = b.log ∧ PosInv b'
    ∧ b'.tree = (if keep then b.tree else replayTree hash b.log) := by
  intro b'
  have hc : ∀ i, b'.chunks i = { b.chunks i with flushed := (b.chunks i).recs.length } := fun i => rfl
  obtain ⟨hle, hemp⟩ := newHead_spec b hp
  have hhead : b'.head = (match lastNonEmpty ((List.range (b.head + 1)).map (fun i => { b.chunks i with flushed := (b.chunks i).recs.length })) with
      | some i => i + 1 | none => 0) := rfl
  rw [← hhead] at hle hemp
  refine ⟨?_, ?_, ⟨?_, ?_⟩, rfl⟩
  · intro q
    simp only [Bucket.readAt, Bucket.chunk, hc, Chunk.find]
  · rw [log_eq, log_eq]
    have hr : ∀ i, recsAt b' i = recsAt b i := by intro i; unfold recsAt; rw [hc]
    rw [show (List.range (b'.head + 1)).flatMap (recsAt b') = (List.range (b'.head + 1)).flatMap (recsAt b) from
          flatMap_congr_range _ _ _ (fun i _ => hr i)]
    have hz : ∀ j, b'.head ≤ j → recsAt b j = [] := by
      intro j hj; unfold recsAt; rw [(hemp j hj).1]; rfl
    rw [flatMap_range_trailing (recsAt b) b'.head hz (b'.head + 1) (by omega),
        flatMap_range_trailing (recsAt b) b'.head hz (b.head + 1) hle]
  · intro i o r hm
    rw [hc] at hm ⊢; exact hp.below i o r hm
  · intro i hi
    rw [hc]
    exact hemp i (by omega)

/-- restart with the tree dump loaded: nothing observable changes -/
theorem reopen_keep (cfg : Store.Cfg) {n : Nat} {b : Bucket} {m : KV} (inv : Inv hash K n b m) (lr : LastRec hash K b) :
    Inv hash K n (Store.step hash cfg b (.reopen true)).1 m ∧ LastRec hash K (Store.step hash cfg b (.reopen true)).1 := by
  obtain ⟨hr, hl, hp', ht⟩ := reopen_facts hash cfg b inv.pos true
  simp only [if_true] at ht
  refine ⟨⟨hp', ?_⟩, lr_congr hash K lr hl ht hr⟩
  intro k hk
  rw [Agree, ht]
  rcases inv.agree k hk with a | ⟨it, e, r, a1, a2, a3, rest⟩
  · exact Or.inl a
  · exact Or.inr ⟨it, e, r, a1, a2, by rw [hr]; exact a3, rest⟩

/-- restart with the tree rebuilt from the data files: the tree is the replay of the log; every live key
    keeps its record, version and value hash; tombstone entries disappear (as in the reference after
    `dropTombstones`) -/
theorem reopen_rebuild (cfg : Store.Cfg) (hInj : InjOn hash K) {n : Nat} {b : Bucket} {m : KV}
    (inv : Inv hash K n b m) (lr : LastRec hash K b) (hnd : AMap.NodupKeys m) :
    Inv hash K n (Store.step hash cfg b (.reopen false)).1 (Spec.dropTombstones m)
    ∧ LastRec hash K (Store.step hash cfg b (.reopen false)).1 := by
  obtain ⟨hr, hl, hp', ht⟩ := reopen_facts hash cfg b inv.pos false
  simp only [Bool.false_eq_true, if_false] at ht
  have hget : ∀ k, K k → AMap.get (Store.step hash cfg b (.reopen false)).1.tree (hash k) = itemOfLast (lastOf k b.log) := by
    intro k hk; rw [ht]; exact replay_get hash K hInj b.log lr.keys k hk
  have hdrop : ∀ k, AMap.get (Spec.dropTombstones m) k = (AMap.get m k).filter (fun e => decide (e.ver > 0)) :=
    fun k => AMap.get_filter (fun (e : Entry) => decide (e.ver > 0)) hnd k
  constructor
  · refine ⟨hp', ?_⟩
    intro k hk
    rw [Agree, hget k hk, hdrop k]
    rcases inv.agree k hk with ⟨a1, a2⟩ | ⟨it, e, r, a1, a2, a3, a4, a5, a6, a7, a8, a9, a10, a11⟩
    · -- unknown key: no record of it either
      rcases lr.last k hk with ⟨it, r0, l1, _⟩ | ⟨_, l2⟩
      · rw [a1] at l1; cases l1
      · rcases l2 with l2 | ⟨p, r0, l2, hneg⟩
        · left; simp [l2, itemOfLast, a2, Option.filter]
        · left
          simp [l2, itemOfLast, hneg, a2, Option.filter]
    · rcases lr.last k hk with ⟨it', r0, l1, l2, l3, l4⟩ | ⟨l1, _⟩
      · rw [a1] at l1; cases l1
        rw [a3] at l3; cases l3
        by_cases hv : it.ver > 0
        · right
          have hrv : r.ver > 0 := by rw [← l4]; exact hv
          have hev : e.ver > 0 := by rw [a5]; exact hv
          simp only [hv, if_true] at a9
          refine ⟨{ pos := it.pos, ver := r.ver, vhash := vhashOf r.body }, e, r, ?_, ?_, by rw [hr]; exact a3, a4, ?_, a6, a7, a8, ?_, a10, ?_⟩
          · simp [l2, itemOfLast, hrv]
          · simp [a2, Option.filter, hev]
          · rw [a5, l4]
          · simp [hrv]
          · rw [← l4]; exact a11
        · left
          have hrv : ¬ r.ver > 0 := by rw [← l4]; exact hv
          have hev : ¬ e.ver > 0 := by rw [a5]; exact hv
          simp [l2, itemOfLast, hrv, a2, Option.filter, hev]
      · rw [a1] at l1; cases l1
  · constructor
    · intro x hx; rw [hl] at hx; exact lr.keys x hx
    · intro k hk
      rw [hl, hget k hk]
      cases hlast : lastOf k b.log with
      | none => right; simp [itemOfLast]
      | some x =>
        obtain ⟨p, r0⟩ := x
        by_cases hv : r0.ver > 0
        · left
          -- the position of the last record of k is readable: it is the one the old tree pointed at
          rcases lr.last k hk with ⟨it, r1, l1, l2, l3, l4⟩ | ⟨l1, l2⟩
          · rw [hlast] at l2; cases l2
            exact ⟨{ pos := it.pos, ver := r0.ver, vhash := vhashOf r0.body }, r0, by simp [itemOfLast, hv], rfl, by rw [hr]; exact l3, rfl⟩
          · rcases l2 with l2 | ⟨p', r', l2, hneg⟩
            · rw [hlast] at l2; cases l2
            · rw [hlast] at l2; cases l2; exact absurd hv hneg
        · right
          exact ⟨by simp [itemOfLast, hv], Or.inr ⟨p, r0, rfl, hv⟩⟩

/-! ### histories with restarts -/

/-- what an operation means for the reference: a client command, a tree rebuild (tombstones dropped), or nothing -/
def specStep (c : Spec.Cfg) (m : KV) (op : Op) : KV × Option Reply :=
  match op with
  | .reopen false => (Spec.dropTombstones m, none)
  | .reopen true => (m, none)
  | op => match Store.cmdOf op with
    | some cmd => ((Spec.step c m cmd).1, some (Spec.step c m cmd).2)
    | none => (m, none)

def specRun (c : Spec.Cfg) : KV → List Op → KV × List Reply
  | m, [] => (m, [])
  | m, op :: ops =>
    let (m', r) := specStep c m op
    let (m'', rs) := specRun c m' ops
    (m'', match r with | some r => r :: rs | none => rs)

/-- operations of a C02 history: as C01, plus restarts (tree dump loaded or rebuilt) anywhere -/
def OpOK2 (R : Nat) : Op → Prop
  | .reopen _ => True
  | op => OpOK K R op

theorem spec_step_nodup (c : Spec.Cfg) (m : KV) (cmd : Spec.Cmd) (h : AMap.NodupKeys m) : AMap.NodupKeys (Spec.step c m cmd).1 := by
  cases cmd with
  | set k body flag rev ts =>
    simp only [Spec.step]
    split
    · split
      · exact AMap.nodup_set _ _ h
      · exact h
    · split
      · split
        · exact AMap.nodup_set _ _ h
        · exact h
      · split
        · exact AMap.nodup_set _ _ h
        · exact h
  | delete k =>
    simp only [Spec.step]
    split
    · exact h
    · split
      · exact h
      · split
        · exact AMap.nodup_set _ _ h
        · exact AMap.nodup_set _ _ h
  | incr k d =>
    simp only [Spec.step]
    split
    · exact AMap.nodup_set _ _ h
    · split
      · exact AMap.nodup_set _ _ h
      · split
        · exact h
        · split
          · exact h
          · split
            · exact h
            · exact AMap.nodup_set _ _ h
  | get k => simp only [Spec.step]; split <;> (try split) <;> exact h
  | info k => simp only [Spec.step]; split <;> exact h

theorem run_refines_restart (cfg : Store.Cfg) (hcv : cfg.checkVHash = false) (hInj : InjOn hash K) (R : Nat) (ops : List Op) :
    ∀ (n : Nat) (b : Bucket) (m : KV), Inv hash K n b m → LastRec hash K b → AMap.NodupKeys m → R ≤ n →
      n + ops.length < 2147483647 → (∀ op ∈ ops, OpOK2 K R op) →
      (Store.run hash cfg b ops).2 = (specRun { checkVHash := cfg.checkVHash } m ops).2
      ∧ Inv hash K (n + ops.length) (Store.run hash cfg b ops).1 (specRun { checkVHash := cfg.checkVHash } m ops).1
      ∧ LastRec hash K (Store.run hash cfg b ops).1 := by
  induction ops with
  | nil => intro n b m inv lr _ _ _ _; exact ⟨rfl, inv, lr⟩
  | cons op ops ih =>
    intro n b m inv lr hnd hR hn hops
    have hop := hops op (by simp)
    have hrest : ∀ o ∈ ops, OpOK2 K R o := fun o ho => hops o (by simp [ho])
    have hlen : (op :: ops).length = ops.length + 1 := rfl
    by_cases hro : ∃ keep, op = Op.reopen keep
    · obtain ⟨keep, rfl⟩ := hro
      cases keep with
      | true =>
        obtain ⟨inv', lr'⟩ := reopen_keep hash K cfg inv lr
        have := ih n _ m inv' lr' hnd hR (by rw [hlen] at hn; omega) hrest
        simp only [Store.run, specRun, specStep, Store.cmdOf]
        rw [hlen]
        exact ⟨this.1, inv_mono hash K (by omega) this.2.1, this.2.2⟩
      | false =>
        obtain ⟨inv', lr'⟩ := reopen_rebuild hash K cfg hInj inv lr hnd
        have := ih n _ _ inv' lr' (AMap.nodup_filter _ hnd) hR (by rw [hlen] at hn; omega) hrest
        simp only [Store.run, specRun, specStep, Store.cmdOf]
        rw [hlen]
        exact ⟨this.1, inv_mono hash K (by omega) this.2.1, this.2.2⟩
    · -- a client command or a flush: the C01 step lemma plus LastRec preservation
      have hnr : ∀ keep, op ≠ .reopen keep := fun keep e => hro ⟨keep, e⟩
      have hop1 : OpOK K R op := by
        cases op <;> first | exact hop | exact absurd rfl (hnr _)
      have h1 := run_refines hash K cfg hInj R [op] n b m inv hR (by simp; rw [hlen] at hn; omega)
        (fun o ho => by simp at ho; subst ho; exact hop1)
      have lr' := step_lr hash K cfg hcv hInj inv.pos lr R op hop1
      simp only [Store.run, List.filterMap_cons, List.filterMap_nil, List.length_singleton] at h1
      have hspec : specStep { checkVHash := cfg.checkVHash } m op =
          (match Store.cmdOf op with
           | some cmd => ((Spec.step { checkVHash := cfg.checkVHash } m cmd).1, some (Spec.step { checkVHash := cfg.checkVHash } m cmd).2)
           | none => (m, none)) := by
        cases op <;> first | rfl | exact absurd rfl (hnr _)
      cases hc : Store.cmdOf op with
      | none =>
        rw [hc] at h1 hspec
        simp only [Spec.run] at h1
        have := ih (n + 1) _ m h1.2 lr' hnd (by omega) (by rw [hlen] at hn; omega) hrest
        simp only [Store.run, specRun, hspec, hc]
        rw [hlen, show n + (ops.length + 1) = n + 1 + ops.length by omega]
        exact this
      | some cmd =>
        rw [hc] at h1 hspec
        simp only [Spec.run] at h1
        have hnd' := spec_step_nodup { checkVHash := cfg.checkVHash } m cmd hnd
        have := ih (n + 1) _ _ h1.2 lr' hnd' (by omega) (by rw [hlen] at hn; omega) hrest
        simp only [Store.run, specRun, hspec, hc]
        rw [hlen, show n + (ops.length + 1) = n + 1 + ops.length by omega]
        refine ⟨?_, this.2⟩
        have e := h1.1
        simp at e
        rw [e, this.1]

theorem lr_init : LastRec hash K ({} : Bucket) := by
  constructor
  · intro x hx; simp [Bucket.log] at hx
  · intro k _; right; exact ⟨rfl, Or.inl rfl⟩
end Reopen
end StoreLemmas
