/-
  C13 (b) with restarts: the hint loop of `Bucket.open` as a fold — which hint chunks it installs, which split files it
  applies to the tree, and that the tree dump id stays below `maxDumpedHintID`.
-/
import GoBeans.Lemmas.CollideRReopen1
set_option linter.unusedSimpArgs false
set_option linter.unusedVariables false
namespace CollideLemmas
open Store Spec HintIndex Collide StoreLemmas HintBufferLemmas

section
variable (hash : Key → Nat)

/-- the tree part of one step of the hint loop, for a data file whose hint chunk after loading is `ck` -/
def treeStep (tid : Nat × Int) (ck : HCk) (t : Tree) (i : Nat) : Tree :=
  if i < tid.1 then t else
  if (if i = tid.1 then tid.2 + 1 else 0) ≥ (ck.old.length : Int) then t
  else applySplits i t ck.files

/-- the closed hint state `hs1` covers the data files of `b` exactly (what `RInv` says after `hints.close`) -/
structure Covers (hs1 : Hints) (b : Bucket) : Prop where
  files : ∀ i, AllFiles (hs1.chunks i).old
  le : ∀ i, ∀ sp ∈ (hs1.chunks i).old, ∀ f, sp.file = some f → f.datasize ≤ (b.chunks i).size
  full : ∀ i, (b.chunks i).size > 0 → ∃ sp ∈ (hs1.chunks i).old, ∃ f, sp.file = some f ∧ f.datasize = (b.chunks i).size

/-- the split files found on disk for data file `i` -/
def diskOf (hs1 : Hints) : Nat → List (Option SplitFile) := fun i => (hs1.chunks i).old.map (·.file)

theorem openChunk_spec (cap : Nat) (b : Bucket) (hs1 : Hints) (cov : Covers hs1 b) (tid : Nat × Int) (x : Hints × Tree) (i : Nat)
    (hfresh : x.1.chunks i = {}) (hmd : isLarger tid x.1.maxDumped.1 x.1.maxDumped.2 = true) :
    (openChunk hash cap b (diskOf hs1) tid x i).1.chunks i = loadedCk (hs1.chunks i) (b.chunks i).size
    ∧ (∀ j, j ≠ i → (openChunk hash cap b (diskOf hs1) tid x i).1.chunks j = x.1.chunks j)
    ∧ (openChunk hash cap b (diskOf hs1) tid x i).1.maxChunk = x.1.maxChunk
    ∧ (openChunk hash cap b (diskOf hs1) tid x i).1.merged = x.1.merged
    ∧ isLarger tid (openChunk hash cap b (diskOf hs1) tid x i).1.maxDumped.1 (openChunk hash cap b (diskOf hs1) tid x i).1.maxDumped.2 = true
    ∧ (openChunk hash cap b (diskOf hs1) tid x i).2 = treeStep tid (loadedCk (hs1.chunks i) (b.chunks i).size) x.2 i := by
  obtain ⟨c1, c2, c3, c4, c5⟩ := chk_form hash cap x.1 i (b.chunks i).recs (b.chunks i).size (hs1.chunks i) hfresh
    (cov.files i) (cov.le i) (cov.full i)
  unfold openChunk treeStep diskOf
  simp only
  by_cases h1 : i < tid.1
  · simp only [h1, if_true]
    exact ⟨c1, c2, c4, c5, by rw [c3]; exact hmd, by first | rfl | trivial⟩
  · simp only [h1, if_false]
    rw [c1]
    by_cases h2 : (if i = tid.1 then tid.2 + 1 else 0) ≥ ((loadedCk (hs1.chunks i) (b.chunks i).size).old.length : Int)
    · simp only [h2, if_true]
      exact ⟨c1, c2, c4, c5, by rw [c3]; exact hmd, by first | rfl | trivial⟩
    · simp only [h2, if_false]
      refine ⟨c1, c2, c4, c5, ?_, by first | rfl | trivial⟩
      unfold isLarger
      simp only [Bool.or_eq_true, Bool.and_eq_true, decide_eq_true_eq]
      by_cases h3 : i = tid.1
      · right
        refine ⟨h3, ?_⟩
        rw [if_pos h3] at h2 ⊢
        omega
      · left; omega

/-- the whole loop over a list of different data files -/
theorem openFold_spec (cap : Nat) (b : Bucket) (hs1 : Hints) (cov : Covers hs1 b) (tid : Nat × Int) (l : List Nat) (hnd : l.Nodup) :
    ∀ (x : Hints × Tree), (∀ j ∈ l, x.1.chunks j = {}) → isLarger tid x.1.maxDumped.1 x.1.maxDumped.2 = true →
    (∀ j, (l.foldl (openChunk hash cap b (diskOf hs1) tid) x).1.chunks j = if j ∈ l then loadedCk (hs1.chunks j) (b.chunks j).size else x.1.chunks j)
    ∧ (l.foldl (openChunk hash cap b (diskOf hs1) tid) x).1.maxChunk = x.1.maxChunk
    ∧ (l.foldl (openChunk hash cap b (diskOf hs1) tid) x).1.merged = x.1.merged
    ∧ isLarger tid (l.foldl (openChunk hash cap b (diskOf hs1) tid) x).1.maxDumped.1 (l.foldl (openChunk hash cap b (diskOf hs1) tid) x).1.maxDumped.2 = true
    ∧ (l.foldl (openChunk hash cap b (diskOf hs1) tid) x).2 = l.foldl (fun t i => treeStep tid (loadedCk (hs1.chunks i) (b.chunks i).size) t i) x.2 := by
  induction l with
  | nil => intro x _ hmd; exact ⟨fun j => by simp, rfl, rfl, hmd, rfl⟩
  | cons a rest ih =>
    intro x hfr hmd
    simp only [List.foldl_cons]
    obtain ⟨hna, hnr⟩ := List.nodup_cons.mp hnd
    obtain ⟨o1, o2, o3, o4, o5, o6⟩ := openChunk_spec hash cap b hs1 cov tid x a (hfr a (by simp)) hmd
    have hfr' : ∀ j ∈ rest, (openChunk hash cap b (diskOf hs1) tid x a).1.chunks j = {} := by
      intro j hj
      have hja : j ≠ a := fun e => hna (e ▸ hj)
      rw [o2 j hja]; exact hfr j (by simp [hj])
    obtain ⟨i1, i2, i3, i4, i5⟩ := ih hnr _ hfr' o5
    refine ⟨?_, by rw [i2, o3], by rw [i3, o4], i4, by rw [i5, o6]⟩
    intro j
    rw [i1 j]
    by_cases hj : j ∈ rest
    · rw [if_pos hj, if_pos (by simp [hj])]
    · rw [if_neg hj]
      by_cases hja : j = a
      · subst hja; rw [if_pos (by simp)]; exact o1
      · rw [if_neg (by simp [hja, hj])]; exact o2 j hja

end
end CollideLemmas
