/-
  QuickLZ (C10) — level 1, the decoder's hash-table bookkeeping (`hashUpdLit`, `hashUpdMatch`, quicklz.go:384-390,
  404-410) as pure facts: a run of updates depends only on the bytes it reads (`hashUpdLit_congr`), runs compose
  (`hashUpdLit_add`), an entry after a run is the old one or one of the positions entered (`hashUpdLit_get`), and the
  rolling-fetch loop after a match enters exactly what the re-reading loop after a literal would (`hashUpdMatch_lit`).
  Also the 3-byte fetch (`fetch_shift3`) and the level-1 token arithmetic (`tok1`, `decodeMatch1`).  Core-only.
-/
import GoBeans.Lemmas.QlzTotal3
set_option linter.unusedVariables false
set_option linter.unusedSimpArgs false
namespace QlzRT
open Qlz QlzLemmas

theorem and_fff (x : Nat) : x &&& 0xfff = x % 4096 := Nat.and_two_pow_sub_one_eq_mod x 12
theorem and_f (x : Nat) : x &&& 0xf = x % 16 := Nat.and_two_pow_sub_one_eq_mod x 4

theorem fastRead3_mk {c : Buf} {p : Nat} {b0 b1 b2 : UInt8} (h0 : c[p]? = some b0) (h1 : c[p + 1]? = some b1)
    (h2 : c[p + 2]? = some b2) :
    fastRead c p 3 = some (b0.toNat + b1.toNat * 256 + b2.toNat * 65536) := by
  have e0 := b0.toNat_lt
  have e1 := b1.toNat_lt
  simp only [fastRead, Nat.add_zero, h0, h1, h2, Nat.mul_zero, Nat.shiftLeft_zero, Nat.zero_or]
  rw [or_shl _ _ _ (by omega : b0.toNat < 2 ^ (8 * 1))]
  rw [or_shl _ _ _ (by omega : b0.toNat + b1.toNat * 2 ^ (8 * 1) < 2 ^ (8 * 2))]

/-- the level-1 fetch update after a literal (quicklz.go:412) keeps `fetch = fastRead(source, src, 3)` -/
theorem fetch_shift3 {c : Buf} {p f : Nat} {b2 : UInt8} (h : fastRead c p 3 = some f) (h2 : c[p + 1 + 2]? = some b2) :
    fastRead c (p + 1) 3 = some (((f >>> 8) &&& 0xffff) ||| (b2.toNat <<< 16)) := by
  obtain ⟨a0, a1, a2, g0, g1, g2, rfl⟩ := fastRead3 h
  have e0 := a0.toNat_lt
  have e1 := a1.toNat_lt
  have e2 := a2.toNat_lt
  rw [fastRead3_mk g1 (by rw [show p + 1 + 1 = p + 2 by omega]; exact g2) h2]
  congr 1
  rw [and_ffff, shr, or_shl _ _ _ (by omega)]
  omega

/-- level-1 token decoder (quicklz.go:336-347) on the three fetched bytes: (matchlen, hash, token length) -/
def tok1 (f : Nat) : Nat × Nat × Nat :=
  if f % 16 ≠ 0 then (f % 16 + 2, f / 16 % 4096, 2) else (f / 65536 % 256, f / 16 % 4096, 3)

theorem decodeMatch1 {s : Buf} {st : St} {o : Int} (hf : fastRead s st.src 3 = some st.fetch)
    (ho : st.ht[(tok1 st.fetch).2.1]? = some o) :
    decodeMatch s 1 st = some ((tok1 st.fetch).1, o, st.src + (tok1 st.fetch).2.2) := by
  obtain ⟨b0, b1, b2, g0, g1, g2, hfe⟩ := fastRead3 hf
  have e0 := b0.toNat_lt
  have e1 := b1.toNat_lt
  have e2 := b2.toNat_lt
  have hh : (tok1 st.fetch).2.1 = st.fetch / 16 % 4096 := by unfold tok1; split <;> rfl
  rw [hh] at ho
  unfold decodeMatch tok1
  simp only [if_true, and_fff, and_f, and_ff, shr, ho, g2]
  by_cases c1 : st.fetch % 16 = 0
  · simp only [c1, ne_eq, not_true_eq_false, if_false]
    congr 2
    congr 1
    omega
  · simp only [c1, ne_eq, not_false_eq_true, if_true]

theorem tok1_len (f : Nat) : (tok1 f).2.2 = 2 ∨ (tok1 f).2.2 = 3 := by
  unfold tok1; split
  · left; rfl
  · right; rfl

/-! ## `Int`-indexed reads at a non-negative index -/

theorem fastReadI_nat (d : Buf) (i : Int) (m n : Nat) (h : i = (m : Int)) : fastReadI d i n = fastRead d m n := by
  subst h
  unfold fastReadI
  rw [if_neg (by omega)]
  simp

theorem rdI_nat (d : Buf) (i : Int) (m : Nat) (h : i = (m : Int)) : rdI d i = d[m]? := by
  subst h
  unfold rdI
  rw [if_neg (by omega)]
  simp

theorem wrI_ok {ht : Array Int} (hs : ht.size = 4096) (f : Nat) (v : Int) :
    wrI ht (hashOf f) v = some (ht.setIfInBounds (hashOf f) v) := by
  unfold wrI
  rw [if_pos (by rw [hs]; exact hashOf_lt f)]

/-! ## runs of hash-table updates -/

theorem hashUpdLit_succ (d : Buf) (n : Nat) (ht : Array Int) (lh : Int) :
    hashUpdLit d (n + 1) ht lh =
      match fastReadI d (lh + 1) 3 with
      | none => none
      | some f2 =>
        match wrI ht (hashOf f2) (lh + 1) with
        | none => none
        | some ht' => hashUpdLit d n ht' (lh + 1) := by
  conv => lhs; unfold hashUpdLit
  rfl

theorem hashUpdLit_congr {d x : Buf} {Q : Nat} (hag : ∀ j, j < Q → d[j]? = x[j]?) :
    ∀ (n : Nat) (ht : Array Int) (lh : Int), -1 ≤ lh → (n ≠ 0 → lh + n + 3 ≤ Q) →
      hashUpdLit d n ht lh = hashUpdLit x n ht lh := by
  intro n
  induction n with
  | zero => intro ht lh _ _; rfl
  | succ n ih =>
    intro ht lh h1 hq
    have hq' := hq (by omega)
    obtain ⟨m, hm⟩ : ∃ m : Nat, lh + 1 = (m : Int) := ⟨(lh + 1).toNat, by omega⟩
    rw [hashUpdLit_succ, hashUpdLit_succ, fastReadI_nat d _ m 3 hm, fastReadI_nat x _ m 3 hm]
    have : fastRead d m 3 = fastRead x m 3 := fastRead_congr 3 (fun j hj => hag _ (by omega))
    rw [this]
    cases fastRead x m 3 with
    | none => rfl
    | some f2 =>
      simp only
      cases wrI ht (hashOf f2) (lh + 1) with
      | none => rfl
      | some ht' =>
        simp only
        exact ih ht' (lh + 1) (by omega) (fun _ => by omega)

theorem hashUpdLit_add (d : Buf) : ∀ (a b : Nat) (ht : Array Int) (lh : Int),
    hashUpdLit d (a + b) ht lh =
      match hashUpdLit d a ht lh with
      | none => none
      | some (ht', lh') => hashUpdLit d b ht' lh' := by
  intro a
  induction a with
  | zero => intro b ht lh; simp [hashUpdLit]
  | succ a ih =>
    intro b ht lh
    rw [show a + 1 + b = (a + b) + 1 by omega, hashUpdLit_succ, hashUpdLit_succ]
    cases fastReadI d (lh + 1) 3 with
    | none => rfl
    | some f2 =>
      simp only
      cases wrI ht (hashOf f2) (lh + 1) with
      | none => rfl
      | some ht' =>
        simp only
        exact ih b ht' (lh + 1)

/-- sizes, and every entry after a run is the old entry or one of the positions entered -/
theorem hashUpdLit_get (d : Buf) : ∀ (n : Nat) (ht : Array Int) (lh : Int) (ht' : Array Int) (lh' : Int),
    hashUpdLit d n ht lh = some (ht', lh') →
      ht'.size = ht.size ∧ ∀ h : Nat, ht'[h]? = ht[h]? ∨ ∃ p : Int, lh < p ∧ p ≤ lh + n ∧ ht'[h]? = some p := by
  intro n
  induction n with
  | zero =>
    intro ht lh ht' lh' h
    simp only [hashUpdLit, Option.some.injEq, Prod.mk.injEq] at h
    obtain ⟨rfl, rfl⟩ := h
    exact ⟨rfl, fun h => Or.inl rfl⟩
  | succ n ih =>
    intro ht lh ht' lh' h
    rw [hashUpdLit_succ] at h
    split at h
    · cases h
    · rename_i f2 hf2
      split at h
      · cases h
      · rename_i ht1 hw
        obtain ⟨hs, hg⟩ := ih _ _ _ _ h
        unfold wrI at hw
        split at hw
        · cases hw
          refine ⟨by rw [hs, Array.size_setIfInBounds], ?_⟩
          intro k
          rcases hg k with h1 | ⟨p, p1, p2, p3⟩
          · rw [h1, Array.getElem?_setIfInBounds]
            split
            · right; exact ⟨lh + 1, by omega, by omega, rfl⟩
            · left; rfl
          · right; exact ⟨p, by omega, by omega, p3⟩
        · cases hw

/-- one update (quicklz.go:405-409 with a single iteration) -/
theorem hashUpdLit_one {d : Buf} {ht : Array Int} {lh : Int} {m f : Nat} (hm : lh + 1 = (m : Int)) (hs : ht.size = 4096)
    (hf : fastRead d m 3 = some f) :
    hashUpdLit d 1 ht lh = some (ht.setIfInBounds (hashOf f) (m : Int), (m : Int)) := by
  rw [hashUpdLit_succ, fastReadI_nat d _ m 3 hm, hf]
  simp only
  rw [wrI_ok hs, hm]
  rfl

/-- the loop after a match (rolling fetch) enters what the loop after a literal (re-reading) would -/
theorem hashUpdMatch_lit (d : Buf) : ∀ (n : Nat) (ht : Array Int) (lh : Int) (f : Nat), -1 ≤ lh → ht.size = 4096 →
    fastReadI d (lh + 1) 3 = some f → lh + n + 3 < d.size →
    ∃ ht' f', hashUpdMatch d n ht lh f = some (ht', lh + n, f') ∧ hashUpdLit d n ht lh = some (ht', lh + n) := by
  intro n
  induction n with
  | zero => intro ht lh f _ _ _ _; exact ⟨ht, f, by simp [hashUpdMatch], by simp [hashUpdLit]⟩
  | succ n ih =>
    intro ht lh f h1 hs hf hb
    obtain ⟨m, hm⟩ : ∃ m : Nat, lh + 1 = (m : Int) := ⟨(lh + 1).toNat, by omega⟩
    have hf' := hf
    rw [fastReadI_nat d _ m 3 hm] at hf'
    obtain ⟨b, hb3⟩ := getElem?_ok (a := d) (i := m + 1 + 2) (by omega)
    have hroll := fetch_shift3 hf' hb3
    unfold hashUpdMatch
    rw [hashUpdLit_succ, hf]
    simp only
    rw [wrI_ok hs, rdI_nat d _ (m + 1 + 2) (by omega), hb3]
    simp only
    obtain ⟨ht', f', e1, e2⟩ := ih (ht.setIfInBounds (hashOf f) (lh + 1)) (lh + 1) _ (by omega)
      (by rw [Array.size_setIfInBounds]; exact hs)
      (by rw [fastReadI_nat d _ (m + 1) 3 (by omega)]; exact hroll) (by omega)
    refine ⟨ht', f', ?_, ?_⟩
    · rw [e1]; congr 3; omega
    · rw [e2]; congr 2; omega

end QlzRT
